(* C17 -- equivalent stresses are rotation invariant, positively homogeneous, equal their definitions over the
   principal stresses, obey Mises <= Tresca <= 2/sqrt 3 Mises and the documented sign conventions.
   Only statements, `exact`, and Print Assumptions.

   eqs_* / eqa_* (mises, _sign_trace, signed_mises_trace; scalar / array code path) are GENERATED from
   /repo/src/pylife/stress/equistress.py on every run; mises_t, sign_trace_t, signed_mises_trace_t are these
   functions applied to the six components of a tensor.  tresca_m, max/min/abs_max_principal_m, sign_amp_m and the
   signed variants are the hand-written mirror of the source over the triple w returned by np.linalg.eigvalsh
   (tied to the implementation by per-run certificates).  `is_eig a w` is the contract of eigvalsh: w ascending,
   elementary symmetric functions of w = invariants I1, I2, I3 of a. *)
From Coq Require Import Reals.
From PL Require Import Common.RPrelude Stress.C17.
From PLgen Require Import GenEquistress.
Open Scope R_scope.

Theorem mises_sq_is_invariants a :
  0 <= mises_t a /\ mises_t a ^ 2 = I1 a ^ 2 - 3 * I2 a /\
  mises_t a = sqrt (((s11 a - s22 a) ^ 2 + (s22 a - s33 a) ^ 2 + (s33 a - s11 a) ^ 2) / 2 + 3 * (s12 a ^ 2 + s13 a ^ 2 + s23 a ^ 2)).
Proof. exact (C17.mises_sq_is_invariants a). Qed.

Theorem I1_I2_I3_rotation_invariant q a : orthogonal q ->
  I1 (rotate q a) = I1 a /\ I2 (rotate q a) = I2 a /\ I3 (rotate q a) = I3 a.
Proof. exact (C17.I1_I2_I3_rotation_invariant q a). Qed.

Theorem mises_rotation_invariant q a : orthogonal q -> mises_t (rotate q a) = mises_t a.
Proof. exact (C17.mises_rotation_invariant q a). Qed.

Theorem eigenvalues_rotation_invariant q a w w' :
  orthogonal q -> is_eig a w -> is_eig (rotate q a) w' -> w' = w.
Proof. exact (C17.eigenvalues_rotation_invariant q a w w'). Qed.

Theorem equivalent_stresses_rotation_invariant q a w w' :
  orthogonal q -> is_eig a w -> is_eig (rotate q a) w' ->
  mises_t (rotate q a) = mises_t a /\ signed_mises_trace_t (rotate q a) = signed_mises_trace_t a /\
  signed_mises_amp_m (rotate q a) w' = signed_mises_amp_m a w /\
  tresca_m w' = tresca_m w /\ signed_tresca_trace_m (rotate q a) w' = signed_tresca_trace_m a w /\
  signed_tresca_amp_m w' = signed_tresca_amp_m w /\
  max_principal_m w' = max_principal_m w /\ min_principal_m w' = min_principal_m w /\
  abs_max_principal_m w' = abs_max_principal_m w.
Proof. exact (C17.equivalent_stresses_rotation_invariant q a w w'). Qed.

Theorem eigenvalues_positively_homogeneous c a w w' :
  0 <= c -> is_eig a w -> is_eig (tscale c a) w' -> w' = escale c w.
Proof. exact (C17.eigenvalues_positively_homogeneous c a w w'). Qed.

Theorem positively_homogeneous c a w w' :
  0 < c -> is_eig a w -> is_eig (tscale c a) w' ->
  mises_t (tscale c a) = c * mises_t a /\ signed_mises_trace_t (tscale c a) = c * signed_mises_trace_t a /\
  signed_mises_amp_m (tscale c a) w' = c * signed_mises_amp_m a w /\
  tresca_m w' = c * tresca_m w /\ signed_tresca_trace_m (tscale c a) w' = c * signed_tresca_trace_m a w /\
  signed_tresca_amp_m w' = c * signed_tresca_amp_m w /\
  max_principal_m w' = c * max_principal_m w /\ min_principal_m w' = c * min_principal_m w /\
  abs_max_principal_m w' = c * abs_max_principal_m w.
Proof. exact (C17.positively_homogeneous c a w w'). Qed.

Theorem mises_from_principal_differences a w : roots_of a w ->
  let '(w0, w1, w2) := w in mises_t a = sqrt (((w0 - w1) ^ 2 + (w1 - w2) ^ 2 + (w2 - w0) ^ 2) / 2).
Proof. exact (C17.mises_from_principal_differences a w). Qed.

Theorem tresca_is_max_minus_min w : tresca_m w = amax3 w - amin3 w.
Proof. exact (C17.tresca_is_max_minus_min w). Qed.

Theorem principal_extremes w0 w1 w2 : sorted3 (w0, w1, w2) ->
  max_principal_m (w0, w1, w2) = w2 /\ min_principal_m (w0, w1, w2) = w0 /\ tresca_m (w0, w1, w2) = w2 - w0.
Proof. exact (C17.principal_extremes w0 w1 w2). Qed.

Theorem amax3_amin3_are_extremes w :
  (let '(a, b, c) := w in a <= amax3 w /\ b <= amax3 w /\ c <= amax3 w /\ (amax3 w = a \/ amax3 w = b \/ amax3 w = c)) /\
  (let '(a, b, c) := w in amin3 w <= a /\ amin3 w <= b /\ amin3 w <= c /\ (amin3 w = a \/ amin3 w = b \/ amin3 w = c)).
Proof. exact (C17.amax3_amin3_are_extremes w). Qed.

Theorem mises_le_tresca_le_2_over_sqrt3_mises a w : is_eig a w ->
  mises_t a <= tresca_m w /\ tresca_m w <= 2 / sqrt 3 * mises_t a.
Proof. exact (C17.mises_le_tresca_le_2_over_sqrt3_mises a w). Qed.

Theorem mises_tresca_bounds_attained :
  (is_eig (mkT 1 0 0 0 0 0) (0, 0, 1) /\ mises_t (mkT 1 0 0 0 0 0) = tresca_m (0, 0, 1)) /\
  (is_eig (mkT 0 0 0 1 0 0) (-1, 0, 1) /\ tresca_m (-1, 0, 1) = 2 / sqrt 3 * mises_t (mkT 0 0 0 1 0 0)).
Proof. exact C17.mises_tresca_bounds_attained. Qed.

Theorem abs_max_principal_is_largest_magnitude w0 w1 w2 : sorted3 (w0, w1, w2) ->
  let r := abs_max_principal_m (w0, w1, w2) in
  (r = w0 \/ r = w2) /\ Rabs r = Rmax (Rmax (Rabs w0) (Rabs w1)) (Rabs w2) /\ (Rabs w0 = Rabs w2 -> r = w2) /\
  sign_amp_m (w0, w1, w2) = (if Rle_dec 0 r then 1 else -1).
Proof. exact (C17.abs_max_principal_is_largest_magnitude w0 w1 w2). Qed.

Theorem signed_magnitude_and_sign a w :
  signed_mises_trace_t a = pm (I1 a) (mises_t a) /\ Rabs (signed_mises_trace_t a) = mises_t a /\
  signed_tresca_trace_m a w = pm (I1 a) (tresca_m w) /\ Rabs (signed_tresca_trace_m a w) = tresca_m w /\
  signed_mises_amp_m a w = pm (amax3 w + amin3 w) (mises_t a) /\ Rabs (signed_mises_amp_m a w) = mises_t a /\
  signed_tresca_amp_m w = pm (amax3 w + amin3 w) (tresca_m w) /\ Rabs (signed_tresca_amp_m w) = tresca_m w.
Proof. exact (C17.signed_magnitude_and_sign a w). Qed.

(* pm is "+x for an indicator >= 0 (zero included), -x below" *)
Theorem pm_is_documented_sign ind x : (0 <= ind -> pm ind x = x) /\ (ind < 0 -> pm ind x = - x).
Proof. exact (C17.pm_is_documented_sign ind x). Qed.

Theorem sign_functions_are_plus_minus_one a w :
  sign_trace_t a = (if Rle_dec 0 (I1 a) then 1 else -1) /\ sign_amp_m w = (if Rle_dec 0 (amax3 w + amin3 w) then 1 else -1).
Proof. exact (C17.sign_functions_are_plus_minus_one a w). Qed.

Theorem scalar_and_array_paths_agree x11 x22 x33 x12 x13 x23 :
  eqa_mises x11 x22 x33 x12 x13 x23 = eqs_mises x11 x22 x33 x12 x13 x23 /\
  eqa__sign_trace x11 x22 x33 = eqs__sign_trace x11 x22 x33 /\
  eqa_signed_mises_trace x11 x22 x33 x12 x13 x23 = eqs_signed_mises_trace x11 x22 x33 x12 x13 x23.
Proof. exact (C17.scalar_and_array_paths_agree x11 x22 x33 x12 x13 x23). Qed.

Theorem signed_mises_trace_array_path x11 x22 x33 x12 x13 x23 :
  eqa_signed_mises_trace x11 x22 x33 x12 x13 x23 = pm (x11 + x22 + x33) (eqa_mises x11 x22 x33 x12 x13 x23) /\
  eqa__sign_trace x11 x22 x33 = (if Rle_dec 0 (x11 + x22 + x33) then 1 else -1).
Proof. exact (C17.signed_mises_trace_array_path x11 x22 x33 x12 x13 x23). Qed.

(* the same for an eigen-solver function with the contract (np.linalg.eigvalsh as a quantified variable) *)
Theorem contract_rotation_invariant (eig : Tens -> E3) : (forall a, is_eig a (eig a)) -> forall q a, orthogonal q ->
  eig (rotate q a) = eig a /\ tresca_f eig (rotate q a) = tresca_f eig a /\
  max_principal_f eig (rotate q a) = max_principal_f eig a /\ min_principal_f eig (rotate q a) = min_principal_f eig a /\
  abs_max_principal_f eig (rotate q a) = abs_max_principal_f eig a /\
  signed_tresca_trace_f eig (rotate q a) = signed_tresca_trace_f eig a /\ signed_tresca_amp_f eig (rotate q a) = signed_tresca_amp_f eig a /\
  signed_mises_amp_f eig (rotate q a) = signed_mises_amp_f eig a.
Proof. exact (C17.contract_rotation_invariant eig). Qed.

Theorem contract_positively_homogeneous (eig : Tens -> E3) : (forall a, is_eig a (eig a)) -> forall c a, 0 < c ->
  eig (tscale c a) = escale c (eig a) /\ tresca_f eig (tscale c a) = c * tresca_f eig a /\
  max_principal_f eig (tscale c a) = c * max_principal_f eig a /\ min_principal_f eig (tscale c a) = c * min_principal_f eig a /\
  abs_max_principal_f eig (tscale c a) = c * abs_max_principal_f eig a /\
  signed_tresca_trace_f eig (tscale c a) = c * signed_tresca_trace_f eig a /\ signed_tresca_amp_f eig (tscale c a) = c * signed_tresca_amp_f eig a /\
  signed_mises_amp_f eig (tscale c a) = c * signed_mises_amp_f eig a.
Proof. exact (C17.contract_positively_homogeneous eig). Qed.

Theorem contract_principal_definitions (eig : Tens -> E3) : (forall a, is_eig a (eig a)) -> forall a,
  let '(w0, w1, w2) := eig a in
  min_principal_f eig a = w0 /\ max_principal_f eig a = w2 /\ tresca_f eig a = w2 - w0 /\
  mises_t a = sqrt (((w0 - w1) ^ 2 + (w1 - w2) ^ 2 + (w2 - w0) ^ 2) / 2) /\
  mises_t a <= tresca_f eig a <= 2 / sqrt 3 * mises_t a.
Proof. exact (C17.contract_principal_definitions eig). Qed.

(* the hypotheses of the implications are satisfiable: a non-diagonal tensor, a proper rotation, degenerate cases *)
Theorem hypotheses_satisfiable :
  is_eig ex_a (0, 1, 3) /\ (orthogonal ex_q /\ mdet ex_q = 1) /\
  (rotate ex_q ex_a = mkT (26/25) (74/25) 0 (-7/25) 0 0 /\ is_eig (rotate ex_q ex_a) (0, 1, 3)) /\
  (is_eig (mkT 0 0 0 0 0 0) (0, 0, 0) /\ sign_trace_t (mkT 0 0 0 0 0 0) = 1 /\ sign_amp_m (0, 0, 0) = 1) /\
  (is_eig (mkT 0 0 0 1 0 0) (-1, 0, 1) /\ signed_tresca_amp_m (-1, 0, 1) = 2 /\ abs_max_principal_m (-1, 0, 1) = 1).
Proof. exact C17.hypotheses_satisfiable. Qed.

Print Assumptions mises_sq_is_invariants.
Print Assumptions I1_I2_I3_rotation_invariant.
Print Assumptions mises_rotation_invariant.
Print Assumptions eigenvalues_rotation_invariant.
Print Assumptions equivalent_stresses_rotation_invariant.
Print Assumptions eigenvalues_positively_homogeneous.
Print Assumptions positively_homogeneous.
Print Assumptions mises_from_principal_differences.
Print Assumptions tresca_is_max_minus_min.
Print Assumptions principal_extremes.
Print Assumptions amax3_amin3_are_extremes.
Print Assumptions mises_le_tresca_le_2_over_sqrt3_mises.
Print Assumptions mises_tresca_bounds_attained.
Print Assumptions abs_max_principal_is_largest_magnitude.
Print Assumptions signed_magnitude_and_sign.
Print Assumptions pm_is_documented_sign.
Print Assumptions sign_functions_are_plus_minus_one.
Print Assumptions scalar_and_array_paths_agree.
Print Assumptions signed_mises_trace_array_path.
Print Assumptions contract_rotation_invariant.
Print Assumptions contract_positively_homogeneous.
Print Assumptions contract_principal_definitions.
Print Assumptions hypotheses_satisfiable.
