(* C01 -- rainflow counting is independent of how the signal is chunked.
   Model: PL.Rainflow.Model (hand-written, tied to the code by the correspondence check of harness/props/c01.py).
   Only statements, `exact`, Print Assumptions. *)
From Coq Require Import ZArith List Bool.
From PL Require Import Rainflow.Model Rainflow.Eqb Rainflow.ChunkThm Rainflow.ChunkFKM Rainflow.Chunk4 Rainflow.Chunk3 Rainflow.Bounded.
Import ListNotations.
Open Scope Z_scope.

(* turning-point extraction: every partition into non-empty chunks emits, concatenated, exactly the turns
   (global index, value) of the one-piece run and ends in the same (tail, head) *)
Theorem new_turns_chunked (cs : list (list Z)) :
  cs <> [] -> Forall (fun C => C <> []) cs -> feed [] 0 cs = feed [] 0 [concat cs].
Proof. exact (ChunkThm.new_turns_chunked cs). Qed.

(* FKM detector: same cycles, residuals, residual index for every partition (unbounded) *)
Theorem fkm_chunked (cs : list (list Z)) :
  cs <> [] -> Forall (fun C => C <> []) cs -> runF cs = runF [concat cs].
Proof. exact (ChunkFKM.fkm_chunked cs). Qed.

(* recorder bookkeeping: chunk list = chunk lengths; the index map addresses the right sample *)
Theorem recorder_chunks_4pt cs : chunks (fold_left process4 cs init) = map (@length Z) cs.
Proof. exact (ChunkFKM.chunks_process4 cs init). Qed.
Theorem recorder_chunks_3pt cs : chunks (fold_left process3 cs init) = map (@length Z) cs.
Proof. exact (ChunkFKM.chunks_process3 cs init). Qed.

Theorem chunk_local_index_correct (chunks : list (list Z)) g :
  Forall (fun C => C <> []) chunks -> (g < length (concat chunks))%nat ->
  let '(k, l) := chunk_local_index (map (@length Z) chunks) g in
  (k < length chunks)%nat /\ (l < length (nth k chunks []))%nat /\
  nth l (nth k chunks []) 0 = nth g (concat chunks) 0.
Proof. exact (ChunkFKM.chunk_local_index_correct chunks g). Qed.

(* four-point detector: same cycles (values AND sample indices, in order), same residuals, same residual
   index for EVERY signal and EVERY partition into non-empty chunks (unbounded).  Proof: after any prefix the
   detector state is a function of the prefix alone (Chunk4.StateOK), by refinement of the Cython loop to an
   item-level stack machine, irreducibility of the stored residual (re-scan closes nothing) and provisional
   monotonicity (what the chunk's last sample closes, the next real turning point closes too, in order). *)
Theorem fourpoint_chunked (cs : list (list Z)) :
  cs <> [] -> Forall (fun C => C <> []) cs ->
  let '(c1, r1, i1, _) := run4 cs in let '(c2, r2, i2, _) := run4 [concat cs] in
  c1 = c2 /\ r1 = r2 /\ i1 = i2.
Proof. exact (Chunk4.fourpoint_chunked cs). Qed.

(* three-point detector: the same, unbounded.  The next chunk restarts the Cython loop from the stored residual
   with highest/lowest front recomputed by argmax/argmin over it.  Proof: refinement of the loop to an item-level
   machine that keeps the values of the two fronts and the number of stack entries below each (Refine3); on
   alternating input the stack is a strictly diverging part whose top two entries are the two extremes, followed
   by a strictly converging part (TPInv.Inv, inductive); for such a stack the recomputed fronts are the ones the
   one-piece run holds (or differ only in what examining the top repairs), pushing the residual again closes
   nothing, and the provisional last sample closes a prefix of what the next turning point closes (Chunk3). *)
Theorem threepoint_chunked (cs : list (list Z)) :
  cs <> [] -> Forall (fun C => C <> []) cs ->
  let '(c1, r1, i1, _) := run3 cs in let '(c2, r2, i2, _) := run3 [concat cs] in
  c1 = c2 /\ r1 = r2 /\ i1 = i2.
Proof. exact (Chunk3.threepoint_chunked cs). Qed.

(* four-/three-point detectors: bounded instances (every signal over {0..3} of length <= 7, EVERY partition),
   kept as an independent evaluation of the model; [fourpoint_chunked_statement] / [threepoint_chunked_statement]
   are the same claims in boolean form *)
Definition fourpoint_chunked_statement : Prop := forall cs,
  cs <> [] -> Forall (fun C => C <> []) cs -> eqobs_nochunks (run4 cs) (run4 [concat cs]) = true.
Definition threepoint_chunked_statement : Prop := forall cs,
  cs <> [] -> Forall (fun C => C <> []) cs -> eqobs_nochunks (run3 cs) (run3 [concat cs]) = true.

Theorem fourpoint_chunked_bounded cs :
  cs <> [] -> Forall (fun C => C <> []) cs ->
  (length (concat cs) <= 7)%nat -> Forall (fun x => 0 <= x <= 3) (concat cs) ->
  eqobs_nochunks (run4 cs) (run4 [concat cs]) = true.
Proof. exact (Bounded.fourpoint_chunked_bounded cs). Qed.

Theorem threepoint_chunked_bounded cs :
  cs <> [] -> Forall (fun C => C <> []) cs ->
  (length (concat cs) <= 7)%nat -> Forall (fun x => 0 <= x <= 3) (concat cs) ->
  eqobs_nochunks (run3 cs) (run3 [concat cs]) = true.
Proof. exact (Bounded.threepoint_chunked_bounded cs). Qed.

(* non-vacuity: a chunked signal with closed cycles, a plateau and a chunk border inside the plateau *)
Example chunked_example3 :
  run3 [[0; 2; 1]; [1; 3]; [0; 1; 0; 4]] = ([(2, 1, 1%nat, 2%nat); (0, 1, 5%nat, 6%nat); (3, 0, 4%nat, 7%nat)], [0; 4], [0%nat; 8%nat], [3%nat; 2%nat; 4%nat]).
Proof. vm_compute. reflexivity. Qed.
Example chunked_example :
  run4 [[0; 2; 1]; [1; 3]; [0; 1; 0; 4]] = ([(2, 1, 1%nat, 2%nat); (0, 1, 5%nat, 6%nat); (3, 0, 4%nat, 7%nat)], [0; 4], [0%nat; 8%nat], [3%nat; 2%nat; 4%nat]).
Proof. vm_compute. reflexivity. Qed.

Print Assumptions new_turns_chunked.
Print Assumptions fkm_chunked.
Print Assumptions fourpoint_chunked.
Print Assumptions threepoint_chunked.
Print Assumptions recorder_chunks_4pt.
Print Assumptions recorder_chunks_3pt.
Print Assumptions chunk_local_index_correct.
Print Assumptions fourpoint_chunked_bounded.
Print Assumptions threepoint_chunked_bounded.
