(* C06 -- notch approximation laws return the root of their equation, and its inverse.
   Only statements, `exact`, and Print Assumptions.  The functions en_*, sb_*, ro_* are GENERATED from
   /repo/src/pylife/materiallaws/{notch_approximation_law,notch_approximation_law_seegerbeste,rambgood}.py on every
   run; scipy.optimize.newton is not modelled (its output is certified per sample by the harness against these
   functions).  Guards: E, K' > 0, 0 < n' < 1, K_p >= 1 (Seeger-Beste: K_p > 1); positive loads, negative ones by
   the oddness theorems. *)
From Coq Require Import Reals.
From Coquelicot Require Import Coquelicot.
From PL Require Import Common.RPrelude Laws.C06.
From PLgen Require Import GenRambgood GenNeuber GenSeegerBeste.
Open Scope R_scope.

Section ExtendedNeuber.
Variables E K n Kp : R.
Hypothesis HE : 0 < E.
Hypothesis HK : 0 < K.
Hypothesis Hn : 0 < n < 1.
Hypothesis HKp : 1 <= Kp.

(* the generated implicit function is eq. 2.5-45 *)
Theorem en_equation s L : s <> 0 ->
  en_stress_implicit E K n Kp s L = ro_strain E K n s - L / s * Kp * ro_strain E K n (L / Kp).
Proof. exact (C06.en_f_nz E K n Kp HE HK Hn HKp s L). Qed.

Theorem en_f_increasing a b L : 0 <= L -> 0 < a -> a < b ->
  en_stress_implicit E K n Kp a L < en_stress_implicit E K n Kp b L.
Proof. exact (C06.en_f_increasing E K n Kp HE HK Hn HKp a b L). Qed.

Theorem en_root_exists_unique L : 0 < L ->
  exists s, (L / Kp <= s <= L /\ en_stress_implicit E K n Kp s L = 0) /\
            forall s', 0 < s' -> en_stress_implicit E K n Kp s' L = 0 -> s' = s.
Proof. exact (C06.en_root_exists_unique E K n Kp HE HK Hn HKp L). Qed.

Theorem en_root_bounds L s : 0 < L -> 0 < s -> en_stress_implicit E K n Kp s L = 0 -> L / Kp <= s <= L.
Proof. exact (C06.en_root_bounds E K n Kp HE HK Hn HKp L s). Qed.

Theorem en_equation_odd s L : en_stress_implicit E K n Kp (- s) (- L) = - en_stress_implicit E K n Kp s L.
Proof. exact (C06.en_f_odd E K n Kp HE HK Hn HKp s L). Qed.

Theorem en_root_odd s L : en_stress_implicit E K n Kp s L = 0 <-> en_stress_implicit E K n Kp (- s) (- L) = 0.
Proof. exact (C06.en_root_odd E K n Kp HE HK Hn HKp s L). Qed.

Theorem en_no_root_at_0 L : L <> 0 -> en_stress_implicit E K n Kp 0 L <> 0.
Proof. exact (C06.en_no_root_at_0 E K n Kp HE HK Hn HKp L). Qed.

Theorem en_root_increasing_in_L L1 L2 s1 s2 : 0 <= L1 -> L1 < L2 -> 0 < s1 -> 0 < s2 ->
  en_stress_implicit E K n Kp s1 L1 = 0 -> en_stress_implicit E K n Kp s2 L2 = 0 -> s1 < s2.
Proof. exact (C06.en_root_increasing_in_L E K n Kp HE HK Hn HKp L1 L2 s1 s2). Qed.

(* the analytic derivative Newton is given is the derivative of the generated f *)
Theorem en_fprime_is_derivative s L : s <> 0 ->
  is_derive (fun t => en_stress_implicit E K n Kp t L) s (en_d_stress_implicit E K n Kp s L).
Proof. exact (C06.en_fprime_is_derivative E K n Kp HE HK Hn HKp s L). Qed.

Theorem en_residual_bounds_error L s_hat s_star delta : 0 <= L -> 0 < s_hat -> 0 < s_star ->
  en_stress_implicit E K n Kp s_star L = 0 -> Rabs (en_stress_implicit E K n Kp s_hat L) <= delta ->
  Rabs (s_hat - s_star) <= E * delta.
Proof. exact (C06.en_residual_bounds_error E K n Kp HE HK Hn HKp L s_hat s_star delta). Qed.

(* secondary branch (eq. 2.5-46) = Masing doubling of the primary one *)
Theorem en_secondary_is_doubled ds dl :
  en_stress_secondary_implicit E K n Kp ds dl = 2 * en_stress_implicit E K n Kp (ds / 2) (dl / 2).
Proof. exact (C06.en_secondary_is_doubled E K n Kp HE HK Hn HKp ds dl). Qed.

Theorem en_secondary_is_masing ds dl :
  en_stress_secondary_implicit E K n Kp ds dl = 0 <-> en_stress_implicit E K n Kp (ds / 2) (dl / 2) = 0.
Proof. exact (C06.en_secondary_is_masing E K n Kp HE HK Hn HKp ds dl). Qed.

Theorem en_secondary_root_exists_unique dl : 0 < dl ->
  exists ds, (dl / Kp <= ds <= dl /\ en_stress_secondary_implicit E K n Kp ds dl = 0) /\
             forall ds', 0 < ds' -> en_stress_secondary_implicit E K n Kp ds' dl = 0 -> ds' = ds.
Proof. exact (C06.en_secondary_root_exists_unique E K n Kp HE HK Hn HKp dl). Qed.

Theorem en_secondary_fprime_is_derivative ds dl : ds <> 0 ->
  is_derive (fun t => en_stress_secondary_implicit E K n Kp t dl) ds (en_d_stress_secondary_implicit E K n Kp ds dl).
Proof. exact (C06.en_secondary_fprime_is_derivative E K n Kp HE HK Hn HKp ds dl). Qed.

(* backward direction: `load` solves the same equation for L; exact roots are mutually inverse *)
Theorem en_load_implicit_is_stress_implicit L s : en_load_implicit E K n Kp L s = en_stress_implicit E K n Kp s L.
Proof. exact (C06.en_load_implicit_is_stress_implicit E K n Kp HE HK Hn HKp L s). Qed.

Theorem en_load_exists s : 0 < s -> exists L, s <= L <= Kp * s /\ en_stress_implicit E K n Kp s L = 0.
Proof. exact (C06.en_load_exists E K n Kp HE HK Hn HKp s). Qed.

Theorem en_load_inverts_stress L s : 0 < L -> 0 < s -> en_stress_implicit E K n Kp s L = 0 ->
  forall L', 0 < L' -> en_load_implicit E K n Kp L' s = 0 -> L' = L.
Proof. exact (C06.en_load_inverts_stress E K n Kp HE HK Hn HKp L s). Qed.

Theorem en_stress_inverts_load L s : 0 < L -> 0 < s -> en_load_implicit E K n Kp L s = 0 ->
  forall s', 0 < s' -> en_stress_implicit E K n Kp s' L = 0 -> s' = s.
Proof. exact (C06.en_stress_inverts_load E K n Kp HE HK Hn HKp L s). Qed.

(* derivative w.r.t. the load, and how far the source's fprime for `load` may be from it (it is exact, or it
   over-estimates the slope by at most the elastic term L/(s E): see notes/build/C06.md, finding en-load-derivative) *)
Theorem en_load_derivative L s : s <> 0 -> L <> 0 ->
  is_derive (fun l => en_load_implicit E K n Kp l s) L
            (- (Kp / s) * (en_e_star E K n Kp L + L * (ro_tangential_compliance E K n (L / Kp) / Kp))).
Proof. exact (C06.en_load_derivative E K n Kp HE HK Hn HKp L s). Qed.

Theorem en_d_load_implicit_bounds L s : 0 < s -> 0 < L ->
  let D := - (Kp / s) * (en_e_star E K n Kp L + L * (ro_tangential_compliance E K n (L / Kp) / Kp)) in
  D - L / (s * E) <= en_d_load_implicit E K n Kp L s <= D /\ D < 0.
Proof. exact (C06.en_d_load_implicit_bounds E K n Kp HE HK Hn HKp L s). Qed.

Theorem en_load_secondary_derivative dl ds : ds <> 0 -> dl <> 0 ->
  is_derive (fun l => en_load_secondary_implicit E K n Kp l ds) dl
            (- (Kp / ds) * (en_delta_e_star E K n Kp dl + dl * (ro_tangential_compliance E K n (dl / (2 * Kp)) / Kp))).
Proof. exact (C06.en_load_secondary_derivative E K n Kp HE HK Hn HKp dl ds). Qed.

Theorem en_d_load_secondary_implicit_bounds dl ds : 0 < ds -> 0 < dl ->
  let D := - (Kp / ds) * (en_delta_e_star E K n Kp dl + dl * (ro_tangential_compliance E K n (dl / (2 * Kp)) / Kp)) in
  D - dl / (ds * E) <= en_d_load_secondary_implicit E K n Kp dl ds <= D /\ D < 0.
Proof. exact (C06.en_d_load_secondary_implicit_bounds E K n Kp HE HK Hn HKp dl ds). Qed.

(* the strain reported with the stress is the Ramberg-Osgood / Masing strain of that stress *)
Theorem en_strain_is_ramberg_osgood s L ds dl :
  en_strain E K n Kp s L = ro_strain E K n s /\ en_strain_secondary_branch E K n Kp ds dl = 2 * ro_strain E K n (ds / 2).
Proof. exact (C06.en_strain_is_ramberg_osgood E K n Kp HE HK Hn HKp s L ds dl). Qed.

(* arguments of either sign: the reported strain is odd under joint negation of (stress, load), and at a root of
   either sign the pair (stress, reported strain) lies on the Neuber hyperbola (eq. 2.5-45 / 2.5-46) *)
Theorem en_strain_odd s L ds dl :
  en_strain E K n Kp (- s) (- L) = - en_strain E K n Kp s L /\
  en_strain_secondary_branch E K n Kp (- ds) (- dl) = - en_strain_secondary_branch E K n Kp ds dl.
Proof. exact (C06.en_strain_odd E K n Kp HE HK Hn HKp s L ds dl). Qed.

Theorem en_strain_on_hyperbola s L ds dl :
  (s <> 0 -> en_stress_implicit E K n Kp s L = 0 -> s * en_strain E K n Kp s L = L * Kp * en_e_star E K n Kp L) /\
  (ds <> 0 -> en_stress_secondary_implicit E K n Kp ds dl = 0 ->
   ds * en_strain_secondary_branch E K n Kp ds dl = dl * Kp * en_delta_e_star E K n Kp dl).
Proof. exact (C06.en_strain_on_hyperbola E K n Kp HE HK Hn HKp s L ds dl). Qed.
End ExtendedNeuber.

Section SeegerBeste.
Variables E K n Kp : R.
Hypothesis HE : 0 < E.
Hypothesis HK : 0 < K.
Hypothesis Hn : 0 < n < 1.
Hypothesis HKp : 1 < Kp.

(* inside the bounds the generated function is eq. 2.8-42 as printed, with 0 < u < pi/2 *)
Theorem sb_u_in_bounds s L : 0 < L -> L / Kp < s < L -> 0 < sb_u_term E K n Kp s L < PI / 2.
Proof. exact (C06.sb_u_in_bounds E K n Kp HE HK Hn HKp s L). Qed.

Theorem sb_equation_in_bounds s L : 0 < L -> L / Kp < s < L ->
  let u := PI / 2 * ((L / s - 1) / (Kp - 1)) in
  sb_stress_implicit E K n Kp s L
  = ro_strain E K n s / ((2 / u ^ 2 * ln (1 / cos u) + (s / L) ^ 2 - s / L) * (L / s * Kp * ro_strain E K n (L / Kp))) - 1.
Proof. exact (C06.sb_equation_in_bounds E K n Kp HE HK Hn HKp s L). Qed.

Theorem sb_equation_joint_negation s L : sb_stress_implicit E K n Kp (- s) (- L) = sb_stress_implicit E K n Kp s L.
Proof. exact (C06.sb_equation_joint_negation E K n Kp HE HK Hn HKp s L). Qed.

Theorem sb_root_odd s L : sb_stress_implicit E K n Kp s L = 0 <-> sb_stress_implicit E K n Kp (- s) (- L) = 0.
Proof. exact (C06.sb_root_odd E K n Kp HE HK Hn HKp s L). Qed.

Theorem sb_secondary_is_masing ds dl :
  sb_stress_secondary_implicit E K n Kp ds dl = sb_stress_implicit E K n Kp (ds / 2) (dl / 2).
Proof. exact (C06.sb_secondary_is_masing_eq E K n Kp HE HK Hn HKp ds dl). Qed.

(* partial bound: no root in (L/(3K_p-2), L/K_p]; the upper bound s <= L and uniqueness are NOT proved
   (monotonicity of the middle term is open) -- they are checked per sample by certificates *)
Theorem sb_root_lower_bound_partial s L : 0 < L -> L / (3 * Kp - 2) < s ->
  sb_stress_implicit E K n Kp s L = 0 -> L / Kp < s.
Proof. exact (C06.sb_root_above_LKp E K n Kp HE HK Hn HKp s L). Qed.

Theorem sb_root_iff_equation s L :
  sb_middle_term E K n Kp s L * sb_neuber_strain E K n Kp s L <> 0 ->
  (sb_stress_implicit E K n Kp s L = 0 <->
   ro_strain E K n s = sb_middle_term E K n Kp s L * sb_neuber_strain E K n Kp s L).
Proof. exact (C06.sb_root_iff_equation E K n Kp HE HK Hn HKp s L). Qed.

Theorem sb_load_implicit_is_stress_implicit L s :
  sb_load_implicit E K n Kp L s = sb_stress_implicit E K n Kp s L /\
  sb_load_secondary_implicit E K n Kp L s = sb_stress_secondary_implicit E K n Kp s L.
Proof. exact (C06.sb_load_implicit_is_stress_implicit E K n Kp HE HK Hn HKp L s). Qed.

Theorem sb_strain_is_ramberg_osgood s L ds dl :
  sb_strain E K n Kp s L = ro_strain E K n s /\ sb_strain_secondary_branch E K n Kp ds dl = 2 * ro_strain E K n (ds / 2).
Proof. exact (C06.sb_strain_is_ramberg_osgood E K n Kp HE HK Hn HKp s L ds dl). Qed.

Theorem sb_strain_odd s L ds dl :
  sb_strain E K n Kp (- s) (- L) = - sb_strain E K n Kp s L /\
  sb_strain_secondary_branch E K n Kp (- ds) (- dl) = - sb_strain_secondary_branch E K n Kp ds dl.
Proof. exact (C06.sb_strain_odd E K n Kp HE HK Hn HKp s L ds dl). Qed.
End SeegerBeste.

Theorem c06_guards_satisfiable :
  exists E K n Kp L : R, 0 < E /\ 0 < K /\ 0 < n < 1 /\ 1 < Kp /\ 0 < L /\
    exists s, L / Kp <= s <= L /\ en_stress_implicit E K n Kp s L = 0.
Proof. exact C06.c06_guards_satisfiable. Qed.

Print Assumptions en_equation.
Print Assumptions en_f_increasing.
Print Assumptions en_root_exists_unique.
Print Assumptions en_root_bounds.
Print Assumptions en_equation_odd.
Print Assumptions en_root_odd.
Print Assumptions en_no_root_at_0.
Print Assumptions en_root_increasing_in_L.
Print Assumptions en_fprime_is_derivative.
Print Assumptions en_residual_bounds_error.
Print Assumptions en_secondary_is_doubled.
Print Assumptions en_secondary_is_masing.
Print Assumptions en_secondary_root_exists_unique.
Print Assumptions en_secondary_fprime_is_derivative.
Print Assumptions en_load_implicit_is_stress_implicit.
Print Assumptions en_load_exists.
Print Assumptions en_load_inverts_stress.
Print Assumptions en_stress_inverts_load.
Print Assumptions en_load_derivative.
Print Assumptions en_d_load_implicit_bounds.
Print Assumptions en_load_secondary_derivative.
Print Assumptions en_d_load_secondary_implicit_bounds.
Print Assumptions en_strain_is_ramberg_osgood.
Print Assumptions en_strain_odd.
Print Assumptions en_strain_on_hyperbola.
Print Assumptions sb_u_in_bounds.
Print Assumptions sb_equation_in_bounds.
Print Assumptions sb_equation_joint_negation.
Print Assumptions sb_root_odd.
Print Assumptions sb_secondary_is_masing.
Print Assumptions sb_root_lower_bound_partial.
Print Assumptions sb_root_iff_equation.
Print Assumptions sb_load_implicit_is_stress_implicit.
Print Assumptions sb_strain_is_ramberg_osgood.
Print Assumptions sb_strain_odd.
Print Assumptions c06_guards_satisfiable.
