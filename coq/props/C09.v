(* C09 -- FKM-nonlinear damage curves, damage parameter and damage accumulation are self-consistent.
   Only statements, `exact`, and Print Assumptions.
   GENERATED on every run from /repo: pram_*, praj_*, prajx_* (woehler_fkm_nonlinear.py), fkm*_gamma_L, fkmload_get_beta
   (fkm_load_distribution.py).  Hand-written and tied by certificates / correspondence: P_RAM_value, dc_N, dc_D (C09Damage),
   the accumulation over hysteresis tables (C09Accum, executable over Q), compute_beta (C09Beta, solver as Section variable). *)
From Coq Require Import Reals QArith List.
From Coquelicot Require Import Coquelicot.
From PL Require Import Common.RPrelude Assess.Layout FKM.C09Curves FKM.C09Damage FKM.C09Accum FKM.C09Multi FKM.C09Beta FKM.C09GammaL.
From PLgen Require Import GenWoehlerFKMNonlinear GenFKMLoadDistribution.
Open Scope R_scope.

Section PRAMCurve.
Variables Z D d1 d2 : R.
Hypothesis HD : 0 < D.
Hypothesis HZ : D < Z.
Hypothesis H1 : d1 < 0.
Hypothesis H2 : d2 < 0.
Let ND := pram_fatigue_life_limit Z D d1 d2.

(* mutual inverses: N(P(N)) = N on the finite-life range, P(N(P)) = P above the endurance value *)
Theorem pram_curve_inverse N P n :
  (0 < N -> N < ND -> pram_calc_N Z D d1 d2 (pram_calc_P_RAM Z D d1 d2 N) = Finite N) /\
  (D < P -> pram_calc_N Z D d1 d2 P = Finite n -> pram_calc_P_RAM Z D d1 d2 n = P).
Proof. exact (conj (C09Curves.pram_calc_N_of_calc_P Z D d1 d2 HD HZ H1 H2 N) (C09Curves.pram_calc_P_of_calc_N Z D d1 d2 HD HZ H1 H2 P n)). Qed.

Theorem pram_curve_strictly_decreasing :
  (forall N1 N2, 0 < N1 -> N1 < N2 -> N2 <= ND -> pram_calc_P_RAM Z D d1 d2 N2 < pram_calc_P_RAM Z D d1 d2 N1) /\
  (forall P1 P2 n1 n2, D < P1 -> P1 < P2 -> pram_calc_N Z D d1 d2 P1 = Finite n1 -> pram_calc_N Z D d1 d2 P2 = Finite n2 -> n2 < n1).
Proof. exact (conj (C09Curves.pram_calc_P_strictly_decreasing Z D d1 d2 HD HZ H1 H2) (C09Curves.pram_calc_N_strictly_decreasing Z D d1 d2 HD HZ H1 H2)). Qed.

Theorem pram_continuous_at_1e3 :
  continuous (pram_calc_P_RAM Z D d1 d2) 1000 /\ continuous (fun P => real (pram_calc_N Z D d1 d2 P)) Z /\
  pram_calc_N Z D d1 d2 Z = Finite 1000 /\ pram_calc_P_RAM Z D d1 d2 1000 = Z /\ pram_calc_P_RAM Z D d1 d2 ND = D.
Proof. exact (conj (C09Curves.pram_continuous_at_1e3 Z D d1 d2 HD HZ H1 H2) (conj (C09Curves.pram_calc_N_continuous_at_Z Z D d1 d2 HD HZ H1 H2) (C09Curves.pram_knee_values Z D d1 d2 HD HZ H1 H2))). Qed.

Theorem pram_continuous_everywhere N : 0 < N -> continuous (pram_calc_P_RAM Z D d1 d2) N.
Proof. exact (C09Curves.pram_calc_P_continuous Z D d1 d2 HD HZ H1 H2 N). Qed.

Theorem pram_infinite_at_and_below_limit P :
  (P <= D -> pram_calc_N Z D d1 d2 P = p_infty) /\
  (D < P -> exists n, pram_calc_N Z D d1 d2 P = Finite n /\ 0 < n < ND).
Proof. exact (conj (C09Curves.pram_infinite_at_and_below_limit Z D d1 d2 HD HZ H1 H2 P) (C09Curves.pram_finite_above_limit Z D d1 d2 HD HZ H1 H2 P)). Qed.

Theorem pram_life_limit_above_knee : 1000 < ND.
Proof. exact (C09Curves.pram_ND_gt_1000 Z D d1 d2 HD HZ H1 H2). Qed.
End PRAMCurve.

Section PRAJCurve.
Variables Z D d : R.
Hypothesis HD : 0 < D.
Hypothesis HZ : D < Z.
Hypothesis Hd : d < 0.
Let ND := praj_fatigue_life_limit Z D d.

Theorem praj_curve_inverse N P n :
  (0 < N -> N < ND -> praj_calc_N Z D d (praj_calc_P_RAJ Z D d N) = Finite N) /\
  (D < P -> praj_calc_N Z D d P = Finite n -> praj_calc_P_RAJ Z D d n = P).
Proof. exact (conj (C09Curves.praj_calc_N_of_calc_P Z D d HD HZ Hd N) (C09Curves.praj_calc_P_of_calc_N Z D d HD HZ Hd P n)). Qed.

Theorem praj_curve_strictly_decreasing :
  (forall N1 N2, 0 < N1 -> N1 < N2 -> N2 <= ND -> praj_calc_P_RAJ Z D d N2 < praj_calc_P_RAJ Z D d N1) /\
  (forall P1 P2 n1 n2, D < P1 -> P1 < P2 -> praj_calc_N Z D d P1 = Finite n1 -> praj_calc_N Z D d P2 = Finite n2 -> n2 < n1).
Proof. exact (conj (C09Curves.praj_calc_P_strictly_decreasing Z D d HD HZ Hd) (C09Curves.praj_calc_N_strictly_decreasing Z D d HD HZ Hd)). Qed.

Theorem praj_continuous :
  (forall N, 0 < N -> continuous (praj_calc_P_RAJ Z D d) N) /\
  (forall P, D < P -> continuous (fun p => real (praj_calc_N Z D d p)) P) /\ praj_calc_P_RAJ Z D d ND = D.
Proof. exact (conj (C09Curves.praj_calc_P_continuous Z D d HD HZ Hd) (conj (C09Curves.praj_calc_N_continuous Z D d HD HZ Hd) (C09Curves.praj_calcP_high Z D d HD HZ Hd ND (Rle_refl _)))). Qed.

Theorem praj_infinite_at_and_below_limit P :
  (P <= D -> praj_calc_N Z D d P = p_infty) /\
  (D < P -> exists n, praj_calc_N Z D d P = Finite n /\ 0 < n < ND).
Proof. exact (conj (C09Curves.praj_infinite_at_and_below_limit Z D d HD HZ Hd P) (C09Curves.praj_finite_above_limit Z D d HD HZ Hd P)). Qed.

Theorem praj_explicit_limit_same_law P PD :
  prajx_calc_N Z D d P PD = (if Rlt_dec PD P then Finite (npow (P / Z) (1 / d)) else p_infty) /\ prajx_calc_N Z D d P D = praj_calc_N Z D d P.
Proof. exact (conj (C09Curves.prajx_calc_N_given_limit Z D d HD HZ Hd P PD) (C09Curves.prajx_calc_N_default Z D d HD HZ Hd P)). Qed.
End PRAJCurve.

(* ---- damage parameter *)
Theorem P_RAM_formula g R_m E S_a S_m eps_a : 0 <= eps_a -> 0 < E ->
  let M := M_sigma g R_m in
  let k := if Rle_dec 0 S_m then M * (M + 2) else M / 3 * (M / 3 + 2) in
  let product := (S_a + k * S_m) * eps_a * E in
  (0 <= product -> P_RAM_value g R_m E S_a S_m eps_a = sqrt product) /\
  (product < 0 -> P_RAM_value g R_m E S_a S_m eps_a = 0).
Proof. exact (C09Damage.P_RAM_formula g R_m E S_a S_m eps_a). Qed.

Theorem damage_calculator_uses_curve Z D d1 d2 P : 0 < Z -> D < P -> pram_calc_N Z D d1 d2 P = Finite (dc_N Z d1 d2 P).
Proof. exact (C09Damage.dc_N_is_curve Z D d1 d2 P). Qed.

Theorem half_hysteresis_counts_half N : dc_D false N = dc_D true N / 2.
Proof. exact (C09Damage.dc_half_counts_half N). Qed.

(* ---- accumulation (over Q; rows = (damage, second pass?)) *)
Theorem lifetime_is_literal_accumulation rows :
  (forall r, In r rows -> (0 <= dmg r)%Q) -> (0 < D2 rows)%Q -> early rows = false ->
  let x := x_of rows in
  (D1 rows + x * D2 rows == 1)%Q /\ (n_times rows == x + 1)%Q /\ (n_cycles rows == (x + 1) * ofnat (H2n rows))%Q /\ (1 < x)%Q.
Proof. exact (C09Accum.lifetime_no_early_failure rows). Qed.

Theorem lifetime_early_failure_is_first_index rows : early rows = true ->
  (n_times rows == 0)%Q /\ (n_cycles rows == ofnat (n_until rows))%Q /\
  (forall m, (m <= n_until rows)%nat -> (sumQ (firstn m (map dmg rows)) < 1)%Q) /\
  (1 <= sumQ (firstn (S (n_until rows)) (map dmg rows)))%Q.
Proof. exact (C09Accum.lifetime_early_failure rows). Qed.

Theorem early_failure_iff_two_passes_reach_one rows : rows <> nil -> (forall r, In r rows -> (0 <= dmg r)%Q) ->
  (early rows = false <-> (D1 rows + D2 rows < 1)%Q).
Proof. exact (C09Accum.no_early_iff rows). Qed.

Theorem literal_accumulation_reaches_one_at_x rows k : (0 < D2 rows)%Q ->
  ((literal_sum rows k < 1)%Q <-> (ofnat k < x_of rows)%Q).
Proof. exact (C09Accum.literal_accumulation_reaches_one_at_x rows k). Qed.

(* ---- several assessment points at once: the collective is one table ordered (hysteresis, point) = concat blocks (block h = the
   rows of hysteresis h for the points 0 .. n-1); a per-point knee P_RAM_Z is broadcast by tiling it once per hysteresis.
   Row h * n + i is computed with the knee of point i (columns N, D of DamageCalculatorPRAM, hysteresis = (P_RAM, closed)) *)
Theorem multipoint_row_uses_own_knee (d1 d2 : R) (n h i : nat) (knees : list R) (blocks : list (list (R * bool))) :
  length knees = n -> well_formed n blocks -> (h < length blocks)%nat -> (i < n)%nat ->
  nth (h * n + i) (map2 (fun Z r => dc_D (snd r) (dc_N Z d1 d2 (fst r))) (tile (length blocks) knees) (concat blocks)) 0
  = dc_D (snd (nth i (nth h blocks nil) (0, true))) (dc_N (nth i knees 0) d1 d2 (fst (nth i (nth h blocks nil) (0, true)))).
Proof. exact (C09Multi.row_tiled (fun Z r => dc_D (snd r) (dc_N Z d1 d2 (fst r))) 0 (0, true) 0 n h i knees blocks). Qed.

(* the lifetime of point i read from the batch = the accumulation (theorems above) of the table of point i alone, with its own knee;
   dmg_row knee hysteresis = (damage, second pass?) is arbitrary *)
Theorem multipoint_lifetime_is_pointwise (Knee Hyst : Type) (dmg_row : Knee -> Hyst -> row) (dk : Knee) (dh : Hyst)
  (n i : nat) (knees : list Knee) (blocks : list (list Hyst)) :
  length knees = n -> well_formed n blocks -> (i < n)%nat ->
  let alone := map (dmg_row (nth i knees dk)) (point_table dh i blocks) in
  nth i (mp_n_until n (length blocks) (batch_rows dmg_row knees blocks)) O = n_until alone /\
  nth i (mp_n_times n (length blocks) (batch_rows dmg_row knees blocks)) 0%Q = n_times alone /\
  nth i (mp_n_cycles n (length blocks) (batch_rows dmg_row knees blocks)) 0%Q = n_cycles alone.
Proof. exact (C09Multi.mp_lifetime_pointwise dmg_row dk dh n i knees blocks). Qed.

(* repeating each knee k times (np.repeat) instead of tiling is NOT that; invisible with one hysteresis or equal knees *)
Theorem multipoint_repeated_knees_refuted :
  exists (knees : list nat) (blocks : list (list nat)) (n i : nat),
    length knees = n /\ well_formed n blocks /\ (i < n)%nat /\
    point_rows (length blocks) n i (map2 pair (rep_each (length blocks) knees) (concat blocks))
    <> map (pair (nth i knees 0%nat)) (map (fun b => nth i b 0%nat) blocks).
Proof. exact C09Multi.point_rows_repeated_refuted. Qed.

Theorem single_hysteresis_hides_layout (knees : list R) : rep_each 1 knees = tile 1 knees.
Proof. exact (C09Multi.rep_each_one knees). Qed.

Theorem equal_knees_hide_layout (c : R) (k : nat) (knees : list R) (r : nat) :
  List.Forall (eq c) knees -> nth r (rep_each k knees) c = nth r (tile k knees) c.
Proof. exact (Layout.uniform_hides_layout c k knees r). Qed.

(* ---- safety index *)
Theorem beta_is_quantile (root_of : R -> R) :
  (forall P_A, 0 < P_A < 1 -> Rabs (Phi (root_of P_A) - P_A) = 0) ->
  forall P_A, 0 < P_A < 1 ->
  Phi (- compute_beta root_of P_A) = P_A /\ forall b, Phi (- b) = P_A -> b = compute_beta root_of P_A.
Proof. exact (C09Beta.beta_is_quantile root_of). Qed.

Theorem Phi_strictly_increasing x y : x < y -> Phi x < Phi y.
Proof. exact (C09Beta.Phi_strictly_increasing x y). Qed.

(* ---- load safety factors *)
Theorem gamma_L_normal s_L beta L_max :
  fkmnormal_gamma_L (5 / 2) s_L beta L_max = (L_max + (7 / 10 * beta - 2) * s_L) / L_max /\
  fkmnormal_gamma_L 50 s_L beta L_max = (L_max + 7 / 10 * beta * s_L) / L_max.
Proof. exact (C09GammaL.gamma_L_normal s_L beta L_max). Qed.

Theorem gamma_L_lognormal LSD_s beta :
  fkmlognormal_gamma_L LSD_s (5 / 2) beta = Rmax 1 (Rpower 10 ((7 / 10 * beta - 2) * LSD_s)) /\
  fkmlognormal_gamma_L LSD_s 50 beta = Rmax 1 (Rpower 10 (7 / 10 * beta * LSD_s)).
Proof. exact (C09GammaL.gamma_L_lognormal LSD_s beta). Qed.

Theorem gamma_L_lognormal_ge_1 LSD_s P_L beta : 1 <= fkmlognormal_gamma_L LSD_s P_L beta.
Proof. exact (C09GammaL.gamma_L_lognormal_ge_1 LSD_s P_L beta). Qed.

Theorem gamma_L_blanket : fkmblanket_gamma_L (5 / 2) = 11 / 10 /\ fkmblanket_gamma_L 50 = 1.
Proof. exact C09GammaL.gamma_L_blanket. Qed.

Theorem get_beta_table :
  fkmload_get_beta (1 / 10 ^ 7) = 520 / 100 /\ fkmload_get_beta (1 / 10 ^ 6) = 475 / 100 /\
  fkmload_get_beta (1 / 10 ^ 5) = 427 / 100 /\ fkmload_get_beta (72 / 10 ^ 6) = 38 / 10 /\
  fkmload_get_beta (1 / 10 ^ 3) = 309 / 100 /\ fkmload_get_beta (23 / 100) = 739 / 1000 /\
  fkmload_get_beta (1 / 2) = 0.
Proof. exact C09GammaL.get_beta_table. Qed.

Print Assumptions pram_curve_inverse.
Print Assumptions pram_curve_strictly_decreasing.
Print Assumptions pram_continuous_at_1e3.
Print Assumptions pram_continuous_everywhere.
Print Assumptions pram_infinite_at_and_below_limit.
Print Assumptions pram_life_limit_above_knee.
Print Assumptions praj_curve_inverse.
Print Assumptions praj_curve_strictly_decreasing.
Print Assumptions praj_continuous.
Print Assumptions praj_infinite_at_and_below_limit.
Print Assumptions praj_explicit_limit_same_law.
Print Assumptions P_RAM_formula.
Print Assumptions damage_calculator_uses_curve.
Print Assumptions half_hysteresis_counts_half.
Print Assumptions lifetime_is_literal_accumulation.
Print Assumptions lifetime_early_failure_is_first_index.
Print Assumptions early_failure_iff_two_passes_reach_one.
Print Assumptions literal_accumulation_reaches_one_at_x.
Print Assumptions multipoint_row_uses_own_knee.
Print Assumptions multipoint_lifetime_is_pointwise.
Print Assumptions multipoint_repeated_knees_refuted.
Print Assumptions single_hysteresis_hides_layout.
Print Assumptions equal_knees_hide_layout.
Print Assumptions beta_is_quantile.
Print Assumptions Phi_strictly_increasing.
Print Assumptions gamma_L_normal.
Print Assumptions gamma_L_lognormal.
Print Assumptions gamma_L_lognormal_ge_1.
Print Assumptions gamma_L_blanket.
Print Assumptions get_beta_table.
