(* C10 -- FKM-nonlinear assessment: batch independence, sample insensitivity, monotonicity.
   Model: PL.Assess.Pipeline (composition of abstract stages with explicit contracts; every contract is checked on
   the implementation's stage outputs by harness/props/c10.py on every run).  Only statements, `exact`, Print Assumptions. *)
From Coq Require Import Reals List Lra Lia Bool.
From PL Require Import Assess.Pipeline Assess.PipelineEx Assess.Layout Assess.Decide.
Import ListNotations.
Open Scope R_scope.

(* ---- concrete facts about the load sequence (no contracts) *)

(* the maximum absolute load scales with the loads (table maximum / gamma_L maximum of a scaled sequence) *)
Theorem maxabs_scales c s : 0 <= c -> maxabs (scale c s) = c * maxabs s.
Proof. exact (Pipeline.maxabs_scale c s). Qed.

(* non-reversal samples and repeated values (inserted between neighbours u, v with u <= y <= v or v <= y <= u; the
   last sample of the sequence is not repeated: see Pipeline.ins1) do not change the maximum absolute load, hence no
   quantity derived from it *)
Theorem maxabs_refinement_invariant s s' : refines s s' -> maxabs s' = maxabs s.
Proof. exact (Pipeline.maxabs_refines s s'). Qed.

(* the load safety factors of fkm_load_distribution.py keep scaling monotone: after gamma_L the loads of the
   sequence scaled by c >= 1 are c' >= 1 times the loads of the unscaled one *)
Theorem gamma_normal_keeps_scaling_monotone alpha c M : 1 <= c -> 0 < M -> 0 < M + alpha ->
  0 < gamma_normal alpha M /\ gamma_normal alpha M <= c * gamma_normal alpha (c * M).
Proof. exact (Pipeline.gamma_normal_ok_neg alpha c M). Qed.
Theorem gamma_const_keeps_scaling_monotone g : 0 < g -> safety_ok (gamma_const g).
Proof. exact (Pipeline.gamma_const_ok g). Qed.

(* ---- row layout of per-point data in a batch (no contracts): the hysteresis table is ordered (hysteresis, point), row
   h * n + i belongs to point i.  Tiling the per-point knees Z once per hysteresis gives every row of point i the knee of
   point i, whatever the other points are; repeating each knee k times does not; with one common knee (uniform G, mild
   notches) the two broadcasts cannot be told apart *)
Theorem knee_rows_tiled_pointwise (Z : list R) (k h i : nat) :
  (h < k)%nat -> (i < length Z)%nat -> nth (h * length Z + i) (tile k Z) 0 = nth i Z 0.
Proof. exact (Layout.nth_tile 0 k Z h i). Qed.

Theorem knee_rows_repeated_refuted :
  exists (z : list nat) (k h i : nat),
    (h < k)%nat /\ (i < length z)%nat /\ nth (h * length z + i) (rep_each k z) 0%nat <> nth i z 0%nat.
Proof. exact Layout.rep_each_wrong. Qed.

Theorem uniform_knee_hides_layout (c : R) (k : nat) (Z : list R) (r : nat) :
  Forall (eq c) Z -> nth r (rep_each k Z) c = nth r (tile k Z) c.
Proof. exact (Layout.uniform_hides_layout c k Z r). Qed.

(* ---- decisions of the HCM in a batch (no contracts): every branch is decided by comparing two absolute loads or load extents of
   the FIRST point with an absolute tolerance eps (a > b + eps, a < b - eps) and applied to all points; point i alone compares
   ri * a with ri * b where the batch compares r0 * a with r0 * b.  Exact comparisons and tolerances proportional to the load
   magnitude are scale invariant; with an absolute tolerance the decision of the first point is the decision of point i when
   the compared quantities are equal or differ by more than eps at both points (`separated`) -- and for every eps > 0 and every
   pair of different quantities some positive ratio of the first point makes the batch decide differently from the point itself *)
Theorem hcm_exact_decision_scale_invariant r a b : 0 < r ->
  (gt_tol 0 (r * a) (r * b) <-> gt_tol 0 a b) /\ (lt_tol 0 (r * a) (r * b) <-> lt_tol 0 a b).
Proof. exact (fun Hr => conj (Decide.gt_exact_scale r a b Hr) (Decide.lt_exact_scale r a b Hr)). Qed.

Theorem hcm_relative_tolerance_scale_invariant eps r a b : 0 < r ->
  (gt_tol (eps * r) (r * a) (r * b) <-> gt_tol eps a b) /\ (lt_tol (eps * r) (r * a) (r * b) <-> lt_tol eps a b).
Proof. exact (fun Hr => conj (Decide.gt_relative_scale eps r a b Hr) (Decide.lt_relative_scale eps r a b Hr)). Qed.

Theorem hcm_decision_transfers_when_separated eps r0 ri a b : 0 <= eps -> 0 < r0 -> 0 < ri ->
  separated eps r0 a b -> separated eps ri a b ->
  (gt_tol eps (r0 * a) (r0 * b) <-> gt_tol eps (ri * a) (ri * b)) /\
  (lt_tol eps (r0 * a) (r0 * b) <-> lt_tol eps (ri * a) (ri * b)).
Proof.
  exact (fun He H0 Hi S0 Si => conj (Decide.gt_decision_transfers eps r0 ri a b He H0 Hi S0 Si)
                                    (Decide.lt_decision_transfers eps r0 ri a b He H0 Hi S0 Si)).
Qed.

Theorem hcm_absolute_tolerance_not_scale_invariant_refuted eps a b : 0 < eps -> a < b - eps ->
  exists r0, 0 < r0 /\ lt_tol eps (1 * a) (1 * b) /\ ~ lt_tol eps (r0 * a) (r0 * b).
Proof. exact (Decide.absolute_tolerance_not_scale_invariant eps a b). Qed.

Theorem hcm_separation_satisfiable :
  let eps := / 1000000000000 in
  separated eps (/ 100000000) 143.7 144.7 /\ separated eps 1 143.7 144.7 /\ separated eps (/ 100000000) 5 5.
Proof. exact Decide.separated_sat. Qed.

Section Stages.
  Variable LC : Type.
  Variable scaleLC : R -> LC -> LC.
  Variable closedLC : LC -> bool.
  Variable runLC : LC -> nat.
  Variable struct : list R -> list LC.
  Variable evalM : R -> LC -> R.
  Variable wM : R -> R -> R.
  Variable accM : list (R * nat) -> R.
  Variable resJ : R -> R -> R -> list LC -> R.
  Variable kown : R -> list LC -> R.
  Variable gamma : R -> R.
  Variable cfac : R.

  (* ---- batch independence *)
  (* a1 / a2 / a3: how the vectorised code obtains, for point j, the maximum load used by gamma_L, the table maximum
     of the binned notch law and the P_RAJ class maximum from the per-point values of the whole batch *)
  Theorem pointwise_if_shared_pointwise (a1 a2 a3 : list R -> nat -> R) pts i :
    (forall xs j, (j < length xs)%nat -> a1 xs j = own xs j) ->
    (forall xs j, (j < length xs)%nat -> a2 xs j = own xs j) ->
    (forall xs j, (j < length xs)%nat -> a3 xs j = own xs j) ->
    (i < length pts)%nat ->
    nth i (batch LC closedLC runLC struct evalM wM accM resJ kown gamma cfac a1 a2 a3 pts) (0, 0)
    = single LC closedLC runLC struct evalM wM accM resJ kown gamma cfac (nth i pts dpt).
  Proof. exact (Pipeline.pointwise_if_shared_pointwise LC closedLC runLC struct evalM wM accM resJ kown gamma cfac a1 a2 a3 pts i). Qed.

  (* ---- contracts of the stages (checked on the implementation on every run) *)
  Hypothesis struct_scale : forall c L, 0 < c -> struct (scale c L) = map (scaleLC c) (struct L).
  Hypothesis closed_scale : forall c h, closedLC (scaleLC c h) = closedLC h.
  Hypothesis run_scale : forall c h, runLC (scaleLC c h) = runLC h.
  Hypothesis struct_refines : forall L L', refines L L' -> struct L' = struct L.
  Hypothesis eval_scale : forall c M h, 1 <= c -> 0 < M -> evalM M h <= evalM (c * M) (scaleLC c h).
  Hypothesis w_P : forall Z P P', P <= P' -> wM Z P <= wM Z P'.
  Hypothesis w_Z : forall Z Z' P, Z <= Z' -> wM Z' P <= wM Z P.
  Hypothesis acc_antitone : forall ds ds',
    Forall2 (fun a b => fst a <= fst b /\ snd a = snd b) ds ds' -> accM ds' <= accM ds.
  Hypothesis gamma_ok : safety_ok gamma.
  Hypothesis cfac_pos : 0 < cfac.

  (* ---- monotonicity: loads scaled by c >= 1 and/or a lower component curve (rougher surface, smaller P_A) never
     give a longer P_RAM lifetime *)
  Theorem lifetime_antitone_in_scale c Z Z' s : 1 <= c -> 0 < maxabs s -> Z' <= Z ->
    lifeM LC closedLC runLC struct evalM wM accM gamma cfac Z' (scale c s)
    <= lifeM LC closedLC runLC struct evalM wM accM gamma cfac Z s.
  Proof.
    exact (Pipeline.lifetime_antitone_in_scale LC scaleLC closedLC runLC struct evalM wM accM gamma cfac
             struct_scale closed_scale run_scale eval_scale w_P w_Z acc_antitone gamma_ok cfac_pos c Z Z' s).
  Qed.

  Theorem lifetime_isotone_in_knee Z Z' s : 0 < maxabs s -> Z' <= Z ->
    lifeM LC closedLC runLC struct evalM wM accM gamma cfac Z' s
    <= lifeM LC closedLC runLC struct evalM wM accM gamma cfac Z s.
  Proof.
    exact (Pipeline.lifetime_isotone_in_knee LC scaleLC closedLC runLC struct evalM wM accM gamma cfac
             struct_scale closed_scale run_scale eval_scale w_P w_Z acc_antitone gamma_ok cfac_pos Z Z' s).
  Qed.

  (* ---- sample insensitivity (P_RAM and P_RAJ result of the point) *)
  Theorem refine_insensitive p s' : 0 < maxabs (pseq p) -> refines (pseq p) s' ->
    single LC closedLC runLC struct evalM wM accM resJ kown gamma cfac (s', snd p)
    = single LC closedLC runLC struct evalM wM accM resJ kown gamma cfac p.
  Proof. exact (Pipeline.refine_insensitive LC closedLC runLC struct evalM wM accM resJ kown gamma cfac struct_refines gamma_ok cfac_pos p s'). Qed.

  (* ---- failure probability: N_10 <= N_50 <= N_90 *)
  Variable beta : R -> R.
  Hypothesis beta_antitone : forall p p', 0 < p -> p <= p' -> p' < 1 -> beta p' <= beta p.

  Theorem N10_le_N50_le_N90 M2 Z lf25 L : 0 <= Z ->
    bearableM LC closedLC runLC struct evalM wM accM beta M2 Z lf25 L (1/10)
    <= bearableM LC closedLC runLC struct evalM wM accM beta M2 Z lf25 L (1/2) /\
    bearableM LC closedLC runLC struct evalM wM accM beta M2 Z lf25 L (1/2)
    <= bearableM LC closedLC runLC struct evalM wM accM beta M2 Z lf25 L (9/10).
  Proof. exact (Pipeline.N10_le_N50_le_N90 LC closedLC runLC struct evalM wM accM w_Z acc_antitone beta beta_antitone M2 Z lf25 L). Qed.

  Theorem N10_le_N50_le_N90_RAJ life lf25 slope : 0 <= life -> 0 <= slope ->
    bearableJ beta life lf25 slope (1/10) <= bearableJ beta life lf25 slope (1/2) /\
    bearableJ beta life lf25 slope (1/2) <= bearableJ beta life lf25 slope (9/10).
  Proof. exact (Pipeline.N10_le_N50_le_N90_RAJ beta beta_antitone life lf25 slope). Qed.
End Stages.

(* ---- the full statement "the batch result never depends on the other points" is false as soon as one shared
   quantity is a batch-wide maximum: witness in an instance that meets every contract above *)
Theorem shared_max_breaks_it_refuted :
  exists pts i, (i < length pts)%nat /\
    snd (nth i (batch R t_closed t_run t_struct t_evalM t_wM t_accM t_resJ t_kown t_gamma t_cfac own own batch_max pts) (0, 0))
    <> snd (single R t_closed t_run t_struct t_evalM t_wM t_accM t_resJ t_kown t_gamma t_cfac (nth i pts dpt)).
Proof. exact PipelineEx.shared_max_breaks_it_refuted. Qed.

(* ---- the contracts are satisfiable: the instance meets all of them, so the theorems specialise to closed statements *)
Theorem contracts_satisfiable :
  (forall c Z Z' s, 1 <= c -> 0 < maxabs s -> Z' <= Z ->
     lifeM R t_closed t_run t_struct t_evalM t_wM t_accM t_gamma t_cfac Z' (scale c s)
     <= lifeM R t_closed t_run t_struct t_evalM t_wM t_accM t_gamma t_cfac Z s) /\
  (forall p s', 0 < maxabs (pseq p) -> refines (pseq p) s' ->
     single R t_closed t_run t_struct t_evalM t_wM t_accM t_resJ t_kown t_gamma t_cfac (s', snd p)
     = single R t_closed t_run t_struct t_evalM t_wM t_accM t_resJ t_kown t_gamma t_cfac p) /\
  (forall M2 Z lf25 L, 0 <= Z ->
     bearableM R t_closed t_run t_struct t_evalM t_wM t_accM t_beta M2 Z lf25 L (1/10)
     <= bearableM R t_closed t_run t_struct t_evalM t_wM t_accM t_beta M2 Z lf25 L (1/2) /\
     bearableM R t_closed t_run t_struct t_evalM t_wM t_accM t_beta M2 Z lf25 L (1/2)
     <= bearableM R t_closed t_run t_struct t_evalM t_wM t_accM t_beta M2 Z lf25 L (9/10)).
Proof. exact PipelineEx.contracts_satisfiable. Qed.

Theorem instance_not_degenerate :
  lifeM R t_closed t_run t_struct t_evalM t_wM t_accM t_gamma t_cfac 0 (scale 2 [1])
  < lifeM R t_closed t_run t_struct t_evalM t_wM t_accM t_gamma t_cfac 0 [1].
Proof. exact PipelineEx.toy_strict. Qed.

Print Assumptions maxabs_scales.
Print Assumptions maxabs_refinement_invariant.
Print Assumptions gamma_normal_keeps_scaling_monotone.
Print Assumptions gamma_const_keeps_scaling_monotone.
Print Assumptions knee_rows_tiled_pointwise.
Print Assumptions knee_rows_repeated_refuted.
Print Assumptions uniform_knee_hides_layout.
Print Assumptions hcm_exact_decision_scale_invariant.
Print Assumptions hcm_relative_tolerance_scale_invariant.
Print Assumptions hcm_decision_transfers_when_separated.
Print Assumptions hcm_absolute_tolerance_not_scale_invariant_refuted.
Print Assumptions hcm_separation_satisfiable.
Print Assumptions pointwise_if_shared_pointwise.
Print Assumptions lifetime_antitone_in_scale.
Print Assumptions lifetime_isotone_in_knee.
Print Assumptions refine_insensitive.
Print Assumptions N10_le_N50_le_N90.
Print Assumptions N10_le_N50_le_N90_RAJ.
Print Assumptions shared_max_breaks_it_refuted.
Print Assumptions contracts_satisfiable.
Print Assumptions instance_not_degenerate.
