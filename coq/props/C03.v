(* C03 -- the rainflow result depends only on the reversal sequence; symmetries.
   Model: PL.Rainflow.Model (tied to the code by correspondence).  Only statements, `exact`, Print Assumptions. *)
From Coq Require Import ZArith List Bool.
From PL Require Import Rainflow.Model Rainflow.Eqb Rainflow.Spec Rainflow.SpecThm Rainflow.Symm Rainflow.Symm2 Rainflow.Bounded3 Rainflow.NaN Rainflow.Symm3 Rainflow.Symm3b Rainflow.NaNChunk.
Import ListNotations.
Open Scope Z_scope.

(* four-point detector, negated signal: every reported value negated, every index unchanged (unbounded) *)
Theorem negate_4pt s : s <> [] ->
  let '(c, r, ri, k) := run4 [s] in
  run4 [map Z.opp s] = (map (fun q => (- fst (fst (fst q)), - snd (fst (fst q)), snd (fst q), snd q)) c, map Z.opp r, ri, k).
Proof. exact (Symm.run4_map vm_neg s). Qed.

(* four-point detector, positive affine map a x + b, a > 0: values mapped the same way, indices unchanged (unbounded) *)
Theorem affine_4pt a b s : 0 < a -> s <> [] ->
  let g := fun x => a * x + b in
  let '(c, r, ri, k) := run4 [s] in
  run4 [map g s] = (map (fun q => (g (fst (fst (fst q))), g (snd (fst (fst q))), snd (fst q), snd q)) c, map g r, ri, k).
Proof. intros Ha. exact (Symm.run4_map (vm_affine a b Ha) s). Qed.

(* three-point detector (its kernel compares array positions; invariants: positions in range,
   turns[lowest front] <= turns[highest front]): same two statements, unbounded *)
Theorem negate_3pt s : s <> [] ->
  let '(c, r, ri, k) := run3 [s] in
  run3 [map Z.opp s] = (map (fun q => (- fst (fst (fst q)), - snd (fst (fst q)), snd (fst q), snd q)) c, map Z.opp r, ri, k).
Proof. exact (Symm3.run3_map vm_neg s). Qed.
Theorem affine_3pt a b s : 0 < a -> s <> [] ->
  let g := fun x => a * x + b in
  let '(c, r, ri, k) := run3 [s] in
  run3 [map g s] = (map (fun q => (g (fst (fst (fst q))), g (snd (fst (fst q))), snd (fst q), snd q)) c, map g r, ri, k).
Proof. intros Ha. exact (Symm3.run3_map (vm_affine a b Ha) s). Qed.

(* turning-point extraction is equivariant: same indices, mapped values (unbounded; used by all detectors) *)
Theorem find_turns_negate s : find_turns (map Z.opp s) = map (fun iv => (fst iv, - snd iv)) (find_turns s).
Proof. exact (Symm.find_turns_map vm_neg s). Qed.
Theorem find_turns_affine a b s : 0 < a ->
  find_turns (map (fun x => a * x + b) s) = map (fun iv => (fst iv, a * snd iv + b)) (find_turns s).
Proof. intros Ha. exact (Symm.find_turns_map (vm_affine a b Ha) s). Qed.

(* FKM detector: negation negates everything it reports; scaling by a > 0 scales it (unbounded) *)
Theorem negate_fkm s :
  let '(c, r, _) := runF [s] in let '(c', r', _) := runF [map Z.opp s] in
  c' = map (fun q => (- fst q, - snd q)) c /\ r' = map Z.opp r.
Proof. exact (Symm.runF_neg s). Qed.
Theorem fkm_scale a s : 0 < a ->
  let '(c, r, _) := runF [s] in let '(c', r', _) := runF [map (Z.mul a) s] in
  c' = map (fun q => (a * fst q, a * snd q)) c /\ r' = map (Z.mul a) r.
Proof. intros Ha. exact (Symm2.runF_scale a Ha s). Qed.

(* samples that are not reversals (inserted strictly inside the signal, non-strictly between their
   neighbours: points on monotone segments, repeated values) change no reported VALUE (unbounded) *)
Theorem reversal_values_insert l1 u y v l2 : (u <= y <= v \/ v <= y <= u) ->
  map snd (find_turns ((l1 ++ [u]) ++ y :: v :: l2)) = map snd (find_turns ((l1 ++ [u]) ++ v :: l2)).
Proof. exact (Symm2.reversal_values_insert l1 u y v l2). Qed.
Theorem refine_insensitive_4pt l1 u y v l2 : (u <= y <= v \/ v <= y <= u) ->
  let '(c, r, _, _) := run4 [(l1 ++ [u]) ++ y :: v :: l2] in
  let '(c', r', _, _) := run4 [(l1 ++ [u]) ++ v :: l2] in
  cyc_values c = cyc_values c' /\ r = r'.
Proof. exact (Symm2.run4_insert_values l1 u y v l2). Qed.
Theorem refine_insensitive_3pt l1 u y v l2 : (u <= y <= v \/ v <= y <= u) ->
  let '(c, r, _, _) := run3 [(l1 ++ [u]) ++ y :: v :: l2] in
  let '(c', r', _, _) := run3 [(l1 ++ [u]) ++ v :: l2] in
  cyc_values c = cyc_values c' /\ r = r'.
Proof. exact (Symm3b.run3_insert_values l1 u y v l2). Qed.
Theorem refine_insensitive_fkm l1 u y v l2 : (u <= y <= v \/ v <= y <= u) ->
  let '(c, r, _) := runF [(l1 ++ [u]) ++ y :: v :: l2] in
  let '(c', r', _) := runF [(l1 ++ [u]) ++ v :: l2] in
  c = c' /\ r = r'.
Proof. exact (Symm2.runF_insert_values l1 u y v l2). Qed.

(* NaN samples (anywhere): turning-point values are those of the NaN-free signal, and every reported index
   addresses, in the ORIGINAL signal, a non-NaN sample holding the reported value (unbounded).
   find_turns_nan models clean_nans + the index correction loop of general.find_turns literally. *)
Theorem nan_drop_index s :
  map snd (find_turns_nan s) = map snd (find_turns (clean s)) /\
  Forall (fun iv => nth_error s (fst iv) = Some (Some (snd iv))) (find_turns_nan s).
Proof. exact (NaN.nan_drop_index s). Qed.

(* three-point detector: the earlier bounded instances are kept as cross-checks (the unbounded statements are above) *)
Theorem threepoint_symmetries_bounded s :
  (1 <= length s <= 7)%nat -> Forall (fun x => 0 <= x <= 3) s ->
  eqobs (run3 [map Z.opp s]) (map_obs Z.opp (run3 [s])) = true /\
  forall a b, In (a, b) affs -> eqobs (run3 [map (fun x => a * x + b) s]) (map_obs (fun x => a * x + b) (run3 [s])) = true.
Proof. exact (Bounded3.threepoint_symmetries_bounded s). Qed.
Theorem threepoint_refine_bounded s j y :
  (1 <= length s <= 6)%nat -> Forall (fun x => 0 <= x <= 3) s -> 0 <= y <= 3 -> (j < length s)%nat ->
  insert_ok s j y = true.
Proof. exact (Bounded3.threepoint_refine_bounded s j y). Qed.

Example negate_example :
  run4 [map Z.opp [0; 3; 1; 1; 2; 1; 3; 0]] =
  ([(-1, -2, 2%nat, 4%nat); (-3, -1, 1%nat, 5%nat)], [0; -3; 0], [0%nat; 6%nat; 7%nat], [8%nat]).
Proof. vm_compute. reflexivity. Qed.

(* a NaN-containing signal fed in ANY chunking (chunks may begin / end with NaNs or hold nothing else): what reaches the detectors is
   `fed cs` (every chunk cleaned, empty ones are no-ops); cycles, residual and residual indices -- in positions of the cleaned signal --
   are those of the NaN-free signal in one piece (unbounded; corollary of the C01 theorems; non-vacuity: NaNChunk.nan_chunked_example) *)
Theorem nan_chunked_4pt cs : NaNChunk.fed cs <> [] ->
  let '(c1, r1, i1, _) := run4 (NaNChunk.fed cs) in let '(c2, r2, i2, _) := run4 [clean (concat cs)] in
  c1 = c2 /\ r1 = r2 /\ i1 = i2.
Proof. exact (NaNChunk.nan_chunked_4pt cs). Qed.
Theorem nan_chunked_3pt cs : NaNChunk.fed cs <> [] ->
  let '(c1, r1, i1, _) := run3 (NaNChunk.fed cs) in let '(c2, r2, i2, _) := run3 [clean (concat cs)] in
  c1 = c2 /\ r1 = r2 /\ i1 = i2.
Proof. exact (NaNChunk.nan_chunked_3pt cs). Qed.
Theorem nan_chunked_fkm cs : NaNChunk.fed cs <> [] -> runF (NaNChunk.fed cs) = runF [clean (concat cs)].
Proof. exact (NaNChunk.nan_chunked_fkm cs). Qed.

Print Assumptions negate_4pt.
Print Assumptions affine_4pt.
Print Assumptions negate_3pt.
Print Assumptions affine_3pt.
Print Assumptions find_turns_negate.
Print Assumptions find_turns_affine.
Print Assumptions negate_fkm.
Print Assumptions fkm_scale.
Print Assumptions reversal_values_insert.
Print Assumptions refine_insensitive_4pt.
Print Assumptions refine_insensitive_3pt.
Print Assumptions refine_insensitive_fkm.
Print Assumptions nan_drop_index.
Print Assumptions threepoint_symmetries_bounded.
Print Assumptions threepoint_refine_bounded.
Print Assumptions nan_chunked_4pt.
Print Assumptions nan_chunked_3pt.
Print Assumptions nan_chunked_fkm.
