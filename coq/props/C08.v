(* C08 -- Woehler curve: cycles/load are inverses with the stated scatter semantics.
   Only statements, `exact`, and Print Assumptions.  The curve model (PL.Woehler.Model) mirrors
   /repo/src/pylife/materiallaws/woehlercurve.py element-wise and is tied to it by per-run interval certificates;
   fn_scattering_range_to_std / fn_std_to_scattering_range are GENERATED from /repo/src/pylife/utils/functions.py
   on every run.  scipy.stats.norm.ppf is a Section variable: the closed theorems quantify over it and over the
   part of its contract they use. *)
From Coq Require Import Reals List.
From Coquelicot Require Import Coquelicot.
From PL Require Import Common.RPrelude Woehler.Model Woehler.C08.
From PLgen Require Import GenWoehlerFunctions.
Open Scope R_scope.

Section WithPpf.
Variable ppf : R -> R.

(* cycles(load(N)) = N wherever the life is finite: N <= ND of the transformed curve, or any N for finite k_2 *)
Theorem cycles_load_inverse wc p N : valid wc -> 0 < p < 1 -> 0 < N ->
  (N <= ND (transform ppf wc p) \/ k_2 wc <> PInf) -> cycles ppf wc (load ppf wc N p) p = Fin N.
Proof. exact (C08.cycles_load_inverse ppf wc p N). Qed.

(* load(cycles(L)) = L wherever the life is finite: L >= SD of the transformed curve, or any L > 0 for finite k_2 *)
Theorem load_cycles_inverse wc p L : valid wc -> 0 < p < 1 -> 0 < L ->
  (SD (transform ppf wc p) <= L \/ k_2 wc <> PInf) ->
  exists N, cycles ppf wc L p = Fin N /\ 0 < N /\ load ppf wc N p = L.
Proof. exact (C08.load_cycles_inverse ppf wc p L). Qed.

Theorem cycles_antitone wc p L1 L2 : valid wc -> 0 < p < 1 -> 0 < L1 -> L1 <= L2 ->
  ER_le (cycles ppf wc L2 p) (cycles ppf wc L1 p).
Proof. exact (C08.cycles_antitone ppf wc p L1 L2). Qed.

Theorem pf_monotone wc p1 p2 L : ppf_increasing ppf -> valid wc -> 0 < p1 -> p1 <= p2 -> p2 < 1 -> 0 < L ->
  ER_le (cycles ppf wc L p1) (cycles ppf wc L p2).
Proof. exact (C08.pf_monotone ppf wc p1 p2 L). Qed.

Theorem transform_compose wc p1 p2 : 0 <= SD wc -> 0 < TN wc -> 0 < TS wc ->
  transform ppf (transform ppf wc p1) p2 = transform ppf wc p2.
Proof. exact (C08.transform_compose ppf wc p1 p2). Qed.

Theorem transform_native_identity wc : transform ppf wc (pf wc) = wc.
Proof. exact (C08.transform_native_identity ppf wc). Qed.

Theorem transform_stays_valid wc p : valid wc -> 0 < p < 1 -> valid (transform ppf wc p).
Proof. exact (C08.transform_valid ppf wc p). Qed.

(* SD_90 / SD_10 = TS^c and N_90 / N_10 = TN^c with c = 2 ppf(0.9) c_std (|c - 1| <= 2e-15, below), the latter
   for loads on the k_1 branch of both shifted curves *)
Theorem quantile_ratio_TS wc : ppf_antisymmetric ppf -> 0 < SD wc -> 0 < TN wc -> 0 < TS wc ->
  SD (transform ppf wc (9 / 10)) / SD (transform ppf wc (1 / 10)) = npow (TS wc) (2 * ppf (9 / 10) * c_std).
Proof. exact (C08.quantile_ratio_TS ppf wc). Qed.

Theorem quantile_ratio_TN wc L : ppf_antisymmetric ppf -> valid wc ->
  SD (transform ppf wc (9 / 10)) <= L -> SD (transform ppf wc (1 / 10)) <= L ->
  exists N90 N10, cycles ppf wc L (9 / 10) = Fin N90 /\ cycles ppf wc L (1 / 10) = Fin N10 /\ 0 < N10 /\
                  N90 / N10 = npow (TN wc) (2 * ppf (9 / 10) * c_std).
Proof. exact (C08.quantile_ratio_TN ppf wc L). Qed.

Theorem broadcast_is_elementwise rows p i d :
  length (cycles_rows ppf rows p) = length rows /\ length (load_rows ppf rows p) = length rows /\
  nth i (cycles_rows ppf rows p) (cycles ppf (fst d) (snd d) p) = cycles ppf (fst (nth i rows d)) (snd (nth i rows d)) p /\
  nth i (load_rows ppf rows p) (load ppf (fst d) (snd d) p) = load ppf (fst (nth i rows d)) (snd (nth i rows d)) p.
Proof. exact (C08.broadcast_is_elementwise ppf rows p i d). Qed.
End WithPpf.

Theorem ppf_contract_satisfiable : exists ppf, ppf_increasing ppf /\ ppf_antisymmetric ppf.
Proof. exact C08.ppf_contract_satisfiable. Qed.

Theorem valid_example : valid (mkcurve 5 (Fin 9) 300 1000000 4 (3/2) (3/10)) /\ valid (mkcurve 5 PInf 300 1000000 1 1 (1/2)).
Proof. exact C08.valid_example. Qed.

(* --- the piecewise Basquin law of one (already transformed) curve *)
Theorem basquin_cycles_load wc N : valid wc -> 0 < N -> (N <= ND wc \/ k_2 wc <> PInf) ->
  basquin_cycles_of wc (basquin_load_of wc N) = Fin N.
Proof. exact (C08.basquin_cycles_load wc N). Qed.

Theorem basquin_load_cycles wc L : valid wc -> 0 < L -> (SD wc <= L \/ k_2 wc <> PInf) ->
  exists N, basquin_cycles_of wc L = Fin N /\ 0 < N /\ basquin_load_of wc N = L.
Proof. exact (C08.basquin_load_cycles wc L). Qed.

Theorem cycles_strictly_decreasing_where_finite wc L1 L2 : valid wc -> 0 < L1 -> L1 < L2 -> (SD wc <= L1 \/ k_2 wc <> PInf) ->
  exists N1 N2, basquin_cycles_of wc L1 = Fin N1 /\ basquin_cycles_of wc L2 = Fin N2 /\ N2 < N1.
Proof. exact (C08.basquin_cycles_strictly_decreasing wc L1 L2). Qed.

Theorem load_antitone_in_cycles wc N1 N2 : valid wc -> 0 < N1 -> N1 <= N2 -> basquin_load_of wc N2 <= basquin_load_of wc N1.
Proof. exact (C08.basquin_load_antitone wc N1 N2). Qed.

Theorem continuous_at_knee wc k2 : valid wc -> k_2 wc = Fin k2 ->
  continuous (fun L => fin_or0 (basquin_cycles_of wc L)) (SD wc) /\ fin_or0 (basquin_cycles_of wc (SD wc)) = ND wc.
Proof. exact (C08.continuous_at_knee wc k2). Qed.

Theorem knee_point wc : 0 < SD wc -> 0 < ND wc ->
  basquin_cycles_of wc (SD wc) = Fin (ND wc) /\ basquin_load_of wc (ND wc) = SD wc.
Proof. intros H1 H2. exact (conj (C08.knee_cycles wc H1) (C08.knee_load wc H2)). Qed.

Theorem slope_k1_above wc L1 L2 : valid wc -> SD wc <= L1 -> SD wc <= L2 ->
  exists N1 N2, basquin_cycles_of wc L1 = Fin N1 /\ basquin_cycles_of wc L2 = Fin N2 /\ 0 < N2 /\
                N1 / N2 = npow (L1 / L2) (- k_1 wc).
Proof. exact (C08.slope_k1_above wc L1 L2). Qed.

Theorem slope_k2_below wc k2 L1 L2 : valid wc -> k_2 wc = Fin k2 -> 0 < L1 < SD wc -> 0 < L2 < SD wc ->
  exists N1 N2, basquin_cycles_of wc L1 = Fin N1 /\ basquin_cycles_of wc L2 = Fin N2 /\ 0 < N2 /\
                N1 / N2 = npow (L1 / L2) (- k2).
Proof. exact (C08.slope_k2_below wc k2 L1 L2). Qed.

Theorem k2_inf_infinite_life wc L N : k_2 wc = PInf ->
  (L < SD wc -> basquin_cycles_of wc L = PInf) /\ (ND wc < N -> basquin_load_of wc N = SD wc).
Proof. intros H. exact (conj (C08.k2_inf_infinite_life wc L H) (C08.k2_inf_load_is_SD wc N H)). Qed.

Theorem finite_life_elsewhere wc L : (SD wc <= L \/ k_2 wc <> PInf) -> basquin_cycles_of wc L <> PInf.
Proof. exact (C08.finite_life_elsewhere wc L). Qed.

(* --- Miner variants *)
Theorem miner_only_change_k2 wc :
  (let m := miner_original wc in k_2 m = PInf /\ (k_1 m, SD m, ND m, TN m, TS m, pf m) = (k_1 wc, SD wc, ND wc, TN wc, TS wc, pf wc)) /\
  (let m := miner_elementary wc in k_2 m = Fin (k_1 wc) /\ (k_1 m, SD m, ND m, TN m, TS m, pf m) = (k_1 wc, SD wc, ND wc, TN wc, TS wc, pf wc)) /\
  (let m := miner_haibach wc in k_2 m = Fin (2 * k_1 wc - 1) /\ (k_1 m, SD m, ND m, TN m, TS m, pf m) = (k_1 wc, SD wc, ND wc, TN wc, TS wc, pf wc)).
Proof. exact (C08.miner_only_change_k2 wc). Qed.

Theorem miner_variants_valid wc : valid wc -> 1 <= k_1 wc ->
  valid (miner_original wc) /\ valid (miner_elementary wc) /\ valid (miner_haibach wc).
Proof. exact (C08.miner_valid wc). Qed.

Theorem miner_order wc L : valid wc -> 1 <= k_1 wc -> 0 < L ->
  ER_le (basquin_cycles_of (miner_elementary wc) L) (basquin_cycles_of (miner_haibach wc) L) /\
  ER_le (basquin_cycles_of (miner_haibach wc) L) (basquin_cycles_of (miner_original wc) L) /\
  (SD wc <= L -> basquin_cycles_of (miner_original wc) L = basquin_cycles_of wc L /\
                 basquin_cycles_of (miner_elementary wc) L = basquin_cycles_of wc L /\
                 basquin_cycles_of (miner_haibach wc) L = basquin_cycles_of wc L).
Proof. exact (C08.miner_order wc L). Qed.

(* --- scatter range <-> standard deviation (generated definitions, literal constants) *)
Theorem T_std_roundtrip_exponent T : 0 < T ->
  fn_std_to_scattering_range (fn_scattering_range_to_std T) = npow T (c_T * c_std) /\ Rabs (c_T * c_std - 1) <= 1 / 10 ^ 15.
Proof. exact (C08.T_std_roundtrip_exponent T). Qed.

Theorem std_T_roundtrip_factor s :
  fn_scattering_range_to_std (fn_std_to_scattering_range s) = (c_T * c_std) * s.
Proof. exact (C08.std_T_roundtrip_factor s). Qed.

(* T = 10^(c_T s) with c_T = 2 z9 and c_std = 1/(2 z9) up to 1e-15, z9 the float scipy returns for norm.ppf(0.9) *)
Theorem scatter_range_is_pow10 s : fn_std_to_scattering_range s = npow 10 (c_T * s).
Proof. exact (C08.T_is_pow10 s). Qed.

Theorem scatter_constants_are_z9 :
  Rabs (c_T - 2 * z9_float) <= 1 / 10 ^ 15 /\ Rabs (2 * z9_float * c_std - 1) <= 1 / 10 ^ 15.
Proof. exact C08.scatter_constants_are_z9. Qed.

Theorem quantile_exponent_near_1 z9 : Rabs (z9 - z9_float) <= 1 / 10 ^ 15 -> Rabs (2 * z9 * c_std - 1) <= 2 / 10 ^ 15.
Proof. exact (C08.quantile_exponent_near_1 z9). Qed.

(* ... and that float is the 90 % quantile of the standard normal distribution (Phi is defined, not assumed) *)
Theorem z9_is_the_90_percent_quantile : Rabs (Phi z9_float - 9 / 10) <= 1 / 10 ^ 12.
Proof. exact C08.z9_is_the_90_percent_quantile. Qed.

Print Assumptions cycles_load_inverse.
Print Assumptions load_cycles_inverse.
Print Assumptions cycles_antitone.
Print Assumptions pf_monotone.
Print Assumptions transform_compose.
Print Assumptions transform_native_identity.
Print Assumptions transform_stays_valid.
Print Assumptions quantile_ratio_TS.
Print Assumptions quantile_ratio_TN.
Print Assumptions broadcast_is_elementwise.
Print Assumptions ppf_contract_satisfiable.
Print Assumptions valid_example.
Print Assumptions basquin_cycles_load.
Print Assumptions basquin_load_cycles.
Print Assumptions cycles_strictly_decreasing_where_finite.
Print Assumptions load_antitone_in_cycles.
Print Assumptions continuous_at_knee.
Print Assumptions knee_point.
Print Assumptions slope_k1_above.
Print Assumptions slope_k2_below.
Print Assumptions k2_inf_infinite_life.
Print Assumptions finite_life_elsewhere.
Print Assumptions miner_only_change_k2.
Print Assumptions miner_variants_valid.
Print Assumptions miner_order.
Print Assumptions T_std_roundtrip_exponent.
Print Assumptions std_T_roundtrip_factor.
Print Assumptions scatter_range_is_pow10.
Print Assumptions scatter_constants_are_z9.
Print Assumptions quantile_exponent_near_1.
Print Assumptions z9_is_the_90_percent_quantile.
