(* C02 -- the detectors realise the four-point rainflow definition / the HCM rule and lose no turning point.
   Model: PL.Rainflow.Model (tied to the code by correspondence); specifications: PL.Rainflow.Spec.
   Only statements, `exact`, Print Assumptions. *)
From Coq Require Import ZArith List Bool Permutation.
From PL Require Import Rainflow.Model Rainflow.Eqb Rainflow.FP Rainflow.Spec Rainflow.SpecThm Rainflow.IndexThm Rainflow.HcmThm Rainflow.Bounded34 Rainflow.Index3 Rainflow.Cons3 Rainflow.Same34Thm.
Import ListNotations.
Open Scope Z_scope.

(* the four-point detector reports exactly the cycles, in order, and the residual that the textbook
   four-point rule yields on (first sample, interior reversals, last sample) -- unbounded *)
Theorem fourpoint_is_textbook s : s <> [] ->
  let '(c, r, _, _) := run4 [s] in (cyc_values c, r) = fp_spec (tp_seq s).
Proof. exact (SpecThm.fourpoint_is_textbook s). Qed.

(* the FKM detector reports what the HCM case list yields on the interior reversals -- unbounded *)
Theorem fkm_is_hcm s : let '(c, r, _) := runF [s] in (c, r) = hcm_spec (map snd (find_turns s)).
Proof. exact (HcmThm.fkm_is_hcm s). Qed.

(* cycle end points and residual together use every turning point exactly once -- unbounded *)
Theorem conservation_4pt s : s <> [] ->
  let '(c, r, _, _) := run4 [s] in
  Permutation (tp_seq s) (flat_map (fun q => [fst (fst (fst q)); snd (fst (fst q))]) c ++ r).
Proof. exact (IndexThm.conservation_4pt s). Qed.

(* the same for the three-point detector (ghost kernel returning the popped positions) -- unbounded *)
Theorem conservation_3pt s : s <> [] ->
  let '(c, r, _, _) := run3 [s] in
  Permutation (tp_seq s) (flat_map (fun q => [fst (fst (fst q)); snd (fst (fst q))]) c ++ r).
Proof. exact (Cons3.conservation_3pt s). Qed.

Theorem conservation_fkm s :
  let '(c, r, _) := runF [s] in Permutation (map snd (find_turns s)) (endsZ c ++ r).
Proof.
  pose proof (HcmThm.fkm_is_hcm s) as H. destruct (runF [s]) as [[c r] i].
  pose proof (HcmThm.hcm_conservation (map snd (find_turns s))) as HP. rewrite <- H in HP. exact HP.
Qed.

(* every index reported by the four-point detector (cycle end points and residual index) addresses a sample
   whose value is the reported value -- unbounded *)
Theorem index_addresses_value_4pt s : s <> [] ->
  let '(c, r, ri, _) := run4 [s] in
  Forall (fun q => nth_error s (snd (fst q)) = Some (fst (fst (fst q))) /\
                   nth_error s (snd q) = Some (snd (fst (fst q)))) c /\
  Forall2 (fun i v => nth_error s i = Some v) ri r.
Proof. exact (IndexThm.index_addresses_value_4pt s). Qed.

(* the same for the three-point detector (position-level invariants of the Cython loop) -- unbounded *)
Theorem index_addresses_value_3pt s : s <> [] ->
  let '(c, r, ri, _) := run3 [s] in
  Forall (fun q => nth_error s (snd (fst q)) = Some (fst (fst (fst q))) /\
                   nth_error s (snd q) = Some (snd (fst (fst q)))) c /\
  Forall2 (fun i v => nth_error s i = Some v) ri r.
Proof. exact (Index3.index_addresses_value_3pt s). Qed.

(* turning points are reported with the index of a sample holding that value (plateau: its first sample) *)
Theorem find_turns_addresses s : Forall (fun iv => nth_error s (fst iv) = Some (snd iv)) (find_turns s).
Proof. exact (SpecThm.find_turns_addresses s). Qed.

(* the residual of the four-point machine is irreducible: no four consecutive open points are closable *)
Theorem fourpoint_residual_irreducible items : irr (fst (FP.run items)).
Proof. exact (FP.run_irr items). Qed.

(* three-point = four-point, unbounded: for every signal the three-point detector reports the same cycles (values
   and sample indices) IN THE SAME ORDER, the same residual and the same residual index as the four-point
   detector (this contains the property's "same multiset of cycles and the same residual").  Proof: on a stack
   of the shape maintained by the three-point machine (TPInv.Inv) the three-point test and the four-point test
   decide alike, so the two item-level machines run in lock step (Same34.fold_same); both Cython loops refine
   their machine (Refine.v, Refine3.v). *)
Theorem threepoint_same_as_fourpoint s : s <> [] -> run3 [s] = run4 [s].
Proof. exact (Same34Thm.threepoint_is_fourpoint s). Qed.
(* the bounded sweep (every signal over {0..3} of length <= 8, boolean multiset comparison incl. indices) is
   kept as an independent evaluation of the model *)
Definition threepoint_same_as_fourpoint_statement : Prop := forall s, s <> [] -> same34 s = true.
Theorem threepoint_same_as_fourpoint_bounded s :
  (1 <= length s <= 8)%nat -> Forall (fun x => 0 <= x <= 3) s -> same34 s = true.
Proof. exact (Bounded34.threepoint_same_as_fourpoint_bounded s). Qed.

(* non-vacuity: a signal with ties, a plateau and nested cycles *)
Example textbook_example :
  fp_spec (tp_seq [0; 3; 1; 1; 2; 1; 3; 0]) = ([(1, 2); (3, 1)], [0; 3; 0]).
Proof. vm_compute. reflexivity. Qed.

Print Assumptions fourpoint_is_textbook.
Print Assumptions fkm_is_hcm.
Print Assumptions conservation_4pt.
Print Assumptions conservation_3pt.
Print Assumptions conservation_fkm.
Print Assumptions index_addresses_value_4pt.
Print Assumptions index_addresses_value_3pt.
Print Assumptions find_turns_addresses.
Print Assumptions fourpoint_residual_irreducible.
Print Assumptions threepoint_same_as_fourpoint.
Print Assumptions threepoint_same_as_fourpoint_bounded.
