(* C05 -- HCM stress/strain bookkeeping.  The "independent implementation of the FKM-nonlinear HCM procedure" is the Gallina model
   PL.HCM.Model (generic in the value type and in the notch approximation law), tied to the code on every run by the
   correspondence check of harness/props/c05.py (every column of every row, strain_values, first-run count).
   The theorems below are the universally quantified structural part.  Only statements, `exact`, Print Assumptions. *)
From Coq Require Import ZArith QArith List Bool.
From PL Require Import Rainflow.Model HCM.Model HCM.Load HCM.Sim HCM.RecThm HCM.Select HCM.Full HCM.Chunks HCM.FullThm.
Import ListNotations.
Open Scope Z_scope.

(* the control flow depends on the loads only through scale-invariant comparisons and on the values not at all: a map h of the
   value type commuting with + and with the law, together with L |-> c * L (c <> 0), maps the trace to the trace *)
Theorem trace_simulation (V W : Type) (vadd : V -> V -> V) (wadd : W -> W -> W)
  (sig : Z -> V) (eps : V -> Z -> V) (dsig : Z -> V) (deps : V -> Z -> V)
  (sig' : Z -> W) (eps' : W -> Z -> W) (dsig' : Z -> W) (deps' : W -> Z -> W) (h : V -> W) (phi : Z -> Z) (c : Z) :
  c <> 0 -> (forall x, phi x = c * x) -> (forall a b, h (vadd a b) = wadd (h a) (h b)) ->
  (forall L, h (sig L) = sig' (phi L)) -> (forall s L, h (eps s L) = eps' (h s) (phi L)) ->
  (forall d, h (dsig d) = dsig' (phi d)) -> (forall ds d, h (deps ds d) = deps' (h ds) (phi d)) ->
  forall s, trace W wadd sig' eps' dsig' deps' (map phi s) = map (mev V W h phi) (trace V vadd sig eps dsig deps s).
Proof. exact (Sim.trace_sim V W vadd wadd sig eps dsig deps sig' eps' dsig' deps' h phi c). Qed.

(* loads_min, loads_max, is_closed_hysteresis, run_index of the full model = the load-only model of C04, for every law *)
Theorem full_load_columns (V : Type) (vadd : V -> V -> V) (vneg vabs : V -> V) (vltb : V -> V -> bool)
  (sig : Z -> V) (eps : V -> Z -> V) (dsig : Z -> V) (deps : V -> Z -> V) s emin emax :
  map lrow (records V vneg vabs vltb emin emax (trace V vadd sig eps dsig deps s)) = load_records s.
Proof. exact (FullThm.full_load_columns V vadd vneg vabs vltb sig eps dsig deps s emin emax). Qed.

(* mirror symmetry: for an odd law, negated loads give negated stresses and strains with min/max swapped, same flags and pass numbers *)
Theorem mirror (V : Type) (vadd : V -> V -> V) (vneg vabs : V -> V) (vltb : V -> V -> bool) (vzero : V)
  (sig : Z -> V) (eps : V -> Z -> V) (dsig : Z -> V) (deps : V -> Z -> V) :
  (forall a, vneg (vneg a) = a) -> (forall a, vabs (vneg a) = vabs a) -> (forall a b, vltb (vneg a) (vneg b) = vltb b a) ->
  vneg vzero = vzero -> (forall a b, vneg (vadd a b) = vadd (vneg a) (vneg b)) ->
  (forall L, vneg (sig L) = sig (- L)) -> (forall s L, vneg (eps s L) = eps (vneg s) (- L)) ->
  (forall d, vneg (dsig d) = dsig (- d)) -> (forall ds d, vneg (deps ds d) = deps (vneg ds) (- d)) ->
  forall s, no_flat V (trace V vadd sig eps dsig deps s) ->
  collective V vadd vneg vabs vltb vzero sig eps dsig deps (map Z.opp s) =
  map (mirror_rec V vneg) (collective V vadd vneg vabs vltb vzero sig eps dsig deps s).
Proof. exact (FullThm.mirror V vadd vneg vabs vltb vzero sig eps dsig deps). Qed.
Theorem mirror_noLF (V : Type) (vadd : V -> V -> V) (vneg vabs : V -> V) (vltb : V -> V -> bool) (vzero : V)
  (sig : Z -> V) (eps : V -> Z -> V) (dsig : Z -> V) (deps : V -> Z -> V) :
  (forall a, vneg (vneg a) = a) -> (forall a, vabs (vneg a) = vabs a) -> (forall a b, vltb (vneg a) (vneg b) = vltb b a) ->
  (forall a b, vneg (vadd a b) = vadd (vneg a) (vneg b)) ->
  (forall L, vneg (sig L) = sig (- L)) -> (forall s L, vneg (eps s L) = eps (vneg s) (- L)) ->
  (forall d, vneg (dsig d) = dsig (- d)) -> (forall ds d, vneg (deps ds d) = deps (vneg ds) (- d)) ->
  forall s z, map (strip V z) (collective V vadd vneg vabs vltb vzero sig eps dsig deps (map Z.opp s)) =
              map (fun r => strip V z (mirror_rec V vneg r)) (collective V vadd vneg vabs vltb vzero sig eps dsig deps s).
Proof. exact (FullThm.mirror_noLF V vadd vneg vabs vltb vzero sig eps dsig deps). Qed.
Theorem mirror_strain_values (V : Type) (vadd : V -> V -> V) (vneg : V -> V)
  (sig : Z -> V) (eps : V -> Z -> V) (dsig : Z -> V) (deps : V -> Z -> V) :
  (forall a b, vneg (vadd a b) = vadd (vneg a) (vneg b)) ->
  (forall L, vneg (sig L) = sig (- L)) -> (forall s L, vneg (eps s L) = eps (vneg s) (- L)) ->
  (forall d, vneg (dsig d) = dsig (- d)) -> (forall ds d, vneg (deps ds d) = deps (vneg ds) (- d)) ->
  forall s, strain_values V (trace V vadd sig eps dsig deps (map Z.opp s)) = map vneg (strain_values V (trace V vadd sig eps dsig deps s)) /\
            n_first_run V (trace V vadd sig eps dsig deps (map Z.opp s)) = n_first_run V (trace V vadd sig eps dsig deps s).
Proof. exact (FullThm.mirror_strain_values V vadd vneg sig eps dsig deps). Qed.
(* instance: the hypotheses are satisfiable (the injected integer law), and the proviso of [mirror] is needed *)
Theorem mirror_int_law s : no_flat Z (ztrace s) -> zrecords (ztrace (map Z.opp s)) = map (mirror_rec Z Z.opp) (zrecords (ztrace s)).
Proof. exact (FullThm.mirror_int_law s). Qed.
Theorem mirror_lf_refuted : exists s, zrecords (ztrace (map Z.opp s)) <> map (mirror_rec Z Z.opp) (zrecords (ztrace s)).
Proof. exact FullThm.mirror_lf_refuted. Qed.

(* several assessment points with proportional loads: point j gets exactly the rows of its single-point run, provided it orders the
   compared stresses/strains like point 0 (the code selects min/max and the running extremes for all points from point 0) *)
Theorem multipoint_is_pointwise cs j :
  (j < length cs)%nat -> 0 < at_ j cs -> forall s,
  cmp_agree (list Z) Z vltb Z.ltb (at_ j) (mzero cs) (mzero cs) (mtrace 1 cs s) ->
  map (proj_rec 1 cs j) (mrecords cs (mtrace 1 cs s)) = zrecords (ztrace (map (fun x => at_ j cs * x) s)).
Proof. exact (FullThm.multipoint_is_pointwise cs j). Qed.

(* the hypothesis is needed for the code as it is (findings C05-hcm-minmax-strain-first-node, C05-hysteresis-minmax-first-node) *)
Theorem multipoint_first_node_refuted : exists cs j s, (j < length cs)%nat /\ 0 < at_ j cs /\
  map (proj_rec 1 cs j) (mrecords cs (mtrace 1 cs s)) <> zrecords (ztrace (map (fun x => at_ j cs * x) s)).
Proof. exact FullThm.multipoint_first_node_refuted. Qed.
(* recorder variants: pwc / pwl = true when the corner points of a closed hysteresis / the running strain extremes are selected
   for every assessment point separately (the repairs); false/false is the model above.  Only what a variant still compares at
   point 0 has to be ordered alike by point j *)
Theorem variant_ff_is_the_code cs evs : mrecords_v cs false false evs = mrecords cs evs.
Proof. exact (FullThm.mrecords_v_ff cs evs). Qed.
Theorem multipoint_is_pointwise_variants cs j :
  (j < length cs)%nat -> 0 < at_ j cs -> forall pwc pwl s,
  cmp_agree_v cs j pwc pwl (mzero cs) (mzero cs) (mtrace 1 cs s) ->
  map (proj_rec 1 cs j) (mrecords_v cs pwc pwl (mtrace 1 cs s)) = zrecords (ztrace (map (fun x => at_ j cs * x) s)).
Proof. exact (FullThm.multipoint_is_pointwise_v cs j). Qed.
(* the repaired recorder: the second sentence of the property at full strength, no hypothesis on the sequence *)
Theorem multipoint_is_pointwise_repaired cs j :
  (j < length cs)%nat -> 0 < at_ j cs -> forall s,
  map (proj_rec 1 cs j) (mrecords_v cs true true (mtrace 1 cs s)) = zrecords (ztrace (map (fun x => at_ j cs * x) s)).
Proof. exact (FullThm.multipoint_is_pointwise_repaired cs j). Qed.
(* the load history fed in chunks, process(chunk_1, flush_1) ... process(chunk_k, flush_k): the same two statements *)
Theorem chunked_multipoint_is_pointwise_variants cs j :
  (j < length cs)%nat -> 0 < at_ j cs -> forall pwc pwl chunks,
  cmp_agree_v cs j pwc pwl (mzero cs) (mzero cs) (mctrace 1 cs chunks) ->
  map (proj_rec 1 cs j) (mrecords_v cs pwc pwl (mctrace 1 cs chunks)) = zrecords (zctrace (map_chunks (fun x => at_ j cs * x) chunks)).
Proof. exact (FullThm.chunked_multipoint_is_pointwise_v cs j). Qed.
Theorem chunked_multipoint_is_pointwise_repaired cs j :
  (j < length cs)%nat -> 0 < at_ j cs -> forall chunks,
  map (proj_rec 1 cs j) (mrecords_v cs true true (mctrace 1 cs chunks)) = zrecords (zctrace (map_chunks (fun x => at_ j cs * x) chunks)).
Proof. exact (FullThm.chunked_multipoint_is_pointwise_repaired cs j). Qed.

(* derived recorder columns; Memory-3 rows: zero means, R = -1, not closed, symmetric *)
Theorem derived_columns evs r : In r (zrecords evs) ->
  let '(sa, sm, ea, em, R) := derived r in
  (sa == (inject_Z (r_smax r) - inject_Z (r_smin r)) / 2 /\
  ea == (inject_Z (r_emax r) - inject_Z (r_emin r)) / 2 /\
  (r_closed r = true -> sm == (inject_Z (r_smin r) + inject_Z (r_smax r)) / 2 /\ em == (inject_Z (r_emin r) + inject_Z (r_emax r)) / 2 /\
                         (r_smax r <> 0%Z -> exists q, R = Some q /\ q == inject_Z (r_smin r) / inject_Z (r_smax r))) /\
  (r_closed r = false -> sm == 0 /\ em == 0 /\ R = Some (-1 # 1) /\ r_smin r = (- r_smax r)%Z /\ r_emin r = (- r_emax r)%Z /\ r_lmin r = (- r_lmax r)%Z))%Q.
Proof. exact (FullThm.derived_columns evs r). Qed.

(* running strain extremes do NOT bracket the hysteresis strains in general, already for a strictly monotone law *)
Theorem lf_extremes_bracket_refuted :
  exists s r, In r (zrecords (ztrace s)) /\ r_closed r = true /\ ~ (r_eminLF r <= r_emin r /\ r_emax r <= r_emaxLF r).
Proof. exact FullThm.lf_extremes_bracket_refuted. Qed.
Theorem lf_extremes_bracket_memory3_refuted :
  exists s r, In r (zrecords (ztrace s)) /\ r_closed r = false /\ ~ (r_eminLF r <= r_emin r).
Proof. exact FullThm.lf_extremes_bracket_memory3_refuted. Qed.
Theorem injected_law_monotone :
  (forall a b, a < b -> isig a < isig b) /\ (forall a b, a < b -> idsig a < idsig b) /\
  (forall s s' L L', s <= s' -> L < L' -> ieps s L < ieps s' L') /\ (forall s s' L L', s <= s' -> L < L' -> ideps s L < ideps s' L').
Proof. exact (conj FullThm.isig_mono (conj FullThm.idsig_mono (conj FullThm.ieps_mono FullThm.ideps_mono))). Qed.

Print Assumptions trace_simulation.
Print Assumptions full_load_columns.
Print Assumptions mirror.
Print Assumptions mirror_noLF.
Print Assumptions mirror_strain_values.
Print Assumptions mirror_int_law.
Print Assumptions mirror_lf_refuted.
Print Assumptions multipoint_is_pointwise.
Print Assumptions multipoint_first_node_refuted.
Print Assumptions variant_ff_is_the_code.
Print Assumptions multipoint_is_pointwise_variants.
Print Assumptions multipoint_is_pointwise_repaired.
Print Assumptions chunked_multipoint_is_pointwise_variants.
Print Assumptions chunked_multipoint_is_pointwise_repaired.
Print Assumptions derived_columns.
Print Assumptions lf_extremes_bracket_refuted.
Print Assumptions lf_extremes_bracket_memory3_refuted.
Print Assumptions injected_law_monotone.
