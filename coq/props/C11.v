(* C11 -- Miner damage is linear and agrees with the predicted Gassner lifetime.
   Only statements, `exact`, and Print Assumptions.  The model (theories/Strength/C11Model.v: collectives as lists
   of (amplitude, cycles), `None` = numpy inf) is tied to miner.py / solidity.py / fatigue.py / woehlercurve.py /
   load_histogram.py on every run by interval certificates (harness/props/c11.py). *)
From Coq Require Import Reals List Permutation.
From PL Require Import Common.RPrelude Strength.C11Model Strength.C11.
Import ListNotations.
Open Scope R_scope.

(* --- damage is additive over members, proportional to the cycle counts, independent of member order *)
Theorem damage_additive c l1 l2 :
  damage c (l1 ++ l2) = damage c l1 ++ damage c l2 /\ damage_sum c (l1 ++ l2) = damage_sum c l1 + damage_sum c l2.
Proof. exact (conj (C11.damage_app c l1 l2) (C11.damage_additive c l1 l2)). Qed.

Theorem damage_proportional c f l :
  damage c (scale_cycles f l) = map (fun d => f * d) (damage c l) /\ damage_sum c (scale_cycles f l) = f * damage_sum c l.
Proof. exact (conj (C11.damage_proportional_members c f l) (C11.damage_proportional c f l)). Qed.

Theorem damage_perm_invariant c l l' : Permutation l l' ->
  Permutation (damage c l) (damage c l') /\ damage_sum c l = damage_sum c l'.
Proof. exact (fun H => conj (C11.damage_perm_members c l l' H) (C11.damage_perm_invariant c l l' H)). Qed.

(* --- original <= Haibach <= elementary, member by member and in the sum *)
Theorem damage_member_order c a n : curve_ok c -> 0 <= a -> 0 <= n ->
  0 <= damage1 (miner_original c) (a, n) <= damage1 (miner_haibach c) (a, n) /\
  damage1 (miner_haibach c) (a, n) <= damage1 (miner_elementary c) (a, n).
Proof. exact (C11.damage1_order c a n). Qed.

Theorem damage_order_original_le_haibach_le_elementary c l : curve_ok c -> coll_ok l ->
  0 <= damage_sum (miner_original c) l <= damage_sum (miner_haibach c) l /\
  damage_sum (miner_haibach c) l <= damage_sum (miner_elementary c) l.
Proof. exact (C11.damage_order_original_le_haibach_le_elementary c l). Qed.

(* closed forms of the per-member damage under the three rules (pin the branch S < SD and the slopes) *)
Theorem damage_member_elementary c a n : curve_ok c -> 0 <= a ->
  damage1 (miner_elementary c) (a, n) = n * npow (a / SD c) (k1 c) / ND c.
Proof. exact (C11.damage1_elementary c a n). Qed.

Theorem damage_member_haibach c a n : curve_ok c -> 0 <= a ->
  damage1 (miner_haibach c) (a, n) =
  if Rlt_dec a (SD c) then n * npow (a / SD c) (2 * k1 c - 1) / ND c else n * npow (a / SD c) (k1 c) / ND c.
Proof. exact (C11.damage1_haibach c a n). Qed.

Theorem damage_member_original c a n : curve_ok c -> 0 <= a ->
  damage1 (miner_original c) (a, n) = if Rlt_dec a (SD c) then 0 else n * npow (a / SD c) (k1 c) / ND c.
Proof. exact (C11.damage1_original c a n). Qed.

(* --- Gassner cycles produce damage one *)
(* Miner-Haibach: full statement for load levels at or above the knee point, whichever classes are empty *)
Theorem gassner_haibach_damage_one c l : curve_ok c -> coll_ok l -> 0 < max_occ l -> SD c <= max_amp l ->
  exists Ng, gassner_cycles lm_haibach c l = Some Ng /\ damage_sum (miner_haibach c) (apply_for Ng l) = 1.
Proof. exact (C11.gassner_haibach_damage_one c l). Qed.

(* below the knee point the source documents 'inf'; that is what the model (and the code) returns *)
Theorem gassner_haibach_below_knee_inf c l : k2 c = None -> max_amp l < SD c -> gassner_cycles lm_haibach c l = None.
Proof. exact (C11.gassner_haibach_below_knee_inf c l). Qed.
(* ... but a curve with a finite k_2 gets a finite number there, and it is not the Gassner life of the Haibach rule: the damage at the
   predicted cycles is (max/SD)^(k_1 - k_2) (> 1 for k_2 = 2 k_1 - 1): the property's damage-one clause is FALSE of the faithful model
   below the knee point (known finding `haibach-below-knee`) *)
Theorem gassner_haibach_below_knee_damage c l k2v : curve_ok c -> coll_ok l -> 0 < max_occ l ->
  0 < max_amp l < SD c -> k2 c = Some k2v ->
  exists Ng, gassner_cycles lm_haibach c l = Some Ng /\
             damage_sum (miner_haibach c) (apply_for Ng l) = npow (max_amp l / SD c) (k1 c - k2v).
Proof. exact (C11.gassner_haibach_below_knee_damage c l k2v). Qed.

(* Curves with scatter whose native failure probability is not 50 %: WoehlerCurve.cycles / Fatigue.damage read the curve transformed to
   50 % (c50), MinerHaibach.lifetime_multiple reads the knee point self.SD of the native curve (cn).  The damage after the code's Gassner
   cycles is A(cn) / A(c50) ... *)
Theorem gassner_haibach_split_value c50 cn l : curve_ok c50 -> coll_ok l -> 0 < max_occ l -> SD c50 <= max_amp l ->
  exists Ng, gassner_cycles_split lm_haibach c50 cn l = Some Ng /\
             damage_sum (miner_haibach c50) (apply_for Ng l) * lm_haibach c50 l = lm_haibach cn l.
Proof. exact (C11.gassner_haibach_split_value c50 cn l). Qed.

(* ... which is the proved damage one when the knee points agree (no scatter / native 50 % / lifetime multiple with the knee at 50 %:
   fixes/C11-haibach-knee-at-50-percent.patch) ... *)
Theorem gassner_haibach_split_same_knee c50 cn l : SD cn = SD c50 -> k1 cn = k1 c50 ->
  gassner_cycles_split lm_haibach c50 cn l = gassner_cycles lm_haibach c50 l.
Proof. exact (C11.gassner_haibach_split_same_knee c50 cn l). Qed.

(* ... and not one otherwise: knee points 1 (native) and 2 (50 %), k_1 = 2, members (1, 1), (2, 1): damage 9/10 *)
Theorem gassner_haibach_native_knee_refuted :
  exists c50 cn l, curve_ok c50 /\ curve_ok cn /\ k1 cn = k1 c50 /\ coll_ok l /\ 0 < max_occ l /\ SD c50 <= max_amp l /\
    exists Ng, gassner_cycles_split lm_haibach c50 cn l = Some Ng /\
               damage_sum (miner_haibach c50) (apply_for Ng l) = 9 / 10 /\
               damage_sum (miner_haibach c50) (apply_for Ng l) <> 1.
Proof. exact C11.gassner_haibach_native_knee_refuted. Qed.

(* Miner elementary: under the hypothesis the proof forces -- the top class is occupied *)
Theorem gassner_elementary_damage_one c l : curve_ok c -> coll_ok l -> 0 < max_occ l ->
  max_occ l = max_amp l -> (SD c <= max_amp l \/ k2 c = Some (k1 c)) ->
  exists Ng, gassner_cycles lm_elementary c l = Some Ng /\ damage_sum (miner_elementary c) (apply_for Ng l) = 1.
Proof. exact (C11.gassner_elementary_damage_one c l). Qed.

(* the general value, for ANY reference cycle number N: damage = N (S_occ/SD)^k1 / ND *)
Theorem gassner_elementary_damage_general c l N : curve_ok c -> coll_ok l -> 0 < max_occ l ->
  damage_sum (miner_elementary c) (apply_for (N * lm_elementary c l) l) = N * npow (max_occ l / SD c) (k1 c) / ND c.
Proof. exact (C11.gassner_elementary_damage_general c l N). Qed.

(* with an empty top class the code's Gassner cycles give (S_occ/S_all)^k1 < 1 ... *)
Theorem gassner_elementary_empty_top_value c l : curve_ok c -> coll_ok l -> 0 < max_occ l -> SD c <= max_amp l ->
  exists Ng, gassner_cycles lm_elementary c l = Some Ng /\
             damage_sum (miner_elementary c) (apply_for Ng l) = npow (max_occ l / max_amp l) (k1 c).
Proof. exact (C11.gassner_elementary_empty_top_value c l). Qed.

Theorem gassner_elementary_empty_top_lt_one c l : curve_ok c -> coll_ok l -> 0 < max_occ l ->
  SD c <= max_amp l -> max_occ l < max_amp l ->
  exists Ng, gassner_cycles lm_elementary c l = Some Ng /\ damage_sum (miner_elementary c) (apply_for Ng l) < 1.
Proof. exact (C11.gassner_elementary_empty_top_lt_one c l). Qed.

(* ... so the unrestricted statement is refuted (fixed-bin histogram with counts 10, 5, 2, 0: damage (5/7)^5 = 0.186) *)
Theorem gassner_elementary_empty_top_refuted :
  exists c l, curve_ok c /\ coll_ok l /\ 0 < total l /\ SD c <= max_amp l /\
    exists Ng, gassner_cycles lm_elementary c l = Some Ng /\
               damage_sum (miner_elementary c) (apply_for Ng l) = (5 / 7) ^ 5 /\
               damage_sum (miner_elementary c) (apply_for Ng l) <> 1.
Proof. exact C11.gassner_elementary_empty_top_refuted. Qed.

(* the repaired Gassner cycles (largest OCCUPIED amplitude, fixes/C11-gassner-elementary-empty-top.patch) give one
   whichever classes are empty *)
Theorem gassner_elementary_occ_damage_one c l : curve_ok c -> coll_ok l -> 0 < max_occ l ->
  (SD c <= max_occ l \/ k2 c = Some (k1 c)) ->
  exists Ng, gassner_cycles_occ lm_elementary c l = Some Ng /\ damage_sum (miner_elementary c) (apply_for Ng l) = 1.
Proof. exact (C11.gassner_elementary_occ_damage_one c l). Qed.

(* MinerElementary.gassner: the shifted curve is the curve times the lifetime multiple at every load *)
Theorem gassner_curve_cycles c l S : cycles (gassner_curve c l) S =
  match cycles c S with None => None | Some N => Some (N * lm_elementary c l) end.
Proof. exact (C11.gassner_curve_cycles c l S). Qed.

Example gassner_hypotheses_satisfiable :
  curve_ok ex_curve /\ coll_ok ex_full /\ 0 < max_occ ex_full /\ max_occ ex_full = max_amp ex_full /\
  SD ex_curve <= max_amp ex_full.
Proof. exact C11.gassner_hypotheses_satisfiable. Qed.

(* --- solidity / lifetime multiple *)
Theorem solidity_in_unit_interval l k : coll_ok l -> 0 < max_occ l -> 0 < k -> 0 < solidity_haibach l k <= 1.
Proof. exact (fun Hl Hm Hk => conj (C11.solidity_pos l k Hl Hm) (C11.solidity_le_one l k Hl Hm Hk)). Qed.

Theorem lifetime_multiple_elementary_ge_one c l : curve_ok c -> coll_ok l -> 0 < max_occ l -> 1 <= lm_elementary c l.
Proof. exact (C11.lifetime_multiple_elementary_ge_one c l). Qed.

Theorem solidity_fkm_power l k : coll_ok l -> 0 < max_occ l -> k <> 0 -> npow (solidity_fkm l k) k = solidity_haibach l k.
Proof. exact (C11.solidity_fkm_power l k). Qed.

(* the source compares normalised values; over the reals that is the comparison of the raw values used by the model *)
Theorem haibach_normalised_comparison a s m : 0 < m -> (a / m < s / m <-> a < s).
Proof. exact (C11.norm_lt_iff a s m). Qed.

(* --- effective damage sum *)
Theorem effective_damage_in_range A : 3 / 10 <= eds A <= 1.
Proof. exact (C11.effective_damage_in_range A). Qed.

Theorem effective_damage_unclipped A : 16 <= A -> A * 81 <= 160000 -> eds A = 2 / npow A (1 / 4) /\ eds A ^ 4 * A = 16.
Proof. exact (C11.effective_damage_unclipped A). Qed.

Theorem effective_damage_clipped A : 0 < A -> (A <= 16 -> eds A = 1) /\ (160000 <= A * 81 -> eds A = 3 / 10).
Proof. exact (C11.effective_damage_clipped A). Qed.

Print Assumptions damage_additive.
Print Assumptions damage_proportional.
Print Assumptions damage_perm_invariant.
Print Assumptions damage_member_order.
Print Assumptions damage_order_original_le_haibach_le_elementary.
Print Assumptions damage_member_elementary.
Print Assumptions damage_member_haibach.
Print Assumptions damage_member_original.
Print Assumptions gassner_haibach_damage_one.
Print Assumptions gassner_haibach_below_knee_inf.
Print Assumptions gassner_haibach_below_knee_damage.
Print Assumptions gassner_haibach_split_value.
Print Assumptions gassner_haibach_split_same_knee.
Print Assumptions gassner_haibach_native_knee_refuted.
Print Assumptions gassner_elementary_damage_one.
Print Assumptions gassner_elementary_damage_general.
Print Assumptions gassner_elementary_empty_top_value.
Print Assumptions gassner_elementary_empty_top_lt_one.
Print Assumptions gassner_elementary_empty_top_refuted.
Print Assumptions gassner_elementary_occ_damage_one.
Print Assumptions gassner_curve_cycles.
Print Assumptions gassner_hypotheses_satisfiable.
Print Assumptions solidity_in_unit_interval.
Print Assumptions lifetime_multiple_elementary_ge_one.
Print Assumptions solidity_fkm_power.
Print Assumptions haibach_normalised_comparison.
Print Assumptions effective_damage_in_range.
Print Assumptions effective_damage_unclipped.
Print Assumptions effective_damage_clipped.
