(* C12 -- mean stress transformation follows the iso-damage lines of the Haigh diagram.
   Model: PL.Strength.MeanStress (hand-written, literal mirror of _SegmentTransformer / HaighDiagram.transform /
   _rebin_results over Q with extended rationals for R; tied to the code by the correspondence check of
   harness/props/c12.py).  The closed form below is written independently of the algorithm.
   The flag fx selects the code as it is (false) or the code with fixes/C12-five-segment-target-neg-inf.patch (true); the
   FKM-Goodman theorems hold for both.  Only statements, `exact`, Print Assumptions. *)
From Coq Require Import QArith Qabs Bool List.
From PL Require Import Strength.MeanStress Strength.MeanStressInv Strength.MeanStressGoodman Strength.MeanStressFive Strength.MeanStressRebin
  Strength.MeanStressOrder Strength.MeanStressLayout.
From Coq Require Import ZArith Permutation.
Import ListNotations.
Open Scope Q_scope.

(* ---- FKM-Goodman closed form, in (amplitude, mean) coordinates.
   equivalent amplitude at R = -1: mean stress regions  m <= -a (R > 1 or R = +-inf),  -a < m <= a (R <= 0),  m > a (0 < R < 1) *)
Definition equiv_amplitude (M M2 a m : Q) : Q :=
  if Qle_bool m (- a) then a * (1 - M)
  else if Qle_bool m a then a + M * m
  else (1 + M) * (a + M2 * m) / (1 + M2).
(* amplitude at the target ratio on the line of equivalent amplitude e: R = -inf, R > 1, R <= 0, 0 < R < 1 *)
Definition amplitude_at (M M2 e : Q) (G : ExtQ) : Q :=
  match G with
  | Fin g => if Qltb 1 g then e / (1 - M)
             else if Qle_bool g 0 then e * (1 - g) / (1 - g + M * (1 + g))
             else e * (1 + M2) * (1 - g) / ((1 + M) * (1 - g + M2 * (1 + g)))
  | _ => e / (1 - M)
  end.

(* the plain function fkm_goodman(amplitude, meanstress, M, M2, R_goal), one cycle: for EVERY cycle (a > 0, any mean),
   every 0 <= M2, 0 <= M < 1 and every accepted target (R = -inf, R < 1, R > 1) the segment algorithm returns the closed form *)
Theorem fkm_goodman_closed_form (fx : bool) (M M2 : Q) (G : ExtQ) (a m : Q) :
  0 <= M2 -> 0 <= M -> M < 1 -> 0 < a -> goal_accepted G = true ->
  fkm_amp fx M M2 G a m == amplitude_at M M2 (equiv_amplitude M M2 a m) G.
Proof. exact (MeanStressGoodman.fkm_goodman_closed_form fx M M2 G a m). Qed.

(* on cycle states (amplitude, R): result = a * H(R) / H(R_goal) *)
Theorem fkm_goodman_state_closed_form (fx : bool) (M M2 : Q) (G : ExtQ) (a : Q) (R : ExtQ) :
  0 <= M2 -> 0 <= M -> M < 1 -> goal_accepted G = true -> cyc_okR R ->
  fst (transform_state fx (fkm_goodman_diagram M M2) G (a, R)) == a * H_fkm M M2 R / H_fkm M M2 G.
Proof. exact (MeanStressGoodman.fkm_state_closed fx M M2 G a R). Qed.

(* transforming to R_1 and then to R_2 equals transforming to R_2 directly *)
Theorem fkm_path_independent (fx : bool) (M M2 : Q) (G1 G2 : ExtQ) (c : Cyc) :
  0 <= M2 -> 0 <= M -> M < 1 -> goal_accepted G1 = true -> goal_accepted G2 = true -> cyc_okR (snd c) ->
  fst (transform_state fx (fkm_goodman_diagram M M2) G2 (transform_state fx (fkm_goodman_diagram M M2) G1 c))
  == fst (transform_state fx (fkm_goodman_diagram M M2) G2 c).
Proof. exact (MeanStressGoodman.fkm_path_independent fx M M2 G1 G2 c). Qed.

(* transforming twice to the same R changes nothing *)
Theorem fkm_idempotent (fx : bool) (M M2 : Q) (G : ExtQ) (c : Cyc) :
  0 <= M2 -> 0 <= M -> M < 1 -> goal_accepted G = true -> cyc_okR (snd c) ->
  fst (transform_state fx (fkm_goodman_diagram M M2) G (transform_state fx (fkm_goodman_diagram M M2) G c))
  == fst (transform_state fx (fkm_goodman_diagram M M2) G c).
Proof. exact (MeanStressGoodman.fkm_idempotent fx M M2 G c). Qed.

(* a cycle already at the target R is unchanged *)
Theorem fkm_already_at_target_unchanged (fx : bool) (M M2 : Q) (G : ExtQ) (a : Q) (R : ExtQ) :
  0 <= M2 -> 0 <= M -> M < 1 -> goal_accepted G = true -> cyc_okR R ->
  match R, G with Fin r, Fin g => r == g | NegInf, NegInf => True | _, _ => False end ->
  fst (transform_state fx (fkm_goodman_diagram M M2) G (a, R)) == a.
Proof. exact (MeanStressGoodman.fkm_at_target_unchanged fx M M2 G a R). Qed.

(* the result is strictly increasing in the amplitude (fixed mean, fixed target) *)
Theorem fkm_monotone_in_amplitude (fx : bool) (M M2 : Q) (G : ExtQ) (a1 a2 m : Q) :
  0 <= M2 -> 0 <= M -> M < 1 -> 0 < a1 -> a1 < a2 -> goal_accepted G = true ->
  fkm_amp fx M M2 G a1 m < fkm_amp fx M M2 G a2 m.
Proof. exact (MeanStressGoodman.fkm_monotone_in_amplitude fx M M2 G a1 a2 m). Qed.

(* continuity across the segment borders: the equivalent amplitude is Lipschitz (constant 1) and non-decreasing in the mean
   over ALL mean stresses, i.e. in particular across m = -a (R = +-inf) and m = a (R = 0); the target factor is linear *)
Theorem fkm_continuous_across_segment_borders (M M2 a m1 m2 : Q) :
  0 <= M2 -> M2 <= M -> M < 1 -> 0 < a -> m1 <= m2 ->
  0 <= equiv_amplitude M M2 a m2 - equiv_amplitude M M2 a m1 /\
  equiv_amplitude M M2 a m2 - equiv_amplitude M M2 a m1 <= m2 - m1.
Proof. exact (MeanStressGoodman.goodman_equiv_lipschitz_mean M M2 a m1 m2). Qed.

(* ---- five-segment diagram (0 < R12 < R23 < 1, slopes in [0, 1)): potential H_five, continuous at R = +-inf, 0, R12, R23.
   goal_ok: target accepted and, for a target R > 1, the divisor 1 - R + M4 (1 + R) of the code does not vanish.
   exc_free fx G R: not (code as it is, target -inf, cycle at R > 1) -- the open finding five-segment-target-neg-inf. *)
Theorem five_segment_closed_form (M0 M1 M2 M3 M4 R12 R23 : Q) (fx : bool) (G : ExtQ) (a : Q) (R : ExtQ) :
  0 < R12 -> R12 < R23 -> R23 < 1 ->
  0 <= M0 < 1 -> 0 <= M1 < 1 -> 0 <= M2 < 1 -> 0 <= M3 < 1 -> 0 <= M4 < 1 ->
  goal_ok M4 G -> cyc_okR R -> exc_free fx G R ->
  fst (transform_state fx (five_segment_diagram M0 M1 M2 M3 M4 R12 R23) G (a, R))
  == a * H_five M0 M1 M2 M3 M4 R12 R23 R / H_five M0 M1 M2 M3 M4 R12 R23 G.
Proof. exact (fun h1 h2 h3 h4 h5 h6 h7 h8 => MeanStressFive.five_state_closed M0 M1 M2 M3 M4 R12 R23 h1 h2 h3 h4 h5 h6 h7 h8 fx G a R). Qed.

Theorem five_segment_path_independent (M0 M1 M2 M3 M4 R12 R23 : Q) (fx : bool) (G1 G2 : ExtQ) (c : Cyc) :
  0 < R12 -> R12 < R23 -> R23 < 1 ->
  0 <= M0 < 1 -> 0 <= M1 < 1 -> 0 <= M2 < 1 -> 0 <= M3 < 1 -> 0 <= M4 < 1 ->
  goal_ok M4 G1 -> goal_ok M4 G2 -> cyc_okR (snd c) ->
  exc_free fx G1 (snd c) -> exc_free fx G2 G1 -> exc_free fx G2 (snd c) ->
  fst (transform_state fx (five_segment_diagram M0 M1 M2 M3 M4 R12 R23) G2
         (transform_state fx (five_segment_diagram M0 M1 M2 M3 M4 R12 R23) G1 c))
  == fst (transform_state fx (five_segment_diagram M0 M1 M2 M3 M4 R12 R23) G2 c).
Proof. exact (fun h1 h2 h3 h4 h5 h6 h7 h8 => MeanStressFive.five_path_independent M0 M1 M2 M3 M4 R12 R23 h1 h2 h3 h4 h5 h6 h7 h8 fx G1 G2 c). Qed.

Theorem five_segment_idempotent (M0 M1 M2 M3 M4 R12 R23 : Q) (fx : bool) (G : ExtQ) (c : Cyc) :
  0 < R12 -> R12 < R23 -> R23 < 1 ->
  0 <= M0 < 1 -> 0 <= M1 < 1 -> 0 <= M2 < 1 -> 0 <= M3 < 1 -> 0 <= M4 < 1 ->
  goal_ok M4 G -> cyc_okR (snd c) -> exc_free fx G (snd c) ->
  fst (transform_state fx (five_segment_diagram M0 M1 M2 M3 M4 R12 R23) G
         (transform_state fx (five_segment_diagram M0 M1 M2 M3 M4 R12 R23) G c))
  == fst (transform_state fx (five_segment_diagram M0 M1 M2 M3 M4 R12 R23) G c).
Proof. exact (fun h1 h2 h3 h4 h5 h6 h7 h8 => MeanStressFive.five_idempotent M0 M1 M2 M3 M4 R12 R23 h1 h2 h3 h4 h5 h6 h7 h8 fx G c). Qed.

Theorem five_segment_already_at_target_unchanged (M0 M1 M2 M3 M4 R12 R23 : Q) (fx : bool) (G : ExtQ) (a : Q) (R : ExtQ) :
  0 < R12 -> R12 < R23 -> R23 < 1 ->
  0 <= M0 < 1 -> 0 <= M1 < 1 -> 0 <= M2 < 1 -> 0 <= M3 < 1 -> 0 <= M4 < 1 ->
  goal_ok M4 G -> cyc_okR R ->
  match R, G with Fin r, Fin g => r == g | NegInf, NegInf => True | _, _ => False end ->
  fst (transform_state fx (five_segment_diagram M0 M1 M2 M3 M4 R12 R23) G (a, R)) == a.
Proof. exact (fun h1 h2 h3 h4 h5 h6 h7 h8 => MeanStressFive.five_at_target_unchanged M0 M1 M2 M3 M4 R12 R23 h1 h2 h3 h4 h5 h6 h7 h8 fx G a R). Qed.

(* the unrestricted statement is FALSE for the code as it is (fx = false): witness M = (1/2, 1/4, 1/8, 1/16, 1/4), R12 = 1/4,
   R23 = 1/2, cycle of amplitude 1 at R = 2: via R = -1 it reaches R = -inf with 1/3, directly it is not transformed at all;
   with the repair (fx = true) the same instance is path independent *)
Theorem five_segment_neg_inf_refuted :
  let Dx := five_segment_diagram (1#2) (1#4) (1#8) (1#16) (1#4) (1#4) (1#2) in
  let c := (1, Fin 2) in
  ~ fst (transform_state false Dx NegInf (transform_state false Dx (Fin (-1)) c))
    == fst (transform_state false Dx NegInf c)
  /\ transform_state false Dx NegInf c = c
  /\ fst (transform_state true Dx NegInf (transform_state true Dx (Fin (-1)) c))
     == fst (transform_state true Dx NegInf c).
Proof. exact MeanStressFive.five_neg_inf_refuted. Qed.

(* any Haigh diagram, any schedule: a * H(R) is invariant under the whole segment walk as soon as H is, on every
   segment, a multiple of the iso-damage weight of that segment's slope *)
Theorem segment_walk_invariant (fx : bool) (H : ExtQ -> Q) (D : list Seg) (G : ExtQ) (c : Cyc) :
  good_diagram H D G -> cyc_okR (snd c) ->
  fst (transform_state fx D G c) * H (snd (transform_state fx D G c)) == fst c * H (snd c).
Proof. exact (MeanStressInv.transform_invariant fx H D G c). Qed.

(* matrix interface: re-binning conserves the number of cycles *)
Theorem matrix_conserves_cycles (b0 : Q) (breaks ranges cycles : list Q) :
  breaks <> [] -> increasing (b0 :: breaks) -> b0 == 0 ->
  length ranges = length cycles ->
  Forall (fun x => 0 <= x /\ x <= last breaks b0) ranges ->
  qsum (rebin (b0 :: breaks) ranges cycles) == qsum cycles.
Proof. exact (MeanStressRebin.rebin_conserves_cycles b0 breaks ranges cycles). Qed.

(* ---- listing order of the segments (diagrams built by HaighDiagram.from_dict).  schedule_ord fo: fo = false is the code as it
   is (transform_state_ord false = transform_state by definition), fo = true the code with fixes/C12-segment-listing-order.patch.
   The invariant holds for EVERY listing; what depends on the listing is whether the cycle arrives at the goal. *)
Theorem segment_walk_invariant_any_listing (fo fx : bool) (H : ExtQ -> Q) (D : list Seg) (G : ExtQ) (c : Cyc) :
  good_diagram H D G -> cyc_okR (snd c) ->
  fst (transform_state_ord fo fx D G c) * H (snd (transform_state_ord fo fx D G c)) == fst c * H (snd c) /\
  cyc_okR (snd (transform_state_ord fo fx D G c)).
Proof. exact (MeanStressOrder.transform_ord_invariant fo fx H D G c). Qed.

(* the repair changes nothing for the diagrams of the two constructors (all theorems above carry over to the repaired code) *)
Theorem listing_repair_keeps_fkm_goodman (fx : bool) (M M2 : Q) (G : ExtQ) (c : Cyc) :
  transform_state_ord true fx (fkm_goodman_diagram M M2) G c = transform_state fx (fkm_goodman_diagram M M2) G c.
Proof. exact (MeanStressOrder.repair_keeps_fkm fx M M2 G c). Qed.

Theorem listing_repair_keeps_five_segment (fx : bool) (M0 M1 M2 M3 M4 R12 R23 : Q) (G : ExtQ) (c : Cyc) :
  R12 < 1 -> R23 < 1 ->
  transform_state_ord true fx (five_segment_diagram M0 M1 M2 M3 M4 R12 R23) G c
  = transform_state fx (five_segment_diagram M0 M1 M2 M3 M4 R12 R23) G c.
Proof. exact (MeanStressOrder.repair_keeps_five fx M0 M1 M2 M3 M4 R12 R23 G c). Qed.

(* path independence "for any gap-free Haigh diagram" is FALSE for the code as it is: the FKM-Goodman diagram M = 3/10,
   M2 = 1/10 listed in the natural order (-inf, 0), (0, 1), (1, inf); cycle of amplitude 1 at R = 2, goal R = 1/2: the cycle is
   parked at R = -inf with amplitude 1, via R = -1 it arrives with 77/169 (= the constructor's listing, = the repaired code) *)
Theorem natural_listing_refuted :
  let Dn := fkm_natural (3#10) (1#10) in
  let Dc := fkm_goodman_diagram (3#10) (1#10) in
  let c := (1, Fin 2) in
  transform_state true Dn (Fin (1#2)) c = (1, NegInf)
  /\ ~ fst (transform_state true Dn (Fin (1#2)) (transform_state true Dn (Fin (-1)) c))
       == fst (transform_state true Dn (Fin (1#2)) c)
  /\ fst (transform_state true Dc (Fin (1#2)) c) == 77 # 169
  /\ fst (transform_state_ord true true Dn (Fin (1#2)) c) == 77 # 169
  /\ fst (transform_state_ord true true Dn (Fin (1#2)) (transform_state_ord true true Dn (Fin (-1)) c))
     == fst (transform_state_ord true true Dn (Fin (1#2)) c).
Proof. exact MeanStressOrder.natural_listing_refuted. Qed.

(* ---- index layout of the inputs.  Matrix interface: rows = (transformed range, cycles) of the classes the matrix lists.  The result
   classes depend only on the multiset of the NON-EMPTY rows: neither the order of the rows nor whether empty cells are listed at all
   (sparse matrix, mat[mat > 0]) changes any result class -- provided ranges and cycles are paired row by row (by label), which is
   what the harness relation "booked bin by bin as the plain function says" checks on the implementation. *)
Theorem matrix_result_independent_of_row_layout (breaks : list Q) (rows rows' : list (Q * Q)) :
  Permutation (filter (fun rc => negb (Qeq_bool (snd rc) 0)) rows) (filter (fun rc => negb (Qeq_bool (snd rc) 0)) rows') ->
  Forall2 Qeq (rebin breaks (map fst rows) (map snd rows)) (rebin breaks (map fst rows') (map snd rows')).
Proof. exact (MeanStressLayout.rebin_rows_layout breaks rows rows'). Qed.

(* collective interface with one parameter set (diagram) per element: transform_frame transforms every row (element id, cycle) with the
   diagram its id looks up in the frame of parameter sets.  The order in which the frame lists its distinct ids does not matter, and the
   k-th row gets exactly the single-diagram transformation with the diagram of its element. *)
Theorem frame_index_order_irrelevant (fo fx : bool) (ps ps' : list (Z * list Seg)) (G : ExtQ) (rows : list (Z * Cyc)) :
  NoDup (map fst ps) -> Permutation ps ps' ->
  transform_frame fo fx ps G rows = transform_frame fo fx ps' G rows.
Proof. exact (MeanStressLayout.transform_frame_index_order fo fx ps ps' G rows). Qed.

Theorem frame_row_is_single_diagram_transformation (fo fx : bool) (ps : list (Z * list Seg)) (G : ExtQ) (rows : list (Z * Cyc))
    (k : nat) (i : Z) (D : list Seg) (c : Cyc) :
  NoDup (map fst ps) -> In (i, D) ps -> nth_error rows k = Some (i, c) ->
  nth_error (transform_frame fo fx ps G rows) k = Some (transform_ord fo fx D G c).
Proof. exact (MeanStressLayout.transform_frame_nth fo fx ps G rows k i D c). Qed.


Print Assumptions fkm_goodman_closed_form.
Print Assumptions fkm_goodman_state_closed_form.
Print Assumptions fkm_path_independent.
Print Assumptions fkm_idempotent.
Print Assumptions fkm_already_at_target_unchanged.
Print Assumptions fkm_monotone_in_amplitude.
Print Assumptions fkm_continuous_across_segment_borders.
Print Assumptions five_segment_closed_form.
Print Assumptions five_segment_path_independent.
Print Assumptions five_segment_idempotent.
Print Assumptions five_segment_already_at_target_unchanged.
Print Assumptions five_segment_neg_inf_refuted.
Print Assumptions segment_walk_invariant.
Print Assumptions matrix_conserves_cycles.
Print Assumptions segment_walk_invariant_any_listing.
Print Assumptions listing_repair_keeps_fkm_goodman.
Print Assumptions listing_repair_keeps_five_segment.
Print Assumptions natural_listing_refuted.
Print Assumptions matrix_result_independent_of_row_layout.
Print Assumptions frame_index_order_irrelevant.
Print Assumptions frame_row_is_single_diagram_transformation.
