(* C20 -- VMAP export / import round trip and roll-back.
   Model: PL.Vmap.Model (hand-written, tied to the code by the correspondence check of harness/props/c20.py).
   V is the type of float cells (opaque), isnull = "is NaN" (GroupBy.first), feq = numpy == (2D/3D switch);
   c : cfg selects the code as it is (cfg_asis) or with the proposed repairs (cfg_fixed), see Model.v.
   Only statements, `exact`, Print Assumptions. *)
From Coq Require Import ZArith List Bool String Sorted.
From PL Require Import Vmap.Model Vmap.Lists Vmap.Thm Vmap.Witness.
Import ListNotations.
Open Scope Z_scope.
Open Scope string_scope.

(* ---- round trip.  Hypotheses forced by the proof: ids fit int32 (ids32), node data is the same in all rows of a node
   (consistent), no repeated (element,node) pair (nodup_pairs), three coordinate columns unless the importer accepts two
   (coords_ok); for element-nodal data of the code as it is, rows grouped by element (grouped) -- not needed when regroup c.
   One element size is not a hypothesis: it is implied by "add_geometry returned" (see mixed_element_types_refuted). *)

(* the imported mesh index: elements ascending by id, each element's nodes in the order of the exported rows *)
Theorem element_order_by_id_node_order_kept (V : Type) isnull feq c dim f name (rows : list (row V)) dim' f' :
  ids32 V rows ->
  add_geometry V isnull feq c dim f name rows None = (dim', f', OK tt) ->
  exists g, lookupS name (f_geoms V f') = Some g /\
    mesh_index V g = OK (skeys (map (rkey V) rows)) /\
    StronglySorted Z.le (map fst (skeys (map (rkey V) rows))) /\
    forall e, filter (fun k => (fst k =? e)%Z) (skeys (map (rkey V) rows)) = filter (fun k => (fst k =? e)%Z) (map (rkey V) rows).
Proof. exact (Thm.geometry_mesh_index V isnull feq c dim f name rows dim' f'). Qed.

Theorem roundtrip_coordinates (V : Type) isnull feq c dim f name (rows : list (row V)) dim' f' st :
  ids32 V rows -> consistent V rows -> coords_ok V c rows ->
  add_geometry V isnull feq c dim f name rows None = (dim', f', OK tt) ->
  exists s, irun V c f' (istate0 V) [MakeMesh name st; JoinCoordinates; ToFrame] None
    = OK (s, Some (map (fun r => mkirow (re V r) (rn V r) [Some (rp V r)]) (sorted_rows V rows))).
Proof. exact (Thm.roundtrip_coordinates V isnull feq c dim f name rows dim' f' st). Qed.

Theorem roundtrip_variable (V : Type) isnull c f state gname vname loc dim (vrows : list (row V)) g f' st0 :
  (loc = loc_node \/ loc = loc_elnodal) ->
  lookupS gname (f_geoms V f) = Some g ->
  mesh_index V g = OK (skeys (map (rkey V) vrows)) ->
  ids32 V vrows -> nodup_pairs V vrows ->
  (loc = loc_node -> consistent V vrows) ->
  (loc = loc_elnodal -> regroup c = true \/ grouped V vrows) ->
  add_variable V isnull c f state gname vname loc dim vrows true None = (f', OK tt) ->
  exists s, irun V c f' (istate0 V) [MakeMesh gname st0; JoinVariable vname (Some state) dim; ToFrame] None
    = OK (s, Some (map (fun r => mkirow (re V r) (rn V r) [Some (rp V r)]) (sorted_rows V vrows))).
Proof. exact (Thm.roundtrip_variable V isnull c f state gname vname loc dim vrows g f' st0). Qed.

(* ---- the unrestricted statement is false of the code as it is: witnesses *)
Theorem roundtrip_interleaved_rows_refuted :
  exists rows vrows : list (row Z),
    map (rkey Z) vrows = map (rkey Z) rows /\ ids32 Z vrows /\ nodup_pairs Z vrows /\ ~ grouped Z vrows /\
    exists d f1 f2 s fr,
      add_geometry Z nn Z.eqb cfg_asis 2 (empty_file Z) "g" rows None = (d, f1, OK tt) /\
      add_variable Z nn cfg_asis f1 "s" "g" "v" loc_elnodal 1 vrows true None = (f2, OK tt) /\
      irun Z cfg_asis f2 (istate0 Z) [MakeMesh "g" None; JoinVariable "v" (Some "s") 1; ToFrame] None = OK (s, Some fr) /\
      fr <> expected vrows.
Proof. exact Witness.roundtrip_interleaved_rows_refuted. Qed.

Theorem roundtrip_large_id_refuted :
  forall c, exists rows : list (row Z),
    consistent Z rows /\ nodup_pairs Z rows /\ coords_ok Z c rows /\ ~ ids32 Z rows /\
    exists d f1 s fr,
      add_geometry Z nn Z.eqb c 2 (empty_file Z) "g" rows None = (d, f1, OK tt) /\
      irun Z c f1 (istate0 Z) [MakeMesh "g" None; JoinCoordinates; ToFrame] None = OK (s, Some fr) /\
      fr <> expected rows.
Proof. exact Witness.roundtrip_large_id_refuted. Qed.

Theorem mixed_element_types_refuted :
  exists rows : list (row Z),
    ids32 Z rows /\ consistent Z rows /\ nodup_pairs Z rows /\ grouped Z rows /\
    (exists d f1, add_geometry Z nn Z.eqb cfg_asis 2 (empty_file Z) "g" rows None = (d, f1, Err EExport)) /\
    (exists d f1 s, add_geometry Z nn Z.eqb cfg_fixed 2 (empty_file Z) "g" rows None = (d, f1, OK tt) /\
        irun Z cfg_fixed f1 (istate0 Z) [MakeMesh "g" None; JoinCoordinates; ToFrame] None = OK (s, Some (expected rows))).
Proof. exact Witness.mixed_element_types_refuted. Qed.

Theorem dimension_leak_refuted :
  exists d1 f1, add_geometry Z nn Z.eqb cfg_asis 2 (empty_file Z) "a" tet None = (d1, f1, OK tt) /\
    (exists d2, add_geometry Z nn Z.eqb cfg_asis d1 f1 "b" tris None = (d2, f1, Err EExport)) /\
    (exists d2 f2, add_geometry Z nn Z.eqb cfg_asis 2 (empty_file Z) "b" tris None = (d2, f2, OK tt)) /\
    (exists d2 f2, add_geometry Z nn Z.eqb cfg_fixed d1 f1 "b" tris None = (d2, f2, OK tt)).
Proof. exact Witness.dimension_leak_refuted. Qed.

Theorem frame_without_z_refuted :
  exists d f1, add_geometry Z nn Z.eqb cfg_asis 2 (empty_file Z) "g" tris_xy None = (d, f1, OK tt) /\
    irun Z cfg_asis f1 (istate0 Z) [MakeMesh "g" None; JoinCoordinates; ToFrame] None = Err EValue /\
    exists s, irun Z cfg_fixed f1 (istate0 Z) [MakeMesh "g" None; JoinCoordinates; ToFrame] None = OK (s, Some (expected tris_xy)).
Proof. exact Witness.frame_without_z_refuted. Qed.

Theorem stored_set_unreadable_refuted :
  exists d f1 f2, add_geometry Z nn Z.eqb cfg_asis 2 (empty_file Z) "g" tet None = (d, f1, OK tt) /\
    add_set Z f1 "g" 0 [2; 3] tet "A" None = (f2, OK tt) /\
    irun Z cfg_asis f2 (istate0 Z) [MakeMesh "g" None; FilterNodeSet "A"; ToFrame] None = Err EAttr.
Proof. exact Witness.stored_set_unreadable_refuted. Qed.

(* the hypotheses are satisfiable (code as it is) *)
Theorem roundtrip_hypotheses_satisfiable :
  ids32 Z tet /\ consistent Z tet /\ nodup_pairs Z tet /\ coords_ok Z cfg_asis tet /\ grouped Z tet_val /\
  exists d f1 f2,
    add_geometry Z nn Z.eqb cfg_asis 2 (empty_file Z) "g" tet None = (d, f1, OK tt) /\
    add_variable Z nn cfg_asis f1 "s" "g" "v" loc_elnodal 1 tet_val true None = (f2, OK tt).
Proof. exact Witness.roundtrip_hypotheses_satisfiable. Qed.

(* ---- reading is repeatable: whatever the importer did before, a chain starting with make_mesh returns the same *)
Theorem import_repeatable (V : Type) c f s s' gname st ops last :
  irun V c f s (MakeMesh gname st :: ops) last = irun V c f s' (MakeMesh gname st :: ops) last.
Proof. exact (Thm.import_repeatable V c f s s' gname st ops last). Qed.

(* ---- filtering by a stored set returns exactly that set's members (importer that can read the set names) *)
Theorem filter_node_set_exact (V : Type) c f gname ids (rows : list (row V)) sname f' s m :
  sets_ok c = true -> forallb in32 ids = true ->
  add_set V f gname 0 ids rows sname None = (f', OK tt) ->
  i_mesh V s = Some m -> i_geom V s = gname ->
  istep V c f' s (FilterNodeSet sname)
  = OK (mkistate V (Some (filter (fun r => memZ (inn V r) ids) m)) gname (i_state V s), None).
Proof. exact (Thm.filter_node_set_exact V c f gname ids rows sname f' s m). Qed.
Theorem filter_element_set_exact (V : Type) c f gname ids (rows : list (row V)) sname f' s m :
  sets_ok c = true -> forallb in32 ids = true ->
  add_set V f gname 1 ids rows sname None = (f', OK tt) ->
  i_mesh V s = Some m -> i_geom V s = gname ->
  istep V c f' s (FilterElementSet sname)
  = OK (mkistate V (Some (filter (fun r => memZ (ie V r) ids) m)) gname (i_state V s), None).
Proof. exact (Thm.filter_element_set_exact V c f gname ids rows sname f' s m). Qed.

(* ---- a failed export leaves no partial geometry or variable: for every failure point fp (h5py call that raises),
   every variant c, every reason e *)
Theorem failed_add_geometry_leaves_file_unchanged (V : Type) isnull feq c dim f name (rows : list (row V)) fp dim' f' e :
  add_geometry V isnull feq c dim f name rows fp = (dim', f', Err e) -> f' = f.
Proof. exact (Thm.add_geometry_failed_unchanged V isnull feq c dim f name rows fp dim' f' e). Qed.
Theorem failed_add_variable_leaves_no_geometry_or_variable (V : Type) isnull c f state gname vname loc dim (rows : list (row V)) colsok fp f' e :
  add_variable V isnull c f state gname vname loc dim rows colsok fp = (f', Err e) ->
  f_geoms V f' = f_geoms V f /\ f_vars V f' = f_vars V f.
Proof. exact (Thm.add_variable_failed_keeps_content V isnull c f state gname vname loc dim rows colsok fp f' e). Qed.
Theorem failed_add_set_leaves_file_unchanged (V : Type) f gname stype ids (rows : list (row V)) sname fp f' e :
  add_set V f gname stype ids rows sname fp = (f', Err e) -> f' = f.
Proof. exact (Thm.add_set_failed_unchanged V f gname stype ids rows sname fp f' e). Qed.
(* what does stay: the (empty) state group created before the try block *)
Theorem failed_add_variable_leaves_state_group :
  exists d f1 f2, add_geometry Z nn Z.eqb cfg_asis 2 (empty_file Z) "g" tet None = (d, f1, OK tt) /\
    add_variable Z nn cfg_asis f1 "s" "g" "v" loc_node 1 tet true (Some 3%nat) = (f2, Err EExport) /\
    f_vars Z f2 = [] /\ f_states Z f1 = [] /\ f_states Z f2 = ["s"].
Proof. exact Witness.failed_add_variable_leaves_state_group. Qed.

Print Assumptions element_order_by_id_node_order_kept.
Print Assumptions roundtrip_coordinates.
Print Assumptions roundtrip_variable.
Print Assumptions roundtrip_interleaved_rows_refuted.
Print Assumptions roundtrip_large_id_refuted.
Print Assumptions mixed_element_types_refuted.
Print Assumptions dimension_leak_refuted.
Print Assumptions frame_without_z_refuted.
Print Assumptions stored_set_unreadable_refuted.
Print Assumptions roundtrip_hypotheses_satisfiable.
Print Assumptions import_repeatable.
Print Assumptions filter_node_set_exact.
Print Assumptions filter_element_set_exact.
Print Assumptions failed_add_geometry_leaves_file_unchanged.
Print Assumptions failed_add_variable_leaves_no_geometry_or_variable.
Print Assumptions failed_add_set_leaves_file_unchanged.
Print Assumptions failed_add_variable_leaves_state_group.
