(* C20 -- VMAP export / import round trip and roll-back.
   Model: PL.Vmap.Model (hand-written, tied to the code by the correspondence check of harness/props/c20.py).
   Only statements, `exact`, Print Assumptions. *)
From Coq Require Import ZArith List Bool String.
From PL Require Import Vmap.Model Vmap.Thm.
Import ListNotations.
Open Scope Z_scope.

Theorem import_repeatable (V : Type) c f s s' gname st ops last :
  irun V c f s (MakeMesh gname st :: ops) last = irun V c f s' (MakeMesh gname st :: ops) last.
Proof. exact (Thm.import_repeatable V c f s s' gname st ops last). Qed.

Print Assumptions import_repeatable.
