(* C04 -- the second HCM pass of the FKM-nonlinear detector counts exactly the steady-state hystereses.
   Model: PL.HCM.Model (generic), PL.HCM.Load (load-only instance), specification PL.HCM.Periodic; tied to the code by the
   correspondence check of harness/props/c04.py.  Only statements, `exact`, Print Assumptions. *)
From Coq Require Import ZArith List Bool.
From PL Require Import Rainflow.Model HCM.Model HCM.Load HCM.Periodic HCM.Inv HCM.LoadThm.
Import ListNotations.
Open Scope Z_scope.

(* the model never reaches the code's IndexError branches: iz is always the number of open residuals *)
Theorem hcm_never_stuck n s : exists d e, lpasses n s = Some (d, e).
Proof. exact (LoadThm.hcm_never_stuck n s). Qed.

(* half-counted (Memory 3) hystereses are symmetric about zero -- every sequence, every pass *)
Theorem memory3_symmetric s r :
  In r (load_records s) -> closed_of r = false -> fst (rng r) = - snd (rng r) /\ 0 <= snd (rng r).
Proof. exact (LoadThm.memory3_symmetric s r). Qed.

(* pass 2 records only full hystereses (hence Memory 3 occurs only in pass 1) whenever the largest |load| has been
   decided in pass 1; without that hypothesis the statement is false (trailing plateau at the extreme) *)
Theorem pass2_all_closed s :
  Forall (fun x => Z.abs x <= lmax_first s) s -> Forall (fun r => closed_of r = true) (pass_recs 2 (load_records s)).
Proof. exact (LoadThm.pass2_all_closed s). Qed.
Theorem pass2_all_closed_refuted : exists s, ~ Forall (fun r => closed_of r = true) (pass_recs 2 (load_records s)).
Proof. exact LoadThm.pass2_all_closed_refuted. Qed.

(* the property as written is false of the faithful model (= the known finding C04-junction) ... *)
Theorem pass2_is_steady_state_refuted : ~ (forall s, two_distinct s = true -> pass2_ok s = true).
Proof. exact LoadThm.pass2_is_steady_state_refuted. Qed.
Theorem pass2_witnesses :
  (z_class [-2; 0; -1] = true /\ p_class [-2; 0; -1] = false /\ pass2_pairs [-2; 0; -1] = [(-2, -2); (-1, 0)] /\ steady_cycles [-2; 0; -1] = Some [(-2, 0)]) /\
  (z_class [-1; 2; 2] = false /\ p_class [-1; 2; 2] = false /\ pass_recs 2 (load_records [-1; 2; 2]) = [(-1, 1, false, 2%nat); (-1, 2, true, 2%nat)] /\ steady_cycles [-1; 2; 2] = Some [(-1, 2)]) /\
  (z_class [-16; -6; -10; -15; -1] = false /\ p_class [-16; -6; -10; -15; -1] = true /\
   pass2_pairs [-16; -6; -10; -15; -1] = [(-16, -1); (-15, -6); (-15, -6)] /\
   option_map sort_pairs (steady_cycles [-16; -6; -10; -15; -1]) = Some [(-16, -1); (-15, -6)]).
Proof. exact LoadThm.pass2_witnesses. Qed.

(* ... and holds in the junction class z and p: BOUNDED instance (every sequence over {-3..3} of length <= 6).
   The unbounded statement is LoadThm.pass2_is_steady_state_restricted_statement; it is not proved. *)
Theorem pass2_is_steady_state_restricted_bounded s :
  (length s <= 6)%nat -> Forall (fun x => -3 <= x <= 3) s ->
  two_distinct s = true -> in_class s = true -> pass2_ok s = true.
Proof. exact (LoadThm.pass2_is_steady_state_restricted_bounded s). Qed.

(* non-reversal samples do not change what pass 2 counts (corollary; same bound, both sequences in the class) *)
Theorem refine_insensitive_hcm_bounded s s' :
  (length s <= 6)%nat -> Forall (fun x => -3 <= x <= 3) s -> two_distinct s = true -> in_class s = true ->
  (length s' <= 6)%nat -> Forall (fun x => -3 <= x <= 3) s' -> two_distinct s' = true -> in_class s' = true ->
  periodic_reversals s = periodic_reversals s' ->
  pass2_pairs s = pass2_pairs s' /\
  Forall (fun r => closed_of r = true) (pass_recs 2 (load_records s) ++ pass_recs 2 (load_records s')).
Proof. exact (LoadThm.refine_insensitive_hcm_bounded s s'). Qed.

(* a third pass records what the second recorded and ends in the same residual (same bound and class) *)
Theorem pass_stationary_bounded s :
  (length s <= 6)%nat -> Forall (fun x => -3 <= x <= 3) s ->
  two_distinct s = true -> in_class s = true -> stationary_ok s = true.
Proof. exact (LoadThm.pass_stationary_bounded s). Qed.

Print Assumptions hcm_never_stuck.
Print Assumptions memory3_symmetric.
Print Assumptions pass2_all_closed.
Print Assumptions pass2_all_closed_refuted.
Print Assumptions pass2_is_steady_state_refuted.
Print Assumptions pass2_witnesses.
Print Assumptions pass2_is_steady_state_restricted_bounded.
Print Assumptions refine_insensitive_hcm_bounded.
Print Assumptions pass_stationary_bounded.
