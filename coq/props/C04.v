(* C04 -- the second HCM pass of the FKM-nonlinear detector counts exactly the steady-state hystereses.
   Model: PL.HCM.Model (generic), PL.HCM.Load (load-only instance), specification PL.HCM.Periodic; tied to the code by the
   correspondence check of harness/props/c04.py.  Only statements, `exact`, Print Assumptions. *)
From Coq Require Import Reals ZArith List Bool.
From PL Require Import Rainflow.Model HCM.Model HCM.Load HCM.Periodic HCM.Inv HCM.LoadThm HCM.Tol HCM.Dwell.
Import ListNotations.
Open Scope Z_scope.

(* the model never reaches the code's IndexError branches: iz is always the number of open residuals *)
Theorem hcm_never_stuck n s : exists d e, lpasses n s = Some (d, e).
Proof. exact (LoadThm.hcm_never_stuck n s). Qed.

(* half-counted (Memory 3) hystereses are symmetric about zero -- every sequence, every pass *)
Theorem memory3_symmetric s r :
  In r (load_records s) -> closed_of r = false -> fst (rng r) = - snd (rng r) /\ 0 <= snd (rng r).
Proof. exact (LoadThm.memory3_symmetric s r). Qed.

(* pass 2 records only full hystereses (hence Memory 3 occurs only in pass 1) whenever the largest |load| has been
   decided in pass 1; without that hypothesis the statement is false (trailing plateau at the extreme) *)
Theorem pass2_all_closed s :
  Forall (fun x => Z.abs x <= lmax_first s) s -> Forall (fun r => closed_of r = true) (pass_recs 2 (load_records s)).
Proof. exact (LoadThm.pass2_all_closed s). Qed.
Theorem pass2_all_closed_refuted : exists s, ~ Forall (fun r => closed_of r = true) (pass_recs 2 (load_records s)).
Proof. exact LoadThm.pass2_all_closed_refuted. Qed.

(* the property as written is false of the faithful model (= the known finding C04-junction) ... *)
Theorem pass2_is_steady_state_refuted : ~ (forall s, two_distinct s = true -> pass2_ok s = true).
Proof. exact LoadThm.pass2_is_steady_state_refuted. Qed.
Theorem pass2_witnesses :
  (z_class [-2; 0; -1] = true /\ p_class [-2; 0; -1] = false /\ pass2_pairs [-2; 0; -1] = [(-2, -2); (-1, 0)] /\ steady_cycles [-2; 0; -1] = Some [(-2, 0)]) /\
  (z_class [-1; 2; 2] = false /\ p_class [-1; 2; 2] = false /\ pass_recs 2 (load_records [-1; 2; 2]) = [(-1, 1, false, 2%nat); (-1, 2, true, 2%nat)] /\ steady_cycles [-1; 2; 2] = Some [(-1, 2)]) /\
  (z_class [-16; -6; -10; -15; -1] = false /\ p_class [-16; -6; -10; -15; -1] = true /\
   pass2_pairs [-16; -6; -10; -15; -1] = [(-16, -1); (-15, -6); (-15, -6)] /\
   option_map sort_pairs (steady_cycles [-16; -6; -10; -15; -1]) = Some [(-16, -1); (-15, -6)]).
Proof. exact LoadThm.pass2_witnesses. Qed.

(* ... and holds in the junction class z and p: BOUNDED instance (every sequence over {-3..3} of length <= 6).
   The unbounded statement is LoadThm.pass2_is_steady_state_restricted_statement; it is not proved. *)
Theorem pass2_is_steady_state_restricted_bounded s :
  (length s <= 6)%nat -> Forall (fun x => -3 <= x <= 3) s ->
  two_distinct s = true -> in_class s = true -> pass2_ok s = true.
Proof. exact (LoadThm.pass2_is_steady_state_restricted_bounded s). Qed.

(* non-reversal samples do not change what pass 2 counts (corollary; same bound, both sequences in the class) *)
Theorem refine_insensitive_hcm_bounded s s' :
  (length s <= 6)%nat -> Forall (fun x => -3 <= x <= 3) s -> two_distinct s = true -> in_class s = true ->
  (length s' <= 6)%nat -> Forall (fun x => -3 <= x <= 3) s' -> two_distinct s' = true -> in_class s' = true ->
  periodic_reversals s = periodic_reversals s' ->
  pass2_pairs s = pass2_pairs s' /\
  Forall (fun r => closed_of r = true) (pass_recs 2 (load_records s) ++ pass_recs 2 (load_records s')).
Proof. exact (LoadThm.refine_insensitive_hcm_bounded s s'). Qed.

(* a third pass records what the second recorded and ends in the same residual (same bound and class) *)
Theorem pass_stationary_bounded s :
  (length s <= 6)%nat -> Forall (fun x => -3 <= x <= 3) s ->
  two_distinct s = true -> in_class s = true -> stationary_ok s = true.
Proof. exact (LoadThm.pass_stationary_bounded s). Qed.

(* float loads: the code's tolerant comparisons (`>` / `<` with an absolute tolerance tol) of quantities that lie within ea, eb of a
   grid c * level decide like the exact comparison of the integer levels, whenever ea + eb < tol and tol + ea + eb < c; the compared
   quantities are loads, |loads| and load extents, whose grid errors are bounded by level_abs_extent.  This is the (only) bridge
   between the integer load model and the near-tie float inputs of the correspondence check (c04.py stage D4). *)
Theorem tolerant_compare_is_level_compare (c tol ea eb a b : R) (za zb : Z) :
  (ea + eb < tol)%R -> (tol + ea + eb < c)%R ->
  (Rabs (a - c * IZR za) <= ea)%R -> (Rabs (b - c * IZR zb) <= eb)%R ->
  ((a > b + tol)%R <-> za > zb) /\ ((a < b - tol)%R <-> za < zb).
Proof. exact (fun H1 H2 Ha Hb => conj (Tol.tolerant_gt_is_level_gt c tol ea eb H1 H2 a b za zb Ha Hb)
                                       (Tol.tolerant_lt_is_level_lt c tol ea eb a b za zb H1 H2 Ha Hb)). Qed.
Theorem level_abs_extent (c e1 e2 x y : R) (zx zy : Z) :
  (0 < c)%R -> (Rabs (x - c * IZR zx) <= e1)%R -> (Rabs (y - c * IZR zy) <= e2)%R ->
  (Rabs (Rabs x - c * IZR (Z.abs zx)) <= e1)%R /\ (Rabs (Rabs (x - y) - c * IZR (Z.abs (zx - zy))) <= e1 + e2)%R.
Proof. exact (fun Hc Hx Hy => conj (Tol.level_abs c e1 x zx Hc Hx) (Tol.level_extent c e1 e2 x y zx zy Hc Hx Hy)). Qed.
Theorem tolerant_compare_hyp_sat :
  let tol := (/ 1000000000000)%R in let e := (45 / 100000000000000)%R in let c := (/ 1000)%R in
  (e + e < tol)%R /\ (tol + e + e < c)%R.
Proof. exact Tol.tolerant_hyp_sat. Qed.

(* samples that repeat their predecessor do not change what the model records (records of every pass and the HCM memory after n further
   passes), as long as process_hcm_first takes the same flush decision -- the only place where the NUMBER of repetitions is looked at ... *)
Theorem squeeze_insensitive n s s' :
  dedup s = dedup s' -> flush_first s = flush_first s' -> load_obs n s = load_obs n s'.
Proof. exact (Dwell.squeeze_insensitive n s s'). Qed.
Theorem squeeze_insensitive_hyp_sat :
  dedup [1; -2; -2] = dedup [1; -2; -2; -2; -2] /\ flush_first [1; -2; -2] = flush_first [1; -2; -2; -2; -2] /\ [1; -2; -2] <> [1; -2; -2; -2; -2].
Proof. exact Dwell.squeeze_insensitive_hyp_sat. Qed.
(* ... in particular the length of a trailing plateau (dwell) of two or more samples is irrelevant, whatever the block before it is
   (unbounded; justifies the dwell relation of c04.py stage D2a: plateau of 2 samples vs. plateau of L samples) *)
Theorem dwell_insensitive n a x k : load_obs n (a ++ x :: x :: repeat x k) = load_obs n (a ++ [x; x]).
Proof. exact (Dwell.dwell_insensitive n a x k). Qed.

Print Assumptions hcm_never_stuck.
Print Assumptions memory3_symmetric.
Print Assumptions pass2_all_closed.
Print Assumptions pass2_all_closed_refuted.
Print Assumptions pass2_is_steady_state_refuted.
Print Assumptions pass2_witnesses.
Print Assumptions pass2_is_steady_state_restricted_bounded.
Print Assumptions refine_insensitive_hcm_bounded.
Print Assumptions pass_stationary_bounded.
Print Assumptions tolerant_compare_is_level_compare.
Print Assumptions level_abs_extent.
Print Assumptions tolerant_compare_hyp_sat.
Print Assumptions squeeze_insensitive.
Print Assumptions squeeze_insensitive_hyp_sat.
Print Assumptions dwell_insensitive.
