(* C14 -- load collectives and histograms account for every cycle exactly once.
   Models: PL.Stress.Collective (accessors, scale/shift), PL.Stress.Histogram (numpy class assignment),
   PL.Stress.Rebin (rebin_histogram, _fail_if_binning_invalid, combine_histogram); hand-written over Q and tied
   to the code by the correspondence check of harness/props/c14.py.
   Only statements, `exact`, Print Assumptions. *)
From Coq Require Import QArith Qabs Qminmax List Bool.
From PL Require Import Stress.Collective Stress.Histogram Stress.Rebin Stress.RebinND.
Import ListNotations.
Open Scope Q_scope.

(* ---- collective: amplitude, mean, upper, lower, R are mutually consistent *)
Theorem accessor_consistency c :
  upper c - lower c == 2 * amplitude c /\
  (upper c + lower c) / 2 == meanstress c /\
  lower c <= upper c /\ 0 <= amplitude c /\
  upper c == meanstress c + amplitude c /\ lower c == meanstress c - amplitude c /\
  match Rvalue c with
  | Some r => (~ upper c == 0 -> r * upper c == lower c) /\ (upper c == 0 -> lower c == 0 /\ r == 0)
  | None => upper c == 0 /\ ~ lower c == 0
  end.
Proof. exact (Collective.accessor_consistency c). Qed.

(* the same for the classes of a load histogram (from/to matrix, range/mean matrix, range only), any class location *)
Theorem histogram_accessor_consistency loc k :
  h_upper loc k - h_lower loc k == 2 * h_amplitude loc k /\
  (h_upper loc k + h_lower loc k) / 2 == h_meanstress loc k /\
  match h_R loc k with
  | Some r => (~ h_upper loc k == 0 -> r * h_upper loc k == h_lower loc k) /\ (h_upper loc k == 0 -> h_lower loc k == 0 /\ r == 0)
  | None => h_upper loc k == 0 /\ ~ h_lower loc k == 0
  end.
Proof. exact (Collective.histogram_accessor_consistency loc k). Qed.

(* ---- from/to and range/mean descriptions are equivalent *)
Theorem from_to_equiv_range_mean c :
  let c' := of_range_mean (2 * amplitude c) (meanstress c) (lcyc c) in
  amplitude c' == amplitude c /\ meanstress c' == meanstress c /\
  upper c' == upper c /\ lower c' == lower c /\ cycles c' = cycles c /\
  lfrom c' == lower c /\ lto c' == upper c.
Proof. exact (Collective.from_to_equiv_range_mean c). Qed.

Theorem range_mean_roundtrip rng mean cyc :
  let c := of_range_mean rng mean cyc in
  2 * amplitude c == Qabs rng /\ meanstress c == mean /\ cycles c = match cyc with Some n => n | None => 1 end /\
  (0 <= rng -> lfrom c == lower c /\ lto c == upper c).
Proof. exact (Collective.range_mean_roundtrip rng mean cyc). Qed.

(* ---- scaling / shifting transforms the quantities accordingly and leaves the cycle counts untouched *)
Theorem scale_keeps_cycles f c :
  cycles (scale f c) = cycles c /\ lcyc (scale f c) = lcyc c /\
  amplitude (scale f c) == Qabs f * amplitude c /\
  meanstress (scale f c) == f * meanstress c /\
  (0 <= f -> upper (scale f c) == f * upper c /\ lower (scale f c) == f * lower c) /\
  (f <= 0 -> upper (scale f c) == f * lower c /\ lower (scale f c) == f * upper c).
Proof. exact (Collective.scale_keeps_cycles f c). Qed.

Theorem shift_keeps_cycles d c :
  cycles (shift d c) = cycles c /\ lcyc (shift d c) = lcyc c /\
  amplitude (shift d c) == amplitude c /\
  meanstress (shift d c) == meanstress c + d /\
  upper (shift d c) == upper c + d /\ lower (shift d c) == lower c + d.
Proof. exact (Collective.shift_keeps_cycles d c). Qed.

Theorem scale_shift_keep_cycles (f d : Q) (l : list loop) :
  map cycles (map (scale f) l) = map cycles l /\ map cycles (map (shift d) l) = map cycles l /\
  length (map (scale f) l) = length l /\ length (map (shift d) l) = length l.
Proof. exact (Collective.scale_shift_keep_cycles f d l). Qed.

Theorem histogram_scale loc f k : 0 <= f ->
  h_amplitude loc (h_scale f k) == f * h_amplitude loc k /\ h_meanstress loc (h_scale f k) == f * h_meanstress loc k.
Proof. exact (Collective.histogram_scale loc f k). Qed.

Theorem histogram_shift loc d k :
  h_amplitude loc (h_shift d k) == h_amplitude loc k /\
  h_meanstress loc (h_shift d k) == h_meanstress loc k + match k with RangeMean _ None => 0 | _ => d end.
Proof. exact (Collective.histogram_shift loc d k). Qed.

(* ---- histogramming: every value of the covered range lies in exactly one class, values outside in none;
        hence the class counts sum to the (weighted) number of cycles in the covered range *)
Theorem each_value_in_exactly_one_class edges x :
  sortedb edges = true -> (2 <= length edges)%nat ->
  nclasses edges x = if covered edges x then 1%nat else 0%nat.
Proof. exact (Histogram.each_value_in_exactly_one_class edges x). Qed.

Theorem histogram_each_cycle_once edges (pts : list (Q * Q)) :
  sortedb edges = true -> (2 <= length edges)%nat ->
  Qsum (hist1 edges pts) == Qsum (map (fun p => if covered edges (fst p) then snd p else 0) pts).
Proof. exact (Histogram.histogram_each_cycle_once edges pts). Qed.

Theorem histogram_counts_loops edges (xs : list Q) :
  sortedb edges = true -> (2 <= length edges)%nat ->
  Qsum (hist1 edges (map (fun x => (x, 1)) xs)) == inject_Z (Z.of_nat (length (filter (covered edges) xs))).
Proof. exact (Histogram.histogram_counts_loops edges xs). Qed.

(* ---- the range histogram is the marginal of the range/mean histogram when all means are covered *)
Theorem range_histogram_is_marginal redges medges (pts : list (Q * Q * Q)) :
  sortedb medges = true -> (2 <= length medges)%nat ->
  Forall (fun p => covered medges (snd (fst p)) = true) pts ->
  Forall2 Qeq (map Qsum (hist2 redges medges pts)) (hist1 redges (map (fun p => (fst (fst p), snd p)) pts)).
Proof. exact (Histogram.range_histogram_is_marginal redges medges pts). Qed.

(* ---- re-binning to a gap-free covering binning conserves the total *)
Theorem rebin_conserves_total (h : hist) (edges : list Q) :
  Forall (fun s => 0 < ilen (fst s)) h ->
  sortedb edges = true -> (2 <= length edges)%nat ->
  Forall (fun s => within edges (fst s)) h ->
  Qsum (map snd (rebin 0 h (from_breaks edges))) == Qsum (map snd h).
Proof. exact (Rebin.rebin_conserves_total h edges). Qed.

(* including the validation step: with the validation the property demands (a single class is a binning) ... *)
Theorem rebin_checked_conserves_total (h : hist) (edges : list Q) :
  Forall (fun s => 0 < ilen (fst s)) h ->
  ssortedb edges = true -> (2 <= length edges)%nat ->
  Forall (fun s => within edges (fst s)) h ->
  exists r, rebin_checked 0 h (from_breaks edges) = Some r /\ Qsum (map snd r) == Qsum (map snd h).
Proof. exact (Rebin.rebin_checked_conserves_total h edges). Qed.

(* ... which the validation of today's code refutes for one class (known finding) and satisfies from two classes on *)
Theorem single_class_binning_accepted_refuted :
  exists (h : hist) (edges : list Q),
    ssortedb edges = true /\ (2 <= length edges)%nat /\ Forall (fun s => 0 < ilen (fst s) /\ within edges (fst s)) h /\
    rebin_checked_current 0 h (from_breaks edges) = None /\
    exists r, rebin_checked 0 h (from_breaks edges) = Some r /\ Qsum (map snd r) == Qsum (map snd h).
Proof. exact Rebin.single_class_binning_accepted_refuted. Qed.

Theorem rebin_checked_current_conserves_total (h : hist) (edges : list Q) :
  Forall (fun s => 0 < ilen (fst s)) h ->
  ssortedb edges = true -> (3 <= length edges)%nat ->
  Forall (fun s => within edges (fst s)) h ->
  exists r, rebin_checked_current 0 h (from_breaks edges) = Some r /\ Qsum (map snd r) == Qsum (map snd h).
Proof. exact (Rebin.rebin_checked_current_conserves_total h edges). Qed.

Theorem binning_validation_agrees b : length b <> 1%nat -> binning_ok_current b = binning_ok b.
Proof. exact (Rebin.binning_validation_agrees b). Qed.

(* ---- re-binning to the histogram's own (increasing, non-overlapping) binning is the identity *)
Theorem rebin_same_binning_identity (h : hist) :
  incr (map fst h) ->
  Forall2 (fun x y => fst x = fst y /\ snd x == snd y) (rebin 0 h (map fst h)) h.
Proof. exact (Rebin.rebin_same_binning_identity h). Qed.

(* ---- "composes": true when the first target refines the source, false in general *)
Theorem rebin_composes_through_refinement (h : hist) (E1 : list Q) (t : ivl) :
  ssortedb E1 = true -> (2 <= length E1)%nat ->
  Forall (fun s => 0 < ilen (fst s) /\ within E1 (fst s) /\ aligned E1 (fst s)) h ->
  fst t <= snd t ->
  aggregate 0 (rebin 0 h (from_breaks E1)) t == aggregate 0 h t.
Proof. exact (Rebin.rebin_composes_through_refinement h E1 t). Qed.

Theorem rebin_composes_general_refuted :
  exists (h : hist) (E1 E2 : list Q),
    ssortedb E1 = true /\ ssortedb E2 = true /\ binning_ok (from_breaks E1) = true /\ binning_ok (from_breaks E2) = true /\
    Forall (fun s => 0 < ilen (fst s) /\ within E1 (fst s) /\ within E2 (fst s)) h /\
    hist_eqb (rebin 0 (rebin 0 h (from_breaks E1)) (from_breaks E2)) (rebin 0 h (from_breaks E2)) = false.
Proof. exact Rebin.rebin_composes_general_refuted. Qed.

(* ---- histograms with several class levels (range/mean, from/to, ...): every level is re-binned to the binning given for it *)
Theorem rebin_nd_conserves_total (h : histn) (E : list (list Q)) :
  Forall (fun kv => Forall2 level_ok E (fst kv)) h ->
  Qsum (map snd (rebin_nd h (map from_breaks E))) == Qsum (map snd h).
Proof. exact (RebinND.rebin_nd_conserves_total h E). Qed.

Theorem rebin_nd_one_level (h : hist) (t : ivl) :
  aggregate_nd (map (fun s => ([fst s], snd s)) h) [t] == aggregate 0 h t.
Proof. exact (RebinND.aggregate_nd_one_level h t). Qed.

Theorem rebin_nd_level_order (h : histn) (t : key) :
  (2 <= length t)%nat -> Forall (fun kv => (2 <= length (fst kv))%nat) h ->
  aggregate_nd (map (fun kv => (swap2 (fst kv), snd kv)) h) (swap2 t) == aggregate_nd h t.
Proof. exact (RebinND.rebin_nd_level_order h t). Qed.

(* ---- combining by sum conserves the grand total *)
Theorem combine_conserves_total (hs : list (list (key * Q))) :
  Qsum (map snd (combine_sum hs)) == Qsum (map (fun h => Qsum (map snd h)) hs).
Proof. exact (Rebin.combine_conserves_total hs). Qed.

Print Assumptions accessor_consistency.
Print Assumptions histogram_accessor_consistency.
Print Assumptions from_to_equiv_range_mean.
Print Assumptions range_mean_roundtrip.
Print Assumptions scale_keeps_cycles.
Print Assumptions shift_keeps_cycles.
Print Assumptions scale_shift_keep_cycles.
Print Assumptions histogram_scale.
Print Assumptions histogram_shift.
Print Assumptions each_value_in_exactly_one_class.
Print Assumptions histogram_each_cycle_once.
Print Assumptions histogram_counts_loops.
Print Assumptions range_histogram_is_marginal.
Print Assumptions rebin_conserves_total.
Print Assumptions rebin_checked_conserves_total.
Print Assumptions single_class_binning_accepted_refuted.
Print Assumptions rebin_checked_current_conserves_total.
Print Assumptions binning_validation_agrees.
Print Assumptions rebin_same_binning_identity.
Print Assumptions rebin_composes_through_refinement.
Print Assumptions rebin_composes_general_refuted.
Print Assumptions rebin_nd_conserves_total.
Print Assumptions rebin_nd_one_level.
Print Assumptions rebin_nd_level_order.
Print Assumptions combine_conserves_total.
