(* C19 -- mesh operators are exact on linear fields and respect mesh connectivity.
   Models: PLgen.GenGradient (regenerated from gradient.py on every run by symbolic execution) for Gradient3D;
   PL.Mesh.Lstsq (hand-written) for Gradient; PL.Mesh.HotSpot (hand-written, executable, tied by correspondence) for
   HotSpot.calc.  Only statements, `exact`, Print Assumptions. *)
From Coq Require Import Reals ZArith List Bool.
From PL Require Import Mesh.Mat3 Mesh.Gradient3D Mesh.Lstsq Mesh.HotSpot Mesh.HotSpotSpec Mesh.Surface.
From PLgen Require Import GenGradient.
Import ListNotations.

(* ---- Gradient3D: the value written to row k of a hexahedral / tetrahedral element table is the exact gradient of
   a linear field, for every inversion routine that returns a right inverse of regular matrices *)
Theorem hex_linear_exact (x11 x12 x13 x21 x22 x23 x31 x32 x33 x41 x42 x43 x51 x52 x53 x61 x62 x63 x71 x72 x73 x81 x82 x83 : R) (inv : M33 -> M33) :
  (forall A, det3 A <> 0%R -> mmul A (inv A) = I3) ->
  forall g1 g2 g3 c k, det3 (hexJ x11 x12 x13 x21 x22 x23 x31 x32 x33 x41 x42 x43 x51 x52 x53 x61 x62 x63 x71 x72 x73 x81 x82 x83 k) <> 0%R ->
  hex_gradient x11 x12 x13 x21 x22 x23 x31 x32 x33 x41 x42 x43 x51 x52 x53 x61 x62 x63 x71 x72 x73 x81 x82 x83 inv k (lin g1 g2 g3 c x11 x12 x13) (lin g1 g2 g3 c x21 x22 x23) (lin g1 g2 g3 c x31 x32 x33) (lin g1 g2 g3 c x41 x42 x43) (lin g1 g2 g3 c x51 x52 x53) (lin g1 g2 g3 c x61 x62 x63) (lin g1 g2 g3 c x71 x72 x73) (lin g1 g2 g3 c x81 x82 x83) = (g1, g2, g3).
Proof. exact (Gradient3D.hex_linear_exact x11 x12 x13 x21 x22 x23 x31 x32 x33 x41 x42 x43 x51 x52 x53 x61 x62 x63 x71 x72 x73 x81 x82 x83 inv). Qed.

Theorem tet_linear_exact (x11 x12 x13 x21 x22 x23 x31 x32 x33 x41 x42 x43 : R) (inv : M33 -> M33) :
  (forall A, det3 A <> 0%R -> mmul A (inv A) = I3) ->
  forall g1 g2 g3 c k, det3 (tetJ x11 x12 x13 x21 x22 x23 x31 x32 x33 x41 x42 x43 k) <> 0%R ->
  tet_gradient x11 x12 x13 x21 x22 x23 x31 x32 x33 x41 x42 x43 inv k (lin g1 g2 g3 c x11 x12 x13) (lin g1 g2 g3 c x21 x22 x23) (lin g1 g2 g3 c x31 x32 x33) (lin g1 g2 g3 c x41 x42 x43) = (g1, g2, g3).
Proof. exact (Gradient3D.tet_linear_exact x11 x12 x13 x21 x22 x23 x31 x32 x33 x41 x42 x43 inv). Qed.

(* the contract is satisfiable (adjugate inverse) and so is regularity (unit cube, unit simplex) *)
Theorem inv_contract_satisfiable : forall A, det3 A <> 0%R -> mmul A (inv3 A) = I3.
Proof. exact Gradient3D.inv3_meets_contract. Qed.
Theorem hex_unit_cube_regular k : det3 (hexJ 0 0 0  1 0 0  1 1 0  0 1 0  0 0 1  1 0 1  1 1 1  0 1 1 k) <> 0%R.
Proof. exact (Gradient3D.hex_unit_cube_regular k). Qed.
Theorem tet_unit_simplex_regular k : det3 (tetJ 0 0 0  1 0 0  0 1 0  0 0 1 k) <> 0%R.
Proof. exact (Gradient3D.tet_unit_simplex_regular k). Qed.

(* which kernel _compute_gradient selects for an element table of n = 0..24 rows (1 hexahedral, 2 simplex, 0 none),
   which rows the kernels write and what the others keep *)
Theorem dispatch_by_row_count :
  g3k_table = [0; 0; 0; 0; 2; 0; 0; 0; 1; 0; 2; 0; 0; 0; 0; 0; 1; 0; 0; 0; 1; 0; 0; 0; 0]%nat.
Proof. exact Gradient3D.dispatch_by_row_count. Qed.
Theorem hex_rows_written : g3h_rows = [0; 1; 2; 3; 4; 5; 6; 7]%nat /\ g3h_ninv = 8%nat /\ g3h_init = (0, 0, 0)%R.
Proof. exact Gradient3D.hex_rows_written. Qed.
Theorem tet_rows_written : g3s_rows = [0; 1; 2; 3]%nat /\ g3s_ninv = 1%nat /\ g3s_init = (0, 0, 0)%R.
Proof. exact Gradient3D.tet_rows_written. Qed.

(* ---- Gradient (least squares): exact on linear fields through the contract of lstsq; the look-up of the
   neighbour rows by `id - 1` is the look-up by id iff ... the ids are 1..N: proved for 1..N, refuted otherwise *)
Theorem lstsq_linear_exact (lstsq : list V3 -> list R -> V3) :
  (forall rows b, det3 (AtA rows) <> 0%R -> length b = length rows -> mulMV (AtA rows) (lstsq rows b) = Atb rows b) ->
  forall g c node rows, linear_on g c node -> (forall r, In r rows -> linear_on g c r) ->
  det3 (AtA (diffs node rows)) <> 0%R -> lstsq (diffs node rows) (dvals node rows) = g.
Proof. exact (Lstsq.lstsq_rows_linear_exact lstsq). Qed.

Theorem lstsq_contract_satisfiable :
  let lstsq := fun rows b => mulMV (inv3 (AtA rows)) (Atb rows b) in
  forall rows b, det3 (AtA rows) <> 0%R -> length b = length rows -> mulMV (AtA rows) (lstsq rows b) = Atb rows b.
Proof. exact Lstsq.lstsq_contract_satisfiable. Qed.

Theorem gradient_linear_exact_contiguous_ids (lstsq : list V3 -> list R -> V3) :
  (forall rows b, det3 (AtA rows) <> 0%R -> length b = length rows -> mulMV (AtA rows) (lstsq rows b) = Atb rows b) ->
  forall T g c node nbs rows,
  ids T = map Z.of_nat (seq 1 (length T)) -> (forall nb, In nb nbs -> In nb (ids T)) ->
  (forall r, In r (node :: T) -> linear_on g c r) -> collect (row_id T) nbs = Some rows ->
  det3 (AtA (diffs node rows)) <> 0%R -> gradient_impl lstsq T node nbs = Some g.
Proof. exact (Lstsq.gradient_impl_linear_exact_contiguous lstsq). Qed.

Theorem positional_lookup_correct_contiguous (T : list row) (nb : Z) :
  ids T = map Z.of_nat (seq 1 (length T)) -> In nb (ids T) -> row_pos T nb = row_id T nb.
Proof. exact (Lstsq.positional_lookup_correct_contiguous T nb). Qed.

Theorem positional_ids_refuted :
  (exists (T : list row) nb, In nb (ids T) /\ row_pos T nb = None /\ row_id T nb <> None) /\
  (exists (T : list row) nb r, In nb (ids T) /\ row_pos T nb = Some r /\ rid r <> nb).
Proof. exact Lstsq.positional_ids_refuted. Qed.

Theorem gradient_noncontiguous_ids_refuted (lstsq : list V3 -> list R -> V3) :
  exists (T : list row) node nbs, In node T /\ (forall nb, In nb nbs -> In nb (ids T)) /\
    gradient_impl lstsq T node nbs = None /\ gradient_spec lstsq T node nbs <> None.
Proof. exact (Lstsq.gradient_impl_refuted lstsq). Qed.

(* ---- HotSpot.calc *)
Theorem hotspot_threshold_exact (E : list entry) p q art i : (i < n E)%nat ->
  (getl (calc E p q art) i <> 0%nat <-> get (above E p q art) i = true).
Proof. exact (HotSpotSpec.calc_threshold_exact E p q art i). Qed.

Theorem hotspot_above_is_threshold (E : list entry) p q art i : (i < n E)%nat ->
  (get (above E p q art) i = true <->
   exists M, (exists j, (j < n E)%nat /\ considered E art j = true /\ val E j = M) /\
             (forall j, (j < n E)%nat -> considered E art j = true -> (val E j <= M)%Z) /\ (p * M <= q * val E i)%Z).
Proof. exact (HotSpotSpec.above_exact E p q art i). Qed.

Theorem hotspot_labels_are_components (E : list entry) p q art i j : (i < n E)%nat -> (j < n E)%nat ->
  get (above E p q art) i = true -> get (above E p q art) j = true ->
  (getl (calc E p q art) i = getl (calc E p q art) j <-> conn E (above E p q art) i j).
Proof. exact (HotSpotSpec.calc_labels_are_components E p q art i j). Qed.

Theorem hotspot_numbered_by_descending_peak (E : list entry) p q art i : (i < n E)%nat -> get (above E p q art) i = true ->
  forall m, (1 <= m <= getl (calc E p q art) i)%nat ->
  exists i', (i' < n E)%nat /\ getl (calc E p q art) i' = m /\
             forall j, (j < n E)%nat -> (m < getl (calc E p q art) j)%nat -> (val E j <= val E i')%Z.
Proof. exact (HotSpotSpec.calc_numbered_by_descending_peak E p q art i). Qed.

(* region growing selects exactly the connected component of its seed among the remaining rows *)
Theorem hotspot_selection_is_component (E : list entry) rem s i : (s < n E)%nat -> get rem s = true -> (i < n E)%nat ->
  (get (hs_sel E rem s) i = true <-> conn E rem s i).
Proof. exact (fun Hs Hr => HotSpotSpec.sel_is_component E rem s Hs Hr i). Qed.

(* ---- Surface3D.is_at_surface on axis-parallel hexahedral blocks (Mesh/Surface.v; tied by harness stage `surface_model`):
   the number of cells that contain grid node (i,j,k), counted over the literal list of all cells, has the closed form;
   the code's solid-angle formula gives PI/2 at an orthogonal corner; and the decision Esum < 4 PI - 1e-5 flags exactly
   the boundary nodes -- for every block size *)
Theorem surface_incident_closed_form nx ny nz i j k :
  Surface.incident nx ny nz i j k = (Surface.inc1 nx i * Surface.inc1 ny j * Surface.inc1 nz k)%nat.
Proof. exact (Surface.incident_closed_form nx ny nz i j k). Qed.
Theorem surface_orthogonal_corner_excess : Surface.excess (PI / 2) (PI / 2) (PI / 2) = (PI / 2)%R.
Proof. exact Surface.orthogonal_corner_excess. Qed.
Theorem surface_flags_exactly_boundary nx ny nz i j k :
  (1 <= nx)%nat -> (1 <= ny)%nat -> (1 <= nz)%nat ->
  (0 <= i <= Z.of_nat nx)%Z -> (0 <= j <= Z.of_nat ny)%Z -> (0 <= k <= Z.of_nat nz)%Z ->
  Surface.flagged nx ny nz i j k <-> Surface.on_boundary nx ny nz i j k.
Proof. exact (Surface.flagged_iff_boundary nx ny nz i j k). Qed.
Theorem surface_interior_not_flagged_from_lower_bound nx ny nz i j k (Es : R) :
  (1 <= nx)%nat -> (1 <= ny)%nat -> (1 <= nz)%nat ->
  (0 < i < Z.of_nat nx)%Z -> (0 < j < Z.of_nat ny)%Z -> (0 < k < Z.of_nat nz)%Z ->
  (INR (Surface.incident nx ny nz i j k) * (PI / 2) <= Es)%R -> ~ (Es < 4 * PI - 1 / 100000)%R.
Proof. exact (Surface.interior_not_flagged_from_lower_bound nx ny nz i j k Es). Qed.
Theorem surface_hyp_sat :
  Surface.incident 3 2 2 0 1 1 = 4%nat /\ Surface.incident 3 2 2 1 1 1 = 8%nat /\ Surface.incident 3 2 2 3 2 0 = 1%nat /\ Surface.incident 1 1 1 1 0 1 = 1%nat.
Proof. exact Surface.flagged_examples. Qed.

Print Assumptions hex_linear_exact.
Print Assumptions tet_linear_exact.
Print Assumptions inv_contract_satisfiable.
Print Assumptions hex_unit_cube_regular.
Print Assumptions tet_unit_simplex_regular.
Print Assumptions dispatch_by_row_count.
Print Assumptions hex_rows_written.
Print Assumptions tet_rows_written.
Print Assumptions lstsq_linear_exact.
Print Assumptions lstsq_contract_satisfiable.
Print Assumptions gradient_linear_exact_contiguous_ids.
Print Assumptions positional_lookup_correct_contiguous.
Print Assumptions positional_ids_refuted.
Print Assumptions gradient_noncontiguous_ids_refuted.
Print Assumptions hotspot_threshold_exact.
Print Assumptions hotspot_above_is_threshold.
Print Assumptions hotspot_labels_are_components.
Print Assumptions hotspot_numbered_by_descending_peak.
Print Assumptions hotspot_selection_is_component.
Print Assumptions surface_incident_closed_form.
Print Assumptions surface_orthogonal_corner_excess.
Print Assumptions surface_flags_exactly_boundary.
Print Assumptions surface_hyp_sat.
Print Assumptions surface_interior_not_flagged_from_lower_bound.
