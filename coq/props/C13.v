(* C13 -- signal broadcasting aligns operands without altering data or inputs.
   Model: PL.Core.Broadcast (hand-written, tied to the code by the correspondence check of harness/props/c13.py):
   [bcast] the join, [bcast_impl] the name / save / recode / join / decode / restore sequence of the implementation.
   Only statements, `exact`, Print Assumptions. *)
From Coq Require Import ZArith List Bool.
From PL Require Import Core.Broadcast Core.BroadcastThm Core.BroadcastImpl Core.BroadcastRecode Core.BroadcastOpts.
Import ListNotations.
Open Scope Z_scope.

(* the two returned objects have the same index *)
Theorem same_index (V : Type) (r : list (arow V)) : map fst (res_obj r) = map fst (res_prm r).
Proof. exact (BroadcastThm.same_index V r). Qed.

(* every row of either result carries exactly what the original held for the row key restricted to the original's
   index levels, or NaN (None) where the original has no such key -- all level layouts, level orders, key sets *)
Theorem rows_carry_restricted_value (V : Type) (o p : frame V) R :
  wf V o -> wf V p -> bcast o p = Rows R ->
  forall t, In t R ->
    aobj t = lookup (proj (total (lv o) (lv p)) (akey t) (lv o)) (rows o) /\
    aprm t = lookup (proj (total (lv o) (lv p)) (akey t) (lv p)) (rows p).
Proof. exact (BroadcastThm.rows_carry_restricted_value V o p R). Qed.

(* no data is lost: rows with a partner, and rows whose key is complete, are in the result under their own key *)
Theorem no_object_row_lost (V : Type) (o p : frame V) R a :
  wf V o -> wf V p -> bcast o p = Rows R -> In a (rows o) ->
  (exists b, In b (rows p) /\ agree (lv o) (lv p) (fst a) (fst b) = true)
  \/ (have_commons (lv o) (lv p) = true /\ newlv (lv o) (lv p) = []) ->
  exists t, In t R /\ proj (total (lv o) (lv p)) (akey t) (lv o) = fst a /\ aobj t = Some (snd a).
Proof. exact (BroadcastThm.no_object_row_lost V o p R a). Qed.

Theorem no_parameter_row_lost (V : Type) (o p : frame V) R b :
  wf V o -> wf V p -> bcast o p = Rows R -> In b (rows p) ->
  (exists a, In a (rows o) /\ agree (lv o) (lv p) (fst a) (fst b) = true)
  \/ (have_commons (lv o) (lv p) = true /\ onlyo (lv o) (lv p) = []) ->
  exists t, In t R /\ proj (total (lv o) (lv p)) (akey t) (lv p) = fst b /\ aprm t = Some (snd b).
Proof. exact (BroadcastThm.no_parameter_row_lost V o p R b). Qed.

(* when the join raises (pandas leaves NaN key components, restore_real_index cannot decode them) *)
Theorem bcast_raises_iff (V : Type) (o p : frame V) :
  bcast o p = Raise <->
  have_commons (lv o) (lv p) = true /\
  ((newlv (lv o) (lv p) <> [] /\ unmatched_o (lv o) (lv p) (rows o) (rows p) <> [] /\ length (lv o) <> 1%nat) \/
   (onlyo (lv o) (lv p) <> [] /\ unmatched_p (lv o) (lv p) (rows o) (rows p) <> [] /\ length (lv p) <> 1%nat)).
Proof. exact (BroadcastImpl.bcast_raises_iff V o p). Qed.

(* the layouts of the quantifier: equal / disjoint level-name sets, overlapping ones with every shared key in both *)
Theorem equal_levels_defined (V : Type) (o p : frame V) :
  newlv (lv o) (lv p) = [] -> onlyo (lv o) (lv p) = [] -> bcast o p <> Raise.
Proof. exact (BroadcastImpl.equal_levels_defined V o p). Qed.
Theorem disjoint_levels_defined (V : Type) (o p : frame V) :
  have_commons (lv o) (lv p) = false -> bcast o p <> Raise.
Proof. exact (BroadcastImpl.disjoint_levels_defined V o p). Qed.
Theorem all_matched_defined (V : Type) (o p : frame V) :
  unmatched_o (lv o) (lv p) (rows o) (rows p) = [] -> unmatched_p (lv o) (lv p) (rows o) (rows p) = [] -> bcast o p <> Raise.
Proof. exact (BroadcastImpl.all_matched_defined V o p). Qed.
(* contained level names: restricted statement (complement of the known-finding class) and refutation of the full one *)
Theorem contained_defined (V : Type) (o p : frame V) :
  newlv (lv o) (lv p) = [] ->
  (length (lv p) = 1%nat \/ unmatched_p (lv o) (lv p) (rows o) (rows p) = []) -> bcast o p <> Raise.
Proof. exact (BroadcastImpl.contained_defined V o p). Qed.
Theorem contained_defined_refuted :
  exists s : state Z, r_result (bcast_impl s) = Raise /\
    newlv (fst (r_named (bcast_impl s))) (snd (r_named (bcast_impl s))) = [].
Proof. exact BroadcastImpl.contained_defined_refuted. Qed.

(* operands: restored on every normal return; no normal return iff the join raised; then left re-coded *)
Theorem operands_restored (V : Type) (s : state V) :
  r_result (bcast_impl s) <> Raise -> r_final (bcast_impl s) = Some s.
Proof. exact (BroadcastImpl.operands_restored V s). Qed.
Theorem exception_iff (V : Type) (s : state V) :
  r_final (bcast_impl s) = None <-> r_result (bcast_impl s) = Raise.
Proof. exact (BroadcastImpl.exception_iff V s). Qed.
Theorem operands_left_recoded_on_exception :
  exists s : state Z, r_result (bcast_impl s) = Raise /\ r_final (bcast_impl s) = None /\
    map fst (rows (fst (r_coded (bcast_impl s)))) <> map fst (urows (st_obj s)).
Proof. exact BroadcastImpl.operands_left_recoded_on_exception. Qed.

(* the positional re-coding (_IndexLevelCache): decoding undoes encoding on every value of a level table, one table per
   level name holds the values of BOTH operands ... *)
Theorem decode_encode tbl n x : In x (tbl n) -> decode tbl n (encode tbl n x) = x.
Proof. exact (BroadcastImpl.decode_encode tbl n x). Qed.
Theorem table_complete (V : Type) lo lp (ro rp : list (key * V)) n :
  (forall a, In a ro -> In n lo -> In (get n lo (fst a)) (table lo lp ro rp n)) /\
  (forall b, In b rp -> In n lp -> In (get n lp (fst b)) (table lo lp ro rp n)) /\
  NoDup (table lo lp ro rp n).
Proof. exact (BroadcastImpl.table_complete V lo lp ro rp n). Qed.

(* ... so that name / recode / join on the codes / decode returns exactly the join of the operands themselves,
   for every layout -- unless the coded indices coincide (restricted statement; the full one is refuted below) *)
Theorem recode_transparent (V : Type) (s : state V) :
  let r := bcast_impl s in
  let o := Frame (fst (r_named r)) (urows (st_obj s)) in
  let p := Frame (snd (r_named r)) (urows (st_prm s)) in
  wf V o -> wf V p ->
  coincide (fst (r_coded r)) (snd (r_coded r)) = false ->
  r_result r = bcast o p.
Proof. exact (BroadcastRecode.recode_transparent V s). Qed.

(* the property, of what the implementation-level model returns *)
Theorem impl_rows_carry_restricted_value (V : Type) (s : state V) R :
  let r := bcast_impl s in
  let o := Frame (fst (r_named r)) (urows (st_obj s)) in
  let p := Frame (snd (r_named r)) (urows (st_prm s)) in
  wf V o -> wf V p ->
  coincide (fst (r_coded r)) (snd (r_coded r)) = false ->
  r_result r = Rows R ->
  forall t, In t R ->
    aobj t = lookup (proj (total (lv o) (lv p)) (akey t) (lv o)) (rows o) /\
    aprm t = lookup (proj (total (lv o) (lv p)) (akey t) (lv p)) (rows p).
Proof. exact (BroadcastRecode.impl_rows_carry_restricted_value V s R). Qed.

(* the re-coding is not transparent when the coded indices coincide (known finding coincident-codes) *)
Theorem recode_transparent_refuted :
  exists s : state Z,
    let r := bcast_impl s in
    r_result r = Unaligned /\
    bcast (Frame (fst (r_named r)) (urows (st_obj s))) (Frame (snd (r_named r)) (urows (st_prm s)))
    = Rows [([1; 5; 10], Some 0, Some 0); ([2; 6; 20], Some 1, Some 1)].
Proof. exact BroadcastImpl.recode_transparent_refuted. Qed.

(* the dispatch of Broadcaster.broadcast in front of it: only a Series with exactly one, unnamed, index level is a set of
   parameters (its keys become columns); every other object -- DataFrame, several levels even if all unnamed, a level
   with a name however it looks -- is joined as it is, keeps all its index levels in the result *)
Theorem paramset_iff k l : is_paramset k l = true <-> k = KSeries /\ l = [None].
Proof. exact (BroadcastImpl.paramset_iff k l). Qed.
Theorem row_indexed_joined_as_is (V : Type) k (w : V) (s : state V) :
  k = KFrame \/ length (ulv (st_obj s)) <> 1%nat \/ (exists n, In (Some n) (ulv (st_obj s))) ->
  as_joined k w (st_obj s) = st_obj s /\ broadcast_top k w s = bcast_impl s.
Proof. exact (BroadcastImpl.row_indexed_joined_as_is V k w s). Qed.
Theorem object_levels_survive (V : Type) k (w : V) (s : state V) :
  is_paramset k (ulv (st_obj s)) = false ->
  (length (ulv (st_obj s)) <= length (r_levels (broadcast_top k w s)))%nat.
Proof. exact (BroadcastImpl.object_levels_survive V k w s). Qed.
Theorem paramset_on_parameter_levels (V : Type) (w : V) (s : state V) :
  is_paramset KSeries (ulv (st_obj s)) = true ->
  r_levels (broadcast_top KSeries w s) = ulv (st_prm s).
Proof. exact (BroadcastImpl.paramset_on_parameter_levels V w s). Qed.

(* index kinds: a single level may be held by an Index, a one-level MultiIndex or a RangeIndex (the default index); the
   re-coding looks the VALUES up whatever holds them (row i of a RangeIndex: the position of start + step*i in the level
   table); coding a RangeIndex by position is right only if the table lists the range's values first and in its order,
   which fails as soon as the object lists the keys of a shared level in another order (witness) *)
Theorem range_coded_by_value (V : Type) tbl n a s (vals : list V) :
  map fst (rows (fmap (encode tbl) (Frame [n] (combine (range_keys a s (length vals)) vals))))
  = map (fun i => [encode tbl n (a + s * Z.of_nat i)]) (seq 0 (length vals)).
Proof. exact (BroadcastOpts.range_coded_by_value V tbl n a s vals). Qed.
Theorem positional_code_only_if tbl n a s m :
  (forall i, (i < m)%nat -> In (a + s * Z.of_nat i) (tbl n)) ->
  (forall i, (i < m)%nat -> encode tbl n (a + s * Z.of_nat i) = Z.of_nat i) ->
  forall i, (i < m)%nat -> nth i (tbl n) 0 = a + s * Z.of_nat i.
Proof. exact (BroadcastOpts.positional_code_only_if tbl n a s m). Qed.
Theorem range_positional_refuted :
  exists s : state Z,
    index_ok (IRange 0 1) (ulv (st_prm s)) (map fst (urows (st_prm s))) = true /\
    ulv (st_obj s) = ulv (st_prm s) /\
    map fst (rows (snd (r_coded (bcast_impl s)))) = [[1]; [3]; [0]; [2]] /\
    map fst (rows (snd (r_coded (bcast_impl s)))) <> map fst (urows (st_prm s)) /\
    r_result (bcast_impl s) = Rows [([2], Some 0, Some 2); ([0], Some 1, Some 0); ([3], Some 2, Some 3); ([1], Some 3, Some 1)].
Proof. exact BroadcastOpts.range_positional_refuted. Qed.

(* the droplevel option: the returned parameter = the aligned rows grouped by the result levels without the dropped ones:
   exactly the keys of the aligned rows without the dropped components, each once (rows are told apart by KEY, equal
   values do not merge rows), each carrying what the original parameter held for that key restricted to its own levels *)
Theorem drop_prm_keys (V : Type) D tot (R : list (arow V)) g :
  In g (map fst (drop_prm D tot R)) <-> exists t, In t R /\ proj tot (akey t) (keepl D tot) = g.
Proof. exact (BroadcastOpts.drop_prm_keys V D tot R g). Qed.
Theorem drop_prm_one_row_per_key (V : Type) D tot (R : list (arow V)) : NoDup (map fst (drop_prm D tot R)).
Proof. exact (BroadcastOpts.drop_prm_one_row_per_key V D tot R). Qed.
Theorem drop_prm_carries (V : Type) (o p : frame V) R D g v :
  wf V o -> wf V p -> bcast o p = Rows R ->
  (forall n, In n D -> ~ In n (lv p)) ->
  In (g, v) (drop_prm D (total (lv o) (lv p)) R) ->
  v = lookup (proj (keepl D (total (lv o) (lv p))) g (lv p)) (rows p).
Proof. exact (BroadcastOpts.drop_prm_carries V o p R D g v). Qed.

Print Assumptions same_index.
Print Assumptions rows_carry_restricted_value.
Print Assumptions no_object_row_lost.
Print Assumptions no_parameter_row_lost.
Print Assumptions bcast_raises_iff.
Print Assumptions equal_levels_defined.
Print Assumptions disjoint_levels_defined.
Print Assumptions all_matched_defined.
Print Assumptions contained_defined.
Print Assumptions contained_defined_refuted.
Print Assumptions operands_restored.
Print Assumptions exception_iff.
Print Assumptions operands_left_recoded_on_exception.
Print Assumptions decode_encode.
Print Assumptions table_complete.
Print Assumptions recode_transparent.
Print Assumptions impl_rows_carry_restricted_value.
Print Assumptions recode_transparent_refuted.
Print Assumptions paramset_iff.
Print Assumptions row_indexed_joined_as_is.
Print Assumptions object_levels_survive.
Print Assumptions paramset_on_parameter_levels.
Print Assumptions range_coded_by_value.
Print Assumptions positional_code_only_if.
Print Assumptions range_positional_refuted.
Print Assumptions drop_prm_keys.
Print Assumptions drop_prm_one_row_per_key.
Print Assumptions drop_prm_carries.
