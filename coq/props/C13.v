(* C13 -- signal broadcasting aligns operands without altering data or inputs.
   Model: PL.Core.Broadcast (hand-written, tied to the code by the correspondence check of harness/props/c13.py).
   Only statements, `exact`, Print Assumptions. *)
From Coq Require Import ZArith List Bool.
From PL Require Import Core.Broadcast Core.BroadcastThm.
Import ListNotations.
Open Scope Z_scope.

Theorem same_index (V : Type) (r : list (arow V)) : map fst (res_obj r) = map fst (res_prm r).
Proof. exact (BroadcastThm.same_index V r). Qed.

Print Assumptions same_index.
