(* C07 -- the binned notch law is the wrapped law sampled at the upper class edge.
   Model: PL.Laws.Binned (hand-written over Q, generic in the tabulated column v of the wrapped law; tied to
   notch_approximation_law.Binned by the correspondence check of harness/props/c07.py).
   m = number of classes of the table: n (primary branch) or 2 n (secondary branch).
   Only statements, `exact`, Print Assumptions. *)
From Coq Require Import QArith Qabs Qround List Bool Arith.
From PL Require Import Laws.Binned Laws.BinnedThm.
Import ListNotations.
Open Scope Q_scope.

(* the prefix count used by the model meets numpy's contract for searchsorted(side='left') on ascending data *)
Theorem searchsorted_left_contract es a :
  ascending es ->
  (ss es a <= length es)%nat /\
  (forall i, (i < ss es a)%nat -> nth i es 0 < a) /\
  (forall j, (ss es a <= j < length es)%nat -> a <= nth j es 0).
Proof. exact (ss_is_searchsorted_left es a). Qed.

(* the look-up returns the tabulated law at the upper edge of the load's class,
   class k = max 1 (ceil (|L| n / Lmax)), edge k = k/n * Lmax, with the sign of the load *)
Theorem lookup_is_upper_edge v Lmax n m L :
  0 < Lmax -> (1 <= m)%nat -> Qabs L <= edge Lmax n m ->
  binned v Lmax n m L = Val (qsgn L * v (edge Lmax n (kcls Lmax n (Qabs L)))).
Proof. exact (fun HL Hm => BinnedThm.lookup_is_upper_edge v Lmax n m HL Hm L). Qed.

(* ... and that edge is the least class edge that is >= |L| *)
Theorem selected_edge_is_least_upper Lmax n m L :
  0 < Lmax -> (1 <= m)%nat -> Qabs L <= edge Lmax n m ->
  let k := kcls Lmax n (Qabs L) in
  (1 <= k <= m)%nat /\ Qabs L <= edge Lmax n k /\ forall j, (1 <= j < k)%nat -> edge Lmax n j < Qabs L.
Proof. exact (fun HL Hm => BinnedThm.selected_edge_is_least_upper Lmax n m HL Hm L). Qed.

(* loads exactly on a class edge use that edge, loads just above it the next one *)
Theorem edge_hits_own_class v Lmax n m L k :
  0 < Lmax -> (1 <= m)%nat -> (1 <= k <= m)%nat -> Qabs L == edge Lmax n k ->
  binned v Lmax n m L = Val (qsgn L * v (edge Lmax n k)).
Proof. exact (fun HL Hm => BinnedThm.edge_hits_own_class v Lmax n m HL Hm L k). Qed.

Theorem above_edge_hits_next_class v Lmax n m L k :
  0 < Lmax -> (1 <= m)%nat -> (1 <= k < m)%nat -> edge Lmax n k < Qabs L <= edge Lmax n (S k) ->
  binned v Lmax n m L = Val (qsgn L * v (edge Lmax n (S k))).
Proof. exact (fun HL Hm => BinnedThm.above_edge_hits_next_class v Lmax n m HL Hm L k). Qed.

Theorem zero_load_is_zero v Lmax n m L :
  0 < Lmax -> (1 <= m)%nat -> L == 0 -> exists q, binned v Lmax n m L = Val q /\ q == 0.
Proof. exact (fun HL Hm => BinnedThm.zero_load_is_zero v Lmax n m HL Hm L). Qed.

(* the range guard: an error (never a value) above the top edge, a value everywhere else *)
Theorem out_of_range_errors v Lmax n m L :
  0 < Lmax -> edge Lmax n m < Qabs L -> binned v Lmax n m L = Err.
Proof. exact (fun HL => BinnedThm.out_of_range_errors v Lmax n m HL L). Qed.

Theorem value_iff_in_range v Lmax n m L :
  0 < Lmax -> (1 <= m)%nat -> ((exists q, binned v Lmax n m L = Val q) <-> Qabs L <= edge Lmax n m).
Proof. exact (fun HL Hm => BinnedThm.value_iff_in_range v Lmax n m HL Hm L). Qed.

(* primary table: n classes, range [-Lmax, Lmax]; secondary table: 2 n classes, range [-2 Lmax, 2 Lmax] *)
Theorem primary_range v Lmax n L : 0 < Lmax ->
  (Qabs L <= Lmax -> exists q, binned v Lmax n (Pos.to_nat n) L = Val q) /\
  (Lmax < Qabs L -> binned v Lmax n (Pos.to_nat n) L = Err).
Proof. exact (BinnedThm.primary_range v Lmax n L). Qed.

Theorem secondary_range v Lmax n L : 0 < Lmax ->
  (Qabs L <= 2 * Lmax -> exists q, binned v Lmax n (2 * Pos.to_nat n) L = Val q) /\
  (2 * Lmax < Qabs L -> binned v Lmax n (2 * Pos.to_nat n) L = Err).
Proof. exact (BinnedThm.secondary_range v Lmax n L). Qed.

(* less than one class above the load *)
Theorem within_one_class Lmax n m L :
  0 < Lmax -> (1 <= m)%nat -> 0 < Qabs L <= edge Lmax n m ->
  let e := edge Lmax n (kcls Lmax n (Qabs L)) in
  Qabs L <= e /\ e < Qabs L + Lmax / inject_Z (Zpos n).
Proof. exact (fun HL Hm => BinnedThm.within_one_class Lmax n m HL Hm L). Qed.

(* consequences for a tabulated law that is non-negative and non-decreasing on non-negative loads
   (the exact law being its odd extension  L |-> sgn L * v |L|) *)
Theorem never_underestimates v Lmax n m L q :
  0 < Lmax -> (1 <= m)%nat ->
  (forall x, 0 <= x -> 0 <= v x) -> (forall x y, 0 <= x -> x <= y -> v x <= v y) ->
  binned v Lmax n m L = Val q -> Qabs (qsgn L * v (Qabs L)) <= Qabs q.
Proof. exact (fun HL Hm Hn Hmo => BinnedThm.never_underestimates v Lmax n m HL Hm Hn Hmo L q). Qed.

Theorem within_one_class_value v Lmax n m L q :
  0 < Lmax -> (1 <= m)%nat ->
  (forall x, 0 <= x -> 0 <= v x) -> (forall x y, 0 <= x -> x <= y -> v x <= v y) ->
  ~ L == 0 -> binned v Lmax n m L = Val q ->
  v (Qabs L) <= Qabs q /\ Qabs q <= v (Qabs L + Lmax / inject_Z (Zpos n)).
Proof. exact (fun HL Hm Hn Hmo => BinnedThm.within_one_class_value v Lmax n m HL Hm Hn Hmo L q). Qed.

Theorem monotone v Lmax n m L1 L2 q1 q2 :
  0 < Lmax -> (1 <= m)%nat ->
  (forall x, 0 <= x -> 0 <= v x) -> (forall x y, 0 <= x -> x <= y -> v x <= v y) ->
  L1 <= L2 -> binned v Lmax n m L1 = Val q1 -> binned v Lmax n m L2 = Val q2 -> q1 <= q2.
Proof. exact (fun HL Hm Hn Hmo => BinnedThm.monotone v Lmax n m HL Hm Hn Hmo L1 L2 q1 q2). Qed.

(* per-point tables (flat, class major / point minor) equal the tables each point gets alone *)
Theorem multi_table_is_single_tables v Lmaxs n m c i :
  (c < m)%nat -> (i < length Lmaxs)%nat ->
  nth (c * length Lmaxs + i) (mtable v Lmaxs n m) (0, 0) = nth c (table v (nth i Lmaxs 0) n m) (0, 0).
Proof. exact (BinnedThm.multi_table_is_single_tables v Lmaxs n m c i). Qed.

(* loads proportional to the per-point maxima (exact arithmetic): selecting the class from point 0 gives every
   point the value of its own single-point look-up; the call raises iff every single look-up raises *)
Theorem multi_equals_single v Lmaxs n m c :
  Lmaxs <> [] -> Forall (fun Lm => 0 < Lm) Lmaxs -> (1 <= m)%nat ->
  match mbinned v Lmaxs n m (map (Qmult c) Lmaxs) with
  | MVal qs => Forall2 (fun Lm q => binned v Lm n m (c * Lm) = Val q) Lmaxs qs
  | MErr => Forall (fun Lm => binned v Lm n m (c * Lm) = Err) Lmaxs
  end.
Proof. exact (fun Hne Hpos Hm => BinnedThm.multi_equals_single v Lmaxs n m Hne Hpos Hm c). Qed.

(* generalisation to per-point signs: it suffices that |L_i| / Lmax_i is one common ratio r (points scaled by
   negative factors keep the sign of their own load) *)
Theorem multi_equals_single_abs v Lmaxs n m r Ls :
  Lmaxs <> [] -> Forall (fun Lm => 0 < Lm) Lmaxs -> (1 <= m)%nat ->
  Forall2 (fun Lm L => Qabs L == r * Lm) Lmaxs Ls ->
  match mbinned v Lmaxs n m Ls with
  | MVal qs => Forall2 (fun p q => binned v (fst p) n m (snd p) = Val q) (combine Lmaxs Ls) qs
  | MErr => Forall (fun p => binned v (fst p) n m (snd p) = Err) (combine Lmaxs Ls)
  end.
Proof. exact (BinnedThm.multi_equals_single_abs v Lmaxs n m r Ls). Qed.

(* the hypothesis 0 < Lmax of every point cannot be weakened to 0 <= Lmax: with an unloaded FIRST point the faithful
   model (like the implementation: known finding C07/zero-first-point) gives every point its class-1 value and
   rejects no load *)
Theorem multi_equals_single_refuted_zero_first :
  exists (Lmaxs : list Q) (c : Q),
    Lmaxs <> [] /\ Forall (fun Lm => 0 <= Lm) Lmaxs /\
    ~ match mbinned ex_law Lmaxs 10 10 (map (Qmult c) Lmaxs) with
      | MVal qs => Forall2 (fun Lm q => exists q', binned ex_law Lm 10 10 (c * Lm) = Val q' /\ q' == q) Lmaxs qs
      | MErr => Forall (fun Lm => binned ex_law Lm 10 10 (c * Lm) = Err) Lmaxs
      end.
Proof. exact BinnedThm.multi_equals_single_refuted_zero_first. Qed.

Theorem multi_range_refuted_zero_first :
  mres_eqb (mbinned ex_law [0; 200] 10 10 [0; 600]) (MVal [0; 60]) = true /\ binned ex_law 200 10 10 600 = Err.
Proof. exact BinnedThm.multi_range_refuted_zero_first. Qed.

(* non-vacuity: concrete evaluations of the model, and a law meeting the monotonicity hypotheses *)
Theorem example_values :
  map (fun p => res_eqb (binned ex_law 16 4 4 (fst p)) (snd p))
      [(9 # 2, Val 24); (4, Val 12); (-4, Val (-12)); (-(9 # 2), Val (-24)); (0, Val 0); (16, Val 48);
       (-16, Val (-48)); (33 # 2, Err); (-(33 # 2), Err)]
  = [true; true; true; true; true; true; true; true; true].
Proof. exact ex_values. Qed.

Theorem example_multi :
  mres_eqb (mbinned ex_law [16; 32; 8] 4 4 [-4; 8; 2]) (MVal [-12; 24; 6]) = true /\
  mres_eqb (mbinned ex_law [16; 32; 8] 4 4 [17; 34; 17 # 2]) MErr = true.
Proof. exact ex_multi. Qed.

Theorem example_law_hypotheses :
  (forall x, 0 <= x -> 0 <= ex_law x) /\ (forall x y, 0 <= x -> x <= y -> ex_law x <= ex_law y).
Proof. exact ex_law_hypotheses. Qed.

Print Assumptions searchsorted_left_contract.
Print Assumptions lookup_is_upper_edge.
Print Assumptions selected_edge_is_least_upper.
Print Assumptions edge_hits_own_class.
Print Assumptions above_edge_hits_next_class.
Print Assumptions zero_load_is_zero.
Print Assumptions out_of_range_errors.
Print Assumptions value_iff_in_range.
Print Assumptions primary_range.
Print Assumptions secondary_range.
Print Assumptions within_one_class.
Print Assumptions never_underestimates.
Print Assumptions within_one_class_value.
Print Assumptions monotone.
Print Assumptions multi_table_is_single_tables.
Print Assumptions multi_equals_single.
Print Assumptions multi_equals_single_abs.
Print Assumptions multi_equals_single_refuted_zero_first.
Print Assumptions multi_range_refuted_zero_first.
Print Assumptions example_values.
Print Assumptions example_multi.
Print Assumptions example_law_hypotheses.
