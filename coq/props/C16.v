(* C16 -- closed-form material laws are invertible and differentiate consistently.
   Only statements, `exact`, and Print Assumptions.  The models ro_, h1_..h3_, tss_ are GENERATED from
   /repo/src/pylife/materiallaws/{rambgood,hookeslaw,true_stress_strain}.py on every run. *)
From Coq Require Import Reals.
From Coquelicot Require Import Coquelicot.
From PL Require Import Common.RPrelude Laws.C16.
From PLgen Require Import GenHooke GenRambgood GenTrueStressStrain.
Open Scope R_scope.

Section Guards.
Variables E K n : R.
Hypothesis HE : 0 < E.
Hypothesis HK : 0 < K.
Hypothesis Hn : 0 < n < 1.

Theorem ro_strain_odd s : ro_strain E K n (- s) = - ro_strain E K n s.
Proof. exact (C16.ro_strain_odd E K n s). Qed.

Theorem ro_strain_strictly_increasing a b : a < b -> ro_strain E K n a < ro_strain E K n b.
Proof. exact (C16.ro_strain_strictly_increasing E K n HE HK Hn a b). Qed.

(* strain(stress(e)) = e and stress(strain(s)) = s at the level of the exact root: the equation
   strain(s) = e has exactly one solution for every e *)
Theorem ro_stress_is_inverse e : exists s, ro_strain E K n s = e /\ forall s', ro_strain E K n s' = e -> s' = s.
Proof.
  destruct (C16.ro_stress_exists E K n HE HK Hn e) as [s Hs]. exists s. split; [exact Hs|].
  intros s' Hs'. apply (C16.ro_strain_injective E K n HE HK Hn). congruence.
Qed.

(* what a solver output with small residual is worth: distance to the exact root *)
Theorem ro_residual_bounds_error s_hat s_star e delta :
  ro_strain E K n s_star = e -> Rabs (ro_strain E K n s_hat - e) <= delta -> Rabs (s_hat - s_star) <= E * delta.
Proof. exact (C16.ro_residual_bounds_error E K n HE HK Hn s_hat s_star e delta). Qed.

Theorem ro_compliance_is_derivative s : s <> 0 ->
  is_derive (ro_strain E K n) s (ro_tangential_compliance E K n s).
Proof. exact (C16.ro_compliance_is_derivative E K n HE HK Hn s). Qed.

Theorem ro_compliance_at_0 : ro_tangential_compliance E K n 0 = 1 / E.
Proof. exact (C16.ro_compliance_at_0 E K n Hn). Qed.

Theorem ro_modulus_reciprocal s : ro_tangential_modulus E K n s * ro_tangential_compliance E K n s = 1.
Proof. exact (C16.ro_modulus_reciprocal E K n HE HK Hn s). Qed.

Theorem ro_delta_is_doubled d : ro_delta_strain E K n d = 2 * ro_strain E K n (d / 2).
Proof. exact (C16.ro_delta_is_doubled E K n d). Qed.

Theorem ro_delta_strain_strictly_increasing a b : a < b -> ro_delta_strain E K n a < ro_delta_strain E K n b.
Proof. exact (C16.ro_delta_strain_strictly_increasing E K n HE HK Hn a b). Qed.

Theorem ro_lower_hysteresis_meets_curve smax : ro_lower_hysteresis E K n smax smax = ro_strain E K n smax.
Proof. exact (C16.ro_lower_hysteresis_meets_curve E K n smax). Qed.
End Guards.

Theorem hooke1d_roundtrip E e : E <> 0 -> h1_strain E (h1_stress E e) = e /\ h1_stress E (h1_strain E e) = e.
Proof. exact (C16.h1_roundtrip E e). Qed.

Theorem hooke2d_stress_roundtrip E nu e11 e22 g12 : 0 < E -> -1 < nu < 1/2 ->
  (let '(s11, s22, s12) := h2s_stress E nu e11 e22 g12 in
   let '(f11, f22, _, f12) := h2s_strain E nu s11 s22 s12 in (f11, f22, f12)) = (e11, e22, g12).
Proof. exact (C16.h2s_roundtrip E nu e11 e22 g12). Qed.

Theorem hooke2d_stress_roundtrip' E nu s11 s22 s12 : 0 < E -> -1 < nu < 1/2 ->
  (let '(e11, e22, _, g12) := h2s_strain E nu s11 s22 s12 in h2s_stress E nu e11 e22 g12) = (s11, s22, s12).
Proof. exact (C16.h2s_roundtrip' E nu s11 s22 s12). Qed.

Theorem hooke2d_strain_roundtrip E nu e11 e22 g12 : 0 < E -> -1 < nu < 1/2 ->
  (let '(s11, s22, _, s12) := h2e_stress E nu e11 e22 g12 in h2e_strain E nu s11 s22 s12) = (e11, e22, g12).
Proof. exact (C16.h2e_roundtrip E nu e11 e22 g12). Qed.

Theorem hooke2d_strain_roundtrip' E nu s11 s22 s12 : 0 < E -> -1 < nu < 1/2 ->
  (let '(e11, e22, g12) := h2e_strain E nu s11 s22 s12 in
   let '(t11, t22, _, t12) := h2e_stress E nu e11 e22 g12 in (t11, t22, t12)) = (s11, s22, s12).
Proof. exact (C16.h2e_roundtrip' E nu s11 s22 s12). Qed.

Theorem hooke3d_roundtrip E nu e11 e22 e33 g12 g13 g23 : 0 < E -> -1 < nu < 1/2 ->
  (let '(s11, s22, s33, s12, s13, s23) := h3_stress E nu e11 e22 e33 g12 g13 g23 in
   h3_strain E nu s11 s22 s33 s12 s13 s23) = (e11, e22, e33, g12, g13, g23).
Proof. exact (C16.h3_roundtrip E nu e11 e22 e33 g12 g13 g23). Qed.

Theorem hooke3d_roundtrip' E nu s11 s22 s33 s12 s13 s23 : 0 < E -> -1 < nu < 1/2 ->
  (let '(e11, e22, e33, g12, g13, g23) := h3_strain E nu s11 s22 s33 s12 s13 s23 in
   h3_stress E nu e11 e22 e33 g12 g13 g23) = (s11, s22, s33, s12, s13, s23).
Proof. exact (C16.h3_roundtrip' E nu s11 s22 s33 s12 s13 s23). Qed.

Theorem plane_strain_is_3d_e33_0 E nu e11 e22 g12 : 0 < E -> -1 < nu < 1/2 ->
  (let '(s11, s22, s33, s12, _, _) := h3_stress E nu e11 e22 0 g12 0 0 in (s11, s22, s33, s12))
  = h2e_stress E nu e11 e22 g12.
Proof. exact (C16.plane_strain_is_3d E nu e11 e22 g12). Qed.

Theorem plane_stress_is_3d_s33_0 E nu s11 s22 s12 : 0 < E -> -1 < nu < 1/2 ->
  (let '(e11, e22, e33, g12, _, _) := h3_strain E nu s11 s22 0 s12 0 0 in (e11, e22, e33, g12))
  = h2s_strain E nu s11 s22 s12.
Proof. exact (C16.plane_stress_is_3d E nu s11 s22 s12). Qed.

Theorem G_K_from_E_nu E nu : 0 < E -> -1 < nu < 1/2 ->
  hc_G E nu = E / (2 * (1 + nu)) /\ hc_K E nu = E / (3 * (1 - 2 * nu)) /\
  E = 9 * hc_K E nu * hc_G E nu / (3 * hc_K E nu + hc_G E nu) /\
  nu = (3 * hc_K E nu - 2 * hc_G E nu) / (2 * (3 * hc_K E nu + hc_G E nu)).
Proof. exact (C16.G_K_from_E_nu E nu). Qed.

Theorem true_strain_inverse e : -1 < e -> exp (tss_true_strain e) - 1 = e.
Proof. exact (C16.true_strain_inverse e). Qed.
Theorem true_strain_inverse' t : tss_true_strain (exp t - 1) = t.
Proof. exact (C16.true_strain_inverse' t). Qed.
Theorem true_stress_inverse s e : -1 < e -> tss_true_stress s e / (1 + e) = s.
Proof. exact (C16.true_stress_inverse s e). Qed.
Theorem true_fracture_strain_inverse Z : Z < 1 -> 1 - exp (- tss_true_fracture_strain Z) = Z.
Proof. exact (C16.true_fracture_strain_inverse Z). Qed.
Theorem true_fracture_stress_inverse F A Z : 0 < A -> Z < 1 -> tss_true_fracture_stress F A Z * (A * (1 - Z)) = F.
Proof. exact (C16.true_fracture_stress_inverse F A Z). Qed.

Print Assumptions ro_strain_odd.
Print Assumptions ro_strain_strictly_increasing.
Print Assumptions ro_stress_is_inverse.
Print Assumptions ro_residual_bounds_error.
Print Assumptions ro_compliance_is_derivative.
Print Assumptions ro_compliance_at_0.
Print Assumptions ro_modulus_reciprocal.
Print Assumptions ro_delta_is_doubled.
Print Assumptions ro_delta_strain_strictly_increasing.
Print Assumptions ro_lower_hysteresis_meets_curve.
Print Assumptions hooke1d_roundtrip.
Print Assumptions hooke2d_stress_roundtrip.
Print Assumptions hooke2d_stress_roundtrip'.
Print Assumptions hooke2d_strain_roundtrip.
Print Assumptions hooke2d_strain_roundtrip'.
Print Assumptions hooke3d_roundtrip.
Print Assumptions hooke3d_roundtrip'.
Print Assumptions plane_strain_is_3d_e33_0.
Print Assumptions plane_stress_is_3d_s33_0.
Print Assumptions G_K_from_E_nu.
Print Assumptions true_strain_inverse.
Print Assumptions true_strain_inverse'.
Print Assumptions true_stress_inverse.
Print Assumptions true_fracture_strain_inverse.
Print Assumptions true_fracture_stress_inverse.
