(* C15 -- failure probability = analytic overlap of the load and strength distributions.
   Only statements, `exact`, and Print Assumptions.  fp_pf_simple_load, fp_pf_norm_load, fpl_pf_norm_load are GENERATED
   from /repo/src/pylife/strength/failure_probability.py on every run (PLgen.GenFailureProbability). *)
From Coq Require Import Reals.
From Coquelicot Require Import Coquelicot.
From PL Require Import Common.RPrelude Strength.Normal Strength.GaussIntegral Strength.C15.
From PLgen Require Import GenFailureProbability.
Open Scope R_scope.

Theorem Phi_strictly_increasing a b : a < b -> Phi a < Phi b.
Proof. exact (Normal.Phi_strictly_increasing a b). Qed.

Theorem Phi_symmetry z : Phi (- z) = 1 - Phi z.
Proof. exact (Normal.Phi_symmetry z). Qed.

Theorem Phi_derivative z : is_derive Phi z (phi z).
Proof. exact (Normal.Phi_is_derive z). Qed.

Theorem pf_simple_load_is_Phi sm ss L : fp_pf_simple_load sm ss L = Phi ((log10R L - log10R sm) / ss).
Proof. exact (C15.pf_simple_load_is_Phi sm ss L). Qed.

Theorem pf_simple_load_is_closed_at_zero_scatter sm ss L : 0 < ss -> fp_pf_simple_load sm ss L = pf_closed_of sm ss L 0.
Proof. exact (C15.pf_simple_load_is_closed_at_zero_scatter sm ss L). Qed.

Theorem pf_norm_load_is_truncated_overlap sm ss lm ls :
  fp_pf_norm_load sm ss lm ls =
  RInt (fun x => phi (x / ls) / ls * Phi ((x - (log10R sm - log10R lm)) / ss)) (-16 * ls) (16 * ls).
Proof. exact (C15.pf_norm_load_is_truncated_overlap sm ss lm ls). Qed.

Theorem pf_norm_load_default_limits sm ss lm ls :
  fpl_pf_norm_load sm ss lm ls (log10R lm - 16 * ls) (log10R lm + 16 * ls) = fp_pf_norm_load sm ss lm ls.
Proof. exact (C15.pf_norm_load_default_limits sm ss lm ls). Qed.

Theorem pf_closed_increasing_in_load sm ss L1 L2 ls :
  0 < ss -> 0 < L1 -> L1 < L2 -> pf_closed_of sm ss L1 ls < pf_closed_of sm ss L2 ls.
Proof. exact (C15.pf_closed_increasing_in_load sm ss L1 L2 ls). Qed.

Theorem pf_closed_decreasing_in_strength sm1 sm2 ss L ls :
  0 < ss -> 0 < sm1 -> sm1 < sm2 -> pf_closed_of sm2 ss L ls < pf_closed_of sm1 ss L ls.
Proof. exact (C15.pf_closed_decreasing_in_strength sm1 sm2 ss L ls). Qed.

Theorem pf_closed_complement lm ls sm ss : pf_closed lm ls sm ss + pf_closed sm ss lm ls = 1.
Proof. exact (C15.pf_closed_complement lm ls sm ss). Qed.

Theorem pf_closed_tends_to_simple sm ss L :
  0 < ss -> filterlim (fun ls => pf_closed_of sm ss L ls) (locally 0) (locally (fp_pf_simple_load sm ss L)).
Proof. exact (C15.pf_closed_tends_to_simple sm ss L). Qed.

Theorem pf_closed_tends_to_simple_eps sm ss L :
  0 < ss -> forall eps : posreal, exists d : posreal, forall ls,
    Rabs ls < d -> Rabs (pf_closed_of sm ss L ls - fp_pf_simple_load sm ss L) < eps.
Proof. exact (C15.pf_closed_tends_to_simple_eps sm ss L). Qed.

Theorem Phi_in_0_1 z : 0 < Phi z < 1.
Proof. exact (GaussIntegral.Phi_in_0_1 z). Qed.

(* the Gaussian integral bound behind it: (int_0^t exp(-x^2/2) dx)^2 < pi/2 for every t *)
Theorem gauss_integral_sq_lt t : RInt gauss 0 t * RInt gauss 0 t < PI / 2.
Proof. exact (GaussIntegral.gauss_integral_sq_lt t). Qed.

Theorem pf_closed_in_0_1 lm ls sm ss : 0 < pf_closed lm ls sm ss < 1.
Proof. exact (C15.pf_closed_in_0_1 lm ls sm ss). Qed.

Theorem pf_simple_load_in_0_1 sm ss L : 0 < fp_pf_simple_load sm ss L < 1.
Proof. exact (C15.pf_simple_load_in_0_1 sm ss L). Qed.

(* the model of pf_norm_load itself (quad idealised as the Riemann integral), without any borrowed fact *)
Theorem pf_norm_load_model_increasing_in_load sm ss L1 L2 ls :
  0 < ss -> 0 < ls -> 0 < L1 -> L1 < L2 -> fp_pf_norm_load sm ss L1 ls < fp_pf_norm_load sm ss L2 ls.
Proof. exact (C15.pf_norm_load_model_increasing_in_load sm ss L1 L2 ls). Qed.

Theorem pf_norm_load_model_decreasing_in_strength sm1 sm2 ss L ls :
  0 < ss -> 0 < ls -> 0 < sm1 -> sm1 < sm2 -> fp_pf_norm_load sm2 ss L ls < fp_pf_norm_load sm1 ss L ls.
Proof. exact (C15.pf_norm_load_model_decreasing_in_strength sm1 sm2 ss L ls). Qed.

Theorem pf_norm_load_model_in_0_1 sm ss L ls : 0 < ss -> 0 < ls -> 0 < fp_pf_norm_load sm ss L ls < 1.
Proof. exact (C15.pf_norm_load_model_in_0_1 sm ss L ls). Qed.

(* partial: equality with the closed form rests on the Gaussian convolution identity, which is NOT formalised;
   it enters as the hypothesis gaussian_overlap_identity eps (a Definition : Prop, never an axiom) *)
Theorem pf_norm_load_closed_form_partial eps :
  gaussian_overlap_identity eps ->
  forall sm ss L ls, 0 < ss -> 0 < ls -> Rabs (fp_pf_norm_load sm ss L ls - pf_closed_of sm ss L ls) <= eps.
Proof. exact (C15.pf_norm_load_closed_form_partial eps). Qed.

Theorem pf_arbitrary_model_bounds sm ss xs pdf :
  ascending xs -> length xs = length pdf -> List.Forall (fun p => 0 <= p) pdf ->
  0 <= pf_arbitrary_model sm ss xs pdf <= trapz xs pdf.
Proof. exact (C15.pf_arbitrary_model_bounds sm ss xs pdf). Qed.

Theorem pf_arbitrary_model_decreasing_in_strength sm1 sm2 ss xs pdf :
  0 < ss -> 0 < sm1 -> sm1 <= sm2 -> ascending xs -> List.Forall (fun p => 0 <= p) pdf ->
  pf_arbitrary_model sm2 ss xs pdf <= pf_arbitrary_model sm1 ss xs pdf.
Proof. exact (C15.pf_arbitrary_model_decreasing_in_strength sm1 sm2 ss xs pdf). Qed.

Theorem pf_arbitrary_model_range_refuted_descending :
  exists sm ss xs pdf, 0 < sm /\ 0 < ss /\ length xs = length pdf /\ List.Forall (fun p => 0 <= p) pdf /\
                       pf_arbitrary_model sm ss xs pdf < 0.
Proof. exact C15.pf_arbitrary_model_range_refuted_descending. Qed.

Print Assumptions Phi_strictly_increasing.
Print Assumptions Phi_symmetry.
Print Assumptions Phi_derivative.
Print Assumptions pf_simple_load_is_Phi.
Print Assumptions pf_simple_load_is_closed_at_zero_scatter.
Print Assumptions pf_norm_load_is_truncated_overlap.
Print Assumptions pf_norm_load_default_limits.
Print Assumptions pf_closed_increasing_in_load.
Print Assumptions pf_closed_decreasing_in_strength.
Print Assumptions pf_closed_complement.
Print Assumptions pf_closed_tends_to_simple.
Print Assumptions pf_closed_tends_to_simple_eps.
Print Assumptions Phi_in_0_1.
Print Assumptions gauss_integral_sq_lt.
Print Assumptions pf_closed_in_0_1.
Print Assumptions pf_simple_load_in_0_1.
Print Assumptions pf_norm_load_model_increasing_in_load.
Print Assumptions pf_norm_load_model_decreasing_in_strength.
Print Assumptions pf_norm_load_model_in_0_1.
Print Assumptions pf_norm_load_closed_form_partial.
Print Assumptions pf_arbitrary_model_bounds.
Print Assumptions pf_arbitrary_model_decreasing_in_strength.
Print Assumptions pf_arbitrary_model_range_refuted_descending.
