(* C18 -- Woehler test-data analysis is equivariant and recovers exact synthetic curves.
   Only statements, `exact`, and Print Assumptions.  The model (theories/WFit) is hand-written and tied to
   /repo's fatigue_data.py / elementary.py / pearl_chain.py / probability_data.py / probit.py / likelihood.py
   on every run by kernel-checked certificates (harness/props/c18.py).
   numpy.sort and scipy.stats.norm.ppf / norm.cdf enter as Section variables: sort with the contract
   "an ordered permutation of its input"; ppf and cdf need no contract for any statement below. *)
From Coq Require Import Reals List Permutation Sorted.
From PL Require Import Common.RPrelude WFit.OLS WFit.Zones WFit.Elem WFit.Probit WFit.Likelihood.
Import ListNotations.
Open Scope R_scope.

(* ---------------------------------------------------------------- least squares (scipy linregress) *)
Theorem ols_shift_x a ps : ps <> [] ->
  ols_slope (shift_x a ps) = ols_slope ps /\ ols_icpt (shift_x a ps) = ols_icpt ps - ols_slope ps * a.
Proof. exact (OLS.ols_shift_x a ps). Qed.

Theorem ols_shift_y b ps : ps <> [] ->
  ols_slope (shift_y b ps) = ols_slope ps /\ ols_icpt (shift_y b ps) = ols_icpt ps + b.
Proof. exact (OLS.ols_shift_y b ps). Qed.

Theorem ols_perm_invariant a b : Permutation a b -> ols_slope a = ols_slope b /\ ols_icpt a = ols_icpt b.
Proof. exact (OLS.ols_perm_invariant a b). Qed.

Theorem ols_line m q ps : (forall p, In p ps -> snd p = m * fst p + q) -> ps <> [] -> ssxm ps <> 0 ->
  ols_slope ps = m /\ ols_icpt ps = q.
Proof. exact (OLS.ols_line m q ps). Qed.

(* ---------------------------------------------------------------- zones *)
Theorem zones_partition_at_transition d :
  Permutation (finite_zone d ++ infinite_zone d) d /\
  ((forall r, In r d -> 0 < load r) -> runouts d <> [] ->
   (forall r, In r (finite_zone d) -> frac r = true /\ transition d < load r) /\
   (forall r, In r (infinite_zone d) -> load r < transition d \/ (finite_zone d = [] /\ load r <= transition d))) /\
  (runouts d = [] -> transition d = 0 /\ infinite_zone d = [] /\ finite_zone d = d).
Proof.
  split; [exact (Zones.zones_partition d)|]. split; [exact (Zones.transition_separates d)|].
  intros H. unfold transition, infinite_zone, finite_zone. rewrite H. repeat split.
Qed.

Theorem zones_load_equivariant c d : 0 < c ->
  finite_zone (scale_load c d) = scale_load c (finite_zone d) /\
  infinite_zone (scale_load c d) = scale_load c (infinite_zone d) /\
  transition (scale_load c d) = c * transition d.
Proof.
  intros H. repeat split;
    [exact (Zones.finite_zone_scale_load c d H)|exact (Zones.infinite_zone_scale_load c d H)|exact (Zones.transition_scale_load c d H)].
Qed.

Theorem zones_perm_invariant a b : Permutation a b ->
  Permutation (finite_zone a) (finite_zone b) /\ Permutation (infinite_zone a) (infinite_zone b) /\ transition a = transition b.
Proof.
  intros H. repeat split;
    [exact (Zones.finite_zone_perm a b H)|exact (Zones.infinite_zone_perm a b H)|exact (Zones.transition_perm a b H)].
Qed.

(* ---------------------------------------------------------------- elementary estimate *)
Section Estimator.
Variable ppf : R -> R.
Variable sortR : list R -> list R.
Hypothesis sort_perm : forall l, Permutation (sortR l) l.
Hypothesis sort_sorted : forall l, Sorted Rle (sortR l).

Theorem elementary_load_equivariant c d : 0 < c -> positive d -> finite_fractures d <> [] ->
  let w := elementary ppf sortR d in let w' := elementary ppf sortR (scale_load c d) in
  SD w' = c * SD w /\ k_1 w' = k_1 w /\ TN w' = TN w /\ TS w' = TS w /\ (runouts d <> [] -> ND w' = ND w).
Proof. exact (Elem.elementary_load_equivariant ppf sortR c d). Qed.

(* without run-outs SD = 0 is reported and the knee is taken at the fixed load 0.1: it is NOT load invariant *)
Theorem elementary_load_no_runouts_ND c d : 0 < c -> positive d -> finite_fractures d <> [] -> runouts d = [] ->
  ND (elementary ppf sortR (scale_load c d)) = ND (elementary ppf sortR d) * Rpower c (k_1 (elementary ppf sortR d)).
Proof. exact (Elem.elementary_load_no_runouts_ND ppf sortR c d). Qed.

Theorem elementary_cycle_equivariant c d : 0 < c -> positive d -> finite_fractures d <> [] ->
  let w := elementary ppf sortR d in let w' := elementary ppf sortR (scale_cycles c d) in
  ND w' = c * ND w /\ SD w' = SD w /\ k_1 w' = k_1 w /\ TN w' = TN w /\ TS w' = TS w.
Proof. exact (Elem.elementary_cycle_equivariant ppf sortR sort_perm sort_sorted c d). Qed.

Theorem elementary_perm_invariant a b : Permutation a b -> elementary ppf sortR a = elementary ppf sortR b.
Proof. exact (Elem.elementary_perm_invariant ppf sortR sort_perm sort_sorted a b). Qed.

Theorem exact_basquin_line_recovered A k d r1 r2 : 0 < A -> positive d ->
  on_basquin_line A k (finite_fractures d) ->
  In r1 (finite_fractures d) -> In r2 (finite_fractures d) -> load r1 <> load r2 ->
  k_1 (elementary ppf sortR d) = k /\
  (0 < transition d -> ND (elementary ppf sortR d) = A * Rpower (SD (elementary ppf sortR d)) (- k)) /\
  (forall x, In x (normed_cycles (fit_slope (finite_fractures d)) (finite_fractures d)) ->
             x = A * Rpower (normed_load (finite_fractures d)) (- k)).
Proof. exact (Elem.exact_basquin_line_recovered ppf sortR A k d r1 r2). Qed.

(* what the per-run certificates establish in stages composes to the model's result *)
Theorem elementary_staged d FF T :
  finite_fractures d = FF -> transition d = T ->
  ascending (normed_cycles_m (normed_load FF) (fit_slope FF) FF) ->
  elementary ppf sortR d =
  wc_core (fit_slope FF) (fit_icpt FF) T
          (pearl_TN (normed_cycles_m (normed_load FF) (fit_slope FF) FF) (map ppf (rossow (length FF)))).
Proof. exact (Elem.elementary_staged ppf sortR sort_perm sort_sorted d FF T). Qed.

(* ---------------------------------------------------------------- Probit *)
Theorem probit_load_equivariant c d : 0 < c -> positive d -> finite_fractures d <> [] ->
  (2 <= length (levels_of (infinite_zone d)))%nat -> probit_slope ppf d <> 0 ->
  let w := probit ppf sortR d in let w' := probit ppf sortR (scale_load c d) in
  SD w' = c * SD w /\ TS w' = TS w /\ k_1 w' = k_1 w /\ TN w' = TN w /\ ND w' = ND w.
Proof. exact (Probit.probit_load_equivariant ppf sortR c d). Qed.

Theorem probit_cycle_equivariant c d : 0 < c -> positive d -> finite_fractures d <> [] ->
  let w := probit ppf sortR d in let w' := probit ppf sortR (scale_cycles c d) in
  ND w' = c * ND w /\ SD w' = SD w /\ TS w' = TS w /\ k_1 w' = k_1 w /\ TN w' = TN w.
Proof. exact (Probit.probit_cycle_equivariant ppf sortR sort_perm sort_sorted c d). Qed.

Theorem probit_perm_invariant a b : Permutation a b -> probit ppf sortR a = probit ppf sortR b.
Proof. exact (Probit.probit_perm_invariant ppf sortR sort_perm sort_sorted a b). Qed.

End Estimator.

(* ---------------------------------------------------------------- maximum likelihood (fmin itself is not modelled: partial) *)
Section MaxLike.
Variable Phi : R -> R.

Theorem likelihood_load_invariant c d sd ts k nd tn : 0 < c -> sd <> 0 ->
  lh_total Phi (scale_load c d) (c * sd) ts k nd tn = lh_total Phi d sd ts k nd tn.
Proof. exact (Likelihood.lh_total_load Phi c d sd ts k nd tn). Qed.

Theorem likelihood_cycle_invariant c d sd ts k nd tn : 0 < c -> 0 < sd -> 0 < nd -> positive d ->
  lh_total Phi (scale_cycles c d) sd ts k (c * nd) tn = lh_total Phi d sd ts k nd tn.
Proof. exact (Likelihood.lh_total_cycles Phi c d sd ts k nd tn). Qed.

Theorem likelihood_perm_invariant a b sd ts k nd tn : Permutation a b ->
  lh_total Phi a sd ts k nd tn = lh_total Phi b sd ts k nd tn.
Proof. exact (Likelihood.lh_total_perm Phi a b sd ts k nd tn). Qed.

(* an exact likelihood maximiser is equivariant; that scipy's Nelder-Mead returns one is NOT proved (partial) *)
Theorem ml_argmax_load_equivariant_partial c d sd ts k nd tn : 0 < c ->
  is_ml Phi d sd ts k nd tn -> is_ml Phi (scale_load c d) (c * sd) ts k nd tn.
Proof. exact (Likelihood.ml_argmax_load_equivariant Phi c d sd ts k nd tn). Qed.

Theorem ml_argmax_cycle_equivariant_partial c d sd ts k nd tn : 0 < c -> positive d ->
  is_ml Phi d sd ts k nd tn -> is_ml Phi (scale_cycles c d) sd ts k (c * nd) tn.
Proof. exact (Likelihood.ml_argmax_cycle_equivariant Phi c d sd ts k nd tn). Qed.

Theorem ml_argmax_perm_invariant_partial a b sd ts k nd tn : Permutation a b ->
  is_ml Phi a sd ts k nd tn -> is_ml Phi b sd ts k nd tn.
Proof. exact (Likelihood.ml_argmax_perm_invariant Phi a b sd ts k nd tn). Qed.

End MaxLike.

(* MaxLikeInf keeps the elementary line and reports the knee ND = _transition_cycles(SD) at the endurance limit SD its
   optimiser returned (knee_at d SD).  For ANY returned SD the knee follows the cycle unit exactly and is independent of the
   load unit; an error factor q of SD (optimiser noise) moves it by exactly q^slope = q^(-k_1).  This is what the harness
   demands of MaxLikeInf's ND: the factor c up to rounding plus 2 k_1 |SD'/SD - 1|. *)
Theorem maxlikeinf_knee_cycle_equivariant c d sd : 0 < c -> positive d -> finite_fractures d <> [] ->
  knee_at (scale_cycles c d) sd = c * knee_at d sd.
Proof. exact (Elem.knee_at_cycle_equivariant c d sd). Qed.

Theorem maxlikeinf_knee_load_invariant c d sd : 0 < c -> 0 < sd -> positive d -> finite_fractures d <> [] ->
  knee_at (scale_load c d) (c * sd) = knee_at d sd.
Proof. exact (Elem.knee_at_load_equivariant c d sd). Qed.

Theorem maxlikeinf_knee_follows_SD d sd q : 0 < sd -> 0 < q ->
  knee_at d (q * sd) = knee_at d sd * Rpower q (fit_slope (finite_fractures d)).
Proof. exact (Elem.knee_at_sd_sensitivity d sd q). Qed.

(* the contract on sort is satisfiable, the hypotheses of the theorems are satisfiable *)
Theorem sort_contract_satisfiable : exists sortR : list R -> list R,
  (forall l, Permutation (sortR l) l) /\ (forall l, Sorted Rle (sortR l)).
Proof. exact Elem.sort_contract_satisfiable. Qed.

Theorem hypotheses_satisfiable : exists d r1 r2,
  positive d /\ runouts d <> [] /\ on_basquin_line 1000000 2 (finite_fractures d) /\
  In r1 (finite_fractures d) /\ In r2 (finite_fractures d) /\ load r1 <> load r2.
Proof. exact Elem.hypotheses_satisfiable. Qed.

Print Assumptions ols_shift_x.
Print Assumptions ols_shift_y.
Print Assumptions ols_perm_invariant.
Print Assumptions ols_line.
Print Assumptions zones_partition_at_transition.
Print Assumptions zones_load_equivariant.
Print Assumptions zones_perm_invariant.
Print Assumptions elementary_load_equivariant.
Print Assumptions elementary_load_no_runouts_ND.
Print Assumptions elementary_cycle_equivariant.
Print Assumptions elementary_perm_invariant.
Print Assumptions exact_basquin_line_recovered.
Print Assumptions elementary_staged.
Print Assumptions probit_load_equivariant.
Print Assumptions probit_cycle_equivariant.
Print Assumptions probit_perm_invariant.
Print Assumptions likelihood_load_invariant.
Print Assumptions likelihood_cycle_invariant.
Print Assumptions likelihood_perm_invariant.
Print Assumptions ml_argmax_load_equivariant_partial.
Print Assumptions ml_argmax_cycle_equivariant_partial.
Print Assumptions ml_argmax_perm_invariant_partial.
Print Assumptions maxlikeinf_knee_cycle_equivariant.
Print Assumptions maxlikeinf_knee_load_invariant.
Print Assumptions maxlikeinf_knee_follows_SD.
Print Assumptions sort_contract_satisfiable.
Print Assumptions hypotheses_satisfiable.
