(* C10 -- decisions of the HCM in a batch are taken at ONE point.

   FKMNonlinearDetector processes all points of a batch in one pass.  Every branch of the algorithm (new maximum / Memory 3,
   "is the current load extent smaller than the previous one", Memory 1 vs Memory 2, load rising or falling) is decided by
   comparing two quantities of the FIRST point's loads -- absolute loads |x| or load extents |x - y| -- with an absolute
   tolerance eps (1e-12):      a > b + eps      resp.      a < b - eps,
   and the outcome is applied to all points.  The loads of point i are r_i times a common sequence (r_i > 0), the compared
   quantities are positively homogeneous, so point i alone would compare r_i * a with r_i * b where the batch compares
   r_0 * a with r_0 * b.  The composition model (Pipeline.batch) uses the point's own hystereses `struct (L_i)`; this file
   says when that is what the shared decisions give:

     - exact comparisons (eps = 0) and comparisons with a tolerance proportional to the load magnitude are invariant under
       positive scaling: the decision of one point is the decision of every point, whatever the ratios;
     - with an absolute tolerance eps > 0 the decisions at two points agree as soon as the compared quantities are equal, or
       differ by more than eps at both points;
     - without that separation they differ (witness): a point whose loads are so small that two different quantities differ
       by less than eps sees "equal" where the other points see "different".

   Concrete, no contracts.  The harness (props/c10.py, obligation "model decisions at the first point") checks on every batch call
   whose first point and judged point are separated (superset of the compared pairs, factor 4 for rounding) that the hystereses
   counted for the point in the batch are those of its single assessment; batches with an almost unloaded first point are
   part of the generator. *)
From Coq Require Import Reals Lra.
Open Scope R_scope.

(* the two forms of comparison in the detector *)
Definition gt_tol (eps a b : R) : Prop := a > b + eps.
Definition lt_tol (eps a b : R) : Prop := a < b - eps.

(* exact comparison: scale invariant *)
Lemma gt_exact_scale r a b : 0 < r -> (gt_tol 0 (r * a) (r * b) <-> gt_tol 0 a b).
Proof. unfold gt_tol. intros Hr. split; intros H; nra. Qed.

Lemma lt_exact_scale r a b : 0 < r -> (lt_tol 0 (r * a) (r * b) <-> lt_tol 0 a b).
Proof. unfold lt_tol. intros Hr. split; intros H; nra. Qed.

(* tolerance proportional to the load magnitude (eps * r for loads r * s): scale invariant *)
Lemma gt_relative_scale eps r a b : 0 < r -> (gt_tol (eps * r) (r * a) (r * b) <-> gt_tol eps a b).
Proof. unfold gt_tol. intros Hr. split; intros H; nra. Qed.

Lemma lt_relative_scale eps r a b : 0 < r -> (lt_tol (eps * r) (r * a) (r * b) <-> lt_tol eps a b).
Proof. unfold lt_tol. intros Hr. split; intros H; nra. Qed.

(* a and b are equal, or differ by more than eps after scaling with r *)
Definition separated (eps r a b : R) : Prop := a = b \/ eps < r * Rabs (a - b).

Lemma gt_separated eps r a b : 0 <= eps -> 0 < r -> separated eps r a b -> (gt_tol eps (r * a) (r * b) <-> a > b).
Proof.
  unfold gt_tol, separated. intros He Hr [Heq|Hsep].
  - subst. split; intros H; lra.
  - unfold Rabs in Hsep. destruct (Rcase_abs (a - b)); split; intros H; nra.
Qed.

Lemma lt_separated eps r a b : 0 <= eps -> 0 < r -> separated eps r a b -> (lt_tol eps (r * a) (r * b) <-> a < b).
Proof.
  unfold lt_tol, separated. intros He Hr [Heq|Hsep].
  - subst. split; intros H; lra.
  - unfold Rabs in Hsep. destruct (Rcase_abs (a - b)); split; intros H; nra.
Qed.

(* absolute tolerance: the decision taken at the point with ratio r0 is the decision of the point with ratio ri when the
   compared quantities are separated at both *)
Theorem gt_decision_transfers eps r0 ri a b : 0 <= eps -> 0 < r0 -> 0 < ri ->
  separated eps r0 a b -> separated eps ri a b ->
  (gt_tol eps (r0 * a) (r0 * b) <-> gt_tol eps (ri * a) (ri * b)).
Proof.
  intros He H0 Hi S0 Si. rewrite (gt_separated eps r0 a b He H0 S0), (gt_separated eps ri a b He Hi Si). tauto.
Qed.

Theorem lt_decision_transfers eps r0 ri a b : 0 <= eps -> 0 < r0 -> 0 < ri ->
  separated eps r0 a b -> separated eps ri a b ->
  (lt_tol eps (r0 * a) (r0 * b) <-> lt_tol eps (ri * a) (ri * b)).
Proof.
  intros He H0 Hi S0 Si. rewrite (lt_separated eps r0 a b He H0 S0), (lt_separated eps ri a b He Hi Si). tauto.
Qed.

(* ... and not otherwise: for every absolute tolerance eps > 0 and every pair of different quantities there is a positive
   ratio of the first point at which the batch decides differently from the point itself (ratio 1) *)
Theorem absolute_tolerance_not_scale_invariant eps a b : 0 < eps -> a < b - eps ->
  exists r0, 0 < r0 /\ lt_tol eps (1 * a) (1 * b) /\ ~ lt_tol eps (r0 * a) (r0 * b).
Proof.
  intros He Hab. exists (eps / (2 * (b - a))).
  assert (Hd : 0 < b - a) by lra.
  assert (Hr : 0 < eps / (2 * (b - a))) by (apply Rdiv_lt_0_compat; lra).
  split; [exact Hr|]. split; [unfold lt_tol; lra|].
  unfold lt_tol. intros H.
  assert (E : eps / (2 * (b - a)) * (b - a) = eps / 2) by (field; lra).
  nra.
Qed.

(* closed instance with the numbers of the code: tolerance 1e-12, peaks 143.7 and 144.7 of the other points, first point loaded
   with the ratio 1e-13 *)
Example absolute_tolerance_witness :
  let eps := / 1000000000000 in let r0 := / 10000000000000 in
  lt_tol eps (1 * 143.7) (1 * 144.7) /\ ~ lt_tol eps (r0 * 143.7) (r0 * 144.7).
Proof. unfold lt_tol. simpl. split; [lra|intros H; lra]. Qed.

(* the hypotheses of the transfer theorems are satisfiable with the code's tolerance: ratios 1e-8 and 1, quantities one unit apart *)
Example separated_sat :
  let eps := / 1000000000000 in
  separated eps (/ 100000000) 143.7 144.7 /\ separated eps 1 143.7 144.7 /\ separated eps (/ 100000000) 5 5.
Proof.
  simpl. unfold separated. repeat split.
  - right. unfold Rabs. destruct (Rcase_abs (143.7 - 144.7)); lra.
  - right. unfold Rabs. destruct (Rcase_abs (143.7 - 144.7)); lra.
  - left. reflexivity.
Qed.
