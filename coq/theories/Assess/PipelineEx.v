(* C10 -- a concrete instance of the stages of Assess/Pipeline.v:
   (1) every contract assumed there is satisfiable (the instance meets all of them), and
   (2) the witness for `shared_max_breaks_it_refuted`: as soon as the P_RAJ class maximum is the maximum over the
       batch (what damage_parameter.P_RAJ computes from the whole collective), the result of a point depends on the
       other points of the batch -- in a model that meets every contract.

   The instance is a toy, not pyLife: the "HCM" counts one hysteresis, the largest load; its damage parameter is
   range + table maximum; the curve is a ramp above the knee; the P_RAJ lifetime is knee / class mid-point of a
   single class [knee, K]. *)
From Coq Require Import Reals List Lra Lia Bool.
From PL Require Import Assess.Pipeline.
Import ListNotations.
Open Scope R_scope.

Definition t_scaleLC (c h : R) : R := c * h.
Definition t_closed (h : R) : bool := true.
Definition t_run (h : R) : nat := 2%nat.
Definition t_struct (L : list R) : list R := [maxabs L].
Definition t_evalM (M h : R) : R := Rabs h + M.
Definition t_wM (Z P : R) : R := Rmax 0 (P - Z).
Definition t_sum (ds : list (R * nat)) : R := fold_right (fun d a => Rmax 0 (fst d) + a) 0 ds.
Definition t_accM (ds : list (R * nat)) : R := / (1 + t_sum ds).
Definition t_resJ (K Z M : R) (hs : list R) : R := 2 * Z / (K + Z).
Definition t_kown (M : R) (hs : list R) : R := M.
Definition t_gamma : R -> R := gamma_const 1.
Definition t_cfac : R := 1.
Definition t_beta (p : R) : R := - p.

Lemma t_struct_scale c L : 0 < c -> t_struct (scale c L) = map (t_scaleLC c) (t_struct L).
Proof. intros Hc. unfold t_struct, t_scaleLC. simpl. rewrite maxabs_scale by lra. reflexivity. Qed.
Lemma t_closed_scale c h : t_closed (t_scaleLC c h) = t_closed h. Proof. reflexivity. Qed.
Lemma t_run_scale c h : t_run (t_scaleLC c h) = t_run h. Proof. reflexivity. Qed.
Lemma t_struct_refines L L' : refines L L' -> t_struct L' = t_struct L.
Proof. intros H. unfold t_struct. now rewrite (maxabs_refines _ _ H). Qed.
Lemma t_eval_scale c M h : 1 <= c -> 0 < M -> t_evalM M h <= t_evalM (c * M) (t_scaleLC c h).
Proof.
  intros Hc HM. unfold t_evalM, t_scaleLC. rewrite Rabs_mult, (Rabs_right c) by lra.
  pose proof (Rabs_pos h). nra.
Qed.
Lemma t_w_P Z P P' : P <= P' -> t_wM Z P <= t_wM Z P'.
Proof. intros H. unfold t_wM, Rmax. repeat destruct (Rle_dec _ _); lra. Qed.
Lemma t_w_Z Z Z' P : Z <= Z' -> t_wM Z' P <= t_wM Z P.
Proof. intros H. unfold t_wM, Rmax. repeat destruct (Rle_dec _ _); lra. Qed.
Lemma t_sum_nonneg ds : 0 <= t_sum ds.
Proof. induction ds as [|d ds IH]; simpl; [lra|]. pose proof (Rmax_l 0 (fst d)). lra. Qed.
Lemma t_sum_mono ds ds' : Forall2 (fun a b : R * nat => fst a <= fst b /\ snd a = snd b) ds ds' -> t_sum ds <= t_sum ds'.
Proof.
  induction 1 as [|a b ds ds' [Hab _] _ IH]; simpl; [lra|].
  assert (Rmax 0 (fst a) <= Rmax 0 (fst b)) by (unfold Rmax; repeat destruct (Rle_dec _ _); lra). lra.
Qed.
Lemma t_acc_antitone ds ds' :
  Forall2 (fun a b : R * nat => fst a <= fst b /\ snd a = snd b) ds ds' -> t_accM ds' <= t_accM ds.
Proof.
  intros H. unfold t_accM. pose proof (t_sum_mono _ _ H). pose proof (t_sum_nonneg ds).
  apply Rinv_le_contravar; lra.
Qed.
Lemma t_gamma_ok : safety_ok t_gamma. Proof. apply gamma_const_ok. lra. Qed.
Lemma t_cfac_pos : 0 < t_cfac. Proof. unfold t_cfac. lra. Qed.
Lemma t_beta_antitone p p' : 0 < p -> p <= p' -> p' < 1 -> t_beta p' <= t_beta p.
Proof. unfold t_beta. lra. Qed.

(* (1) all contracts hold for the instance: the theorems of Pipeline.v specialise to closed statements *)
Example contracts_satisfiable :
  (forall c Z Z' s, 1 <= c -> 0 < maxabs s -> Z' <= Z ->
     lifeM R t_closed t_run t_struct t_evalM t_wM t_accM t_gamma t_cfac Z' (scale c s)
     <= lifeM R t_closed t_run t_struct t_evalM t_wM t_accM t_gamma t_cfac Z s) /\
  (forall p s', 0 < maxabs (pseq p) -> refines (pseq p) s' ->
     single R t_closed t_run t_struct t_evalM t_wM t_accM t_resJ t_kown t_gamma t_cfac (s', snd p)
     = single R t_closed t_run t_struct t_evalM t_wM t_accM t_resJ t_kown t_gamma t_cfac p) /\
  (forall M2 Z lf25 L, 0 <= Z ->
     bearableM R t_closed t_run t_struct t_evalM t_wM t_accM t_beta M2 Z lf25 L (1/10)
     <= bearableM R t_closed t_run t_struct t_evalM t_wM t_accM t_beta M2 Z lf25 L (1/2) /\
     bearableM R t_closed t_run t_struct t_evalM t_wM t_accM t_beta M2 Z lf25 L (1/2)
     <= bearableM R t_closed t_run t_struct t_evalM t_wM t_accM t_beta M2 Z lf25 L (9/10)).
Proof.
  split; [|split].
  - exact (lifetime_antitone_in_scale R t_scaleLC t_closed t_run t_struct t_evalM t_wM t_accM t_gamma t_cfac
             t_struct_scale t_closed_scale t_run_scale t_eval_scale t_w_P t_w_Z t_acc_antitone t_gamma_ok t_cfac_pos).
  - exact (refine_insensitive R t_closed t_run t_struct t_evalM t_wM t_accM t_resJ t_kown t_gamma t_cfac t_struct_refines t_gamma_ok t_cfac_pos).
  - exact (N10_le_N50_le_N90 R t_closed t_run t_struct t_evalM t_wM t_accM t_w_Z t_acc_antitone t_beta t_beta_antitone).
Qed.

(* and the instance is not degenerate: scaling the loads up strictly shortens the life *)
Example toy_strict :
  lifeM R t_closed t_run t_struct t_evalM t_wM t_accM t_gamma t_cfac 0 (scale 2 [1])
  < lifeM R t_closed t_run t_struct t_evalM t_wM t_accM t_gamma t_cfac 0 [1].
Proof.
  unfold lifeM, prep, resultM, damages, t_struct, t_accM, t_gamma, gamma_const, t_cfac, t_closed, t_run, t_evalM, t_wM, scale.
  simpl. replace (1 * 1 * (2 * 1)) with 2 by lra. replace (1 * 1 * 1) with 1 by lra.
  rewrite (Rabs_right 2), (Rabs_right 1) by lra.
  rewrite (Rmax_left 2 0), (Rmax_left 1 0) by lra.
  rewrite (Rabs_right 2), (Rabs_right 1) by lra.
  replace (2 + 2 - 0) with 4 by lra. replace (1 + 1 - 0) with 2 by lra.
  rewrite (Rmax_right 0 4), (Rmax_right 0 2) by lra.
  rewrite (Rmax_right 0 (1 * 4)), (Rmax_right 0 (1 * 2)) by lra.
  apply Rinv_lt_contravar; lra.
Qed.

(* (2) the batch-wide class maximum breaks batch independence: two points, loads [1] and [2]; alone, point 0 has
   class maximum 1 and result 2*1/(1+1) = 1; next to point 1 the maximum is 2 and the result 2*1/(2+1) = 2/3. *)
Definition t_pts : list point := [([1], (1, 1)); ([2], (1, 1))].

Lemma t_maxabs1 x : 0 <= x -> maxabs [x] = x.
Proof. intros H. simpl. rewrite Rabs_right by lra. apply Rmax_left. exact H. Qed.

Theorem shared_max_breaks_it_refuted :
  exists pts i, (i < length pts)%nat /\
    snd (nth i (batch R t_closed t_run t_struct t_evalM t_wM t_accM t_resJ t_kown t_gamma t_cfac own own batch_max pts) (0, 0))
    <> snd (single R t_closed t_run t_struct t_evalM t_wM t_accM t_resJ t_kown t_gamma t_cfac (nth i pts dpt)).
Proof.
  exists t_pts, 0%nat. split; [simpl; lia|].
  unfold batch, single, result_with, t_pts, prep, t_resJ, t_kown, t_gamma, gamma_const, t_cfac, own, batch_max, pseq, pZJ, pZM, scale.
  simpl length. simpl seq. simpl map. simpl nth. simpl snd. simpl fst.
  replace (1 * 1 * 1) with 1 by lra. replace (1 * 1 * 2) with 2 by lra.
  simpl nth. simpl snd. rewrite (Rabs_right 1), (Rabs_right 2) by lra.
  rewrite (Rmax_left 2 0), (Rmax_left 1 0), (Rmax_left 2 0), (Rmax_right 1 2) by lra. lra.
Qed.

(* with per-point aggregation the same batch agrees with the single assessments (instance of the general theorem) *)
Example toy_pointwise i : (i < length t_pts)%nat ->
  nth i (batch R t_closed t_run t_struct t_evalM t_wM t_accM t_resJ t_kown t_gamma t_cfac own own own t_pts) (0, 0)
  = single R t_closed t_run t_struct t_evalM t_wM t_accM t_resJ t_kown t_gamma t_cfac (nth i t_pts dpt).
Proof. intros Hi. apply pointwise_if_shared_pointwise; auto. Qed.
