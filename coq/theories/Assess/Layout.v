(* C10 -- row layout of per-point data in a batch.

   The hysteresis table of a batch of n points is ordered (hysteresis_index, assessment_point_index): row h * n + i
   belongs to point i.  A per-point quantity z (the knee P_RAM_Z of the component curve when the stress gradient G is
   given per point; DamageCalculatorPRAM._initialize_P_RAM_Z_index) has to be broadcast to the rows by TILING it once
   per hysteresis.  Concrete, no contracts:
     - with tile, every row of point i carries the value of point i, whatever the other points are;
     - repeating each value k times instead (np.repeat) gives rows of point i the value of another point;
     - if all points have the same value (uniform G, or mild notches whose support factor is clipped to 1) both
       broadcasts coincide: the mistake is invisible there.
   The harness checks on every batch call that the N column of row (h, i) is the curve with the knee of point i. *)
From Coq Require Import List Arith Lia.
Import ListNotations.

Section Layout.
  Context {A : Type}.

  Fixpoint tile (k : nat) (z : list A) : list A :=
    match k with O => [] | S k' => z ++ tile k' z end.

  Definition rep_each (k : nat) (z : list A) : list A := flat_map (fun x => repeat x k) z.

  Lemma tile_length k z : length (tile k z) = k * length z.
  Proof. induction k; simpl; [reflexivity|]. rewrite app_length, IHk. reflexivity. Qed.

  Lemma rep_each_length k z : length (rep_each k z) = k * length z.
  Proof.
    unfold rep_each. induction z; simpl; [lia|].
    rewrite app_length, repeat_length, IHz. lia.
  Qed.

  (* row (h, i) of the tiled vector is the value of point i *)
  Lemma nth_tile (d : A) k z h i :
    h < k -> i < length z -> nth (h * length z + i) (tile k z) d = nth i z d.
  Proof.
    revert h. induction k; intros h Hh Hi; [lia|].
    destruct h; simpl.
    - now rewrite app_nth1.
    - rewrite app_nth2 by lia.
      replace (length z + h * length z + i - length z) with (h * length z + i) by lia.
      apply IHk; lia.
  Qed.

  Lemma Forall_repeat (P : A -> Prop) x k : P x -> Forall P (repeat x k).
  Proof. intros Hx. induction k; simpl; constructor; assumption. Qed.

  Lemma Forall_tile (P : A -> Prop) k z : Forall P z -> Forall P (tile k z).
  Proof. intros H. induction k; simpl; [constructor|]. apply Forall_app. split; assumption. Qed.

  Lemma Forall_rep_each (P : A -> Prop) k z : Forall P z -> Forall P (rep_each k z).
  Proof.
    unfold rep_each. induction 1; simpl; [constructor|].
    apply Forall_app. split; [now apply Forall_repeat | assumption].
  Qed.

  Lemma nth_all_eq (c : A) l r : Forall (eq c) l -> nth r l c = c.
  Proof.
    intros H. revert r. induction H; intros r; destruct r; simpl; try reflexivity.
    - now symmetry.
    - apply IHForall.
  Qed.

  (* all points share one value: every broadcast gives that value in every row *)
  Lemma uniform_hides_layout (c : A) k z r :
    Forall (eq c) z -> nth r (rep_each k z) c = nth r (tile k z) c.
  Proof.
    intros H. rewrite (nth_all_eq c _ r (Forall_rep_each _ k z H)).
    now rewrite (nth_all_eq c _ r (Forall_tile _ k z H)).
  Qed.
End Layout.

(* the repeat / tile mix-up: two points, two hystereses, row (0, 1) gets the value of point 0 *)
Lemma rep_each_wrong :
  exists (z : list nat) (k h i : nat),
    h < k /\ i < length z /\ nth (h * length z + i) (rep_each k z) 0 <> nth i z 0.
Proof. exists [1; 2], 2, 0, 1. simpl. repeat split; lia. Qed.
