(* C10 -- composition layer of the FKM-nonlinear assessment (perform_fkm_nonlinear_assessment).

   The assessment is a composition of stages
       load safety scaling (gamma_L, c)  ->  HCM counting with the binned notch law  ->  damage parameter
       ->  component curve  ->  damage accumulation
   evaluated for all points of a batch at once.  The stages themselves (HCM, notch law, P_RAM / P_RAJ, curves,
   accumulation) are the subject of C04/C05/C07/C09; here they are Section variables with explicit contracts, every
   contract is checked on the implementation's stage outputs on every run (harness/props/c10.py), and the theorems are
   the composition lemmas:  what follows for the end-to-end result from the contracts, with the quantities the
   implementation shares across a batch (maximum absolute load for gamma_L, table maximum of the binned law, P_RAJ class
   maximum) as explicit arguments.

   Concrete (not assumed) in this file: the maximum absolute load, element-wise scaling, refinement by non-reversal
   samples, the three load-safety factors of fkm_load_distribution.py, the per-hysteresis damage 1/N resp. 0.5/N, the
   shift of the curve by the failure probability ((0.8 beta - 2) * 0.08 resp. 0.155). *)
From Coq Require Import Reals List Lra Lia Bool.
Import ListNotations.
Open Scope R_scope.

(* ------------------------------------------------------------------ loads: maximum, scaling, refinement *)

Definition maxabs (s : list R) : R := fold_right (fun x m => Rmax (Rabs x) m) 0 s.
Definition scale (c : R) (s : list R) : list R := map (Rmult c) s.

Lemma maxabs_nonneg s : 0 <= maxabs s.
Proof. induction s as [|x s IH]; simpl; [lra|]. eapply Rle_trans; [exact IH|apply Rmax_r]. Qed.

Lemma maxabs_app a b : maxabs (a ++ b) = Rmax (maxabs a) (maxabs b).
Proof.
  induction a as [|x a IH]; simpl.
  - rewrite Rmax_right; [reflexivity|apply maxabs_nonneg].
  - rewrite IH. apply Rmax_assoc.
Qed.

Lemma maxabs_scale c s : 0 <= c -> maxabs (scale c s) = c * maxabs s.
Proof.
  intros Hc. induction s as [|x s IH]; simpl; [lra|].
  fold (scale c s). rewrite IH, Rabs_mult, (Rabs_right c) by lra. apply RmaxRmult. exact Hc.
Qed.

Lemma scale_scale a b s : scale a (scale b s) = scale (a * b) s.
Proof. unfold scale. rewrite map_map. apply map_ext. intros. lra. Qed.

Lemma scale_1 s : scale 1 s = s.
Proof. unfold scale. rewrite <- (map_id s) at 2. apply map_ext. intros. lra. Qed.

Lemma scale_app c a b : scale c (a ++ b) = scale c a ++ scale c b.
Proof. apply map_app. Qed.

(* y lies (non-strictly) between its neighbours u and v: a sample on a monotone segment or a repeated value *)
Definition between (u y v : R) : Prop := (u <= y <= v) \/ (v <= y <= u).

(* one inserted sample.  Side condition: the LAST sample of the sequence is not repeated -- on a trailing plateau the
   implementation defers the last turning point to the second HCM run and the result changes (known finding
   trailing-repeated-sample of C10, junction defect of C04); everywhere else repeated values are admitted. *)
Inductive ins1 : list R -> list R -> Prop :=
| ins1_intro l1 u y v l2 : between u y v -> (l2 = [] -> y <> v) ->
    ins1 (l1 ++ u :: v :: l2) (l1 ++ u :: y :: v :: l2).

(* s' is s with non-reversal samples inserted strictly inside (any number of times) *)
Inductive refines : list R -> list R -> Prop :=
| refines_refl s : refines s s
| refines_step s s1 s2 : ins1 s s1 -> refines s1 s2 -> refines s s2.

Lemma between_abs u y v : between u y v -> Rabs y <= Rmax (Rabs u) (Rabs v).
Proof.
  intros [[H1 H2]|[H1 H2]]; unfold Rmax; destruct (Rle_dec (Rabs u) (Rabs v));
    unfold Rabs in *; repeat destruct (Rcase_abs _); lra.
Qed.

Lemma maxabs_ins1 s s' : ins1 s s' -> maxabs s' = maxabs s.
Proof.
  intros [l1 u y v l2 Hb _]. rewrite !maxabs_app. f_equal. simpl.
  pose proof (between_abs _ _ _ Hb) as H. pose proof (maxabs_nonneg l2) as H0.
  unfold Rmax in *. repeat destruct (Rle_dec _ _); lra.
Qed.

Lemma maxabs_refines s s' : refines s s' -> maxabs s' = maxabs s.
Proof. induction 1 as [|s s1 s2 H1 _ IH]; [reflexivity|]. rewrite IH. now apply maxabs_ins1. Qed.

Lemma between_scale c u y v : between u y v -> between (c * u) (c * y) (c * v).
Proof.
  intros Hb. destruct (Rle_dec 0 c) as [Hc|Hc].
  - destruct Hb as [[H1 H2]|[H1 H2]]; [left|right]; split; apply Rmult_le_compat_l; assumption.
  - assert (c <= 0) as Hc' by lra.
    destruct Hb as [[H1 H2]|[H1 H2]]; [right|left]; split; apply Rmult_le_compat_neg_l; assumption.
Qed.

Lemma ins1_scale c s s' : c <> 0 -> ins1 s s' -> ins1 (scale c s) (scale c s').
Proof.
  intros Hc [l1 u y v l2 Hb Hl]. rewrite !scale_app. simpl. apply ins1_intro; [now apply between_scale|].
  intros Hnil Heq. apply Hl.
  - unfold scale in Hnil. now apply map_eq_nil in Hnil.
  - apply Rmult_eq_reg_l with c; assumption.
Qed.

Lemma refines_scale c s s' : c <> 0 -> refines s s' -> refines (scale c s) (scale c s').
Proof.
  intros Hc. induction 1 as [|s s1 s2 H1 _ IH]; [apply refines_refl|].
  eapply refines_step; [apply ins1_scale; [exact Hc|exact H1]|exact IH].
Qed.

(* ------------------------------------------------------------------ load safety factors (fkm_load_distribution.py) *)

(* normal distribution: gamma_L = (L_max + alpha_L) / L_max, alpha_L independent of the loads *)
Definition gamma_normal (alpha M : R) : R := (M + alpha) / M.
(* log-normal distribution max(1, 10^alpha_LSD) and the blanket factor (1.1 / 1.0): independent of the loads *)
Definition gamma_const (g : R) (M : R) : R := g.

(* what scaling all loads by c >= 1 does after the safety factor: the effective loads grow *)
Definition safety_ok (gamma : R -> R) : Prop :=
  forall c M, 1 <= c -> 0 < M -> 0 < gamma M /\ gamma M <= c * gamma (c * M).

Lemma gamma_normal_ok alpha : 0 <= alpha -> safety_ok (gamma_normal alpha).
Proof.
  intros Ha c M Hc HM. unfold gamma_normal. split.
  - apply Rdiv_lt_0_compat; lra.
  - replace (c * ((c * M + alpha) / (c * M))) with ((c * M + alpha) / M) by (field; lra).
    unfold Rdiv. apply Rmult_le_compat_r; [left; now apply Rinv_0_lt_compat|]. nra.
Qed.

(* alpha_L = (0.7 beta - 2) s_L can be negative (P_L = 2.5 %, large P_A): still fine as long as the factor is positive *)
Lemma gamma_normal_ok_neg alpha : forall c M, 1 <= c -> 0 < M -> 0 < M + alpha ->
  0 < gamma_normal alpha M /\ gamma_normal alpha M <= c * gamma_normal alpha (c * M).
Proof.
  intros c M Hc HM Hpos. unfold gamma_normal. split.
  - apply Rdiv_lt_0_compat; lra.
  - replace (c * ((c * M + alpha) / (c * M))) with ((c * M + alpha) / M) by (field; lra).
    unfold Rdiv. apply Rmult_le_compat_r; [left; now apply Rinv_0_lt_compat|]. nra.
Qed.

Lemma gamma_const_ok g : 0 < g -> safety_ok (gamma_const g).
Proof. intros Hg c M Hc HM. unfold gamma_const. split; [exact Hg|]. nra. Qed.

(* ------------------------------------------------------------------ list helpers *)

Lemma nth_map_seq {A} (f : nat -> A) n i d : (i < n)%nat -> nth i (map f (seq 0 n)) d = f i.
Proof.
  intros Hi. rewrite (nth_indep _ d (f 0%nat)) by (rewrite map_length, seq_length; exact Hi).
  rewrite map_nth. rewrite seq_nth by exact Hi. reflexivity.
Qed.

Lemma nth_map_d {A B} (f : A -> B) l i dA dB : (i < length l)%nat -> nth i (map f l) dB = f (nth i l dA).
Proof.
  intros Hi. rewrite (nth_indep _ dB (f dA)) by (rewrite map_length; exact Hi). apply map_nth.
Qed.

Lemma Forall2_map_both {A B} (P : B -> B -> Prop) (f g : A -> B) l :
  (forall x, In x l -> P (f x) (g x)) -> Forall2 P (map f l) (map g l).
Proof.
  induction l as [|x l IH]; intros H; simpl; constructor.
  - apply H. now left.
  - apply IH. intros y Hy. apply H. now right.
Qed.

(* ------------------------------------------------------------------ the pipeline *)

Section Pipeline.

  (* a counted hysteresis in load space together with whatever of the load history its stresses and strains depend on *)
  Variable LC : Type.
  Variable scaleLC : R -> LC -> LC.
  Variable closedLC : LC -> bool.           (* closed hysteresis (full damage) or memory-3 half hysteresis *)
  Variable runLC : LC -> nat.               (* first or second HCM run *)
  Variable struct : list R -> list LC.      (* FKMNonlinearDetector.process_hcm_first + process_hcm_second *)
  (* binned notch law with table maximum M applied along the hysteresis + P_RAM of the result *)
  Variable evalM : R -> LC -> R.
  (* damage of one cycle at damage parameter P under the component curve with knee Z: 1 / N(P) *)
  Variable wM : R -> R -> R.
  (* lifetime from the per-hysteresis damages and run indices (DamageCalculatorPRAM.lifetime_n_cycles) *)
  Variable accM : list (R * nat) -> R.
  (* P_RAJ branch: lifetime as a function of the class maximum K, curve knee Z, table maximum M and the hystereses;
     class maximum computed from the hystereses of a point *)
  Variable resJ : R -> R -> R -> list LC -> R.
  Variable kown : R -> list LC -> R.
  (* load safety factor as a function of the maximum absolute load, transfer factor c *)
  Variable gamma : R -> R.
  Variable cfac : R.

  Definition prep (M1 : R) (s : list R) : list R := scale (gamma M1 * cfac) s.

  Definition damages (M2 Z : R) (L : list R) : list (R * nat) :=
    map (fun h => ((if closedLC h then 1 else / 2) * wM Z (evalM M2 h), runLC h)) (struct L).

  Definition resultM (M2 Z : R) (L : list R) : R := accM (damages M2 Z L).

  (* one point: load sequence and the knee of its component curves (depends on the point's stress gradient G) *)
  Definition point : Type := (list R * (R * R))%type.
  Definition pseq (p : point) := fst p.
  Definition pZM (p : point) := fst (snd p).
  Definition pZJ (p : point) := snd (snd p).
  Definition dpt : point := ([], (0, 0)).

  (* result of a point for given values of the three shared quantities *)
  Definition result_with (M1 : R) (M2of : list R -> R) (Kof : R -> list LC -> R) (p : point) : R * R :=
    let L := prep M1 (pseq p) in
    let M2 := M2of L in
    (resultM M2 (pZM p) L, resJ (Kof M2 (struct L)) (pZJ p) M2 (struct L)).

  (* the point assessed on its own *)
  Definition single (p : point) : R * R := result_with (maxabs (pseq p)) maxabs kown p.

  (* the vectorised evaluation: a1, a2, a3 say how the value used for point i is obtained from the per-point values
     of the whole batch (own value / maximum over the batch / value of point 0 ...) *)
  Variables a1 a2 a3 : list R -> nat -> R.

  Definition batch (pts : list point) : list (R * R) :=
    let idx := seq 0 (length pts) in
    let m1 := map (fun p => maxabs (pseq p)) pts in
    let Ls := map (fun i => prep (a1 m1 i) (pseq (nth i pts dpt))) idx in
    let m2 := map maxabs Ls in
    let ks := map (fun i => kown (a2 m2 i) (struct (nth i Ls []))) idx in
    map (fun i => let L := nth i Ls [] in let p := nth i pts dpt in
                  (resultM (a2 m2 i) (pZM p) L, resJ (a3 ks i) (pZJ p) (a2 m2 i) (struct L))) idx.

  Definition own (xs : list R) (i : nat) : R := nth i xs 0.
  Definition batch_max (xs : list R) (i : nat) : R := fold_right Rmax 0 xs.

  (* batch independence: if every shared quantity is taken per point, the batch result at a point is the result of
     assessing that point alone -- whatever the other points are *)
  Theorem pointwise_if_shared_pointwise pts i :
    (forall xs j, (j < length xs)%nat -> a1 xs j = own xs j) ->
    (forall xs j, (j < length xs)%nat -> a2 xs j = own xs j) ->
    (forall xs j, (j < length xs)%nat -> a3 xs j = own xs j) ->
    (i < length pts)%nat -> nth i (batch pts) (0, 0) = single (nth i pts dpt).
  Proof.
    intros H1 H2 H3 Hi. unfold batch. cbv zeta.
    rewrite nth_map_seq by exact Hi.
    set (m1 := map (fun p => maxabs (pseq p)) pts).
    set (Ls := map (fun i => prep (a1 m1 i) (pseq (nth i pts dpt))) (seq 0 (length pts))).
    assert (Hm1 : a1 m1 i = maxabs (pseq (nth i pts dpt))).
    { rewrite H1 by (unfold m1; rewrite map_length; exact Hi). unfold own, m1.
      apply (nth_map_d (fun p => maxabs (pseq p)) pts i dpt 0 Hi). }
    assert (HL : nth i Ls [] = prep (maxabs (pseq (nth i pts dpt))) (pseq (nth i pts dpt))).
    { unfold Ls. rewrite nth_map_seq by exact Hi. now rewrite Hm1. }
    assert (HlenL : length Ls = length pts) by (unfold Ls; now rewrite map_length, seq_length).
    assert (Hm2 : a2 (map maxabs Ls) i = maxabs (nth i Ls [])).
    { rewrite H2 by (rewrite map_length, HlenL; exact Hi). unfold own.
      apply (nth_map_d maxabs Ls i [] 0). now rewrite HlenL. }
    set (ks := map (fun i => kown (a2 (map maxabs Ls) i) (struct (nth i Ls []))) (seq 0 (length pts))).
    assert (Hk : a3 ks i = kown (maxabs (nth i Ls [])) (struct (nth i Ls []))).
    { rewrite H3 by (unfold ks; rewrite map_length, seq_length; exact Hi). unfold own, ks.
      rewrite nth_map_seq by exact Hi. now rewrite Hm2. }
    rewrite Hm2, Hk, HL. reflexivity.
  Qed.

  (* ---------------------------------------------------------------- contracts of the stages *)

  (* HCM: positive scaling of the loads scales the counted hystereses, nothing else changes (C03/C04) *)
  Hypothesis struct_scale : forall c L, 0 < c -> struct (scale c L) = map (scaleLC c) (struct L).
  Hypothesis closed_scale : forall c h, closedLC (scaleLC c h) = closedLC h.
  Hypothesis run_scale : forall c h, runLC (scaleLC c h) = runLC h.
  (* HCM: samples that are not reversals do not change what is counted (C03/C04) *)
  Hypothesis struct_refines : forall L L', refines L L' -> struct L' = struct L.
  (* binned notch law (table scaled with the loads) + damage parameter: larger loads, not smaller parameter *)
  Hypothesis eval_scale : forall c M h, 1 <= c -> 0 < M -> evalM M h <= evalM (c * M) (scaleLC c h).
  (* component curve: N antitone in P, isotone in the knee (damage per cycle the other way round) *)
  Hypothesis w_P : forall Z P P', P <= P' -> wM Z P <= wM Z P'.
  Hypothesis w_Z : forall Z Z' P, Z <= Z' -> wM Z' P <= wM Z P.
  (* accumulation: more damage in some hysteresis, not longer life *)
  Hypothesis acc_antitone : forall ds ds',
    Forall2 (fun a b => fst a <= fst b /\ snd a = snd b) ds ds' -> accM ds' <= accM ds.
  Hypothesis gamma_ok : safety_ok gamma.
  Hypothesis cfac_pos : 0 < cfac.

  (* core composition lemma: loads scaled up by c >= 1 (tables scaled along), knee not raised => life not longer *)
  Lemma resultM_antitone c Z Z' L : 1 <= c -> 0 < maxabs L -> Z' <= Z ->
    resultM (maxabs (scale c L)) Z' (scale c L) <= resultM (maxabs L) Z L.
  Proof.
    intros Hc HM HZ. unfold resultM. apply acc_antitone. unfold damages.
    rewrite struct_scale by lra. rewrite map_map. apply Forall2_map_both. intros h _. simpl.
    rewrite closed_scale, run_scale. split; [|reflexivity].
    rewrite maxabs_scale by lra.
    assert (wM Z (evalM (maxabs L) h) <= wM Z' (evalM (c * maxabs L) (scaleLC c h))) as Hw.
    { eapply Rle_trans; [apply (w_Z Z' Z); exact HZ|]. apply w_P. now apply eval_scale. }
    destruct (closedLC h); nra.
  Qed.

  Definition lifeM (Z : R) (s : list R) : R := let L := prep (maxabs s) s in resultM (maxabs L) Z L.

  Lemma prep_scale c s : 1 <= c -> 0 < maxabs s ->
    exists c', 1 <= c' /\ prep (maxabs (scale c s)) (scale c s) = scale c' (prep (maxabs s) s).
  Proof.
    intros Hc HM. destruct (gamma_ok c (maxabs s) Hc HM) as [Hg Hle].
    exists (c * gamma (c * maxabs s) / gamma (maxabs s)). split.
    - apply Rmult_le_reg_r with (gamma (maxabs s)); [exact Hg|]. unfold Rdiv. rewrite Rmult_assoc, Rinv_l by lra. lra.
    - unfold prep. rewrite maxabs_scale by lra. rewrite !scale_scale. f_equal. field. lra.
  Qed.

  Lemma maxabs_prep_pos s : 0 < maxabs s -> 0 < maxabs (prep (maxabs s) s).
  Proof.
    intros HM. destruct (gamma_ok 1 (maxabs s) (Rle_refl 1) HM) as [Hg _].
    unfold prep. rewrite maxabs_scale; [|left]; apply Rmult_lt_0_compat; try assumption; apply Rmult_lt_0_compat; assumption.
  Qed.

  (* scaling all loads up never increases the P_RAM lifetime; a lower curve (rougher surface: smaller K_RP; smaller
     P_A: larger gamma_M; both lower the knee) neither *)
  Theorem lifetime_antitone_in_scale c Z Z' s : 1 <= c -> 0 < maxabs s -> Z' <= Z ->
    lifeM Z' (scale c s) <= lifeM Z s.
  Proof.
    intros Hc HM HZ. unfold lifeM. cbv zeta.
    destruct (prep_scale c s Hc HM) as [c' [Hc' ->]].
    apply resultM_antitone; [exact Hc'|now apply maxabs_prep_pos|exact HZ].
  Qed.

  Corollary lifetime_isotone_in_knee Z Z' s : 0 < maxabs s -> Z' <= Z -> lifeM Z' s <= lifeM Z s.
  Proof.
    intros HM HZ. rewrite <- (scale_1 s) at 1. apply lifetime_antitone_in_scale; [lra|exact HM|exact HZ].
  Qed.

  (* non-reversal samples and repeated values do not change the result (P_RAM and P_RAJ) *)
  Theorem refine_insensitive p s' : 0 < maxabs (pseq p) -> refines (pseq p) s' -> single (s', snd p) = single p.
  Proof.
    intros HM Hr. unfold single, result_with, pZM, pZJ. unfold pseq in *. simpl fst. simpl snd. cbv zeta.
    rewrite (maxabs_refines _ _ Hr).
    assert (Hp : refines (prep (maxabs (fst p)) (fst p)) (prep (maxabs (fst p)) s')).
    { apply refines_scale; [|exact Hr]. destruct (gamma_ok 1 (maxabs (fst p)) (Rle_refl 1) HM) as [Hg _].
      apply Rgt_not_eq. apply Rmult_lt_0_compat; assumption. }
    rewrite (maxabs_refines _ _ Hp). unfold resultM, damages. rewrite (struct_refines _ _ Hp). reflexivity.
  Qed.

  (* ---------------------------------------------------------------- failure probability *)

  (* safety index beta(P_A) (compute_beta: -Phi^{-1}(P_A)) *)
  Variable beta : R -> R.
  Hypothesis beta_antitone : forall p p', 0 < p -> p <= p' -> p' < 1 -> beta p' <= beta p.

  (* N_max_bearable of DamageCalculatorPRAM.get_lifetime_functions: the knee P_RAM_Z is multiplied by
     10^(log10 f_25 - (0.8 beta - 2) * 0.08) and the damage calculation is repeated *)
  Definition knee_PA (Z lf25 pa : R) : R := Z * Rpower 10 (lf25 - (0.8 * beta pa - 2) * 0.08).
  Definition bearableM (M2 Z lf25 : R) (L : list R) (pa : R) : R := resultM M2 (knee_PA Z lf25 pa) L.

  Lemma knee_PA_isotone Z lf25 p p' : 0 <= Z -> 0 < p -> p <= p' -> p' < 1 -> knee_PA Z lf25 p <= knee_PA Z lf25 p'.
  Proof.
    intros HZ H0 Hpp H1. unfold knee_PA. apply Rmult_le_compat_l; [exact HZ|].
    apply Rle_Rpower; [lra|]. pose proof (beta_antitone p p' H0 Hpp H1). lra.
  Qed.

  Lemma resultM_isotone_in_knee M2 Z Z' L : Z' <= Z -> resultM M2 Z' L <= resultM M2 Z L.
  Proof.
    intros HZ. unfold resultM. apply acc_antitone. unfold damages. apply Forall2_map_both. intros h _. simpl.
    split; [|reflexivity]. pose proof (w_Z Z' Z (evalM M2 h) HZ). destruct (closedLC h); nra.
  Qed.

  Theorem N10_le_N50_le_N90 M2 Z lf25 L : 0 <= Z ->
    bearableM M2 Z lf25 L (1/10) <= bearableM M2 Z lf25 L (1/2) /\
    bearableM M2 Z lf25 L (1/2) <= bearableM M2 Z lf25 L (9/10).
  Proof.
    intros HZ. unfold bearableM. split; apply resultM_isotone_in_knee; apply knee_PA_isotone; lra.
  Qed.

  (* N_max_bearable of DamageCalculatorPRAJ.get_lifetime_functions: the lifetime itself is multiplied by
     10^((log10 f_25 - (0.8 beta - 2) * 0.155) * |1/d|) *)
  Definition bearableJ (life lf25 slope pa : R) : R := life * Rpower 10 ((lf25 - (0.8 * beta pa - 2) * 0.155) * slope).

  Theorem N10_le_N50_le_N90_RAJ life lf25 slope : 0 <= life -> 0 <= slope ->
    bearableJ life lf25 slope (1/10) <= bearableJ life lf25 slope (1/2) /\
    bearableJ life lf25 slope (1/2) <= bearableJ life lf25 slope (9/10).
  Proof.
    intros Hl Hs. unfold bearableJ.
    assert (forall p p', 0 < p -> p <= p' -> p' < 1 ->
              life * Rpower 10 ((lf25 - (0.8 * beta p - 2) * 0.155) * slope) <=
              life * Rpower 10 ((lf25 - (0.8 * beta p' - 2) * 0.155) * slope)) as H.
    { intros p p' H0 Hpp H1. apply Rmult_le_compat_l; [exact Hl|]. apply Rle_Rpower; [lra|].
      pose proof (beta_antitone p p' H0 Hpp H1). nra. }
    split; apply H; lra.
  Qed.

End Pipeline.
