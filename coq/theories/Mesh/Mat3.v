(* 3x3 real matrices as nested triples (the shape py2coq_sym emits for np.array([[..],[..],[..]])),
   product, determinant, adjugate inverse.  np.linalg.inv enters the mesh theorems only through the
   contract  [A * inv A = I]  for regular A; [inv3] shows the contract is satisfiable. *)
From Coq Require Import Reals Lra.
Open Scope R_scope.

Definition V3 : Type := (R * R * R)%type.
Definition M33 : Type := (V3 * V3 * V3)%type.

Definition I3 : M33 := ((1, 0, 0), (0, 1, 0), (0, 0, 1)).

Definition mmul (A B : M33) : M33 :=
  let '((a11, a12, a13), (a21, a22, a23), (a31, a32, a33)) := A in
  let '((b11, b12, b13), (b21, b22, b23), (b31, b32, b33)) := B in
  ((a11 * b11 + a12 * b21 + a13 * b31, a11 * b12 + a12 * b22 + a13 * b32, a11 * b13 + a12 * b23 + a13 * b33),
   (a21 * b11 + a22 * b21 + a23 * b31, a21 * b12 + a22 * b22 + a23 * b32, a21 * b13 + a22 * b23 + a23 * b33),
   (a31 * b11 + a32 * b21 + a33 * b31, a31 * b12 + a32 * b22 + a33 * b32, a31 * b13 + a32 * b23 + a33 * b33)).

Definition mulMV (A : M33) (v : V3) : V3 :=
  let '((a11, a12, a13), (a21, a22, a23), (a31, a32, a33)) := A in
  let '(v1, v2, v3) := v in
  (a11 * v1 + a12 * v2 + a13 * v3, a21 * v1 + a22 * v2 + a23 * v3, a31 * v1 + a32 * v2 + a33 * v3).

Definition det3 (A : M33) : R :=
  let '((a11, a12, a13), (a21, a22, a23), (a31, a32, a33)) := A in
  a11 * (a22 * a33 - a23 * a32) - a12 * (a21 * a33 - a23 * a31) + a13 * (a21 * a32 - a22 * a31).

Definition inv3 (A : M33) : M33 :=
  let '((a11, a12, a13), (a21, a22, a23), (a31, a32, a33)) := A in
  let d := det3 A in
  (((a22 * a33 - a23 * a32) / d, (a13 * a32 - a12 * a33) / d, (a12 * a23 - a13 * a22) / d),
   ((a23 * a31 - a21 * a33) / d, (a11 * a33 - a13 * a31) / d, (a13 * a21 - a11 * a23) / d),
   ((a21 * a32 - a22 * a31) / d, (a12 * a31 - a11 * a32) / d, (a11 * a22 - a12 * a21) / d)).

Ltac m33_destruct A := destruct A as [[[[a11 a12] a13] [[a21 a22] a23]] [[a31 a32] a33]].

Lemma inv3_right (A : M33) : det3 A <> 0 -> mmul A (inv3 A) = I3.
Proof.
  m33_destruct A. unfold inv3, mmul, I3, det3. intros H.
  repeat apply f_equal2; field; exact H.
Qed.

Lemma inv3_left (A : M33) : det3 A <> 0 -> mmul (inv3 A) A = I3.
Proof.
  m33_destruct A. unfold inv3, mmul, I3, det3. intros H.
  repeat apply f_equal2; field; exact H.
Qed.

(* the nine scalar equations of  A * B = I *)
Lemma mmul_I3_entries a11 a12 a13 a21 a22 a23 a31 a32 a33 b11 b12 b13 b21 b22 b23 b31 b32 b33 :
  mmul ((a11, a12, a13), (a21, a22, a23), (a31, a32, a33)) ((b11, b12, b13), (b21, b22, b23), (b31, b32, b33)) = I3 ->
  (a11 * b11 + a12 * b21 + a13 * b31 = 1 /\ a11 * b12 + a12 * b22 + a13 * b32 = 0 /\ a11 * b13 + a12 * b23 + a13 * b33 = 0) /\
  (a21 * b11 + a22 * b21 + a23 * b31 = 0 /\ a21 * b12 + a22 * b22 + a23 * b32 = 1 /\ a21 * b13 + a22 * b23 + a23 * b33 = 0) /\
  (a31 * b11 + a32 * b21 + a33 * b31 = 0 /\ a31 * b12 + a32 * b22 + a33 * b32 = 0 /\ a31 * b13 + a32 * b23 + a33 * b33 = 1).
Proof. unfold mmul, I3. intros H. injection H. intros. repeat split; assumption. Qed.

(* a regular matrix is injective (used for the least-squares normal matrix) *)
Lemma det3_injective (A : M33) (v : V3) : det3 A <> 0 -> mulMV A v = (0, 0, 0) -> v = (0, 0, 0).
Proof.
  m33_destruct A. destruct v as [[v1 v2] v3]. unfold mulMV, det3. intros Hd H. injection H. intros H3 H2 H1.
  set (d := a11 * (a22 * a33 - a23 * a32) - a12 * (a21 * a33 - a23 * a31) + a13 * (a21 * a32 - a22 * a31)) in *.
  assert (E1 : d * v1 = 0).
  { replace (d * v1) with ((a22 * a33 - a23 * a32) * (a11 * v1 + a12 * v2 + a13 * v3) + (a13 * a32 - a12 * a33) * (a21 * v1 + a22 * v2 + a23 * v3)
       + (a12 * a23 - a13 * a22) * (a31 * v1 + a32 * v2 + a33 * v3)) by (unfold d; ring). rewrite H1, H2, H3. ring. }
  assert (E2 : d * v2 = 0).
  { replace (d * v2) with ((a23 * a31 - a21 * a33) * (a11 * v1 + a12 * v2 + a13 * v3) + (a11 * a33 - a13 * a31) * (a21 * v1 + a22 * v2 + a23 * v3)
       + (a13 * a21 - a11 * a23) * (a31 * v1 + a32 * v2 + a33 * v3)) by (unfold d; ring). rewrite H1, H2, H3. ring. }
  assert (E3 : d * v3 = 0).
  { replace (d * v3) with ((a21 * a32 - a22 * a31) * (a11 * v1 + a12 * v2 + a13 * v3) + (a12 * a31 - a11 * a32) * (a21 * v1 + a22 * v2 + a23 * v3)
       + (a11 * a22 - a12 * a21) * (a31 * v1 + a32 * v2 + a33 * v3)) by (unfold d; ring). rewrite H1, H2, H3. ring. }
  apply Rmult_integral in E1, E2, E3.
  destruct E1 as [E1|E1]; [contradiction|]. destruct E2 as [E2|E2]; [contradiction|]. destruct E3 as [E3|E3]; [contradiction|].
  subst. reflexivity.
Qed.
