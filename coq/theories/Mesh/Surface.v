(* Surface3D.is_at_surface on axis-parallel hexahedral block meshes (C19, clause "surface detection flags exactly the
   boundary nodes of a hexahedral block mesh").

   pylife/mesh/surface.py `_determine_is_at_surface`:
     for every (element, node) row the largest spherical excess E over triples of other nodes of the element,
     Esum(node) = sum of E over the elements that contain the node,   is_at_surface = Esum < 4*pi - 1e-5.
   Model for a block of nx x ny x nz axis-parallel cells (grid lines anywhere, so cells are boxes):
     - `incident`: the number of cells containing grid node (i, j, k), counted literally over the list of all cells;
     - every cell contributes the excess of an orthogonal corner, `excess (PI/2) (PI/2) (PI/2)`, where `excess` is the
       transcription of the formula of `_solid_angle` (L'Huilier-free half-angle form used by the code);
     - the decision `Esum < 4*PI - 1e-5`.
   Proved: the closed form of `incident`, the value PI/2 of the orthogonal corner, and that the decision flags exactly the
   nodes with i in {0, nx} or j in {0, ny} or k in {0, nz} -- for every block size.
   Tie (harness/props/c19.py `surface_model_stage`): on random axis-parallel blocks the implementation's per-row E is compared
   with PI/2, its Esum with `incident * PI/2` where `incident` is evaluated by vm_compute, and its flag with the model's.
   NOT proved: that the maximum over the 35 triples of other cell vertices is attained by the three edge neighbours (checked on
   the implementation per row), and anything about non-orthogonal cells (relations only). *)
From Coq Require Import Reals ZArith List Bool Lia Lra.
Import ListNotations.

Definition cell_has (i a : Z) : bool := (i =? a)%Z || (i =? a + 1)%Z.
Definition zrange (n : nat) : list Z := map Z.of_nat (seq 0 n).

Definition in_cell (i j k : Z) (e : Z * Z * Z) : bool :=
  (cell_has i (fst (fst e)) && cell_has j (snd (fst e))) && cell_has k (snd e).

Definition cells (nx ny nz : nat) : list (Z * Z * Z) := list_prod (list_prod (zrange nx) (zrange ny)) (zrange nz).

Definition incident (nx ny nz : nat) (i j k : Z) : nat := length (filter (in_cell i j k) (cells nx ny nz)).

Definition inc1 (n : nat) (i : Z) : nat :=
  ((if (0 <=? i)%Z && (i <? Z.of_nat n)%Z then 1 else 0) + (if (1 <=? i)%Z && (i <=? Z.of_nat n)%Z then 1 else 0))%nat.

Lemma zrange_S n : zrange (S n) = zrange n ++ [Z.of_nat n].
Proof. unfold zrange. rewrite seq_S, map_app. reflexivity. Qed.

Lemma count1 n i : length (filter (cell_has i) (zrange n)) = inc1 n i.
Proof.
  induction n as [|n IH].
  - unfold inc1. cbn [zrange seq map filter length Z.of_nat].
    destruct (Z.leb_spec 0 i), (Z.ltb_spec i 0), (Z.leb_spec 1 i), (Z.leb_spec i 0); cbn; lia.
  - rewrite zrange_S, filter_app, app_length, IH. unfold inc1, cell_has. cbn [filter].
    rewrite Nat2Z.inj_succ.
    destruct (Z.eqb_spec i (Z.of_nat n)), (Z.eqb_spec i (Z.of_nat n + 1)),
      (Z.leb_spec 0 i), (Z.ltb_spec i (Z.of_nat n)), (Z.leb_spec 1 i), (Z.leb_spec i (Z.of_nat n)),
      (Z.ltb_spec i (Z.succ (Z.of_nat n))), (Z.leb_spec i (Z.succ (Z.of_nat n))); cbn; lia.
Qed.

Lemma filter_pair_length {A B} (f : A -> bool) (g : B -> bool) a l2 :
  length (filter (fun p => f (fst p) && g (snd p)) (map (pair a) l2)) = if f a then length (filter g l2) else 0%nat.
Proof.
  induction l2 as [|b l2 IH]; cbn [map filter fst snd].
  - destruct (f a); reflexivity.
  - destruct (f a) eqn:Hf; cbn [andb] in *.
    + destruct (g b); cbn [length]; rewrite IH; reflexivity.
    + exact IH.
Qed.

Lemma filter_prod_length {A B} (f : A -> bool) (g : B -> bool) l1 l2 :
  length (filter (fun p => f (fst p) && g (snd p)) (list_prod l1 l2)) = (length (filter f l1) * length (filter g l2))%nat.
Proof.
  induction l1 as [|a l1 IH]; cbn [list_prod filter]; [reflexivity|].
  rewrite filter_app, app_length, filter_pair_length, IH.
  destruct (f a); cbn [length]; lia.
Qed.

Theorem incident_closed_form nx ny nz i j k : incident nx ny nz i j k = (inc1 nx i * inc1 ny j * inc1 nz k)%nat.
Proof.
  unfold incident, cells, in_cell.
  rewrite (filter_prod_length (fun p => cell_has i (fst p) && cell_has j (snd p)) (cell_has k)).
  rewrite (filter_prod_length (cell_has i) (cell_has j)).
  rewrite !count1. reflexivity.
Qed.

Lemma inc1_range n i : (1 <= n)%nat -> (0 <= i <= Z.of_nat n)%Z ->
  (inc1 n i = 1%nat /\ (i = 0 \/ i = Z.of_nat n)%Z) \/ (inc1 n i = 2%nat /\ (0 < i < Z.of_nat n)%Z).
Proof.
  intros Hn Hi. unfold inc1.
  destruct (Z.leb_spec 0 i), (Z.ltb_spec i (Z.of_nat n)), (Z.leb_spec 1 i), (Z.leb_spec i (Z.of_nat n)); cbn; lia.
Qed.

(* ------------------------------------------------------------------ the solid angle of `_solid_angle` *)
Open Scope R_scope.

(* a, b, c: the three face angles at the node (arccos of the scalar products of the unit edge vectors) *)
Definition excess (a b c : R) : R :=
  let s := (a + b + c) / 2 in
  let sinA := sqrt (sin (s - b) * sin (s - c) / (sin b * sin c)) in
  let sinB := sqrt (sin (s - a) * sin (s - c) / (sin a * sin c)) in
  let sinC := sqrt (sin (s - b) * sin (s - a) / (sin b * sin a)) in
  2 * asin (Rmin sinA 1) + 2 * asin (Rmin sinB 1) + 2 * asin (Rmin sinC 1) - PI.

Lemma sin_PI4_pos : 0 < sin (PI / 4).
Proof. apply sin_gt_0; pose proof PI_RGT_0; lra. Qed.

Lemma sin_PI4_le1 : sin (PI / 4) <= 1.
Proof. pose proof (SIN_bound (PI / 4)); lra. Qed.

Theorem orthogonal_corner_excess : excess (PI / 2) (PI / 2) (PI / 2) = PI / 2.
Proof.
  unfold excess.
  replace ((PI / 2 + PI / 2 + PI / 2) / 2 - PI / 2) with (PI / 4) by lra.
  rewrite sin_PI2.
  replace (sin (PI / 4) * sin (PI / 4) / (1 * 1)) with (Rsqr (sin (PI / 4))) by (unfold Rsqr; field).
  rewrite sqrt_Rsqr by (pose proof sin_PI4_pos; lra).
  rewrite Rmin_left by exact sin_PI4_le1.
  rewrite asin_sin by (pose proof PI_RGT_0; lra).
  lra.
Qed.

Definition esum (nx ny nz : nat) (i j k : Z) : R := INR (incident nx ny nz i j k) * excess (PI / 2) (PI / 2) (PI / 2).

Definition flagged (nx ny nz : nat) (i j k : Z) : Prop := esum nx ny nz i j k < 4 * PI - 1 / 100000.

Definition on_boundary (nx ny nz : nat) (i j k : Z) : Prop :=
  (i = 0 \/ i = Z.of_nat nx \/ j = 0 \/ j = Z.of_nat ny \/ k = 0 \/ k = Z.of_nat nz)%Z.

Lemma small_count_flagged (c : nat) : (c <= 4)%nat -> INR c * (PI / 2) < 4 * PI - 1 / 100000.
Proof.
  intros Hc. pose proof PI2_3_2 as Hp.
  assert (INR c <= 4) by (replace 4 with (INR 4) by (simpl; lra); apply le_INR; exact Hc).
  assert (INR c * (PI / 2) <= 4 * (PI / 2)) by (apply Rmult_le_compat_r; lra).
  lra.
Qed.

Theorem flagged_iff_boundary nx ny nz i j k :
  (1 <= nx)%nat -> (1 <= ny)%nat -> (1 <= nz)%nat ->
  (0 <= i <= Z.of_nat nx)%Z -> (0 <= j <= Z.of_nat ny)%Z -> (0 <= k <= Z.of_nat nz)%Z ->
  flagged nx ny nz i j k <-> on_boundary nx ny nz i j k.
Proof.
  intros Hx Hy Hz Hi Hj Hk. unfold flagged, esum, on_boundary.
  rewrite orthogonal_corner_excess, incident_closed_form.
  destruct (inc1_range nx i Hx Hi) as [[Ei Bi]|[Ei Bi]], (inc1_range ny j Hy Hj) as [[Ej Bj]|[Ej Bj]],
    (inc1_range nz k Hz Hk) as [[Ek Bk]|[Ek Bk]]; rewrite Ei, Ej, Ek.
  8: { split.
       - intros H. exfalso. change (2 * 2 * 2)%nat with 8%nat in H.
         assert (E8 : INR 8 = 8) by (simpl; lra). rewrite E8 in H. lra.
       - intros H. lia. }
  all: split; [intros _; lia | intros _; apply small_count_flagged; cbn; lia].
Qed.

(* box cells (unequal edges): the code may report MORE than the orthogonal corner for a row (fall-back branch of `_solid_angle` for
   coplanar triples), never less, because the three edge neighbours are among the triples the maximum is taken over.  Whatever the
   per-row values are, a node all of whose eight cells contribute at least PI/2 is not flagged, and a node is flagged as soon as
   its sum stays below 4 PI - 1e-5 -- this is what the harness checks for box cells (lower bound by vm_compute + flag). *)
Theorem interior_not_flagged_from_lower_bound nx ny nz i j k (Es : R) :
  (1 <= nx)%nat -> (1 <= ny)%nat -> (1 <= nz)%nat ->
  (0 < i < Z.of_nat nx)%Z -> (0 < j < Z.of_nat ny)%Z -> (0 < k < Z.of_nat nz)%Z ->
  INR (incident nx ny nz i j k) * (PI / 2) <= Es -> ~ Es < 4 * PI - 1 / 100000.
Proof.
  intros Hx Hy Hz Hi Hj Hk Hlb. rewrite incident_closed_form in Hlb.
  destruct (inc1_range nx i Hx ltac:(lia)) as [[_ B]|[Ei _]]; [lia|].
  destruct (inc1_range ny j Hy ltac:(lia)) as [[_ B]|[Ej _]]; [lia|].
  destruct (inc1_range nz k Hz ltac:(lia)) as [[_ B]|[Ek _]]; [lia|].
  rewrite Ei, Ej, Ek in Hlb. change (2 * 2 * 2)%nat with 8%nat in Hlb.
  assert (E8 : INR 8 = 8) by (simpl; lra). rewrite E8 in Hlb. pose proof PI_RGT_0. lra.
Qed.

(* the hypotheses are satisfiable and both outcomes occur *)
Example flagged_examples :
  incident 3 2 2 0 1 1 = 4%nat /\ incident 3 2 2 1 1 1 = 8%nat /\ incident 3 2 2 3 2 0 = 1%nat /\ incident 1 1 1 1 0 1 = 1%nat.
Proof. repeat split; vm_compute; reflexivity. Qed.
