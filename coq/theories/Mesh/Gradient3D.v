(* Gradient3D (pylife/mesh/gradient.py): exactness of the shape-function gradient on linear fields.

   The element kernels are NOT transcribed here: PLgen.GenGradient is regenerated on every check run from
   Gradient3D._compute_gradient_hexahedral / _compute_gradient_simplex (incl. the helper closures
   dphi_a_dxi_j and the loops of _compute_gradient_*_single_node) by symbolic execution (harness/py2coq_sym.py).
   g3h_J_m / g3s_J_m : the matrix handed to the m-th np.linalg.inv call;
   g3h_row_k / g3s_row_k : the gradient written to row k of the element table, as a function of the
   coordinates, the nodal values and the nine entries of the matrix np.linalg.inv returned.
   np.linalg.inv is a Section variable with the contract  det A <> 0 -> A * inv A = I. *)
From Coq Require Import Reals Lra List.
From PL Require Import Common.RPrelude Mesh.Mat3.
From PLgen Require Import GenGradient.
Import ListNotations.
Open Scope R_scope.

Definition lin (g1 g2 g3 c a b d : R) : R := g1 * a + g2 * b + g3 * d + c.

(* goal  (e1, e2, e3) = (g1, g2, g3)  where H : mmul J V = I3 with J, V literal tuples *)
Ltac close_comp g1 g2 g3 Ha Hb Hc :=
  match type of Ha with ?la = _ => match type of Hb with ?lb = _ => match type of Hc with ?lc = _ =>
    transitivity (g1 * la + g2 * lb + g3 * lc); [unfold lin; ring | rewrite Ha, Hb, Hc; ring]
  end end end.

Ltac solve_exact :=
  match goal with
  | |- mmul ?J _ = I3 -> _ = (?g1, ?g2, ?g3) =>
      let H := fresh "H" in
      intros H; cbv beta iota delta [g3h_J_0 g3h_J_1 g3h_J_2 g3h_J_3 g3h_J_4 g3h_J_5 g3h_J_6 g3h_J_7 g3s_J_0] in H;
      apply mmul_I3_entries in H;
      destruct H as [[H11 [H12 H13]] [[H21 [H22 H23]] [H31 [H32 H33]]]];
      cbv beta iota delta [g3h_row_0 g3h_row_1 g3h_row_2 g3h_row_3 g3h_row_4 g3h_row_5 g3h_row_6 g3h_row_7
                           g3s_row_0 g3s_row_1 g3s_row_2 g3s_row_3];
      apply f_equal2; [apply f_equal2|];
      [close_comp g1 g2 g3 H11 H21 H31 | close_comp g1 g2 g3 H12 H22 H32 | close_comp g1 g2 g3 H13 H23 H33]
  end.

Section Hex.

Variables x11 x12 x13 x21 x22 x23 x31 x32 x33 x41 x42 x43 x51 x52 x53 x61 x62 x63 x71 x72 x73 x81 x82 x83 : R.

(* the matrix the source hands to np.linalg.inv for output row k *)
Definition hexJ (k : nat) : M33 :=
  match k with
  | 0%nat => g3h_J_0 x11 x12 x13 x21 x22 x23 x31 x32 x33 x41 x42 x43 x51 x52 x53 x61 x62 x63 x71 x72 x73 x81 x82 x83
  | 1%nat => g3h_J_1 x11 x12 x13 x21 x22 x23 x31 x32 x33 x41 x42 x43 x51 x52 x53 x61 x62 x63 x71 x72 x73 x81 x82 x83
  | 2%nat => g3h_J_2 x11 x12 x13 x21 x22 x23 x31 x32 x33 x41 x42 x43 x51 x52 x53 x61 x62 x63 x71 x72 x73 x81 x82 x83
  | 3%nat => g3h_J_3 x11 x12 x13 x21 x22 x23 x31 x32 x33 x41 x42 x43 x51 x52 x53 x61 x62 x63 x71 x72 x73 x81 x82 x83
  | 4%nat => g3h_J_4 x11 x12 x13 x21 x22 x23 x31 x32 x33 x41 x42 x43 x51 x52 x53 x61 x62 x63 x71 x72 x73 x81 x82 x83
  | 5%nat => g3h_J_5 x11 x12 x13 x21 x22 x23 x31 x32 x33 x41 x42 x43 x51 x52 x53 x61 x62 x63 x71 x72 x73 x81 x82 x83
  | 6%nat => g3h_J_6 x11 x12 x13 x21 x22 x23 x31 x32 x33 x41 x42 x43 x51 x52 x53 x61 x62 x63 x71 x72 x73 x81 x82 x83
  | _ => g3h_J_7 x11 x12 x13 x21 x22 x23 x31 x32 x33 x41 x42 x43 x51 x52 x53 x61 x62 x63 x71 x72 x73 x81 x82 x83
  end.

(* output row k as a function of the nodal values and of the matrix V returned by the inversion *)
Definition hexrow (k : nat) (f1 f2 f3 f4 f5 f6 f7 f8 : R) (V : M33) : V3 :=
  let '((v11, v12, v13), (v21, v22, v23), (v31, v32, v33)) := V in
  match k with
  | 0%nat => g3h_row_0 x11 x12 x13 x21 x22 x23 x31 x32 x33 x41 x42 x43 x51 x52 x53 x61 x62 x63 x71 x72 x73 x81 x82 x83 f1 f2 f3 f4 f5 f6 f7 f8 v11 v12 v13 v21 v22 v23 v31 v32 v33
  | 1%nat => g3h_row_1 x11 x12 x13 x21 x22 x23 x31 x32 x33 x41 x42 x43 x51 x52 x53 x61 x62 x63 x71 x72 x73 x81 x82 x83 f1 f2 f3 f4 f5 f6 f7 f8 v11 v12 v13 v21 v22 v23 v31 v32 v33
  | 2%nat => g3h_row_2 x11 x12 x13 x21 x22 x23 x31 x32 x33 x41 x42 x43 x51 x52 x53 x61 x62 x63 x71 x72 x73 x81 x82 x83 f1 f2 f3 f4 f5 f6 f7 f8 v11 v12 v13 v21 v22 v23 v31 v32 v33
  | 3%nat => g3h_row_3 x11 x12 x13 x21 x22 x23 x31 x32 x33 x41 x42 x43 x51 x52 x53 x61 x62 x63 x71 x72 x73 x81 x82 x83 f1 f2 f3 f4 f5 f6 f7 f8 v11 v12 v13 v21 v22 v23 v31 v32 v33
  | 4%nat => g3h_row_4 x11 x12 x13 x21 x22 x23 x31 x32 x33 x41 x42 x43 x51 x52 x53 x61 x62 x63 x71 x72 x73 x81 x82 x83 f1 f2 f3 f4 f5 f6 f7 f8 v11 v12 v13 v21 v22 v23 v31 v32 v33
  | 5%nat => g3h_row_5 x11 x12 x13 x21 x22 x23 x31 x32 x33 x41 x42 x43 x51 x52 x53 x61 x62 x63 x71 x72 x73 x81 x82 x83 f1 f2 f3 f4 f5 f6 f7 f8 v11 v12 v13 v21 v22 v23 v31 v32 v33
  | 6%nat => g3h_row_6 x11 x12 x13 x21 x22 x23 x31 x32 x33 x41 x42 x43 x51 x52 x53 x61 x62 x63 x71 x72 x73 x81 x82 x83 f1 f2 f3 f4 f5 f6 f7 f8 v11 v12 v13 v21 v22 v23 v31 v32 v33
  | _ => g3h_row_7 x11 x12 x13 x21 x22 x23 x31 x32 x33 x41 x42 x43 x51 x52 x53 x61 x62 x63 x71 x72 x73 x81 x82 x83 f1 f2 f3 f4 f5 f6 f7 f8 v11 v12 v13 v21 v22 v23 v31 v32 v33
  end.

(* exactness for ANY right inverse V of the Jacobian: a polynomial identity in the generated tables
   (sum_a dphi_a = 0 and sum_a dphi_a x_a = J are what `ring` checks here) *)
Lemma hex_exact_rightinv g1 g2 g3 c k V :
  mmul (hexJ k) V = I3 -> hexrow k (lin g1 g2 g3 c x11 x12 x13) (lin g1 g2 g3 c x21 x22 x23) (lin g1 g2 g3 c x31 x32 x33) (lin g1 g2 g3 c x41 x42 x43) (lin g1 g2 g3 c x51 x52 x53) (lin g1 g2 g3 c x61 x62 x63) (lin g1 g2 g3 c x71 x72 x73) (lin g1 g2 g3 c x81 x82 x83) V = (g1, g2, g3).
Proof.
  m33_destruct V.
  do 7 (destruct k as [|k]; [cbv beta iota delta [hexJ hexrow]; solve_exact|]). cbv beta iota delta [hexJ hexrow]; solve_exact.
Qed.

Variable inv : M33 -> M33.

Definition hex_gradient (k : nat) (f1 f2 f3 f4 f5 f6 f7 f8 : R) : V3 := hexrow k f1 f2 f3 f4 f5 f6 f7 f8 (inv (hexJ k)).

Theorem hex_linear_exact :
  (forall A, det3 A <> 0 -> mmul A (inv A) = I3) ->
  forall g1 g2 g3 c k, det3 (hexJ k) <> 0 ->
  hex_gradient k (lin g1 g2 g3 c x11 x12 x13) (lin g1 g2 g3 c x21 x22 x23) (lin g1 g2 g3 c x31 x32 x33) (lin g1 g2 g3 c x41 x42 x43) (lin g1 g2 g3 c x51 x52 x53) (lin g1 g2 g3 c x61 x62 x63) (lin g1 g2 g3 c x71 x72 x73) (lin g1 g2 g3 c x81 x82 x83) = (g1, g2, g3).
Proof. intros Hinv g1 g2 g3 c k Hd. unfold hex_gradient. apply hex_exact_rightinv. apply Hinv, Hd. Qed.

(* a constant field has zero gradient (special case g = 0) *)
Corollary hex_constant_zero :
  (forall A, det3 A <> 0 -> mmul A (inv A) = I3) ->
  forall c k, det3 (hexJ k) <> 0 -> hex_gradient k c c c c c c c c = (0, 0, 0).
Proof.
  intros Hinv c k Hd. generalize (hex_linear_exact Hinv 0 0 0 c k Hd). unfold lin.
  replace (0 * x11 + 0 * x12 + 0 * x13 + c) with c by ring.
  replace (0 * x21 + 0 * x22 + 0 * x23 + c) with c by ring.
  replace (0 * x31 + 0 * x32 + 0 * x33 + c) with c by ring.
  replace (0 * x41 + 0 * x42 + 0 * x43 + c) with c by ring.
  replace (0 * x51 + 0 * x52 + 0 * x53 + c) with c by ring.
  replace (0 * x61 + 0 * x62 + 0 * x63 + c) with c by ring.
  replace (0 * x71 + 0 * x72 + 0 * x73 + c) with c by ring.
  replace (0 * x81 + 0 * x82 + 0 * x83 + c) with c by ring.
  exact (fun H => H).
Qed.

End Hex.

Section Tet.

Variables x11 x12 x13 x21 x22 x23 x31 x32 x33 x41 x42 x43 : R.

(* the matrix the source hands to np.linalg.inv for output row k *)
Definition tetJ (k : nat) : M33 :=
  match k with
  | 0%nat => g3s_J_0 x11 x12 x13 x21 x22 x23 x31 x32 x33 x41 x42 x43
  | 1%nat => g3s_J_0 x11 x12 x13 x21 x22 x23 x31 x32 x33 x41 x42 x43
  | 2%nat => g3s_J_0 x11 x12 x13 x21 x22 x23 x31 x32 x33 x41 x42 x43
  | _ => g3s_J_0 x11 x12 x13 x21 x22 x23 x31 x32 x33 x41 x42 x43
  end.

(* output row k as a function of the nodal values and of the matrix V returned by the inversion *)
Definition tetrow (k : nat) (f1 f2 f3 f4 : R) (V : M33) : V3 :=
  let '((v11, v12, v13), (v21, v22, v23), (v31, v32, v33)) := V in
  match k with
  | 0%nat => g3s_row_0 x11 x12 x13 x21 x22 x23 x31 x32 x33 x41 x42 x43 f1 f2 f3 f4 v11 v12 v13 v21 v22 v23 v31 v32 v33
  | 1%nat => g3s_row_1 x11 x12 x13 x21 x22 x23 x31 x32 x33 x41 x42 x43 f1 f2 f3 f4 v11 v12 v13 v21 v22 v23 v31 v32 v33
  | 2%nat => g3s_row_2 x11 x12 x13 x21 x22 x23 x31 x32 x33 x41 x42 x43 f1 f2 f3 f4 v11 v12 v13 v21 v22 v23 v31 v32 v33
  | _ => g3s_row_3 x11 x12 x13 x21 x22 x23 x31 x32 x33 x41 x42 x43 f1 f2 f3 f4 v11 v12 v13 v21 v22 v23 v31 v32 v33
  end.

(* exactness for ANY right inverse V of the Jacobian: a polynomial identity in the generated tables
   (sum_a dphi_a = 0 and sum_a dphi_a x_a = J are what `ring` checks here) *)
Lemma tet_exact_rightinv g1 g2 g3 c k V :
  mmul (tetJ k) V = I3 -> tetrow k (lin g1 g2 g3 c x11 x12 x13) (lin g1 g2 g3 c x21 x22 x23) (lin g1 g2 g3 c x31 x32 x33) (lin g1 g2 g3 c x41 x42 x43) V = (g1, g2, g3).
Proof.
  m33_destruct V.
  do 3 (destruct k as [|k]; [cbv beta iota delta [tetJ tetrow]; solve_exact|]). cbv beta iota delta [tetJ tetrow]; solve_exact.
Qed.

Variable inv : M33 -> M33.

Definition tet_gradient (k : nat) (f1 f2 f3 f4 : R) : V3 := tetrow k f1 f2 f3 f4 (inv (tetJ k)).

Theorem tet_linear_exact :
  (forall A, det3 A <> 0 -> mmul A (inv A) = I3) ->
  forall g1 g2 g3 c k, det3 (tetJ k) <> 0 ->
  tet_gradient k (lin g1 g2 g3 c x11 x12 x13) (lin g1 g2 g3 c x21 x22 x23) (lin g1 g2 g3 c x31 x32 x33) (lin g1 g2 g3 c x41 x42 x43) = (g1, g2, g3).
Proof. intros Hinv g1 g2 g3 c k Hd. unfold tet_gradient. apply tet_exact_rightinv. apply Hinv, Hd. Qed.

(* a constant field has zero gradient (special case g = 0) *)
Corollary tet_constant_zero :
  (forall A, det3 A <> 0 -> mmul A (inv A) = I3) ->
  forall c k, det3 (tetJ k) <> 0 -> tet_gradient k c c c c = (0, 0, 0).
Proof.
  intros Hinv c k Hd. generalize (tet_linear_exact Hinv 0 0 0 c k Hd). unfold lin.
  replace (0 * x11 + 0 * x12 + 0 * x13 + c) with c by ring.
  replace (0 * x21 + 0 * x22 + 0 * x23 + c) with c by ring.
  replace (0 * x31 + 0 * x32 + 0 * x33 + c) with c by ring.
  replace (0 * x41 + 0 * x42 + 0 * x43 + c) with c by ring.
  exact (fun H => H).
Qed.

End Tet.

(* the contract of np.linalg.inv is satisfiable: the adjugate inverse meets it *)
Lemma inv3_meets_contract : forall A, det3 A <> 0 -> mmul A (inv3 A) = I3.
Proof. exact inv3_right. Qed.

(* the hypotheses are satisfiable: the unit cube / unit simplex have regular Jacobians at every node *)
Example hex_unit_cube_regular k : det3 (hexJ 0 0 0  1 0 0  1 1 0  0 1 0  0 0 1  1 0 1  1 1 1  0 1 1 k) <> 0.
Proof. do 7 (destruct k as [|k]; [cbv; lra|]). cbv; lra. Qed.
Example tet_unit_simplex_regular k : det3 (tetJ 0 0 0  1 0 0  0 1 0  0 0 1 k) <> 0.
Proof. do 3 (destruct k as [|k]; [cbv; lra|]). cbv; lra. Qed.

(* which rows the kernels write, how often they invert, what the untouched rows (mid-side nodes of
   quadratic elements) keep, and which kernel _compute_gradient selects for an element of n rows *)
Lemma hex_rows_written : g3h_rows = [0; 1; 2; 3; 4; 5; 6; 7]%nat /\ g3h_ninv = 8%nat /\ g3h_init = (0, 0, 0).
Proof. repeat split. Qed.
Lemma tet_rows_written : g3s_rows = [0; 1; 2; 3]%nat /\ g3s_ninv = 1%nat /\ g3s_init = (0, 0, 0).
Proof. repeat split. Qed.
(* 1 = hexahedral kernel, 2 = simplex kernel, 0 = neither (the source warns and returns zeros) *)
Lemma dispatch_by_row_count :
  g3k_table = [0; 0; 0; 0; 2; 0; 0; 0; 1; 0; 2; 0; 0; 0; 0; 0; 1; 0; 0; 0; 1; 0; 0; 0; 0]%nat.
Proof. reflexivity. Qed.
