(* Properties of the HotSpot model (PL.Mesh.HotSpot): the labelling computed by [calc] marks exactly the rows
   at or above the threshold, two such rows get the same label iff they are connected (equivalence closure of
   "shares node id or element id" among the rows above the threshold), labels are 1..K without gaps and are
   numbered by descending peak value.  All loops: the fuel passed by the model suffices. *)
From Coq Require Import ZArith List Bool Lia Arith.
From PL Require Import Mesh.HotSpot.
Import ListNotations.

Lemma lb_eqb_eq a b : lb_eqb a b = true <-> a = b.
Proof.
  revert b. induction a as [|x a IH]; destruct b as [|y b]; simpl; split; try congruence; try reflexivity.
  - intros H. apply andb_true_iff in H. destruct H as [H1 H2]. apply eqb_prop in H1. apply IH in H2. congruence.
  - intros H. injection H. intros. subst. rewrite eqb_reflx. simpl. apply IH. reflexivity.
Qed.

Lemma filter_len_le (P Q : nat -> bool) l :
  (forall x, In x l -> P x = true -> Q x = true) -> length (filter P l) <= length (filter Q l).
Proof.
  induction l as [|a l IH]; simpl; intros H; [lia|].
  assert (IH' := IH (fun x Hx => H x (or_intror Hx))).
  destruct (P a) eqn:Pa.
  - rewrite (H a (or_introl eq_refl) Pa). simpl. lia.
  - destruct (Q a); simpl; lia.
Qed.

Lemma filter_len_eq (P Q : nat -> bool) l :
  (forall x, In x l -> P x = true -> Q x = true) -> length (filter P l) = length (filter Q l) ->
  forall x, In x l -> P x = Q x.
Proof.
  induction l as [|a l IH]; simpl; intros H Hl x Hx; [contradiction|].
  assert (Hle := filter_len_le P Q l (fun x Hx => H x (or_intror Hx))).
  destruct (P a) eqn:Pa.
  - assert (Qa := H a (or_introl eq_refl) Pa). rewrite Qa in Hl. simpl in Hl.
    destruct Hx as [->|Hx]; [congruence|]. apply IH; auto.
  - destruct (Q a) eqn:Qa; simpl in Hl.
    + lia.
    + destruct Hx as [->|Hx]; [congruence|]. apply IH; auto.
Qed.

Lemma filter_len_le_all (P : nat -> bool) l : length (filter P l) <= length l.
Proof. induction l; simpl; [lia|]. destruct (P a); simpl; lia. Qed.

Section Spec.
Variable E : list entry.

Notation n := (n E).
Notation get := HotSpot.get.
Notation getl := HotSpot.getl.
Notation tab := (tab E).
Notation adjb := (adjb E).
Notation val := (val E).
Notation step := (step E).
Notation grow := (grow E).
Notation members := (members E).
Notation ent := (ent E).

(* ---------- tabulated sets *)
Lemma length_tab f : length (tab f) = n.
Proof. unfold HotSpot.tab. rewrite map_length, seq_length. reflexivity. Qed.

Lemma get_tab f i : i < n -> get (tab f) i = f i.
Proof.
  intros H. unfold HotSpot.get, HotSpot.tab.
  rewrite (nth_indep _ false (f 0)) by (rewrite map_length, seq_length; exact H).
  rewrite map_nth. rewrite seq_nth by exact H. reflexivity.
Qed.

Lemma get_out s i : length s = n -> n <= i -> get s i = false.
Proof. intros L H. unfold HotSpot.get. apply nth_overflow. lia. Qed.

Lemma set_ext a b : length a = n -> length b = n -> (forall i, i < n -> get a i = get b i) -> a = b.
Proof. intros La Lb H. apply (nth_ext a b false false); [congruence|]. intros i Hi. apply H. lia. Qed.

Lemma adjb_sym i j : adjb i j = adjb j i.
Proof. unfold HotSpot.adjb, adj. rewrite (Z.eqb_sym (e_el _)), (Z.eqb_sym (e_nd _)). reflexivity. Qed.

Lemma touches_iff s i :
  existsb (adj (ent i)) (members s) = true <-> exists j, j < n /\ get s j = true /\ adjb i j = true.
Proof.
  rewrite existsb_exists. unfold HotSpot.members. split.
  - intros [e [He Ha]]. apply in_map_iff in He. destruct He as [j [<- Hj]]. apply filter_In in Hj.
    destruct Hj as [Hj Hs]. apply in_seq in Hj. exists j. repeat split; [lia|assumption|exact Ha].
  - intros [j [Hj [Hs Ha]]]. exists (ent j). split; [|exact Ha]. apply in_map. apply filter_In. split; [|assumption].
    apply in_seq. lia.
Qed.

Lemma get_step rem hs i : i < n ->
  get (step rem hs) i = get hs i || (get rem i && existsb (adj (ent i)) (members hs)).
Proof. intros H. unfold HotSpot.step. cbv zeta. rewrite get_tab by exact H. reflexivity. Qed.

(* ---------- predicates on sets *)
Definition sub (a b : list bool) : Prop := forall i, i < n -> get a i = true -> get b i = true.
Definition closed (rem hs : list bool) : Prop :=
  forall i j, i < n -> j < n -> get hs i = true -> get rem j = true -> adjb i j = true -> get hs j = true.

(* connectedness = equivalence closure of adjacency among the rows of S *)
Inductive conn (S : list bool) : nat -> nat -> Prop :=
| conn_refl a : a < n -> get S a = true -> conn S a a
| conn_adj a b : a < n -> b < n -> get S a = true -> get S b = true -> adjb a b = true -> conn S a b
| conn_sym a b : conn S a b -> conn S b a
| conn_trans a b c : conn S a b -> conn S b c -> conn S a c.

Lemma conn_in S a b : conn S a b -> (a < n /\ get S a = true) /\ (b < n /\ get S b = true).
Proof. induction 1; intuition. Qed.

Lemma conn_sub S T a b : sub S T -> conn S a b -> conn T a b.
Proof.
  intros H. induction 1.
  - apply conn_refl; auto.
  - apply conn_adj; auto.
  - apply conn_sym; auto.
  - eapply conn_trans; eauto.
Qed.

Definition cnt (s : list bool) : nat := length (filter (get s) (seq 0 n)).

Lemma cnt_le s : cnt s <= n.
Proof. unfold cnt. etransitivity; [apply filter_len_le_all|]. rewrite seq_length. lia. Qed.

Lemma cnt_mono a b : sub a b -> cnt a <= cnt b.
Proof. intros H. apply filter_len_le. intros x Hx. apply in_seq in Hx. apply H. lia. Qed.

Lemma cnt_eq_same a b : sub a b -> cnt a = cnt b -> forall i, i < n -> get a i = get b i.
Proof.
  intros H Hc i Hi. apply (filter_len_eq (get a) (get b) (seq 0 n)); auto.
  - intros x Hx. apply in_seq in Hx. apply H. lia.
  - apply in_seq. lia.
Qed.

Lemma cnt_pos s i : i < n -> get s i = true -> 1 <= cnt s.
Proof.
  intros Hi Hs. unfold cnt. assert (In i (filter (get s) (seq 0 n))) by (apply filter_In; split; [apply in_seq; lia|assumption]).
  destruct (filter (get s) (seq 0 n)); [contradiction|simpl; lia].
Qed.

(* ---------- one sweep *)
Lemma length_step rem hs : length (step rem hs) = n.
Proof. apply length_tab. Qed.

Lemma step_sub rem hs : sub hs (step rem hs).
Proof. intros i Hi H. rewrite get_step by exact Hi. rewrite H. reflexivity. Qed.

Lemma step_in_rem rem hs : sub hs rem -> sub (step rem hs) rem.
Proof.
  intros H i Hi. rewrite get_step by exact Hi. intros G. apply orb_true_iff in G. destruct G as [G|G]; [auto|].
  apply andb_true_iff in G. tauto.
Qed.

Lemma step_conn rem hs s :
  sub hs rem -> (forall i, i < n -> get hs i = true -> conn rem s i) ->
  forall i, i < n -> get (step rem hs) i = true -> conn rem s i.
Proof.
  intros Hsub H i Hi. rewrite get_step by exact Hi. intros G. apply orb_true_iff in G. destruct G as [G|G]; [auto|].
  apply andb_true_iff in G. destruct G as [Gr Gt]. apply touches_iff in Gt. destruct Gt as [j [Hj [Hs Ha]]].
  eapply conn_trans; [apply (H j Hj Hs)|]. apply conn_adj; auto. rewrite adjb_sym. exact Ha.
Qed.

Lemma step_fix_closed rem hs : step rem hs = hs -> closed rem hs.
Proof.
  intros Hfix i j Hi Hj Hsi Hrj Ha. rewrite <- Hfix. rewrite get_step by exact Hj.
  rewrite Hrj. simpl. apply orb_true_iff. right. apply touches_iff. exists i. rewrite adjb_sym. auto.
Qed.

(* ---------- region growing: fuel n suffices to reach the fixpoint *)
Lemma grow_length fuel rem hs : length hs = n -> length (grow fuel rem hs) = n.
Proof.
  revert hs. induction fuel as [|f IH]; simpl; intros hs L; [exact L|].
  destruct (lb_eqb (step rem hs) hs); [exact L|]. apply IH. apply length_step.
Qed.

Lemma grow_inv (P : list bool -> Prop) fuel rem hs :
  (forall h, P h -> P (step rem h)) -> P hs -> P (grow fuel rem hs).
Proof.
  intros HP. revert hs. induction fuel as [|f IH]; simpl; intros hs H; [exact H|].
  destruct (lb_eqb (step rem hs) hs); [exact H|]. apply IH. apply HP. exact H.
Qed.

Lemma grow_fix fuel rem hs :
  length hs = n -> n < cnt hs + fuel -> step rem (grow fuel rem hs) = grow fuel rem hs.
Proof.
  revert hs. induction fuel as [|f IH]; simpl; intros hs L Hc.
  - pose proof (cnt_le hs). lia.
  - destruct (lb_eqb (step rem hs) hs) eqn:Eq.
    + apply lb_eqb_eq in Eq. exact Eq.
    + apply IH; [apply length_step|].
      assert (cnt hs <= cnt (step rem hs)) by (apply cnt_mono, step_sub).
      assert (cnt hs <> cnt (step rem hs)).
      { intros Heq. assert (step rem hs = hs).
        { apply set_ext; [apply length_step|exact L|]. intros i Hi. symmetry. apply cnt_eq_same; auto. apply step_sub. }
        apply lb_eqb_eq in H0. congruence. }
      lia.
Qed.

Notation single := (single E).
Notation hs_sel := (hs_sel E).

Lemma get_single s i : i < n -> get (single s) i = (i =? s).
Proof. intros H. unfold HotSpot.single. rewrite get_tab by exact H. reflexivity. Qed.

Section Sel.
Variables (rem : list bool) (s : nat).
Hypothesis Hs : s < n.
Hypothesis Hrs : get rem s = true.

Lemma sel_length : length (hs_sel rem s) = n.
Proof. apply grow_length. apply length_tab. Qed.

Lemma sel_seed : get (hs_sel rem s) s = true.
Proof.
  unfold HotSpot.hs_sel. apply (grow_inv (fun h => get h s = true)).
  - intros h H. apply step_sub; assumption.
  - rewrite get_single by exact Hs. apply Nat.eqb_refl.
Qed.

Lemma single_sub : sub (single s) rem.
Proof. intros i Hi. rewrite get_single by exact Hi. intros H. apply Nat.eqb_eq in H. subst. exact Hrs. Qed.

Lemma sel_sub : sub (hs_sel rem s) rem.
Proof. unfold HotSpot.hs_sel. apply (grow_inv (fun h => sub h rem)); [apply step_in_rem|apply single_sub]. Qed.

Lemma sel_conn i : i < n -> get (hs_sel rem s) i = true -> conn rem s i.
Proof.
  revert i. unfold HotSpot.hs_sel.
  apply (grow_inv (fun h => sub h rem /\ forall i, i < n -> get h i = true -> conn rem s i)).
  - intros h [H1 H2]. split; [apply step_in_rem, H1|apply step_conn; assumption].
  - split; [apply single_sub|]. intros i Hi. rewrite get_single by exact Hi. intros H. apply Nat.eqb_eq in H. subst.
    apply conn_refl; assumption.
Qed.

Lemma sel_closed : closed rem (hs_sel rem s).
Proof.
  apply step_fix_closed. unfold HotSpot.hs_sel. apply grow_fix; [apply length_tab|].
  assert (1 <= cnt (single s)).
  { apply (cnt_pos _ s Hs). rewrite get_single by exact Hs. apply Nat.eqb_refl. }
  lia.
Qed.

(* membership of the selected hot spot is invariant along connections inside [rem] *)
Lemma sel_conn_closed a b : conn rem a b -> (get (hs_sel rem s) a = true <-> get (hs_sel rem s) b = true).
Proof.
  induction 1.
  - tauto.
  - split; intros G.
    + apply (sel_closed a b); auto.
    + apply (sel_closed b a); auto. rewrite adjb_sym. assumption.
  - tauto.
  - tauto.
Qed.

(* hence the selected hot spot is exactly the connected component of the seed inside [rem] *)
Lemma sel_is_component i : i < n -> (get (hs_sel rem s) i = true <-> conn rem s i).
Proof.
  intros Hi. split; [apply sel_conn, Hi|]. intros C. apply (sel_conn_closed s i C). apply sel_seed.
Qed.

End Sel.

(* ---------- idxmax over the remaining rows *)
Definition amf (rem : list bool) (acc : option nat) (i : nat) : option nat :=
  if get rem i then match acc with
                    | None => Some i
                    | Some b => if (val b <? val i)%Z then Some i else Some b
                    end
  else acc.

Lemma argmax_fold rem l acc :
  match acc with Some b => b < n /\ get rem b = true | None => True end ->
  (forall i, In i l -> i < n) ->
  match fold_left (amf rem) l acc with
  | None => acc = None /\ forall i, In i l -> get rem i = false
  | Some s => s < n /\ get rem s = true /\ (forall i, In i l -> get rem i = true -> (val i <= val s)%Z) /\
              (forall b, acc = Some b -> (val b <= val s)%Z)
  end.
Proof.
  revert acc. induction l as [|a l IH]; intros acc Hacc Hl; simpl.
  - destruct acc as [b|]; [|split; [reflexivity|intros i []]].
    destruct Hacc. repeat split; auto. + intros i []. + intros b' Hb. injection Hb. intros ->. lia.
  - assert (Ha : a < n) by (apply Hl; left; reflexivity).
    assert (Hl' : forall i, In i l -> i < n) by (intros i Hi; apply Hl; right; exact Hi).
    unfold amf at 2. destruct (get rem a) eqn:Ra.
    + destruct acc as [b|].
      * destruct (val b <? val a)%Z eqn:Lt.
        -- specialize (IH (Some a) (conj Ha Ra) Hl'). destruct (fold_left (amf rem) l (Some a)) as [s|].
           ++ destruct IH as [I1 [I2 [I3 I4]]]. repeat split; auto.
              ** intros i [<-|Hi] Hr; [apply I4; reflexivity|apply I3; assumption].
              ** intros b' Hb. injection Hb. intros <-. apply Z.ltb_lt in Lt. specialize (I4 a eq_refl). lia.
           ++ destruct IH as [I1 _]. discriminate.
        -- specialize (IH (Some b) Hacc Hl'). destruct (fold_left (amf rem) l (Some b)) as [s|].
           ++ destruct IH as [I1 [I2 [I3 I4]]]. repeat split; auto.
              ** intros i [<-|Hi] Hr; [|apply I3; assumption]. apply Z.ltb_ge in Lt. specialize (I4 b eq_refl). lia.
           ++ destruct IH as [I1 _]. discriminate.
      * specialize (IH (Some a) (conj Ha Ra) Hl'). destruct (fold_left (amf rem) l (Some a)) as [s|].
        -- destruct IH as [I1 [I2 [I3 I4]]]. repeat split; auto.
           ++ intros i [<-|Hi] Hr; [apply I4; reflexivity|apply I3; assumption].
           ++ intros b' Hb. discriminate.
        -- destruct IH as [I1 _]. discriminate.
    + specialize (IH acc Hacc Hl'). destruct (fold_left (amf rem) l acc) as [s|].
      * destruct IH as [I1 [I2 [I3 I4]]]. repeat split; auto.
        intros i [<-|Hi] Hr; [congruence|apply I3; assumption].
      * destruct IH as [I1 I2]. split; [exact I1|]. intros i [<-|Hi]; [exact Ra|apply I2; exact Hi].
Qed.

Lemma argmax_none rem : argmax E rem = None -> forall i, i < n -> get rem i = false.
Proof.
  intros H i Hi. pose proof (argmax_fold rem (seq 0 n) None I (fun i Hi => proj2 (proj1 (in_seq _ _ _) Hi))) as A.
  change (fold_left (amf rem) (seq 0 n) None) with (argmax E rem) in A. rewrite H in A. apply A. apply in_seq. lia.
Qed.

Lemma argmax_some rem s : argmax E rem = Some s ->
  s < n /\ get rem s = true /\ forall i, i < n -> get rem i = true -> (val i <= val s)%Z.
Proof.
  intros H. pose proof (argmax_fold rem (seq 0 n) None I (fun i Hi => proj2 (proj1 (in_seq _ _ _) Hi))) as A.
  change (fold_left (amf rem) (seq 0 n) None) with (argmax E rem) in A. rewrite H in A.
  destruct A as [A1 [A2 [A3 _]]]. repeat split; auto. intros i Hi. apply A3. apply in_seq. lia.
Qed.

(* ---------- the outer loop *)
Section Loop.
Variable A : list bool.            (* rows at or above the threshold *)
Hypothesis LA : length A = n.

Record Inv (rem : list bool) (lab : list nat) (k : nat) : Prop := {
  inv_k : 1 <= k;
  inv_lrem : length rem = n;
  inv_llab : length lab = n;
  inv_rem : forall i, i < n -> get rem i = true -> get A i = true /\ getl lab i = 0;
  inv_cover : forall i, i < n -> get A i = true -> get rem i = true \/ getl lab i <> 0;
  inv_lab : forall i, i < n -> getl lab i <> 0 -> get A i = true /\ 1 <= getl lab i < k;
  inv_comp : forall i j, i < n -> j < n -> getl lab i <> 0 -> (getl lab j = getl lab i <-> conn A i j);
  inv_peak : forall m, 1 <= m < k -> exists i', i' < n /\ getl lab i' = m /\
               forall j, j < n -> (get rem j = true \/ m < getl lab j) -> (val j <= val i')%Z
}.

Lemma getl_relabel hs lab k i : i < n ->
  getl (map (fun i => if get hs i then k else getl lab i) (seq 0 n)) i = if get hs i then k else getl lab i.
Proof.
  intros H. unfold HotSpot.getl at 1. set (F := fun i0 => if get hs i0 then k else getl lab i0).
  rewrite (nth_indep _ 0 (F 0)) by (rewrite map_length, seq_length; exact H).
  rewrite (map_nth F). rewrite seq_nth by exact H. reflexivity.
Qed.

(* the remaining rows are closed under adjacency among the rows above the threshold *)
Lemma rem_closed rem lab k : Inv rem lab k ->
  forall i j, i < n -> j < n -> get rem i = true -> get A j = true -> adjb i j = true -> get rem j = true.
Proof.
  intros I i j Hi Hj Ri Aj Ha. destruct (inv_cover _ _ _ I j Hj Aj) as [R|L]; [exact R|exfalso].
  destruct (inv_rem _ _ _ I i Hi Ri) as [Ai Li].
  assert (C : conn A j i) by (apply conn_adj; auto; rewrite adjb_sym; exact Ha).
  apply (inv_comp _ _ _ I j i Hj Hi L) in C. congruence.
Qed.

Lemma conn_rem rem lab k : Inv rem lab k ->
  forall a b, conn A a b -> (get rem a = true <-> get rem b = true) /\ (get rem a = true -> conn rem a b).
Proof.
  intros I a b C. induction C.
  - split; [tauto|]. intros R. apply conn_refl; assumption.
  - split; [split; intros R|intros R].
    + apply (rem_closed _ _ _ I a b); auto.
    + apply (rem_closed _ _ _ I b a); auto. rewrite adjb_sym. assumption.
    + apply conn_adj; auto. apply (rem_closed _ _ _ I a b); auto.
  - destruct IHC as [H1 H2]. split; [tauto|]. intros R. apply conn_sym. apply H2. tauto.
  - destruct IHC1 as [H1 H2], IHC2 as [H3 H4]. split; [tauto|]. intros R. eapply conn_trans; [apply H2, R|apply H4; tauto].
Qed.

Lemma inv_step rem lab k s : Inv rem lab k -> argmax E rem = Some s ->
  let hs := hs_sel rem s in
  Inv (tab (fun i => xorb (get rem i) (get hs i))) (map (fun i => if get hs i then k else getl lab i) (seq 0 n)) (S k).
Proof.
  intros I Hm hs. apply argmax_some in Hm. destruct Hm as [Hs [Rs Hmax]].
  assert (SUB : forall i, i < n -> get hs i = true -> get rem i = true) by (apply sel_sub; assumption).
  assert (SEED : get hs s = true) by (apply sel_seed; assumption).
  assert (SCN : forall i, i < n -> get hs i = true -> conn rem s i) by (intros; apply sel_conn; assumption).
  assert (SCC : forall a b, conn rem a b -> (get hs a = true <-> get hs b = true)) by (intros; apply sel_conn_closed; assumption).
  assert (REMA : sub rem A) by (intros i Hi R; apply (inv_rem _ _ _ I i Hi R)).
  assert (XR : forall i, i < n -> get (tab (fun i => xorb (get rem i) (get hs i))) i = true -> get rem i = true /\ get hs i = false).
  { intros i Hi. rewrite get_tab by exact Hi. destruct (get hs i) eqn:H1, (get rem i) eqn:H2; simpl; try discriminate; auto.
    rewrite (SUB i Hi H1) in H2. discriminate. }
  assert (K := inv_k _ _ _ I).
  assert (NOLAB : forall i, i < n -> getl lab i <> 0 -> get hs i = false).
  { intros i Hi L. destruct (get hs i) eqn:H1; [|reflexivity]. apply SUB in H1; [|exact Hi].
    destruct (inv_rem _ _ _ I i Hi H1). congruence. }
  constructor.
  - lia.
  - apply length_tab.
  - rewrite map_length, seq_length. reflexivity.
  - intros i Hi X. destruct (XR i Hi X) as [R H]. rewrite getl_relabel by exact Hi. rewrite H.
    apply (inv_rem _ _ _ I i Hi R).
  - intros i Hi Ai. rewrite getl_relabel by exact Hi. rewrite get_tab by exact Hi.
    destruct (get hs i) eqn:H; [right; lia|]. destruct (inv_cover _ _ _ I i Hi Ai) as [R|L]; [left|right; exact L].
    rewrite R. reflexivity.
  - intros i Hi. rewrite getl_relabel by exact Hi. destruct (get hs i) eqn:H.
    + intros _. split; [|lia]. apply REMA; auto.
    + intros L. destruct (inv_lab _ _ _ I i Hi L). split; [assumption|lia].
  - intros i j Hi Hj. rewrite !getl_relabel by assumption. destruct (get hs i) eqn:H1.
    + intros _. assert (Ri := SUB i Hi H1).
      assert (EQ : (if get hs j then k else getl lab j) = k <-> get hs j = true).
      { destruct (get hs j) eqn:H2; [tauto|]. split; [|discriminate]. intros L.
        assert (getl lab j <> 0) by lia. destruct (inv_lab _ _ _ I j Hj H). lia. }
      rewrite EQ. split.
      * intros H2. apply (conn_sub rem A); [exact REMA|].
        eapply conn_trans; [apply conn_sym; apply (SCN i Hi H1)|apply (SCN j Hj H2)].
      * intros C. destruct (conn_rem _ _ _ I i j C) as [_ C']. apply (SCC i j (C' Ri)). exact H1.
    + intros L. destruct (get hs j) eqn:H2.
      * destruct (inv_lab _ _ _ I i Hi L). split; [lia|]. intros C. exfalso.
        assert (Rj := SUB j Hj H2). destruct (conn_rem _ _ _ I j i (conn_sym _ _ _ C)) as [_ C'].
        apply (SCC j i (C' Rj)) in H2. congruence.
      * apply (inv_comp _ _ _ I i j Hi Hj L).
  - intros m Hm. destruct (Nat.eq_dec m k) as [->|Hne].
    + exists s. split; [exact Hs|]. rewrite getl_relabel by exact Hs. rewrite SEED. split; [reflexivity|].
      intros j Hj [X|X].
      * destruct (XR j Hj X) as [R _]. apply Hmax; assumption.
      * rewrite getl_relabel in X by exact Hj. destruct (get hs j); [lia|].
        destruct (Nat.eq_dec (getl lab j) 0) as [Z|NZ]; [lia|]. destruct (inv_lab _ _ _ I j Hj NZ). lia.
    + destruct (inv_peak _ _ _ I m ltac:(lia)) as [i' [Hi' [Li' P]]]. exists i'. split; [exact Hi'|].
      rewrite getl_relabel by exact Hi'. rewrite (NOLAB i' Hi') by lia. split; [exact Li'|].
      intros j Hj [X|X].
      * destruct (XR j Hj X) as [R _]. apply P; auto.
      * rewrite getl_relabel in X by exact Hj. destruct (get hs j) eqn:H2; apply P; auto.
Qed.

(* each round removes at least the seed from the remaining rows *)
Lemma step_decreases rem lab k s : Inv rem lab k -> argmax E rem = Some s ->
  cnt (tab (fun i => xorb (get rem i) (get (hs_sel rem s) i))) < cnt rem.
Proof.
  intros I Hm. apply argmax_some in Hm. destruct Hm as [Hs [Rs _]].
  set (r' := tab _).
  assert (S1 : sub r' rem).
  { intros i Hi. unfold r'. rewrite get_tab by exact Hi.
    assert (SUB : sub (hs_sel rem s) rem) by (apply sel_sub; assumption).
    destruct (get rem i) eqn:R; [reflexivity|]. destruct (get (hs_sel rem s) i) eqn:G; simpl; [|discriminate].
    intros _. pose proof (SUB i Hi G). congruence. }
  assert (cnt r' <= cnt rem) by (apply cnt_mono, S1).
  assert (cnt r' <> cnt rem).
  { intros Heq. pose proof (cnt_eq_same _ _ S1 Heq s Hs) as X. unfold r' in X. rewrite get_tab in X by exact Hs.
    assert (SEED : get (hs_sel rem s) s = true) by (apply sel_seed; assumption). rewrite Rs, SEED in X. discriminate. }
  lia.
Qed.

Lemma loop_inv fuel : forall rem lab k, Inv rem lab k -> cnt rem < fuel ->
  exists rem' k', Inv rem' (loop E fuel rem lab k) k' /\ forall i, i < n -> get rem' i = false.
Proof.
  induction fuel as [|f IH]; intros rem lab k I Hc; [lia|]. simpl.
  destruct (argmax E rem) as [s|] eqn:Hm.
  - apply IH; [apply inv_step; assumption|]. pose proof (step_decreases _ _ _ _ I Hm). lia.
  - exists rem, k. split; [exact I|]. apply argmax_none. exact Hm.
Qed.

Lemma getl_repeat0 i : getl (repeat 0 n) i = 0.
Proof. unfold HotSpot.getl. destruct (Nat.lt_ge_cases i n); [apply nth_repeat|apply nth_overflow; rewrite repeat_length; lia]. Qed.

Lemma inv_init : Inv A (repeat 0 n) 1.
Proof.
  constructor; auto.
  - apply repeat_length.
  - intros i Hi H. split; [exact H|apply getl_repeat0].
  - intros i Hi. rewrite getl_repeat0. congruence.
  - intros i j Hi Hj. rewrite getl_repeat0. congruence.
  - intros m Hm. lia.
Qed.

Definition labels : list nat := loop E (S n) A (repeat 0 n) 1.

Lemma labels_final : exists rem' k', Inv rem' labels k' /\ forall i, i < n -> get rem' i = false.
Proof. apply loop_inv; [apply inv_init|]. pose proof (cnt_le A). lia. Qed.

Theorem labels_threshold_exact i : i < n -> (getl labels i <> 0 <-> get A i = true).
Proof.
  destruct labels_final as [rem' [k' [I Hempty]]]. intros Hi. split.
  - intros L. apply (inv_lab _ _ _ I i Hi L).
  - intros Ai. destruct (inv_cover _ _ _ I i Hi Ai) as [R|L]; [|exact L]. rewrite Hempty in R by exact Hi. discriminate.
Qed.

Theorem labels_are_components i j : i < n -> j < n -> get A i = true -> get A j = true ->
  (getl labels i = getl labels j <-> conn A i j).
Proof.
  intros Hi Hj Ai Aj. pose proof (proj2 (labels_threshold_exact i Hi) Ai) as Li.
  destruct labels_final as [rem' [k' [I _]]]. rewrite <- (inv_comp _ _ _ I i j Hi Hj Li). split; congruence.
Qed.

(* labels are 1..K without gaps; a smaller label means a peak at least as high as every value under a larger label *)
Theorem labels_numbered_by_descending_peak i : i < n -> get A i = true ->
  forall m, 1 <= m <= getl labels i ->
  exists i', i' < n /\ getl labels i' = m /\ forall j, j < n -> m < getl labels j -> (val j <= val i')%Z.
Proof.
  intros Hi Ai m Hm. pose proof (proj2 (labels_threshold_exact i Hi) Ai) as Li.
  destruct labels_final as [rem' [k' [I _]]]. destruct (inv_lab _ _ _ I i Hi Li) as [_ B].
  destruct (inv_peak _ _ _ I m ltac:(lia)) as [i' [Hi' [Li' P]]]. exists i'. repeat split; auto.
Qed.

End Loop.

(* ---------- the threshold: max of the (considered) values *)
Definition mvf (art : option Z) (acc : option Z) (i : nat) : option Z :=
  if considered E art i then match acc with None => Some (val i) | Some m => Some (Z.max m (val i)) end else acc.

Lemma maxval_fold art l acc :
  match fold_left (mvf art) l acc with
  | None => acc = None /\ forall i, In i l -> considered E art i = false
  | Some m => (acc = Some m \/ exists j, In j l /\ considered E art j = true /\ val j = m) /\
              (forall j, In j l -> considered E art j = true -> (val j <= m)%Z) /\
              (forall b, acc = Some b -> (b <= m)%Z)
  end.
Proof.
  revert acc. induction l as [|a l IH]; intros acc; simpl.
  - destruct acc as [b|]; [|split; [reflexivity|intros i []]]. split; [left; reflexivity|]. split; [intros j []|].
    intros b' Hb. injection Hb. intros ->. lia.
  - specialize (IH (mvf art acc a)). destruct (fold_left (mvf art) l (mvf art acc a)) as [m|].
    + destruct IH as [I1 [I2 I3]]. unfold mvf in I1, I3. destruct (considered E art a) eqn:Ca.
      * assert (Ha : (val a <= m)%Z).
        { destruct acc as [b|]; [specialize (I3 _ eq_refl); lia|specialize (I3 _ eq_refl); lia]. }
        split; [|split].
        -- destruct I1 as [I1|[j [J1 [J2 J3]]]]; [|right; exists j; auto].
           destruct acc as [b|]; injection I1; intros I1'.
           ++ destruct (Z.max_spec b (val a)) as [[_ M]|[_ M]]; rewrite M in I1'.
              ** right. exists a. auto.
              ** left. congruence.
           ++ right. exists a. auto.
        -- intros j [<-|Hj] Cj; [exact Ha|apply I2; assumption].
        -- intros b Hb. subst acc. specialize (I3 _ eq_refl). lia.
      * split; [|split].
        -- destruct I1 as [I1|[j [J1 [J2 J3]]]]; [left; exact I1|right; exists j; auto].
        -- intros j [<-|Hj] Cj; [congruence|apply I2; assumption].
        -- exact I3.
    + destruct IH as [I1 I2]. unfold mvf in I1. destruct (considered E art a) eqn:Ca.
      * destruct acc; discriminate.
      * split; [exact I1|]. intros i [<-|Hi]; [exact Ca|apply I2; exact Hi].
Qed.

Lemma maxval_some art m : maxval E art = Some m ->
  (exists j, j < n /\ considered E art j = true /\ val j = m) /\
  (forall j, j < n -> considered E art j = true -> (val j <= m)%Z).
Proof.
  intros H. pose proof (maxval_fold art (seq 0 n) None) as A.
  change (fold_left (mvf art) (seq 0 n) None) with (maxval E art) in A. rewrite H in A. destruct A as [A1 [A2 _]]. split.
  - destruct A1 as [A1|[j [J1 J2]]]; [discriminate|]. exists j. split; [apply in_seq in J1; lia|exact J2].
  - intros j Hj. apply A2. apply in_seq. lia.
Qed.

Lemma maxval_none art : maxval E art = None -> forall j, j < n -> considered E art j = false.
Proof.
  intros H j Hj. pose proof (maxval_fold art (seq 0 n) None) as A.
  change (fold_left (mvf art) (seq 0 n) None) with (maxval E art) in A. rewrite H in A. apply A. apply in_seq. lia.
Qed.

Lemma length_above p q art : length (above E p q art) = n.
Proof. unfold above. destruct (maxval E art); apply length_tab. Qed.

(* a row is "above" iff a maximum M of the considered values exists and  p * M <= q * value  (value >= p/q * M) *)
Theorem above_exact p q art i : i < n ->
  (get (above E p q art) i = true <->
   exists M, (exists j, j < n /\ considered E art j = true /\ val j = M) /\
             (forall j, j < n -> considered E art j = true -> (val j <= M)%Z) /\ (p * M <= q * val i)%Z).
Proof.
  intros Hi. unfold above. destruct (maxval E art) as [m|] eqn:Hm.
  - rewrite get_tab by exact Hi. destruct (maxval_some art m Hm) as [M1 M2]. split.
    + intros H. apply Z.leb_le in H. exists m. auto.
    + intros [M [[j [J1 [J2 J3]]] [N2 N3]]]. apply Z.leb_le. destruct M1 as [j' [J1' [J2' J3']]].
      assert (HM : M = m) by (pose proof (M2 j J1 J2); pose proof (N2 j' J1' J2'); lia). rewrite <- HM. exact N3.
  - rewrite get_tab by exact Hi. split; [discriminate|]. intros [M [[j [J1 [J2 J3]]] _]].
    rewrite (maxval_none art Hm j J1) in J2. discriminate.
Qed.

Lemma calc_labels p q art : calc E p q art = labels (above E p q art).
Proof. reflexivity. Qed.

Theorem calc_threshold_exact p q art i : i < n ->
  (getl (calc E p q art) i <> 0 <-> get (above E p q art) i = true).
Proof. apply labels_threshold_exact. apply length_above. Qed.

Theorem calc_labels_are_components p q art i j : i < n -> j < n ->
  get (above E p q art) i = true -> get (above E p q art) j = true ->
  (getl (calc E p q art) i = getl (calc E p q art) j <-> conn (above E p q art) i j).
Proof. apply labels_are_components. apply length_above. Qed.

Theorem calc_numbered_by_descending_peak p q art i : i < n -> get (above E p q art) i = true ->
  forall m, 1 <= m <= getl (calc E p q art) i ->
  exists i', i' < n /\ getl (calc E p q art) i' = m /\
             forall j, j < n -> m < getl (calc E p q art) j -> (val j <= val i')%Z.
Proof. apply labels_numbered_by_descending_peak. apply length_above. Qed.

End Spec.
