(* Gradient (pylife/mesh/gradient.py, accessor `gradient`): least-squares plane through the neighbour nodes.

   Model of Gradient._calc_lst_sqr from the node table onward (the table is what
   groupby('node_id') yields: one row per node id in ascending id order, coordinates of the first occurrence,
   mean of the value column; the neighbour ids are what _find_neighbor collects):
       diff = node_data[neighbors - 1, :] - row          <- POSITIONAL use of the ids  ([row_pos])
       dx, dy, dz = np.linalg.lstsq(diff[:, :3], diff[:, 3])
   The specification looks the neighbour up by its id ([row_id]).  np.linalg.lstsq enters as a Section
   variable with the contract "solves the normal equations when the normal matrix is regular".
   Hand-written; tied to the code by the relations of harness/props/c19.py (results on linear fields for
   contiguous ids, numbering irrelevance, and the predicted IndexError / wrong rows otherwise). *)
From Coq Require Import Reals Lra ZArith List Bool Lia.
From PL Require Import Common.RPrelude Mesh.Mat3.
Import ListNotations.
Open Scope R_scope.

Definition dot (a b : V3) : R :=
  let '(a1, a2, a3) := a in let '(b1, b2, b3) := b in a1 * b1 + a2 * b2 + a3 * b3.
Definition vsub (a b : V3) : V3 :=
  let '(a1, a2, a3) := a in let '(b1, b2, b3) := b in (a1 - b1, a2 - b2, a3 - b3).
Definition vadd (a b : V3) : V3 :=
  let '(a1, a2, a3) := a in let '(b1, b2, b3) := b in (a1 + b1, a2 + b2, a3 + b3).
Definition vscale (s : R) (a : V3) : V3 := let '(a1, a2, a3) := a in (s * a1, s * a2, s * a3).
Definition madd (A B : M33) : M33 :=
  let '(a1, a2, a3) := A in let '(b1, b2, b3) := B in (vadd a1 b1, vadd a2 b2, vadd a3 b3).
Definition outer (a : V3) : M33 := let '(a1, a2, a3) := a in (vscale a1 a, vscale a2 a, vscale a3 a).
Definition M0 : M33 := ((0, 0, 0), (0, 0, 0), (0, 0, 0)).

(* normal matrix  A^T A  and right-hand side  A^T b  of the system whose rows are [rows] *)
Fixpoint AtA (rows : list V3) : M33 :=
  match rows with [] => M0 | a :: r => madd (outer a) (AtA r) end.
Fixpoint Atb (rows : list V3) (b : list R) : V3 :=
  match rows, b with
  | a :: r, y :: b' => vadd (vscale y a) (Atb r b')
  | _, _ => (0, 0, 0)
  end.

Lemma Atb_linear rows g : Atb rows (map (dot g) rows) = mulMV (AtA rows) g.
Proof.
  destruct g as [[g1 g2] g3]. induction rows as [|[[a1 a2] a3] r IH]; simpl.
  - unfold mulMV, M0. tuple_eq; ring.
  - rewrite IH. destruct (AtA r) as [[[[m11 m12] m13] [[m21 m22] m23]] [[m31 m32] m33]].
    unfold madd, outer, vadd, vscale, mulMV, dot. tuple_eq; ring.
Qed.

Lemma mulMV_sub A u v : mulMV A (vsub u v) = vsub (mulMV A u) (mulMV A v).
Proof.
  destruct A as [[[[m11 m12] m13] [[m21 m22] m23]] [[m31 m32] m33]], u as [[u1 u2] u3], v as [[v1 v2] v3].
  unfold mulMV, vsub. tuple_eq; ring.
Qed.

Lemma vsub_0 u v : vsub u v = (0, 0, 0) -> u = v.
Proof.
  destruct u as [[u1 u2] u3], v as [[v1 v2] v3]. unfold vsub. intros H. injection H. intros.
  tuple_eq; lra.
Qed.

Lemma vsub_self u : vsub u u = (0, 0, 0).
Proof. destruct u as [[u1 u2] u3]. unfold vsub. tuple_eq; ring. Qed.

(* a solution of the normal equations of an exactly linear right-hand side is the gradient itself *)
Theorem normal_equations_linear_exact rows g z :
  det3 (AtA rows) <> 0 -> mulMV (AtA rows) z = Atb rows (map (dot g) rows) -> z = g.
Proof.
  intros Hd H. rewrite Atb_linear in H. apply vsub_0. apply (det3_injective (AtA rows)); [exact Hd|].
  rewrite mulMV_sub, H. apply vsub_self.
Qed.

(* ------------------------------------------------------------------ the node table and its two look-ups *)
Definition row : Type := (Z * V3 * R)%type.               (* node id, coordinates, value *)
Definition rid (r : row) : Z := fst (fst r).
Definition rxyz (r : row) : V3 := snd (fst r).
Definition rval (r : row) : R := snd r.
Definition ids (T : list row) : list Z := map rid T.

(* numpy integer indexing of an array of length N: negative indices wrap once, everything else raises IndexError *)
Definition py_index (N : nat) (i : Z) : option nat :=
  if ((0 <=? i) && (i <? Z.of_nat N))%Z then Some (Z.to_nat i)
  else if ((- Z.of_nat N <=? i) && (i <? 0))%Z then Some (Z.to_nat (Z.of_nat N + i))
  else None.

(* the implementation: row number (id - 1) of the table *)
Definition row_pos (T : list row) (nb : Z) : option row :=
  match py_index (length T) (nb - 1) with Some k => nth_error T k | None => None end.
(* the specification: the row that carries the id *)
Definition row_id (T : list row) (nb : Z) : option row := find (fun r => (rid r =? nb)%Z) T.

Fixpoint collect (look : Z -> option row) (nbs : list Z) : option (list row) :=
  match nbs with
  | [] => Some []
  | nb :: r => match look nb, collect look r with Some x, Some xs => Some (x :: xs) | _, _ => None end
  end.

Lemma collect_ext f g l : (forall x, In x l -> f x = g x) -> collect f l = collect g l.
Proof.
  induction l as [|a l IH]; simpl; intros H; [reflexivity|].
  rewrite (H a (or_introl eq_refl)), IH; [reflexivity|]. intros x Hx. apply H. right. exact Hx.
Qed.

Lemma collect_in f l rows : collect f l = Some rows -> forall r, In r rows -> exists nb, In nb l /\ f nb = Some r.
Proof.
  revert rows. induction l as [|a l IH]; simpl; intros rows H r Hr.
  - injection H. intros <-. contradiction.
  - destruct (f a) as [x|] eqn:Fa; [|discriminate]. destruct (collect f l) as [xs|]; [|discriminate].
    injection H. intros <-. destruct Hr as [<-|Hr].
    + exists a. auto.
    + destruct (IH xs eq_refl r Hr) as [nb [H1 H2]]. exists nb. auto.
Qed.

(* ids 1..N in ascending order (what pyLife's fixtures use): the positional look-up is the look-up by id *)
Lemma find_seq (T : list row) (start : nat) :
  ids T = map Z.of_nat (seq start (length T)) ->
  forall k, (k < length T)%nat -> row_id T (Z.of_nat (start + k)) = nth_error T k.
Proof.
  revert start. induction T as [|r T IH]; intros start H k Hk; simpl in *; [lia|].
  injection H. intros Ht Hr. unfold row_id. simpl. destruct k as [|k].
  - rewrite Hr. replace (start + 0)%nat with start by lia. rewrite Z.eqb_refl. reflexivity.
  - rewrite Hr. destruct (Z.eqb_spec (Z.of_nat start) (Z.of_nat (start + S k))) as [E|_]; [lia|].
    replace (start + S k)%nat with (S start + k)%nat by lia. apply (IH (S start) Ht). lia.
Qed.

Theorem positional_lookup_correct_contiguous (T : list row) (nb : Z) :
  ids T = map Z.of_nat (seq 1 (length T)) -> In nb (ids T) -> row_pos T nb = row_id T nb.
Proof.
  intros H Hin. rewrite H in Hin. apply in_map_iff in Hin. destruct Hin as [m [<- Hm]]. apply in_seq in Hm.
  unfold row_pos, py_index.
  replace ((0 <=? Z.of_nat m - 1) && (Z.of_nat m - 1 <? Z.of_nat (length T)))%Z with true
    by (symmetry; apply andb_true_iff; split; [apply Z.leb_le|apply Z.ltb_lt]; lia).
  replace (Z.to_nat (Z.of_nat m - 1)) with (m - 1)%nat by lia.
  replace m with (1 + (m - 1))%nat at 2 by lia. symmetry. apply find_seq; [exact H|lia].
Qed.

(* ... and for any other id set it is not: IndexError, or silently another node's row *)
Theorem positional_ids_refuted :
  (exists (T : list row) nb, In nb (ids T) /\ row_pos T nb = None /\ row_id T nb <> None) /\
  (exists (T : list row) nb r, In nb (ids T) /\ row_pos T nb = Some r /\ rid r <> nb).
Proof.
  split.
  - exists [(5%Z, (0, 0, 0), 0); (15%Z, (1, 0, 0), 1)], 15%Z. split; [simpl; auto|]. split; [reflexivity|]. discriminate.
  - exists [(2%Z, (0, 0, 0), 0); (3%Z, (1, 0, 0), 1)], 2%Z, (3%Z, (1, 0, 0), 1). split; [simpl; auto|]. split; [reflexivity|].
    unfold rid. simpl. discriminate.
Qed.

(* ------------------------------------------------------------------ the gradient at one node *)
Section Lsq.
Variable lstsq : list V3 -> list R -> V3.
Hypothesis lstsq_contract : forall rows b,
  det3 (AtA rows) <> 0 -> length b = length rows -> mulMV (AtA rows) (lstsq rows b) = Atb rows b.

Definition diffs (node : row) (rows : list row) : list V3 := map (fun r => vsub (rxyz r) (rxyz node)) rows.
Definition dvals (node : row) (rows : list row) : list R := map (fun r => rval r - rval node) rows.

Definition grad_with (look : Z -> option row) (node : row) (nbs : list Z) : option V3 :=
  match collect look nbs with
  | None => None                                          (* IndexError *)
  | Some rows => Some (lstsq (diffs node rows) (dvals node rows))
  end.
Definition gradient_impl (T : list row) := grad_with (row_pos T).
Definition gradient_spec (T : list row) := grad_with (row_id T).

Definition linear_on (g : V3) (c : R) (r : row) : Prop := rval r = dot g (rxyz r) + c.

Lemma dvals_linear g c node rows :
  linear_on g c node -> (forall r, In r rows -> linear_on g c r) -> dvals node rows = map (dot g) (diffs node rows).
Proof.
  intros Hn Hr. unfold dvals, diffs. rewrite map_map. apply map_ext_in. intros r Hin.
  rewrite (Hr r Hin), Hn. destruct g as [[g1 g2] g3], (rxyz r) as [[a1 a2] a3], (rxyz node) as [[b1 b2] b3].
  unfold dot, vsub. ring.
Qed.

(* whatever rows of a linear field enter the fit (even another node's rows), a full-rank fit returns g *)
Theorem lstsq_rows_linear_exact g c node rows :
  linear_on g c node -> (forall r, In r rows -> linear_on g c r) ->
  det3 (AtA (diffs node rows)) <> 0 -> lstsq (diffs node rows) (dvals node rows) = g.
Proof.
  intros Hn Hr Hd. apply (normal_equations_linear_exact (diffs node rows)); [exact Hd|].
  rewrite <- (dvals_linear g c node rows Hn Hr). apply lstsq_contract; [exact Hd|].
  unfold dvals, diffs. rewrite !map_length. reflexivity.
Qed.

Theorem gradient_spec_linear_exact T g c node nbs rows :
  (forall r, In r (node :: T) -> linear_on g c r) -> collect (row_id T) nbs = Some rows ->
  det3 (AtA (diffs node rows)) <> 0 -> gradient_spec T node nbs = Some g.
Proof.
  intros Hlin Hc Hd. unfold gradient_spec, grad_with. rewrite Hc. f_equal.
  apply (lstsq_rows_linear_exact g c); auto.
  - apply Hlin. left. reflexivity.
  - intros r Hr. destruct (collect_in _ _ _ Hc r Hr) as [nb [_ Hf]]. apply find_some in Hf. apply Hlin. right. tauto.
Qed.

(* the implementation agrees with the specification when the node ids are exactly 1..N *)
Theorem gradient_impl_spec_contiguous T node nbs :
  ids T = map Z.of_nat (seq 1 (length T)) -> (forall nb, In nb nbs -> In nb (ids T)) ->
  gradient_impl T node nbs = gradient_spec T node nbs.
Proof.
  intros H Hin. unfold gradient_impl, gradient_spec, grad_with.
  rewrite (collect_ext (row_pos T) (row_id T) nbs); [reflexivity|].
  intros nb Hnb. apply positional_lookup_correct_contiguous; auto.
Qed.

Corollary gradient_impl_linear_exact_contiguous T g c node nbs rows :
  ids T = map Z.of_nat (seq 1 (length T)) -> (forall nb, In nb nbs -> In nb (ids T)) ->
  (forall r, In r (node :: T) -> linear_on g c r) -> collect (row_id T) nbs = Some rows ->
  det3 (AtA (diffs node rows)) <> 0 -> gradient_impl T node nbs = Some g.
Proof. intros. rewrite gradient_impl_spec_contiguous by assumption. eapply gradient_spec_linear_exact; eauto. Qed.

(* for a table whose ids have a gap the implementation raises where the specification is exact *)
Theorem gradient_impl_refuted :
  exists (T : list row) node nbs, In node T /\ (forall nb, In nb nbs -> In nb (ids T)) /\
    gradient_impl T node nbs = None /\ gradient_spec T node nbs <> None.
Proof.
  exists [(5%Z, (0, 0, 0), 0); (15%Z, (1, 0, 0), 1)], (5%Z, (0, 0, 0), 0), [15%Z].
  split; [simpl; auto|]. split; [simpl; intros nb [<-|[]]; auto|]. split; [reflexivity|]. discriminate.
Qed.

End Lsq.

(* the contract of lstsq is satisfiable: the closed-form solution of the normal equations *)
Lemma mulMV_mmul A B v : mulMV (mmul A B) v = mulMV A (mulMV B v).
Proof.
  destruct A as [[[[a11 a12] a13] [[a21 a22] a23]] [[a31 a32] a33]], B as [[[[b11 b12] b13] [[b21 b22] b23]] [[b31 b32] b33]],
    v as [[v1 v2] v3]. unfold mulMV, mmul. tuple_eq; ring.
Qed.
Lemma mulMV_I3 v : mulMV I3 v = v.
Proof. destruct v as [[v1 v2] v3]. unfold mulMV, I3. tuple_eq; ring. Qed.

Example lstsq_contract_satisfiable :
  let lstsq := fun rows b => mulMV (inv3 (AtA rows)) (Atb rows b) in
  forall rows b, det3 (AtA rows) <> 0 -> length b = length rows -> mulMV (AtA rows) (lstsq rows b) = Atb rows b.
Proof. intros lstsq rows b Hd _. unfold lstsq. rewrite <- mulMV_mmul, inv3_right by exact Hd. apply mulMV_I3. Qed.
