(* HotSpot.calc / __hs_sel (pylife/mesh/hotspot.py) as an executable Gallina model.

   A mesh is the list of its rows (element_id, node_id, value) in DataFrame order; a set of rows is a
   [list bool] aligned with the rows (pandas boolean Series).  Loops run on explicit fuel; [Spec] shows
   that the fuel the top-level functions pass always suffices.
     above      = (value >= limit_frac * max_value)            limit_frac = p / q, q > 0
     hs_sel rem = region growing from the first maximal remaining row: repeatedly add every remaining row
                  that shares its node id or its element id with a row already in the hot spot
     calc       = while any remaining: hs := hs_sel remaining; label hs with 1, 2, ..; remaining ^= hs   *)
From Coq Require Import ZArith List Bool Lia Arith.
Import ListNotations.

Definition entry : Type := (Z * Z * Z)%type.           (* element_id, node_id, value *)
Definition e_el (e : entry) : Z := fst (fst e).
Definition e_nd (e : entry) : Z := snd (fst e).
Definition e_val (e : entry) : Z := snd e.
Definition adj (a b : entry) : bool := (e_el a =? e_el b)%Z || (e_nd a =? e_nd b)%Z.

Fixpoint lb_eqb (a b : list bool) : bool :=
  match a, b with
  | [], [] => true
  | x :: a', y :: b' => Bool.eqb x y && lb_eqb a' b'
  | _, _ => false
  end.

Section HS.
Variable E : list entry.

Definition n : nat := length E.
Definition ent (i : nat) : entry := nth i E (0, 0, 0)%Z.
Definition val (i : nat) : Z := e_val (ent i).
Definition adjb (i j : nat) : bool := adj (ent i) (ent j).
Definition get (s : list bool) (i : nat) : bool := nth i s false.
Definition getl (l : list nat) (i : nat) : nat := nth i l 0.
Definition tab (f : nat -> bool) : list bool := map f (seq 0 n).
Definition members (s : list bool) : list entry := map ent (filter (get s) (seq 0 n)).

(* one sweep of the inner while loop of __hs_sel: rows of [rem] sharing node or element with the hot spot *)
Definition step (rem hs : list bool) : list bool :=
  let ms := members hs in
  tab (fun i => get hs i || (get rem i && existsb (adj (ent i)) ms)).

Fixpoint grow (fuel : nat) (rem hs : list bool) : list bool :=
  match fuel with
  | O => hs
  | S f => let hs' := step rem hs in if lb_eqb hs' hs then hs else grow f rem hs'
  end.

(* Series.idxmax over the remaining rows: first row (in row order) carrying the maximum *)
Definition argmax (rem : list bool) : option nat :=
  fold_left (fun acc i => if get rem i then
                            match acc with
                            | None => Some i
                            | Some b => if (val b <? val i)%Z then Some i else Some b
                            end
                          else acc) (seq 0 n) None.

Definition single (s : nat) : list bool := tab (fun i => i =? s).
Definition hs_sel (rem : list bool) (s : nat) : list bool := grow n rem (single s).

Fixpoint loop (fuel : nat) (rem : list bool) (lab : list nat) (k : nat) : list nat :=
  match fuel with
  | O => lab
  | S f => match argmax rem with
           | None => lab
           | Some s => let hs := hs_sel rem s in
                       loop f (tab (fun i => xorb (get rem i) (get hs i)))
                            (map (fun i => if get hs i then k else getl lab i) (seq 0 n)) (S k)
           end
  end.

(* maximum of the field, optionally ignoring rows at or above an artefact threshold *)
Definition considered (art : option Z) (i : nat) : bool :=
  match art with None => true | Some a => (val i <? a)%Z end.
Definition maxval (art : option Z) : option Z :=
  fold_left (fun acc i => if considered art i then
                            match acc with None => Some (val i) | Some m => Some (Z.max m (val i)) end
                          else acc) (seq 0 n) None.

(* value >= (p/q) * max  with q > 0, in exact arithmetic *)
Definition above (p q : Z) (art : option Z) : list bool :=
  match maxval art with
  | None => tab (fun _ => false)
  | Some m => tab (fun i => (p * m <=? q * val i)%Z)
  end.

Definition calc (p q : Z) (art : option Z) : list nat :=
  loop (S n) (above p q art) (repeat 0 n) 1.

End HS.
