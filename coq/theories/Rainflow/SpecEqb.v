(* Executable comparison of implementation output with the specifications of Spec.v (used by the C02
   correspondence/oracle: the implementation's reported values are written as literals). *)
From Coq Require Import ZArith List Bool.
From PL Require Import Rainflow.Model Rainflow.Eqb Rainflow.Spec.
Import ListNotations.
Open Scope Z_scope.

Definition count_pair (p : Z*Z) (l : list (Z*Z)) := length (filter (pairZeq p) l).
Definition msetZ (a b : list (Z*Z)) :=
  Nat.eqb (length a) (length b) && forallb (fun p => Nat.eqb (count_pair p a) (count_pair p b)) a.

(* four-point: same cycles in the same order, same residual *)
Definition spec4_ok (s : list Z) (c : list (Z*Z)) (r : list Z) : bool :=
  let '(c', r') := fp_spec (tp_seq s) in leqb pairZeq c c' && leqb Z.eqb r r'.
(* three-point: same multiset of cycles, same residual *)
Definition spec3_ok (s : list Z) (c : list (Z*Z)) (r : list Z) : bool :=
  let '(c', r') := fp_spec (tp_seq s) in msetZ c c' && leqb Z.eqb r r'.
(* FKM: HCM on the interior reversals *)
Definition specF_ok (s : list Z) (c : list (Z*Z)) (r : list Z) : bool :=
  let '(c', r') := hcm_spec (map snd (find_turns s)) in leqb pairZeq c c' && leqb Z.eqb r r'.
