(* process4 in terms of the item-level machine, for an arbitrary detector state. *)
From Coq Require Import ZArith List Bool Lia.
From PL Require Import Rainflow.Model Rainflow.FP Rainflow.Refine Rainflow.SpecThm Rainflow.IndexThm.
Import ListNotations.
Open Scope Z_scope.

Definition swap (iv : nat * Z) : item := (snd iv, fst iv).

Definition residuals_of (st : dstate) (C : list Z) : list Z :=
  match resid st with [] => firstn 1 C | _ => removelast (resid st) end.
Definition resid_items (st : dstate) (C : list Z) : list item := combine (residuals_of st C) (ridx st).

Lemma combine_app {A B} (l1 l2 : list A) (m1 m2 : list B) : length l1 = length m1 ->
  combine (l1 ++ l2) (m1 ++ m2) = combine l1 m1 ++ combine l2 m2.
Proof.
  revert m1; induction l1 as [|x l1 IH]; intros [|y m1] H; try discriminate; [reflexivity|].
  cbn. f_equal. apply IH. cbn in H. lia.
Qed.
Lemma combine_swap (t : list (nat * Z)) : combine (map snd t) (map fst t) = map swap t.
Proof. induction t as [|[i v] r IH]; [reflexivity|]. cbn. f_equal. exact IH. Qed.

Lemma lastn1_last (C : list Z) : C <> [] -> lastn1 C = [last C 0].
Proof.
  intros HC. unfold lastn1. destruct (rev C) as [|l r] eqn:Hr.
  - apply (f_equal (@rev Z)) in Hr. rewrite rev_involutive in Hr. contradiction.
  - assert (C = rev r ++ [l]) as -> by (apply (f_equal (@rev Z)) in Hr; rewrite rev_involutive in Hr; exact Hr).
    rewrite last_last. reflexivity.
Qed.

Lemma process4_items st C : C <> [] -> length (residuals_of st C) = length (ridx st) ->
  let '(t, tl', hd') := new_turns (stail st) (shead st) C false in
  let '(istk, o) := FP.run (resid_items st C ++ map swap t ++ [(last C 0, 0%nat)]) in
  process4 st C = Build_dstate tl' hd' (map fst (rev istk)) (removelast (map snd (rev istk)))
                               (Model.cyc st ++ map cyc4 o) (chunks st ++ [length C]).
Proof.
  intros HC Hlen. unfold process4. fold (residuals_of st C).
  destruct (new_turns (stail st) (shead st) C false) as [[t tl'] hd'].
  set (res := residuals_of st C) in *.
  set (A := res ++ map snd t). set (T := ridx st ++ map fst t).
  assert (HlenAT : length A = length T) by (unfold A, T; rewrite !app_length, !map_length; lia).
  assert (Hturns : res ++ map snd t ++ lastn1 C = A ++ [last C 0]).
  { unfold A. rewrite lastn1_last by exact HC. rewrite app_assoc. reflexivity. }
  rewrite Hturns. fold T.
  assert (Hitems : items (A ++ [last C 0]) T = resid_items st C ++ map swap t ++ [(last C 0, 0%nat)]).
  { unfold items. rewrite app_length. cbn [length]. rewrite Nat.add_1_r, seq_S, map_app. cbn [map Nat.add].
    rewrite map_itm_prefix by exact HlenAT. unfold A, T. rewrite combine_app by exact Hlen.
    rewrite combine_swap. fold res. unfold resid_items. fold res. rewrite <- app_assoc. do 2 f_equal.
    unfold itm. rewrite nth_middle_Z. unfold nthN. rewrite nth_overflow; [reflexivity|]. fold A T. lia. }
  pose proof (fourpoint_loop_items (A ++ [last C 0]) T) as H.
  destruct (fourpoint_loop (A ++ [last C 0]) T) as [out ri]. rewrite Hitems in H.
  destruct (FP.run (resid_items st C ++ map swap t ++ [(last C 0, 0%nat)])) as [istk o]. destruct H as [H1 H2].
  rewrite H1. rewrite (map_nthZ_itm (A ++ [last C 0]) T). rewrite (map_nthN_itm (A ++ [last C 0]) T).
  rewrite map_removelast, H2, map_removelast. reflexivity.
Qed.
