From PL Require Import Rainflow.Model Rainflow.Stream.
From Coq Require Import ZArith List Bool Lia.
Import ListNotations.
Open Scope Z_scope.

Lemma Good_scanS s : forall L p d c i e p' d' c' i',
  Good L p c i -> scanS p d c i s = (e, (p', d', c', i')) -> Good (L ++ s) p' c' i'.
Proof.
  induction s as [|x r IH]; intros L p d c i e p' d' c' i' HG H; cbn [scanS] in H.
  - inversion H; subst. rewrite app_nil_r. exact HG.
  - destruct (x =? p) eqn:Hxp.
    + apply Z.eqb_eq in Hxp; subst x.
      replace (L ++ p :: r) with ((L ++ [p]) ++ r) by (rewrite <- app_assoc; reflexivity).
      eapply IH; [apply Good_same; exact HG|exact H].
    + destruct (scanS x (Z.sgn (x - p)) i (S i) r) as [rest [[[p1 d1] c1] i1]] eqn:Hr.
      assert ((p1, d1, c1, i1) = (p', d', c', i')) as Hst by (inversion H; reflexivity).
      inversion Hst; subst.
      replace (L ++ x :: r) with ((L ++ [x]) ++ r) by (rewrite <- app_assoc; reflexivity).
      destruct HG as (Hi & _). eapply IH; [apply Good_new; exact Hi|exact Hr].
Qed.

Lemma scanS_emit_lt s : forall p d c i e p' d' c' i',
  (c < i)%nat -> scanS p d c i s = (e, (p', d', c', i')) -> Forall (fun iv => (fst iv < c')%nat) e.
Proof.
  induction s as [|x r IH]; intros p d c i e p' d' c' i' Hci H; cbn [scanS] in H.
  - inversion H; constructor.
  - destruct (x =? p).
    + eapply IH; [|exact H]; lia.
    + destruct (scanS x (Z.sgn (x - p)) i (S i) r) as [rest [[[p1 d1] c1] i1]] eqn:Hr.
      assert ((p1, d1, c1, i1) = (p', d', c', i')) as Hst by (inversion H; reflexivity).
      inversion Hst; subst.
      pose proof (scanS_bounds _ _ _ _ _ _ _ _ _ _ (Nat.lt_succ_diag_r i) Hr) as (A & B & C & D).
      pose proof (IH _ _ _ _ _ _ _ _ _ (Nat.lt_succ_diag_r i) Hr) as Hrest.
      assert (e = (if negb (d =? 0) && negb (Z.sgn (x - p) =? d) then (c, p) :: rest else rest)) as -> by (inversion H; reflexivity).
      destruct (negb (d =? 0) && negb (Z.sgn (x - p) =? d)); [constructor; [cbn; lia|exact Hrest]|exact Hrest].
Qed.

Lemma skipn_skipn {A} (x y : nat) (l : list A) : skipn x (skipn y l) = skipn (x + y) l.
Proof.
  revert l; induction y as [|y IH]; intros l; [rewrite Nat.add_0_r; reflexivity|].
  destruct l; [rewrite !skipn_nil; reflexivity|]. rewrite Nat.add_succ_r. cbn [skipn]. apply IH.
Qed.

Definition last_idx (e : list (nat * Z)) : nat := match rev e with [] => 0%nat | (i, _) :: _ => i end.
Lemma last_idx_snoc e j v : last_idx (e ++ [(j, v)]) = j.
Proof. unfold last_idx. rewrite rev_app_distr. reflexivity. Qed.

(* relation between the whole prefix P fed so far and the detector's (tail, head) *)
Definition Rel (P tl : list Z) (hd : nat) : Prop :=
  hd = length P /\
  exists E p d c, fresh P = (E, (p, d, c, length P)) /\ Good P p c (length P) /\
    let k := last_idx E in
    (k <= c)%nat /\ tl = skipn k P /\ fresh tl = ([], (p, d, (c - k)%nat, (length P - k)%nat)).

Lemma new_turns_unfold tl hd C :
  new_turns tl hd C false =
  (map (fun iv => ((fst iv + hd - length tl)%nat, snd iv)) (find_turns (tl ++ C)),
   skipn (last_idx (find_turns (tl ++ C))) (tl ++ C), (hd + length C)%nat).
Proof. reflexivity. Qed.

Lemma find_turns_fresh l : find_turns l = fst (fresh l).
Proof. destruct l; [reflexivity|]. cbn [find_turns fresh]. apply scan_scanS. Qed.

Lemma fresh_app x q b : fresh ((x :: q) ++ b) =
  let '(e1, (p1, d1, c1, i1)) := fresh (x :: q) in let '(e2, st2) := scanS p1 d1 c1 i1 b in (e1 ++ e2, st2).
Proof. cbn [app fresh]. apply scanS_app. Qed.

(* first chunk *)
Lemma first_chunk C : C <> [] ->
  let '(t, tl', hd') := new_turns [] 0 C false in
  t = fst (fresh C) /\ Rel C tl' hd'.
Proof.
  intros HC. rewrite new_turns_unfold. cbn [app length].
  destruct C as [|x q]; [congruence|].
  rewrite find_turns_fresh.
  destruct (fresh (x :: q)) as [E [[[p d] c] i]] eqn:HF. cbn [fst].
  assert (HG0 : Good [x] x 0 1) by (repeat split; cbn; lia).
  cbn [fresh] in HF.
  pose proof (scanS_bounds _ _ _ _ _ _ _ _ _ _ Nat.lt_0_1 HF) as (A & B & Ci & D).
  pose proof (Good_scanS _ _ _ _ _ _ _ _ _ _ _ HG0 HF) as HG. cbn [app] in HG.
  assert (Hi : i = length (x :: q)) by (cbn [length]; lia). subst i.
  split.
  - rewrite <- (map_id E) at 2. apply map_ext. intros [a b]; cbn. f_equal; lia.
  - split; [cbn [length]; lia|]. exists E, p, d, c. split; [exact HF|]. split; [exact HG|].
    cbn zeta.
    destruct (rev E) as [|[j v] re] eqn:Hrev.
    + assert (E = []) by (apply (f_equal (@rev _)) in Hrev; rewrite rev_involutive in Hrev; exact Hrev). subst E.
      unfold last_idx; cbn [rev]. split; [lia|]. split; [reflexivity|]. cbn [skipn fresh]. rewrite HF. do 3 f_equal; lia.
    + assert (HE : E = rev re ++ [(j, v)]).
      { apply (f_equal (@rev _)) in Hrev. rewrite rev_involutive in Hrev. exact Hrev. }
      rewrite HE, last_idx_snoc.
      pose proof (scanS_emit_lt _ _ _ _ _ _ _ _ _ _ Nat.lt_0_1 HF) as Hlt. rewrite HE in Hlt.
      apply Forall_app in Hlt. destruct Hlt as [_ Hlt]. inversion Hlt as [|? ? Hj _]; subst. cbn in Hj.
      split; [lia|]. split; [reflexivity|].
      pose proof (rescan q [x] x 0 0%nat 1%nat (rev re) j v _ HG0 HF) as HR.
      cbn [app] in HR. rewrite HR. reflexivity.
Qed.

(* later chunks *)
Lemma next_chunk P tl hd C : Rel P tl hd -> P <> [] -> C <> [] ->
  let '(t, tl', hd') := new_turns tl hd C false in
  fst (fresh (P ++ C)) = fst (fresh P) ++ t /\ Rel (P ++ C) tl' hd'.
Proof.
  intros (Hhd & E & p & d & c & HF & HG & Hk) HP HC. cbn zeta in Hk.
  destruct Hk as (Hkc & Htl & Hft). set (k := last_idx E) in *.
  rewrite new_turns_unfold.
  destruct HG as (_ & Hclt & Hskip).
  assert (Hklt : (k < length P)%nat) by lia.
  assert (Hlen : length tl = (length P - k)%nat) by (rewrite Htl, skipn_length; reflexivity).
  destruct tl as [|x0 r0] eqn:Htl0; [cbn in Hlen; lia|].
  rewrite find_turns_fresh.
  pose proof (fresh_app x0 r0 C) as HA. rewrite Hft in HA.
  destruct (scanS p d (c - k) (length P - k) C) as [e2 st2] eqn:H2.
  cbn [app] in HA. cbn [app]. rewrite HA. cbn [fst].
  (* streaming over C from the full-prefix state *)
  pose proof (scanS_shift k p d (c - k)%nat (length P - k)%nat C) as Hsh.
  replace (c - k + k)%nat with c in Hsh by lia.
  replace (length P - k + k)%nat with (length P) in Hsh by lia.
  rewrite H2 in Hsh. cbn [fst snd] in Hsh.
  destruct P as [|y0 q0] eqn:HP0; [congruence|]. rewrite <- HP0 in *.
  assert (HFA : fresh (P ++ C) = (E ++ map (shI k) e2, shS k st2)).
  { rewrite HP0. rewrite fresh_app. rewrite <- HP0. rewrite HF. rewrite Hsh. reflexivity. }
  rewrite HFA, HF. cbn [fst].
  assert (Hmap : map (fun iv => ((fst iv + hd - length (x0 :: r0))%nat, snd iv)) e2 = map (shI k) e2).
  { apply map_ext. intros [a b]. unfold shI; cbn [fst snd]. f_equal. rewrite Hlen, Hhd. lia. }
  rewrite Hmap. split; [reflexivity|].
  (* Rel for P ++ C *)
  destruct st2 as [[[p2 d2] c2] i2].
  assert (HGt : Good (x0 :: r0) p (c - k) (length P - k)).
  { repeat split; [lia|lia|]. rewrite Htl, skipn_skipn. replace (c - k + k)%nat with c by lia.
    rewrite Hskip. f_equal; lia. }
  assert (Hlt0 : (c - k < length P - k)%nat) by lia.
  pose proof (scanS_bounds _ _ _ _ _ _ _ _ _ _ Hlt0 H2) as (B1 & B2 & B3 & B4).
  pose proof (scanS_emit_lt _ _ _ _ _ _ _ _ _ _ Hlt0 H2) as Hemit.
  assert (HGA : Good (P ++ C) p2 (c2 + k) (length (P ++ C))).
  { assert (HGP : Good P p c (length P)) by (repeat split; assumption).
    assert (HS : scanS p d c (length P) C = (map (shI k) e2, (p2, d2, (c2 + k)%nat, (i2 + k)%nat))) by exact Hsh.
    pose proof (Good_scanS _ _ _ _ _ _ _ _ _ _ _ HGP HS) as G.
    destruct G as (G1 & G2 & G3). unfold Good. rewrite <- G1. auto. }
  assert (Hi2 : (i2 + k)%nat = length (P ++ C)) by (rewrite app_length; lia).
  split; [rewrite app_length, Hhd; reflexivity|].
  exists (E ++ map (shI k) e2), p2, d2, (c2 + k)%nat.
  split; [rewrite HFA; cbn [shS]; rewrite Hi2; reflexivity|]. split; [exact HGA|]. cbn zeta.
  assert (Hswt : x0 :: r0 ++ C = skipn k (P ++ C)).
  { rewrite skipn_app. replace (k - length P)%nat with 0%nat by lia. cbn [skipn]. rewrite <- Htl. reflexivity. }
  destruct (rev e2) as [|[j v] re] eqn:Hrev.
  - assert (e2 = []) by (apply (f_equal (@rev _)) in Hrev; rewrite rev_involutive in Hrev; exact Hrev). subst e2.
    cbn [map]. rewrite app_nil_r. fold k. change (last_idx []) with 0%nat. cbn [skipn].
    split; [lia|]. split; [exact Hswt|].
    rewrite HA. do 3 f_equal; lia.
  - assert (He2 : e2 = rev re ++ [(j, v)]).
    { apply (f_equal (@rev _)) in Hrev. rewrite rev_involutive in Hrev. exact Hrev. }
    assert (Hlast : last_idx (E ++ map (shI k) e2) = (j + k)%nat).
    { rewrite He2, map_app, app_assoc. cbn [map shI fst snd]. apply last_idx_snoc. }
    rewrite Hlast. rewrite He2 in Hemit. apply Forall_app in Hemit. destruct Hemit as [_ Hemit].
    apply Forall_inv in Hemit. cbn [fst] in Hemit.
    split; [lia|].
    assert (Hlj : last_idx e2 = j) by (rewrite He2; apply last_idx_snoc).
    rewrite Hlj.
    assert (Hsk : skipn j (x0 :: r0 ++ C) = skipn (j + k) (P ++ C)).
    { rewrite Hswt, skipn_skipn. reflexivity. }
    split; [exact Hsk|].
    assert (H2' := H2). rewrite He2 in H2'.
    pose proof (rescan C (x0 :: r0) p d (c - k)%nat (length P - k)%nat (rev re) j v _ HGt H2') as HR.
    change (fresh (skipn j ((x0 :: r0) ++ C)) = ([], (p2, d2, (c2 + k - (j + k))%nat, (length (P ++ C) - (j + k))%nat))).
    rewrite HR. cbn [unS]. f_equal. f_equal; [f_equal|]; lia.
Qed.
