(* C02: the one-piece detectors realise the specifications of Spec.v; turning points are conserved;
   reported indices address the reported values. *)
From Coq Require Import ZArith List Bool Lia Permutation.
From PL Require Import Rainflow.Model Rainflow.FP Rainflow.Refine Rainflow.Spec Rainflow.Stream Rainflow.Chunk.
Import ListNotations.
Open Scope Z_scope.

(* ------------------------------------------------------------------ FP machine -> value spec *)
Definition cycv (c : FP.cyc) : Z * Z := (fst (fst c), fst (snd c)).

Lemma fp_close_step c b a rest d :
  fp_close (c :: b :: a :: rest) d =
  if closable4 a b c d then let '(s, o) := fp_close (a :: rest) d in (s, (b, c) :: o)
  else (c :: b :: a :: rest, []).
Proof. reflexivity. Qed.

Lemma close_values : forall n stk d, (length stk <= n)%nat ->
  fp_close (map fst stk) d = (map fst (fst (FP.close stk d)), map cycv (snd (FP.close stk d))).
Proof.
  induction n as [|n IH]; intros stk d Hl.
  - destruct stk; [reflexivity|cbn in Hl; lia].
  - destruct stk as [|c [|b [|a rest]]]; try reflexivity.
    rewrite FP.close_step. cbn [map]. rewrite fp_close_step. unfold closable4, FP.closable.
    destruct ((Z.abs (fst b - fst c) <=? Z.abs (fst a - fst b)) && (Z.abs (fst b - fst c) <=? Z.abs (fst c - d))).
    + specialize (IH (a :: rest) d ltac:(cbn [length] in *; lia)). cbn [map] in IH.
      unfold FP.item in *. destruct (FP.close (a :: rest) d) as [s o]. cbn [fst snd] in IH. rewrite IH. reflexivity.
    + reflexivity.
Qed.

Lemma run_values items :
  fold_left fp_push (map fst items) ([], []) =
  (map fst (fst (FP.run items)), map cycv (snd (FP.run items))).
Proof.
  unfold FP.run.
  assert (H : forall stk out, fold_left fp_push (map fst items) (map fst stk, map cycv out) =
     (map fst (fst (fold_left FP.push items (stk, out))), map cycv (snd (fold_left FP.push items (stk, out))))).
  { induction items as [|d r IH]; intros stk out; [reflexivity|].
    cbn [map fold_left fp_push FP.push].
    rewrite (close_values (length stk) stk (fst d) (le_n _)).
    destruct (FP.close stk (fst d)) as [s o]. cbn [fst snd].
    rewrite <- map_app. change (fst d :: map fst s) with (map fst (d :: s)). apply IH. }
  exact (H [] []).
Qed.

(* ------------------------------------------------------------------ one-piece run in item form *)
Lemma new_turns_first s : new_turns [] 0 s false =
  (find_turns s, skipn (last_idx (find_turns s)) s, length s).
Proof.
  rewrite new_turns_unfold. cbn [app length]. cbn [Nat.add].
  replace (map (fun iv : nat * Z => ((fst iv + 0 - 0)%nat, snd iv)) (find_turns s)) with (find_turns s); [reflexivity|].
  rewrite <- (map_id (find_turns s)) at 1. apply map_ext. intros [a b]. cbn. f_equal. lia.
Qed.

Lemma map_nthZ_itm turns tidx ri : map (nthZ turns) ri = map fst (map (itm turns tidx) ri).
Proof. rewrite map_map. reflexivity. Qed.
Lemma map_nthN_itm turns tidx ri : map (nthN tidx) ri = map snd (map (itm turns tidx) ri).
Proof. rewrite map_map. reflexivity. Qed.
Lemma map_removelast {A B} (f : A -> B) l : map f (removelast l) = removelast (map f l).
Proof. induction l as [|x [|y r] IH]; try reflexivity. cbn [removelast map] in *. rewrite IH. reflexivity. Qed.

(* what process4 computes from the initial state, in terms of the item machine *)
Lemma run4_one s : s <> [] ->
  let turns := firstn 1 s ++ map snd (find_turns s) ++ lastn1 s in
  let tidx := [0%nat] ++ map fst (find_turns s) in
  let '(istk, o) := FP.run (items turns tidx) in
  run4 [s] = (map cyc4 o, map fst (rev istk), removelast (map snd (rev istk)) ++ [(length s - 1)%nat], [length s]).
Proof.
  intros Hs. cbn zeta. unfold run4. cbn [fold_left]. unfold process4. cbn [resid stail shead ridx cyc chunks init].
  rewrite new_turns_first.
  pose proof (fourpoint_loop_items (firstn 1 s ++ map snd (find_turns s) ++ lastn1 s) ([0%nat] ++ map fst (find_turns s))) as H.
  destruct (fourpoint_loop _ _) as [out ri]. destruct (FP.run _) as [istk o]. destruct H as [H1 H2].
  unfold obs. cbn [cyc resid ridx shead chunks app].
  rewrite H1. rewrite map_nthZ_itm with (tidx := 0%nat :: map fst (find_turns s)).
  rewrite map_nthN_itm with (turns := firstn 1 s ++ map snd (find_turns s) ++ lastn1 s).
  rewrite map_removelast. cbn [app] in H2. rewrite H2. cbn [Model.cyc init app]. rewrite map_removelast. reflexivity.
Qed.

Definition cyc_values (c : list (Z * Z * nat * nat)) : list (Z * Z) := map (fun q => (fst (fst (fst q)), snd (fst (fst q)))) c.

Lemma map_nth_seq {A} (l : list A) d : map (fun p => nth p l d) (seq 0 (length l)) = l.
Proof.
  induction l as [|x r IH]; [reflexivity|]. cbn [length seq map nth]. f_equal.
  rewrite <- seq_shift, map_map. exact IH.
Qed.

Lemma items_values turns tidx : map fst (items turns tidx) = turns.
Proof. unfold items. rewrite map_map. cbn [itm fst]. unfold nthZ. apply map_nth_seq. Qed.

(* the four-point detector reports exactly the cycles, in order, and the residual of the textbook rule
   on the turning-point sequence *)
Theorem fourpoint_is_textbook s : s <> [] ->
  let '(c, r, _, _) := run4 [s] in
  (cyc_values c, r) = fp_spec (tp_seq s).
Proof.
  intros Hs. pose proof (run4_one s Hs) as H. cbn zeta in H.
  set (turns := firstn 1 s ++ map snd (find_turns s) ++ lastn1 s) in *.
  set (tidx := [0%nat] ++ map fst (find_turns s)) in *.
  destruct (FP.run (items turns tidx)) as [istk o] eqn:HR. rewrite H.
  unfold fp_spec, tp_seq. fold turns. rewrite <- (items_values turns tidx), run_values, HR. cbn [fst snd].
  f_equal.
  - unfold cyc_values. rewrite !map_map. apply map_ext. intros [[bv bi] [cv ci]]. reflexivity.
  - rewrite map_rev. reflexivity.
Qed.

(* ------------------------------------------------------------------ conservation (FP machine) *)
Definition ends (o : list FP.cyc) : list item := flat_map (fun c => [fst c; snd c]) o.

Lemma close_perm : forall n stk d, (length stk <= n)%nat ->
  Permutation stk (fst (FP.close stk d) ++ ends (snd (FP.close stk d))).
Proof.
  induction n as [|n IH]; intros stk d Hl.
  - destruct stk; [constructor|cbn in Hl; lia].
  - destruct stk as [|c [|b [|a rest]]]; try (cbn; rewrite ?app_nil_r; apply Permutation_refl).
    rewrite FP.close_step. destruct (closable (fst a) (fst b) (fst c) d).
    + specialize (IH (a :: rest) d ltac:(cbn [length] in *; lia)).
      destruct (FP.close (a :: rest) d) as [s o]. cbn [fst snd ends flat_map] in *.
      (* c :: b :: (a::rest)  ~  s ++ b :: c :: ends o *)
      change (b :: c :: flat_map (fun c0 => [fst c0; snd c0]) o) with ([b; c] ++ ends o).
      rewrite app_assoc.
      apply Permutation_trans with ([c; b] ++ (a :: rest)); [apply Permutation_refl|].
      apply Permutation_trans with ((a :: rest) ++ [c; b]); [apply Permutation_app_comm|].
      apply Permutation_trans with ((s ++ ends o) ++ [c; b]); [apply Permutation_app_tail; exact IH|].
      rewrite <- !app_assoc. apply Permutation_app_head.
      apply Permutation_trans with ([c; b] ++ ends o); [apply Permutation_app_comm|].
      apply Permutation_app_tail. apply perm_swap.
    + cbn. rewrite app_nil_r. apply Permutation_refl.
Qed.

(* every item fed to the machine ends up exactly once: either as a cycle end point or in the residual *)
Theorem fp_conservation items :
  Permutation items (ends (snd (FP.run items)) ++ rev (fst (FP.run items))).
Proof.
  unfold FP.run.
  assert (H : forall stk out, Permutation (ends out ++ rev stk ++ items)
              (ends (snd (fold_left FP.push items (stk, out))) ++ rev (fst (fold_left FP.push items (stk, out))))).
  { induction items as [|d r IH]; intros stk out.
    - cbn. rewrite app_nil_r. apply Permutation_refl.
    - cbn [fold_left FP.push].
      pose proof (close_perm (length stk) stk (fst d) (le_n _)) as HP.
      destruct (FP.close stk (fst d)) as [s o]. cbn [fst snd] in HP.
      eapply Permutation_trans; [|apply IH].
      unfold ends. rewrite flat_map_app. fold (ends out) (ends o). cbn [rev].
      rewrite <- !app_assoc. apply Permutation_app_head.
      (* rev stk ++ d :: r  ~  ends o ++ rev s ++ [d] ++ r *)
      change (d :: r) with ([d] ++ r). rewrite !app_assoc. apply Permutation_app_tail. apply Permutation_app_tail.
      apply Permutation_trans with stk; [apply Permutation_sym, Permutation_rev|].
      apply Permutation_trans with (s ++ ends o); [exact HP|].
      apply Permutation_trans with (ends o ++ s); [apply Permutation_app_comm|].
      apply Permutation_app_head. apply Permutation_rev. }
  specialize (H [] []). cbn in H. exact H.
Qed.

(* ------------------------------------------------------------------ indices address values *)
Lemma Good_nth L p c i : Good L p c i -> nth_error L c = Some p.
Proof.
  intros (Hi & Hc & Hs). rewrite <- (firstn_skipn c L) at 1.
  rewrite nth_error_app2 by (rewrite firstn_length; lia).
  rewrite firstn_length. replace (c - Nat.min c (length L))%nat with 0%nat by lia.
  rewrite Hs. destruct (i - c)%nat eqn:E; [lia|reflexivity].
Qed.

Lemma nth_error_app_l {A} (l r : list A) n x : nth_error l n = Some x -> nth_error (l ++ r) n = Some x.
Proof. intros H. rewrite nth_error_app1; [exact H|]. apply nth_error_Some. congruence. Qed.

Lemma scanS_addr s : forall L p d c i e st,
  Good L p c i -> scanS p d c i s = (e, st) ->
  Forall (fun iv => nth_error (L ++ s) (fst iv) = Some (snd iv)) e.
Proof.
  induction s as [|x r IH]; intros L p d c i e st HG H; cbn [scanS] in H.
  - inversion H; constructor.
  - destruct (x =? p) eqn:Hxp.
    + apply Z.eqb_eq in Hxp; subst x.
      replace (L ++ p :: r) with ((L ++ [p]) ++ r) by (rewrite <- app_assoc; reflexivity).
      eapply IH; [apply Good_same; exact HG|exact H].
    + destruct (scanS x (Z.sgn (x - p)) i (S i) r) as [rest st1] eqn:Hr.
      assert (HR : Forall (fun iv => nth_error (L ++ x :: r) (fst iv) = Some (snd iv)) rest).
      { replace (L ++ x :: r) with ((L ++ [x]) ++ r) by (rewrite <- app_assoc; reflexivity).
        destruct HG as (Hi & _). eapply IH; [apply Good_new; exact Hi|exact Hr]. }
      destruct (negb (d =? 0) && negb (Z.sgn (x - p) =? d)); inversion H; subst; [|exact HR].
      constructor; [|exact HR]. cbn [fst snd]. apply nth_error_app_l. eapply Good_nth; exact HG.
Qed.

Theorem find_turns_addresses s : Forall (fun iv => nth_error s (fst iv) = Some (snd iv)) (find_turns s).
Proof.
  destruct s as [|x r]; [constructor|]. rewrite find_turns_fresh. cbn [fresh].
  destruct (scanS x 0 0 1 r) as [e st] eqn:H. cbn [fst].
  assert (HG : Good [x] x 0 1) by (repeat split; cbn; lia).
  exact (scanS_addr r [x] x 0 0%nat 1%nat e st HG H).
Qed.
