(* C01 for the FKM detector: the detector is a fold of fkm_turn over the emitted turns with persistent
   state, so chunk independence is a corollary of new_turns_chunked.  Plus the chunk index map. *)
From Coq Require Import ZArith List Bool Lia.
From PL Require Import Rainflow.Model Rainflow.Stream Rainflow.Chunk Rainflow.ChunkThm.
Import ListNotations.
Open Scope Z_scope.

Definition fkm_core := (list Z * nat * Z * list (Z * Z))%type.
Definition fcore (st : fstate) : fkm_core := (fres st, fir st, fmax st, fcyc st).

Lemma processF_feed cs : forall st,
  let '(t, tl, hd) := feed (ftail st) (fhead st) cs in
  let st' := fold_left processF cs st in
  ftail st' = tl /\ fhead st' = hd /\ fcore st' = fold_left fkm_turn (map snd t) (fcore st).
Proof.
  induction cs as [|C r IH]; intros st; cbn [feed fold_left].
  - cbn. auto.
  - destruct (new_turns (ftail st) (fhead st) C false) as [[t tl1] hd1] eqn:HN.
    specialize (IH (processF st C)).
    assert (HP : ftail (processF st C) = tl1 /\ fhead (processF st C) = hd1 /\
                 fcore (processF st C) = fold_left fkm_turn (map snd t) (fcore st)).
    { unfold processF. rewrite HN. unfold fcore.
      destruct (fold_left fkm_turn (map snd t) (fres st, fir st, fmax st, fcyc st)) as [[[res ir] mt] out].
      cbn. auto. }
    destruct HP as (H1 & H2 & H3). rewrite H1, H2 in IH.
    destruct (feed tl1 hd1 r) as [[t2 tl2] hd2]. destruct IH as (I1 & I2 & I3).
    repeat split; [exact I1|exact I2|]. rewrite I3, H3, map_app, fold_left_app. reflexivity.
Qed.

Lemma fstate_eq a b : ftail a = ftail b -> fhead a = fhead b -> fcore a = fcore b -> a = b.
Proof. destruct a, b; unfold fcore; cbn. intros -> -> H. inversion H; reflexivity. Qed.

Theorem fkm_chunked_state (cs : list (list Z)) :
  cs <> [] -> Forall (fun C => C <> []) cs ->
  fold_left processF cs finit = fold_left processF [concat cs] finit.
Proof.
  intros Hne HF.
  pose proof (processF_feed cs finit) as H1. pose proof (processF_feed [concat cs] finit) as H2.
  change (ftail finit) with (@nil Z) in *. change (fhead finit) with 0%nat in *.
  rewrite (new_turns_chunked cs Hne HF) in H1.
  destruct (feed [] 0 [concat cs]) as [[t tl] hd].
  destruct H1 as (A1 & A2 & A3), H2 as (B1 & B2 & B3).
  apply fstate_eq; congruence.
Qed.

Theorem fkm_chunked (cs : list (list Z)) :
  cs <> [] -> Forall (fun C => C <> []) cs -> runF cs = runF [concat cs].
Proof. intros Hne HF. unfold runF. rewrite (fkm_chunked_state cs Hne HF). reflexivity. Qed.

(* ---------- chunk_local_index ---------- *)
Lemma chunk_local_spec : forall (chunks : list (list Z)) g k,
  (g < length (concat chunks))%nat -> Forall (fun C => C <> []) chunks ->
  let '(kk, l) := chunk_local (map (@length Z) chunks) g k in
  (k <= kk)%nat /\ (kk - k < length chunks)%nat /\ (l < length (nth (kk - k) chunks []))%nat /\
  nth l (nth (kk - k) chunks []) 0 = nth g (concat chunks) 0.
Proof.
  induction chunks as [|C r IH]; intros g k Hg HF; cbn [concat length] in Hg; [lia|].
  cbn [map chunk_local]. inversion HF as [|? ? HC HF']; subst.
  destruct (g <? length C)%nat eqn:Hlt.
  - apply Nat.ltb_lt in Hlt. rewrite Nat.sub_diag. cbn [nth length concat].
    split; [lia|]. split; [lia|]. split; [exact Hlt|]. rewrite app_nth1 by exact Hlt. reflexivity.
  - apply Nat.ltb_ge in Hlt. rewrite app_length in Hg.
    specialize (IH (g - length C)%nat (S k) ltac:(lia) HF').
    destruct (chunk_local (map (@length Z) r) (g - length C) (S k)) as [kk l].
    destruct IH as (I1 & I2 & I3 & I4).
    replace (kk - k)%nat with (S (kk - S k)) by lia. cbn [nth length concat].
    split; [lia|]. split; [lia|]. split; [exact I3|]. rewrite I4. rewrite app_nth2 by exact Hlt. reflexivity.
Qed.

(* the recorder's map sends every global index g < total length to the chunk and chunk-local position
   that hold sample g *)
Theorem chunk_local_index_correct (chunks : list (list Z)) g :
  Forall (fun C => C <> []) chunks -> (g < length (concat chunks))%nat ->
  let '(k, l) := chunk_local_index (map (@length Z) chunks) g in
  (k < length chunks)%nat /\ (l < length (nth k chunks []))%nat /\
  nth l (nth k chunks []) 0 = nth g (concat chunks) 0.
Proof.
  intros HF Hg. unfold chunk_local_index. pose proof (chunk_local_spec chunks g 0 Hg HF) as H.
  destruct (chunk_local (map (@length Z) chunks) g 0) as [k l]. rewrite Nat.sub_0_r in H. tauto.
Qed.

(* the recorder's chunk list is the list of chunk lengths *)
Lemma chunks_process4 cs : forall st, chunks (fold_left process4 cs st) = chunks st ++ map (@length Z) cs.
Proof.
  induction cs as [|C r IH]; intros st; cbn [fold_left map]; [rewrite app_nil_r; reflexivity|].
  rewrite IH. unfold process4.
  destruct (new_turns (stail st) (shead st) C false) as [[t tl'] hd'].
  destruct (fourpoint_loop _ _) as [out ri]. cbn [chunks]. rewrite <- app_assoc. reflexivity.
Qed.
Lemma chunks_process3 cs : forall st, chunks (fold_left process3 cs st) = chunks st ++ map (@length Z) cs.
Proof.
  induction cs as [|C r IH]; intros st; cbn [fold_left map]; [rewrite app_nil_r; reflexivity|].
  rewrite IH. unfold process3.
  destruct (new_turns (stail st) (shead st) C false) as [[t tl'] hd'].
  destruct (threepoint_loop _ _ _ _) as [out ri]. cbn [chunks]. rewrite <- app_assoc. reflexivity.
Qed.
