(* C02 for the FKM detector: the flag loop of fkm.py (Model.fkm_close) is the HCM case list of Spec.v;
   every reversal is used exactly once. *)
From Coq Require Import ZArith List Bool Lia Permutation.
From PL Require Import Rainflow.Model Rainflow.Spec Rainflow.Stream Rainflow.Chunk Rainflow.SpecThm.
Import ListNotations.
Open Scope Z_scope.

Lemma fkm_close_is_hcm_cases : forall n res ir mt cur, (length res <= n)%nat ->
  fkm_close res ir mt cur = hcm_cases res ir mt cur.
Proof.
  induction n as [|n IH]; intros res ir mt cur Hl.
  - destruct res; [|cbn in Hl; lia]. cbn [fkm_close hcm_cases length]. rewrite Z.gtb_ltb.
    destruct ir as [|ir]; reflexivity.
  - destruct res as [|l0 [|l1 rest]].
    + apply (IH [] ir mt cur). cbn; lia.
    + cbn [fkm_close hcm_cases length]. rewrite Z.gtb_ltb.
      destruct (Nat.ltb_spec 1 ir), (Nat.ltb_spec ir 1), (Nat.eqb_spec 1 ir); try lia; try reflexivity.
    + assert (Hrec := IH rest ir mt cur ltac:(cbn [length] in *; lia)).
      unfold fkm_close; fold fkm_close. unfold hcm_cases; fold hcm_cases. rewrite Z.gtb_ltb.
      set (len := length (l0 :: l1 :: rest)).
      destruct (Nat.ltb_spec len ir), (Nat.ltb_spec ir len), (Nat.eqb_spec len ir); try lia; try reflexivity.
      (* iz > ir *)
      rewrite Hrec.
      destruct (Z.abs (l0 - l1) <=? Z.abs (cur - l0)) eqn:Ec.
      * apply Z.leb_le in Ec. assert (Hn : (Z.abs (cur - l0) <? Z.abs (l0 - l1)) = false) by (apply Z.ltb_ge; lia).
           rewrite Hn. rewrite (andb_comm (Z.abs l1 <? mt)). reflexivity.
      * apply Z.leb_gt in Ec. assert (Hn : (Z.abs (cur - l0) <? Z.abs (l0 - l1)) = true) by (apply Z.ltb_lt; lia).
           rewrite Hn. reflexivity.
Qed.

Lemma fkm_turn_is_hcm_push st K : fkm_turn st K = hcm_push st K.
Proof.
  destruct st as [[[res ir] mt] out]. unfold fkm_turn, hcm_push.
  rewrite (fkm_close_is_hcm_cases (length res) res ir mt K (le_n _)). reflexivity.
Qed.

(* the FKM detector reports what the HCM rule yields on the interior reversals *)
Theorem fkm_is_hcm s :
  let '(c, r, _) := runF [s] in (c, r) = hcm_spec (map snd (find_turns s)).
Proof.
  unfold runF. cbn [fold_left]. unfold processF. cbn [ftail fhead fres fir fmax fcyc finit].
  rewrite new_turns_first. unfold hcm_spec.
  assert (H : forall l st, fold_left fkm_turn l st = fold_left hcm_push l st).
  { induction l as [|K l IH]; intros st; [reflexivity|]. cbn [fold_left]. rewrite fkm_turn_is_hcm_push. apply IH. }
  rewrite H. destruct (fold_left hcm_push (map snd (find_turns s)) ([], 1%nat, 0, [])) as [[[A ir] mx] out].
  reflexivity.
Qed.

(* conservation: every reversal ends up exactly once, as a cycle end point or in the residual *)
Definition endsZ (o : list (Z * Z)) : list Z := flat_map (fun c => [fst c; snd c]) o.

Lemma hcm_cases_perm : forall n A ir mx K, (length A <= n)%nat ->
  Permutation A (fst (fst (hcm_cases A ir mx K)) ++ endsZ (snd (hcm_cases A ir mx K))).
Proof.
  induction n as [|n IH]; intros A ir mx K Hl.
  - destruct A; [|cbn in Hl; lia]. cbn [hcm_cases length]. destruct ((0 =? ir)%nat), ((0 <? ir)%nat); cbn; constructor.
  - destruct A as [|vJ [|vI rest]].
    + apply (IH [] ir mx K). cbn; lia.
    + cbn [hcm_cases length]. destruct ((1 =? ir)%nat), ((1 <? ir)%nat); cbn; repeat constructor.
    + unfold hcm_cases; fold hcm_cases. set (len := length (vJ :: vI :: rest)).
      destruct (len =? ir)%nat; [cbn; rewrite app_nil_r; apply Permutation_refl|].
      destruct (len <? ir)%nat; [cbn; rewrite app_nil_r; apply Permutation_refl|].
      destruct (Z.abs (K - vJ) <? Z.abs (vJ - vI)); [cbn; rewrite app_nil_r; apply Permutation_refl|].
      destruct ((Z.abs vI <? mx) && (Z.abs vJ <? mx)).
      * specialize (IH rest ir mx K ltac:(cbn [length] in *; lia)).
        destruct (hcm_cases rest ir mx K) as [[A' ir'] o]. cbn [fst snd endsZ flat_map app] in *.
        apply Permutation_trans with ([vJ; vI] ++ rest); [apply Permutation_refl|].
        apply Permutation_trans with (rest ++ [vJ; vI]); [apply Permutation_app_comm|].
        apply Permutation_trans with ((A' ++ endsZ o) ++ [vJ; vI]); [apply Permutation_app_tail; exact IH|].
        rewrite <- app_assoc. apply Permutation_app_head.
        apply Permutation_trans with ([vJ; vI] ++ endsZ o); [apply Permutation_app_comm|].
        cbn [app]. apply perm_swap.
      * cbn [fst snd endsZ flat_map app].
        apply Permutation_trans with ([vJ; vI] ++ rest); [apply Permutation_refl|].
        apply Permutation_trans with (rest ++ [vJ; vI]); [apply Permutation_app_comm|].
        apply Permutation_app_head. apply perm_swap.
Qed.

Theorem hcm_conservation reversals :
  Permutation reversals (endsZ (fst (hcm_spec reversals)) ++ snd (hcm_spec reversals)).
Proof.
  unfold hcm_spec.
  assert (H : forall l A ir mx out,
     let '(A', _, _, out') := fold_left hcm_push l (A, ir, mx, out) in
     Permutation (endsZ out ++ rev A ++ l) (endsZ out' ++ rev A')).
  { induction l as [|K l IH]; intros A ir mx out.
    - cbn. rewrite app_nil_r. apply Permutation_refl.
    - cbn [fold_left hcm_push].
      pose proof (hcm_cases_perm (length A) A ir mx K (le_n _)) as HP.
      destruct (hcm_cases A ir mx K) as [[A1 ir1] o1]. cbn [fst snd] in HP.
      specialize (IH (K :: A1) ir1 (Z.max (Z.abs K) mx) (out ++ o1)).
      destruct (fold_left hcm_push l (K :: A1, ir1, Z.max (Z.abs K) mx, out ++ o1)) as [[[A' ir'] mx'] out'].
      eapply Permutation_trans; [|exact IH].
      unfold endsZ. rewrite flat_map_app. fold (endsZ out) (endsZ o1). cbn [rev].
      rewrite <- !app_assoc. apply Permutation_app_head.
      change (K :: l) with ([K] ++ l). rewrite !app_assoc. do 2 apply Permutation_app_tail.
      apply Permutation_trans with A; [apply Permutation_sym, Permutation_rev|].
      apply Permutation_trans with (A1 ++ endsZ o1); [exact HP|].
      apply Permutation_trans with (endsZ o1 ++ A1); [apply Permutation_app_comm|].
      apply Permutation_app_head. apply Permutation_rev. }
  specialize (H reversals [] 1%nat 0 []).
  destruct (fold_left hcm_push reversals ([], 1%nat, 0, [])) as [[[A' ir'] mx'] out'].
  cbn in H. cbn [fst snd]. exact H.
Qed.
