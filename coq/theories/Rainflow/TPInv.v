(* The invariant of the three-point machine on alternating input: the stack is a strictly diverging part
   (every range larger than the one before: successive new extremes) whose top two entries are the extremes
   H and L, followed by a strictly converging part; mh / ml are the depths of those two entries. *)
From Coq Require Import ZArith List Bool Lia.
From PL Require Import Rainflow.FP Rainflow.TP.
Import ListNotations.
Open Scope Z_scope.

Fixpoint cv (l : list item) : Prop :=
  match l with c :: ((b :: a :: _) as t) => Z.abs (v c - v b) < Z.abs (v b - v a) /\ cv t | _ => True end.
Fixpoint dv (l : list item) : Prop :=
  match l with c :: ((b :: a :: _) as t) => Z.abs (v c - v b) > Z.abs (v b - v a) /\ dv t | _ => True end.

Lemma cv_tl c t : cv (c :: t) -> cv t.
Proof. destruct t as [|b [|a r]]; cbn; tauto. Qed.
Lemma dv_tl c t : dv (c :: t) -> dv t.
Proof. destruct t as [|b [|a r]]; cbn; tauto. Qed.
Lemma cv_app_r p s : cv (p ++ s) -> cv s.
Proof. induction p as [|x p IH]; [auto|]. cbn [app]. intros H. apply IH. eapply cv_tl; exact H. Qed.
Lemma cv3 c b a r : cv (c :: b :: a :: r) <-> Z.abs (v c - v b) < Z.abs (v b - v a) /\ cv (b :: a :: r).
Proof. reflexivity. Qed.
Lemma dv3 c b a r : dv (c :: b :: a :: r) <-> Z.abs (v c - v b) > Z.abs (v b - v a) /\ dv (b :: a :: r).
Proof. reflexivity. Qed.

Definition side (dm dm1 : item) (dr : list item) (H L : Z) (mh ml : nat) : Prop :=
  (v dm = H /\ v dm1 = L /\ mh = S (length dr) /\ ml = length dr) \/
  (v dm = L /\ v dm1 = H /\ ml = S (length dr) /\ mh = length dr).

Definition InvE (stk : list item) (H L : Z) (mh ml : nat) : Prop :=
  exists cs dm dm1 dr, stk = cs ++ dm :: dm1 :: dr /\ zz stk /\ dv (dm :: dm1 :: dr) /\ cv (cs ++ [dm]) /\
    Forall (fun e => L <= v e <= H) cs /\ L < H /\ side dm dm1 dr H L mh ml.

Definition Inv (st : mst) : Prop :=
  let '(stk, H, L, mh, ml) := st in
  match stk with
  | [] => False
  | [x] => H = v x /\ L = v x /\ mh = 0%nat /\ ml = 0%nat
  | _ => L <= H /\ (let '(s, H', L', mh', ml') := can st in InvE s H' L' mh' ml')
  end.

(* ---- the closing loop on a stack of that shape *)
Lemma loop_cs : forall n (cs : list item) dm dm1 dr H L mh ml (d : item),
  (length cs <= n)%nat ->
  zz (d :: cs ++ dm :: dm1 :: dr) -> dv (dm :: dm1 :: dr) -> cv (cs ++ [dm]) ->
  Forall (fun e => L <= v e <= H) cs -> L < H -> side dm dm1 dr H L mh ml ->
  exists s o, close3c (cs ++ dm :: dm1 :: dr) H L mh ml (v d) = ((s, H, L, mh, ml), o) /\
    ((exists pre cs1, cs = pre ++ cs1 /\ s = cs1 ++ dm :: dm1 :: dr /\ cv ((d :: cs1) ++ [dm]) /\
        (cs1 <> [] -> L <= v d <= H) /\ zz (d :: s))
     \/ (s = dm1 :: dr /\ zz (d :: s) /\ (v dm = H -> H <= v d) /\ (v dm = L -> v d <= L))).
Proof.
  induction n as [|n IH]; intros cs dm dm1 dr H L mh ml d Hlen Hz Hdv Hcv Hb HLH Hs.
  - destruct cs; [|cbn in Hlen; lia]. cbn [app] in *.
    exists (dm :: dm1 :: dr), []. split.
    + cbn [close3c]. unfold side in Hs.
      destruct (Z.gtb_spec (v dm) H); [lia|]. destruct (Z.ltb_spec (v dm) L); [lia|].
      idx_false. reflexivity.
    + left. exists [], []. cbn [app]. split; [reflexivity|]. split; [reflexivity|]. split; [exact I|]. split; [congruence|exact Hz].
  - destruct cs as [|c [|c' cs']].
    + apply (IH [] dm dm1 dr H L mh ml d); auto. cbn; lia.
    + (* one entry above dm *)
      cbn [app] in *. inversion Hb as [|? ? Hbc _]; subst.
      apply zz3 in Hz. destruct Hz as [Z1 Hz]. pose proof Hz as Hz0. apply zz3 in Hz. destruct Hz as [Z2 Hz].
      cbn [close3c]. unfold side in Hs.
      destruct (Z.gtb_spec (v c) H); [lia|]. destruct (Z.ltb_spec (v c) L); [lia|].
      replace ((Nat.max ml mh <=? length (dm1 :: dr))%nat) with true
        by (symmetry; apply Nat.leb_le; cbn [length]; lia). cbn [andb].
      destruct (Z.leb_spec (Z.abs (v c - v dm)) (Z.abs (v d - v c))) as [Hr|Hr].
      * (* (dm, c) closes: the later extreme leaves the stack *)
        exists (dm1 :: dr), [(dm, c)]. split.
        -- destruct dr as [|dm2 dr']; [reflexivity|].
           cbn [close3c]. destruct (Z.gtb_spec (v dm1) H); [lia|]. destruct (Z.ltb_spec (v dm1) L); [lia|].
           cbn [length] in *. idx_false. reflexivity.
        -- right. split; [reflexivity|]. split; [|lia].
           destruct dr as [|dm2 dr'].
           ++ cbn [zz]. lia.
           ++ apply zz3 in Hz. destruct Hz as [Z3 Hz].
              change (((v d < v dm1 /\ v dm2 < v dm1) \/ (v dm1 < v d /\ v dm1 < v dm2)) /\ zz (dm1 :: dm2 :: dr')).
              split; [lia|exact Hz].
      * exists (c :: dm :: dm1 :: dr), []. split; [reflexivity|].
        left. exists [], [c]. cbn [app]. split; [reflexivity|]. split; [reflexivity|].
        split; [split; [lia|exact I]|]. split; [intros _; lia|].
        change (((v d < v c /\ v dm < v c) \/ (v c < v d /\ v c < v dm)) /\ zz (c :: dm :: dm1 :: dr)).
        split; [lia|exact Hz0].
    + (* at least two entries above dm *)
      cbn [app] in *. inversion Hb as [|? ? Hbc Hb1]; subst. inversion Hb1 as [|? ? Hbc' Hb2]; subst.
      pose proof Hz as Hz00.
      apply zz3 in Hz. destruct Hz as [Z1 Hz]. pose proof Hz as Hz0.
      cbn [close3c]. unfold side in Hs.
      destruct (Z.gtb_spec (v c) H); [lia|]. destruct (Z.ltb_spec (v c) L); [lia|].
      replace ((Nat.max ml mh <=? length (cs' ++ dm :: dm1 :: dr))%nat) with true
        by (symmetry; apply Nat.leb_le; rewrite app_length; cbn [length]; lia). cbn [andb].
      destruct (Z.leb_spec (Z.abs (v c - v c')) (Z.abs (v d - v c))) as [Hr|Hr].
      * (* (c', c) closes; continue below *)
        assert (Hz' : zz (d :: cs' ++ dm :: dm1 :: dr)).
        { destruct (cs' ++ dm :: dm1 :: dr) as [|e1 [|e2 q]] eqn:E; [destruct cs'; discriminate| |].
          - destruct cs' as [|? [|? ?]]; discriminate.
          - apply zz3 in Hz. destruct Hz as [Z2 Hz]. apply zz3 in Hz. destruct Hz as [Z3 Hz].
            change (((v d < v e1 /\ v e2 < v e1) \/ (v e1 < v d /\ v e1 < v e2)) /\ zz (e1 :: e2 :: q)).
            split; [lia|exact Hz]. }
        assert (Hcv' : cv (cs' ++ [dm])) by (apply cv_tl in Hcv; apply cv_tl in Hcv; exact Hcv).
        destruct (IH cs' dm dm1 dr H L mh ml d ltac:(cbn [length] in Hlen; lia) Hz' Hdv Hcv' Hb2 HLH Hs)
          as (s & o & Hc & Hcase).
        exists s, ((c', c) :: o). split; [rewrite Hc; reflexivity|].
        destruct Hcase as [(pre & cs1 & E1 & E2 & E3 & E4 & E5)|Hright].
        -- left. exists (c :: c' :: pre), cs1. cbn [app]. rewrite E1. auto.
        -- right. exact Hright.
      * exists (c :: c' :: cs' ++ dm :: dm1 :: dr), []. split; [reflexivity|].
        left. exists [], (c :: c' :: cs'). cbn [app]. split; [reflexivity|]. split; [reflexivity|].
        split.
        { destruct (cs' ++ [dm]) as [|e q] eqn:E; [destruct cs'; discriminate|].
          change (Z.abs (v d - v c) < Z.abs (v c - v c') /\ cv (c :: c' :: e :: q)). split; [lia|exact Hcv]. }
        split; [intros _; lia|].
        destruct (cs' ++ dm :: dm1 :: dr) as [|e q] eqn:E; [destruct cs'; discriminate|].
        change (((v d < v c /\ v c' < v c) \/ (v c < v d /\ v c < v c')) /\ zz (c :: c' :: e :: q)).
        split; [lia|exact Hz0].
Qed.

(* ---- the state after the push satisfies the invariant again *)
Lemma InvE_intro (cs : list item) dm dm1 dr H L mh ml :
  zz (cs ++ dm :: dm1 :: dr) -> dv (dm :: dm1 :: dr) -> cv (cs ++ [dm]) ->
  Forall (fun e => L <= v e <= H) cs -> L < H -> side dm dm1 dr H L mh ml ->
  InvE (cs ++ dm :: dm1 :: dr) H L mh ml.
Proof. intros. exists cs, dm, dm1, dr. auto 10. Qed.

Ltac zz_head := match goal with |- zz (?d :: ?c :: ?b :: ?r) =>
  change (((v d < v c /\ v b < v c) \/ (v c < v d /\ v c < v b)) /\ zz (c :: b :: r)) end.

Lemma after_push (cs : list item) dm dm1 dr H L mh ml (d : item) s :
  dv (dm :: dm1 :: dr) -> Forall (fun e => L <= v e <= H) cs -> L < H -> side dm dm1 dr H L mh ml ->
  ((exists pre cs1, cs = pre ++ cs1 /\ s = cs1 ++ dm :: dm1 :: dr /\ cv ((d :: cs1) ++ [dm]) /\
        (cs1 <> [] -> L <= v d <= H) /\ zz (d :: s))
     \/ (s = dm1 :: dr /\ zz (d :: s) /\ (v dm = H -> H <= v d) /\ (v dm = L -> v d <= L))) ->
  Inv (d :: s, H, L, mh, ml).
Proof.
  intros Hdv Hb HLH Hs [(pre & cs1 & E1 & E2 & E3 & E4 & E5)|(E2 & E5 & E6 & E7)].
  - subst cs s. apply Forall_app in Hb. destruct Hb as [_ Hb1].
    destruct cs1 as [|c1 cs1'].
    + (* pushed directly onto the later extreme *)
      cbn [app] in *. cbn [Inv]. split; [lia|]. cbn [can].
      pose proof E5 as E50. apply zz3 in E5. destruct E5 as [Z1 Hz]. unfold side in Hs.
      destruct (Z.gtb_spec (v d) H) as [G|G]; [|destruct (Z.ltb_spec (v d) L) as [Lt|Lt]].
      * apply (InvE_intro [] d dm (dm1 :: dr)); cbn [app];
          [exact E50|apply dv3; split; [lia|exact Hdv]|exact I|constructor|lia|unfold side; cbn [length]; lia].
      * apply (InvE_intro [] d dm (dm1 :: dr)); cbn [app];
          [exact E50|apply dv3; split; [lia|exact Hdv]|exact I|constructor|lia|unfold side; cbn [length]; lia].
      * apply (InvE_intro [d] dm dm1 dr); cbn [app];
          [exact E50|exact Hdv|exact I|constructor; [lia|constructor]|lia|exact Hs].
    + (* pushed inside the converging part *)
      specialize (E4 ltac:(discriminate)). cbn [app] in *. cbn [Inv]. split; [lia|].
      assert (Ec : can (d :: c1 :: cs1' ++ dm :: dm1 :: dr, H, L, mh, ml) = (d :: c1 :: cs1' ++ dm :: dm1 :: dr, H, L, mh, ml)).
      { destruct (cs1' ++ dm :: dm1 :: dr) eqn:E; [destruct cs1'; discriminate|]. cbn [can].
        destruct (Z.gtb_spec (v d) H); [lia|]. destruct (Z.ltb_spec (v d) L); [lia|]. reflexivity. }
      destruct (cs1' ++ dm :: dm1 :: dr) as [|e q] eqn:E; [destruct cs1'; discriminate|].
      rewrite Ec. rewrite <- E in *.
      apply (InvE_intro (d :: c1 :: cs1') dm dm1 dr);
        [exact E5|exact Hdv|exact E3|constructor; [lia|exact Hb1]|lia|exact Hs].
  - subst s. cbn [Inv]. split; [lia|]. cbn [can]. unfold side in Hs.
    assert (Hdv' : forall x : item, Z.abs (v x - v dm1) >= Z.abs (v dm - v dm1) -> dv (x :: dm1 :: dr)).
    { intros x Hx. destruct dr as [|dm2 dr']; [exact I|]. apply dv3. apply dv3 in Hdv. destruct Hdv as [D1 D2].
      split; [lia|exact D2]. }
    pose proof (zz_ne _ _ _ E5) as Hne.
    destruct (Z.gtb_spec (v d) H) as [G|G]; [|destruct (Z.ltb_spec (v d) L) as [Lt|Lt]].
    + apply (InvE_intro [] d dm1 dr); cbn [app];
        [exact E5|apply Hdv'; lia|exact I|constructor|lia|unfold side; lia].
    + apply (InvE_intro [] d dm1 dr); cbn [app];
        [exact E5|apply Hdv'; lia|exact I|constructor|lia|unfold side; lia].
    + apply (InvE_intro [] d dm1 dr); cbn [app];
        [exact E5|apply Hdv'; lia|exact I|constructor|lia|unfold side; lia].
Qed.

Lemma can_stack st : stack (can st) = stack st.
Proof.
  destruct st as [[[[stk H] L] mh] ml]. destruct stk as [|f [|s r]]; try reflexivity.
  cbn [can]. destruct (v f >? H); [reflexivity|]. destruct (v f <? L); reflexivity.
Qed.

Lemma feed_inv st out d : Inv st -> zz (d :: stack st) -> Inv (fst (feed3 (st, out) d)).
Proof.
  destruct st as [[[[stk H] L] mh] ml]. cbn [stack]. intros HI Hz.
  destruct stk as [|x [|y r]]; [contradiction| |].
  - cbn [Inv] in HI. destruct HI as (-> & -> & -> & ->). cbn [feed3 close3c fst app].
    cbn [zz] in Hz. cbn [Inv]. split; [lia|]. cbn [can length].
    destruct (Z.gtb_spec (v d) (v x)) as [G|G].
    + apply (InvE_intro [] d x []); cbn [app];
        [cbn [zz]; lia|exact I|exact I|constructor|lia|unfold side; cbn [length]; lia].
    + destruct (Z.ltb_spec (v d) (v x)) as [Lt|Lt]; [|lia].
      apply (InvE_intro [] d x []); cbn [app];
        [cbn [zz]; lia|exact I|exact I|constructor|lia|unfold side; cbn [length]; lia].
  - destruct HI as [HLH HI].
    rewrite feed3_can by exact HLH.
    pose proof (can_stack (x :: y :: r, H, L, mh, ml)) as Hst.
    destruct (can (x :: y :: r, H, L, mh, ml)) as [[[[s0 H'] L'] mh'] ml']. cbn [stack] in Hst. subst s0.
    destruct HI as (cs & dm & dm1 & dr & E & Hzz & Hdv & Hcv & Hb & HLH' & Hs).
    rewrite E in Hz.
    destruct (loop_cs (length cs) cs dm dm1 dr H' L' mh' ml' d (le_n _) Hz Hdv Hcv Hb HLH' Hs) as (s & o & Hc & Hcase).
    cbn [feed3]. rewrite E, Hc. cbn [fst].
    exact (after_push cs dm dm1 dr H' L' mh' ml' d s Hdv Hb HLH' Hs Hcase).
Qed.

(* ---- bounds that follow from the shape *)
Lemma dv_inside : forall (r : list item) a b, zz (a :: b :: r) -> dv (a :: b :: r) ->
  Forall (fun e => Z.min (v a) (v b) < v e < Z.max (v a) (v b)) r.
Proof.
  induction r as [|c r IH]; intros a b Hz Hd; [constructor|].
  apply zz3 in Hz. destruct Hz as [Z1 Hz]. apply dv3 in Hd. destruct Hd as [D1 Hd].
  constructor; [lia|].
  eapply Forall_impl; [|exact (IH b c Hz Hd)]. cbn beta. intros e He. lia.
Qed.

Lemma InvE_bounds stk H L mh ml : InvE stk H L mh ml -> Forall (fun e => L <= v e <= H) stk.
Proof.
  intros (cs & dm & dm1 & dr & E & Hz & Hdv & Hcv & Hb & HLH & Hs). subst stk.
  apply Forall_app. split; [exact Hb|].
  pose proof (dv_inside dr dm dm1 (zz_app_r _ _ Hz) Hdv) as Hin. unfold side in Hs.
  constructor; [lia|]. constructor; [lia|].
  eapply Forall_impl; [|exact Hin]. cbn beta. intros e He. lia.
Qed.

(* ---- pushing the stack's own entries again closes nothing *)
Fixpoint quiet (H L : Z) (mh ml : nat) (stk : list item) : Prop :=
  match stk with
  | d :: t => close3c t H L mh ml (v d) = ((t, H, L, mh, ml), []) /\ quiet H L mh ml t
  | [] => True
  end.

Lemma refold3 H L mh ml stk : quiet H L mh ml stk ->
  fold_left feed3 (rev stk) (([], H, L, mh, ml), []) = ((stk, H, L, mh, ml), []).
Proof.
  induction stk as [|d t IH]; intros Hq; [reflexivity|].
  cbn [rev]. rewrite fold_left_app. cbn [quiet] in Hq. destruct Hq as [Hc Hq]. rewrite (IH Hq).
  cbn [fold_left feed3]. rewrite Hc. reflexivity.
Qed.

Lemma close_short (t : list item) H L mh ml b :
  Forall (fun e => L <= v e <= H) t -> (length t <= S (Nat.max ml mh))%nat ->
  close3c t H L mh ml b = ((t, H, L, mh, ml), []).
Proof.
  intros Hb Hl. destruct t as [|f [|s rest]]; try reflexivity.
  inversion Hb as [|? ? Hf _]; subst. cbn [close3c].
  destruct (Z.gtb_spec (v f) H); [lia|]. destruct (Z.ltb_spec (v f) L); [lia|].
  cbn [length] in Hl. idx_false. reflexivity.
Qed.

Lemma quiet_short H L mh ml : forall stk : list item,
  Forall (fun e => L <= v e <= H) stk -> (length stk <= S (S (Nat.max ml mh)))%nat -> quiet H L mh ml stk.
Proof.
  induction stk as [|d t IH]; intros Hb Hl; [exact I|].
  inversion Hb as [|? ? _ Hbt]; subst. cbn [length] in Hl. cbn [quiet]. split.
  - apply close_short; [exact Hbt|lia].
  - apply IH; [exact Hbt|lia].
Qed.

Lemma InvE_quiet stk H L mh ml : InvE stk H L mh ml -> quiet H L mh ml stk.
Proof.
  intros HI. pose proof (InvE_bounds _ _ _ _ _ HI) as HB.
  destruct HI as (cs & dm & dm1 & dr & E & Hz & Hdv & Hcv & Hb & HLH & Hs). subst stk.
  assert (Hmx : Nat.max ml mh = S (length dr)) by (unfold side in Hs; lia).
  assert (HBd : Forall (fun e => L <= v e <= H) (dm :: dm1 :: dr)) by (apply Forall_app in HB; tauto).
  clear Hz HB.
  induction cs as [|c cs IH].
  - cbn [app]. apply quiet_short; [exact HBd|]. cbn [length]. lia.
  - cbn [app]. inversion Hb as [|? ? Hc Hb']; subst. cbn [quiet]. split.
    + destruct cs as [|c1 [|c2 cs']].
      * cbn [app]. apply close_short; [exact HBd|]. cbn [length]. lia.
      * cbn [app] in *. inversion Hb' as [|? ? Hc1 _]; subst.
        cbn [close3c]. destruct (Z.gtb_spec (v c1) H); [lia|]. destruct (Z.ltb_spec (v c1) L); [lia|].
        destruct Hcv as [Hr _].
        destruct (Z.leb_spec (Z.abs (v c1 - v dm)) (Z.abs (v c - v c1))); [lia|].
        rewrite Bool.andb_false_r. reflexivity.
      * cbn [app] in *. inversion Hb' as [|? ? Hc1 _]; subst.
        cbn [close3c]. destruct (Z.gtb_spec (v c1) H); [lia|]. destruct (Z.ltb_spec (v c1) L); [lia|].
        assert (Hr : Z.abs (v c - v c1) < Z.abs (v c1 - v c2)).
        { destruct (cs' ++ [dm]); cbn [cv] in Hcv; tauto. }
        destruct (Z.leb_spec (Z.abs (v c1 - v c2)) (Z.abs (v c - v c1))); [lia|].
        rewrite Bool.andb_false_r. reflexivity.
    + apply IH; [eapply cv_tl; exact Hcv|exact Hb'].
Qed.

(* ---- states that differ only in what examining the top would repair *)
Definition wf (st : mst) : Prop := let '(_, H, L, _, _) := st in L <= H.
Definition eqv (st st' : mst) : Prop := can st = can st' /\ wf st /\ wf st'.

Lemma feed3_eqv st st' o d : eqv st st' -> feed3 (st, o) d = feed3 (st', o) d.
Proof.
  intros (Hc & W1 & W2). rewrite (feed3_can st o d), (feed3_can st' o d), Hc; [reflexivity| |].
  - destruct st' as [[[[? ?] ?] ?] ?]. exact W2.
  - destruct st as [[[[? ?] ?] ?] ?]. exact W1.
Qed.

Lemma fold_eqv items st st' o : eqv st st' ->
  stack (fst (fold_left feed3 items (st, o))) = stack (fst (fold_left feed3 items (st', o))) /\
  snd (fold_left feed3 items (st, o)) = snd (fold_left feed3 items (st', o)).
Proof.
  intros He. destruct items as [|d r].
  - cbn [fold_left fst snd]. split; [|reflexivity]. destruct He as [Hc _].
    rewrite <- (can_stack st), <- (can_stack st'), Hc. reflexivity.
  - cbn [fold_left]. rewrite (feed3_eqv st st' o d He). auto.
Qed.

Lemma eqv_refl st : wf st -> eqv st st.
Proof. intros W. split; [reflexivity|split; exact W]. Qed.

Lemma close3c_wf : forall n (stk : list item) H L mh ml b, (length stk <= n)%nat -> L <= H ->
  wf (fst (close3c stk H L mh ml b)).
Proof.
  induction n as [|n IH]; intros stk H L mh ml b Hl HLH.
  - destruct stk; [exact HLH|cbn in Hl; lia].
  - destruct stk as [|f [|s rest]]; try exact HLH. cbn [close3c].
    destruct (Z.gtb_spec (v f) H); [cbn; lia|]. destruct (Z.ltb_spec (v f) L); [cbn; lia|].
    destruct (_ && _); [|exact HLH].
    specialize (IH rest H L mh ml b ltac:(cbn [length] in Hl; lia) HLH).
    destruct (close3c rest H L mh ml b) as [st o]. exact IH.
Qed.

Lemma feed3_wf (st : mst) o d : wf st -> wf (fst (feed3 (st, o) d)).
Proof.
  destruct st as [[[[stk H] L] mh] ml]. intros W. cbn [feed3].
  pose proof (close3c_wf (length stk) stk H L mh ml (v d) (le_n _) W) as Hw.
  destruct (close3c stk H L mh ml (v d)) as [[[[[s H'] L'] mh'] ml'] o2]. exact Hw.
Qed.

(* ---- the stack a chunk leaves behind: shaped for the parameters the next chunk recomputes *)
Definition Shaped (s : list item) (p : Z * Z * nat * nat) : Prop :=
  let '(H, L, mh, ml) := p in
  match s with
  | [] => False
  | [x] => H = v x /\ L = v x /\ mh = 0%nat /\ ml = 0%nat
  | _ => InvE s H L mh ml
  end.

Lemma Shaped_of_InvE s H L mh ml : InvE s H L mh ml -> Shaped s (H, L, mh, ml).
Proof.
  intros HI. destruct s as [|a [|b r]]; [| |exact HI];
  destruct HI as (cs & dm & dm1 & dr & E & _); destruct cs as [|? [|? ?]]; discriminate.
Qed.

Lemma Shaped_quiet s H L mh ml : Shaped s (H, L, mh, ml) -> quiet H L mh ml s.
Proof.
  destruct s as [|a [|b r]]; cbn [Shaped]; [contradiction| |apply InvE_quiet].
  intros _. cbn [quiet close3c]. auto.
Qed.

Definition hole_par (dm1 : item) (dr : list item) (H L : Z) : Z * Z * nat * nat :=
  match dr with
  | [] => (v dm1, v dm1, 0%nat, 0%nat)
  | dm2 :: dr' => if v dm1 =? L then (v dm2, L, length dr', S (length dr'))
                  else (H, v dm2, S (length dr'), length dr')
  end.

Lemma hole_shaped dm dm1 dr H L mh ml :
  zz (dm :: dm1 :: dr) -> dv (dm :: dm1 :: dr) -> L < H -> side dm dm1 dr H L mh ml ->
  Shaped (dm1 :: dr) (hole_par dm1 dr H L).
Proof.
  intros Hz Hdv HLH Hs. unfold hole_par, side in *. destruct dr as [|dm2 dr']; [cbn; auto|].
  apply zz3 in Hz. destruct Hz as [Z1 Hz]. apply dv3 in Hdv. destruct Hdv as [D1 Hdv].
  destruct (Z.eqb_spec (v dm1) L) as [E|E]; cbn [Shaped].
  - apply (InvE_intro [] dm1 dm2 dr'); cbn [app]; [exact Hz|exact Hdv|exact I|constructor|lia|unfold side; lia].
  - apply (InvE_intro [] dm1 dm2 dr'); cbn [app]; [exact Hz|exact Hdv|exact I|constructor|lia|unfold side; lia].
Qed.

Lemma hole_eqv dm dm1 dr H L mh ml (y : item) o :
  zz (dm :: dm1 :: dr) -> dv (dm :: dm1 :: dr) -> L < H -> side dm dm1 dr H L mh ml ->
  (v dm = H -> H <= v y) -> (v dm = L -> v y <= L) ->
  let '(H', L', mh', ml') := hole_par dm1 dr H L in
  eqv (fst (feed3 ((dm1 :: dr, H', L', mh', ml'), o) y)) (fst (feed3 ((dm1 :: dr, H, L, mh, ml), o) y)) /\
  snd (feed3 ((dm1 :: dr, H', L', mh', ml'), o) y) = snd (feed3 ((dm1 :: dr, H, L, mh, ml), o) y).
Proof.
  intros Hz Hdv HLH Hs Hy1 Hy2. unfold hole_par, side in *.
  destruct dr as [|dm2 dr'].
  - cbn [length] in *. cbn [feed3 close3c fst snd]. split; [|reflexivity]. unfold eqv, wf. cbn [can length].
    split; [|lia].
    destruct (Z.gtb_spec (v y) (v dm1)); destruct (Z.gtb_spec (v y) H); destruct (Z.ltb_spec (v y) (v dm1));
      destruct (Z.ltb_spec (v y) L); try lia; repeat f_equal; lia.
  - apply zz3 in Hz. destruct Hz as [Z1 Hz]. apply dv3 in Hdv. destruct Hdv as [D1 Hdv].
    destruct (Z.eqb_spec (v dm1) L) as [E|E].
    + cbn [feed3 close3c].
      destruct (Z.gtb_spec (v dm1) (v dm2)); [lia|]. destruct (Z.ltb_spec (v dm1) L); [lia|].
      destruct (Z.gtb_spec (v dm1) H); [lia|].
      cbn [length] in *. idx_false. idx_false.
      cbn [fst snd]. split; [|reflexivity]. unfold eqv, wf. cbn [can length]. split; [|lia].
      destruct (Z.gtb_spec (v y) (v dm2)); destruct (Z.gtb_spec (v y) H); destruct (Z.ltb_spec (v y) L);
        try lia; repeat f_equal; lia.
    + cbn [feed3 close3c].
      destruct (Z.gtb_spec (v dm1) H); [lia|]. destruct (Z.ltb_spec (v dm1) (v dm2)); [lia|].
      destruct (Z.ltb_spec (v dm1) L); [lia|].
      cbn [length] in *. idx_false. idx_false.
      cbn [fst snd]. split; [|reflexivity]. unfold eqv, wf. cbn [can length]. split; [|lia].
      destruct (Z.gtb_spec (v y) H); destruct (Z.ltb_spec (v y) (v dm2)); destruct (Z.ltb_spec (v y) L);
        try lia; repeat f_equal; lia.
Qed.

(* ---- what the closing loop of a provisional sample leaves: a shaped stack, and feeding the next item
   from the recomputed parameters is equivalent to feeding it from the parameters the loop ended with *)
Lemma mid (stk : list item) H L mh ml x i :
  Inv (stk, H, L, mh, ml) -> ((exists a, stk = [a]) \/ zz ((x, i) :: stk)) ->
  let '((s1, H1, L1, mh1, ml1), o1) := close3c stk H L mh ml x in
  exists p', Shaped s1 p' /\
    forall (y : item) o, ((exists a, stk = [a]) \/ match stk with t :: _ => far (v t) x (v y) | [] => True end) ->
      let '(H', L', mh', ml') := p' in
      eqv (fst (feed3 ((s1, H', L', mh', ml'), o) y)) (fst (feed3 ((s1, H1, L1, mh1, ml1), o) y)) /\
      snd (feed3 ((s1, H', L', mh', ml'), o) y) = snd (feed3 ((s1, H1, L1, mh1, ml1), o) y).
Proof.
  intros HI Hz. destruct stk as [|x0 [|y0 r]]; [contradiction| |].
  - cbn [Inv] in HI. destruct HI as (-> & -> & -> & ->). cbn [close3c].
    exists (v x0, v x0, 0%nat, 0%nat). split; [cbn; auto|]. intros y o _. split; [|reflexivity].
    apply eqv_refl. apply feed3_wf. cbn. lia.
  - destruct Hz as [(a & Ea)|Hz]; [discriminate|].
    destruct HI as [HLH HI]. rewrite (close3c_can _ _ _ _ _ x HLH).
    pose proof (can_stack (x0 :: y0 :: r, H, L, mh, ml)) as Hst.
    destruct (can (x0 :: y0 :: r, H, L, mh, ml)) as [[[[s0 H'] L'] mh'] ml']. cbn [stack] in Hst. subst s0.
    pose proof (InvE_bounds _ _ _ _ _ HI) as HB. inversion HB as [|? ? Hx0 _]; subst.
    destruct HI as (cs & dm & dm1 & dr & E & Hzz & Hdv & Hcv & Hb & HLH' & Hs).
    rewrite E in Hz, Hzz |- *.
    destruct (loop_cs (length cs) cs dm dm1 dr H' L' mh' ml' (x, i) (le_n _) Hz Hdv Hcv Hb HLH' Hs) as (s & o & Hc & Hcase).
    cbn [v fst] in Hc. rewrite Hc.
    destruct Hcase as [(pre & cs1 & E1 & E2 & E3 & E4 & E5)|(E2 & E5 & E6 & E7)].
    + exists (H', L', mh', ml'). split.
      * apply Shaped_of_InvE. subst s. apply InvE_intro; auto.
        -- eapply zz_tl; exact E5.
        -- eapply cv_tl; exact E3.
        -- subst cs. apply Forall_app in Hb. tauto.
      * intros y o2 _. split; [|reflexivity]. apply eqv_refl. apply feed3_wf. cbn. lia.
    + subst s. exists (hole_par dm1 dr H' L'). split.
      * apply (hole_shaped dm dm1 dr H' L' mh' ml'); auto. eapply zz_app_r; exact Hzz.
      * intros y o2 [(a & Ea)|Hfar]; [destruct cs as [|? [|? ?]]; discriminate|]. cbn [v fst] in E6, E7.
        apply (hole_eqv dm dm1 dr H' L' mh' ml' y o2); auto.
        -- eapply zz_app_r; exact Hzz.
        -- intros Hd. specialize (E6 Hd). unfold far in Hfar. lia.
        -- intros Hd. specialize (E7 Hd). unfold far in Hfar. lia.
Qed.

Lemma Inv_wf st : Inv st -> wf st.
Proof.
  destruct st as [[[[stk H] L] mh] ml]. destruct stk as [|a [|b r]]; cbn [Inv wf]; [contradiction| |tauto].
  intros (-> & -> & _). lia.
Qed.

Lemma run3c_snoc p0 items d : run3c p0 (items ++ [d]) = feed3 (run3c p0 items) d.
Proof. unfold run3c. rewrite fold_left_app. reflexivity. Qed.

(* ---- the core: continuing from the stored residual equals continuing the one-piece run *)
Lemma core_step3 (p0 : mst) (I T : list item) (x x' : Z) (i : nat) stk H L mh ml Oc Sk H1 L1 mh1 ml1 ox :
  run3c p0 I = ((stk, H, L, mh, ml), Oc) -> Inv (stk, H, L, mh, ml) ->
  close3c stk H L mh ml x = ((Sk, H1, L1, mh1, ml1), ox) ->
  ((exists a, stk = [a]) \/
   (zz ((x, i) :: stk) /\
    match stk with t :: _ => far (v t) x (match T with [] => x' | yi :: _ => v yi end) | [] => True end)) ->
  exists p', Shaped Sk p' /\
  let '(H', L', mh', ml') := p' in
  let '(st', Oc') := run3c p0 (I ++ T) in
  let '(stk', H2, L2, mh2, ml2) := st' in
  let '((Sk', _, _, _, _), ox') := close3c stk' H2 L2 mh2 ml2 x' in
  let '(stC, oC) := fold_left feed3 (rev Sk ++ T ++ [(x', 0%nat)]) (([], H', L', mh', ml'), []) in
  stack stC = (x', 0%nat) :: Sk' /\ oC = skipn (length (Oc ++ ox)) (Oc' ++ ox') /\
  firstn (length (Oc ++ ox)) (Oc' ++ ox') = Oc ++ ox.
Proof.
  intros HR HI HC Hgeo.
  assert (Hz : (exists a, stk = [a]) \/ zz ((x, i) :: stk)) by (destruct Hgeo as [?|[? _]]; auto).
  pose proof (mid stk H L mh ml x i HI Hz) as HM. rewrite HC in HM. destruct HM as (p' & HSh & HM).
  exists p'. split; [exact HSh|]. destruct p' as [[[H' L'] mh'] ml'].
  (* one-piece run *)
  assert (Hone : run3c p0 ((I ++ T) ++ [(x', 0%nat)]) = fold_left feed3 (T ++ [(x', 0%nat)]) ((stk, H, L, mh, ml), Oc)).
  { unfold run3c. rewrite <- app_assoc, fold_left_app. fold (run3c p0 I). rewrite HR. reflexivity. }
  rewrite run3c_snoc in Hone.
  destruct (run3c p0 (I ++ T)) as [[[[[stk' H2] L2] mh2] ml2] Oc'] eqn:HR'. cbn [feed3 v fst] in Hone.
  destruct (close3c stk' H2 L2 mh2 ml2 x') as [[[[[Sk' H3] L3] mh3] ml3] ox'] eqn:HC'.
  (* chunked run *)
  rewrite fold_left_app. rewrite (refold3 H' L' mh' ml' Sk (Shaped_quiet _ _ _ _ _ HSh)).
  set (items2 := T ++ [(x', 0%nat)]) in *.
  assert (Hy : exists yi rest2, items2 = yi :: rest2 /\ v yi = match T with [] => x' | yi :: _ => v yi end).
  { unfold items2. destruct T as [|yi T']; [exists (x', 0%nat), []; auto|exists yi, (T' ++ [(x', 0%nat)]); auto]. }
  destruct Hy as (yi & rest2 & Hi2 & Hyv). rewrite Hi2 in *. rewrite <- Hyv in Hgeo.
  cbn [fold_left] in Hone |- *.
  (* first item: the provisional sample's closures come first *)
  assert (Hfirst : feed3 ((stk, H, L, mh, ml), Oc) yi =
                   (fst (feed3 ((Sk, H1, L1, mh1, ml1), []) yi), (Oc ++ ox) ++ snd (feed3 ((Sk, H1, L1, mh1, ml1), []) yi))).
  { cbn [feed3].
    assert (Hprov : close3c stk H L mh ml (v yi) =
                    let '((s1, H5, L5, mh5, ml5), o1) := close3c stk H L mh ml x in
                    let '(st2, o2) := close3c s1 H5 L5 mh5 ml5 (v yi) in (st2, o1 ++ o2)).
    { destruct Hgeo as [(a & ->)|[Hzz Hfar]].
      - cbn [close3c app]. reflexivity.
      - exact (close3c_prov (length stk) stk H L mh ml x (v yi) i (le_n _) (Inv_wf _ HI) Hzz Hfar). }
    rewrite Hprov. rewrite HC.
    destruct (close3c Sk H1 L1 mh1 ml1 (v yi)) as [[[[[s2 H4] L4] mh4] ml4] o2]. cbn [fst snd app].
    rewrite app_assoc. reflexivity. }
  rewrite Hfirst in Hone.
  assert (Hfar2 : (exists a, stk = [a]) \/ match stk with t :: _ => far (v t) x (v yi) | [] => True end)
    by (destruct Hgeo as [?|[_ ?]]; auto).
  specialize (HM yi [] Hfar2). cbn beta iota in HM. destruct HM as [He Ho].
  destruct (feed3 ((Sk, H', L', mh', ml'), []) yi) as [sa oa].
  destruct (feed3 ((Sk, H1, L1, mh1, ml1), []) yi) as [sb ob]. cbn [fst snd] in *. subst ob.
  rewrite fold_feed_out in Hone.
  destruct (fold_eqv rest2 sa sb oa He) as [Hst Hout].
  rewrite (fold_feed_out rest2 sb oa) in Hst, Hout. cbn [fst snd] in Hst, Hout.
  destruct (fold_left feed3 rest2 (sa, oa)) as [stC oC]. cbn [fst snd] in *.
  inversion Hone as [[Hs Ho]].
  split; [|split].
  - rewrite Hst, <- Hs. reflexivity.
  - rewrite Hout, Ho. rewrite <- (app_assoc (Oc ++ ox)). rewrite skipn_app, skipn_all, Nat.sub_diag. reflexivity.
  - rewrite Ho. rewrite <- (app_assoc (Oc ++ ox)). rewrite firstn_app, firstn_all, Nat.sub_diag. cbn [firstn]. apply app_nil_r.
Qed.
