(* C01, three-point detector: chunk independence for EVERY signal and EVERY partition (unbounded).
   After any non-empty prefix P fed in any chunking, the detector state is the function StateOK3 of P alone.
   The next chunk restarts the kernel from the stored residual with highest/lowest front recomputed by
   argmax/argmin; TPInv.v shows that this reproduces the one-piece run. *)
From Coq Require Import ZArith List Bool Lia.
From PL Require Import Rainflow.Model Rainflow.FP Rainflow.Refine Rainflow.Stream Rainflow.Chunk Rainflow.ChunkThm
  Rainflow.SpecThm Rainflow.IndexThm Rainflow.ProcItems Rainflow.Geom Rainflow.Alt Rainflow.Chunk4
  Rainflow.TP Rainflow.TPInv Rainflow.TPChain Rainflow.Refine3.
Import ListNotations.
Open Scope Z_scope.

(* ---- numpy argmax / argmin: the first occurrence of the extreme *)
Lemma argfirst_keep_gt : forall l i bv bi, Forall (fun e => e <= bv) l -> argfirst Z.gtb l i bv bi = bi.
Proof.
  induction l as [|e l IH]; intros i bv bi HF; [reflexivity|]. inversion HF; subst. cbn [argfirst].
  destruct (Z.gtb_spec e bv); [lia|]. apply IH. assumption.
Qed.
Lemma argfirst_find_gt : forall pre x post i bv bi,
  Forall (fun e => e < x) pre -> bv < x -> Forall (fun e => e <= x) post ->
  argfirst Z.gtb (pre ++ x :: post) i bv bi = (i + length pre)%nat.
Proof.
  induction pre as [|e pre IH]; intros x post i bv bi Hp Hb Hq.
  - cbn [app argfirst length]. destruct (Z.gtb_spec x bv); [|lia]. rewrite argfirst_keep_gt by exact Hq. lia.
  - inversion Hp; subst. cbn [app argfirst length].
    destruct (Z.gtb_spec e bv); rewrite IH by (auto; lia); lia.
Qed.
Lemma argmax_at pre x post : Forall (fun e => e < x) pre -> Forall (fun e => e <= x) post ->
  argmax (pre ++ x :: post) = length pre.
Proof.
  intros Hp Hq. destruct pre as [|e pre].
  - cbn [app argmax length]. apply argfirst_keep_gt. exact Hq.
  - inversion Hp; subst. cbn [app argmax length]. rewrite argfirst_find_gt by auto. lia.
Qed.
Lemma argfirst_keep_lt : forall l i bv bi, Forall (fun e => bv <= e) l -> argfirst Z.ltb l i bv bi = bi.
Proof.
  induction l as [|e l IH]; intros i bv bi HF; [reflexivity|]. inversion HF; subst. cbn [argfirst].
  destruct (Z.ltb_spec e bv); [lia|]. apply IH. assumption.
Qed.
Lemma argfirst_find_lt : forall pre x post i bv bi,
  Forall (fun e => x < e) pre -> x < bv -> Forall (fun e => x <= e) post ->
  argfirst Z.ltb (pre ++ x :: post) i bv bi = (i + length pre)%nat.
Proof.
  induction pre as [|e pre IH]; intros x post i bv bi Hp Hb Hq.
  - cbn [app argfirst length]. destruct (Z.ltb_spec x bv); [|lia]. rewrite argfirst_keep_lt by exact Hq. lia.
  - inversion Hp; subst. cbn [app argfirst length].
    destruct (Z.ltb_spec e bv); rewrite IH by (auto; lia); lia.
Qed.
Lemma argmin_at pre x post : Forall (fun e => x < e) pre -> Forall (fun e => x <= e) post ->
  argmin (pre ++ x :: post) = length pre.
Proof.
  intros Hp Hq. destruct pre as [|e pre].
  - cbn [app argmin length]. apply argfirst_keep_lt. exact Hq.
  - inversion Hp; subst. cbn [app argmin length]. rewrite argfirst_find_lt by auto. lia.
Qed.

Lemma Forall_map_rev {A} (f : A -> Z) (P : Z -> Prop) (l : list A) :
  Forall (fun e => P (f e)) l -> Forall P (map f (rev l)).
Proof. intros H. apply Forall_map. apply Forall_rev. exact H. Qed.

(* the parameters of a shaped stack are what the next chunk recomputes from its values *)
Lemma Shaped_rp s H L mh ml : Shaped s (H, L, mh, ml) ->
  let vals := map fst (rev s) in
  argmax vals = mh /\ argmin vals = ml /\ nthZ vals mh = H /\ nthZ vals ml = L.
Proof.
  intros HS. destruct s as [|a [|b r]]; [contradiction| |].
  - cbn [Shaped] in HS. destruct HS as (-> & -> & -> & ->). cbn. auto.
  - cbn [Shaped] in HS. remember (a :: b :: r) as s eqn:Es. clear Es a b r.
    pose proof (InvE_bounds _ _ _ _ _ HS) as HB.
    destruct HS as (cs & dm & dm1 & dr & E & Hz & Hdv & Hcv & Hb & HLH & Hs). subst s.
    pose proof (dv_inside dr dm dm1 (zz_app_r _ _ Hz) Hdv) as Hin.
    cbn zeta.
    set (A := map fst (rev dr)). set (C := map fst (rev cs)).
    assert (EvB : map fst (rev (cs ++ dm :: dm1 :: dr)) = A ++ fst dm1 :: fst dm :: C).
    { unfold A, C. rewrite rev_app_distr. cbn [rev]. rewrite !map_app. cbn [map]. rewrite <- !app_assoc. reflexivity. }
    assert (EvA : map fst (rev (cs ++ dm :: dm1 :: dr)) = (A ++ [fst dm1]) ++ fst dm :: C).
    { rewrite EvB. rewrite <- app_assoc. reflexivity. }
    assert (HlA : length A = length dr) by (unfold A; rewrite map_length, rev_length; reflexivity).
    assert (HlA1 : length (A ++ [fst dm1]) = S (length dr)) by (rewrite app_length; cbn [length]; lia).
    assert (HC : Forall (fun e => L <= e <= H) C) by (apply (Forall_map_rev fst (fun e => L <= e <= H)); exact Hb).
    unfold side, v in *.
    destruct Hs as [(E1 & E2 & -> & ->)|(E1 & E2 & -> & ->)].
    + assert (HA : Forall (fun e => L < e < H) A).
      { apply (Forall_map_rev fst (fun e => L < e < H)). eapply Forall_impl; [|exact Hin]. cbn beta. intros e He. lia. }
      split; [|split; [|split]].
      * rewrite EvA, argmax_at; [exact HlA1| |].
        -- apply Forall_app. split; [eapply Forall_impl; [|exact HA]; cbn beta; intros; lia|constructor; [lia|constructor]].
        -- eapply Forall_impl; [|exact HC]. cbn beta. intros; lia.
      * rewrite EvB, argmin_at; [exact HlA| |].
        -- eapply Forall_impl; [|exact HA]. cbn beta. intros; lia.
        -- constructor; [lia|]. eapply Forall_impl; [|exact HC]. cbn beta. intros; lia.
      * rewrite EvA, <- HlA1. rewrite nth_middle_Z. exact E1.
      * rewrite EvB, <- HlA. rewrite nth_middle_Z. exact E2.
    + assert (HA : Forall (fun e => L < e < H) A).
      { apply (Forall_map_rev fst (fun e => L < e < H)). eapply Forall_impl; [|exact Hin]. cbn beta. intros e He. lia. }
      split; [|split; [|split]].
      * rewrite EvB, argmax_at; [exact HlA| |].
        -- eapply Forall_impl; [|exact HA]. cbn beta. intros; lia.
        -- constructor; [lia|]. eapply Forall_impl; [|exact HC]. cbn beta. intros; lia.
      * rewrite EvA, argmin_at; [exact HlA1| |].
        -- apply Forall_app. split; [eapply Forall_impl; [|exact HA]; cbn beta; intros; lia|constructor; [lia|constructor]].
        -- eapply Forall_impl; [|exact HC]. cbn beta. intros; lia.
      * rewrite EvB, <- HlA. rewrite nth_middle_Z. exact E2.
      * rewrite EvA, <- HlA1. rewrite nth_middle_Z. exact E1.
Qed.

Lemma argfirst_lt better : forall l i bv bi, (bi < i)%nat -> (argfirst better l i bv bi < i + length l)%nat.
Proof.
  induction l as [|e l IH]; intros i bv bi Hb; cbn [argfirst length]; [lia|].
  destruct (better e bv).
  - specialize (IH (S i) e i ltac:(lia)). lia.
  - specialize (IH (S i) bv bi ltac:(lia)). lia.
Qed.
Lemma argmax_lt l : l <> [] -> (argmax l < length l)%nat.
Proof. destruct l as [|x r]; [congruence|]. intros _. cbn [argmax length]. pose proof (argfirst_lt Z.gtb r 1 x 0 ltac:(lia)). lia. Qed.
Lemma argmin_lt l : l <> [] -> (argmin l < length l)%nat.
Proof. destruct l as [|x r]; [congruence|]. intros _. cbn [argmin length]. pose proof (argfirst_lt Z.ltb r 1 x 0 ltac:(lia)). lia. Qed.

Lemma nthZ_app1 (A B : list Z) p : (p < length A)%nat -> nthZ (A ++ B) p = nthZ A p.
Proof. intros Hp. unfold nthZ. apply app_nth1. exact Hp. Qed.

(* ---- process3 in terms of the item-level machine, for an arbitrary detector state *)
Lemma process3_items st C : C <> [] -> length (residuals_of st C) = length (ridx st) -> residuals_of st C <> [] ->
  let res := residuals_of st C in
  let '(t, tl', hd') := new_turns (stail st) (shead st) C false in
  let '((istk, _, _, _, _), o) :=
    run3c ([], nthZ res (argmax res), nthZ res (argmin res), argmax res, argmin res)
          (resid_items st C ++ map swap t ++ [(last C 0, 0%nat)]) in
  process3 st C = Build_dstate tl' hd' (map fst (rev istk)) (removelast (map snd (rev istk)))
                               (Model.cyc st ++ map cyc4 o) (chunks st ++ [length C]).
Proof.
  intros HC Hlen Hne. cbn zeta. unfold process3. fold (residuals_of st C).
  destruct (new_turns (stail st) (shead st) C false) as [[t tl'] hd'].
  set (res := residuals_of st C) in *.
  set (A := res ++ map snd t). set (T := ridx st ++ map fst t).
  assert (HlenAT : length A = length T) by (unfold A, T; rewrite !app_length, !map_length; lia).
  assert (Hturns : res ++ map snd t ++ lastn1 C = A ++ [last C 0]).
  { unfold A. rewrite lastn1_last by exact HC. rewrite app_assoc. reflexivity. }
  rewrite Hturns. fold T.
  assert (Hitems : items (A ++ [last C 0]) T = resid_items st C ++ map swap t ++ [(last C 0, 0%nat)]).
  { unfold items. rewrite app_length. cbn [length]. rewrite Nat.add_1_r, seq_S, map_app. cbn [map Nat.add].
    rewrite map_itm_prefix by exact HlenAT. unfold A, T. rewrite combine_app by exact Hlen.
    rewrite combine_swap. fold res. unfold resid_items. fold res. rewrite <- app_assoc. do 2 f_equal.
    unfold itm. rewrite nth_middle_Z. unfold nthN. rewrite nth_overflow; [reflexivity|]. fold A T. lia. }
  assert (HL : (2 <= length (A ++ [last C 0%Z]))%nat).
  { rewrite app_length. unfold A. rewrite app_length. cbn [length]. destruct res; [congruence|cbn [length]; lia]. }
  pose proof (threepoint_loop_items (A ++ [last C 0]) T (argmax res) (argmin res) HL) as H.
  destruct (threepoint_loop (A ++ [last C 0]) T (argmax res) (argmin res)) as [out ri]. rewrite Hitems in H.
  assert (Hh : nthZ (A ++ [last C 0]) (argmax res) = nthZ res (argmax res)).
  { unfold A. rewrite <- app_assoc. apply nthZ_app1. apply argmax_lt. exact Hne. }
  assert (Hl : nthZ (A ++ [last C 0]) (argmin res) = nthZ res (argmin res)).
  { unfold A. rewrite <- app_assoc. apply nthZ_app1. apply argmin_lt. exact Hne. }
  rewrite Hh, Hl in H.
  destruct (run3c ([], nthZ res (argmax res), nthZ res (argmin res), argmax res, argmin res)
                  (resid_items st C ++ map swap t ++ [(last C 0, 0%nat)])) as [[[[[istk H1] L1] mh1] ml1] o].
  destruct H as [H1' H2]. rewrite H1'. rewrite (map_nthZ_itm (A ++ [last C 0]) T). rewrite (map_nthN_itm (A ++ [last C 0]) T).
  rewrite map_removelast, H2, map_removelast. reflexivity.
Qed.

(* ---- the state after a prefix P, as a function of P alone *)
Definition p00 (P : list Z) : mst := ([], hd 0 P, hd 0 P, 0%nat, 0%nat).
Definition U3 (P : list Z) : mst * list FP.cyc := run3c (p00 P) (realitems P).

Definition StateOK3 (P : list Z) (st : dstate) : Prop :=
  Rel P (stail st) (shead st) /\
  let '((stk, H, L, mh, ml), Oc) := U3 P in
  let '((Sk, _, _, _, _), ox) := close3c stk H L mh ml (last P 0) in
  resid st = map fst (rev Sk) ++ [last P 0] /\ ridx st = map snd (rev Sk) /\ Model.cyc st = map cyc4 (Oc ++ ox).

Lemma fresh_geom3 P : P <> [] ->
  let '(E, (p, d, c, i)) := fresh P in
  p = last P 0 /\ exists tau, dirOK tau p d /\ Inv (fst (U3 P)) /\ stk_inv (stack (fst (U3 P))) tau d.
Proof.
  intros HP. destruct P as [|x0 q]; [congruence|]. cbn [fresh].
  destruct (scanS x0 0 0 1 q) as [E [[[p d] c] i]] eqn:HF.
  assert (HD0 : dirOK x0 x0 0) by (left; auto).
  destruct (scanS_chain q x0 x0 0 0%nat 1%nat E p d c i HD0 HF) as (tau & Hch & HD & _).
  split; [exact (scanS_last _ _ _ _ _ _ _ _ _ _ HF)|].
  exists tau. split; [exact HD|].
  unfold U3, realitems, p00, run3c. cbn [hd fresh]. rewrite HF. cbn [fst fold_left feed3 close3c app].
  apply (fold_feed_chain (map swap E) x0 0 ([(x0, 0%nat)], x0, x0, 0%nat, 0%nat) [] tau d).
  - cbn. auto.
  - split; [reflexivity|left; reflexivity].
  - rewrite map_map. cbn [swap fst]. exact Hch.
Qed.

(* ---- first chunk *)
Lemma state_first3 C : C <> [] -> StateOK3 C (process3 init C).
Proof.
  intros HC.
  pose proof (process3_items init C HC) as H. unfold residuals_of, resid_items in H.
  cbn [resid ridx stail shead Model.cyc chunks init] in H.
  assert (Hl : length (firstn 1 C) = length [0%nat]) by (destruct C; [congruence|reflexivity]).
  assert (Hne : firstn 1 C <> []) by (destruct C; [congruence|discriminate]).
  specialize (H Hl Hne). cbn zeta in H.
  pose proof (first_chunk C HC) as HF.
  destruct (new_turns [] 0 C false) as [[t tl'] hd']. destruct HF as [Ht HRel].
  assert (Hit : combine (firstn 1 C) [0%nat] ++ map swap t ++ [(last C 0, 0%nat)] = realitems C ++ [(last C 0, 0%nat)]).
  { unfold realitems. rewrite Ht. destruct C; [congruence|]. reflexivity. }
  assert (Hp0 : ([], nthZ (firstn 1 C) (argmax (firstn 1 C)), nthZ (firstn 1 C) (argmin (firstn 1 C)),
                 argmax (firstn 1 C), argmin (firstn 1 C)) = p00 C).
  { destruct C; [congruence|]. reflexivity. }
  change (residuals_of init C) with (firstn 1 C) in H. unfold FP.item in *. rewrite Hit, Hp0 in H. rewrite run3c_snoc in H. fold (U3 C) in H.
  unfold StateOK3.
  destruct (U3 C) as [[[[[stk H0] L0] mh0] ml0] Oc]. cbn [feed3 v fst] in H.
  destruct (close3c stk H0 L0 mh0 ml0 (last C 0)) as [[[[[Sk H1] L1] mh1] ml1] ox].
  rewrite H. cbn [stail shead resid ridx Model.cyc rev]. split; [exact HRel|].
  rewrite !map_app. cbn [map fst snd]. rewrite removelast_snoc. cbn [app]. auto.
Qed.

(* ---- later chunks *)
Lemma state_next3 P st C : P <> [] -> StateOK3 P st -> C <> [] -> StateOK3 (P ++ C) (process3 st C).
Proof.
  intros HP [HRel HS] HC.
  pose proof (fresh_geom3 P HP) as HG.
  destruct (U3 P) as [[[[[stk H] L] mh] ml] Oc] eqn:HR. cbn [fst stack] in HG.
  destruct (close3c stk H L mh ml (last P 0)) as [[[[[Sk H1] L1] mh1] ml1] ox] eqn:HCl.
  destruct HS as (Hres & Hridx & Hcyc).
  pose proof (next_chunk P (stail st) (shead st) C HRel HP HC) as HN.
  pose proof (process3_items st C HC) as H3.
  assert (Hresid : residuals_of st C = map fst (rev Sk)).
  { unfold residuals_of. rewrite Hres. destruct (map fst (rev Sk) ++ [last P 0]) eqn:E.
    - destruct (map fst (rev Sk)); discriminate.
    - rewrite <- E. apply removelast_snoc. }
  assert (Hl : length (residuals_of st C) = length (ridx st)) by (rewrite Hresid, Hridx, !map_length; reflexivity).
  destruct (new_turns (stail st) (shead st) C false) as [[t tl'] hd']. destruct HN as [HE HRel'].
  (* scanner view of the new turns *)
  destruct P as [|x0 q] eqn:EP; [congruence|]. rewrite <- EP in *.
  pose proof (fresh_app x0 q C) as HA. rewrite <- EP in HA.
  destruct (fresh P) as [E [[[p d] c] i]] eqn:HFr. destruct HG as (Hp & tau & HD & HInv & Hinv).
  destruct (scanS p d c i C) as [e2 st2] eqn:HS2. rewrite HA in HE. cbn [fst] in HE.
  apply app_inv_head in HE. subst e2.
  destruct st2 as [[[p2 d2] c2] i2].
  destruct (scanS_chain C tau p d c i t p2 d2 c2 i2 HD HS2) as (tau2 & _ & _ & Hfar).
  assert (Hp2 : p2 = last C 0).
  { rewrite (scanS_last _ _ _ _ _ _ _ _ _ _ HS2). apply last_cons_ne. exact HC. }
  assert (HrealPC : realitems (P ++ C) = realitems P ++ map swap t).
  { unfold realitems. rewrite HA, HFr. cbn [fst]. rewrite map_app. rewrite EP. reflexivity. }
  assert (Hp00 : p00 (P ++ C) = p00 P) by (rewrite EP; reflexivity).
  rewrite Hp in HD.
  (* geometry of the provisional sample *)
  assert (Hgeo : (exists a, stk = [a]) \/
                 (zz ((last P 0, 0%nat) :: stk) /\
                  match stk with t0 :: _ => far (v t0) (last P 0)
                    (match map swap t with [] => last C 0 | yi :: _ => v yi end) | [] => True end)).
  { destruct Hinv as (Ht & [Hone|[Hd0 Ha]]).
    - left. destruct stk as [|a [|b r]]; try discriminate. exists a. reflexivity.
    - right. destruct HD as [[? _]|[_ Hsg]]; [contradiction|].
      specialize (Hfar Hd0). rewrite Hp, Hp2 in Hfar.
      destruct stk as [|t0 r0]; [contradiction|]. cbn [top_is] in Ht.
      assert (Hb : if 0 <? d then fst t0 < last P 0 else last P 0 < fst t0).
      { subst tau. destruct (Z.ltb_spec 0 d) as [Hpos|Hpos].
        - rewrite <- Hsg in Hpos. apply Z.sgn_pos_iff in Hpos. lia.
        - assert (Hn : d < 0) by lia. rewrite <- Hsg in Hn. apply Z.sgn_neg_iff in Hn. lia. }
      split; [apply (alt_zz_push (t0 :: r0) (0 <? d) (last P 0, 0%nat) Ha); exact Hb|].
      assert (Hy : (match map swap t with [] => last C 0 | yi :: _ => v yi end) = nextv t (last C 0)).
      { destruct t as [|[j w] r]; reflexivity. }
      rewrite Hy. unfold far, farther, v in *. destruct Hfar as [F1 F2].
      destruct (Z.ltb_spec 0 d); [left|right]; lia. }
  destruct (core_step3 (p00 P) (realitems P) (map swap t) (last P 0) (last C 0) 0%nat stk H L mh ml Oc Sk H1 L1 mh1 ml1 ox
              HR HInv HCl Hgeo) as ([[[H' L'] mh'] ml'] & HSh & HK).
  rewrite <- HrealPC, <- Hp00 in HK. fold (U3 (P ++ C)) in HK.
  (* the parameters the kernel recomputes *)
  destruct (Shaped_rp Sk H' L' mh' ml' HSh) as (Ea & Eb & Ec & Ed). cbn zeta in Ea, Eb, Ec, Ed.
  assert (Hne : residuals_of st C <> []).
  { rewrite Hresid. destruct Sk as [|a r]; [contradiction|]. cbn [rev]. rewrite map_app. intro E0. apply app_eq_nil in E0. destruct E0 as [_ E0]. discriminate E0. }
  specialize (H3 Hl Hne). cbn zeta in H3. unfold resid_items in H3.
  rewrite Hresid, Hridx, combine_fst_snd, Ea, Eb, Ec, Ed in H3. unfold run3c in H3.
  unfold mst, item in *.
  split.
  - match type of H3 with context [@fold_left ?TA ?TB ?f ?a ?b] =>
      set (R := @fold_left TA TB f a b) in *; clearbody R; destruct R as [[[[[istk H4] L4] mh4] ml4] o] end.
    rewrite H3. exact HRel'.
  - rewrite (last_app_ne P C HC).
    destruct (U3 (P ++ C)) as [[[[[stk' H2] L2] mh2] ml2] Oc'].
    destruct (close3c stk' H2 L2 mh2 ml2 (last C 0)) as [[[[[Sk' H5] L5] mh5] ml5] ox'].
    match type of H3 with context [@fold_left ?TA ?TB ?f ?a ?b] =>
      set (R := @fold_left TA TB f a b) in *; clearbody R; destruct R as [[[[[istk H4] L4] mh4] ml4] o] end.
    destruct HK as (HK1 & HK2 & HK3). cbn [stack] in HK1. subst istk.
    rewrite H3. cbn [resid ridx Model.cyc rev].
    split; [|split].
    + rewrite map_app. reflexivity.
    + rewrite map_app. cbn [map snd]. apply removelast_snoc.
    + rewrite Hcyc, <- map_app. f_equal. rewrite HK2. rewrite <- HK3 at 1. apply firstn_skipn.
Qed.

Lemma fold_state3 cs : forall P st, P <> [] -> StateOK3 P st -> Forall (fun C => C <> []) cs ->
  StateOK3 (P ++ concat cs) (fold_left process3 cs st).
Proof.
  induction cs as [|C r IH]; intros P st HP HS HF; cbn [fold_left concat].
  - rewrite app_nil_r. exact HS.
  - inversion HF as [|? ? HC HF']; subst. rewrite app_assoc. apply IH.
    + destruct P; [congruence|discriminate].
    + apply state_next3; assumption.
    + exact HF'.
Qed.

Lemma StateOK3_det P st1 st2 : StateOK3 P st1 -> StateOK3 P st2 ->
  stail st1 = stail st2 /\ shead st1 = shead st2 /\ resid st1 = resid st2 /\ ridx st1 = ridx st2 /\
  Model.cyc st1 = Model.cyc st2.
Proof.
  intros [R1 S1] [R2 S2]. apply Rel_det in R1, R2. destruct R1 as [T1 H1], R2 as [T2 H2].
  destruct (U3 P) as [[[[[stk H] L] mh] ml] Oc]. destruct (close3c stk H L mh ml (last P 0)) as [[[[[Sk H3] L3] mh3] ml3] ox].
  destruct S1 as (A1 & B1 & C1), S2 as (A2 & B2 & C2). repeat split; congruence.
Qed.

(* every partition into non-empty chunks yields the same cycles (values and indices, in order), residuals,
   residual index, tail and head as the one-piece run *)
Theorem threepoint_chunked_state (cs : list (list Z)) :
  cs <> [] -> Forall (fun C => C <> []) cs ->
  let st1 := fold_left process3 cs init in let st2 := fold_left process3 [concat cs] init in
  stail st1 = stail st2 /\ shead st1 = shead st2 /\ resid st1 = resid st2 /\ ridx st1 = ridx st2 /\
  Model.cyc st1 = Model.cyc st2.
Proof.
  intros Hne HF. cbn zeta.
  destruct cs as [|C r]; [congruence|]. inversion HF as [|? ? HC HF']; subst.
  assert (Hc : concat (C :: r) <> []) by (cbn; destruct C; [congruence|discriminate]).
  apply (StateOK3_det (concat (C :: r))).
  - cbn [fold_left concat]. apply fold_state3; [exact HC|apply state_first3; exact HC|exact HF'].
  - cbn [fold_left]. apply state_first3. exact Hc.
Qed.

Theorem threepoint_chunked (cs : list (list Z)) :
  cs <> [] -> Forall (fun C => C <> []) cs ->
  let '(c1, r1, i1, _) := run3 cs in let '(c2, r2, i2, _) := run3 [concat cs] in
  c1 = c2 /\ r1 = r2 /\ i1 = i2.
Proof.
  intros Hne HF. pose proof (threepoint_chunked_state cs Hne HF) as H. cbn zeta in H.
  unfold run3, obs. destruct H as (H1 & H2 & H3 & H4 & H5). rewrite H2, H3, H4, H5. auto.
Qed.
