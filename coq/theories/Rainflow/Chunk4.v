(* C01, four-point detector: chunk independence for EVERY signal and EVERY partition (unbounded).
   After any non-empty prefix P fed in any chunking, the detector state is the function StateOK of P alone. *)
From Coq Require Import ZArith List Bool Lia.
From PL Require Import Rainflow.Model Rainflow.FP Rainflow.Refine Rainflow.Stream Rainflow.Chunk Rainflow.ChunkThm
  Rainflow.SpecThm Rainflow.IndexThm Rainflow.ProcItems Rainflow.Geom Rainflow.Alt.
Import ListNotations.
Open Scope Z_scope.

Definition realitems (P : list Z) : list item := (hd 0 P, 0%nat) :: map swap (fst (fresh P)).

Definition StateOK (P : list Z) (st : dstate) : Prop :=
  Rel P (stail st) (shead st) /\
  let '(stk, Oc) := FP.run (realitems P) in
  let '(Sk, ox) := FP.close stk (last P 0) in
  resid st = map fst (rev Sk) ++ [last P 0] /\ ridx st = map snd (rev Sk) /\ Model.cyc st = map cyc4 (Oc ++ ox).

(* ---- small facts *)
Lemma fold_push_out items : forall s o1,
  fold_left FP.push items (s, o1) =
  (fst (fold_left FP.push items (s, [])), o1 ++ snd (fold_left FP.push items (s, []))).
Proof.
  induction items as [|d r IH]; intros s o1; cbn [fold_left]; [rewrite app_nil_r; reflexivity|].
  cbn [FP.push]. destruct (FP.close s (fst d)) as [s1 o2]. cbn [app].
  rewrite (IH (d :: s1) (o1 ++ o2)), (IH (d :: s1) o2). cbn [fst snd]. rewrite app_assoc. reflexivity.
Qed.

Lemma combine_fst_snd (l : list item) : combine (map fst l) (map snd l) = l.
Proof. induction l as [|[a b] r IH]; [reflexivity|]. cbn. f_equal. exact IH. Qed.

Lemma close_single a z : FP.close [a] z = ([a], []).
Proof. reflexivity. Qed.

Lemma last_app_ne (P C : list Z) : C <> [] -> last (P ++ C) 0 = last C 0.
Proof.
  intros HC. destruct (exists_last HC) as (q & l & ->). rewrite app_assoc, !last_last. reflexivity.
Qed.
Lemma last_cons_ne (p : Z) (C : list Z) : C <> [] -> last (p :: C) 0 = last C 0.
Proof. intros HC. apply (last_app_ne [p] C HC). Qed.

Lemma removelast_snoc {A} (l : list A) x : removelast (l ++ [x]) = l.
Proof. rewrite removelast_app by discriminate. cbn. apply app_nil_r. Qed.

(* ---- geometric side conditions at a chunk border *)
Lemma fresh_geom P : P <> [] ->
  let '(E, (p, d, c, i)) := fresh P in
  p = last P 0 /\ exists tau, dirOK tau p d /\ stk_inv (fst (FP.run (realitems P))) tau d.
Proof.
  intros HP. destruct P as [|x0 q]; [congruence|]. cbn [fresh].
  destruct (scanS x0 0 0 1 q) as [E [[[p d] c] i]] eqn:HF.
  assert (HD0 : dirOK x0 x0 0) by (left; auto).
  destruct (scanS_chain q x0 x0 0 0%nat 1%nat E p d c i HD0 HF) as (tau & Hch & HD & _).
  split; [exact (scanS_last _ _ _ _ _ _ _ _ _ _ HF)|].
  exists tau. split; [exact HD|].
  unfold realitems. cbn [hd fresh]. rewrite HF. cbn [fst]. unfold FP.run. cbn [fold_left FP.push FP.close app].
  apply (fold_push_chain (map swap E) x0 0 [(x0, 0%nat)] [] tau d).
  - split; [reflexivity|left; reflexivity].
  - rewrite map_map. cbn [swap fst]. exact Hch.
Qed.

(* the provisional sample closes nothing the next real item would not close, in the same order *)
Lemma provisional_ok stk tau d x y :
  stk_inv stk tau d -> dirOK tau x d -> (d <> 0 -> farther d x y) ->
  FP.close stk y = let '(Sk, ox) := FP.close stk x in let '(s2, o2) := FP.close Sk y in (s2, ox ++ o2).
Proof.
  intros (Ht & Hs) HD HF. destruct Hs as [Hs|[Hd Ha]].
  - destruct stk as [|a [|b q]]; try discriminate. rewrite !close_single. reflexivity.
  - apply (close_provisional (length stk) stk (0 <? d) x y (le_n _) Ha).
    destruct stk as [|t q]; [exact I|]. cbn [top_is] in Ht. subst tau.
    destruct HD as [[? _]|[_ Hsg]]; [contradiction|]. specialize (HF Hd). destruct HF as [F1 F2].
    unfold beyond. destruct (Z.ltb_spec 0 d) as [Hp|Hp].
    + rewrite <- Hsg in Hp. apply Z.sgn_pos_iff in Hp. lia.
    + assert (Hn : d < 0) by lia. rewrite <- Hsg in Hn. apply Z.sgn_neg_iff in Hn. lia.
Qed.

(* ---- the core: continuing from the stored residual equals continuing the one-piece run *)
Lemma core_step (I T : list item) (x x' : Z) stk Oc Sk ox tau d :
  FP.run I = (stk, Oc) -> FP.close stk x = (Sk, ox) ->
  stk_inv stk tau d -> dirOK tau x d ->
  (d <> 0 -> farther d x (match T with [] => x' | yi :: _ => fst yi end)) ->
  let '(stk', Oc') := FP.run (I ++ T) in
  let '(Sk', ox') := FP.close stk' x' in
  FP.run (rev Sk ++ T ++ [(x', 0%nat)]) = ((x', 0%nat) :: Sk', skipn (length (Oc ++ ox)) (Oc' ++ ox')) /\
  firstn (length (Oc ++ ox)) (Oc' ++ ox') = Oc ++ ox.
Proof.
  intros HR HC Hinv HD HF.
  assert (Hirr : irr Sk).
  { destruct (close_suffix _ _ _ _ HC) as [pre Hpre]. pose proof (run_irr I) as Hi. rewrite HR in Hi. cbn [fst] in Hi.
    rewrite Hpre in Hi. exact (irr_app_r _ _ Hi). }
  (* chunked run *)
  assert (Hch : FP.run (rev Sk ++ T ++ [(x', 0%nat)]) = fold_left FP.push (T ++ [(x', 0%nat)]) (Sk, [])).
  { unfold FP.run. rewrite fold_left_app. fold (FP.run (rev Sk)). rewrite (refold Sk Hirr). reflexivity. }
  (* one-piece run *)
  assert (Hone : FP.run ((I ++ T) ++ [(x', 0%nat)]) = fold_left FP.push (T ++ [(x', 0%nat)]) (stk, Oc)).
  { unfold FP.run. rewrite <- app_assoc, fold_left_app. fold (FP.run I). rewrite HR. reflexivity. }
  rewrite run_snoc in Hone.
  destruct (FP.run (I ++ T)) as [stk' Oc'] eqn:HR'. cbn [FP.push fst] in Hone.
  destruct (FP.close stk' x') as [Sk' ox'] eqn:HC'.
  rewrite Hch.
  set (items2 := T ++ [(x', 0%nat)]) in *.
  assert (Hy : exists yi rest2, items2 = yi :: rest2 /\ fst yi = match T with [] => x' | yi :: _ => fst yi end).
  { unfold items2. destruct T as [|yi T']; [exists (x', 0%nat), []; auto|exists yi, (T' ++ [(x', 0%nat)]); auto]. }
  destruct Hy as (yi & rest2 & Hi2 & Hyv). rewrite Hi2 in *. rewrite <- Hyv in HF.
  cbn [fold_left FP.push] in Hone |- *.
  pose proof (provisional_ok stk tau d x (fst yi) Hinv HD HF) as HP. rewrite HC in HP.
  destruct (FP.close Sk (fst yi)) as [s2 o2] eqn:HC2. rewrite HP in Hone.
  cbn [app]. rewrite fold_push_out in Hone. rewrite (fold_push_out rest2 (yi :: s2) o2).
  set (X := fold_left FP.push rest2 (yi :: s2, [])) in *.
  inversion Hone as [[Hs Ho]].
  assert (Hre : (Oc ++ ox ++ o2) ++ snd X = (Oc ++ ox) ++ (o2 ++ snd X)) by (rewrite <- !app_assoc; reflexivity).
  rewrite Ho, Hre. split.
  - f_equal. rewrite skipn_app, skipn_all, Nat.sub_diag. reflexivity.
  - rewrite firstn_app, firstn_all, Nat.sub_diag. cbn [firstn]. apply app_nil_r.
Qed.

(* ---- first chunk *)
Lemma state_first C : C <> [] -> StateOK C (process4 init C).
Proof.
  intros HC.
  pose proof (process4_items init C HC) as H. unfold residuals_of, resid_items in H.
  cbn [resid ridx stail shead Model.cyc chunks init] in H.
  assert (Hl : length (firstn 1 C) = length [0%nat]) by (destruct C; [congruence|reflexivity]).
  specialize (H Hl).
  pose proof (first_chunk C HC) as HF.
  destruct (new_turns [] 0 C false) as [[t tl'] hd']. destruct HF as [Ht HRel].
  assert (Hit : combine (firstn 1 C) [0%nat] ++ map swap t ++ [(last C 0, 0%nat)] = realitems C ++ [(last C 0, 0%nat)]).
  { unfold realitems. rewrite Ht. destruct C; [congruence|]. reflexivity. }
  change (residuals_of init C) with (firstn 1 C) in H. cbn [app] in H.
  unfold FP.item in *. rewrite Hit in H. rewrite run_snoc in H.
  split.
  - destruct (FP.run (realitems C)) as [stk Oc]. cbn [FP.push fst] in H.
    destruct (FP.close stk (last C 0)) as [Sk ox]. rewrite H. exact HRel.
  - destruct (FP.run (realitems C)) as [stk Oc]. cbn [FP.push fst] in H.
    destruct (FP.close stk (last C 0)) as [Sk ox]. rewrite H. cbn [resid ridx Model.cyc rev].
    rewrite !map_app. cbn [map fst snd]. rewrite removelast_snoc. cbn [app]. auto.
Qed.

(* ---- later chunks *)
Lemma state_next P st C : P <> [] -> StateOK P st -> C <> [] -> StateOK (P ++ C) (process4 st C).
Proof.
  intros HP [HRel HS] HC.
  pose proof (fresh_geom P HP) as HG.
  destruct (FP.run (realitems P)) as [stk Oc] eqn:HR.
  destruct (FP.close stk (last P 0)) as [Sk ox] eqn:HCl. destruct HS as (Hres & Hridx & Hcyc).
  (* turns of the new chunk *)
  pose proof (next_chunk P (stail st) (shead st) C HRel HP HC) as HN.
  pose proof (process4_items st C HC) as H.
  assert (Hresid : residuals_of st C = map fst (rev Sk)).
  { unfold residuals_of. rewrite Hres. destruct (map fst (rev Sk) ++ [last P 0]) eqn:E.
    - destruct (map fst (rev Sk)); discriminate.
    - rewrite <- E. apply removelast_snoc. }
  assert (Hl : length (residuals_of st C) = length (ridx st)) by (rewrite Hresid, Hridx, !map_length; reflexivity).
  specialize (H Hl). unfold resid_items in H. rewrite Hresid, Hridx, combine_fst_snd in H.
  destruct (new_turns (stail st) (shead st) C false) as [[t tl'] hd']. destruct HN as [HE HRel'].
  (* scanner view of the new turns *)
  destruct P as [|x0 q] eqn:EP; [congruence|]. rewrite <- EP in *.
  pose proof (fresh_app x0 q C) as HA. rewrite <- EP in HA.
  destruct (fresh P) as [E [[[p d] c] i]] eqn:HFr. destruct HG as (Hp & tau & HD & Hinv).
  destruct (scanS p d c i C) as [e2 st2] eqn:HS2. rewrite HA in HE. cbn [fst] in HE.
  apply app_inv_head in HE. subst e2.
  destruct st2 as [[[p2 d2] c2] i2].
  destruct (scanS_chain C tau p d c i t p2 d2 c2 i2 HD HS2) as (tau2 & _ & _ & Hfar).
  assert (Hp2 : p2 = last C 0).
  { rewrite (scanS_last _ _ _ _ _ _ _ _ _ _ HS2). apply last_cons_ne. exact HC. }
  assert (HrealPC : realitems (P ++ C) = realitems P ++ map swap t).
  { unfold realitems. rewrite HA, HFr. cbn [fst]. rewrite map_app. rewrite EP. reflexivity. }
  cbn [fst] in Hinv.
  assert (Hfar' : d <> 0 -> farther d (last P 0) (match map swap t with [] => last C 0 | yi :: _ => fst yi end)).
  { intros Hd. specialize (Hfar Hd). rewrite <- Hp. rewrite <- Hp2. destruct t as [|[j v] r]; exact Hfar. }
  rewrite Hp in HD.
  pose proof (core_step (realitems P) (map swap t) (last P 0) (last C 0) stk Oc Sk ox tau d HR HCl Hinv HD Hfar') as HK.
  rewrite <- HrealPC in HK.
  split.
  - destruct (FP.run (rev Sk ++ map swap t ++ [(last C 0, 0%nat)])) as [istk o]. rewrite H. exact HRel'.
  - rewrite (last_app_ne P C HC).
    destruct (FP.run (realitems (P ++ C))) as [stk' Oc']. destruct (FP.close stk' (last C 0)) as [Sk' ox'].
    destruct HK as [HK1 HK2]. rewrite HK1 in H. rewrite H. cbn [resid ridx Model.cyc rev].
    split; [|split].
    + rewrite map_app. reflexivity.
    + rewrite map_app. cbn [map snd]. apply removelast_snoc.
    + rewrite Hcyc, <- map_app. f_equal. rewrite <- HK2 at 1. apply firstn_skipn.
Qed.

Lemma fold_state cs : forall P st, P <> [] -> StateOK P st -> Forall (fun C => C <> []) cs ->
  StateOK (P ++ concat cs) (fold_left process4 cs st).
Proof.
  induction cs as [|C r IH]; intros P st HP HS HF; cbn [fold_left concat].
  - rewrite app_nil_r. exact HS.
  - inversion HF as [|? ? HC HF']; subst. rewrite app_assoc. apply IH.
    + destruct P; [congruence|discriminate].
    + apply state_next; assumption.
    + exact HF'.
Qed.

Lemma StateOK_det P st1 st2 : StateOK P st1 -> StateOK P st2 ->
  stail st1 = stail st2 /\ shead st1 = shead st2 /\ resid st1 = resid st2 /\ ridx st1 = ridx st2 /\
  Model.cyc st1 = Model.cyc st2.
Proof.
  intros [R1 S1] [R2 S2]. apply Rel_det in R1, R2. destruct R1 as [T1 H1], R2 as [T2 H2].
  destruct (FP.run (realitems P)) as [stk Oc]. destruct (FP.close stk (last P 0)) as [Sk ox].
  destruct S1 as (A1 & B1 & C1), S2 as (A2 & B2 & C2). repeat split; congruence.
Qed.

(* every partition into non-empty chunks yields the same cycles (values and indices, in order), residuals,
   residual index, tail and head as the one-piece run *)
Theorem fourpoint_chunked_state (cs : list (list Z)) :
  cs <> [] -> Forall (fun C => C <> []) cs ->
  let st1 := fold_left process4 cs init in let st2 := fold_left process4 [concat cs] init in
  stail st1 = stail st2 /\ shead st1 = shead st2 /\ resid st1 = resid st2 /\ ridx st1 = ridx st2 /\
  Model.cyc st1 = Model.cyc st2.
Proof.
  intros Hne HF. cbn zeta.
  destruct cs as [|C r]; [congruence|]. inversion HF as [|? ? HC HF']; subst.
  assert (Hc : concat (C :: r) <> []) by (cbn; destruct C; [congruence|discriminate]).
  apply (StateOK_det (concat (C :: r))).
  - cbn [fold_left concat]. apply fold_state; [exact HC|apply state_first; exact HC|exact HF'].
  - cbn [fold_left]. apply state_first. exact Hc.
Qed.

Theorem fourpoint_chunked (cs : list (list Z)) :
  cs <> [] -> Forall (fun C => C <> []) cs ->
  let '(c1, r1, i1, _) := run4 cs in let '(c2, r2, i2, _) := run4 [concat cs] in
  c1 = c2 /\ r1 = r2 /\ i1 = i2.
Proof.
  intros Hne HF. pose proof (fourpoint_chunked_state cs Hne HF) as H. cbn zeta in H.
  unfold run4, obs. destruct H as (H1 & H2 & H3 & H4 & H5). rewrite H2, H3, H4, H5. auto.
Qed.
