(* C02: on the turning-point sequence of a signal the three-point detector does exactly what the four-point
   detector does -- the same closures in the same order, the same residual (unbounded).  On a stack of the
   shape of TPInv.v the three-point test "start >= max(fronts) and |back-front| >= |front-start|" and the
   four-point test "|b-c| <= |a-b| and |b-c| <= |c-d|" decide alike. *)
From Coq Require Import ZArith List Bool Lia.
From PL Require Import Rainflow.FP Rainflow.Geom Rainflow.Alt Rainflow.TP Rainflow.TPInv Rainflow.TPChain.
Import ListNotations.
Open Scope Z_scope.

Lemma same_cs : forall n (cs : list item) dm dm1 dr H L mh ml (d : item),
  (length cs <= n)%nat ->
  zz (d :: cs ++ dm :: dm1 :: dr) -> dv (dm :: dm1 :: dr) -> cv (cs ++ [dm]) ->
  Forall (fun e => L <= v e <= H) cs -> L < H -> side dm dm1 dr H L mh ml ->
  close3c (cs ++ dm :: dm1 :: dr) H L mh ml (v d) =
  ((fst (FP.close (cs ++ dm :: dm1 :: dr) (v d)), H, L, mh, ml), snd (FP.close (cs ++ dm :: dm1 :: dr) (v d))).
Proof.
  induction n as [|n IH]; intros cs dm dm1 dr H L mh ml d Hlen Hz Hdv Hcv Hb HLH Hs.
  - destruct cs; [|cbn in Hlen; lia]. cbn [app] in *. unfold side in Hs.
    assert (E4 : FP.close (dm :: dm1 :: dr) (v d) = (dm :: dm1 :: dr, [])).
    { destruct dr as [|dm2 dr']; [reflexivity|]. rewrite FP.close_step. apply dv3 in Hdv. destruct Hdv as [D1 _].
      unfold closable, v in *. destruct (Z.leb_spec (Z.abs (fst dm1 - fst dm)) (Z.abs (fst dm2 - fst dm1))); [lia|reflexivity]. }
    rewrite E4. cbn [fst snd close3c].
    destruct (Z.gtb_spec (v dm) H); [lia|]. destruct (Z.ltb_spec (v dm) L); [lia|].
    idx_false. reflexivity.
  - destruct cs as [|c [|c' cs']].
    + apply (IH [] dm dm1 dr H L mh ml d); auto. cbn; lia.
    + cbn [app] in *. inversion Hb as [|? ? Hbc _]; subst. unfold side in Hs.
      rewrite FP.close_step. rewrite close3c_step.
      destruct (Z.gtb_spec (v c) H); [lia|]. destruct (Z.ltb_spec (v c) L); [lia|].
      replace ((Nat.max ml mh <=? length (dm1 :: dr))%nat) with true
        by (symmetry; apply Nat.leb_le; cbn [length]; lia). cbn [andb].
      unfold closable. fold (v dm1) (v dm) (v c).
      replace (Z.abs (v dm - v c) <=? Z.abs (v dm1 - v dm)) with true by (symmetry; apply Z.leb_le; lia).
      cbn [andb]. replace (Z.abs (v dm - v c)) with (Z.abs (v c - v dm)) by lia.
      replace (Z.abs (v c - v d)) with (Z.abs (v d - v c)) by lia.
      destruct (Z.abs (v c - v dm) <=? Z.abs (v d - v c)); [|reflexivity].
      (* below the later extreme both stop *)
      assert (E4 : FP.close (dm1 :: dr) (v d) = (dm1 :: dr, [])).
      { destruct dr as [|dm2 [|dm3 dr']]; try reflexivity. rewrite FP.close_step.
        apply dv3 in Hdv. destruct Hdv as [_ Hdv]. apply dv3 in Hdv. destruct Hdv as [D2 _].
        unfold closable, v in *. destruct (Z.leb_spec (Z.abs (fst dm2 - fst dm1)) (Z.abs (fst dm3 - fst dm2))); [lia|reflexivity]. }
      assert (E3 : close3c (dm1 :: dr) H L mh ml (v d) = ((dm1 :: dr, H, L, mh, ml), [])).
      { destruct dr as [|dm2 dr']; [reflexivity|]. cbn [close3c].
        destruct (Z.gtb_spec (v dm1) H); [lia|]. destruct (Z.ltb_spec (v dm1) L); [lia|].
        cbn [length] in *. idx_false. reflexivity. }
      rewrite E4, E3. reflexivity.
    + cbn [app] in *. inversion Hb as [|? ? Hbc Hb1]; subst. inversion Hb1 as [|? ? Hbc' Hb2]; subst.
      unfold side in Hs.
      destruct (cs' ++ dm :: dm1 :: dr) as [|e q] eqn:E; [destruct cs'; discriminate|].
      rewrite FP.close_step. rewrite close3c_step.
      destruct (Z.gtb_spec (v c) H); [lia|]. destruct (Z.ltb_spec (v c) L); [lia|].
      replace ((Nat.max ml mh <=? length (e :: q))%nat) with true
        by (symmetry; apply Nat.leb_le; rewrite <- E, app_length; cbn [length]; lia). cbn [andb].
      assert (Hr : Z.abs (v c - v c') < Z.abs (v c' - v e)).
      { assert (Ee : exists q', cs' ++ [dm] = e :: q').
        { destruct cs' as [|x cs'']; cbn [app] in E |- *; inversion E; subst; eauto. }
        destruct Ee as [q' Ee]. rewrite Ee in Hcv. cbn [cv] in Hcv. tauto. }
      unfold closable. fold (v e) (v c') (v c).
      replace (Z.abs (v c' - v c) <=? Z.abs (v e - v c')) with true by (symmetry; apply Z.leb_le; lia).
      cbn [andb]. replace (Z.abs (v c' - v c)) with (Z.abs (v c - v c')) by lia.
      replace (Z.abs (v c - v d)) with (Z.abs (v d - v c)) by lia.
      destruct (Z.leb_spec (Z.abs (v c - v c')) (Z.abs (v d - v c))) as [Hcl|Hcl]; [|reflexivity].
      rewrite <- E.
      assert (Hz' : zz (d :: cs' ++ dm :: dm1 :: dr)).
      { rewrite E. apply zz3 in Hz. destruct Hz as [Z1 Hz]. apply zz3 in Hz. destruct Hz as [Z2 Hz].
        destruct q as [|e2 q2].
        - cbn [zz] in Hz |- *. lia.
        - apply zz3 in Hz. destruct Hz as [Z3 Hz]. zz_head. split; [lia|exact Hz]. }
      assert (Hcv' : cv (cs' ++ [dm])) by (apply cv_tl in Hcv; apply cv_tl in Hcv; exact Hcv).
      rewrite (IH cs' dm dm1 dr H L mh ml d ltac:(cbn [length] in Hlen; lia) Hz' Hdv Hcv' Hb2 HLH ltac:(exact Hs)).
      destruct (FP.close (cs' ++ dm :: dm1 :: dr) (v d)) as [s4 o4]. reflexivity.
Qed.

(* on a state satisfying the invariant *)
Lemma close_same (stk : list item) H L mh ml (d : item) :
  Inv (stk, H, L, mh, ml) -> ((exists a, stk = [a]) \/ zz (d :: stk)) ->
  stack (fst (close3c stk H L mh ml (v d))) = fst (FP.close stk (v d)) /\
  snd (close3c stk H L mh ml (v d)) = snd (FP.close stk (v d)).
Proof.
  intros HI Hz. destruct stk as [|x0 [|y0 r]]; [contradiction| |].
  - cbn. auto.
  - destruct Hz as [(a & Ea)|Hz]; [discriminate|].
    destruct HI as [HLH HI]. rewrite (close3c_can _ _ _ _ _ (v d) HLH).
    pose proof (can_stack (x0 :: y0 :: r, H, L, mh, ml)) as Hst.
    destruct (can (x0 :: y0 :: r, H, L, mh, ml)) as [[[[s0 H'] L'] mh'] ml']. cbn [stack] in Hst. subst s0.
    destruct HI as (cs & dm & dm1 & dr & E & Hzz & Hdv & Hcv & Hb & HLH' & Hs).
    rewrite E in Hz |- *.
    rewrite (same_cs (length cs) cs dm dm1 dr H' L' mh' ml' d (le_n _) Hz Hdv Hcv Hb HLH' Hs).
    cbn [fst snd stack]. auto.
Qed.

(* the two machines in lock step along the scanner's output *)
Lemma fold_same : forall items tau d (st : mst) out tau' d',
  Inv st -> stk_inv (stack st) tau d -> ch_em tau d (map fst items) tau' d' ->
  stack (fst (fold_left feed3 items (st, out))) = fst (fold_left FP.push items (stack st, out)) /\
  snd (fold_left feed3 items (st, out)) = snd (fold_left FP.push items (stack st, out)).
Proof.
  induction items as [|x r IH]; intros tau d st out tau' d' HI Hinv Hc; [cbn; auto|].
  pose proof (fold_feed_chain [x] tau d st out) as H1.
  cbn [map ch_em fold_left] in *. destruct Hc as (Hn & Hd & Hc).
  specialize (H1 (fst x) (- Z.sgn (fst x - tau))). cbn [map ch_em fold_left] in H1.
  specialize (H1 HI Hinv ltac:(repeat split; auto)). destruct H1 as [HI1 Hinv1].
  (* the geometry of x against the stack *)
  assert (Hz : (exists a, stack st = [a]) \/ zz (x :: stack st)).
  { destruct Hinv as (Ht & [Hone|[Hd0 Ha]]).
    - left. destruct (stack st) as [|a [|b q]]; try discriminate. exists a. reflexivity.
    - right. specialize (Hd Hd0). apply (alt_zz_push (stack st) (0 <? d) x Ha).
      destruct (stack st) as [|t q]; [exact I|]. cbn [top_is] in Ht. subst tau. unfold v.
      destruct (Z.ltb_spec 0 d) as [Hp|Hp].
      + rewrite <- Hd in Hp. apply Z.sgn_pos_iff in Hp. lia.
      + assert (Hneg : d < 0) by lia. rewrite <- Hd in Hneg. apply Z.sgn_neg_iff in Hneg. lia. }
  destruct st as [[[[stk H] L] mh] ml]. cbn [stack] in *.
  destruct (close_same stk H L mh ml x HI Hz) as [E1 E2].
  cbn [feed3 FP.push] in *.
  destruct (close3c stk H L mh ml (v x)) as [[[[[s H'] L'] mh'] ml'] o]. cbn [fst snd stack] in *.
  change (fst x) with (v x). destruct (FP.close stk (v x)) as [s4 o4]. cbn [fst snd] in *. subst s4 o4.
  specialize (IH (v x) (- Z.sgn (v x - tau)) (x :: s, H', L', mh', ml') (out ++ o) tau' d' HI1 Hinv1 Hc).
  cbn [stack] in IH. exact IH.
Qed.
