(* C02: every index reported by the one-piece four-point detector addresses a sample holding the reported
   value; cycle end points and residual use every turning point exactly once. *)
From Coq Require Import ZArith List Bool Lia Permutation.
From PL Require Import Rainflow.Model Rainflow.FP Rainflow.Refine Rainflow.Spec Rainflow.Stream Rainflow.Chunk Rainflow.SpecThm.
Import ListNotations.
Open Scope Z_scope.

Definition gooditem (s : list Z) (it : item) : Prop := nth_error s (snd it) = Some (fst it).

Lemma map_itm_prefix : forall (A B : list Z) (T : list nat), length A = length T ->
  map (itm (A ++ B) T) (seq 0 (length A)) = combine A T.
Proof.
  induction A as [|a A IH]; intros B T Hl; [reflexivity|].
  destruct T as [|t T]; [discriminate|]. cbn [length seq map combine app]. f_equal.
  rewrite <- seq_shift, map_map. rewrite <- (IH B T) by (cbn in Hl; lia).
  apply map_ext. intros p. reflexivity.
Qed.

Lemma run_snoc l x : FP.run (l ++ [x]) = FP.push (FP.run l) x.
Proof. unfold FP.run. rewrite fold_left_app. reflexivity. Qed.

Lemma lastn1_nonempty (s : list Z) : s <> [] -> exists l, lastn1 s = [l] /\ nth_error s (length s - 1) = Some l.
Proof.
  intros Hs. unfold lastn1. destruct (rev s) as [|l r] eqn:Hr.
  - apply (f_equal (@rev Z)) in Hr. rewrite rev_involutive in Hr. contradiction.
  - exists l. split; [reflexivity|].
    assert (Hs' : s = rev r ++ [l]) by (apply (f_equal (@rev Z)) in Hr; rewrite rev_involutive in Hr; exact Hr).
    rewrite Hs'. rewrite app_length. cbn [length]. rewrite nth_error_app2 by lia.
    replace (length (rev r) + 1 - 1 - length (rev r))%nat with 0%nat by lia. reflexivity.
Qed.

Lemma In_ends_stack items : forall it,
  In it (ends (snd (FP.run items))) \/ In it (fst (FP.run items)) -> In it items.
Proof.
  intros it H. pose proof (fp_conservation items) as HP.
  apply (Permutation_in it (Permutation_sym HP)). apply in_or_app.
  destruct H as [H|H]; [left; exact H|right; apply in_rev in H; exact H].
Qed.

(* structure of the one-piece run: all items but the last (provisional) one are good; the last one is on
   top of the final stack and in no cycle *)
Theorem index_addresses_value_4pt s : s <> [] ->
  let '(c, r, ri, _) := run4 [s] in
  Forall (fun q => nth_error s (snd (fst q)) = Some (fst (fst (fst q))) /\
                   nth_error s (snd q) = Some (snd (fst (fst q)))) c /\
  Forall2 (fun i v => nth_error s i = Some v) ri r.
Proof.
  intros Hs. pose proof (run4_one s Hs) as H. cbn zeta in H.
  destruct s as [|x0 s0] eqn:Es; [congruence|]. rewrite <- Es in *.
  assert (Hf1 : firstn 1 s = [x0]) by (rewrite Es; reflexivity).
  destruct (lastn1_nonempty s Hs) as (l & Hl1 & Hl2).
  set (ft := find_turns s) in *.
  set (A := x0 :: map snd ft).
  set (T := 0%nat :: map fst ft).
  assert (Hturns : firstn 1 s ++ map snd ft ++ lastn1 s = A ++ [l]) by (rewrite Hf1, Hl1; reflexivity).
  rewrite Hturns in H. change ([0%nat] ++ map fst ft) with T in H.
  assert (HlenAT : length A = length T) by (unfold A, T; cbn [length]; rewrite !map_length; reflexivity).
  assert (Hitems : items (A ++ [l]) T = combine A T ++ [itm (A ++ [l]) T (length A)]).
  { unfold items. rewrite app_length. cbn [length]. rewrite Nat.add_1_r, seq_S, map_app. cbn [map Nat.add].
    rewrite map_itm_prefix by exact HlenAT. reflexivity. }
  rewrite Hitems in H. rewrite run_snoc in H.
  destruct (FP.run (combine A T)) as [stk0 out0] eqn:HR0.
  cbn [FP.push] in H. destruct (FP.close stk0 (fst (itm (A ++ [l]) T (length A)))) as [s1 o1] eqn:HC.
  rewrite H. clear H.
  (* all items of combine A T are good *)
  assert (Hgood : Forall (gooditem s) (combine A T)).
  { unfold A, T. cbn [combine]. constructor.
    - unfold gooditem. cbn [fst snd]. rewrite Es. reflexivity.
    - pose proof (find_turns_addresses s) as HA. fold ft in HA.
      clear -HA. induction ft as [|[i v] r IH]; [constructor|]. cbn [map combine fst snd].
      inversion HA; subst. constructor; [exact H1|apply IH; exact H2]. }
  rewrite Forall_forall in Hgood.
  (* everything in out0, stk0 comes from combine A T *)
  assert (Hsrc : forall it, In it (ends out0) \/ In it stk0 -> gooditem s it).
  { intros it Hin. apply Hgood. apply In_ends_stack. rewrite HR0. exact Hin. }
  (* close stk0 only redistributes stk0 *)
  pose proof (close_perm (length stk0) stk0 (fst (itm (A ++ [l]) T (length A))) (le_n _)) as HP.
  rewrite HC in HP. cbn [fst snd] in HP.
  assert (Hs1 : forall it, In it s1 \/ In it (ends o1) -> gooditem s it).
  { intros it Hin. apply Hsrc. right. apply (Permutation_in it (Permutation_sym HP)). apply in_or_app. exact Hin. }
  split.
  - (* cycles *)
    apply Forall_forall. intros q Hq. apply in_map_iff in Hq. destruct Hq as ([b c] & <- & Hbc).
    apply in_app_or in Hbc.
    assert (Hb : gooditem s b /\ gooditem s c).
    { destruct Hbc as [Hbc|Hbc].
      - split; apply Hsrc; left; unfold ends; apply in_flat_map; exists (b, c); (split; [exact Hbc|cbn; auto]).
      - split; apply Hs1; right; unfold ends; apply in_flat_map; exists (b, c); (split; [exact Hbc|cbn; auto]). }
    destruct Hb as [Hb Hc]. unfold gooditem in *. destruct b as [bv bi], c as [cv ci]. cbn [cyc4 fst snd] in *. auto.
  - (* residual: rev (last :: s1) = rev s1 ++ [last] *)
    cbn [rev]. rewrite !map_app. cbn [map].
    rewrite removelast_app by discriminate. cbn [removelast]. rewrite app_nil_r.
    apply Forall2_app.
    + assert (Hrs : forall it, In it (rev s1) -> gooditem s it) by (intros it Hin; apply Hs1; left; apply in_rev; exact Hin).
      induction (rev s1) as [|it r IH]; [constructor|]. cbn [map]. constructor.
      * apply Hrs. left. reflexivity.
      * apply IH. intros it' Hin. apply Hrs. right. exact Hin.
    + constructor; [|constructor]. cbn [itm fst]. rewrite nth_middle_Z. exact Hl2.
Qed.

(* conservation for the detector: the turning points (first sample, interior reversals, last sample) with
   their values are, as a multiset, the cycle end points plus the residual *)
Theorem conservation_4pt s : s <> [] ->
  let '(c, r, _, _) := run4 [s] in
  Permutation (tp_seq s) (flat_map (fun q => [fst (fst (fst q)); snd (fst (fst q))]) c ++ r).
Proof.
  intros Hs. pose proof (run4_one s Hs) as H. cbn zeta in H.
  set (turns := firstn 1 s ++ map snd (find_turns s) ++ lastn1 s) in *.
  set (tidx := [0%nat] ++ map fst (find_turns s)) in *.
  pose proof (fp_conservation (items turns tidx)) as HP.
  destruct (FP.run (items turns tidx)) as [istk o]. rewrite H. cbn [fst snd] in HP.
  unfold tp_seq. fold turns. rewrite <- (items_values turns tidx).
  apply (Permutation_map fst) in HP. rewrite map_app in HP.
  eapply Permutation_trans; [exact HP|]. apply Permutation_app; [|apply Permutation_refl].
  clear. induction o as [|[[bv bi] [cv ci]] o IH]; [constructor|].
  cbn [ends flat_map map app cyc4 fst snd] in *. do 2 constructor. exact IH.
Qed.
