(* C02: for every signal the three-point detector reports what the four-point detector reports: the same
   cycles (values and indices) in the same order, the same residuals, the same residual index (unbounded). *)
From Coq Require Import ZArith List Bool Lia.
From PL Require Import Rainflow.Model Rainflow.FP Rainflow.Refine Rainflow.Stream Rainflow.Chunk Rainflow.ChunkThm
  Rainflow.SpecThm Rainflow.IndexThm Rainflow.ProcItems Rainflow.Geom Rainflow.Alt Rainflow.Chunk4
  Rainflow.TP Rainflow.TPInv Rainflow.TPChain Rainflow.Refine3 Rainflow.Chunk3 Rainflow.Same34.
Import ListNotations.
Open Scope Z_scope.

Lemma machines_agree P : P <> [] ->
  FP.run (realitems P ++ [(last P 0, 0%nat)]) =
  (stack (fst (run3c (p00 P) (realitems P ++ [(last P 0, 0%nat)]))), snd (run3c (p00 P) (realitems P ++ [(last P 0, 0%nat)]))).
Proof.
  intros HP. rewrite run3c_snoc, run_snoc. fold (U3 P).
  pose proof (fresh_geom3 P HP) as HG.
  destruct P as [|x0 q] eqn:EP; [congruence|]. rewrite <- EP in *.
  destruct (fresh P) as [E [[[p d] c] i]] eqn:HFr. destruct HG as (Hp & tau & HD & HInv & Hinv).
  (* the two machines agree after the real items *)
  assert (Hsame : stack (fst (U3 P)) = fst (FP.run (realitems P)) /\ snd (U3 P) = snd (FP.run (realitems P))).
  { unfold U3, realitems, p00, run3c, FP.run. rewrite EP. cbn [hd fresh]. rewrite EP in HFr. cbn [fresh] in HFr. rewrite HFr.
    cbn [fst fold_left feed3 close3c FP.push FP.close app].
    assert (HD0 : dirOK x0 x0 0) by (left; auto).
    destruct (scanS_chain q x0 x0 0 0%nat 1%nat E p d c i HD0 HFr) as (tau1 & Hch & _ & _).
    apply (fold_same (map swap E) x0 0 ([(x0, 0%nat)], x0, x0, 0%nat, 0%nat) [] tau1 d).
    - cbn. auto.
    - split; [reflexivity|left; reflexivity].
    - rewrite map_map. cbn [swap fst]. exact Hch. }
  destruct (U3 P) as [[[[[stk H] L] mh] ml] Oc]. destruct (FP.run (realitems P)) as [stk4 Oc4].
  cbn [fst snd stack] in *. destruct Hsame as [<- <-].
  (* the last sample *)
  assert (Hz : (exists a, stk = [a]) \/ zz ((last P 0, 0%nat) :: stk)).
  { destruct Hinv as (Ht & [Hone|[Hd0 Ha]]).
    - left. destruct stk as [|a [|b r]]; try discriminate. exists a. reflexivity.
    - right. rewrite Hp in HD. destruct HD as [[? _]|[_ Hsg]]; [contradiction|].
      apply (alt_zz_push stk (0 <? d) (last P 0, 0%nat) Ha).
      destruct stk as [|t0 r0]; [exact I|]. cbn [top_is] in Ht. subst tau. cbn [v fst].
      destruct (Z.ltb_spec 0 d) as [Hpos|Hpos].
      + rewrite <- Hsg in Hpos. apply Z.sgn_pos_iff in Hpos. lia.
      + assert (Hn : d < 0) by lia. rewrite <- Hsg in Hn. apply Z.sgn_neg_iff in Hn. lia. }
  destruct (close_same stk H L mh ml (last P 0, 0%nat) HInv Hz) as [E1 E2]. cbn [v fst] in E1, E2.
  cbn [feed3 FP.push v fst].
  destruct (close3c stk H L mh ml (last P 0)) as [[[[[s H'] L'] mh'] ml'] o].
  destruct (FP.close stk (last P 0)) as [s4 o4]. cbn [fst snd stack] in *. subst s4 o4. reflexivity.
Qed.

Theorem threepoint_is_fourpoint s : s <> [] -> run3 [s] = run4 [s].
Proof.
  intros HC. unfold run3, run4. cbn [fold_left]. f_equal.
  pose proof (process3_items init s HC) as H3. pose proof (process4_items init s HC) as H4.
  unfold residuals_of, resid_items in H3, H4. cbn [resid ridx stail shead Model.cyc chunks init] in H3, H4.
  assert (Hl : length (firstn 1 s) = length [0%nat]) by (destruct s; [congruence|reflexivity]).
  assert (Hne : firstn 1 s <> []) by (destruct s; [congruence|discriminate]).
  specialize (H3 Hl Hne). specialize (H4 Hl). cbn zeta in H3.
  pose proof (first_chunk s HC) as HF.
  destruct (new_turns [] 0 s false) as [[t tl'] hd']. destruct HF as [Ht _].
  assert (Hit : combine (firstn 1 s) [0%nat] ++ map swap t ++ [(last s 0, 0%nat)] = realitems s ++ [(last s 0, 0%nat)]).
  { unfold realitems. rewrite Ht. destruct s; [congruence|]. reflexivity. }
  assert (Hp0 : ([], nthZ (firstn 1 s) (argmax (firstn 1 s)), nthZ (firstn 1 s) (argmin (firstn 1 s)),
                 argmax (firstn 1 s), argmin (firstn 1 s)) = p00 s).
  { destruct s; [congruence|]. reflexivity. }
  change (residuals_of init s) with (firstn 1 s) in H3, H4. unfold FP.item in *. rewrite Hit in H3, H4. rewrite Hp0 in H3.
  pose proof (machines_agree s HC) as HM. unfold FP.item, mst in *. rewrite HM in H4.
  revert H3 H4.
  match goal with |- context [run3c ?a ?b] => generalize (run3c a b) end.
  intros [[[[[stk3 H] L] mh] ml] o3] H3 H4. cbn [fst snd stack] in H4.
  rewrite H3, H4. reflexivity.
Qed.
