(* Geometry of the turning-point scanner: emitted turn values alternate strictly; the current sample lies
   beyond the last emitted turn in the current direction; whatever comes next (the next emitted turn, or the
   sample reached if none is emitted) lies at least as far.  Used by the four-point chunking proof. *)
From Coq Require Import ZArith List Bool Lia.
From PL Require Import Rainflow.Model Rainflow.Stream Rainflow.Chunk.
Import ListNotations.
Open Scope Z_scope.

(* tau = value of the last emitted turn (or the first sample), p = current sample, d = current direction *)
Definition dirOK (tau p d : Z) : Prop := (d = 0 /\ p = tau) \/ (d <> 0 /\ Z.sgn (p - tau) = d).

(* chain of emitted values starting after tau with current direction d (0 = not yet moving), ending with
   last emitted value tau' and direction d' *)
Fixpoint ch_em (tau d : Z) (vs : list Z) (tau' d' : Z) : Prop :=
  match vs with
  | [] => tau' = tau /\ (d <> 0 -> d' = d)
  | v :: r => Z.sgn (v - tau) <> 0 /\ (d <> 0 -> Z.sgn (v - tau) = d) /\ ch_em v (- Z.sgn (v - tau)) r tau' d'
  end.

Lemma ch_em_weaken tau d vs tau' d' : ch_em tau d vs tau' d' -> ch_em tau 0 vs tau' d'.
Proof. destruct vs as [|v r]; cbn; intuition lia. Qed.

Definition farther (d p y : Z) : Prop := (0 < d -> p <= y) /\ (d < 0 -> y <= p).
Definition nextv (e : list (nat * Z)) (p' : Z) : Z := match e with [] => p' | (_, v) :: _ => v end.

Lemma sgn_cases x : Z.sgn x = -1 \/ Z.sgn x = 0 \/ Z.sgn x = 1.
Proof. destruct x; cbn; auto. Qed.

Lemma scanS_chain : forall s tau p d c i e p' d' c' i',
  dirOK tau p d -> scanS p d c i s = (e, (p', d', c', i')) ->
  exists tau', ch_em tau d (map snd e) tau' d' /\ dirOK tau' p' d' /\ (d <> 0 -> farther d p (nextv e p')).
Proof.
  induction s as [|x r IH]; intros tau p d c i e p' d' c' i' HD H; cbn [scanS] in H.
  - inversion H; subst. exists tau. cbn. repeat split; auto; lia.
  - destruct (Z.eqb_spec x p) as [->|Hxp].
    + destruct (IH tau p d c (S i) e p' d' c' i' HD H) as (tau' & A & B & C). exists tau'. auto.
    + destruct (scanS x (Z.sgn (x - p)) i (S i) r) as [rest st1] eqn:Hr. destruct st1 as [[[p1 d1] c1] i1].
      assert (Hst : (p1, d1, c1, i1) = (p', d', c', i')) by (inversion H; reflexivity). inversion Hst; subst p1 d1 c1 i1.
      remember (Z.sgn (x - p)) as e1 eqn:Ee1.
      assert (He1 : e1 <> 0) by (subst e1; rewrite Z.sgn_null_iff; lia).
      assert (He1c : e1 = 1 \/ e1 = -1) by (destruct (sgn_cases (x - p)) as [?|[?|?]]; lia).
      destruct (negb (d =? 0) && negb (e1 =? d)) eqn:Hem.
      * (* emission of (c, p) *)
        apply andb_true_iff in Hem. destruct Hem as [Hd0 Hed].
        apply negb_true_iff in Hd0, Hed. apply Z.eqb_neq in Hd0, Hed.
        assert (HD' : Z.sgn (p - tau) = d) by (destruct HD as [[? ?]|[? ?]]; [lia|assumption]).
        assert (Hdc : d = 1 \/ d = -1) by (destruct (sgn_cases (p - tau)) as [?|[?|?]]; lia).
        assert (He : e1 = - d) by lia.
        assert (HDx : dirOK p x e1) by (right; split; [exact He1|symmetry; exact Ee1]).
        destruct (IH p x e1 i (S i) rest p' d' c' i' HDx Hr) as (tau' & A & B & C).
        assert (Ee : e = (c, p) :: rest) by (inversion H; reflexivity). subst e.
        exists tau'. cbn [map snd ch_em nextv]. repeat split.
        -- rewrite HD'. exact Hd0.
        -- intros _. exact HD'.
        -- rewrite HD', <- He. exact A.
        -- exact B.
        -- lia.
        -- lia.
      * (* no emission *)
        assert (Ee : e = rest) by (inversion H; reflexivity). subst e.
        assert (HDx : dirOK tau x e1).
        { right. split; [exact He1|].
          apply andb_false_iff in Hem. destruct Hem as [Hd0|Hed].
          - apply negb_false_iff in Hd0. apply Z.eqb_eq in Hd0. subst d.
            destruct HD as [[_ ->]|[? _]]; [symmetry; exact Ee1|lia].
          - apply negb_false_iff in Hed. apply Z.eqb_eq in Hed.
            destruct HD as [[? ?]|[Hdn Hs]]; [lia|].
            destruct He1c as [E|E]; rewrite E in *; subst d.
            + symmetry in Ee1, Hed. apply Z.sgn_pos_iff in Ee1. apply Z.sgn_pos_iff in Hed. apply Z.sgn_pos_iff. lia.
            + symmetry in Ee1, Hed. apply Z.sgn_neg_iff in Ee1. apply Z.sgn_neg_iff in Hed. apply Z.sgn_neg_iff. lia. }
        destruct (IH tau x e1 i (S i) rest p' d' c' i' HDx Hr) as (tau' & A & B & C).
        exists tau'. split; [|split; [exact B|]].
        -- apply andb_false_iff in Hem. destruct Hem as [Hd0|Hed].
           ++ apply negb_false_iff in Hd0. apply Z.eqb_eq in Hd0. subst d. eapply ch_em_weaken. exact A.
           ++ apply negb_false_iff in Hed. apply Z.eqb_eq in Hed. rewrite <- Hed. exact A.
        -- intros Hd. apply andb_false_iff in Hem. destruct Hem as [Hd0|Hed].
           ++ apply negb_false_iff in Hd0. apply Z.eqb_eq in Hd0. lia.
           ++ apply negb_false_iff in Hed. apply Z.eqb_eq in Hed.
              specialize (C He1). unfold farther in *. rewrite <- Hed.
              destruct He1c as [E|E]; rewrite E in *; symmetry in Ee1.
              ** apply Z.sgn_pos_iff in Ee1. split; intros; lia.
              ** apply Z.sgn_neg_iff in Ee1. split; intros; lia.
Qed.

(* the scanner's current value is the last sample consumed *)
Lemma scanS_last : forall s p d c i e p' d' c' i',
  scanS p d c i s = (e, (p', d', c', i')) -> p' = last (p :: s) 0.
Proof.
  induction s as [|x r IH]; intros p d c i e p' d' c' i' H; cbn [scanS] in H.
  - inversion H; reflexivity.
  - destruct (Z.eqb_spec x p) as [->|Hxp].
    + rewrite (IH _ _ _ _ _ _ _ _ _ H). reflexivity.
    + destruct (scanS x (Z.sgn (x - p)) i (S i) r) as [rest [[[p1 d1] c1] i1]] eqn:Hr.
      assert ((p1, d1, c1, i1) = (p', d', c', i')) as Hst by (inversion H; reflexivity). inversion Hst; subst.
      rewrite (IH _ _ _ _ _ _ _ _ _ Hr). reflexivity.
Qed.
