(* C03: symmetries of the one-piece detectors.  A "value map" phi is a map on load values that preserves
   (up to a global sign sigma) the sign of differences and preserves comparisons of absolute differences:
   negation (sigma = -1) and positive affine maps x |-> a x + b, a > 0 (sigma = +1) are instances. *)
From Coq Require Import ZArith List Bool Lia.
From PL Require Import Rainflow.Model Rainflow.FP Rainflow.Refine Rainflow.Spec Rainflow.Stream Rainflow.Chunk Rainflow.SpecThm Rainflow.HcmThm.
Import ListNotations.
Open Scope Z_scope.

Record vmap := {
  phi : Z -> Z;
  sigma : Z;
  sigma_pm : sigma = 1 \/ sigma = -1;
  phi_sgn : forall x p, Z.sgn (phi x - phi p) = sigma * Z.sgn (x - p);
  phi_abs : forall x y u v, (Z.abs (phi x - phi y) <=? Z.abs (phi u - phi v)) = (Z.abs (x - y) <=? Z.abs (u - v)) }.

Lemma neg_sgn x p : Z.sgn (- x - - p) = -1 * Z.sgn (x - p).
Proof. replace (- x - - p) with (- (x - p)) by lia. rewrite Z.sgn_opp. lia. Qed.
Lemma neg_abs x y u v : (Z.abs (- x - - y) <=? Z.abs (- u - - v)) = (Z.abs (x - y) <=? Z.abs (u - v)).
Proof.
  replace (- x - - y) with (- (x - y)) by lia. replace (- u - - v) with (- (u - v)) by lia.
  rewrite !Z.abs_opp. reflexivity.
Qed.
Definition vm_neg : vmap :=
  {| phi := Z.opp; sigma := -1; sigma_pm := or_intror eq_refl; phi_sgn := neg_sgn; phi_abs := neg_abs |}.

Lemma aff_sgn a b (Ha : 0 < a) x p : Z.sgn (a * x + b - (a * p + b)) = 1 * Z.sgn (x - p).
Proof.
  replace (a * x + b - (a * p + b)) with (a * (x - p)) by lia. rewrite Z.sgn_mul.
  rewrite (Z.sgn_pos a) by exact Ha. lia.
Qed.
Lemma aff_abs a b (Ha : 0 < a) x y u v :
  (Z.abs (a * x + b - (a * y + b)) <=? Z.abs (a * u + b - (a * v + b))) = (Z.abs (x - y) <=? Z.abs (u - v)).
Proof.
  replace (a * x + b - (a * y + b)) with (a * (x - y)) by lia.
  replace (a * u + b - (a * v + b)) with (a * (u - v)) by lia.
  rewrite !Z.abs_mul, (Z.abs_eq a) by lia.
  destruct (Z.leb_spec (Z.abs (x - y)) (Z.abs (u - v))) as [H|H].
  - apply Z.leb_le. apply Z.mul_le_mono_nonneg_l; lia.
  - apply Z.leb_gt. apply Z.mul_lt_mono_pos_l; lia.
Qed.
Definition vm_affine (a b : Z) (Ha : 0 < a) : vmap :=
  {| phi := fun x => a * x + b; sigma := 1; sigma_pm := or_introl eq_refl;
     phi_sgn := aff_sgn a b Ha; phi_abs := aff_abs a b Ha |}.

Section Equivariance.
Variable m : vmap.
Let f := phi m.
Let sg := sigma m.

Definition imap (iv : nat * Z) : nat * Z := (fst iv, f (snd iv)).

Lemma phi_eqb x p : (f x =? f p) = (x =? p).
Proof.
  pose proof (phi_sgn m x p) as H. fold f sg in H. pose proof (sigma_pm m) as Hs. fold sg in Hs.
  destruct (Z.eqb_spec x p) as [->|Hne].
  - apply Z.eqb_refl.
  - apply Z.eqb_neq. intros E. rewrite E, Z.sub_diag in H. cbn in H.
    assert (Z.sgn (x - p) <> 0) by (rewrite Z.sgn_null_iff; lia). destruct Hs as [Hs|Hs]; rewrite Hs in H; lia.
Qed.

Lemma sg_cases (P : Z -> Prop) : P 1 -> P (-1) -> P sg.
Proof. intros H1 H2. destruct (sigma_pm m) as [E|E]; unfold sg; rewrite E; assumption. Qed.

Lemma sg_mul_eqb0 d : (sg * d =? 0) = (d =? 0).
Proof. apply (sg_cases (fun s => (s * d =? 0) = (d =? 0))); destruct (Z.eqb_spec d 0); try (apply Z.eqb_eq; lia); apply Z.eqb_neq; lia. Qed.
Lemma sg_mul_eqb e d : (sg * e =? sg * d) = (e =? d).
Proof. apply (sg_cases (fun s => (s * e =? s * d) = (e =? d))); destruct (Z.eqb_spec e d); try (apply Z.eqb_eq; lia); apply Z.eqb_neq; lia. Qed.

Lemma scan_map : forall s p d c i,
  scan (f p) (sg * d) c i (map f s) = map imap (scan p d c i s).
Proof.
  induction s as [|x r IH]; intros p d c i; cbn [scan map]; [reflexivity|].
  rewrite phi_eqb. destruct (x =? p); [apply IH|].
  pose proof (phi_sgn m x p) as Hsg. fold f sg in Hsg. rewrite Hsg, IH, sg_mul_eqb0, sg_mul_eqb.
  destruct (negb (d =? 0) && negb (Z.sgn (x - p) =? d)); reflexivity.
Qed.

Lemma find_turns_map s : find_turns (map f s) = map imap (find_turns s).
Proof.
  destruct s as [|x r]; [reflexivity|]. cbn [map find_turns].
  replace 0 with (sg * 0) at 1 by lia. apply scan_map.
Qed.

(* ---- four-point item machine *)
Definition itmap (it : item) : item := (f (fst it), snd it).
Definition cycmap (c : FP.cyc) : FP.cyc := (itmap (fst c), itmap (snd c)).

Lemma closable_map a b c d : closable (f a) (f b) (f c) (f d) = closable a b c d.
Proof. unfold closable, f. rewrite !(phi_abs m). reflexivity. Qed.

Lemma close_map : forall n stk d, (length stk <= n)%nat ->
  FP.close (map itmap stk) (f d) = (map itmap (fst (FP.close stk d)), map cycmap (snd (FP.close stk d))).
Proof.
  induction n as [|n IH]; intros stk d Hl.
  - destruct stk; [reflexivity|cbn in Hl; lia].
  - destruct stk as [|c [|b [|a rest]]]; try reflexivity.
    cbn [map]. rewrite !FP.close_step. cbn [itmap fst]. rewrite closable_map.
    destruct (closable (fst a) (fst b) (fst c) d); [|reflexivity].
    specialize (IH (a :: rest) d ltac:(cbn [length] in *; lia)). cbn [map] in IH. unfold FP.item in *.
    destruct (FP.close (a :: rest) d) as [s o]. cbn [fst snd] in IH. cbn [itmap fst] in IH. rewrite IH. reflexivity.
Qed.

Lemma run_map items :
  FP.run (map itmap items) = (map itmap (fst (FP.run items)), map cycmap (snd (FP.run items))).
Proof.
  unfold FP.run.
  assert (H : forall stk out, fold_left FP.push (map itmap items) (map itmap stk, map cycmap out) =
     (map itmap (fst (fold_left FP.push items (stk, out))), map cycmap (snd (fold_left FP.push items (stk, out))))).
  { induction items as [|d r IH]; intros stk out; [reflexivity|].
    cbn [map fold_left FP.push]. cbn [itmap fst].
    rewrite (close_map (length stk) stk (fst d) (le_n _)).
    destruct (FP.close stk (fst d)) as [s o]. cbn [fst snd].
    rewrite <- map_app. change (itmap d :: map itmap s) with (map itmap (d :: s)). apply IH. }
  exact (H [] []).
Qed.

Lemma firstn1_map (s : list Z) : firstn 1 (map f s) = map f (firstn 1 s).
Proof. destruct s; reflexivity. Qed.
Lemma lastn1_map (s : list Z) : lastn1 (map f s) = map f (lastn1 s).
Proof. unfold lastn1. rewrite <- map_rev. destruct (rev s); reflexivity. Qed.

Lemma items_map turns tidx : items (map f turns) tidx = map itmap (items turns tidx).
Proof.
  unfold items. rewrite map_length, map_map. apply map_ext_in. intros p Hp. apply in_seq in Hp.
  unfold itm, itmap. cbn [fst snd]. f_equal. unfold nthZ.
  rewrite (nth_indep _ 0 (f 0)) by (rewrite map_length; lia). apply map_nth.
Qed.

Definition cyc4map (q : Z * Z * nat * nat) : Z * Z * nat * nat :=
  (f (fst (fst (fst q))), f (snd (fst (fst q))), snd (fst q), snd q).

(* the four-point detector: values mapped by phi, every index unchanged *)
Theorem run4_map s : s <> [] ->
  let '(c, r, ri, k) := run4 [s] in
  run4 [map f s] = (map cyc4map c, map f r, ri, k).
Proof.
  intros Hs. assert (Hs' : map f s <> []) by (destruct s; [congruence|discriminate]).
  pose proof (run4_one s Hs) as H1. pose proof (run4_one (map f s) Hs') as H2. cbn zeta in H1, H2.
  rewrite find_turns_map, firstn1_map, lastn1_map in H2.
  assert (Hv : map snd (map imap (find_turns s)) = map f (map snd (find_turns s))) by (rewrite !map_map; reflexivity).
  assert (Hi : map fst (map imap (find_turns s)) = map fst (find_turns s)) by (rewrite map_map; reflexivity).
  rewrite Hv, Hi in H2. rewrite <- !map_app in H2. rewrite items_map, run_map in H2.
  destruct (FP.run (items (firstn 1 s ++ map snd (find_turns s) ++ lastn1 s) ([0%nat] ++ map fst (find_turns s)))) as [istk o].
  cbn [fst snd] in H2. rewrite H1, H2. rewrite map_length.
  assert (E1 : map cyc4 (map cycmap o) = map cyc4map (map cyc4 o)).
  { rewrite !map_map. apply map_ext. intros [[bv bi] [cv ci]]. reflexivity. }
  assert (E2 : map fst (rev (map itmap istk)) = map f (map fst (rev istk))).
  { rewrite <- map_rev, !map_map. reflexivity. }
  assert (E3 : map snd (rev (map itmap istk)) = map snd (rev istk)).
  { rewrite <- map_rev, !map_map. reflexivity. }
  rewrite E1, E2, E3. reflexivity.
Qed.

End Equivariance.

(* ---- FKM: depends on the reversal VALUES through |.| only *)
Lemma hcm_cases_neg : forall n A ir mx K, (length A <= n)%nat ->
  hcm_cases (map Z.opp A) ir mx (- K) =
  (map Z.opp (fst (fst (hcm_cases A ir mx K))), snd (fst (hcm_cases A ir mx K)),
   map (fun c => (- fst c, - snd c)) (snd (hcm_cases A ir mx K))).
Proof.
  induction n as [|n IH]; intros A ir mx K Hl.
  - destruct A; [|cbn in Hl; lia]. cbn [map hcm_cases length]. rewrite Z.abs_opp.
    destruct ((0 =? ir)%nat); [reflexivity|]. destruct ((0 <? ir)%nat); reflexivity.
  - destruct A as [|vJ [|vI rest]].
    + apply (IH [] ir mx K). cbn; lia.
    + cbn [map hcm_cases length]. rewrite Z.abs_opp.
      destruct ((1 =? ir)%nat); [reflexivity|]. destruct ((1 <? ir)%nat); reflexivity.
    + cbn [map]. unfold hcm_cases; fold hcm_cases. cbn [length]. rewrite map_length. rewrite !Z.abs_opp.
      destruct ((S (S (length rest)) =? ir)%nat); [reflexivity|].
      destruct ((S (S (length rest)) <? ir)%nat); [reflexivity|].
      replace (- K - - vJ) with (- (K - vJ)) by lia. replace (- vJ - - vI) with (- (vJ - vI)) by lia.
      rewrite !Z.abs_opp.
      destruct (Z.abs (K - vJ) <? Z.abs (vJ - vI)); [reflexivity|].
      destruct ((Z.abs vI <? mx) && (Z.abs vJ <? mx)); [|reflexivity].
      rewrite (IH rest ir mx K ltac:(cbn [length] in *; lia)).
      destruct (hcm_cases rest ir mx K) as [[A' ir'] o]. reflexivity.
Qed.

Theorem hcm_spec_neg l :
  hcm_spec (map Z.opp l) = (map (fun c => (- fst c, - snd c)) (fst (hcm_spec l)), map Z.opp (snd (hcm_spec l))).
Proof.
  unfold hcm_spec.
  assert (H : forall l A ir mx out,
     fold_left hcm_push (map Z.opp l) (map Z.opp A, ir, mx, map (fun c => (- fst c, - snd c)) out) =
     let '(A', ir', mx', out') := fold_left hcm_push l (A, ir, mx, out) in
     (map Z.opp A', ir', mx', map (fun c => (- fst c, - snd c)) out')).
  { induction l0 as [|K r IH]; intros A ir mx out.
    - reflexivity.
    - cbn [map fold_left hcm_push]. rewrite (hcm_cases_neg (length A) A ir mx K (le_n _)).
      destruct (hcm_cases A ir mx K) as [[A1 ir1] o1]. cbn [fst snd]. rewrite Z.abs_opp, <- map_app.
      change (- K :: map Z.opp A1) with (map Z.opp (K :: A1)). apply IH. }
  specialize (H l [] 1%nat 0 []). cbn [map] in H. rewrite H.
  destruct (fold_left hcm_push l ([], 1%nat, 0, [])) as [[[A' ir'] mx'] out']. cbn [fst snd].
  rewrite map_rev. reflexivity.
Qed.

(* the FKM detector on the negated signal: all values negated *)
Theorem runF_neg s :
  let '(c, r, _) := runF [s] in
  let '(c', r', _) := runF [map Z.opp s] in
  c' = map (fun q => (- fst q, - snd q)) c /\ r' = map Z.opp r.
Proof.
  pose proof (fkm_is_hcm s) as H1. pose proof (fkm_is_hcm (map Z.opp s)) as H2.
  destruct (runF [s]) as [[c r] i]. destruct (runF [map Z.opp s]) as [[c' r'] i'].
  rewrite (find_turns_map vm_neg) in H2. cbn [phi vm_neg] in H2.
  assert (Hv : map snd (map (imap vm_neg) (find_turns s)) = map Z.opp (map snd (find_turns s))) by (rewrite !map_map; reflexivity).
  rewrite Hv, hcm_spec_neg, <- H1 in H2. cbn [fst snd] in H2. inversion H2. auto.
Qed.
