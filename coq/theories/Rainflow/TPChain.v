(* The three-point machine fed with the scanner's output: the stack stays strictly alternating and the
   invariant of TPInv.v holds after every item. *)
From Coq Require Import ZArith List Bool Lia.
From PL Require Import Rainflow.FP Rainflow.Geom Rainflow.Alt Rainflow.TP Rainflow.TPInv.
Import ListNotations.
Open Scope Z_scope.

Lemma close3c_alt : forall n (stk : list item) H L mh ml up b, (length stk <= n)%nat ->
  alt up stk -> beyond_top up stk b ->
  alt up (stack (fst (close3c stk H L mh ml b))) /\ beyond_top up (stack (fst (close3c stk H L mh ml b))) b.
Proof.
  induction n as [|n IH]; intros stk H L mh ml up b Hl Ha Hb.
  - destruct stk; [cbn; auto|cbn in Hl; lia].
  - destruct stk as [|f [|s rest]]; try solve [cbn [close3c fst stack]; auto].
    cbn [close3c].
    destruct (v f >? H); [cbn [fst stack]; auto|]. destruct (v f <? L); [cbn [fst stack]; auto|].
    destruct ((Nat.max ml mh <=? length rest)%nat); cbn [andb]; [|cbn [fst stack]; auto].
    destruct (Z.leb_spec (Z.abs (v f - v s)) (Z.abs (b - v f))) as [Hr|Hr]; [|cbn [fst stack]; auto].
    destruct rest as [|a rest'].
    + cbn [close3c fst stack]. split; exact I.
    + destruct (alt_two_down up f s a rest' Ha) as (H1 & H2 & H3).
      assert (Hb' : beyond_top up (a :: rest') b).
      { cbn [beyond_top] in *. unfold v in *. destruct up; lia. }
      specialize (IH (a :: rest') H L mh ml up b ltac:(cbn [length] in *; lia) H3 Hb').
      destruct (close3c (a :: rest') H L mh ml b) as [st o]. cbn [fst] in *. exact IH.
Qed.

Lemma feed3_alt (st : mst) out up d : alt up (stack st) -> beyond_top up (stack st) (v d) ->
  alt (negb up) (stack (fst (feed3 (st, out) d))) /\ top_is (stack (fst (feed3 (st, out) d))) (v d).
Proof.
  destruct st as [[[[stk H] L] mh] ml]. cbn [stack]. intros Ha Hb. cbn [feed3].
  destruct (close3c_alt (length stk) stk H L mh ml up (v d) (le_n _) Ha Hb) as [H1 H2].
  destruct (close3c stk H L mh ml (v d)) as [[[[[s H'] L'] mh'] ml'] o]. cbn [fst stack] in *.
  split; [|reflexivity].
  destruct s as [|t r]; [exact I|]. cbn [alt]. rewrite Bool.negb_involutive. split; [|exact H1].
  cbn [beyond_top] in H2. unfold v in *. destruct up; cbn [negb]; lia.
Qed.

Lemma fold_feed_chain : forall items tau d (st : mst) out tau' d',
  Inv st -> stk_inv (stack st) tau d -> ch_em tau d (map fst items) tau' d' ->
  Inv (fst (fold_left feed3 items (st, out))) /\ stk_inv (stack (fst (fold_left feed3 items (st, out)))) tau' d'.
Proof.
  induction items as [|x r IH]; intros tau d st out tau' d' HI (Ht & Hs) Hc; cbn [map ch_em fold_left] in *.
  - destruct Hc as [-> Hd]. split; [exact HI|]. split; [exact Ht|]. destruct Hs as [Hs|[Hd0 Ha]]; [left; exact Hs|].
    right. rewrite (Hd Hd0). auto.
  - destruct Hc as (Hn & Hd & Hc). set (d1 := Z.sgn (fst x - tau)) in *.
    assert (Ha : alt (0 <? d1) (stack st)).
    { destruct Hs as [Hs|[Hd0 Ha]].
      - destruct (stack st) as [|a [|b q]]; try discriminate. exact I.
      - rewrite (Hd Hd0). exact Ha. }
    assert (Hb : beyond_top (0 <? d1) (stack st) (v x)).
    { destruct (stack st) as [|t q]; [exact I|]. cbn [beyond_top top_is] in *. subst tau. unfold v.
      destruct (Z.ltb_spec 0 d1) as [Hp|Hp].
      - apply Z.sgn_pos_iff in Hp. lia.
      - assert (Hneg : d1 < 0) by lia. apply Z.sgn_neg_iff in Hneg. lia. }
    assert (Hz : zz (x :: stack st)).
    { apply (alt_zz_push (stack st) (0 <? d1) x Ha). destruct (stack st) as [|t q]; [exact I|]. exact Hb. }
    pose proof (feed_inv st out x HI Hz) as HI1.
    destruct (feed3_alt st out (0 <? d1) x Ha Hb) as [Hp Htop].
    destruct (feed3 (st, out) x) as [st1 out1] eqn:HP. cbn [fst] in *.
    apply (IH (fst x) (- d1) st1 out1 tau' d'); [exact HI1| |exact Hc].
    split; [exact Htop|].
    right. split; [lia|].
    assert (E : negb (0 <? d1) = (0 <? - d1)).
    { destruct (Z.ltb_spec 0 d1), (Z.ltb_spec 0 (- d1)); cbn; try reflexivity; lia. }
    rewrite <- E. exact Hp.
Qed.
