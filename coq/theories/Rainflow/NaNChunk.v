(* C03 x C01: a NaN-containing signal fed in chunks.  `clean_nans` drops the NaN samples of every chunk before the detector sees
   it; a chunk that holds nothing but NaNs reaches the detector as an empty array, for which `process` returns at once (modelled
   here by filtering those chunks out -- the relation `check_nan` of harness/props/c03.py feeds such chunks to the implementation).
   Then, by the chunk-independence theorems, cycles (with indices into the cleaned signal), residual and residual indices are
   those of the NaN-free signal in one piece.  Unbounded; the translation of the indices back to positions of the original
   signal is NaN.v (`nan_drop_index`). *)
From Coq Require Import ZArith List Bool Lia.
From PL Require Import Rainflow.Model Rainflow.NaN Rainflow.ChunkFKM Rainflow.Chunk4 Rainflow.Chunk3.
Import ListNotations.

Definition nonemptyb (l : list Z) : bool := match l with [] => false | _ => true end.

(* what reaches the detector *)
Definition fed (cs : list (list (option Z))) : list (list Z) := filter nonemptyb (map clean cs).

Lemma clean_app a b : clean (a ++ b) = clean a ++ clean b.
Proof. unfold clean. apply flat_map_app. Qed.

Lemma clean_concat cs : clean (concat cs) = concat (map clean cs).
Proof. induction cs as [|c cs IH]; cbn [concat map]; [reflexivity|]. rewrite clean_app, IH. reflexivity. Qed.

Lemma concat_filter_nonempty (ls : list (list Z)) : concat (filter nonemptyb ls) = concat ls.
Proof.
  induction ls as [|l ls IH]; cbn [filter concat]; [reflexivity|].
  destruct l as [|x l]; cbn [nonemptyb concat]; rewrite IH; reflexivity.
Qed.

Lemma fed_concat cs : concat (fed cs) = clean (concat cs).
Proof. unfold fed. rewrite concat_filter_nonempty, clean_concat. reflexivity. Qed.

Lemma fed_nonempty cs : Forall (fun C => C <> []) (fed cs).
Proof.
  unfold fed. apply Forall_forall. intros C HC. apply filter_In in HC. destruct HC as [_ HC].
  destruct C; [discriminate|congruence].
Qed.

Theorem nan_chunked_4pt cs : fed cs <> [] ->
  let '(c1, r1, i1, _) := run4 (fed cs) in let '(c2, r2, i2, _) := run4 [clean (concat cs)] in
  c1 = c2 /\ r1 = r2 /\ i1 = i2.
Proof. intros H. rewrite <- fed_concat. exact (Chunk4.fourpoint_chunked (fed cs) H (fed_nonempty cs)). Qed.

Theorem nan_chunked_3pt cs : fed cs <> [] ->
  let '(c1, r1, i1, _) := run3 (fed cs) in let '(c2, r2, i2, _) := run3 [clean (concat cs)] in
  c1 = c2 /\ r1 = r2 /\ i1 = i2.
Proof. intros H. rewrite <- fed_concat. exact (Chunk3.threepoint_chunked (fed cs) H (fed_nonempty cs)). Qed.

Theorem nan_chunked_fkm cs : fed cs <> [] -> runF (fed cs) = runF [clean (concat cs)].
Proof. intros H. rewrite <- fed_concat. exact (ChunkFKM.fkm_chunked (fed cs) H (fed_nonempty cs)). Qed.

(* non-vacuity: NaN directly before the last sample of a chunk whose last sample becomes a reversal in the next chunk, and a
   chunk that holds only a NaN (the configuration of seeded change C03-6) *)
Example nan_chunked_example :
  fed [[Some 0; Some 4; None; Some 1]; [None]; [Some 3; Some 2; None; Some 5]]%Z = [[0; 4; 1]; [3; 2; 5]]%Z /\
  fst (fst (fst (run4 [[0; 4; 1]; [3; 2; 5]]%Z))) = fst (fst (fst (run4 [[0; 4; 1; 3; 2; 5]%Z]))) /\
  fst (fst (fst (run4 [[0; 4; 1; 3; 2; 5]%Z]))) <> [].
Proof. repeat split; vm_compute; congruence. Qed.
