From Coq Require Import ZArith List Bool Lia.
Import ListNotations.
Open Scope Z_scope.

(* item-level four-point machine: stack top-first, values only for the geometry;
   indices ride along and play no role in the decisions *)
Definition item := (Z * nat)%type.
Definition cyc := (item * item)%type.
Definition closable (a b c d : Z) : bool := (Z.abs (b - c) <=? Z.abs (a - b)) && (Z.abs (b - c) <=? Z.abs (c - d)).

Fixpoint close (stk : list item) (d : Z) : list item * list cyc :=
  match stk with
  | c :: ((b :: rest) as _) =>
      match rest with
      | a :: _ => if closable (fst a) (fst b) (fst c) d
                  then let '(s, o) := close rest d in (s, (b, c) :: o)
                  else (stk, [])
      | [] => (stk, [])
      end
  | _ => (stk, [])
  end.
Lemma close_step c b a rest d :
  close (c :: b :: a :: rest) d =
  if closable (fst a) (fst b) (fst c) d then let '(s, o) := close (a :: rest) d in (s, (b, c) :: o)
  else (c :: b :: a :: rest, []).
Proof. reflexivity. Qed.

Definition push (st : list item * list cyc) (d : item) : list item * list cyc :=
  let '(stk, out) := st in let '(s, o) := close stk (fst d) in (d :: s, out ++ o).
Definition run (items : list item) := fold_left push items ([], []).

(* strictly alternating stack; [up = true]: the top is a valley (next below is higher) *)
Fixpoint alt (up : bool) (stk : list item) : Prop :=
  match stk with
  | c :: ((b :: _) as t) => (if up then fst c < fst b else fst c > fst b) /\ alt (negb up) t
  | _ => True
  end.
(* x strictly beyond the top in direction [up], y at least as far *)
Definition beyond (up : bool) (t x y : Z) : Prop := if up then t < x /\ x <= y else x < t /\ y <= x.

Lemma close_provisional : forall n stk up x y,
  (length stk <= n)%nat -> alt up stk ->
  (match stk with t :: _ => beyond up (fst t) x y | [] => True end) ->
  close stk y = let '(s1, o1) := close stk x in let '(s2, o2) := close s1 y in (s2, o1 ++ o2).
Proof.
  induction n as [|n IH]; intros stk up x y Hlen Halt Hb.
  - destruct stk; [reflexivity|cbn in Hlen; lia].
  - destruct stk as [|c [|b [|a rest]]]; try reflexivity.
    rewrite !close_step.
      destruct (closable (fst a) (fst b) (fst c) x) eqn:Hx.
      * (* x closes (b,c): then y closes it too *)
        cbn [alt] in Halt. destruct Halt as (Hcb & Hba & Hrest).
        assert (Hy : closable (fst a) (fst b) (fst c) y = true).
        { unfold closable in *. apply andb_true_iff in Hx. destruct Hx as [H1 H2].
          apply andb_true_iff; split; [exact H1|]. apply Z.leb_le in H2. apply Z.leb_le.
          unfold beyond in Hb. destruct up; lia. }
        rewrite Hy.
        assert (Hb' : beyond up (fst a) x y).
        { unfold closable in Hx. apply andb_true_iff in Hx. destruct Hx as [H1 _]. apply Z.leb_le in H1.
          unfold beyond in *. destruct up; cbn [negb] in Hba; lia. }
        specialize (IH (a :: rest) up x y).
        assert (Hl : (length (a :: rest) <= n)%nat) by (cbn [length] in *; lia).
        assert (Ha : alt up (a :: rest)) by (rewrite Bool.negb_involutive in Hrest; exact Hrest).
        specialize (IH Hl Ha Hb'). rewrite IH.
        destruct (close (a :: rest) x) as [s1 o1]. destruct (close s1 y) as [s2 o2]. reflexivity.
      * (* x closes nothing: close stk x = (stk, []) *)
        rewrite close_step. destruct (closable (fst a) (fst b) (fst c) y); [|reflexivity].
        destruct (close (a :: rest) y); reflexivity.
Qed.

(* irreducible: no four consecutive entries (top-first d c b a) are closable *)
Fixpoint irr (stk : list item) : Prop :=
  match stk with
  | d :: ((c :: b :: a :: _) as t) => closable (fst a) (fst b) (fst c) (fst d) = false /\ irr t
  | _ :: t => irr t
  | [] => True
  end.

Lemma irr_tl d t : irr (d :: t) -> irr t.
Proof. destruct t as [|c [|b [|a r]]]; cbn; tauto. Qed.

Lemma refold stk : irr stk -> run (rev stk) = (stk, []).
Proof.
  induction stk as [|d t IH]; intros Hi; [reflexivity|].
  cbn [rev]. unfold run. rewrite fold_left_app. fold (run (rev t)). rewrite (IH (irr_tl _ _ Hi)).
  cbn [fold_left push].
  destruct t as [|c [|b [|a r]]]; try reflexivity.
  cbn [irr] in Hi. destruct Hi as [Hn _]. rewrite close_step, Hn. reflexivity.
Qed.

(* push preserves irreducibility *)
Lemma close_suffix stk d : forall s o, close stk d = (s, o) -> exists pre, stk = pre ++ s.
Proof.
  remember (length stk) as n eqn:Hn. revert stk Hn.
  induction n as [n IH] using lt_wf_ind; intros stk Hn s o H.
  destruct stk as [|c [|b [|a rest]]]; try (cbn [close] in H; inversion H; subst; exists []; reflexivity).
  rewrite close_step in H.
  destruct (closable (fst a) (fst b) (fst c) d).
  - destruct (close (a :: rest) d) as [s' o'] eqn:Hc. inversion H; subst.
    destruct (IH (length (a :: rest)) ltac:(cbn [length]; lia) (a :: rest) eq_refl _ _ Hc) as [pre Hpre].
    exists (c :: b :: pre). cbn [app]. rewrite <- Hpre. reflexivity.
  - inversion H; subst. exists []. reflexivity.
Qed.

Lemma irr_app_r pre s : irr (pre ++ s) -> irr s.
Proof. induction pre as [|x pre IH]; [auto|]. cbn [app]. intros H. apply IH. eapply irr_tl; exact H. Qed.

Lemma close_stops stk d : forall s o, close stk d = (s, o) ->
  match s with c :: b :: a :: _ => closable (fst a) (fst b) (fst c) d = false | _ => True end.
Proof.
  remember (length stk) as n eqn:Hn. revert stk Hn.
  induction n as [n IH] using lt_wf_ind; intros stk Hn s o H.
  destruct stk as [|c [|b [|a rest]]]; try (cbn [close] in H; inversion H; subst; exact I).
  rewrite close_step in H.
  destruct (closable (fst a) (fst b) (fst c) d) eqn:Hcl.
  - destruct (close (a :: rest) d) as [s' o'] eqn:Hc. inversion H; subst.
    exact (IH (length (a :: rest)) ltac:(cbn [length]; lia) (a :: rest) eq_refl _ _ Hc).
  - inversion H; subst. exact Hcl.
Qed.

Lemma push_irr stk out d : irr stk -> irr (fst (push (stk, out) d)).
Proof.
  intros Hi. cbn [push]. destruct (close stk (fst d)) as [s o] eqn:Hc. cbn [fst].
  destruct (close_suffix _ _ _ _ Hc) as [pre Hpre]. subst stk.
  pose proof (irr_app_r _ _ Hi) as Hs. pose proof (close_stops _ _ _ _ Hc) as Hst.
  destruct s as [|c [|b [|a r]]]; cbn [irr]; auto.
Qed.

Lemma run_irr items : irr (fst (run items)).
Proof.
  unfold run. rewrite <- (rev_involutive items). induction (rev items) as [|d r IH]; [exact I|].
  cbn [rev]. rewrite fold_left_app. cbn [fold_left].
  destruct (fold_left push (rev r) ([], [])) as [stk out]. apply push_irr. exact IH.
Qed.
