From PL Require Import Rainflow.Model Rainflow.Stream Rainflow.Chunk.
From Coq Require Import ZArith List Bool Lia.
Import ListNotations.
Open Scope Z_scope.

Fixpoint feed (tl : list Z) (hd : nat) (cs : list (list Z)) : list (nat * Z) * list Z * nat :=
  match cs with
  | [] => ([], tl, hd)
  | C :: r => let '(t, tl', hd') := new_turns tl hd C false in
              let '(t2, tl2, hd2) := feed tl' hd' r in (t ++ t2, tl2, hd2)
  end.

Lemma feed_Rel cs : forall P tl hd, Rel P tl hd -> P <> [] -> Forall (fun C => C <> []) cs ->
  let '(t, tl', hd') := feed tl hd cs in
  fst (fresh (P ++ concat cs)) = fst (fresh P) ++ t /\ Rel (P ++ concat cs) tl' hd'.
Proof.
  induction cs as [|C r IH]; intros P tl hd HR HP HF; cbn [feed concat].
  - rewrite !app_nil_r. split; [reflexivity|exact HR].
  - inversion HF as [|? ? HC HF']; subst.
    pose proof (next_chunk P tl hd C HR HP HC) as HN.
    destruct (new_turns tl hd C false) as [[t tl1] hd1]. destruct HN as [HN1 HN2].
    assert (HPC : P ++ C <> []) by (destruct P; [congruence|discriminate]).
    pose proof (IH (P ++ C) tl1 hd1 HN2 HPC HF') as HI.
    destruct (feed tl1 hd1 r) as [[t2 tl2] hd2]. destruct HI as [HI1 HI2].
    rewrite app_assoc. split; [rewrite HI1, HN1, app_assoc; reflexivity|exact HI2].
Qed.

Lemma Rel_det P tl hd : Rel P tl hd -> tl = skipn (last_idx (fst (fresh P))) P /\ hd = length P.
Proof.
  intros (Hhd & E & p & d & c & HF & _ & Hk). cbn zeta in Hk. destruct Hk as (_ & Htl & _).
  rewrite HF. cbn [fst]. auto.
Qed.

(* every partition into non-empty chunks emits the same turns (global index, value) and ends in the
   same (tail, head) as the one-piece run *)
Theorem new_turns_chunked (cs : list (list Z)) :
  cs <> [] -> Forall (fun C => C <> []) cs ->
  feed [] 0 cs = feed [] 0 [concat cs].
Proof.
  intros Hne HF.
  assert (Hgen : forall cs', cs' <> [] -> Forall (fun C => C <> []) cs' ->
            feed [] 0 cs' = (fst (fresh (concat cs')), skipn (last_idx (fst (fresh (concat cs')))) (concat cs'), length (concat cs'))).
  { intros [|C r] Hn HF'; [congruence|]. cbn [feed concat].
    inversion HF' as [|? ? HC HF'']; subst.
    pose proof (first_chunk C HC) as H1.
    destruct (new_turns [] 0 C false) as [[t tl1] hd1]. destruct H1 as [Ht HR].
    pose proof (feed_Rel r C tl1 hd1 HR HC HF'') as H2.
    destruct (feed tl1 hd1 r) as [[t2 tl2] hd2]. destruct H2 as [H2a H2b].
    apply Rel_det in H2b. destruct H2b as [-> ->]. rewrite H2a, Ht. reflexivity. }
  rewrite (Hgen cs Hne HF).
  assert (Hc : concat cs <> []).
  { destruct cs as [|C r]; [congruence|]. inversion HF; subst. cbn. destruct C; [congruence|discriminate]. }
  rewrite (Hgen [concat cs]); [cbn [concat]; rewrite app_nil_r; reflexivity|discriminate|].
  constructor; [exact Hc|constructor].
Qed.
