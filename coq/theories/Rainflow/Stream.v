From PL Require Import Rainflow.Model.
From Coq Require Import ZArith List Bool Lia.
Import ListNotations.
Open Scope Z_scope.

(* scan with final state *)
Definition sst := (Z * Z * nat * nat)%type.
Fixpoint scanS (p d : Z) (c i : nat) (s : list Z) : list (nat * Z) * sst :=
  match s with
  | [] => ([], (p, d, c, i))
  | x :: r =>
      if x =? p then scanS p d c (S i) r
      else let e := Z.sgn (x - p) in
           let '(rest, st) := scanS x e i (S i) r in
           (if (negb (d =? 0)) && negb (e =? d) then (c, p) :: rest else rest, st)
  end.

Lemma scan_scanS p d c i s : scan p d c i s = fst (scanS p d c i s).
Proof.
  revert p d c i; induction s as [|x r IH]; intros p d c i; cbn [scan scanS]; [reflexivity|].
  destruct (x =? p); [apply IH|].
  rewrite IH. destruct (scanS x (Z.sgn (x - p)) i (S i) r) as [rest st]; cbn [fst].
  destruct (negb (d =? 0) && negb (Z.sgn (x - p) =? d)); reflexivity.
Qed.

Lemma scanS_app p d c i a b :
  scanS p d c i (a ++ b) =
  let '(e1, (p1, d1, c1, i1)) := scanS p d c i a in
  let '(e2, st2) := scanS p1 d1 c1 i1 b in (e1 ++ e2, st2).
Proof.
  revert p d c i; induction a as [|x r IH]; intros p d c i; cbn [scanS app].
  - destruct (scanS p d c i b); reflexivity.
  - destruct (x =? p); [apply IH|].
    rewrite IH. destruct (scanS x (Z.sgn (x - p)) i (S i) r) as [e1 [[[p1 d1] c1] i1]].
    destruct (scanS p1 d1 c1 i1 b) as [e2 st2].
    destruct (negb (d =? 0) && negb (Z.sgn (x - p) =? d)); reflexivity.
Qed.

Definition shI (k : nat) (iv : nat * Z) : nat * Z := ((fst iv + k)%nat, snd iv).
Definition shS (k : nat) (st : sst) : sst := let '(p, d, c, i) := st in (p, d, (c + k)%nat, (i + k)%nat).

Lemma scanS_shift k p d c i s :
  scanS p d (c + k) (i + k) s = (map (shI k) (fst (scanS p d c i s)), shS k (snd (scanS p d c i s))).
Proof.
  revert p d c i; induction s as [|x r IH]; intros p d c i; cbn [scanS]; [reflexivity|].
  destruct (x =? p).
  - change (S (i + k)) with (S i + k)%nat. apply IH.
  - change (S (i + k)) with (S i + k)%nat. rewrite IH.
    destruct (scanS x (Z.sgn (x - p)) i (S i) r) as [rest st]; cbn [fst snd].
    destruct (negb (d =? 0) && negb (Z.sgn (x - p) =? d)); reflexivity.
Qed.

Lemma scanS_repeat p d c i m t : scanS p d c i (repeat p m ++ t) = scanS p d c (i + m) t.
Proof.
  revert i; induction m as [|m IH]; intros i; cbn [repeat app].
  - f_equal; lia.
  - cbn [scanS]. rewrite Z.eqb_refl, IH. f_equal; lia.
Qed.

(* emitted indices are >= c and < final i; final c < final i when c < i *)
Lemma scanS_bounds p d c i s e p' d' c' i' :
  (c < i)%nat -> scanS p d c i s = (e, (p', d', c', i')) ->
  (c' < i')%nat /\ (c <= c')%nat /\ i' = (i + length s)%nat /\ Forall (fun iv => (c <= fst iv < i')%nat) e.
Proof.
  revert p d c i e p' d' c' i'; induction s as [|x r IH]; intros p d c i e p' d' c' i' Hci H; cbn [scanS] in H.
  - inversion H; subst. cbn. repeat split; try lia. constructor.
  - destruct (x =? p).
    + apply IH in H; [|lia]. destruct H as (A & B & C & D). cbn [length]. repeat split; try lia.
      eapply Forall_impl; [|exact D]. cbn. intros; lia.
    + destruct (scanS x (Z.sgn (x - p)) i (S i) r) as [rest st] eqn:Hr.
      destruct st as [[[p1 d1] c1] i1].
      assert (Hst : (p1, d1, c1, i1) = (p', d', c', i')) by (inversion H; reflexivity).
      inversion Hst; subst p1 d1 c1 i1.
      apply IH in Hr; [|lia]. destruct Hr as (A & B & C & D). cbn [length].
      assert (He : e = (if negb (d =? 0) && negb (Z.sgn (x - p) =? d) then (c, p) :: rest else rest)) by (inversion H; reflexivity).
      repeat split; try lia. subst e.
      assert (D' : Forall (fun iv => (c <= fst iv < i')%nat) rest).
      { eapply Forall_impl; [|exact D]. cbn. intros; lia. }
      destruct (negb (d =? 0) && negb (Z.sgn (x - p) =? d)); [constructor; [cbn; lia|exact D']|exact D'].
Qed.

(* "Good L p c i": L is the list consumed so far; from c on it is constant p *)
Definition Good (L : list Z) (p : Z) (c i : nat) := i = length L /\ (c < i)%nat /\ skipn c L = repeat p (i - c).

Lemma Good_same L p c i : Good L p c i -> Good (L ++ [p]) p c (S i).
Proof.
  intros (Hi & Hc & Hs). repeat split; [rewrite app_length; cbn; lia|lia|].
  rewrite skipn_app, Hs. replace (c - length L)%nat with 0%nat by lia. cbn [skipn].
  replace (S i - c)%nat with ((i - c) + 1)%nat by lia. rewrite repeat_app. reflexivity.
Qed.
Lemma Good_new L x i : i = length L -> Good (L ++ [x]) x i (S i).
Proof.
  intros Hi. repeat split; [rewrite app_length; cbn; lia|lia|].
  rewrite skipn_app. subst i. rewrite skipn_all, Nat.sub_diag.
  replace (S (length L) - length L)%nat with 1%nat by lia. reflexivity.
Qed.

Definition fresh (l : list Z) : list (nat * Z) * sst :=
  match l with [] => ([], (0, 0, 0%nat, 0%nat)) | x :: r => scanS x 0 0%nat 1%nat r end.
Definition unS (k : nat) (st : sst) : sst := let '(p, d, c, i) := st in (p, d, (c - k)%nat, (i - k)%nat).

(* Rescan lemma: re-scanning from the last emitted turn emits nothing and ends in the shifted state *)
Lemma rescan s : forall L p d c i e0 j v st,
  Good L p c i ->
  scanS p d c i s = (e0 ++ [(j, v)], st) ->
  fresh (skipn j (L ++ s)) = ([], unS j st).
Proof.
  induction s as [|x r IH]; intros L p d c i e0 j v st HG H; cbn [scanS] in H.
  - inversion H. destruct e0; discriminate.
  - destruct (x =? p) eqn:Hxp.
    + apply Z.eqb_eq in Hxp; subst x.
      replace (L ++ p :: r) with ((L ++ [p]) ++ r) by (rewrite <- app_assoc; reflexivity).
      eapply IH; [apply Good_same; exact HG|exact H].
    + destruct (scanS x (Z.sgn (x - p)) i (S i) r) as [rest st1] eqn:Hr.
      assert (Hst : st1 = st) by (inversion H; reflexivity). subst st1.
      destruct HG as (Hi & Hc & Hs).
      destruct (rev rest) as [|lastr rrest] eqn:Hrev.
      * (* rest = [] : the only possible emission is (c,p) *)
        assert (rest = []) by (apply (f_equal (@rev _)) in Hrev; rewrite rev_involutive in Hrev; exact Hrev). subst rest.
        destruct (negb (d =? 0) && negb (Z.sgn (x - p) =? d)).
        2:{ inversion H. destruct e0; discriminate. }
        assert (e0 = [] /\ j = c /\ v = p) as (-> & -> & ->).
        { injection H as He. change [(c, p)] with ([] ++ [(c, p)]) in He.
          apply app_inj_tail in He. destruct He as [<- Hp]. inversion Hp; auto. }
        (* skipn c (L ++ x :: r) = repeat p (i-c) ++ x :: r *)
        rewrite skipn_app, Hs. replace (c - length L)%nat with 0%nat by lia. cbn [skipn].
        destruct (i - c)%nat as [|m] eqn:Hm; [lia|]. cbn [repeat app fresh].
        rewrite scanS_repeat. cbn [scanS]. rewrite Hxp.
        rewrite Z.eqb_refl. cbn [negb andb].
        (* shift by c *)
        pose proof (scanS_shift c x (Z.sgn (x - p)) (1 + m)%nat (S (1 + m)) r) as Hsh.
        replace (1 + m + c)%nat with i in Hsh by lia.
        replace (S (1 + m) + c)%nat with (S i) in Hsh by lia.
        rewrite Hr in Hsh. cbn [fst snd] in Hsh.
        destruct (scanS x (Z.sgn (x - p)) (1 + m) (S (1 + m)) r) as [rest' st'] eqn:Hr'.
        cbn [fst snd] in Hsh. inversion Hsh as [[Hmap Hstate]].
        destruct rest'; [|discriminate]. f_equal.
        destruct st' as [[[p2 d2] c2] i2]. cbn [shS unS]. f_equal; [f_equal|]; lia.
      * (* rest non-empty: last emission comes from rest *)
        assert (Hrest : rest = rev rrest ++ [lastr]).
        { apply (f_equal (@rev _)) in Hrev. rewrite rev_involutive in Hrev. cbn in Hrev. exact Hrev. }
        assert (Hlast : exists e1, rest = e1 ++ [(j, v)]).
        { destruct (negb (d =? 0) && negb (Z.sgn (x - p) =? d)).
          - injection H as He. rewrite Hrest in He.
            change ((c, p) :: rev rrest ++ [lastr]) with (((c, p) :: rev rrest) ++ [lastr]) in He.
            apply app_inj_tail in He. destruct He as [_ ->]. eauto.
          - injection H as He. rewrite Hrest in He. apply app_inj_tail in He. destruct He as [_ ->]. eauto. }
        destruct Hlast as [e1 ->].
        replace (L ++ x :: r) with ((L ++ [x]) ++ r) by (rewrite <- app_assoc; reflexivity).
        eapply IH; [apply Good_new; exact Hi|exact Hr].
Qed.
