(* C03 for the THREE-point detector (one-piece runs): negation and positive affine maps map every reported
   value and leave every index unchanged -- unbounded.  The kernel compares array positions, so the proof
   carries "all positions are in range" and "turns[lf] <= turns[hf]" as loop invariants. *)
From Coq Require Import ZArith List Bool Lia.
From PL Require Import Rainflow.Model Rainflow.Stream Rainflow.Chunk Rainflow.SpecThm Rainflow.Symm.
Import ListNotations.
Open Scope Z_scope.

Section Three.
Variable m : vmap.
Let f := phi m.

Lemma f_cmp x y : Z.sgn (f x - f y) = sigma m * Z.sgn (x - y).
Proof. apply (phi_sgn m). Qed.

Lemma sgn_spec x : (x < 0 /\ Z.sgn x = -1) \/ (x = 0 /\ Z.sgn x = 0) \/ (0 < x /\ Z.sgn x = 1).
Proof. destruct x; cbn; lia. Qed.

(* order preserving (sigma = 1) or order reversing (sigma = -1) *)
Lemma f_gtb x y : (f x >? f y) = if sigma m =? 1 then (x >? y) else (x <? y).
Proof.
  pose proof (f_cmp x y) as H. rewrite !Z.gtb_ltb.
  destruct (sgn_spec (f x - f y)) as [[A1 A2]|[[A1 A2]|[A1 A2]]];
  destruct (sgn_spec (x - y)) as [[B1 B2]|[[B1 B2]|[B1 B2]]];
  rewrite A2, B2 in H;
  destruct (sigma_pm m) as [E|E]; rewrite E in *; cbn [Z.eqb] in *; try lia;
  destruct (Z.ltb_spec (f y) (f x)); try (destruct (Z.ltb_spec y x)); try (destruct (Z.ltb_spec x y)); try reflexivity; lia.
Qed.
Lemma f_ltb x y : (f x <? f y) = if sigma m =? 1 then (x <? y) else (x >? y).
Proof. rewrite <- Z.gtb_ltb, f_gtb. rewrite !Z.gtb_ltb. reflexivity. Qed.

Definition c4 (q : Z * Z * nat * nat) : Z * Z * nat * nat :=
  (f (fst (fst (fst q))), f (snd (fst (fst q))), snd (fst q), snd q).

Variable turns : list Z.
Variable tidx : list nat.
Let L := length turns.

Lemma nth_map_f p : (p < L)%nat -> nthZ (map f turns) p = f (nthZ turns p).
Proof. intros H. unfold nthZ. rewrite (nth_indep _ 0 (f 0)) by (rewrite map_length; exact H). apply map_nth. Qed.

(* swap the two fronts when the map reverses the order *)
Definition sw (hl : nat * nat) : nat * nat := if sigma m =? 1 then hl else (snd hl, fst hl).

Lemma close3_map : forall fuel stk hf lf back out,
  Forall (fun p => (p < L)%nat) stk -> (hf < L)%nat -> (lf < L)%nat -> (back < L)%nat ->
  nthZ turns lf <= nthZ turns hf ->
  close3 fuel (map f turns) tidx stk (fst (sw (hf, lf))) (snd (sw (hf, lf))) back (map c4 out) =
  let '(s, h, l, o) := close3 fuel turns tidx stk hf lf back out in (s, fst (sw (h, l)), snd (sw (h, l)), map c4 o).
Proof.
  induction fuel as [|fuel IH]; intros stk hf lf back out Hs Hh Hl Hb Hle; [reflexivity|].
  destruct stk as [|front [|start rest]]; try reflexivity.
  cbn [close3]. inversion Hs as [|? ? Hf Hs1]; subst. inversion Hs1 as [|? ? Hst Hs2]; subst.
  rewrite !nth_map_f by assumption.
  unfold sw. destruct (sigma m =? 1) eqn:Es; cbn [fst snd].
  - (* order preserving *)
    rewrite !nth_map_f by assumption. rewrite f_gtb, f_ltb, Es.
    destruct (nthZ turns front >? nthZ turns hf); [reflexivity|].
    destruct (nthZ turns front <? nthZ turns lf); [reflexivity|].
    rewrite !(phi_abs m).
    destruct ((Nat.max lf hf <=? start)%nat && (Z.abs (nthZ turns front - nthZ turns start) <=? Z.abs (nthZ turns back - nthZ turns front))).
    + specialize (IH rest hf lf back (out ++ [(nthZ turns start, nthZ turns front, nthN tidx start, nthN tidx front)]) Hs2 Hh Hl Hb Hle).
      unfold sw in IH. rewrite Es in IH. cbn [fst snd] in IH. rewrite map_app in IH. exact IH.
    + reflexivity.
  - (* order reversing: the fronts trade places; the two front tests are mutually exclusive *)
    rewrite !nth_map_f by assumption. rewrite f_gtb, f_ltb, Es.
    destruct (Z.gtb_spec (nthZ turns front) (nthZ turns hf)) as [G|G];
      destruct (Z.ltb_spec (nthZ turns front) (nthZ turns lf)) as [Lt|Lt]; try lia; try reflexivity.
    rewrite !(phi_abs m). rewrite (Nat.max_comm hf lf).
    destruct ((Nat.max lf hf <=? start)%nat && (Z.abs (nthZ turns front - nthZ turns start) <=? Z.abs (nthZ turns back - nthZ turns front))).
    + specialize (IH rest hf lf back (out ++ [(nthZ turns start, nthZ turns front, nthN tidx start, nthN tidx front)]) Hs2 Hh Hl Hb Hle).
      unfold sw in IH. rewrite Es in IH. cbn [fst snd] in IH. rewrite map_app in IH. exact IH.
    + reflexivity.
Qed.

(* invariants preserved by close3 *)
Lemma close3_inv : forall fuel stk hf lf back out s h l o,
  close3 fuel turns tidx stk hf lf back out = (s, h, l, o) ->
  forall B, Forall (fun p => (p < B)%nat) stk -> (hf < B)%nat -> (lf < B)%nat -> nthZ turns lf <= nthZ turns hf ->
  Forall (fun p => (p < B)%nat) s /\ (h < B)%nat /\ (l < B)%nat /\ nthZ turns l <= nthZ turns h.
Proof.
  induction fuel as [|fuel IH]; intros stk hf lf back out s h l o H B Hs Hh Hl Hle.
  - inversion H; subst. auto.
  - destruct stk as [|front [|start rest]]; try (inversion H; subst; auto; fail).
    cbn [close3] in H. inversion Hs as [|? ? Hf Hs1]; subst. inversion Hs1 as [|? ? Hst Hs2]; subst.
    destruct (Z.gtb_spec (nthZ turns front) (nthZ turns hf)); [inversion H; subst; repeat split; auto; lia|].
    destruct (Z.ltb_spec (nthZ turns front) (nthZ turns lf)); [inversion H; subst; repeat split; auto; lia|].
    destruct ((Nat.max lf hf <=? start)%nat && _).
    + eapply IH; eauto.
    + inversion H; subst. auto.
Qed.

Lemma loop3_map : forall n back stk hf lf out,
  (back + n = L)%nat -> Forall (fun p => (p < back)%nat) stk -> (hf < back)%nat -> (lf < back)%nat ->
  nthZ turns lf <= nthZ turns hf ->
  loop3 (map f turns) tidx back n stk (fst (sw (hf, lf))) (snd (sw (hf, lf))) (map c4 out) =
  let '(s, o) := loop3 turns tidx back n stk hf lf out in (s, map c4 o).
Proof.
  induction n as [|n IH]; intros back stk hf lf out HL Hs Hh Hl Hle; [reflexivity|].
  cbn [loop3].
  assert (HsL : Forall (fun p => (p < L)%nat) stk) by (eapply Forall_impl; [|exact Hs]; cbn; intros; lia).
  rewrite (close3_map (S (length stk)) stk hf lf back out HsL ltac:(lia) ltac:(lia) ltac:(lia) Hle).
  destruct (close3 (S (length stk)) turns tidx stk hf lf back out) as [[[s h] l] o] eqn:HC.
  destruct (close3_inv _ _ _ _ _ _ _ _ _ _ HC back Hs Hh Hl Hle) as (I1 & I2 & I3 & I4).
  apply (IH (S back) (back :: s) h l o); try lia.
  constructor; [lia|]. eapply Forall_impl; [|exact I1]. cbn. intros; lia.
Qed.

Lemma loop3_inrange : forall n back stk hf lf out s o,
  loop3 turns tidx back n stk hf lf out = (s, o) ->
  Forall (fun p => (p < back)%nat) stk -> (hf < back)%nat -> (lf < back)%nat -> nthZ turns lf <= nthZ turns hf ->
  Forall (fun p => (p < back + n)%nat) s.
Proof.
  induction n as [|n IH]; intros back stk hf lf out s o H Hs Hh Hl Hle.
  - inversion H; subst. rewrite Nat.add_0_r. exact Hs.
  - cbn [loop3] in H.
    destruct (close3 (S (length stk)) turns tidx stk hf lf back out) as [[[s1 h] l] o1] eqn:HC.
    destruct (close3_inv _ _ _ _ _ _ _ _ _ _ HC back Hs Hh Hl Hle) as (I1 & I2 & I3 & I4).
    replace (back + S n)%nat with (S back + n)%nat by lia.
    eapply (IH (S back)); [exact H| | | |exact I4]; try lia.
    constructor; [lia|]. eapply Forall_impl; [|exact I1]. cbn. intros; lia.
Qed.

End Three.

(* the three-point detector: values mapped by phi, every index unchanged (one-piece run) *)
Theorem run3_map (m : vmap) s : s <> [] ->
  let '(c, r, ri, k) := run3 [s] in
  run3 [map (phi m) s] = (map (c4 m) c, map (phi m) r, ri, k).
Proof.
  intros Hs. unfold run3. cbn [fold_left]. unfold process3. cbn [resid stail shead ridx cyc chunks init].
  rewrite !new_turns_first, (find_turns_map m), (firstn1_map m), (lastn1_map m), map_length.
  assert (Hv : map snd (map (imap m) (find_turns s)) = map (phi m) (map snd (find_turns s))) by (rewrite !map_map; reflexivity).
  assert (Hi : map fst (map (imap m) (find_turns s)) = map fst (find_turns s)) by (rewrite map_map; reflexivity).
  rewrite Hv, Hi, <- !map_app.
  destruct s as [|x0 s0] eqn:Es; [congruence|]. rewrite <- Es in *.
  assert (Hf1 : firstn 1 s = [x0]) by (rewrite Es; reflexivity). rewrite Hf1. cbn [map argmax argmin argfirst].
  set (turns := [x0] ++ map snd (find_turns s) ++ lastn1 s).
  set (tidx := [0%nat] ++ map fst (find_turns s)).
  assert (HL : (2 <= length turns)%nat).
  { unfold turns. rewrite !app_length. cbn [length]. unfold lastn1. destruct (rev s) eqn:Er.
    - apply (f_equal (@rev Z)) in Er. rewrite rev_involutive in Er. cbn in Er. congruence.
    - cbn [length]. lia. }
  unfold threepoint_loop. rewrite map_length.
  pose proof (loop3_map m turns tidx (length turns - 2) 2 [1%nat; 0%nat] 0%nat 0%nat [] ltac:(lia)
                ltac:(repeat constructor; lia) ltac:(lia) ltac:(lia) ltac:(lia)) as HM.
  assert (Hsw : sw m (0%nat, 0%nat) = (0%nat, 0%nat)) by (unfold sw; destruct (sigma m =? 1); reflexivity).
  rewrite Hsw in HM. cbn [fst snd map] in HM. rewrite HM.
  destruct (loop3 turns tidx 2 (length turns - 2) [1%nat; 0%nat] 0 0 []) as [stk o] eqn:HLp.
  pose proof (loop3_inrange turns tidx _ _ _ _ _ _ _ _ HLp ltac:(repeat constructor; lia) ltac:(lia) ltac:(lia) ltac:(lia)) as Hr.
  replace (2 + (length turns - 2))%nat with (length turns) in Hr by lia.
  unfold obs. cbn [cyc resid ridx shead chunks app].
  assert (E : map (nthZ (map (phi m) turns)) (rev stk) = map (phi m) (map (nthZ turns) (rev stk))).
  { rewrite map_map. apply map_ext_in. intros p Hp. apply in_rev in Hp. rewrite Forall_forall in Hr.
    apply nth_map_f. apply Hr. exact Hp. }
  rewrite E. reflexivity.
Qed.
