(* Bounded instances (exhaustive, by vm_compute, the bound is part of every statement) of the theorems
   whose unbounded proofs are still in progress.  A bounded theorem is NOT the unbounded claim. *)
From Coq Require Import ZArith List Bool Lia.
From PL Require Import Rainflow.Model Rainflow.Eqb.
Import ListNotations.
Open Scope Z_scope.

Definition chunk_ok4 (s : list Z) : bool := forallb (fun p => eqobs_nochunks (run4 p) (run4 [s])) (parts s).
Definition chunk_ok3 (s : list Z) : bool := forallb (fun p => eqobs_nochunks (run3 p) (run3 [s])) (parts s).
Definition all_sigs (alph : list Z) (maxlen : nat) : list (list Z) := flat_map (sigs alph) (seq 1 maxlen).

Lemma in_all_sigs alph maxlen s : (1 <= length s <= maxlen)%nat -> Forall (fun x => In x alph) s -> In s (all_sigs alph maxlen).
Proof.
  intros Hl Hf. unfold all_sigs. apply in_flat_map. exists (length s). split.
  - apply in_seq. lia.
  - apply in_sigs; [reflexivity|exact Hf].
Qed.

Lemma sweep4 : forallb chunk_ok4 (all_sigs [0;1;2;3] 7) = true.
Proof. vm_compute. reflexivity. Qed.
Lemma sweep3 : forallb chunk_ok3 (all_sigs [0;1;2;3] 7) = true.
Proof. vm_compute. reflexivity. Qed.

Lemma bounded_of_sweep (ok : list Z -> bool) (run : list (list Z) -> obs_t) :
  (forall s, ok s = forallb (fun p => eqobs_nochunks (run p) (run [s])) (parts s)) ->
  forallb ok (all_sigs [0;1;2;3] 7) = true ->
  forall cs, cs <> [] -> Forall (fun C => C <> []) cs ->
  (length (concat cs) <= 7)%nat -> Forall (fun x => 0 <= x <= 3) (concat cs) ->
  eqobs_nochunks (run cs) (run [concat cs]) = true.
Proof.
  intros Hok Hsweep cs Hne HF Hlen Hal.
  rewrite forallb_forall in Hsweep.
  assert (Hin : In (concat cs) (all_sigs [0;1;2;3] 7)).
  { apply in_all_sigs.
    - split; [|exact Hlen]. destruct cs as [|C r]; [congruence|]. inversion HF; subst.
      destruct C; [congruence|]. cbn. lia.
    - eapply Forall_impl; [|exact Hal]. cbn. intros x Hx.
      assert (x = 0 \/ x = 1 \/ x = 2 \/ x = 3) as [-> | [-> | [-> | ->]]] by lia; cbn; auto. }
  specialize (Hsweep _ Hin). rewrite Hok, forallb_forall in Hsweep.
  apply Hsweep. apply in_parts; assumption.
Qed.

(* chunk independence of the four-/three-point detectors for every signal over {0..3} of length <= 7
   and EVERY partition into non-empty chunks *)
Theorem fourpoint_chunked_bounded cs :
  cs <> [] -> Forall (fun C => C <> []) cs ->
  (length (concat cs) <= 7)%nat -> Forall (fun x => 0 <= x <= 3) (concat cs) ->
  eqobs_nochunks (run4 cs) (run4 [concat cs]) = true.
Proof. apply (bounded_of_sweep chunk_ok4 run4); [reflexivity|exact sweep4]. Qed.

Theorem threepoint_chunked_bounded cs :
  cs <> [] -> Forall (fun C => C <> []) cs ->
  (length (concat cs) <= 7)%nat -> Forall (fun x => 0 <= x <= 3) (concat cs) ->
  eqobs_nochunks (run3 cs) (run3 [concat cs]) = true.
Proof. apply (bounded_of_sweep chunk_ok3 run3); [reflexivity|exact sweep3]. Qed.
