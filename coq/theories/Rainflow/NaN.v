(* C03: NaN samples.  Model of find_turns on a signal with NaN-like samples (general.py: clean_nans,
   correct_turns_by_nans): the NaNs are dropped, turns are found on the cleaned signal and every index is
   then shifted by the loop  `for nan_pos in nan_positions: index[index >= nan_pos] += 1`. *)
From Coq Require Import ZArith List Bool Lia.
From PL Require Import Rainflow.Model Rainflow.SpecThm.
Import ListNotations.
Open Scope Z_scope.

Definition clean (s : list (option Z)) : list Z :=
  flat_map (fun o => match o with Some x => [x] | None => [] end) s.

Fixpoint nanpos_from (k : nat) (s : list (option Z)) : list nat :=
  match s with
  | [] => []
  | None :: r => k :: nanpos_from (S k) r
  | Some _ :: r => nanpos_from (S k) r
  end.
Definition nan_positions (s : list (option Z)) : list nat := nanpos_from 0 s.

(* the index correction loop, literally *)
Definition correct (nanpos : list nat) (j : nat) : nat :=
  fold_left (fun idx p => if (p <=? idx)%nat then S idx else idx) nanpos j.

Definition find_turns_nan (s : list (option Z)) : list (nat * Z) :=
  map (fun iv => (correct (nan_positions s) (fst iv), snd iv)) (find_turns (clean s)).

(* position in s of the j-th non-NaN sample *)
Fixpoint orig (s : list (option Z)) (j : nat) : nat :=
  match s with
  | [] => j
  | None :: r => S (orig r j)
  | Some _ :: r => match j with O => O | S j' => S (orig r j') end
  end.

Lemma nanpos_from_ge k s : Forall (fun p => (k <= p)%nat) (nanpos_from k s).
Proof.
  revert k; induction s as [|[x|] r IH]; intros k; cbn [nanpos_from]; [constructor| |].
  - eapply Forall_impl; [|apply (IH (S k))]. cbn. intros; lia.
  - constructor; [lia|]. eapply Forall_impl; [|apply (IH (S k))]. cbn. intros; lia.
Qed.

Lemma correct_below l idx : Forall (fun p => (idx < p)%nat) l -> correct l idx = idx.
Proof.
  unfold correct. induction l as [|p l IH]; intros H; [reflexivity|]. cbn [fold_left].
  inversion H as [|? ? Hp Hl]; subst. destruct (Nat.leb_spec p idx); [lia|]. apply IH. exact Hl.
Qed.

Lemma correct_orig : forall s k j, correct (nanpos_from k s) (j + k) = (orig s j + k)%nat.
Proof.
  induction s as [|[x|] r IH]; intros k j; cbn [nanpos_from orig].
  - reflexivity.
  - destruct j as [|j'].
    + cbn [Nat.add]. apply correct_below. eapply Forall_impl; [|apply (nanpos_from_ge (S k) r)]. cbn. intros; lia.
    + replace (S j' + k)%nat with (j' + S k)%nat by lia. rewrite IH. lia.
  - unfold correct. cbn [fold_left]. destruct (Nat.leb_spec k (j + k)); [|lia].
    fold (correct (nanpos_from (S k) r) (S (j + k))).
    replace (S (j + k)) with (j + S k)%nat by lia. rewrite IH. lia.
Qed.

Lemma orig_addresses : forall s j v, nth_error (clean s) j = Some v -> nth_error s (orig s j) = Some (Some v).
Proof.
  induction s as [|[x|] r IH]; intros j v H; cbn [clean flat_map orig app] in *.
  - destruct j; discriminate.
  - destruct j as [|j']; cbn [nth_error] in *; [congruence|]. apply IH. exact H.
  - cbn [nth_error]. apply IH. exact H.
Qed.

(* with NaN samples anywhere: the reported values are those of the NaN-free signal and every reported
   index addresses, in the ORIGINAL signal, a non-NaN sample holding the reported value *)
Theorem nan_drop_index s :
  map snd (find_turns_nan s) = map snd (find_turns (clean s)) /\
  Forall (fun iv => nth_error s (fst iv) = Some (Some (snd iv))) (find_turns_nan s).
Proof.
  split.
  - unfold find_turns_nan. rewrite map_map. reflexivity.
  - unfold find_turns_nan. pose proof (find_turns_addresses (clean s)) as H.
    induction (find_turns (clean s)) as [|[j v] r IH]; [constructor|]. inversion H as [|? ? Hj Hr]; subst.
    cbn [map fst snd]. constructor; [|apply IH; exact Hr]. cbn [fst snd] in *.
    unfold nan_positions. replace j with (j + 0)%nat at 1 by lia. rewrite correct_orig, Nat.add_0_r.
    apply orig_addresses. exact Hj.
Qed.
