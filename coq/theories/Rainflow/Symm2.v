(* C03 continued: positive scaling of the FKM detector; insensitivity of all reported VALUES to inserted
   samples that are not reversals. *)
From Coq Require Import ZArith List Bool Lia.
From PL Require Import Rainflow.Model Rainflow.Spec Rainflow.SpecThm Rainflow.HcmThm Rainflow.Symm.
Import ListNotations.
Open Scope Z_scope.

(* ------------------------------------------------------------------ FKM: scaling by a > 0 *)
Section Scale.
Variable a : Z.
Hypothesis Ha : 0 < a.

Lemma sc_abs x : Z.abs (a * x) = a * Z.abs x.
Proof. rewrite Z.abs_mul, (Z.abs_eq a) by lia. reflexivity. Qed.
Lemma sc_ltb x y : (a * x <? a * y) = (x <? y).
Proof. destruct (Z.ltb_spec x y); [apply Z.ltb_lt; nia|apply Z.ltb_ge; nia]. Qed.
Lemma sc_gtb x y : (a * x >? a * y) = (x >? y).
Proof. rewrite !Z.gtb_ltb. apply sc_ltb. Qed.
Lemma sc_sub x y : a * x - a * y = a * (x - y).
Proof. lia. Qed.

Definition scp (c : Z * Z) : Z * Z := (a * fst c, a * snd c).

Lemma hcm_cases_scale : forall n A ir mx K, (length A <= n)%nat ->
  hcm_cases (map (Z.mul a) A) ir (a * mx) (a * K) =
  (map (Z.mul a) (fst (fst (hcm_cases A ir mx K))), snd (fst (hcm_cases A ir mx K)),
   map scp (snd (hcm_cases A ir mx K))).
Proof.
  induction n as [|n IH]; intros A ir mx K Hl.
  - destruct A; [|cbn in Hl; lia]. cbn [map hcm_cases length]. rewrite sc_abs, sc_gtb.
    destruct ((0 =? ir)%nat); [reflexivity|]. destruct ((0 <? ir)%nat); reflexivity.
  - destruct A as [|vJ [|vI rest]].
    + apply (IH [] ir mx K). cbn; lia.
    + cbn [map hcm_cases length]. rewrite sc_abs, sc_gtb.
      destruct ((1 =? ir)%nat); [reflexivity|]. destruct ((1 <? ir)%nat); reflexivity.
    + cbn [map]. unfold hcm_cases; fold hcm_cases. cbn [length]. rewrite map_length.
      rewrite !sc_sub, !sc_abs, sc_gtb, !sc_ltb.
      destruct ((S (S (length rest)) =? ir)%nat); [reflexivity|].
      destruct ((S (S (length rest)) <? ir)%nat); [reflexivity|].
      destruct (Z.abs (K - vJ) <? Z.abs (vJ - vI)); [reflexivity|].
      destruct ((Z.abs vI <? mx) && (Z.abs vJ <? mx)); [|reflexivity].
      rewrite (IH rest ir mx K ltac:(cbn [length] in *; lia)).
      destruct (hcm_cases rest ir mx K) as [[A' ir'] o]. reflexivity.
Qed.

Theorem hcm_spec_scale l :
  hcm_spec (map (Z.mul a) l) = (map scp (fst (hcm_spec l)), map (Z.mul a) (snd (hcm_spec l))).
Proof.
  unfold hcm_spec.
  assert (H : forall l A ir mx out,
     fold_left hcm_push (map (Z.mul a) l) (map (Z.mul a) A, ir, a * mx, map scp out) =
     let '(A', ir', mx', out') := fold_left hcm_push l (A, ir, mx, out) in
     (map (Z.mul a) A', ir', a * mx', map scp out')).
  { induction l0 as [|K r IH]; intros A ir mx out.
    - reflexivity.
    - cbn [map fold_left hcm_push]. rewrite (hcm_cases_scale (length A) A ir mx K (le_n _)).
      destruct (hcm_cases A ir mx K) as [[A1 ir1] o1]. cbn [fst snd]. rewrite sc_abs, <- map_app.
      replace (Z.max (a * Z.abs K) (a * mx)) with (a * Z.max (Z.abs K) mx) by (rewrite Z.mul_max_distr_nonneg_l by lia; reflexivity).
      change (a * K :: map (Z.mul a) A1) with (map (Z.mul a) (K :: A1)). apply IH. }
  specialize (H l [] 1%nat 0 []). cbn [map] in H. rewrite Z.mul_0_r in H. rewrite H.
  destruct (fold_left hcm_push l ([], 1%nat, 0, [])) as [[[A' ir'] mx'] out']. cbn [fst snd].
  rewrite map_rev. reflexivity.
Qed.

Theorem runF_scale s :
  let '(c, r, _) := runF [s] in
  let '(c', r', _) := runF [map (Z.mul a) s] in
  c' = map scp c /\ r' = map (Z.mul a) r.
Proof.
  pose proof (fkm_is_hcm s) as H1. pose proof (fkm_is_hcm (map (Z.mul a) s)) as H2.
  destruct (runF [s]) as [[c r] i]. destruct (runF [map (Z.mul a) s]) as [[c' r'] i'].
  pose proof (find_turns_map (vm_affine a 0 Ha) s) as HF. cbn [phi vm_affine] in HF.
  assert (Hm : map (fun x => a * x + 0) s = map (Z.mul a) s) by (apply map_ext; intros; lia).
  rewrite Hm in HF. rewrite HF in H2.
  assert (Hv : map snd (map (imap (vm_affine a 0 Ha)) (find_turns s)) = map (Z.mul a) (map snd (find_turns s))).
  { rewrite !map_map. apply map_ext. intros [i0 v]. cbn. lia. }
  rewrite Hv, hcm_spec_scale, <- H1 in H2. cbn [fst snd] in H2. inversion H2. auto.
Qed.
End Scale.

(* ------------------------------------------------------------------ non-reversal samples *)
(* values of the turns only: independent of the index bookkeeping *)
Fixpoint scanV (p d : Z) (s : list Z) : list Z :=
  match s with
  | [] => []
  | x :: r =>
      if x =? p then scanV p d r
      else let e := Z.sgn (x - p) in
           if (negb (d =? 0)) && negb (e =? d) then p :: scanV x e r else scanV x e r
  end.

Lemma scan_values : forall s p d c i, map snd (scan p d c i s) = scanV p d s.
Proof.
  induction s as [|x r IH]; intros p d c i; cbn [scan scanV]; [reflexivity|].
  destruct (x =? p); [apply IH|].
  destruct (negb (d =? 0) && negb (Z.sgn (x - p) =? d)); cbn [map snd]; rewrite IH; reflexivity.
Qed.

(* state (last value, direction) after scanning a prefix *)
Fixpoint scanV_state (p d : Z) (s : list Z) : Z * Z :=
  match s with
  | [] => (p, d)
  | x :: r => if x =? p then scanV_state p d r else scanV_state x (Z.sgn (x - p)) r
  end.

Lemma scanV_app : forall s1 s2 p d,
  scanV p d (s1 ++ s2) = scanV p d s1 ++ scanV (fst (scanV_state p d s1)) (snd (scanV_state p d s1)) s2.
Proof.
  induction s1 as [|x r IH]; intros s2 p d; cbn [app scanV scanV_state]; [reflexivity|].
  destruct (x =? p); [apply IH|].
  destruct (negb (d =? 0) && negb (Z.sgn (x - p) =? d)); cbn [app]; rewrite IH; reflexivity.
Qed.

(* the direction in a reachable state is a sign, and it is 0 only before the first change *)
Lemma sgn_sgn_eq x y z : (x < y \/ y < x) -> (x <= z <= y \/ y <= z <= x) -> z <> x ->
  Z.sgn (z - x) = Z.sgn (y - x).
Proof. intros H1 H2 H3. destruct H1, H2; try lia; rewrite ?Z.sgn_pos, ?Z.sgn_neg by lia; reflexivity. Qed.

(* inserting y between u (the value just scanned) and the next sample v, with y (non-strictly) between
   them, does not change the emitted values *)
Lemma scanV_insert u d y v r : (u <= y <= v \/ v <= y <= u) ->
  scanV u d (y :: v :: r) = scanV u d (v :: r).
Proof.
  intros Hb. cbn [scanV].
  destruct (Z.eqb_spec y u) as [->|Hyu]; [reflexivity|].
  destruct (Z.eqb_spec v u) as [->|Hvu]; [lia|].
  assert (Hs : Z.sgn (y - u) = Z.sgn (v - u)) by (apply sgn_sgn_eq; lia).
  rewrite Hs.
  destruct (Z.eqb_spec v y) as [->|Hvy]; [reflexivity|].
  assert (Hs2 : Z.sgn (v - y) = Z.sgn (v - u)).
  { destruct Hb; rewrite ?Z.sgn_pos, ?Z.sgn_neg by lia; reflexivity. }
  rewrite Hs2, Z.eqb_refl.
  assert (Hnz : (Z.sgn (v - u) =? 0) = false) by (apply Z.eqb_neq; rewrite Z.sgn_null_iff; lia).
  rewrite Hnz. cbn [negb andb].
  destruct (negb (d =? 0) && negb (Z.sgn (v - u) =? d)); reflexivity.
Qed.

Lemma scanV_state_fst : forall s p d, fst (scanV_state p d s) = last (p :: s) 0.
Proof.
  induction s as [|x r IH]; intros p d; [reflexivity|]. cbn [scanV_state].
  destruct (Z.eqb_spec x p) as [->|Hne]; rewrite IH; reflexivity.
Qed.

Definition reversal_values (s : list Z) : list Z := map snd (find_turns s).

(* inserting, strictly between the first and the last sample, a sample that lies (non-strictly) between
   its neighbours leaves the reversal values unchanged *)
Theorem reversal_values_insert l1 u y v l2 : (u <= y <= v \/ v <= y <= u) ->
  reversal_values ((l1 ++ [u]) ++ y :: v :: l2) = reversal_values ((l1 ++ [u]) ++ v :: l2).
Proof.
  intros Hb. unfold reversal_values.
  destruct (l1 ++ [u]) as [|x0 r0] eqn:E; [destruct l1; discriminate|].
  cbn [app find_turns]. rewrite !scan_values, !scanV_app.
  f_equal.
  assert (Hl : fst (scanV_state x0 0 r0) = u).
  { rewrite scanV_state_fst. rewrite <- E. apply last_last. }
  rewrite Hl. apply scanV_insert. exact Hb.
Qed.

Lemma firstn1_app_ne (l : list Z) r : l <> [] -> firstn 1 (l ++ r) = firstn 1 l.
Proof. destruct l; [congruence|reflexivity]. Qed.
Lemma lastn1_app_cons (l : list Z) x r : lastn1 (l ++ x :: r) = lastn1 (x :: r).
Proof. unfold lastn1. rewrite rev_app_distr. cbn [rev]. destruct (rev r); reflexivity. Qed.
Lemma lastn1_cons_cons (y x : Z) r : lastn1 (y :: x :: r) = lastn1 (x :: r).
Proof. apply (lastn1_app_cons [y] x r). Qed.

Theorem tp_seq_insert l1 u y v l2 : (u <= y <= v \/ v <= y <= u) ->
  tp_seq ((l1 ++ [u]) ++ y :: v :: l2) = tp_seq ((l1 ++ [u]) ++ v :: l2).
Proof.
  intros Hb. unfold tp_seq.
  pose proof (reversal_values_insert l1 u y v l2 Hb) as HR. unfold reversal_values in HR. rewrite HR.
  rewrite (firstn1_app_ne (l1 ++ [u]) (y :: v :: l2)) by (destruct l1; discriminate).
  rewrite (firstn1_app_ne (l1 ++ [u]) (v :: l2)) by (destruct l1; discriminate).
  rewrite (lastn1_app_cons (l1 ++ [u]) y (v :: l2)), (lastn1_app_cons (l1 ++ [u]) v l2), lastn1_cons_cons. reflexivity.
Qed.

(* four-point detector: cycle values (in order) and residual values are unchanged *)
Theorem run4_insert_values l1 u y v l2 : (u <= y <= v \/ v <= y <= u) ->
  let '(c, r, _, _) := run4 [(l1 ++ [u]) ++ y :: v :: l2] in
  let '(c', r', _, _) := run4 [(l1 ++ [u]) ++ v :: l2] in
  cyc_values c = cyc_values c' /\ r = r'.
Proof.
  intros Hb.
  pose proof (fourpoint_is_textbook ((l1 ++ [u]) ++ y :: v :: l2) ltac:(destruct l1; discriminate)) as H1.
  pose proof (fourpoint_is_textbook ((l1 ++ [u]) ++ v :: l2) ltac:(destruct l1; discriminate)) as H2.
  destruct (run4 [(l1 ++ [u]) ++ y :: v :: l2]) as [[[c r] ri] k].
  destruct (run4 [(l1 ++ [u]) ++ v :: l2]) as [[[c' r'] ri'] k'].
  rewrite (tp_seq_insert l1 u y v l2 Hb) in H1. rewrite <- H2 in H1. inversion H1. auto.
Qed.

(* FKM detector: everything it reports (cycles in order, residuals) is unchanged *)
Theorem runF_insert_values l1 u y v l2 : (u <= y <= v \/ v <= y <= u) ->
  let '(c, r, _) := runF [(l1 ++ [u]) ++ y :: v :: l2] in
  let '(c', r', _) := runF [(l1 ++ [u]) ++ v :: l2] in
  c = c' /\ r = r'.
Proof.
  intros Hb.
  pose proof (fkm_is_hcm ((l1 ++ [u]) ++ y :: v :: l2)) as H1.
  pose proof (fkm_is_hcm ((l1 ++ [u]) ++ v :: l2)) as H2.
  destruct (runF [(l1 ++ [u]) ++ y :: v :: l2]) as [[c r] i].
  destruct (runF [(l1 ++ [u]) ++ v :: l2]) as [[c' r'] i'].
  pose proof (reversal_values_insert l1 u y v l2 Hb) as HR. unfold reversal_values in HR.
  rewrite HR, <- H2 in H1. inversion H1. auto.
Qed.
