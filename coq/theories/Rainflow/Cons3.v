(* C02, three-point detector (one-piece run): cycle end points and residual together use every turning point
   exactly once -- unbounded.  A ghost version of the kernel returns the popped position pairs; the
   positions 0 .. back-1 are always a permutation of the stack plus the popped positions. *)
From Coq Require Import ZArith List Bool Lia Permutation.
From PL Require Import Rainflow.Model Rainflow.Spec Rainflow.Stream Rainflow.Chunk Rainflow.SpecThm Rainflow.IndexThm Rainflow.Symm3b.
Import ListNotations.
Open Scope Z_scope.

Section G3.
Variable turns : list Z.
Variable tidx : list nat.

Definition rec3 (pq : nat * nat) : Z * Z * nat * nat :=
  (nthZ turns (fst pq), nthZ turns (snd pq), nthN tidx (fst pq), nthN tidx (snd pq)).
Definition flatp (pp : list (nat * nat)) : list nat := flat_map (fun pq => [fst pq; snd pq]) pp.

(* ghost kernel: as close3, but returns the popped (start, front) position pairs *)
Fixpoint close3p (fuel : nat) (stk : list nat) (hf lf back : nat) : list nat * nat * nat * list (nat * nat) :=
  match fuel with
  | O => (stk, hf, lf, [])
  | S f =>
    match stk with
    | front :: start :: rest =>
        let sv := nthZ turns start in let fv := nthZ turns front in let bv := nthZ turns back in
        if fv >? nthZ turns hf then (stk, front, lf, [])
        else if fv <? nthZ turns lf then (stk, hf, front, [])
        else if (Nat.leb (Nat.max lf hf) start) && (Z.abs (fv - sv) <=? Z.abs (bv - fv))
             then let '(s, h, l, pp) := close3p f rest hf lf back in (s, h, l, (start, front) :: pp)
             else (stk, hf, lf, [])
    | _ => (stk, hf, lf, [])
    end
  end.

Lemma close3_ghost : forall fuel stk hf lf back out,
  close3 fuel turns tidx stk hf lf back out =
  let '(s, h, l, pp) := close3p fuel stk hf lf back in (s, h, l, out ++ map rec3 pp).
Proof.
  induction fuel as [|fuel IH]; intros stk hf lf back out; [cbn; rewrite app_nil_r; reflexivity|].
  destruct stk as [|front [|start rest]]; try (cbn; rewrite ?app_nil_r; reflexivity).
  cbn [close3 close3p].
  destruct (nthZ turns front >? nthZ turns hf); [rewrite app_nil_r; reflexivity|].
  destruct (nthZ turns front <? nthZ turns lf); [rewrite app_nil_r; reflexivity|].
  destruct ((Nat.max lf hf <=? start)%nat && _); [|rewrite app_nil_r; reflexivity].
  rewrite IH. destruct (close3p fuel rest hf lf back) as [[[s h] l] pp]. cbn [map]. rewrite <- app_assoc. reflexivity.
Qed.

Lemma close3p_perm : forall fuel stk hf lf back,
  Permutation stk (fst (fst (fst (close3p fuel stk hf lf back))) ++ flatp (snd (close3p fuel stk hf lf back))).
Proof.
  induction fuel as [|fuel IH]; intros stk hf lf back; [cbn; rewrite app_nil_r; apply Permutation_refl|].
  destruct stk as [|front [|start rest]]; try (cbn; rewrite ?app_nil_r; apply Permutation_refl).
  cbn [close3p].
  destruct (nthZ turns front >? nthZ turns hf); [cbn; rewrite app_nil_r; apply Permutation_refl|].
  destruct (nthZ turns front <? nthZ turns lf); [cbn; rewrite app_nil_r; apply Permutation_refl|].
  destruct ((Nat.max lf hf <=? start)%nat && _); [|cbn; rewrite app_nil_r; apply Permutation_refl].
  specialize (IH rest hf lf back). destruct (close3p fuel rest hf lf back) as [[[s h] l] pp].
  cbn [fst snd flatp flat_map app] in *.
  apply Permutation_trans with ([front; start] ++ rest); [apply Permutation_refl|].
  apply Permutation_trans with (rest ++ [front; start]); [apply Permutation_app_comm|].
  apply Permutation_trans with ((s ++ flatp pp) ++ [front; start]); [apply Permutation_app_tail; exact IH|].
  rewrite <- app_assoc. apply Permutation_app_head.
  apply Permutation_trans with ([front; start] ++ flatp pp); [apply Permutation_app_comm|].
  cbn [app]. apply perm_swap.
Qed.

Fixpoint loop3p (back n : nat) (stk : list nat) (hf lf : nat) : list nat * list (nat * nat) :=
  match n with
  | O => (stk, [])
  | S k =>
      let '(stk', hf', lf', pp) := close3p (S (length stk)) stk hf lf back in
      let '(s, pp2) := loop3p (S back) k (back :: stk') hf' lf' in (s, pp ++ pp2)
  end.

Lemma loop3_ghost : forall n back stk hf lf out,
  loop3 turns tidx back n stk hf lf out =
  let '(s, pp) := loop3p back n stk hf lf in (s, out ++ map rec3 pp).
Proof.
  induction n as [|n IH]; intros back stk hf lf out; [cbn; rewrite app_nil_r; reflexivity|].
  cbn [loop3 loop3p]. rewrite close3_ghost.
  destruct (close3p (S (length stk)) stk hf lf back) as [[[s1 h] l] pp].
  rewrite IH. destruct (loop3p (S back) n (back :: s1) h l) as [s pp2].
  rewrite map_app, app_assoc. reflexivity.
Qed.

Lemma loop3p_perm : forall n back stk hf lf,
  Permutation (stk ++ seq back n) (fst (loop3p back n stk hf lf) ++ flatp (snd (loop3p back n stk hf lf))).
Proof.
  induction n as [|n IH]; intros back stk hf lf; [cbn; rewrite !app_nil_r; apply Permutation_refl|].
  cbn [loop3p seq].
  pose proof (close3p_perm (S (length stk)) stk hf lf back) as HP.
  destruct (close3p (S (length stk)) stk hf lf back) as [[[s1 h] l] pp]. cbn [fst snd] in HP.
  specialize (IH (S back) (back :: s1) h l).
  destruct (loop3p (S back) n (back :: s1) h l) as [s pp2]. cbn [fst snd] in *.
  unfold flatp. rewrite flat_map_app. fold (flatp pp) (flatp pp2).
  (* stk ++ back :: seq (S back) n  ~  s ++ flatp pp ++ flatp pp2 *)
  apply Permutation_trans with ((s1 ++ flatp pp) ++ back :: seq (S back) n); [apply Permutation_app_tail; exact HP|].
  rewrite <- app_assoc.
  apply Permutation_trans with (flatp pp ++ (back :: s1) ++ seq (S back) n).
  { rewrite app_assoc. apply Permutation_trans with ((flatp pp ++ s1) ++ back :: seq (S back) n).
    - apply Permutation_app_tail. apply Permutation_app_comm.
    - rewrite <- app_assoc. apply Permutation_app_head. cbn [app]. apply Permutation_sym, Permutation_middle. }
  apply Permutation_trans with (flatp pp ++ s ++ flatp pp2); [apply Permutation_app_head; exact IH|].
  rewrite !app_assoc. apply Permutation_app_tail. apply Permutation_app_comm.
Qed.
End G3.

Theorem conservation_3pt s : s <> [] ->
  let '(c, r, _, _) := run3 [s] in
  Permutation (tp_seq s) (flat_map (fun q => [fst (fst (fst q)); snd (fst (fst q))]) c ++ r).
Proof.
  intros Hs. unfold run3. cbn [fold_left]. unfold process3. cbn [resid stail shead ridx cyc chunks init].
  rewrite new_turns_first.
  destruct s as [|x0 s0] eqn:Es; [congruence|]. rewrite <- Es in *.
  assert (Hf1 : firstn 1 s = [x0]) by (rewrite Es; reflexivity). rewrite Hf1. cbn [argmax argmin argfirst].
  unfold tp_seq. rewrite Hf1.
  set (turns := [x0] ++ map snd (find_turns s) ++ lastn1 s).
  set (tidx := [0%nat] ++ map fst (find_turns s)).
  assert (HL : (2 <= length turns)%nat).
  { unfold turns. rewrite !app_length. cbn [length]. unfold lastn1. destruct (rev s) eqn:Er.
    - apply (f_equal (@rev Z)) in Er. rewrite rev_involutive in Er. cbn in Er. congruence.
    - cbn [length]. lia. }
  unfold threepoint_loop. rewrite loop3_ghost.
  pose proof (loop3p_perm turns (length turns - 2) 2 [1%nat; 0%nat] 0%nat 0%nat) as HP.
  destruct (loop3p turns 2 (length turns - 2) [1%nat; 0%nat] 0 0) as [stk pp]. cbn [fst snd] in HP.
  unfold obs. cbn [cyc resid app].
  (* positions 0 .. L-1 *)
  assert (Hseq : Permutation (seq 0 (length turns)) ([1%nat; 0%nat] ++ seq 2 (length turns - 2))).
  { replace (length turns) with (2 + (length turns - 2))%nat at 1 by lia. rewrite seq_app. cbn [seq app Nat.add].
    apply perm_swap. }
  assert (Hpos : Permutation (seq 0 (length turns)) (flatp pp ++ rev stk)).
  { eapply Permutation_trans; [exact Hseq|]. eapply Permutation_trans; [exact HP|].
    eapply Permutation_trans; [apply Permutation_app_comm|]. apply Permutation_app_head. apply Permutation_rev. }
  apply (Permutation_map (nthZ turns)) in Hpos. rewrite map_app in Hpos.
  unfold nthZ in Hpos at 1. rewrite map_nth_seq in Hpos.
  eapply Permutation_trans; [exact Hpos|]. apply Permutation_app; [|apply Permutation_refl].
  clear. induction pp as [|[p q] pp IH]; [constructor|].
  cbn [map flatp flat_map app rec3 fst snd]. do 2 constructor. exact IH.
Qed.
