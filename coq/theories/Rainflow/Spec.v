(* Specifications the detectors are compared with (C02).  Written on plain turning-point VALUE lists:
   no sample indices, no chunk restart, no provisional sample, no positions into arrays. *)
From Coq Require Import ZArith List Bool Lia.
From PL Require Import Rainflow.Model.
Import ListNotations.
Open Scope Z_scope.

(* ---- textbook four-point rule: with the last three open points a b c and the new point d, the inner
   range (b,c) is a cycle when |b-c| <= |a-b| and |b-c| <= |c-d|; it is counted, b and c are removed and
   the test is repeated; otherwise d is appended.  (open points kept newest-first) *)
Definition closable4 (a b c d : Z) : bool :=
  (Z.abs (b - c) <=? Z.abs (a - b)) && (Z.abs (b - c) <=? Z.abs (c - d)).

Fixpoint fp_close (open : list Z) (d : Z) : list Z * list (Z * Z) :=
  match open with
  | c :: ((b :: rest) as _) =>
      match rest with
      | a :: _ => if closable4 a b c d
                  then let '(s, o) := fp_close rest d in (s, (b, c) :: o)
                  else (open, [])
      | [] => (open, [])
      end
  | _ => (open, [])
  end.
Definition fp_push (st : list Z * list (Z * Z)) (d : Z) : list Z * list (Z * Z) :=
  let '(open, out) := st in let '(s, o) := fp_close open d in (d :: s, out ++ o).
(* result: cycles in the order they close, residual oldest-first *)
Definition fp_spec (tp : list Z) : list (Z * Z) * list Z :=
  let '(open, out) := fold_left fp_push tp ([], []) in (out, rev open).

(* the turning-point sequence of a signal: first sample, interior reversals (a plateau counts once),
   last sample *)
Definition tp_seq (s : list Z) : list Z := firstn 1 s ++ map snd (find_turns s) ++ lastn1 s.

(* ---- HCM rule (Clormann-Seeger) in the form of the FKM non-linear guideline's case list, on the
   reversal sequence: A = open reversals (newest first), iz = |A|, ir = primary-path counter,
   mx = largest |reversal| so far.
   a) iz = ir: K continues the primary path; if |K| exceeds mx the primary path grows (ir+1)
   b) iz < ir: nothing can close
   c) iz > ir: with J = A[iz], I = A[iz-1]:
        i.  |K-J| <  |J-I|: no hysteresis closes
        ii. otherwise (I,J) closes and is removed;
            B) both |I|,|J| < mx: the test is repeated with the remaining open reversals
            A) otherwise the load path is back on the primary path: nothing further closes *)
Fixpoint hcm_cases (A : list Z) (ir : nat) (mx K : Z) : list Z * nat * list (Z * Z) :=
  let iz := length A in
  if (iz =? ir)%nat then (A, if Z.abs K >? mx then S ir else ir, [])
  else if (iz <? ir)%nat then (A, ir, [])
  else match A with
       | vJ :: vI :: rest =>
           if Z.abs (K - vJ) <? Z.abs (vJ - vI) then (A, ir, [])
           else if (Z.abs vI <? mx) && (Z.abs vJ <? mx)
                then let '(A', ir', o) := hcm_cases rest ir mx K in (A', ir', (vI, vJ) :: o)
                else (rest, ir, [(vI, vJ)])
       | _ => (A, ir, [])
       end.
Definition hcm_push (st : list Z * nat * Z * list (Z * Z)) (K : Z) : list Z * nat * Z * list (Z * Z) :=
  let '(A, ir, mx, out) := st in
  let '(A', ir', o) := hcm_cases A ir mx K in (K :: A', ir', Z.max (Z.abs K) mx, out ++ o).
Definition hcm_spec (reversals : list Z) : list (Z * Z) * list Z :=
  let '(A, _, _, out) := fold_left hcm_push reversals ([], 1%nat, 0, []) in (out, rev A).
