(* Bounded instance of the three-point / four-point equivalence (McInnes-Meehan): exhaustive by vm_compute. *)
From Coq Require Import ZArith List Bool Lia.
From PL Require Import Rainflow.Model Rainflow.Eqb Rainflow.Bounded.
Import ListNotations.
Open Scope Z_scope.

Definition count_cyc (p : Z*Z*nat*nat) (l : list (Z*Z*nat*nat)) := length (filter (cyceq p) l).
(* multiset equality of cycles (value and index of both end points) *)
Definition mseq (a b : list (Z*Z*nat*nat)) :=
  Nat.eqb (length a) (length b) && forallb (fun p => Nat.eqb (count_cyc p a) (count_cyc p b)) a.
Definition same34 (s : list Z) : bool :=
  let '(c3, r3, i3, _) := run3 [s] in let '(c4, r4, i4, _) := run4 [s] in
  mseq c3 c4 && leqb Z.eqb r3 r4 && leqb Nat.eqb i3 i4.

Lemma sweep34 : forallb same34 (all_sigs [0;1;2;3] 8) = true.
Proof. vm_compute. reflexivity. Qed.

(* for every signal over {0..3} of length 1..8 the three-point detector reports the same multiset of
   cycles (values AND sample indices) and the same residual / residual index as the four-point detector *)
Theorem threepoint_same_as_fourpoint_bounded s :
  (1 <= length s <= 8)%nat -> Forall (fun x => 0 <= x <= 3) s -> same34 s = true.
Proof.
  intros Hl Hal. pose proof sweep34 as H. rewrite forallb_forall in H. apply H.
  apply in_all_sigs; [exact Hl|].
  eapply Forall_impl; [|exact Hal]. cbn. intros x Hx.
  assert (x = 0 \/ x = 1 \/ x = 2 \/ x = 3) as [-> | [-> | [-> | ->]]] by lia; cbn; auto.
Qed.
