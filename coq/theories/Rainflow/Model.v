(* Gallina model of pyLife's rainflow detectors (general.py, threepoint.py, fourpoint.py, fkm.py,
   extension.pyx, recorders.py), over integer-valued signals (DESIGN.md section 4: on integer-valued
   doubles every comparison the kernels make is exact).  No proofs here: the model must stay runnable
   (correspondence check) even when a proof breaks. *)
From Coq Require Import ZArith List Bool Lia.
Import ListNotations.
Open Scope Z_scope.

(* ---------- find_turns (general.py): streaming scan ----------
   state: previous value p, direction d of the last non-zero difference (0 = none yet),
   index c of the first sample of the current constant run, index i of the next sample.
   A turn is emitted at the FIRST sample of the run at which the direction reverses. *)
Fixpoint scan (p d : Z) (c i : nat) (s : list Z) : list (nat * Z) :=
  match s with
  | [] => []
  | x :: r =>
      if x =? p then scan p d c (S i) r
      else let e := Z.sgn (x - p) in
           let rest := scan x e i (S i) r in
           if (negb (d =? 0)) && negb (e =? d) then (c, p) :: rest else rest
  end.
Definition find_turns (s : list Z) : list (nat * Z) :=
  match s with [] => [] | x :: r => scan x 0 0%nat 1%nat r end.

(* ---------- detector state (AbstractDetector + recorder) ---------- *)
Record dstate := { stail : list Z; shead : nat; resid : list Z; ridx : list nat;
                   cyc : list (Z * Z * nat * nat); chunks : list nat }.
Definition init := {| stail := []; shead := 0; resid := []; ridx := [0%nat]; cyc := []; chunks := [] |}.

Definition lastn1 {A} (l : list A) : list A := match rev l with [] => [] | x :: _ => [x] end.

(* AbstractDetector._new_turns (+ _flush_new_turns): returns (turns with GLOBAL index, new tail, new head) *)
Definition new_turns (tl : list Z) (hd : nat) (chunk : list Z) (flush : bool)
  : list (nat * Z) * list Z * nat :=
  let swt := tl ++ chunk in
  let t := find_turns swt in
  let sti := match rev t with [] => 0%nat | (i, _) :: _ => i end in
  let t' := map (fun iv => ((fst iv + hd - length tl)%nat, snd iv)) t in
  let tl' := skipn sti swt in
  let hd' := (hd + length chunk)%nat in
  if flush then (t' ++ map (fun v => ((hd' - 1)%nat, v)) (lastn1 tl'), lastn1 tl', hd')
  else (t', tl', hd').

Definition nthZ (l : list Z) (i : nat) := nth i l 0.
Definition nthN (l : list nat) (i : nat) := nth i l 0%nat.

(* ---------- four-point kernel (extension.pyx fourpoint_loop): stack of positions into turns ---------- *)
Fixpoint close4 (fuel : nat) (turns : list Z) (tidx : list nat) (stk : list nat) (d : Z)
   (out : list (Z*Z*nat*nat)) : list nat * list (Z*Z*nat*nat) :=
  match fuel with
  | O => (stk, out)
  | S f =>
    match stk with
    | c :: b :: a :: rest =>
        let av := nthZ turns a in let bv := nthZ turns b in let cv := nthZ turns c in
        let ab := Z.abs (av - bv) in let bc := Z.abs (bv - cv) in let cd := Z.abs (cv - d) in
        if (bc <=? ab) && (bc <=? cd)
        then close4 f turns tidx (a :: rest) d (out ++ [(bv, cv, nthN tidx b, nthN tidx c)])
        else (stk, out)
    | _ => (stk, out)
    end
  end.

Fixpoint loop4 (turns : list Z) (tidx : list nat) (i : nat) (rest : list Z) (stk : list nat)
   (out : list (Z*Z*nat*nat)) : list nat * list (Z*Z*nat*nat) :=
  match rest with
  | [] => (stk, out)
  | d :: r =>
      let '(stk', out') := close4 (length stk) turns tidx stk d out in
      loop4 turns tidx (S i) r (i :: stk') out'
  end.

Definition fourpoint_loop (turns : list Z) (tidx : list nat) : list (Z*Z*nat*nat) * list nat :=
  let '(stk, out) := loop4 turns tidx 0%nat turns [] [] in (out, rev stk).

Definition process4 (st : dstate) (chunk : list Z) : dstate :=
  let residuals := match resid st with [] => firstn 1 chunk | _ => removelast (resid st) end in
  let '(t, tl', hd') := new_turns (stail st) (shead st) chunk false in
  let turns := residuals ++ map snd t ++ lastn1 chunk in
  let tidx := ridx st ++ map fst t in
  let '(out, ri) := fourpoint_loop turns tidx in
  {| stail := tl'; shead := hd';
     resid := map (nthZ turns) ri;
     ridx := map (nthN tidx) (removelast ri);
     cyc := cyc st ++ out; chunks := chunks st ++ [length chunk] |}.

(* ---------- three-point kernel (extension.pyx threepoint_loop) ---------- *)
Fixpoint close3 (fuel : nat) (turns : list Z) (tidx : list nat) (stk : list nat) (hf lf : nat) (back : nat)
   (out : list (Z*Z*nat*nat)) : list nat * nat * nat * list (Z*Z*nat*nat) :=
  match fuel with
  | O => (stk, hf, lf, out)
  | S f =>
    match stk with
    | front :: start :: rest =>
        let sv := nthZ turns start in let fv := nthZ turns front in let bv := nthZ turns back in
        if fv >? nthZ turns hf then (stk, front, lf, out)
        else if fv <? nthZ turns lf then (stk, hf, front, out)
        else if (Nat.leb (Nat.max lf hf) start) && (Z.abs (fv - sv) <=? Z.abs (bv - fv))
             then close3 f turns tidx rest hf lf back (out ++ [(sv, fv, nthN tidx start, nthN tidx front)])
             else (stk, hf, lf, out)
    | _ => (stk, hf, lf, out)
    end
  end.

Fixpoint loop3 (turns : list Z) (tidx : list nat) (back : nat) (n : nat) (stk : list nat) (hf lf : nat)
   (out : list (Z*Z*nat*nat)) : list nat * list (Z*Z*nat*nat) :=
  match n with
  | O => (stk, out)
  | S k =>
      let '(stk', hf', lf', out') := close3 (S (length stk)) turns tidx stk hf lf back out in
      loop3 turns tidx (S back) k (back :: stk') hf' lf' out'
  end.

(* numpy argmax / argmin: first occurrence *)
Fixpoint argfirst (better : Z -> Z -> bool) (l : list Z) (i : nat) (bv : Z) (bi : nat) : nat :=
  match l with [] => bi | x :: r => if better x bv then argfirst better r (S i) x i else argfirst better r (S i) bv bi end.
Definition argmax (l : list Z) := match l with [] => 0%nat | x :: r => argfirst Z.gtb r 1%nat x 0%nat end.
Definition argmin (l : list Z) := match l with [] => 0%nat | x :: r => argfirst Z.ltb r 1%nat x 0%nat end.

Definition threepoint_loop (turns : list Z) (tidx : list nat) (hf lf : nat) : list (Z*Z*nat*nat) * list nat :=
  let '(stk, out) := loop3 turns tidx 2%nat (length turns - 2)%nat [1%nat; 0%nat] hf lf [] in (out, rev stk).

Definition process3 (st : dstate) (chunk : list Z) : dstate :=
  let residuals := match resid st with [] => firstn 1 chunk | _ => removelast (resid st) end in
  let '(t, tl', hd') := new_turns (stail st) (shead st) chunk false in
  let turns := residuals ++ map snd t ++ lastn1 chunk in
  let tidx := ridx st ++ map fst t in
  let '(out, ri) := threepoint_loop turns tidx (argmax residuals) (argmin residuals) in
  {| stail := tl'; shead := hd';
     resid := map (nthZ turns) ri;
     ridx := map (nthN tidx) (removelast ri);
     cyc := cyc st ++ out; chunks := chunks st ++ [length chunk] |}.

(* observable result of a 3-/4-point detector: cycles (from, to, index_from, index_to), residuals,
   residual_index (= stored index ++ [head-1]), recorder chunk sizes *)
Definition obs (st : dstate) := (cyc st, resid st, ridx st ++ [(shead st - 1)%nat], chunks st).
Definition run4 (chs : list (list Z)) := obs (fold_left process4 chs init).
Definition run3 (chs : list (list Z)) := obs (fold_left process3 chs init).

(* ---------- FKM detector (fkm.py, Clormann-Seeger HCM) ----------
   residuals top-first; ir = primary-path counter; mt = largest |turn| so far *)
Record fstate := { ftail : list Z; fhead : nat; fres : list Z; fir : nat; fmax : Z; fcyc : list (Z * Z) }.
Definition finit := {| ftail := []; fhead := 0; fres := []; fir := 1; fmax := 0; fcyc := [] |}.

Fixpoint fkm_close (res : list Z) (ir : nat) (mt cur : Z) : list Z * nat * list (Z * Z) :=
  if (length res <? ir)%nat then (res, ir, [])
  else if (ir <? length res)%nat then
    match res with
    | l0 :: l1 :: rest =>
        if Z.abs (l0 - l1) <=? Z.abs (cur - l0) then
          if (Z.abs l0 <? mt) && (Z.abs l1 <? mt)
          then let '(r, ir', o) := fkm_close rest ir mt cur in (r, ir', (l1, l0) :: o)
          else (rest, ir, [(l1, l0)])
        else (res, ir, [])
    | _ => (res, ir, [])
    end
  else (res, if mt <? Z.abs cur then S ir else ir, []).

Definition fkm_turn (st : list Z * nat * Z * list (Z * Z)) (cur : Z) : list Z * nat * Z * list (Z * Z) :=
  let '(res, ir, mt, out) := st in
  let '(res', ir', o) := fkm_close res ir mt cur in
  (cur :: res', ir', Z.max (Z.abs cur) mt, out ++ o).

Definition processF (st : fstate) (chunk : list Z) : fstate :=
  let '(t, tl', hd') := new_turns (ftail st) (fhead st) chunk false in
  let '(res, ir, mt, out) := fold_left fkm_turn (map snd t) (fres st, fir st, fmax st, fcyc st) in
  {| ftail := tl'; fhead := hd'; fres := res; fir := ir; fmax := mt; fcyc := out |}.

(* observable: cycles (from, to), residuals oldest-first, residual_index = [0; head-1] *)
Definition obsF (st : fstate) := (fcyc st, rev (fres st), [0%nat; (fhead st - 1)%nat]).
Definition runF (chs : list (list Z)) := obsF (fold_left processF chs finit).

(* ---------- recorder bookkeeping: AbstractRecorder.chunk_local_index ----------
   cumsum + searchsorted(side='right') - 1 *)
Fixpoint chunk_local (cs : list nat) (g : nat) (k : nat) : nat * nat :=
  match cs with
  | [] => (k, g)      (* beyond the recorded chunks: numpy returns the last+1 boundary; not reached for reported indices *)
  | c :: r => if (g <? c)%nat then (k, g) else chunk_local r (g - c) (S k)
  end.
Definition chunk_local_index (cs : list nat) (g : nat) : nat * nat := chunk_local cs g 0.
