(* Boolean equalities on observations and enumeration helpers used by the correspondence check and
   by the bounded (vm_compute) theorems. *)
From Coq Require Import ZArith List Bool Lia.
From PL Require Import Rainflow.Model.
Import ListNotations.
Open Scope Z_scope.

Fixpoint leqb {A} (e : A -> A -> bool) (a b : list A) : bool :=
  match a, b with [], [] => true | x :: r, y :: t => e x y && leqb e r t | _, _ => false end.

Lemma leqb_eq {A} (e : A -> A -> bool) (He : forall x y, e x y = true -> x = y) a b :
  leqb e a b = true -> a = b.
Proof.
  revert b; induction a as [|x r IH]; intros [|y t] H; cbn in H; try discriminate; [reflexivity|].
  apply andb_true_iff in H. destruct H as [H1 H2]. f_equal; [apply He; exact H1|apply IH; exact H2].
Qed.

Definition cyceq (x y : Z*Z*nat*nat) : bool :=
  let '(a,b,c,d) := x in let '(a',b',c',d') := y in (a =? a') && (b =? b') && Nat.eqb c c' && Nat.eqb d d'.
Definition pairZeq (x y : Z*Z) : bool := (fst x =? fst y) && (snd x =? snd y).

Definition obs_t := (list (Z*Z*nat*nat) * list Z * list nat * list nat)%type.
Definition eqobs (a b : obs_t) : bool :=
  let '(c1, r1, i1, k1) := a in let '(c2, r2, i2, k2) := b in
  leqb cyceq c1 c2 && leqb Z.eqb r1 r2 && leqb Nat.eqb i1 i2 && leqb Nat.eqb k1 k2.
(* same, ignoring the recorder's chunk list (which necessarily differs between partitions) *)
Definition eqobs_nochunks (a b : obs_t) : bool :=
  let '(c1, r1, i1, _) := a in let '(c2, r2, i2, _) := b in
  leqb cyceq c1 c2 && leqb Z.eqb r1 r2 && leqb Nat.eqb i1 i2.

Definition obsF_t := (list (Z*Z) * list Z * list nat)%type.
Definition eqobsF (a b : obsF_t) : bool :=
  let '(c1, r1, i1) := a in let '(c2, r2, i2) := b in
  leqb pairZeq c1 c2 && leqb Z.eqb r1 r2 && leqb Nat.eqb i1 i2.

Lemma cyceq_eq x y : cyceq x y = true -> x = y.
Proof.
  destruct x as [[[a b] c] d], y as [[[a' b'] c'] d']. cbn. rewrite !andb_true_iff.
  intros [[[H1 H2] H3] H4]. apply Z.eqb_eq in H1, H2. apply Nat.eqb_eq in H3, H4. congruence.
Qed.
Lemma pairZeq_eq x y : pairZeq x y = true -> x = y.
Proof.
  destruct x, y. unfold pairZeq; cbn. rewrite andb_true_iff. intros [H1 H2].
  apply Z.eqb_eq in H1, H2. congruence.
Qed.
Lemma eqobs_nochunks_eq a b : eqobs_nochunks a b = true ->
  fst (fst (fst a)) = fst (fst (fst b)) /\ snd (fst (fst a)) = snd (fst (fst b)) /\ snd (fst a) = snd (fst b).
Proof.
  destruct a as [[[c1 r1] i1] k1], b as [[[c2 r2] i2] k2]. cbn. rewrite !andb_true_iff.
  intros [[H1 H2] H3]. repeat split.
  - apply (leqb_eq cyceq cyceq_eq); exact H1.
  - apply (leqb_eq Z.eqb); [intros; now apply Z.eqb_eq|exact H2].
  - apply (leqb_eq Nat.eqb); [intros; now apply Nat.eqb_eq|exact H3].
Qed.
Lemma eqobsF_eq a b : eqobsF a b = true -> a = b.
Proof.
  destruct a as [[c1 r1] i1], b as [[c2 r2] i2]. cbn. rewrite !andb_true_iff.
  intros [[H1 H2] H3]. f_equal; [f_equal|].
  - apply (leqb_eq pairZeq pairZeq_eq); exact H1.
  - apply (leqb_eq Z.eqb); [intros; now apply Z.eqb_eq|exact H2].
  - apply (leqb_eq Nat.eqb); [intros; now apply Nat.eqb_eq|exact H3].
Qed.

(* all signals of length n over an alphabet; all partitions of a signal into consecutive non-empty chunks *)
Fixpoint sigs (alph : list Z) (n : nat) : list (list Z) :=
  match n with O => [[]] | S k => flat_map (fun s => map (fun a => a :: s) alph) (sigs alph k) end.
Fixpoint parts (s : list Z) : list (list (list Z)) :=
  match s with
  | [] => [[]]
  | [x] => [[[x]]]
  | x :: r => flat_map (fun p => match p with [] => [] | c :: cs => [ (x :: c) :: cs ; [x] :: c :: cs ] end) (parts r)
  end.

Lemma in_sigs alph n s : length s = n -> Forall (fun x => In x alph) s -> In s (sigs alph n).
Proof.
  revert s; induction n as [|n IH]; intros s Hl Hf.
  - destruct s; [left; reflexivity|discriminate].
  - destruct s as [|x r]; [discriminate|]. cbn [sigs]. apply in_flat_map. exists r. split.
    + apply IH; [cbn in Hl; lia|inversion Hf; assumption].
    + apply (in_map (fun a => a :: r)). inversion Hf; assumption.
Qed.

(* parts enumerates every partition into non-empty chunks *)
Lemma in_parts : forall cs, cs <> [] -> Forall (fun c => c <> []) cs -> In cs (parts (concat cs)).
Proof.
  assert (Hparts_cons : forall x r, r <> [] -> parts (x :: r) =
            flat_map (fun p => match p with [] => [] | c :: cs => [ (x :: c) :: cs ; [x] :: c :: cs ] end) (parts r)).
  { intros x [|y r] H; [congruence|reflexivity]. }
  intros cs. remember (length (concat cs)) as n eqn:Hn. revert cs Hn.
  induction n as [n IH] using lt_wf_ind. intros cs Hn Hne Hf.
  destruct cs as [|c cs]; [congruence|]. inversion Hf as [|? ? Hc Hf']; subst.
  destruct c as [|x c]; [congruence|]. cbn [concat app].
  destruct c as [|y c].
  - (* chunk [x] *)
    destruct cs as [|c2 cs].
    + cbn. left. reflexivity.
    + assert (Hr : concat (c2 :: cs) <> []).
      { inversion Hf' as [|? ? Hc2 _]; subst. destruct c2; [congruence|discriminate]. }
      cbn [app]. rewrite Hparts_cons by exact Hr. apply in_flat_map. exists (c2 :: cs). split.
      * apply (IH (length (concat (c2 :: cs)))); [cbn [concat app length]; lia|reflexivity|discriminate|exact Hf'].
      * right. left. reflexivity.
  - (* chunk x :: y :: c *)
    assert (Hr : (y :: c) ++ concat cs <> []) by discriminate.
    change ((x :: y :: c) ++ concat cs) with (x :: ((y :: c) ++ concat cs)).
    rewrite Hparts_cons by exact Hr. apply in_flat_map. exists ((y :: c) :: cs). split.
    * apply (IH (length (concat ((y :: c) :: cs)))); [cbn [concat app length]; rewrite ?app_length; cbn; lia|reflexivity|discriminate|].
      constructor; [discriminate|exact Hf'].
    * left. reflexivity.
Qed.
