(* Refinement: the position/fuel formulation of the four-point kernel in Model.v (a transcription of
   extension.pyx) computes exactly what the item-level stack machine of FP.v computes.  FP.v's machine,
   projected to values, is the textbook four-point rule (Spec.fp_spec). *)
From Coq Require Import ZArith List Bool Lia.
From PL Require Import Rainflow.Model Rainflow.FP.
Import ListNotations.
Open Scope Z_scope.

Section Refine.
Variable turns : list Z.
Variable tidx : list nat.

Definition itm (p : nat) : item := (nthZ turns p, nthN tidx p).
Definition cyc4 (c : FP.cyc) : Z * Z * nat * nat := (fst (fst c), fst (snd c), snd (fst c), snd (snd c)).

Lemma close4_refine : forall fuel stk d out, (length stk <= fuel)%nat ->
  exists s o, close4 fuel turns tidx stk d out = (s, out ++ map cyc4 o) /\
              FP.close (map itm stk) d = (map itm s, o).
Proof.
  induction fuel as [|f IH]; intros stk d out Hlen.
  - destruct stk; [|cbn in Hlen; lia]. exists [], []. cbn. rewrite app_nil_r. auto.
  - destruct stk as [|c [|b [|a rest]]].
    + exists [], []. cbn. rewrite app_nil_r. auto.
    + exists [c], []. cbn. rewrite app_nil_r. auto.
    + exists [c; b], []. cbn. rewrite app_nil_r. auto.
    + cbn [close4]. cbn [map]. rewrite FP.close_step.
      unfold closable. cbn [itm fst].
      destruct ((Z.abs (nthZ turns b - nthZ turns c) <=? Z.abs (nthZ turns a - nthZ turns b)) &&
                (Z.abs (nthZ turns b - nthZ turns c) <=? Z.abs (nthZ turns c - d))) eqn:Hc.
      * destruct (IH (a :: rest) d (out ++ [(nthZ turns b, nthZ turns c, nthN tidx b, nthN tidx c)])
                  ltac:(cbn [length] in *; lia)) as (s & o & H1 & H2).
        exists s, ((itm b, itm c) :: o). split.
        -- rewrite H1. rewrite <- app_assoc. reflexivity.
        -- cbn [map] in H2. rewrite H2. reflexivity.
      * exists (c :: b :: a :: rest), []. rewrite app_nil_r. auto.
Qed.

Lemma nth_middle_Z (pre : list Z) x r : nthZ (pre ++ x :: r) (length pre) = x.
Proof. unfold nthZ. rewrite app_nth2 by lia. rewrite Nat.sub_diag. reflexivity. Qed.

Lemma loop4_refine : forall rest pre stk out iout,
  turns = pre ++ rest ->
  exists s o, loop4 turns tidx (length pre) rest stk out = (s, out ++ map cyc4 o) /\
              fold_left FP.push (map itm (seq (length pre) (length rest))) (map itm stk, iout) = (map itm s, iout ++ o).
Proof.
  induction rest as [|d r IH]; intros pre stk out iout Ht.
  - exists stk, []. cbn. rewrite !app_nil_r. auto.
  - cbn [loop4 length seq map fold_left].
    destruct (close4_refine (length stk) stk d out (le_n _)) as (s1 & o1 & H1 & H2).
    rewrite H1.
    assert (Hd : fst (itm (length pre)) = d) by (cbn [itm fst]; rewrite Ht; apply nth_middle_Z).
    cbn [FP.push]. rewrite Hd, H2.
    assert (Ht' : turns = (pre ++ [d]) ++ r) by (rewrite <- app_assoc; exact Ht).
    destruct (IH (pre ++ [d]) (length pre :: s1) (out ++ map cyc4 o1) (iout ++ o1) Ht') as (s & o & I1 & I2).
    rewrite app_length in I1, I2. cbn [length] in I1, I2. rewrite Nat.add_1_r in I1, I2.
    exists s, (o1 ++ o). split.
    + rewrite I1. rewrite map_app, app_assoc. reflexivity.
    + cbn [map] in I2. rewrite I2. rewrite app_assoc. reflexivity.
Qed.

Definition items : list item := map itm (seq 0 (length turns)).

Lemma fourpoint_loop_items :
  let '(out, ri) := fourpoint_loop turns tidx in
  let '(istk, o) := FP.run items in
  out = map cyc4 o /\ map itm ri = rev istk.
Proof.
  unfold fourpoint_loop, FP.run, items.
  destruct (loop4_refine turns [] [] [] [] eq_refl) as (s & o & H1 & H2).
  cbn [length] in H1, H2. rewrite H1. cbn [map] in H2. rewrite H2. cbn [app].
  split; [reflexivity|]. rewrite map_rev. reflexivity.
Qed.

End Refine.
