(* The stack of the four-point item machine stays strictly alternating when it is fed a strictly
   alternating item sequence (as emitted by the turning-point scanner). *)
From Coq Require Import ZArith List Bool Lia.
From PL Require Import Rainflow.FP Rainflow.Geom.
Import ListNotations.
Open Scope Z_scope.

Definition beyond_top (up : bool) (stk : list item) (d : Z) : Prop :=
  match stk with t :: _ => if up then fst t < d else d < fst t | [] => True end.

Lemma alt_two_down up c b a rest : alt up (c :: b :: a :: rest) ->
  (if up then fst c < fst b else fst c > fst b) /\ (if up then fst b > fst a else fst b < fst a) /\ alt up (a :: rest).
Proof.
  cbn [alt]. intros (H1 & H2 & H3). rewrite Bool.negb_involutive in H3. destruct up; cbn [negb] in H2; auto.
Qed.

Lemma close_alt : forall n stk up d, (length stk <= n)%nat -> alt up stk -> beyond_top up stk d ->
  alt up (fst (FP.close stk d)) /\ beyond_top up (fst (FP.close stk d)) d.
Proof.
  induction n as [|n IH]; intros stk up d Hl Ha Hb.
  - destruct stk; [cbn; auto|cbn in Hl; lia].
  - destruct stk as [|c [|b [|a rest]]]; try solve [cbn [FP.close fst]; auto].
    rewrite FP.close_step. destruct (closable (fst a) (fst b) (fst c) d) eqn:Hc; [|cbn [fst]; auto].
    destruct (alt_two_down up c b a rest Ha) as (H1 & H2 & H3).
    assert (Hb' : beyond_top up (a :: rest) d).
    { unfold closable in Hc. apply andb_true_iff in Hc. destruct Hc as [Hc1 _]. apply Z.leb_le in Hc1.
      cbn [beyond_top] in *. destruct up; lia. }
    destruct (IH (a :: rest) up d ltac:(cbn [length] in *; lia) H3 Hb') as [I1 I2].
    destruct (FP.close (a :: rest) d) as [s o]. cbn [fst] in *. auto.
Qed.

Lemma push_alt stk out up d : alt up stk -> beyond_top up stk (fst d) ->
  alt (negb up) (fst (FP.push (stk, out) d)).
Proof.
  intros Ha Hb. cbn [FP.push].
  destruct (close_alt (length stk) stk up (fst d) (le_n _) Ha Hb) as [H1 H2].
  destruct (FP.close stk (fst d)) as [s o]. cbn [fst] in *.
  destruct s as [|t r]; [exact I|]. cbn [alt]. rewrite Bool.negb_involutive. split; [|exact H1].
  cbn [beyond_top] in H2. destruct up; cbn [negb]; lia.
Qed.

Definition top_is (stk : list item) (tau : Z) : Prop := match stk with t :: _ => fst t = tau | [] => False end.
Definition stk_inv (stk : list item) (tau d : Z) : Prop :=
  top_is stk tau /\ (length stk = 1%nat \/ (d <> 0 /\ alt (0 <? d) stk)).

Lemma alt_single up (a : item) : alt up [a].
Proof. exact I. Qed.

Lemma fold_push_chain : forall items tau d stk out tau' d',
  stk_inv stk tau d -> ch_em tau d (map fst items) tau' d' ->
  stk_inv (fst (fold_left FP.push items (stk, out))) tau' d'.
Proof.
  induction items as [|v r IH]; intros tau d stk out tau' d' (Ht & Hs) Hc; cbn [map ch_em fold_left] in *.
  - destruct Hc as [-> Hd]. split; [exact Ht|]. destruct Hs as [Hs|[Hd0 Ha]]; [left; exact Hs|].
    right. rewrite (Hd Hd0). auto.
  - destruct Hc as (Hn & Hd & Hc). set (d1 := Z.sgn (fst v - tau)) in *.
    assert (Ha : alt (0 <? d1) stk).
    { destruct Hs as [Hs|[Hd0 Ha]].
      - destruct stk as [|a [|b q]]; try discriminate. exact I.
      - rewrite (Hd Hd0). exact Ha. }
    assert (Hb : beyond_top (0 <? d1) stk (fst v)).
    { destruct stk as [|t q]; [exact I|]. cbn [beyond_top top_is] in *. subst tau.
      destruct (Z.ltb_spec 0 d1) as [Hp|Hp].
      - apply Z.sgn_pos_iff in Hp. lia.
      - assert (Hneg : d1 < 0) by lia. apply Z.sgn_neg_iff in Hneg. lia. }
    pose proof (push_alt stk out (0 <? d1) v Ha Hb) as Hp.
    destruct (FP.push (stk, out) v) as [stk1 out1] eqn:HP. cbn [fst] in Hp.
    apply (IH (fst v) (- d1) stk1 out1 tau' d'); [|exact Hc].
    split.
    + cbn [FP.push] in HP. destruct (FP.close stk (fst v)) as [s o]. inversion HP; subst. reflexivity.
    + right. split; [lia|].
      assert (E : negb (0 <? d1) = (0 <? - d1)).
      { destruct (Z.ltb_spec 0 d1), (Z.ltb_spec 0 (- d1)); cbn; try reflexivity; lia. }
      rewrite <- E. exact Hp.
Qed.
