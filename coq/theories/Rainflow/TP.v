(* Item-level THREE-point machine: what extension.pyx threepoint_loop computes, with the two front
   positions replaced by their values (H, L) and by the number of stack entries below them (mh, ml).
   Rainflow/Refine3.v proves that the position/fuel kernel of Model.v refines this machine; this file
   contains the machine and its generic facts (no invariant yet): canonical form, the provisional-sample
   lemma, output accumulation. *)
From Coq Require Import ZArith List Bool Lia.
From PL Require Import Rainflow.FP.
Import ListNotations.
Open Scope Z_scope.

Definition v (e : item) : Z := fst e.
Definition mst := (list item * Z * Z * nat * nat)%type.      (* stack top-first, H, L, mh, ml *)

Fixpoint close3c (stk : list item) (H L : Z) (mh ml : nat) (b : Z) : mst * list cyc :=
  match stk with
  | f :: s :: rest =>
      if v f >? H then ((stk, v f, L, S (length rest), ml), [])
      else if v f <? L then ((stk, H, v f, mh, S (length rest)), [])
      else if (Nat.max ml mh <=? length rest)%nat && (Z.abs (v f - v s) <=? Z.abs (b - v f))
           then let '(st, o) := close3c rest H L mh ml b in (st, (s, f) :: o)
           else ((stk, H, L, mh, ml), [])
  | _ => ((stk, H, L, mh, ml), [])
  end.

Lemma close3c_step f s rest H L mh ml b :
  close3c (f :: s :: rest) H L mh ml b =
  if v f >? H then ((f :: s :: rest, v f, L, S (length rest), ml), [])
  else if v f <? L then ((f :: s :: rest, H, v f, mh, S (length rest)), [])
  else if (Nat.max ml mh <=? length rest)%nat && (Z.abs (v f - v s) <=? Z.abs (b - v f))
       then let '(st, o) := close3c rest H L mh ml b in (st, (s, f) :: o)
       else ((f :: s :: rest, H, L, mh, ml), []).
Proof. reflexivity. Qed.

Definition feed3 (st : mst * list cyc) (d : item) : mst * list cyc :=
  let '((stk, H, L, mh, ml), out) := st in
  let '((s, H', L', mh', ml'), o) := close3c stk H L mh ml (v d) in
  ((d :: s, H', L', mh', ml'), out ++ o).
Definition run3c (p0 : mst) (items : list item) : mst * list cyc := fold_left feed3 items (p0, []).

Definition stack (st : mst) : list item := let '(s, _, _, _, _) := st in s.

(* outputs only accumulate *)
Lemma fold_feed_out items : forall st o1,
  fold_left feed3 items (st, o1) =
  (fst (fold_left feed3 items (st, [])), o1 ++ snd (fold_left feed3 items (st, []))).
Proof.
  induction items as [|d r IH]; intros st o1; cbn [fold_left]; [rewrite app_nil_r; reflexivity|].
  destruct st as [[[[stk H] L] mh] ml]. cbn [feed3].
  destruct (close3c stk H L mh ml (v d)) as [[[[[s H'] L'] mh'] ml'] o2]. cbn [app].
  rewrite (IH _ (o1 ++ o2)), (IH _ o2). cbn [fst snd]. rewrite app_assoc. reflexivity.
Qed.

Ltac idx_false :=
  match goal with |- context [(Nat.max ?a ?b <=? ?c)%nat] =>
    replace (Nat.max a b <=? c)%nat with false by (symmetry; apply Nat.leb_gt; lia) end; cbn [andb].

(* ---- canonical form: the top of the stack examined *)
Definition can (st : mst) : mst :=
  let '(stk, H, L, mh, ml) := st in
  match stk with
  | f :: s :: rest => if v f >? H then (stk, v f, L, S (length rest), ml)
                      else if v f <? L then (stk, H, v f, mh, S (length rest)) else st
  | _ => st
  end.

Lemma close3c_can (stk : list item) H L mh ml b : L <= H ->
  close3c stk H L mh ml b =
  let '(s, H', L', mh', ml') := can (stk, H, L, mh, ml) in close3c s H' L' mh' ml' b.
Proof.
  intros HLH. destruct stk as [|f [|s rest]]; try reflexivity.
  cbn [can]. destruct (Z.gtb_spec (v f) H) as [G|G].
  - rewrite !close3c_step. destruct (Z.gtb_spec (v f) H); [|lia].
    destruct (Z.gtb_spec (v f) (v f)); [lia|]. destruct (Z.ltb_spec (v f) L); [lia|].
    idx_false. reflexivity.
  - destruct (Z.ltb_spec (v f) L) as [Lt|Lt]; [|reflexivity].
    rewrite !close3c_step. destruct (Z.gtb_spec (v f) H); [lia|]. destruct (Z.ltb_spec (v f) L); [|lia].
    destruct (Z.gtb_spec (v f) H); [lia|]. destruct (Z.ltb_spec (v f) (v f)); [lia|].
    idx_false. reflexivity.
Qed.

Lemma feed3_can (st : mst) out d : (let '(_, H, L, _, _) := st in L <= H) ->
  feed3 (st, out) d = feed3 (can st, out) d.
Proof.
  destruct st as [[[[stk H] L] mh] ml]. intros HLH. cbn [feed3].
  rewrite (close3c_can stk H L mh ml (v d) HLH).
  destruct (can (stk, H, L, mh, ml)) as [[[[s H'] L'] mh'] ml']. reflexivity.
Qed.

(* ---- strict alternation without a direction flag *)
Fixpoint zz (l : list item) : Prop :=
  match l with
  | c :: ((b :: t') as t) =>
      match t' with
      | a :: _ => ((v c < v b /\ v a < v b) \/ (v b < v c /\ v b < v a)) /\ zz t
      | [] => v c <> v b
      end
  | _ => True
  end.

Lemma zz_tl c t : zz (c :: t) -> zz t.
Proof. destruct t as [|b [|a r]]; cbn; tauto. Qed.
Lemma zz_app_r p s : zz (p ++ s) -> zz s.
Proof. induction p as [|x p IH]; [auto|]. cbn [app]. intros H. apply IH. eapply zz_tl; exact H. Qed.
Lemma zz3 c b a r : zz (c :: b :: a :: r) ->
  ((v c < v b /\ v a < v b) \/ (v b < v c /\ v b < v a)) /\ zz (b :: a :: r).
Proof. cbn [zz]. tauto. Qed.
Lemma zz_ne c b r : zz (c :: b :: r) -> v c <> v b.
Proof. destruct r; cbn [zz]; intros; lia. Qed.

Lemma alt_zz : forall stk up, alt up stk -> zz stk.
Proof.
  induction stk as [|c t IH]; intros up Ha; [exact I|].
  destruct t as [|b t']; [exact I|]. cbn [alt] in Ha. destruct Ha as [H1 H2].
  specialize (IH (negb up) H2). destruct t' as [|a r].
  - cbn [zz]. unfold v. destruct up; lia.
  - change (((v c < v b /\ v a < v b) \/ (v b < v c /\ v b < v a)) /\ zz (b :: a :: r)).
    split; [|exact IH]. cbn [alt] in H2. destruct H2 as [H3 _]. unfold v. destruct up; cbn [negb] in H3; lia.
Qed.

(* pushing an item that continues the alternation *)
Lemma alt_zz_push stk up d : alt up stk ->
  (match stk with t :: _ => if up then fst t < v d else v d < fst t | [] => True end) -> zz (d :: stk).
Proof.
  intros Ha Hb. pose proof (alt_zz stk up Ha) as Hz.
  destruct stk as [|t [|s r]]; [exact I| |].
  - cbn [zz]. unfold v in *. destruct up; lia.
  - change (((v d < v t /\ v s < v t) \/ (v t < v d /\ v t < v s)) /\ zz (t :: s :: r)).
    split; [|exact Hz]. cbn [alt] in Ha. destruct Ha as [H1 _]. unfold v in *. destruct up; lia.
Qed.

(* ---- the provisional sample: x lies beyond the top, y at least as far; what x closes, y closes first *)
Definition far (t x y : Z) : Prop := (t < x /\ x <= y) \/ (x < t /\ y <= x).

Lemma close3c_prov : forall n (stk : list item) H L mh ml x y i,
  (length stk <= n)%nat -> L <= H -> zz ((x, i) :: stk) ->
  (match stk with t :: _ => far (v t) x y | [] => True end) ->
  close3c stk H L mh ml y =
  let '((s1, H1, L1, mh1, ml1), o1) := close3c stk H L mh ml x in
  let '(st2, o2) := close3c s1 H1 L1 mh1 ml1 y in (st2, o1 ++ o2).
Proof.
  induction n as [|n IH]; intros stk H L mh ml x y i Hlen HLH Hz Hfar.
  - destruct stk; [reflexivity|cbn in Hlen; lia].
  - destruct stk as [|f [|s rest]]; try reflexivity.
    cbn [close3c]. cbn [v fst] in Hfar.
    destruct (Z.gtb_spec (v f) H) as [G|G].
    { (* update of H: both stop; the second call stops again *)
      cbn [close3c app]. destruct (Z.gtb_spec (v f) (v f)); [lia|]. destruct (Z.ltb_spec (v f) L); [lia|].
      idx_false. reflexivity. }
    destruct (Z.ltb_spec (v f) L) as [Lt|Lt].
    { cbn [close3c app]. destruct (Z.gtb_spec (v f) H); [lia|]. destruct (Z.ltb_spec (v f) (v f)); [lia|].
      idx_false. reflexivity. }
    destruct ((Nat.max ml mh <=? length rest)%nat) eqn:Hidx; cbn [andb].
    2:{ (* x stops on the index test: the second call is the first *)
      cbn [close3c app]. destruct (Z.gtb_spec (v f) H); [lia|]. destruct (Z.ltb_spec (v f) L); [lia|].
      rewrite Hidx. cbn [andb]. reflexivity. }
    destruct (Z.leb_spec (Z.abs (v f - v s)) (Z.abs (x - v f))) as [Hr|Hr].
    2:{ cbn [close3c app]. destruct (Z.gtb_spec (v f) H); [lia|]. destruct (Z.ltb_spec (v f) L); [lia|].
        rewrite Hidx. cbn [andb].
        destruct (Z.abs (v f - v s) <=? Z.abs (y - v f)); [destruct (close3c rest H L mh ml y)|]; reflexivity. }
    (* x closes (s, f): so does y *)
    assert (Hxy : Z.abs (v f - v s) <= Z.abs (y - v f)) by (unfold far, v in *; lia).
    destruct (Z.leb_spec (Z.abs (v f - v s)) (Z.abs (y - v f))); [|lia].
    (* geometry for the rest *)
    assert (Hz' : zz ((x, i) :: rest) /\ match rest with t :: _ => far (v t) x y | [] => True end).
    { destruct rest as [|c r]; [split; exact I|].
      apply zz3 in Hz. destruct Hz as [H1 Hz]. cbn [v fst] in H1.
      destruct r as [|c2 r2].
      - cbn [zz] in Hz |- *. destruct Hz as [H2 H3]. unfold far, v in *. cbn [fst] in *. split; lia.
      - apply zz3 in Hz. destruct Hz as [H2 Hz]. apply zz3 in Hz. destruct Hz as [H3 Hz].
        split.
        + change (((v (x, i) < v c /\ v c2 < v c) \/ (v c < v (x, i) /\ v c < v c2)) /\ zz (c :: c2 :: r2)).
          split; [|exact Hz]. unfold far, v in *. cbn [fst] in *. lia.
        + unfold far, v in *. cbn [fst] in *. lia. }
    destruct Hz' as [Hz1 Hf1].
    rewrite (IH rest H L mh ml x y i ltac:(cbn [length] in Hlen; lia) HLH Hz1 Hf1).
    destruct (close3c rest H L mh ml x) as [[[[[s1 H1] L1] mh1] ml1] o1].
    destruct (close3c s1 H1 L1 mh1 ml1 y) as [st2 o2]. reflexivity.
Qed.
