(* Bounded instances (exhaustive by vm_compute) of the C03 symmetries for the THREE-point detector, whose
   kernel compares array positions and therefore has no index-free item machine. *)
From Coq Require Import ZArith List Bool Lia.
From PL Require Import Rainflow.Model Rainflow.Eqb Rainflow.Bounded.
Import ListNotations.
Open Scope Z_scope.

Definition map_obs (g : Z -> Z) (o : obs_t) : obs_t :=
  let '(c, r, i, k) := o in
  (map (fun q => (g (fst (fst (fst q))), g (snd (fst (fst q))), snd (fst q), snd q)) c, map g r, i, k).

Definition equiv3 (g : Z -> Z) (s : list Z) : bool := eqobs (run3 [map g s]) (map_obs g (run3 [s])).

Definition affs : list (Z * Z) := [(1, 0); (1, 5); (2, 0); (3, -7); (7, 50); (1, -50)].
Definition sym3 (s : list Z) : bool :=
  equiv3 Z.opp s && forallb (fun ab => equiv3 (fun x => fst ab * x + snd ab) s) affs.

Lemma sweep_sym3 : forallb sym3 (all_sigs [0;1;2;3] 7) = true.
Proof. vm_compute. reflexivity. Qed.

(* negation and the listed positive affine maps: values mapped, all indices unchanged, for every signal
   over {0..3} of length 1..7 *)
Theorem threepoint_symmetries_bounded s :
  (1 <= length s <= 7)%nat -> Forall (fun x => 0 <= x <= 3) s ->
  eqobs (run3 [map Z.opp s]) (map_obs Z.opp (run3 [s])) = true /\
  forall a b, In (a, b) affs -> eqobs (run3 [map (fun x => a * x + b) s]) (map_obs (fun x => a * x + b) (run3 [s])) = true.
Proof.
  intros Hl Hal. pose proof sweep_sym3 as H. rewrite forallb_forall in H.
  assert (Hin : In s (all_sigs [0;1;2;3] 7)).
  { apply in_all_sigs; [exact Hl|]. eapply Forall_impl; [|exact Hal]. cbn. intros x Hx.
    assert (x = 0 \/ x = 1 \/ x = 2 \/ x = 3) as [-> | [-> | [-> | ->]]] by lia; cbn; auto. }
  specialize (H s Hin). unfold sym3 in H. apply andb_true_iff in H. destruct H as [H1 H2]. split; [exact H1|].
  intros a b Hab. rewrite forallb_forall in H2. exact (H2 (a, b) Hab).
Qed.

(* insertion of a non-reversal sample y after position j (0 <= j < length s - 1): values unchanged *)
Definition vals3 (s : list Z) := let '(c, r, _, _) := run3 [s] in (map (fun q => (fst (fst (fst q)), snd (fst (fst q)))) c, r).
Definition between (u y v : Z) : bool := ((u <=? y) && (y <=? v)) || ((v <=? y) && (y <=? u)).
Definition insert_ok (s : list Z) (j : nat) (y : Z) : bool :=
  match skipn j s with
  | u :: v :: _ => if between u y v
                   then let s' := firstn (S j) s ++ y :: skipn (S j) s in
                        let '(c1, r1) := vals3 s in let '(c2, r2) := vals3 s' in
                        leqb pairZeq c1 c2 && leqb Z.eqb r1 r2
                   else true
  | _ => true
  end.
Definition refine3 (s : list Z) : bool :=
  forallb (fun j => forallb (insert_ok s j) [0;1;2;3]) (seq 0 (length s)).

Lemma sweep_refine3 : forallb refine3 (all_sigs [0;1;2;3] 6) = true.
Proof. vm_compute. reflexivity. Qed.

Theorem threepoint_refine_bounded s j y :
  (1 <= length s <= 6)%nat -> Forall (fun x => 0 <= x <= 3) s -> 0 <= y <= 3 -> (j < length s)%nat ->
  insert_ok s j y = true.
Proof.
  intros Hl Hal Hy Hj. pose proof sweep_refine3 as H. rewrite forallb_forall in H.
  assert (Hin : In s (all_sigs [0;1;2;3] 6)).
  { apply in_all_sigs; [exact Hl|]. eapply Forall_impl; [|exact Hal]. cbn. intros x Hx.
    assert (x = 0 \/ x = 1 \/ x = 2 \/ x = 3) as [-> | [-> | [-> | ->]]] by lia; cbn; auto. }
  specialize (H s Hin). unfold refine3 in H. rewrite forallb_forall in H.
  specialize (H j ltac:(apply in_seq; lia)). rewrite forallb_forall in H. apply H.
  assert (y = 0 \/ y = 1 \/ y = 2 \/ y = 3) as [-> | [-> | [-> | ->]]] by lia; cbn; auto.
Qed.
