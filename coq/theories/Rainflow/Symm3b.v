(* C03, three-point detector: the reported VALUES depend on the turning-point sequence only, hence inserting
   non-reversal samples changes no reported value (unbounded). *)
From Coq Require Import ZArith List Bool Lia.
From PL Require Import Rainflow.Model Rainflow.Spec Rainflow.SpecThm Rainflow.Symm2.
Import ListNotations.
Open Scope Z_scope.

Definition vals4 (q : Z * Z * nat * nat) : Z * Z := (fst (fst (fst q)), snd (fst (fst q))).

Lemma close3_vals turns tidx tidx' : forall fuel stk hf lf back out out',
  map vals4 out = map vals4 out' ->
  let '(s, h, l, o) := close3 fuel turns tidx stk hf lf back out in
  let '(s', h', l', o') := close3 fuel turns tidx' stk hf lf back out' in
  s = s' /\ h = h' /\ l = l' /\ map vals4 o = map vals4 o'.
Proof.
  induction fuel as [|fuel IH]; intros stk hf lf back out out' Ho; [cbn; auto|].
  destruct stk as [|front [|start rest]]; try (cbn; auto; fail).
  cbn [close3].
  destruct (nthZ turns front >? nthZ turns hf); [auto|].
  destruct (nthZ turns front <? nthZ turns lf); [auto|].
  destruct ((Nat.max lf hf <=? start)%nat && _); [|auto].
  apply IH. rewrite !map_app, Ho. reflexivity.
Qed.

Lemma loop3_vals turns tidx tidx' : forall n back stk hf lf out out',
  map vals4 out = map vals4 out' ->
  let '(s, o) := loop3 turns tidx back n stk hf lf out in
  let '(s', o') := loop3 turns tidx' back n stk hf lf out' in
  s = s' /\ map vals4 o = map vals4 o'.
Proof.
  induction n as [|n IH]; intros back stk hf lf out out' Ho; [cbn; auto|].
  cbn [loop3]. pose proof (close3_vals turns tidx tidx' (S (length stk)) stk hf lf back out out' Ho) as H.
  destruct (close3 (S (length stk)) turns tidx stk hf lf back out) as [[[s h] l] o].
  destruct (close3 (S (length stk)) turns tidx' stk hf lf back out') as [[[s' h'] l'] o'].
  destruct H as (-> & -> & -> & H). apply IH. exact H.
Qed.

(* the values reported by the one-piece three-point detector are a function of the turning-point sequence *)
Definition vals3_of_turns (turns : list Z) : list (Z * Z) * list Z :=
  let '(out, ri) := threepoint_loop turns [] 0 0 in (map vals4 out, map (nthZ turns) ri).

Theorem run3_values s : s <> [] ->
  let '(c, r, _, _) := run3 [s] in (cyc_values c, r) = vals3_of_turns (tp_seq s).
Proof.
  intros Hs. unfold run3. cbn [fold_left]. unfold process3. cbn [resid stail shead ridx cyc chunks init].
  rewrite new_turns_first.
  destruct s as [|x0 s0] eqn:Es; [congruence|]. rewrite <- Es in *.
  assert (Hf1 : firstn 1 s = [x0]) by (rewrite Es; reflexivity). rewrite Hf1. cbn [argmax argmin argfirst].
  unfold vals3_of_turns, tp_seq. rewrite Hf1.
  set (turns := [x0] ++ map snd (find_turns s) ++ lastn1 s).
  unfold threepoint_loop.
  pose proof (loop3_vals turns ([0%nat] ++ map fst (find_turns s)) [] (length turns - 2) 2 [1%nat; 0%nat] 0%nat 0%nat [] [] eq_refl) as H.
  destruct (loop3 turns ([0%nat] ++ map fst (find_turns s)) 2 (length turns - 2) [1%nat; 0%nat] 0 0 []) as [stk o].
  destruct (loop3 turns [] 2 (length turns - 2) [1%nat; 0%nat] 0 0 []) as [stk' o'].
  destruct H as [-> H]. unfold obs. cbn [cyc resid app]. rewrite <- H. reflexivity.
Qed.

Theorem run3_insert_values l1 u y v l2 : (u <= y <= v \/ v <= y <= u) ->
  let '(c, r, _, _) := run3 [(l1 ++ [u]) ++ y :: v :: l2] in
  let '(c', r', _, _) := run3 [(l1 ++ [u]) ++ v :: l2] in
  cyc_values c = cyc_values c' /\ r = r'.
Proof.
  intros Hb.
  pose proof (run3_values ((l1 ++ [u]) ++ y :: v :: l2) ltac:(destruct l1; discriminate)) as H1.
  pose proof (run3_values ((l1 ++ [u]) ++ v :: l2) ltac:(destruct l1; discriminate)) as H2.
  destruct (run3 [(l1 ++ [u]) ++ y :: v :: l2]) as [[[c r] ri] k].
  destruct (run3 [(l1 ++ [u]) ++ v :: l2]) as [[[c' r'] ri'] k'].
  rewrite (tp_seq_insert l1 u y v l2 Hb) in H1. rewrite <- H2 in H1. inversion H1. auto.
Qed.
