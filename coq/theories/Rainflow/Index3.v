(* C02, three-point detector (one-piece run): every reported index addresses a sample holding the reported
   value.  Position-level invariants: every recorded end point is a position below the current `back`,
   hence below the provisional last position; the final stack top is the provisional position. *)
From Coq Require Import ZArith List Bool Lia.
From PL Require Import Rainflow.Model Rainflow.Refine Rainflow.Stream Rainflow.Chunk Rainflow.SpecThm Rainflow.IndexThm.
Import ListNotations.
Open Scope Z_scope.

Section I3.
Variable turns : list Z.
Variable tidx : list nat.
Variable s : list Z.

(* a position is good when its (value, index) pair addresses the signal *)
Definition goodpos (p : nat) : Prop := nth_error s (nthN tidx p) = Some (nthZ turns p).
Definition goodcyc (q : Z * Z * nat * nat) : Prop :=
  nth_error s (snd (fst q)) = Some (fst (fst (fst q))) /\ nth_error s (snd q) = Some (snd (fst (fst q))).

Lemma close3_good : forall fuel stk hf lf back out st h l o,
  close3 fuel turns tidx stk hf lf back out = (st, h, l, o) ->
  Forall goodpos stk -> Forall goodcyc out ->
  Forall goodpos st /\ Forall goodcyc o.
Proof.
  induction fuel as [|fuel IH]; intros stk hf lf back out st h l o H Hs Ho.
  - inversion H; subst. auto.
  - destruct stk as [|front [|start rest]]; try (inversion H; subst; auto; fail).
    cbn [close3] in H. inversion Hs as [|? ? Hf Hs1]; subst. inversion Hs1 as [|? ? Hst Hs2]; subst.
    destruct (nthZ turns front >? nthZ turns hf); [inversion H; subst; auto|].
    destruct (nthZ turns front <? nthZ turns lf); [inversion H; subst; auto|].
    destruct ((Nat.max lf hf <=? start)%nat && _).
    + eapply IH; [exact H|exact Hs2|]. apply Forall_app. split; [exact Ho|].
      constructor; [|constructor]. split; cbn [fst snd]; assumption.
    + inversion H; subst. auto.
Qed.

Lemma loop3_good : forall n back stk hf lf out st o,
  loop3 turns tidx back n stk hf lf out = (st, o) -> (0 < n)%nat ->
  Forall goodpos stk -> Forall goodcyc out -> (forall p, (back <= p < back + n - 1)%nat -> goodpos p) ->
  Forall goodcyc o /\ exists below, st = (back + n - 1)%nat :: below /\ Forall goodpos below.
Proof.
  induction n as [|n IH]; intros back stk hf lf out st o H Hn Hs Ho Hg; [lia|].
  cbn [loop3] in H.
  destruct (close3 (S (length stk)) turns tidx stk hf lf back out) as [[[s1 h] l] o1] eqn:HC.
  destruct (close3_good _ _ _ _ _ _ _ _ _ _ HC Hs Ho) as [G1 G2].
  destruct n as [|n'].
  - cbn [loop3] in H. inversion H; subst. split; [exact G2|]. exists s1. split; [f_equal; lia|exact G1].
  - assert (Hgb : goodpos back) by (apply Hg; lia).
    assert (Hg' : forall p, (S back <= p < S back + S n' - 1)%nat -> goodpos p) by (intros p Hp; apply Hg; lia).
    destruct (IH (S back) (back :: s1) h l o1 st o H ltac:(lia) (Forall_cons _ Hgb G1) G2 Hg') as [I1 (below & I2 & I3)].
    split; [exact I1|]. exists below. split; [rewrite I2; f_equal; lia|exact I3].
Qed.
End I3.

Theorem index_addresses_value_3pt s : s <> [] ->
  let '(c, r, ri, _) := run3 [s] in
  Forall (fun q => nth_error s (snd (fst q)) = Some (fst (fst (fst q))) /\
                   nth_error s (snd q) = Some (snd (fst (fst q)))) c /\
  Forall2 (fun i v => nth_error s i = Some v) ri r.
Proof.
  intros Hs. unfold run3. cbn [fold_left]. unfold process3. cbn [resid stail shead ridx cyc chunks init].
  rewrite new_turns_first.
  destruct s as [|x0 s0] eqn:Es; [congruence|]. rewrite <- Es in *.
  assert (Hf1 : firstn 1 s = [x0]) by (rewrite Es; reflexivity). rewrite Hf1. cbn [argmax argmin argfirst].
  destruct (lastn1_nonempty s Hs) as (lst & Hl1 & Hl2). rewrite Hl1.
  set (ft := find_turns s).
  set (A := x0 :: map snd ft). set (T := 0%nat :: map fst ft).
  change ([x0] ++ map snd ft ++ [lst]) with (A ++ [lst]). change ([0%nat] ++ map fst ft) with T.
  assert (HlenAT : length A = length T) by (unfold A, T; cbn [length]; rewrite !map_length; reflexivity).
  (* positions below length A are good *)
  assert (Hgood : forall p, (p < length A)%nat -> goodpos (A ++ [lst]) T s p).
  { intros p Hp. unfold goodpos.
    assert (Hc : nth p (combine A T) (0, 0%nat) = (nthZ (A ++ [lst]) p, nthN T p)).
    { rewrite combine_nth by exact HlenAT. unfold nthZ, nthN. rewrite app_nth1 by exact Hp. reflexivity. }
    assert (HF : Forall (fun it : Z * nat => nth_error s (snd it) = Some (fst it)) (combine A T)).
    { unfold A, T. cbn [combine]. constructor; [rewrite Es; reflexivity|].
      pose proof (find_turns_addresses s) as HA. fold ft in HA. clear -HA.
      induction ft as [|[i v] r IH]; [constructor|]. cbn [map combine fst snd]. inversion HA; subst.
      constructor; [exact H1|apply IH; exact H2]. }
    rewrite Forall_forall in HF.
    assert (Hin : In (nth p (combine A T) (0, 0%nat)) (combine A T)).
    { apply nth_In. rewrite combine_length, <- HlenAT, Nat.min_id. exact Hp. }
    specialize (HF _ Hin). rewrite Hc in HF. exact HF. }
  unfold threepoint_loop. rewrite app_length. cbn [length].
  replace (length A + 1 - 2)%nat with (length A - 1)%nat by lia.
  assert (HA1 : (1 <= length A)%nat) by (unfold A; cbn; lia).
  destruct (loop3 (A ++ [lst]) T 2 (length A - 1) [1%nat; 0%nat] 0 0 []) as [stk o] eqn:HL.
  unfold obs. cbn [cyc resid ridx shead app].
  destruct (Nat.eq_dec (length A) 1) as [E1|E1].
  - (* no interior reversal: turns = [x0; last], no iteration *)
    rewrite E1 in HL. cbn [Nat.sub loop3] in HL. inversion HL; subst stk o. cbn [rev map app removelast].
    split; [constructor|].
    assert (Hft : ft = []) by (unfold A in E1; cbn in E1; destruct ft; [reflexivity|cbn in E1; lia]).
    unfold A, T. rewrite Hft. cbn. repeat constructor.
    + rewrite Es. reflexivity.
    + exact Hl2.
  - assert (G10 : Forall (goodpos (A ++ [lst]) T s) [1%nat; 0%nat]) by (repeat constructor; apply Hgood; lia).
    assert (Hrange : forall p, (2 <= p < 2 + (length A - 1) - 1)%nat -> goodpos (A ++ [lst]) T s p) by (intros p Hp; apply Hgood; lia).
    destruct (loop3_good (A ++ [lst]) T s (length A - 1) 2 [1%nat; 0%nat] 0%nat 0%nat [] stk o HL ltac:(lia) G10 (Forall_nil _) Hrange)
      as [G1 (below & Est & T3)].
    subst stk. set (top := (2 + (length A - 1) - 1)%nat) in *. assert (T1 : top = (2 + (length A - 1) - 1)%nat) by reflexivity.
    split; [exact G1|].
    cbn [rev]. rewrite !map_app. cbn [map]. rewrite removelast_app by discriminate. cbn [removelast]. rewrite app_nil_r.
    apply Forall2_app.
    + rewrite Forall_forall in T3. clear -T3.
      assert (H : forall p, In p (rev below) -> goodpos (A ++ [lst]) T s p) by (intros p Hp; apply T3; apply in_rev; exact Hp).
      induction (rev below) as [|p r IH]; [constructor|]. cbn [map]. constructor; [apply H; left; reflexivity|].
      apply IH. intros q Hq. apply H. right. exact Hq.
    + constructor; [|constructor]. subst top.
      replace (2 + (length A - 1) - 1)%nat with (length A) by lia. unfold nthZ. rewrite app_nth2 by lia.
      rewrite Nat.sub_diag. cbn [nth]. exact Hl2.
Qed.
