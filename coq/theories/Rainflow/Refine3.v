(* Refinement: the position/fuel formulation of the three-point kernel in Model.v (a transcription of
   extension.pyx threepoint_loop) computes what the item-level machine of TP.v computes.  The kernel
   compares array positions (start >= max(lowest_front, highest_front)); the machine compares the number of
   stack entries below each front with the depth of `start`.  The relation below also covers the start of a
   chunk, where the fronts point into residual entries that are not yet on the stack. *)
From Coq Require Import ZArith List Bool Lia.
From PL Require Import Rainflow.Model Rainflow.FP Rainflow.Refine Rainflow.TP.
Import ListNotations.
Open Scope Z_scope.

(* stack of positions, top first: strictly decreasing, below `b` *)
Fixpoint dec (b : nat) (l : list nat) : Prop :=
  match l with [] => True | p :: r => (p < b)%nat /\ dec p r end.

(* X <= position of an entry  <->  m <= depth of that entry *)
Fixpoint okc (X m : nat) (stk : list nat) : Prop :=
  match stk with [] => True | p :: r => ((X <= p)%nat <-> (m <= length r)%nat) /\ okc X m r end.

Definition RelC (X m : nat) (stk : list nat) (back : nat) : Prop :=
  okc X m stk /\ ((X <= back)%nat -> (m <= length stk)%nat) /\ ((back < X)%nat -> (m + back = X + length stk)%nat).

(* every entry lies below c and has depth below k *)
Lemma okc_above : forall (l : list nat) a c k, dec a l -> (a <= c)%nat -> (length l < k)%nat -> okc c k l.
Proof.
  induction l as [|e l IHl]; intros a c k Hdl Hac Hk; [exact I|]. cbn [dec] in Hdl. destruct Hdl as [He Hdl].
  cbn [okc length] in *. split; [lia|]. apply (IHl e c k Hdl); lia.
Qed.

Section Refine3.
Variable turns : list Z.
Variable tidx : list nat.

Local Notation itm := (itm turns tidx).

Lemma close3_refine : forall fuel (stk : list nat) hf lf mh ml back out,
  (length stk < fuel)%nat -> dec back stk -> RelC hf mh stk back -> RelC lf ml stk back ->
  exists s hf' lf' mh' ml' o,
    close3 fuel turns tidx stk hf lf back out = (s, hf', lf', out ++ map cyc4 o) /\
    close3c (map itm stk) (nthZ turns hf) (nthZ turns lf) mh ml (nthZ turns back) =
      ((map itm s, nthZ turns hf', nthZ turns lf', mh', ml'), o) /\
    dec back s /\ RelC hf' mh' s back /\ RelC lf' ml' s back.
Proof.
  induction fuel as [|fuel IH]; intros stk hf lf mh ml back out Hlen Hd Rh Rl; [lia|].
  destruct stk as [|front [|start rest]].
  - exists [], hf, lf, mh, ml, []. cbn. rewrite app_nil_r. auto.
  - exists [front], hf, lf, mh, ml, []. cbn [close3 close3c map]. rewrite app_nil_r. auto.
  - cbn [close3 map close3c]. change (v (itm front)) with (nthZ turns front). change (v (itm start)) with (nthZ turns start).
    rewrite map_length.
    cbn [dec] in Hd. destruct Hd as (Hf & Hs & Hdr).
    destruct (nthZ turns front >? nthZ turns hf) eqn:Eg.
    { exists (front :: start :: rest), front, lf, (S (length rest)), ml, []. rewrite app_nil_r.
      split; [reflexivity|]. split; [reflexivity|]. split; [cbn [dec]; auto|]. split; [|exact Rl].
      unfold RelC. split; [|cbn [length]; lia].
      cbn [okc length]. split; [lia|]. split; [lia|].
      apply (okc_above rest start front (S (length rest))); [exact Hdr|lia|lia]. }
    destruct (nthZ turns front <? nthZ turns lf) eqn:El.
    { exists (front :: start :: rest), hf, front, mh, (S (length rest)), []. rewrite app_nil_r.
      split; [reflexivity|]. split; [reflexivity|]. split; [cbn [dec]; auto|]. split; [exact Rh|].
      unfold RelC. split; [|cbn [length]; lia].
      cbn [okc length]. split; [lia|]. split; [lia|].
      apply (okc_above rest start front (S (length rest))); [exact Hdr|lia|lia]. }
    (* the index test means the same on both sides *)
    destruct Rh as (Oh & Rh1 & Rh2). destruct Rl as (Ol & Rl1 & Rl2).
    cbn [okc length] in Oh, Ol. destruct Oh as (Ohf & Ohs & Ohr). destruct Ol as (Olf & Ols & Olr).
    assert (Eidx : (Nat.max lf hf <=? start)%nat = (Nat.max ml mh <=? length rest)%nat).
    { destruct (Nat.leb_spec (Nat.max lf hf) start), (Nat.leb_spec (Nat.max ml mh) (length rest)); try reflexivity; lia. }
    rewrite Eidx.
    destruct ((Nat.max ml mh <=? length rest)%nat && (Z.abs (nthZ turns front - nthZ turns start) <=? Z.abs (nthZ turns back - nthZ turns front))) eqn:Ec.
    + apply andb_true_iff in Ec. destruct Ec as [Ei _]. apply Nat.leb_le in Ei.
      assert (Rh' : RelC hf mh rest back) by (unfold RelC; split; [exact Ohr|split; lia]).
      assert (Rl' : RelC lf ml rest back) by (unfold RelC; split; [exact Olr|split; lia]).
      assert (Hdr' : dec back rest).
      { destruct rest as [|q rest']; [exact I|]. cbn [dec] in *. split; [lia|tauto]. }
      destruct (IH rest hf lf mh ml back (out ++ [(nthZ turns start, nthZ turns front, nthN tidx start, nthN tidx front)])
                  ltac:(cbn [length] in Hlen; lia) Hdr' Rh' Rl') as (s & hf' & lf' & mh' & ml' & o & H1 & H2 & H3 & H4 & H5).
      exists s, hf', lf', mh', ml', ((itm start, itm front) :: o).
      split; [rewrite H1; rewrite <- app_assoc; reflexivity|]. split; [rewrite H2; reflexivity|]. auto.
    + exists (front :: start :: rest), hf, lf, mh, ml, []. rewrite app_nil_r.
      split; [reflexivity|]. split; [reflexivity|]. split; [cbn [dec]; auto|].
      split; unfold RelC; cbn [okc length]; tauto.
Qed.

Lemma loop3_refine : forall n back (stk : list nat) hf lf mh ml out iout,
  dec back stk -> RelC hf mh stk back -> RelC lf ml stk back ->
  exists s o hf' lf' mh' ml',
    loop3 turns tidx back n stk hf lf out = (s, out ++ map cyc4 o) /\
    fold_left feed3 (map itm (seq back n)) ((map itm stk, nthZ turns hf, nthZ turns lf, mh, ml), iout) =
      ((map itm s, nthZ turns hf', nthZ turns lf', mh', ml'), iout ++ o).
Proof.
  induction n as [|n IH]; intros back stk hf lf mh ml out iout Hd Rh Rl.
  - exists stk, [], hf, lf, mh, ml. cbn. rewrite !app_nil_r. auto.
  - cbn [loop3 seq map fold_left].
    destruct (close3_refine (S (length stk)) stk hf lf mh ml back out (Nat.lt_succ_diag_r _) Hd Rh Rl)
      as (s1 & hf1 & lf1 & mh1 & ml1 & o1 & H1 & H2 & H3 & H4 & H5).
    rewrite H1. cbn [feed3]. change (v (itm back)) with (nthZ turns back). rewrite H2.
    assert (Hd' : dec (S back) (back :: s1)) by (cbn [dec]; split; [lia|exact H3]).
    assert (Rpush : forall X m, RelC X m s1 back -> RelC X m (back :: s1) (S back)).
    { intros X m (O1 & O2 & O3). unfold RelC. cbn [okc length]. split; [split; [split; lia|exact O1]|]. split; lia. }
    destruct (IH (S back) (back :: s1) hf1 lf1 mh1 ml1 (out ++ map cyc4 o1) (iout ++ o1) Hd' (Rpush _ _ H4) (Rpush _ _ H5))
      as (s & o & hf' & lf' & mh' & ml' & I1 & I2).
    exists s, (o1 ++ o), hf', lf', mh', ml'. split.
    + rewrite I1. rewrite map_app, app_assoc. reflexivity.
    + cbn [map] in I2. rewrite I2. rewrite app_assoc. reflexivity.
Qed.

Lemma threepoint_loop_items hf lf : (2 <= length turns)%nat ->
  let '(out, ri) := threepoint_loop turns tidx hf lf in
  let '((istk, _, _, _, _), o) := run3c ([], nthZ turns hf, nthZ turns lf, hf, lf) (items turns tidx) in
  out = map cyc4 o /\ map itm ri = rev istk.
Proof.
  intros HL. unfold threepoint_loop, run3c, items.
  assert (Es : seq 0 (length turns) = 0%nat :: 1%nat :: seq 2 (length turns - 2)).
  { replace (length turns) with (2 + (length turns - 2))%nat at 1 by lia. rewrite seq_app. reflexivity. }
  rewrite Es. cbn [map].
  cbn [fold_left feed3 close3c app].
  assert (R0 : forall X, RelC X X [1%nat; 0%nat] 2).
  { intros X. unfold RelC. cbn [okc length]. split; [split; [lia|split; [lia|exact I]]|]. split; lia. }
  destruct (loop3_refine (length turns - 2) 2 [1%nat; 0%nat] hf lf hf lf [] []
              ltac:(cbn [dec]; lia) (R0 hf) (R0 lf)) as (s & o & hf' & lf' & mh' & ml' & H1 & H2).
  rewrite H1. cbn [map] in H2. rewrite H2. cbn [app].
  split; [reflexivity|]. rewrite map_rev. reflexivity.
Qed.
End Refine3.
