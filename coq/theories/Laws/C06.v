(* C06: notch approximation laws (extended Neuber, Seeger-Beste).  Theorems about the GENERATED implicit
   functions in PLgen.GenNeuber / PLgen.GenSeegerBeste (py2coq output of notch_approximation_law*.py), so they are
   re-checked against what /repo's source says on every run.  The root finder (scipy.optimize.newton) is not
   modelled: the theorems are about the equation it is given; its output is certified per sample by the harness. *)
From Coq Require Import Reals Lra Lia.
From Coquelicot Require Import Coquelicot.
From PL Require Import Common.RPrelude Laws.C16.
From PLgen Require Import GenRambgood GenNeuber GenSeegerBeste.
Open Scope R_scope.

(* ------------------------------------------------------------------ small real-analysis helpers *)
Lemma Rpower_le_self x y : 0 < x <= 1 -> 1 <= y -> Rpower x y <= x.
Proof.
  intros [Hx Hx1] Hy. unfold Rpower. rewrite <- (exp_ln x) at 2 by assumption.
  assert (Hl : ln x <= 0).
  { destruct Hx1 as [Hlt|Heq]; [|subst; rewrite ln_1; lra].
    left. rewrite <- ln_1. apply ln_increasing; assumption. }
  assert (Hm : y * ln x <= ln x) by nra.
  destruct Hm as [Hm|Hm]; [left; apply exp_increasing; assumption|rewrite Hm; right; reflexivity].
Qed.

Lemma inv_le_inv a b : 0 < a -> a <= b -> / b <= / a.
Proof. intros Ha Hab. apply Rinv_le_contravar; assumption. Qed.

(* `reflexivity` when the source is written as today; the fallbacks tolerate re-associated / re-ordered products *)
Ltac same_formula :=
  first [ reflexivity
        | cbv zeta; repeat match goal with |- context [Req_EM_T ?a ?b] => destruct (Req_EM_T a b) end;
          first [reflexivity | ring | (field; lra) | (f_equal; first [ring | field; lra])] ].

Section EN.
Variables E K n Kp : R.
Hypothesis HE : 0 < E.
Hypothesis HK : 0 < K.
Hypothesis Hn : 0 < n < 1.
Hypothesis HKp : 1 <= Kp.
(* every lemma of the section takes all four guards, whether its proof needs them or not (uniform signatures) *)
#[local] Set Default Proof Using "HE HK Hn HKp".

Notation eps := (ro_strain E K n).
Notation compl := (ro_tangential_compliance E K n).
Notation f := (en_stress_implicit E K n Kp).
Notation f2 := (en_stress_secondary_implicit E K n Kp).

Lemma Kp_pos : 0 < Kp.
Proof. lra. Qed.

(* -------- the generated equation is eq. 2.5-45:  f(s; L) = eps(s) - L/s * K_p * eps(L/K_p) *)
Lemma en_f_unfold s L :
  f s L = eps s - (if Req_EM_T s 0 then 1 else L / s) * Kp * eps (L / Kp).
Proof. pose proof Kp_pos. unfold en_stress_implicit, en_neuber_strain, en_e_star. same_formula. Qed.

Lemma en_f_nz s L : s <> 0 -> f s L = eps s - L / s * Kp * eps (L / Kp).
Proof. intros H. rewrite en_f_unfold. destruct (Req_EM_T s 0); [contradiction|reflexivity]. Qed.

Lemma en_f_at_0 L : f 0 L = - (Kp * eps (L / Kp)).
Proof.
  rewrite en_f_unfold. destruct (Req_EM_T 0 0); [|lra].
  rewrite C16.ro_strain_0. lra.
Qed.

Lemma eps_0 : eps 0 = 0.
Proof. apply C16.ro_strain_0. Qed.

Lemma eps_incr a b : a < b -> eps a < eps b.
Proof. intros H. apply C16.ro_strain_strictly_increasing; assumption. Qed.

Lemma eps_pos s : 0 < s -> 0 < eps s.
Proof. intros H. rewrite <- eps_0. apply eps_incr. assumption. Qed.

Lemma eps_nonneg s : 0 <= s -> 0 <= eps s.
Proof. intros [H|H]; [left; apply eps_pos; assumption|subst; rewrite eps_0; lra]. Qed.

Lemma eps_odd s : eps (- s) = - eps s.
Proof. apply (C16.ro_strain_odd E K n). Qed.

Lemma eps_pos_form s : 0 < s -> eps s = s / E + Rpower (s / K) (1 / n).
Proof. intros H. apply C16.ro_strain_pos; assumption. Qed.

(* the Neuber hyperbola constant  c(L) = L * K_p * e_star(L) *)
Lemma en_c_nonneg L : 0 <= L -> 0 <= L * Kp * eps (L / Kp).
Proof.
  intros HL. pose proof Kp_pos.
  assert (0 <= L / Kp) by (apply Rmult_le_pos; [assumption|left; apply Rinv_0_lt_compat; assumption]).
  pose proof (eps_nonneg _ H0). apply Rmult_le_pos; [nra|assumption].
Qed.

Lemma en_c_pos L : 0 < L -> 0 < L * Kp * eps (L / Kp).
Proof.
  intros HL. pose proof Kp_pos.
  assert (0 < L / Kp) by (apply Rdiv_lt_0_compat; assumption).
  pose proof (eps_pos _ H0). apply Rmult_lt_0_compat; [nra|assumption].
Qed.

(* -------- f is expansive (slope >= 1/E), hence strictly increasing, in the stress on s > 0 *)
Lemma en_f_expansive a b L : 0 <= L -> 0 < a -> a <= b -> (b - a) / E <= f b L - f a L.
Proof.
  intros HL Ha Hab. rewrite !en_f_nz by lra.
  assert (Hx : (b - a) / E <= eps b - eps a) by (apply C16.ro_strain_expansive; assumption).
  pose proof (en_c_nonneg L HL) as Hc.
  pose proof (inv_le_inv a b Ha Hab) as Hi.
  replace (L / b * Kp * eps (L / Kp)) with (L * Kp * eps (L / Kp) * / b) by (field; lra).
  replace (L / a * Kp * eps (L / Kp)) with (L * Kp * eps (L / Kp) * / a) by (field; lra).
  nra.
Qed.

Lemma en_f_increasing a b L : 0 <= L -> 0 < a -> a < b -> f a L < f b L.
Proof.
  intros HL Ha Hab. pose proof (en_f_expansive a b L HL Ha ltac:(lra)).
  assert (0 < (b - a) / E) by (apply Rdiv_lt_0_compat; lra). lra.
Qed.

(* -------- the signs at the two ends of [L/K_p, L] *)
Lemma en_f_at_L L : 0 < L -> 0 <= f L L.
Proof.
  intros HL. pose proof Kp_pos as HKp0. rewrite en_f_nz by lra.
  replace (L / L) with 1 by (field; lra).
  assert (HLKp : 0 < L / Kp) by (apply Rdiv_lt_0_compat; assumption).
  rewrite (eps_pos_form L HL), (eps_pos_form (L / Kp) HLKp).
  assert (HLK : 0 < L / K) by (apply Rdiv_lt_0_compat; assumption).
  assert (Hinv : 0 < / Kp) by (apply Rinv_0_lt_compat; assumption).
  replace (L / Kp / K) with (L / K * / Kp) by (field; lra).
  rewrite <- Rpower_mult_distr by assumption.
  assert (Hp : Rpower (/ Kp) (1 / n) <= / Kp).
  { apply Rpower_le_self.
    - split; [assumption|]. rewrite <- Rinv_1. apply Rinv_le_contravar; lra.
    - left. apply C16.inv_n_gt1; assumption. }
  assert (HA : 0 < Rpower (L / K) (1 / n)) by (unfold Rpower; apply exp_pos).
  assert (HB : 0 < Rpower (/ Kp) (1 / n)) by (unfold Rpower; apply exp_pos).
  replace (1 * Kp * (L / Kp / E + Rpower (L / K) (1 / n) * Rpower (/ Kp) (1 / n)))
    with (L / E + Rpower (L / K) (1 / n) * (Kp * Rpower (/ Kp) (1 / n))) by (field; lra).
  assert (Hq : Kp * Rpower (/ Kp) (1 / n) <= Kp * / Kp) by (apply Rmult_le_compat_l; lra).
  rewrite Rinv_r in Hq by lra.
  set (A := Rpower (L / K) (1 / n)) in *. set (B := Rpower (/ Kp) (1 / n)) in *.
  assert (A * (Kp * B) <= A * 1) by (apply Rmult_le_compat_l; lra). lra.
Qed.

Lemma en_f_at_LKp L : 0 < L -> f (L / Kp) L <= 0.
Proof.
  intros HL. pose proof Kp_pos as HKp0.
  assert (HLKp : 0 < L / Kp) by (apply Rdiv_lt_0_compat; assumption).
  rewrite en_f_nz by lra.
  replace (L / (L / Kp)) with Kp by (field; lra).
  pose proof (eps_pos _ HLKp).
  assert (1 * eps (L / Kp) <= Kp * Kp * eps (L / Kp)) by (apply Rmult_le_compat_r; nra). lra.
Qed.

(* -------- the analytic derivative handed to Newton is the derivative of the generated f *)
Lemma en_fprime_is_derivative s L : s <> 0 ->
  is_derive (fun t => f t L) s (en_d_stress_implicit E K n Kp s L).
Proof.
  intros Hs.
  apply (is_derive_ext_loc (fun t => eps t - L / t * Kp * eps (L / Kp))).
  { assert (Hloc : locally s (fun t => t <> 0)) by (apply open_neq; assumption).
    revert Hloc. apply filter_imp. intros t Ht. symmetry. apply en_f_nz. assumption. }
  unfold en_d_stress_implicit, en_e_star. cbv zeta. destruct (Req_EM_T s 0) as [|_]; [contradiction|].
  evar_last.
  - apply (is_derive_minus eps (fun t => L / t * Kp * eps (L / Kp))).
    + apply C16.ro_compliance_is_derivative; assumption.
    + auto_derive; [assumption|reflexivity].
  - unfold minus, plus, opp; simpl. field. assumption.
Qed.

Lemma en_f_continuous_pt s L : s <> 0 -> continuity_pt (fun t => f t L) s.
Proof.
  intros Hs. apply continuity_pt_filterlim.
  apply (ex_derive_continuous (fun t => f t L)). eexists. apply en_fprime_is_derivative. assumption.
Qed.

(* -------- existence (IVT), bounds and uniqueness of the root that `stress` approximates *)
Lemma en_root_exists L : 0 < L -> exists s, L / Kp <= s <= L /\ f s L = 0.
Proof.
  intros HL. pose proof Kp_pos as HKp0.
  assert (HLKp : 0 < L / Kp) by (apply Rdiv_lt_0_compat; assumption).
  assert (Hle : L / Kp <= L).
  { apply Rle_trans with (L / 1); [|right; field].
    unfold Rdiv. apply Rmult_le_compat_l; [lra|]. apply Rinv_le_contravar; lra. }
  pose proof (en_f_at_L L HL) as [HfL|HfL]; [|exists L; split; [lra|symmetry; assumption]].
  pose proof (en_f_at_LKp L HL) as [Hfl|Hfl]; [|exists (L / Kp); split; [lra|assumption]].
  assert (Hlt : L / Kp < L).
  { destruct Hle as [H|H]; [assumption|]. rewrite H in Hfl. lra. }
  destruct (Ranalysis5.IVT_interv (fun t => f t L) (L / Kp) L) as [z [Hz Hfz]]; try assumption.
  - intros a Ha. apply en_f_continuous_pt. lra.
  - exists z. split; assumption.
Qed.

Lemma en_root_unique L s s' : 0 <= L -> 0 < s -> 0 < s' -> f s L = 0 -> f s' L = 0 -> s = s'.
Proof.
  intros HL Hs Hs' H1 H2.
  destruct (Rtotal_order s s') as [Hlt|[Heq|Hgt]]; [|assumption|].
  - pose proof (en_f_increasing s s' L HL Hs Hlt). lra.
  - pose proof (en_f_increasing s' s L HL Hs' Hgt). lra.
Qed.

Lemma en_root_bounds L s : 0 < L -> 0 < s -> f s L = 0 -> L / Kp <= s <= L.
Proof.
  intros HL Hs Hf. destruct (en_root_exists L HL) as [z [Hz Hfz]].
  pose proof Kp_pos. assert (0 < L / Kp) by (apply Rdiv_lt_0_compat; assumption).
  rewrite (en_root_unique L s z); try assumption; lra.
Qed.

Lemma en_root_exists_unique L : 0 < L ->
  exists s, (L / Kp <= s <= L /\ f s L = 0) /\ forall s', 0 < s' -> f s' L = 0 -> s' = s.
Proof.
  intros HL. destruct (en_root_exists L HL) as [s [Hb Hs]]. exists s. split; [split; assumption|].
  intros s' Hs' Hf. pose proof Kp_pos. assert (0 < L / Kp) by (apply Rdiv_lt_0_compat; assumption).
  apply (en_root_unique L); try assumption; lra.
Qed.

(* -------- oddness: the equation for (-s, -L) is the negated equation for (s, L), for every s *)
Lemma en_f_odd s L : f (- s) (- L) = - f s L.
Proof.
  rewrite !en_f_unfold, eps_odd.
  replace (- L / Kp) with (- (L / Kp)) by (unfold Rdiv; ring). rewrite eps_odd.
  destruct (Req_EM_T s 0) as [H0|H0]; destruct (Req_EM_T (- s) 0) as [H1|H1]; try lra.
  replace (- L / - s) with (L / s) by (field; assumption). ring.
Qed.

Lemma en_root_odd s L : f s L = 0 <-> f (- s) (- L) = 0.
Proof. rewrite en_f_odd. lra. Qed.

(* roots have the sign of the load: there is no root at 0, and (by oddness) the root of sign(L) is unique *)
Lemma en_no_root_at_0 L : L <> 0 -> f 0 L <> 0.
Proof.
  intros HL. rewrite en_f_at_0. pose proof Kp_pos.
  destruct (Rtotal_order L 0) as [H0|[H0|H0]]; [|contradiction|].
  - assert (L / Kp < 0) by (unfold Rdiv; assert (0 < / Kp) by (apply Rinv_0_lt_compat; assumption); nra).
    pose proof (eps_incr _ _ H1). rewrite eps_0 in *. nra.
  - assert (0 < L / Kp) by (apply Rdiv_lt_0_compat; assumption).
    pose proof (eps_pos _ H1). nra.
Qed.

(* -------- product form  s * eps(s) = L * K_p * e_star(L)  (Neuber hyperbola) and monotonicity in the load *)
Lemma en_root_iff_product s L : s <> 0 -> (f s L = 0 <-> s * eps s = L * Kp * eps (L / Kp)).
Proof.
  intros Hs. rewrite en_f_nz by assumption. split; intros H.
  - assert (eps s = L / s * Kp * eps (L / Kp)) by lra. rewrite H0. field. assumption.
  - assert (eps s = L * Kp * eps (L / Kp) / s) by (rewrite <- H; field; assumption).
    rewrite H0. field. assumption.
Qed.

Lemma en_g_increasing a b : 0 <= a -> a < b -> a * eps a < b * eps b.
Proof.
  intros Ha Hab. pose proof (eps_incr a b Hab). pose proof (eps_nonneg a Ha). nra.
Qed.

Lemma en_h_increasing a b : 0 <= a -> a < b -> a * Kp * eps (a / Kp) < b * Kp * eps (b / Kp).
Proof.
  intros Ha Hab. pose proof Kp_pos as HKp0.
  assert (Hi : 0 < / Kp) by (apply Rinv_0_lt_compat; assumption).
  assert (H1 : a / Kp < b / Kp) by (unfold Rdiv; apply Rmult_lt_compat_r; assumption).
  assert (H0 : 0 <= a / Kp) by (unfold Rdiv; apply Rmult_le_pos; lra).
  pose proof (eps_incr _ _ H1) as Hi1. pose proof (eps_nonneg _ H0) as Hi0.
  set (ea := eps (a / Kp)) in *. set (eb := eps (b / Kp)) in *.
  assert (a * ea < b * eb) by nra.
  replace (a * Kp * ea) with (Kp * (a * ea)) by ring. replace (b * Kp * eb) with (Kp * (b * eb)) by ring.
  apply Rmult_lt_compat_l; assumption.
Qed.

Lemma en_root_increasing_in_L L1 L2 s1 s2 :
  0 <= L1 -> L1 < L2 -> 0 < s1 -> 0 < s2 -> f s1 L1 = 0 -> f s2 L2 = 0 -> s1 < s2.
Proof.
  intros HL1 HL Hs1 Hs2 H1 H2.
  apply en_root_iff_product in H1; [|lra]. apply en_root_iff_product in H2; [|lra].
  pose proof (en_h_increasing L1 L2 HL1 HL) as Hh.
  destruct (Rlt_le_dec s1 s2) as [|Hge]; [assumption|exfalso].
  destruct Hge as [Hgt|Heq].
  - pose proof (en_g_increasing s2 s1 ltac:(lra) Hgt). lra.
  - subst. lra.
Qed.

(* -------- the backward direction: for a given stress the load solving the same equation is unique, exists,
            and lies in [s, K_p s]; so load(stress(L)) = L and stress(load(s)) = s at the level of exact roots *)
Lemma en_load_unique s L L' : s <> 0 -> 0 <= L -> 0 <= L' -> f s L = 0 -> f s L' = 0 -> L = L'.
Proof.
  intros Hs HL HL' H1 H2.
  apply en_root_iff_product in H1; [|assumption]. apply en_root_iff_product in H2; [|assumption].
  destruct (Rtotal_order L L') as [Hlt|[Heq|Hgt]]; [|assumption|].
  - pose proof (en_h_increasing L L' HL Hlt). lra.
  - pose proof (en_h_increasing L' L HL' Hgt). lra.
Qed.

Lemma en_load_implicit_is_stress_implicit L s : en_load_implicit E K n Kp L s = f s L.
Proof. reflexivity. Qed.

Lemma eps_continuity : continuity eps.
Proof. intros x. apply continuity_pt_filterlim. apply C16.ro_strain_continuous; assumption. Qed.

Lemma en_load_exists s : 0 < s -> exists L, s <= L <= Kp * s /\ f s L = 0.
Proof.
  intros Hs. pose proof Kp_pos as HKp0.
  (* G(L) = f s L is continuous in L; G(s) >= 0 >= G(Kp s) *)
  assert (Hcont : continuity (fun L => eps s - L / s * Kp * eps (L / Kp))).
  { apply continuity_minus; [apply continuity_const; intros ? ?; reflexivity|].
    apply continuity_mult.
    - apply continuity_mult; [|apply continuity_const; intros ? ?; reflexivity].
      unfold Rdiv. apply continuity_mult; [apply derivable_continuous, derivable_id|apply continuity_const; intros ? ?; reflexivity].
    - apply (continuity_comp (fun L => L / Kp) eps); [|apply eps_continuity].
      unfold Rdiv. apply continuity_mult; [apply derivable_continuous, derivable_id|apply continuity_const; intros ? ?; reflexivity]. }
  assert (Hs1 : 0 <= eps s - s / s * Kp * eps (s / Kp)) by (rewrite <- en_f_nz by lra; apply en_f_at_L; assumption).
  assert (Hs2 : eps s - (Kp * s) / s * Kp * eps (Kp * s / Kp) <= 0).
  { assert (HKs : 0 < Kp * s) by nra. pose proof (en_f_at_LKp (Kp * s) HKs) as H.
    rewrite en_f_nz in H by (replace (Kp * s / Kp) with s by (field; lra); lra).
    replace (Kp * s / Kp) with s in * by (field; lra). assumption. }
  destruct (IVT_gen (fun L => eps s - L / s * Kp * eps (L / Kp)) s (Kp * s) 0 Hcont) as [L [HL HfL]].
  { rewrite Rmin_right, Rmax_left by lra. split; assumption. }
  exists L. assert (s <= Kp * s) by nra. rewrite Rmin_left, Rmax_right in HL by assumption.
  split; [assumption|]. rewrite en_f_nz by lra. assumption.
Qed.

Lemma en_load_inverts_stress L s : 0 < L -> 0 < s -> f s L = 0 ->
  forall L', 0 < L' -> en_load_implicit E K n Kp L' s = 0 -> L' = L.
Proof.
  intros HL Hs Hf L' HL' H'. rewrite en_load_implicit_is_stress_implicit in H'.
  apply (en_load_unique s); try assumption; lra.
Qed.

Lemma en_stress_inverts_load L s : 0 < L -> 0 < s -> en_load_implicit E K n Kp L s = 0 ->
  forall s', 0 < s' -> f s' L = 0 -> s' = s.
Proof.
  intros HL Hs Hf s' Hs' H'. rewrite en_load_implicit_is_stress_implicit in Hf.
  apply (en_root_unique L); try assumption; lra.
Qed.

(* -------- what a certified residual is worth: distance to the exact root *)
Lemma en_residual_bounds_error L s_hat s_star delta :
  0 <= L -> 0 < s_hat -> 0 < s_star -> f s_star L = 0 -> Rabs (f s_hat L) <= delta ->
  Rabs (s_hat - s_star) <= E * delta.
Proof.
  intros HL Hh Hs Hroot Hres.
  destruct (Rle_lt_dec s_star s_hat) as [H|H].
  - pose proof (en_f_expansive s_star s_hat L HL Hs H) as Hx. rewrite Hroot, Rminus_0_r in Hx.
    assert (Hq : 0 <= (s_hat - s_star) / E) by (apply Rmult_le_pos; [lra|left; apply Rinv_0_lt_compat; lra]).
    rewrite Rabs_right in Hres by lra. rewrite Rabs_right by lra.
    assert (Hd : (s_hat - s_star) / E <= delta) by lra.
    apply Rmult_le_compat_l with (r := E) in Hd; [|lra].
    replace (E * ((s_hat - s_star) / E)) with (s_hat - s_star) in Hd by (field; lra). assumption.
  - pose proof (en_f_expansive s_hat s_star L HL Hh ltac:(lra)) as Hx. rewrite Hroot in Hx.
    assert (Hq : 0 <= (s_star - s_hat) / E) by (apply Rmult_le_pos; [lra|left; apply Rinv_0_lt_compat; lra]).
    rewrite Rabs_left1 in Hres by lra. rewrite Rabs_left by lra.
    assert (Hd : (s_star - s_hat) / E <= delta) by lra.
    apply Rmult_le_compat_l with (r := E) in Hd; [|lra].
    replace (E * ((s_star - s_hat) / E)) with (s_star - s_hat) in Hd by (field; lra). lra.
Qed.

(* -------- secondary branch = Masing doubling of the primary equation (eq. 2.5-46 from 2.5-45) *)
Lemma en_secondary_is_doubled ds dl : f2 ds dl = 2 * f (ds / 2) (dl / 2).
Proof.
  pose proof Kp_pos as HKp0.
  unfold en_stress_secondary_implicit, en_neuber_strain_secondary, en_delta_e_star. cbv zeta.
  rewrite !(C16.ro_delta_is_doubled E K n), en_f_unfold.
  replace (dl / Kp / 2) with (dl / 2 / Kp) by (field; lra).
  destruct (Req_EM_T ds 0) as [H0|H0]; destruct (Req_EM_T (ds / 2) 0) as [H1|H1]; try lra.
  replace (dl / 2 / (ds / 2)) with (dl / ds) by (field; assumption). ring.
Qed.

Lemma en_secondary_is_masing ds dl : f2 ds dl = 0 <-> f (ds / 2) (dl / 2) = 0.
Proof. rewrite en_secondary_is_doubled. lra. Qed.

Lemma en_secondary_root_exists_unique dl : 0 < dl ->
  exists ds, (dl / Kp <= ds <= dl /\ f2 ds dl = 0) /\ forall ds', 0 < ds' -> f2 ds' dl = 0 -> ds' = ds.
Proof.
  intros Hdl. destruct (en_root_exists_unique (dl / 2) ltac:(lra)) as [s [[Hb Hs] Hu]].
  exists (2 * s). split; [split|].
  - replace (dl / Kp) with (2 * (dl / 2 / Kp)) by (field; pose proof Kp_pos; lra). lra.
  - apply en_secondary_is_masing. replace (2 * s / 2) with s by lra. assumption.
  - intros ds' Hds' Hf. apply en_secondary_is_masing in Hf. rewrite <- (Hu (ds' / 2)); [lra|lra|assumption].
Qed.

Lemma en_secondary_fprime_is_derivative ds dl : ds <> 0 ->
  is_derive (fun t => f2 t dl) ds (en_d_stress_secondary_implicit E K n Kp ds dl).
Proof.
  intros Hs. pose proof Kp_pos as HKp0.
  apply (is_derive_ext (fun t => 2 * f (t / 2) (dl / 2))).
  { intros t. symmetry. apply en_secondary_is_doubled. }
  assert (Hs2 : ds / 2 <> 0) by lra.
  pose proof (en_fprime_is_derivative (ds / 2) (dl / 2) Hs2) as Hd.
  evar_last.
  - apply (is_derive_scal (fun t => f (t / 2) (dl / 2))). apply (is_derive_comp (fun u => f u (dl / 2)) (fun t => t / 2) ds).
    + exact Hd.
    + auto_derive; [exact I|reflexivity].
  - unfold en_d_stress_implicit, en_d_stress_secondary_implicit, en_e_star, en_delta_e_star. cbv zeta.
    rewrite (C16.ro_delta_is_doubled E K n).
    replace (dl / Kp / 2) with (dl / 2 / Kp) by (field; lra).
    destruct (Req_EM_T ds 0) as [|_]; [contradiction|]. destruct (Req_EM_T (ds / 2) 0) as [|_]; [contradiction|].
    unfold scal; simpl; unfold mult; simpl. field. assumption.
Qed.

(* -------- the derivatives used by `load` / `load_secondary_branch`.
   d/dL e_star(L) = compliance(L/K_p)/K_p.  The source's `_d_e_star` adds 1/(K_p E) on top (the elastic part is
   counted twice), so `_d_load_implicit` is NOT the derivative of `_load_implicit`; what holds -- with or without
   that extra term -- is that it never under-estimates the slope and is off by at most the elastic term.  Newton
   with such an fprime is under-relaxed: same fixed points, no overshoot on a convex/concave branch. *)
Lemma en_e_star_derivative L : L <> 0 ->
  is_derive (en_e_star E K n Kp) L (compl (L / Kp) / Kp).
Proof.
  intros HL. pose proof Kp_pos as HKp0. unfold en_e_star. cbv zeta.
  assert (HLK : L / Kp <> 0).
  { unfold Rdiv. apply Rmult_integral_contrapositive_currified; [assumption|apply Rinv_neq_0_compat; lra]. }
  evar_last.
  - apply (is_derive_comp eps (fun l => l / Kp) L).
    + apply C16.ro_compliance_is_derivative; assumption.
    + auto_derive; [exact I|reflexivity].
  - unfold scal; simpl; unfold mult; simpl. field. lra.
Qed.

Lemma en_d_e_star_bounds L :
  compl (L / Kp) / Kp <= en_d_e_star E K n Kp L <= compl (L / Kp) / Kp + 1 / (Kp * E).
Proof.
  pose proof Kp_pos. unfold en_d_e_star. cbv zeta.
  assert (0 < 1 / (Kp * E)) by (apply Rdiv_lt_0_compat; nra). lra.
Qed.

Lemma en_load_derivative L s : s <> 0 -> L <> 0 ->
  is_derive (fun l => en_load_implicit E K n Kp l s) L
            (- (Kp / s) * (en_e_star E K n Kp L + L * (compl (L / Kp) / Kp))).
Proof.
  intros Hs HL. pose proof Kp_pos as HKp0.
  apply (is_derive_ext (fun l => eps s - l / s * Kp * en_e_star E K n Kp l)).
  { intros l. rewrite en_load_implicit_is_stress_implicit, en_f_nz by assumption. reflexivity. }
  pose proof (en_e_star_derivative L HL) as Hd.
  evar_last.
  - apply (is_derive_minus (fun _ => eps s) (fun l => l / s * Kp * en_e_star E K n Kp l)); [apply is_derive_const|].
    apply (is_derive_mult (fun l => l / s * Kp) (en_e_star E K n Kp)); [|exact Hd|intros; apply Rmult_comm].
    auto_derive; [exact I|reflexivity].
  - unfold minus, plus, opp, zero, scal, mult; simpl. unfold mult; simpl. field. lra.
Qed.

Lemma en_d_load_implicit_bounds L s : 0 < s -> 0 < L ->
  let D := - (Kp / s) * (en_e_star E K n Kp L + L * (compl (L / Kp) / Kp)) in
  D - L / (s * E) <= en_d_load_implicit E K n Kp L s <= D /\ D < 0.
Proof.
  intros Hs HL D. pose proof Kp_pos as HKp0. subst D.
  pose proof (en_d_e_star_bounds L) as [Hlo Hhi].
  assert (He : 0 < en_e_star E K n Kp L) by (apply eps_pos; apply Rdiv_lt_0_compat; assumption).
  assert (Hc : 0 < compl (L / Kp)).
  { assert (1 / E <= compl (L / Kp)) by (apply C16.ro_compliance_ge; assumption).
    assert (0 < 1 / E) by (apply Rdiv_lt_0_compat; lra). lra. }
  assert (HcK : 0 < compl (L / Kp) / Kp) by (apply Rdiv_lt_0_compat; assumption).
  assert (Hq : 0 < Kp / s) by (apply Rdiv_lt_0_compat; assumption).
  assert (HLs : 0 < L / s) by (apply Rdiv_lt_0_compat; assumption).
  unfold en_d_load_implicit. cbv zeta.
  set (d := en_d_e_star E K n Kp L) in *. set (e := en_e_star E K n Kp L) in *. set (c := compl (L / Kp) / Kp) in *.
  replace (-1 / s * Kp * e - L / s * Kp * d) with (- (Kp / s) * (e + L * d)) by (field; lra).
  replace (L / (s * E)) with ((Kp / s) * (L * (1 / (Kp * E)))) by (field; lra).
  set (q := Kp / s) in *. set (w := 1 / (Kp * E)) in *.
  assert (H1 : L * c <= L * d) by (apply Rmult_le_compat_l; lra).
  assert (H2 : L * d <= L * (c + w)) by (apply Rmult_le_compat_l; lra).
  assert (H3 : q * (e + L * c) <= q * (e + L * d)) by (apply Rmult_le_compat_l; lra).
  assert (H4 : q * (e + L * d) <= q * (e + L * (c + w))) by (apply Rmult_le_compat_l; lra).
  assert (H5 : 0 < q * (e + L * c)) by (apply Rmult_lt_0_compat; [assumption|nra]).
  split; [split|]; lra.
Qed.

(* the same for the secondary branch *)
Lemma en_delta_e_star_derivative dl : dl <> 0 ->
  is_derive (en_delta_e_star E K n Kp) dl (compl (dl / (2 * Kp)) / Kp).
Proof.
  intros HL. pose proof Kp_pos as HKp0.
  apply (is_derive_ext (fun l => 2 * eps (l / (2 * Kp)))).
  { intros l. unfold en_delta_e_star. cbv zeta. rewrite C16.ro_delta_is_doubled.
    replace (l / Kp / 2) with (l / (2 * Kp)) by (field; lra). reflexivity. }
  assert (HLK : dl / (2 * Kp) <> 0).
  { unfold Rdiv. apply Rmult_integral_contrapositive_currified; [assumption|apply Rinv_neq_0_compat; lra]. }
  evar_last.
  - apply (is_derive_scal (fun l => eps (l / (2 * Kp)))). apply (is_derive_comp eps (fun l => l / (2 * Kp)) dl).
    + apply C16.ro_compliance_is_derivative; assumption.
    + auto_derive; [exact I|reflexivity].
  - unfold scal; simpl; unfold mult; simpl. field. lra.
Qed.

Lemma en_d_delta_e_star_bounds dl :
  compl (dl / (2 * Kp)) / Kp <= en_d_delta_e_star E K n Kp dl <= compl (dl / (2 * Kp)) / Kp + 1 / (Kp * E).
Proof.
  pose proof Kp_pos. unfold en_d_delta_e_star. cbv zeta.
  assert (0 < 1 / (Kp * E)) by (apply Rdiv_lt_0_compat; nra). lra.
Qed.

Lemma en_load_secondary_derivative dl ds : ds <> 0 -> dl <> 0 ->
  is_derive (fun l => en_load_secondary_implicit E K n Kp l ds) dl
            (- (Kp / ds) * (en_delta_e_star E K n Kp dl + dl * (compl (dl / (2 * Kp)) / Kp))).
Proof.
  intros Hs HL. pose proof Kp_pos as HKp0.
  apply (is_derive_ext (fun l => ro_delta_strain E K n ds - l / ds * Kp * en_delta_e_star E K n Kp l)).
  { intros l. unfold en_load_secondary_implicit, en_stress_secondary_implicit, en_neuber_strain_secondary. cbv zeta.
    destruct (Req_EM_T ds 0); [contradiction|reflexivity]. }
  pose proof (en_delta_e_star_derivative dl HL) as Hd.
  evar_last.
  - apply (is_derive_minus (fun _ => ro_delta_strain E K n ds) (fun l => l / ds * Kp * en_delta_e_star E K n Kp l)); [apply is_derive_const|].
    apply (is_derive_mult (fun l => l / ds * Kp) (en_delta_e_star E K n Kp)); [|exact Hd|intros; apply Rmult_comm].
    auto_derive; [exact I|reflexivity].
  - unfold minus, plus, opp, zero, scal, mult; simpl. unfold mult; simpl. field. lra.
Qed.

Lemma en_d_load_secondary_implicit_bounds dl ds : 0 < ds -> 0 < dl ->
  let D := - (Kp / ds) * (en_delta_e_star E K n Kp dl + dl * (compl (dl / (2 * Kp)) / Kp)) in
  D - dl / (ds * E) <= en_d_load_secondary_implicit E K n Kp dl ds <= D /\ D < 0.
Proof.
  intros Hs HL D. pose proof Kp_pos as HKp0. subst D.
  pose proof (en_d_delta_e_star_bounds dl) as [Hlo Hhi].
  assert (He : 0 < en_delta_e_star E K n Kp dl).
  { unfold en_delta_e_star. cbv zeta. rewrite C16.ro_delta_is_doubled.
    assert (0 < dl / Kp / 2) by (apply Rdiv_lt_0_compat; [apply Rdiv_lt_0_compat; assumption|lra]).
    pose proof (eps_pos _ H). lra. }
  assert (Hc : 0 < compl (dl / (2 * Kp))).
  { assert (1 / E <= compl (dl / (2 * Kp))) by (apply C16.ro_compliance_ge; assumption).
    assert (0 < 1 / E) by (apply Rdiv_lt_0_compat; lra). lra. }
  assert (HcK : 0 < compl (dl / (2 * Kp)) / Kp) by (apply Rdiv_lt_0_compat; assumption).
  assert (Hq : 0 < Kp / ds) by (apply Rdiv_lt_0_compat; assumption).
  unfold en_d_load_secondary_implicit. cbv zeta.
  set (d := en_d_delta_e_star E K n Kp dl) in *. set (e := en_delta_e_star E K n Kp dl) in *.
  set (c := compl (dl / (2 * Kp)) / Kp) in *.
  replace (-1 / ds * Kp * e - dl / ds * Kp * d) with (- (Kp / ds) * (e + dl * d)) by (field; lra).
  replace (dl / (ds * E)) with ((Kp / ds) * (dl * (1 / (Kp * E)))) by (field; lra).
  set (q := Kp / ds) in *. set (w := 1 / (Kp * E)) in *.
  assert (H1 : dl * c <= dl * d) by (apply Rmult_le_compat_l; lra).
  assert (H2 : dl * d <= dl * (c + w)) by (apply Rmult_le_compat_l; lra).
  assert (H3 : q * (e + dl * c) <= q * (e + dl * d)) by (apply Rmult_le_compat_l; lra).
  assert (H4 : q * (e + dl * d) <= q * (e + dl * (c + w))) by (apply Rmult_le_compat_l; lra).
  assert (H5 : 0 < q * (e + dl * c)) by (apply Rmult_lt_0_compat; [assumption|nra]).
  split; [split|]; lra.
Qed.

Lemma en_strain_is_ramberg_osgood s L ds dl :
  en_strain E K n Kp s L = eps s /\ en_strain_secondary_branch E K n Kp ds dl = 2 * eps (ds / 2).
Proof. split; reflexivity. Qed.

(* -------- arguments of either sign (round 3, seeded change C06-6): the reported strain is odd under joint negation of
   (stress, load) on both branches, and a root of the secondary equation puts (ds, strain_secondary_branch ds) on the
   Neuber hyperbola  ds * d_eps = dl * K_p * delta_e_star(dl)  for ds of EITHER sign *)
Lemma en_strain_odd s L ds dl :
  en_strain E K n Kp (- s) (- L) = - en_strain E K n Kp s L /\
  en_strain_secondary_branch E K n Kp (- ds) (- dl) = - en_strain_secondary_branch E K n Kp ds dl.
Proof.
  destruct (en_strain_is_ramberg_osgood s L ds dl) as [H1 H2].
  destruct (en_strain_is_ramberg_osgood (- s) (- L) (- ds) (- dl)) as [H3 H4].
  rewrite H1, H2, H3, H4. replace (- ds / 2) with (- (ds / 2)) by (unfold Rdiv; ring). rewrite !eps_odd. split; ring.
Qed.

Lemma en_strain_on_hyperbola s L ds dl :
  (s <> 0 -> f s L = 0 -> s * en_strain E K n Kp s L = L * Kp * en_e_star E K n Kp L) /\
  (ds <> 0 -> f2 ds dl = 0 -> ds * en_strain_secondary_branch E K n Kp ds dl = dl * Kp * en_delta_e_star E K n Kp dl).
Proof.
  destruct (en_strain_is_ramberg_osgood s L ds dl) as [H1 H2]. split.
  - intros Hs H0. rewrite H1. rewrite en_f_nz in H0 by assumption.
    assert (He : en_e_star E K n Kp L = eps (L / Kp)) by (unfold en_e_star; reflexivity).
    rewrite He. assert (Hx : eps s = L / s * Kp * eps (L / Kp)) by lra. rewrite Hx. field. assumption.
  - intros Hs H0. rewrite H2.
    assert (Hd : en_delta_e_star E K n Kp dl = 2 * eps (dl / Kp / 2))
      by (unfold en_delta_e_star; cbv zeta; apply (C16.ro_delta_is_doubled E K n)).
    rewrite en_secondary_is_doubled in H0.
    assert (Hh : ds / 2 <> 0) by lra.
    assert (H0' : f (ds / 2) (dl / 2) = 0) by lra.
    rewrite en_f_nz in H0' by assumption.
    rewrite Hd. replace (dl / Kp / 2) with (dl / 2 / Kp) by (pose proof Kp_pos; field; lra).
    assert (Hx : eps (ds / 2) = dl / 2 / (ds / 2) * Kp * eps (dl / 2 / Kp)) by lra. rewrite Hx. field. assumption.
Qed.

End EN.

(* ================================================================== Seeger-Beste *)
Section SB.
Variables E K n Kp : R.
Hypothesis HE : 0 < E.
Hypothesis HK : 0 < K.
Hypothesis Hn : 0 < n < 1.
Hypothesis HKp : 1 < Kp.
#[local] Set Default Proof Using "HE HK Hn HKp".

Notation eps := (ro_strain E K n).
Notation F := (sb_stress_implicit E K n Kp).
Notation F2 := (sb_stress_secondary_implicit E K n Kp).
Notation U := (sb_u_term E K n Kp).
Notation M := (sb_middle_term E K n Kp).
Notation N := (sb_neuber_strain E K n Kp).

Lemma sb_F_unfold s L : F s L = eps s / (M s L * N s L) - 1.
Proof. unfold sb_stress_implicit. same_formula. Qed.

Lemma sb_U_unfold s L : U s L = PI / 2 * (((if Req_EM_T s 0 then 1 else L / s) - 1) / (Kp - 1)).
Proof. unfold sb_u_term. same_formula. Qed.

Lemma sb_M_unfold s L :
  M s L = (if Req_EM_T (U s L) 0 then 1 else 2 / (U s L) ^ 2)
          * ln (if Rlt_dec 0 (cos (U s L)) then 1 / cos (U s L) else 1)
          + (if Req_EM_T L 0 then 1 else s / L) ^ 2 - (if Req_EM_T L 0 then 1 else s / L).
Proof. reflexivity. Qed.

Lemma sb_N_unfold s L : N s L = (if Req_EM_T s 0 then 1 else L / s) * Kp * eps (L / Kp).
Proof. unfold sb_neuber_strain, sb_e_star. same_formula. Qed.

(* -------- joint negation of stress and load leaves the equation unchanged: roots for -L are the negated roots for L *)
Lemma sb_U_neg s L : U (- s) (- L) = U s L.
Proof.
  rewrite !sb_U_unfold.
  destruct (Req_EM_T s 0) as [H0|H0]; destruct (Req_EM_T (- s) 0) as [H1|H1]; try lra.
  replace (- L / - s) with (L / s) by (field; assumption). reflexivity.
Qed.

Lemma sb_M_neg s L : M (- s) (- L) = M s L.
Proof.
  rewrite !sb_M_unfold, sb_U_neg.
  destruct (Req_EM_T L 0) as [H0|H0]; destruct (Req_EM_T (- L) 0) as [H1|H1]; try lra.
  replace (- s / - L) with (s / L) by (field; assumption). reflexivity.
Qed.

Lemma sb_N_neg s L : N (- s) (- L) = - N s L.
Proof.
  rewrite !sb_N_unfold.
  replace (- L / Kp) with (- (L / Kp)) by (unfold Rdiv; ring). rewrite C16.ro_strain_odd.
  destruct (Req_EM_T s 0) as [H0|H0]; destruct (Req_EM_T (- s) 0) as [H1|H1]; try lra.
  replace (- L / - s) with (L / s) by (field; assumption). ring.
Qed.

Lemma sb_equation_joint_negation s L : F (- s) (- L) = F s L.
Proof.
  rewrite !sb_F_unfold, sb_M_neg, sb_N_neg, C16.ro_strain_odd.
  replace (M s L * - N s L) with (- (M s L * N s L)) by ring.
  unfold Rdiv. rewrite Rinv_opp. ring.
Qed.

Lemma sb_root_odd s L : F s L = 0 <-> F (- s) (- L) = 0.
Proof. rewrite sb_equation_joint_negation. tauto. Qed.

(* -------- secondary branch (eq. 2.8-43) = the primary equation at half the stress range and half the load range *)
Lemma sb_secondary_is_masing_eq ds dl : F2 ds dl = F (ds / 2) (dl / 2).
Proof.
  assert (HKp0 : 0 < Kp) by lra.
  assert (HU : sb_u_term_secondary E K n Kp ds dl = U (ds / 2) (dl / 2)).
  { unfold sb_u_term_secondary. cbv zeta. rewrite sb_U_unfold.
    destruct (Req_EM_T ds 0) as [H0|H0]; destruct (Req_EM_T (ds / 2) 0) as [H1|H1]; try lra.
    replace (dl / 2 / (ds / 2)) with (dl / ds) by (field; assumption). reflexivity. }
  assert (HM : sb_middle_term_secondary E K n Kp ds dl = M (ds / 2) (dl / 2)).
  { unfold sb_middle_term_secondary. cbv zeta. rewrite HU, sb_M_unfold.
    destruct (Req_EM_T dl 0) as [H0|H0]; destruct (Req_EM_T (dl / 2) 0) as [H1|H1]; try lra.
    replace (ds / 2 / (dl / 2)) with (ds / dl) by (field; assumption). reflexivity. }
  assert (HN : sb_neuber_strain_secondary E K n Kp ds dl = 2 * N (ds / 2) (dl / 2)).
  { unfold sb_neuber_strain_secondary, sb_delta_e_star. cbv zeta. rewrite sb_N_unfold, C16.ro_delta_is_doubled.
    replace (dl / Kp / 2) with (dl / 2 / Kp) by (field; lra).
    destruct (Req_EM_T ds 0) as [H0|H0]; destruct (Req_EM_T (ds / 2) 0) as [H1|H1]; try lra.
    replace (dl / 2 / (ds / 2)) with (dl / ds) by (field; assumption). ring. }
  unfold sb_stress_secondary_implicit. cbv zeta. rewrite HM, HN, C16.ro_delta_is_doubled, sb_F_unfold.
  replace (M (ds / 2) (dl / 2) * (2 * N (ds / 2) (dl / 2))) with (2 * (M (ds / 2) (dl / 2) * N (ds / 2) (dl / 2))) by ring.
  unfold Rdiv. rewrite (Rinv_mult 2). generalize (/ (M (ds * / 2) (dl * / 2) * N (ds * / 2) (dl * / 2))). intros y. field.
Qed.

Lemma sb_secondary_is_masing ds dl : F2 ds dl = 0 <-> F (ds / 2) (dl / 2) = 0.
Proof. rewrite sb_secondary_is_masing_eq. tauto. Qed.

Lemma sb_load_implicit_is_stress_implicit L s :
  sb_load_implicit E K n Kp L s = F s L /\ sb_load_secondary_implicit E K n Kp L s = F2 s L.
Proof. split; reflexivity. Qed.

(* -------- inside the bounds L/K_p < s < L every guard of the source is inactive and the generated function is
            eq. 2.8-42 as printed in the guideline, with 0 < u < pi/2 *)
Lemma sb_u_in_bounds s L : 0 < L -> L / Kp < s < L -> 0 < U s L < PI / 2.
Proof.
  intros HL [Hlo Hhi]. assert (HKp0 : 0 < Kp) by lra.
  assert (HLK : 0 < L / Kp) by (apply Rdiv_lt_0_compat; assumption).
  assert (Hs : 0 < s) by lra.
  rewrite sb_U_unfold. destruct (Req_EM_T s 0) as [|_]; [lra|].
  assert (H1 : 1 < L / s).
  { apply Rmult_lt_reg_r with s; [assumption|]. replace (L / s * s) with L by (field; lra). lra. }
  assert (H2 : L / s < Kp).
  { apply Rmult_lt_reg_r with (s / Kp); [apply Rdiv_lt_0_compat; assumption|].
    replace (L / s * (s / Kp)) with (L / Kp) by (field; lra).
    replace (Kp * (s / Kp)) with s by (field; lra). assumption. }
  assert (Hq : 0 < (L / s - 1) / (Kp - 1) < 1).
  { split; [apply Rdiv_lt_0_compat; lra|].
    apply Rmult_lt_reg_r with (Kp - 1); [lra|]. replace ((L / s - 1) / (Kp - 1) * (Kp - 1)) with (L / s - 1) by (field; lra). lra. }
  pose proof PI_RGT_0. split; [apply Rmult_lt_0_compat; lra|].
  replace (PI / 2) with (PI / 2 * 1) at 2 by ring. apply Rmult_lt_compat_l; lra.
Qed.

Lemma sb_equation_in_bounds s L : 0 < L -> L / Kp < s < L ->
  let u := PI / 2 * ((L / s - 1) / (Kp - 1)) in
  F s L = eps s / ((2 / u ^ 2 * ln (1 / cos u) + (s / L) ^ 2 - s / L) * (L / s * Kp * eps (L / Kp))) - 1.
Proof.
  intros HL Hb u. pose proof (sb_u_in_bounds s L HL Hb) as [Hu0 Hu1].
  assert (HKp0 : 0 < Kp) by lra.
  assert (HLK : 0 < L / Kp) by (apply Rdiv_lt_0_compat; assumption).
  assert (HU : U s L = u).
  { rewrite sb_U_unfold. destruct (Req_EM_T s 0) as [|_]; [lra|reflexivity]. }
  rewrite sb_F_unfold, sb_M_unfold, sb_N_unfold, HU in *.
  destruct (Req_EM_T s 0) as [|_]; [lra|]. destruct (Req_EM_T L 0) as [|_]; [lra|].
  destruct (Req_EM_T u 0) as [|_]; [lra|].
  assert (Hc : 0 < cos u) by (apply cos_gt_0; lra).
  destruct (Rlt_dec 0 (cos u)) as [_|]; [|contradiction]. reflexivity.
Qed.

(* -------- between L/(3 K_p - 2) and L/K_p the cosine is not positive, the source's guard switches the logarithm
            off, and the function is below -1: no root there, so a root in (L/(3K_p-2), L) lies in (L/K_p, L) *)
Lemma sb_no_root_below s L : 0 < L -> L / (3 * Kp - 2) < s <= L / Kp -> F s L < -1.
Proof.
  intros HL [Hlo Hhi]. assert (HKp0 : 0 < Kp) by lra.
  assert (H3 : 0 < 3 * Kp - 2) by lra.
  assert (Hs : 0 < s) by (assert (0 < L / (3 * Kp - 2)) by (apply Rdiv_lt_0_compat; assumption); lra).
  assert (HLK : 0 < L / Kp) by (apply Rdiv_lt_0_compat; assumption).
  assert (H1 : Kp <= L / s).
  { apply Rmult_le_reg_r with (s / Kp); [apply Rdiv_lt_0_compat; assumption|].
    replace (L / s * (s / Kp)) with (L / Kp) by (field; lra).
    replace (Kp * (s / Kp)) with s by (field; lra). assumption. }
  assert (H2 : L / s < 3 * Kp - 2).
  { apply Rmult_lt_reg_r with (s / (3 * Kp - 2)); [apply Rdiv_lt_0_compat; assumption|].
    replace (L / s * (s / (3 * Kp - 2))) with (L / (3 * Kp - 2)) by (field; lra).
    replace ((3 * Kp - 2) * (s / (3 * Kp - 2))) with s by (field; lra). assumption. }
  assert (Hq : 1 <= (L / s - 1) / (Kp - 1) < 3).
  { split.
    - apply Rmult_le_reg_r with (Kp - 1); [lra|]. replace ((L / s - 1) / (Kp - 1) * (Kp - 1)) with (L / s - 1) by (field; lra). lra.
    - apply Rmult_lt_reg_r with (Kp - 1); [lra|]. replace ((L / s - 1) / (Kp - 1) * (Kp - 1)) with (L / s - 1) by (field; lra). lra. }
  pose proof PI_RGT_0 as Hpi.
  assert (HU : PI / 2 <= U s L <= 3 * (PI / 2)).
  { rewrite sb_U_unfold. destruct (Req_EM_T s 0) as [|_]; [lra|]. nra. }
  assert (Hc : cos (U s L) <= 0) by (apply cos_le_0; lra).
  rewrite sb_F_unfold, sb_M_unfold, sb_N_unfold.
  destruct (Rlt_dec 0 (cos (U s L))) as [|_]; [lra|]. rewrite ln_1, Rmult_0_r, Rplus_0_l.
  destruct (Req_EM_T s 0) as [|_]; [lra|]. destruct (Req_EM_T L 0) as [|_]; [lra|].
  assert (Hr : 0 < s / L < 1).
  { split; [apply Rdiv_lt_0_compat; assumption|].
    apply Rmult_lt_reg_r with L; [assumption|]. replace (s / L * L) with s by (field; lra).
    assert (L / Kp < L / 1); [|lra]. unfold Rdiv. apply Rmult_lt_compat_l; [assumption|]. apply Rinv_lt_contravar; lra. }
  assert (HMn : (s / L) ^ 2 - s / L < 0) by nra.
  assert (He : 0 < eps (L / Kp)) by (rewrite <- (C16.ro_strain_0 E K n); apply C16.ro_strain_strictly_increasing; assumption).
  assert (Hes : 0 < eps s) by (rewrite <- (C16.ro_strain_0 E K n); apply C16.ro_strain_strictly_increasing; assumption).
  assert (HNp : 0 < L / s * Kp * eps (L / Kp)).
  { apply Rmult_lt_0_compat; [apply Rmult_lt_0_compat; [apply Rdiv_lt_0_compat|]|]; assumption. }
  set (m := (s / L) ^ 2 - s / L) in *. set (nn := L / s * Kp * eps (L / Kp)) in *.
  assert (Hmn : m * nn < 0) by nra.
  assert (Hinv : / (m * nn) < 0) by (apply Rinv_lt_0_compat; assumption).
  unfold Rdiv. nra.
Qed.

Lemma sb_root_above_LKp s L : 0 < L -> L / (3 * Kp - 2) < s -> F s L = 0 -> L / Kp < s.
Proof.
  intros HL Hlo Hf. destruct (Rlt_le_dec (L / Kp) s) as [|Hle]; [assumption|exfalso].
  pose proof (sb_no_root_below s L HL (conj Hlo Hle)). lra.
Qed.

(* -------- a root of the generated function is a solution of the guideline equation  eps(s) = M * N *)
Lemma sb_root_iff_equation s L : M s L * N s L <> 0 -> (F s L = 0 <-> eps s = M s L * N s L).
Proof.
  intros Hnz. rewrite sb_F_unfold. set (X := M s L * N s L) in *. split; intros H.
  - assert (Hq : eps s / X = 1) by lra.
    replace (eps s) with (eps s / X * X) by (field; exact Hnz). rewrite Hq. ring.
  - rewrite H. field. exact Hnz.
Qed.

Lemma sb_strain_is_ramberg_osgood s L ds dl :
  sb_strain E K n Kp s L = eps s /\ sb_strain_secondary_branch E K n Kp ds dl = 2 * eps (ds / 2).
Proof. split; reflexivity. Qed.

Lemma sb_strain_odd s L ds dl :
  sb_strain E K n Kp (- s) (- L) = - sb_strain E K n Kp s L /\
  sb_strain_secondary_branch E K n Kp (- ds) (- dl) = - sb_strain_secondary_branch E K n Kp ds dl.
Proof.
  destruct (sb_strain_is_ramberg_osgood s L ds dl) as [H1 H2].
  destruct (sb_strain_is_ramberg_osgood (- s) (- L) (- ds) (- dl)) as [H3 H4].
  rewrite H1, H2, H3, H4. replace (- ds / 2) with (- (ds / 2)) by (unfold Rdiv; ring). rewrite !C16.ro_strain_odd. split; ring.
Qed.

End SB.

(* the hypotheses of the sections above are satisfiable (FKM example material, K_p = 3.5, L = 300), and the
   implications about roots are not vacuous: a root exists (en_root_exists / en_load_exists) *)
Example c06_guards_satisfiable :
  exists E K n Kp L : R, 0 < E /\ 0 < K /\ 0 < n < 1 /\ 1 < Kp /\ 0 < L /\
    exists s, L / Kp <= s <= L /\ en_stress_implicit E K n Kp s L = 0.
Proof.
  exists 206000, 1184, (187 / 1000), (7 / 2), 300. repeat split; try lra.
  apply en_root_exists; lra.
Qed.
