(* C16: closed-form material laws.  Theorems about the GENERATED models in PLgen, so they are
   re-checked against what /repo's source says on every run. *)
From Coq Require Import Reals Lra Lia.
From Coquelicot Require Import Coquelicot.
From PL Require Import Common.RPrelude.
From PLgen Require Import GenHooke GenRambgood GenTrueStressStrain.
Open Scope R_scope.

(* ------------------------------------------------------------------ Hooke *)
Lemma h1_roundtrip E e : E <> 0 -> h1_strain E (h1_stress E e) = e /\ h1_stress E (h1_strain E e) = e.
Proof. intros H. unfold h1_strain, h1_stress. split; field; assumption. Qed.

Lemma h2s_roundtrip E nu e11 e22 g12 : 0 < E -> -1 < nu < 1/2 ->
  (let '(s11, s22, s12) := h2s_stress E nu e11 e22 g12 in
   let '(f11, f22, _, f12) := h2s_strain E nu s11 s22 s12 in (f11, f22, f12)) = (e11, e22, g12).
Proof. intros HE Hnu. unfold h2s_stress, h2s_strain. cbv beta iota zeta. tuple_eq; field; nra. Qed.

Lemma h2s_roundtrip' E nu s11 s22 s12 : 0 < E -> -1 < nu < 1/2 ->
  (let '(e11, e22, _, g12) := h2s_strain E nu s11 s22 s12 in h2s_stress E nu e11 e22 g12) = (s11, s22, s12).
Proof. intros HE Hnu. unfold h2s_stress, h2s_strain. cbv beta iota zeta. tuple_eq; field; nra. Qed.

Lemma h2e_roundtrip E nu e11 e22 g12 : 0 < E -> -1 < nu < 1/2 ->
  (let '(s11, s22, _, s12) := h2e_stress E nu e11 e22 g12 in h2e_strain E nu s11 s22 s12) = (e11, e22, g12).
Proof.
  intros HE Hnu. unfold h2e_stress, h2e_strain, h2e_super_stress, h2e_super_strain. cbv beta iota zeta.
  tuple_eq; field; nra.
Qed.

Lemma h2e_roundtrip' E nu s11 s22 s12 : 0 < E -> -1 < nu < 1/2 ->
  (let '(e11, e22, g12) := h2e_strain E nu s11 s22 s12 in
   let '(t11, t22, _, t12) := h2e_stress E nu e11 e22 g12 in (t11, t22, t12)) = (s11, s22, s12).
Proof.
  intros HE Hnu. unfold h2e_stress, h2e_strain, h2e_super_stress, h2e_super_strain. cbv beta iota zeta.
  tuple_eq; field; nra.
Qed.

Lemma h3_roundtrip E nu e11 e22 e33 g12 g13 g23 : 0 < E -> -1 < nu < 1/2 ->
  (let '(s11, s22, s33, s12, s13, s23) := h3_stress E nu e11 e22 e33 g12 g13 g23 in
   h3_strain E nu s11 s22 s33 s12 s13 s23) = (e11, e22, e33, g12, g13, g23).
Proof. intros HE Hnu. unfold h3_stress, h3_strain. cbv beta iota zeta. tuple_eq; field; nra. Qed.

Lemma h3_roundtrip' E nu s11 s22 s33 s12 s13 s23 : 0 < E -> -1 < nu < 1/2 ->
  (let '(e11, e22, e33, g12, g13, g23) := h3_strain E nu s11 s22 s33 s12 s13 s23 in
   h3_stress E nu e11 e22 e33 g12 g13 g23) = (s11, s22, s33, s12, s13, s23).
Proof. intros HE Hnu. unfold h3_stress, h3_strain. cbv beta iota zeta. tuple_eq; field; nra. Qed.

(* plane strain = 3D law with e33 = g13 = g23 = 0 (all four reported stresses) *)
Lemma plane_strain_is_3d E nu e11 e22 g12 : 0 < E -> -1 < nu < 1/2 ->
  (let '(s11, s22, s33, s12, _, _) := h3_stress E nu e11 e22 0 g12 0 0 in (s11, s22, s33, s12))
  = h2e_stress E nu e11 e22 g12.
Proof.
  intros HE Hnu. unfold h3_stress, h2e_stress, h2e_super_stress. cbv beta iota zeta. tuple_eq; field; nra.
Qed.

(* plane stress = 3D law with s33 = s13 = s23 = 0 (all four reported strains, incl. e33) *)
Lemma plane_stress_is_3d E nu s11 s22 s12 : 0 < E -> -1 < nu < 1/2 ->
  (let '(e11, e22, e33, g12, _, _) := h3_strain E nu s11 s22 0 s12 0 0 in (e11, e22, e33, g12))
  = h2s_strain E nu s11 s22 s12.
Proof. intros HE Hnu. unfold h3_strain, h2s_strain. cbv beta iota zeta. tuple_eq; field; nra. Qed.

Lemma G_K_from_E_nu E nu : 0 < E -> -1 < nu < 1/2 ->
  hc_G E nu = E / (2 * (1 + nu)) /\ hc_K E nu = E / (3 * (1 - 2 * nu)) /\
  E = 9 * hc_K E nu * hc_G E nu / (3 * hc_K E nu + hc_G E nu) /\
  nu = (3 * hc_K E nu - 2 * hc_G E nu) / (2 * (3 * hc_K E nu + hc_G E nu)).
Proof.
  intros HE Hnu. unfold hc_G, hc_K. cbv beta iota zeta. repeat split; try reflexivity.
  - field. repeat split; try nra.
  - field. repeat split; try nra.
Qed.

(* ------------------------------------------------------------------ true stress / strain *)
Lemma true_strain_inverse e : -1 < e -> exp (tss_true_strain e) - 1 = e.
Proof. intros H. unfold tss_true_strain. rewrite exp_ln by lra. lra. Qed.

Lemma true_strain_inverse' t : tss_true_strain (exp t - 1) = t.
Proof. unfold tss_true_strain. replace (1 + (exp t - 1)) with (exp t) by lra. apply ln_exp. Qed.

Lemma true_stress_inverse s e : -1 < e -> tss_true_stress s e / (1 + e) = s.
Proof. intros H. unfold tss_true_stress. field. lra. Qed.

Lemma true_fracture_strain_inverse Z : Z < 1 -> 1 - exp (- tss_true_fracture_strain Z) = Z.
Proof.
  intros H. unfold tss_true_fracture_strain. unfold Rdiv. rewrite Rmult_1_l, ln_Rinv by lra.
  rewrite Ropp_involutive, exp_ln by lra. lra.
Qed.

Lemma true_fracture_stress_inverse F A Z : 0 < A -> Z < 1 ->
  tss_true_fracture_stress F A Z * (A * (1 - Z)) = F.
Proof. intros HA HZ. unfold tss_true_fracture_stress. field. split; lra. Qed.

(* ------------------------------------------------------------------ Ramberg-Osgood *)
Section RO.
Variables E K n : R.
Hypothesis HE : 0 < E.
Hypothesis HK : 0 < K.
Hypothesis Hn : 0 < n < 1.

Let eps := ro_strain E K n.

Lemma inv_n_gt1 : 1 < 1 / n.
Proof. unfold Rdiv. rewrite Rmult_1_l. rewrite <- Rinv_1 at 1. apply Rinv_lt_contravar; lra. Qed.

Lemma ro_strain_unfold s : ro_strain E K n s = s / E + sgnR s * npow (Rabs s / K) (1 / n).
Proof. reflexivity. Qed.

Lemma ro_strain_pos s : 0 < s -> ro_strain E K n s = s / E + Rpower (s / K) (1 / n).
Proof.
  intros H. rewrite ro_strain_unfold, sgnR_pos, Rabs_right by lra.
  rewrite npow_pos by (apply Rdiv_lt_0_compat; lra). lra.
Qed.

Lemma ro_strain_0 : ro_strain E K n 0 = 0.
Proof. rewrite ro_strain_unfold, sgnR_0. lra. Qed.

Lemma ro_strain_odd s : ro_strain E K n (- s) = - ro_strain E K n s.
Proof. rewrite !ro_strain_unfold, sgnR_opp, Rabs_Ropp. lra. Qed.

Lemma ro_strain_incr_pos a b : 0 <= a -> a < b -> ro_strain E K n a < ro_strain E K n b.
Proof.
  intros Ha Hab. pose proof inv_n_gt1 as Hn1.
  assert (Hb : 0 < b) by lra.
  rewrite (ro_strain_pos b Hb).
  destruct Ha as [Ha|Ha].
  - rewrite (ro_strain_pos a Ha).
    assert (a / E < b / E) by (apply Rmult_lt_compat_r; [apply Rinv_0_lt_compat|]; lra).
    assert (Rpower (a / K) (1 / n) < Rpower (b / K) (1 / n)).
    { apply Rpower_lt_base; [lra|apply Rdiv_lt_0_compat; lra|].
      apply Rmult_lt_compat_r; [apply Rinv_0_lt_compat|]; lra. }
    lra.
  - subst a. rewrite ro_strain_0.
    assert (0 < b / E) by (apply Rdiv_lt_0_compat; lra).
    assert (0 < Rpower (b / K) (1 / n)) by (unfold Rpower; apply exp_pos). lra.
Qed.

Lemma ro_strain_strictly_increasing a b : a < b -> ro_strain E K n a < ro_strain E K n b.
Proof.
  intros Hab. destruct (Rle_lt_dec 0 a) as [Ha|Ha].
  - apply ro_strain_incr_pos; assumption.
  - destruct (Rle_lt_dec b 0) as [Hb|Hb].
    + replace a with (- - a) by lra. replace b with (- - b) by lra.
      rewrite (ro_strain_odd (- a)), (ro_strain_odd (- b)).
      apply Ropp_lt_contravar. apply ro_strain_incr_pos; lra.
    + apply Rlt_trans with (ro_strain E K n 0).
      * replace a with (- - a) by lra. rewrite ro_strain_odd, ro_strain_0.
        assert (ro_strain E K n 0 < ro_strain E K n (- a)) by (apply ro_strain_incr_pos; lra).
        rewrite ro_strain_0 in *. lra.
      * apply ro_strain_incr_pos; lra.
Qed.

Lemma ro_strain_injective a b : ro_strain E K n a = ro_strain E K n b -> a = b.
Proof.
  intros H. destruct (Rtotal_order a b) as [L|[L|L]]; [|assumption|];
    apply ro_strain_strictly_increasing in L; lra.
Qed.

(* tangential compliance is the derivative of strain (away from the origin, where |.| is smooth) *)
Lemma ro_compliance_is_derivative_pos s : 0 < s ->
  is_derive (ro_strain E K n) s (ro_tangential_compliance E K n s).
Proof.
  intros Hs.
  apply (is_derive_ext_loc (fun s => s / E + Rpower (s / K) (1 / n))).
  { assert (Hloc : locally s (fun t => 0 < t)) by (apply open_gt; assumption).
    revert Hloc. apply filter_imp. intros t Ht. symmetry. apply ro_strain_pos. assumption. }
  unfold ro_tangential_compliance. cbv beta iota zeta. rewrite (Rabs_right s) by lra.
  assert (HsK : 0 < s / K) by (apply Rdiv_lt_0_compat; lra).
  rewrite npow_pos by assumption.
  unfold Rpower. auto_derive. { exact HsK. }
  replace (1 / n - 1) with (1 / n + -1) by lra. rewrite Rmult_plus_distr_r, exp_plus.
  replace (-1 * ln (s / K)) with (- ln (s / K)) by lra. rewrite exp_Ropp, exp_ln by lra.
  change (s * / K) with (s / K). generalize (exp (1 / n * ln (s / K))). intros X.
  field. repeat split; lra.
Qed.

Lemma ro_compliance_even s : ro_tangential_compliance E K n (- s) = ro_tangential_compliance E K n s.
Proof. unfold ro_tangential_compliance. cbv beta iota zeta. rewrite Rabs_Ropp. reflexivity. Qed.

Lemma ro_strain_neg s : s < 0 -> ro_strain E K n s = s / E - Rpower (- s / K) (1 / n).
Proof.
  intros H. rewrite ro_strain_unfold, sgnR_neg, Rabs_left by lra.
  rewrite npow_pos by (apply Rdiv_lt_0_compat; lra). lra.
Qed.

Lemma ro_compliance_is_derivative_neg s : s < 0 ->
  is_derive (ro_strain E K n) s (ro_tangential_compliance E K n s).
Proof.
  intros Hs.
  apply (is_derive_ext_loc (fun s => s / E - Rpower (- s / K) (1 / n))).
  { assert (Hloc : locally s (fun t => t < 0)) by (apply open_lt; assumption).
    revert Hloc. apply filter_imp. intros t Ht. symmetry. apply ro_strain_neg. assumption. }
  unfold ro_tangential_compliance. cbv beta iota zeta. rewrite (Rabs_left s) by lra.
  assert (HsK : 0 < - s / K) by (apply Rdiv_lt_0_compat; lra).
  rewrite npow_pos by assumption.
  unfold Rpower. auto_derive. { exact HsK. }
  replace (1 / n - 1) with (1 / n + -1) by lra. rewrite Rmult_plus_distr_r, exp_plus.
  replace (-1 * ln (- s / K)) with (- ln (- s / K)) by lra. rewrite exp_Ropp, exp_ln by lra.
  change (- s * / K) with (- s / K). generalize (exp (1 / n * ln (- s / K))). intros X.
  field. repeat split; lra.
Qed.

Lemma ro_compliance_is_derivative s : s <> 0 ->
  is_derive (ro_strain E K n) s (ro_tangential_compliance E K n s).
Proof.
  intros H. destruct (Rtotal_order s 0) as [L|[L|L]]; [|contradiction|].
  - apply ro_compliance_is_derivative_neg; assumption.
  - apply ro_compliance_is_derivative_pos; assumption.
Qed.

Lemma ro_compliance_ge s : 1 / E <= ro_tangential_compliance E K n s.
Proof.
  unfold ro_tangential_compliance. cbv beta iota zeta.
  assert (0 <= npow (Rabs s / K) (1 / n - 1)).
  { apply npow_ge0. apply Rmult_le_pos; [apply Rabs_pos|]. left. apply Rinv_0_lt_compat. lra. }
  assert (0 < 1 / (n * K)) by (apply Rdiv_lt_0_compat; nra).
  nra.
Qed.

Lemma ro_compliance_at_0 : ro_tangential_compliance E K n 0 = 1 / E.
Proof.
  unfold ro_tangential_compliance. cbv beta iota zeta. rewrite Rabs_R0. replace (0 / K) with 0 by (unfold Rdiv; ring).
  pose proof inv_n_gt1. rewrite npow_0 by lra. ring.
Qed.

Lemma ro_modulus_reciprocal s :
  ro_tangential_modulus E K n s * ro_tangential_compliance E K n s = 1.
Proof.
  unfold ro_tangential_modulus. cbv beta iota zeta. pose proof (ro_compliance_ge s).
  assert (0 < 1 / E) by (apply Rdiv_lt_0_compat; lra). field. lra.
Qed.

Lemma ro_delta_is_doubled d : ro_delta_strain E K n d = 2 * ro_strain E K n (d / 2).
Proof. reflexivity. Qed.

Lemma ro_delta_strain_strictly_increasing a b : a < b -> ro_delta_strain E K n a < ro_delta_strain E K n b.
Proof.
  intros H. rewrite !ro_delta_is_doubled.
  assert (ro_strain E K n (a / 2) < ro_strain E K n (b / 2)) by (apply ro_strain_strictly_increasing; lra). lra.
Qed.

Lemma ro_lower_hysteresis_meets_curve smax :
  ro_lower_hysteresis E K n smax smax = ro_strain E K n smax.
Proof.
  unfold ro_lower_hysteresis. cbv beta iota zeta. rewrite ro_delta_is_doubled.
  replace ((smax - smax) / 2) with 0 by lra. rewrite ro_strain_0. lra.
Qed.

(* lower branch lies on the doubled curve hung at the reversal point, and is below the curve's strain *)
Lemma ro_lower_hysteresis_le s smax : s <= smax ->
  ro_lower_hysteresis E K n s smax <= ro_strain E K n smax.
Proof.
  intros H. unfold ro_lower_hysteresis. cbv beta iota zeta. rewrite ro_delta_is_doubled.
  destruct H as [H|H].
  - assert (ro_strain E K n 0 < ro_strain E K n ((smax - s) / 2)) by (apply ro_strain_strictly_increasing; lra).
    rewrite ro_strain_0 in *. lra.
  - subst. replace ((smax - smax) / 2) with 0 by lra. rewrite ro_strain_0. lra.
Qed.

(* continuity, needed for the existence of the inverse *)
Lemma ro_strain_continuous s : continuous (ro_strain E K n) s.
Proof.
  destruct (Req_dec s 0) as [H0|H0].
  - (* at the origin: squeeze between +- (|t|/E + (|t|/K)^(1/n)) -- use monotonicity and explicit bound *)
    subst s.
    apply continuity_pt_filterlim. intros eps0 Heps.
    (* choose delta with ro_strain delta < eps: use delta = min(1 ...)?  we use IVT-free argument:
       ro_strain is increasing and ro_strain t -> 0: take d = min (E*eps/2) (K * (eps/2)^n) *)
    set (d := Rmin (E * eps0 / 2) (K * Rpower (eps0 / 2) n)).
    assert (Hd : 0 < d).
    { apply Rmin_glb_lt; [nra|]. apply Rmult_lt_0_compat; [lra|unfold Rpower; apply exp_pos]. }
    exists d. split; [assumption|]. intros t [_ Ht]. simpl in Ht. unfold R_dist in Ht.
    rewrite Rminus_0_r in Ht. simpl. unfold R_dist. rewrite ro_strain_0, Rminus_0_r.
    assert (Hb : forall u, 0 < u -> u < d -> ro_strain E K n u < eps0).
    { intros u Hu Hud. rewrite ro_strain_pos by assumption.
      assert (u / E < eps0 / 2).
      { apply Rlt_le_trans with (d / E).
        - apply Rmult_lt_compat_r; [apply Rinv_0_lt_compat; lra|lra].
        - apply Rle_trans with ((E * eps0 / 2) / E); [|right; field; lra].
          apply Rmult_le_compat_r; [left; apply Rinv_0_lt_compat; lra|apply Rmin_l]. }
      assert (Rpower (u / K) (1 / n) < eps0 / 2).
      { assert (HuK : u / K < Rpower (eps0 / 2) n).
        { apply Rlt_le_trans with (d / K).
          - apply Rmult_lt_compat_r; [apply Rinv_0_lt_compat; lra|lra].
          - apply Rle_trans with ((K * Rpower (eps0 / 2) n) / K); [|right; field; lra].
            apply Rmult_le_compat_r; [left; apply Rinv_0_lt_compat; lra|apply Rmin_r]. }
        apply Rlt_le_trans with (Rpower (Rpower (eps0 / 2) n) (1 / n)).
        - apply Rpower_lt_base; [pose proof inv_n_gt1; lra|apply Rdiv_lt_0_compat; lra|assumption].
        - rewrite Rpower_mult. replace (n * (1 / n)) with 1 by (field; lra). rewrite Rpower_1 by lra. lra. }
      lra. }
    destruct (Rtotal_order t 0) as [L|[L|L]].
    + assert (Ht' : - t < d) by (rewrite Rabs_left in Ht by assumption; lra).
      pose proof (Hb (- t) ltac:(lra) Ht') as Hq. rewrite ro_strain_odd in Hq.
      assert (ro_strain E K n t < ro_strain E K n 0) by (apply ro_strain_strictly_increasing; assumption).
      rewrite ro_strain_0 in *. rewrite Rabs_left by lra. lra.
    + subst. rewrite ro_strain_0, Rabs_R0. assumption.
    + assert (Ht' : t < d) by (rewrite Rabs_right in Ht by lra; lra).
      pose proof (Hb t L Ht').
      assert (ro_strain E K n 0 < ro_strain E K n t) by (apply ro_strain_strictly_increasing; assumption).
      rewrite ro_strain_0 in *. rewrite Rabs_right by lra. lra.
  - apply (ex_derive_continuous (ro_strain E K n)). eexists. apply ro_compliance_is_derivative. assumption.
Qed.

(* existence of the exact inverse (IVT) -- what RambergOsgood.stress approximates *)
Lemma ro_stress_exists e : exists s, ro_strain E K n s = e.
Proof.
  assert (Hpos : forall e0, 0 <= e0 -> exists s, ro_strain E K n s = e0).
  { intros e0 He0.
    (* ro_strain 0 = 0 <= e0 <= ro_strain (E*e0 + 1)  since ro_strain s >= s/E *)
    set (b := E * e0 + 1).
    assert (Hb : 0 < b) by (unfold b; nra).
    assert (Hfb : e0 <= ro_strain E K n b).
    { rewrite ro_strain_pos by assumption.
      assert (0 < Rpower (b / K) (1 / n)) by (unfold Rpower; apply exp_pos).
      assert (b / E = e0 + 1 / E) by (unfold b; field; lra).
      assert (0 < 1 / E) by (apply Rdiv_lt_0_compat; lra). lra. }
    destruct (IVT_gen (ro_strain E K n) 0 b e0) as [s [_ Hs]].
    - intros x. apply continuity_pt_filterlim. apply ro_strain_continuous.
    - rewrite ro_strain_0. rewrite Rmin_left, Rmax_right by lra. split; assumption.
    - exists s. assumption. }
  destruct (Rle_lt_dec 0 e) as [H|H].
  - apply Hpos. assumption.
  - destruct (Hpos (- e) ltac:(lra)) as [s Hs]. exists (- s). rewrite ro_strain_odd. lra.
Qed.

(* residual bound: a value whose strain is within delta of the target is within E*delta of the exact root *)
Lemma ro_strain_expansive a b : a <= b -> (b - a) / E <= ro_strain E K n b - ro_strain E K n a.
Proof.
  intros Hab.
  (* g s = ro_strain s - s/E is non-decreasing: sgn s * (|s|/K)^(1/n) *)
  assert (Hg : forall x y, x <= y -> sgnR x * npow (Rabs x / K) (1 / n) <= sgnR y * npow (Rabs y / K) (1 / n)).
  { intros x y Hxy. pose proof inv_n_gt1 as Hn1.
    assert (Hmono : forall u v, 0 <= u -> u <= v -> npow (u / K) (1 / n) <= npow (v / K) (1 / n)).
    { intros u v Hu [Huv|Huv]; [|subst; lra]. left. apply npow_lt_base; [lra| |].
      - apply Rmult_le_pos; [assumption|left; apply Rinv_0_lt_compat; lra].
      - apply Rmult_lt_compat_r; [apply Rinv_0_lt_compat; lra|assumption]. }
    assert (Hnn : forall u, 0 <= npow (Rabs u / K) (1 / n)).
    { intros u. apply npow_ge0. apply Rmult_le_pos; [apply Rabs_pos|left; apply Rinv_0_lt_compat; lra]. }
    destruct (Rtotal_order x 0) as [Lx|[Lx|Lx]]; destruct (Rtotal_order y 0) as [Ly|[Ly|Ly]]; subst;
      try (exfalso; lra).
    - rewrite (sgnR_neg x), (sgnR_neg y), (Rabs_left x), (Rabs_left y) by assumption.
      pose proof (Hmono (- y) (- x) ltac:(lra) ltac:(lra)). lra.
    - rewrite (sgnR_neg x), sgnR_0 by assumption. pose proof (Hnn x). lra.
    - rewrite (sgnR_neg x), (sgnR_pos y) by assumption. pose proof (Hnn x). pose proof (Hnn y). lra.
    - lra.
    - rewrite sgnR_0, (sgnR_pos y) by assumption. pose proof (Hnn y). lra.
    - rewrite (sgnR_pos x), (sgnR_pos y), (Rabs_right x), (Rabs_right y) by lra.
      pose proof (Hmono x y ltac:(lra) Hxy). lra. }
  rewrite !ro_strain_unfold. pose proof (Hg a b Hab).
  replace ((b - a) / E) with (b / E - a / E) by (field; lra). lra.
Qed.

Lemma ro_residual_bounds_error s_hat s_star e delta :
  ro_strain E K n s_star = e -> Rabs (ro_strain E K n s_hat - e) <= delta ->
  Rabs (s_hat - s_star) <= E * delta.
Proof.
  intros Hstar Hres. rewrite <- Hstar in Hres.
  destruct (Rle_lt_dec s_star s_hat) as [H|H].
  - pose proof (ro_strain_expansive s_star s_hat H) as Hx.
    assert (Hq : 0 <= (s_hat - s_star) / E) by (apply Rmult_le_pos; [lra|left; apply Rinv_0_lt_compat; lra]).
    rewrite Rabs_right in Hres by lra. rewrite Rabs_right by lra.
    assert (Hd : (s_hat - s_star) / E <= delta) by lra.
    apply Rmult_le_compat_l with (r := E) in Hd; [|lra].
    replace (E * ((s_hat - s_star) / E)) with (s_hat - s_star) in Hd by (field; lra). assumption.
  - pose proof (ro_strain_expansive s_hat s_star ltac:(lra)) as Hx.
    assert (Hq : 0 <= (s_star - s_hat) / E) by (apply Rmult_le_pos; [lra|left; apply Rinv_0_lt_compat; lra]).
    rewrite Rabs_left1 in Hres by lra. rewrite Rabs_left by lra.
    assert (Hd : (s_star - s_hat) / E <= delta) by lra.
    apply Rmult_le_compat_l with (r := E) in Hd; [|lra].
    replace (E * ((s_star - s_hat) / E)) with (s_star - s_hat) in Hd by (field; lra). lra.
Qed.

End RO.
