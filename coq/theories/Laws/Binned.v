(* C07 -- model of pylife.materiallaws.notch_approximation_law.Binned over Q (hand-written).

   The model is generic in the tabulated column [v : Q -> Q] of the wrapped law:
     primary stress     v L  = law.stress L                         m = n   classes
     primary strain     v L  = law.strain (law.stress L) L          m = n
     secondary stress   v dL = law.stress_secondary_branch dL       m = 2 n classes
     secondary strain   v dL = law.strain_secondary_branch (..) dL  m = 2 n
   It is tied to the code by the correspondence check of harness/props/c07.py (vm_compute).

   Source anchors (notch_approximation_law.py):
     _create_bins_single_assessment_point     -> [edge], [edges], [table]
     _create_bins_multiple_assessment_points  -> [mtable]  (flat rows, class major / point minor)
     Binned.stress/strain/..., scalar branch  -> [lookup]
     ..., Series with a single table          -> [lookup_series]
     ..., Series with per-point tables        -> [mlookup] (class selected from point 0) *)
From Coq Require Import QArith Qabs Qround List Bool Arith.
Import ListNotations.
Open Scope Q_scope.

Inductive res : Type := Val (q : Q) | Err.
Inductive mres : Type := MVal (qs : list Q) | MErr.

Definition qltb (x y : Q) : bool := negb (Qle_bool y x).

(* np.sign *)
Definition qsgn (x : Q) : Q := if qltb 0 x then 1 else if qltb x 0 then -1 else 0.

(* load of class k (1-based):  index / number_of_bins * maximum_absolute_load *)
Definition edge (Lmax : Q) (n : positive) (k : nat) : Q :=
  (inject_Z (Z.of_nat k) / inject_Z (Zpos n)) * Lmax.

(* np.arange(1, m+1) / n * Lmax *)
Definition edges (Lmax : Q) (n : positive) (m : nat) : list Q := map (edge Lmax n) (seq 1 m).

(* rows (load, value) of a look-up table *)
Definition table (v : Q -> Q) (Lmax : Q) (n : positive) (m : nat) : list (Q * Q) :=
  map (fun e => (e, v e)) (edges Lmax n m).

(* Series.searchsorted(a) with side='left' on an ascending column: the insertion point, i.e. the number of
   leading entries that are < a  ([ss_is_searchsorted_left] shows this meets numpy's contract on sorted data) *)
Fixpoint ss (es : list Q) (a : Q) : nat :=
  match es with
  | [] => O
  | e :: r => if qltb e a then S (ss r a) else O
  end.

(* scalar look-up:
     index = lut.load.searchsorted(abs(load)) - 1
     if index+1 >= len(lut): raise ValueError
     return sign * lut.iloc[index+1].value                                  *)
Definition lookup (tbl : list (Q * Q)) (L : Q) : res :=
  let p := ss (map fst tbl) (Qabs L) in
  if (length tbl <=? p)%nat then Err else Val (qsgn L * snd (nth p tbl (0, 0))).

Definition binned (v : Q -> Q) (Lmax : Q) (n : positive) (m : nat) (L : Q) : res :=
  lookup (table v Lmax n m) L.

(* Series of loads against a single table: element-wise, one out-of-range entry rejects the whole call *)
Fixpoint lookup_series (tbl : list (Q * Q)) (Ls : list Q) : mres :=
  match Ls with
  | [] => MVal []
  | L :: r => match lookup tbl L, lookup_series tbl r with
              | Val q, MVal qs => MVal (q :: qs)
              | _, _ => MErr
              end
  end.

(* per-point tables: flat row list, class index major, point minor (MultiIndex.from_product) *)
Definition mtable (v : Q -> Q) (Lmaxs : list Q) (n : positive) (m : nat) : list (Q * Q) :=
  flat_map (fun k => map (fun Lm => let e := edge Lm n k in (e, v e)) Lmaxs) (seq 1 m).

(* the rows of the first point: lut.load[node_id == first_node_id] *)
Definition first_point_rows (P : nat) (rows : list (Q * Q)) (m : nat) : list (Q * Q) :=
  map (fun c => nth (c * P) rows (0, 0)) (seq 0 m).

(* the rows with class_index == c+1 *)
Definition class_rows (P : nat) (rows : list (Q * Q)) (c : nat) : list (Q * Q) :=
  firstn P (skipn (c * P) rows).

Fixpoint signed (Ls : list Q) (rows : list (Q * Q)) : list Q :=
  match Ls, rows with
  | L :: Lr, r :: rr => qsgn L * snd r :: signed Lr rr
  | _, _ => []
  end.

(* multi-point look-up:
     class_index = lut_for_first_node.searchsorted(abs(load.iloc[0]))
     if class_index+1 > max_class_index: raise ValueError
     return sign * lut[class_index == class_index+1].value                   *)
Definition mlookup_rows (P : nat) (rows : list (Q * Q)) (m : nat) (Ls : list Q) : mres :=
  let p := ss (map fst (first_point_rows P rows m)) (Qabs (hd 0 Ls)) in
  if (m <? p + 1)%nat then MErr else MVal (signed Ls (class_rows P rows p)).

Definition mbinned (v : Q -> Q) (Lmaxs : list Q) (n : positive) (m : nat) (Ls : list Q) : mres :=
  mlookup_rows (length Lmaxs) (mtable v Lmaxs n m) m Ls.

(* the class (1-based) the property assigns to a load of magnitude a:  max 1 (ceil (a n / Lmax)) *)
Definition kcls (Lmax : Q) (n : positive) (a : Q) : nat :=
  Z.to_nat (Z.max 1 (Qceiling (a * inject_Z (Zpos n) / Lmax))).

(* ---------- boolean comparisons for the correspondence harness ---------- *)
Definition res_eqb (a b : res) : bool :=
  match a, b with
  | Val x, Val y => Qeq_bool x y
  | Err, Err => true
  | _, _ => false
  end.

Fixpoint qlist_eqb (a b : list Q) : bool :=
  match a, b with
  | [], [] => true
  | x :: a', y :: b' => Qeq_bool x y && qlist_eqb a' b'
  | _, _ => false
  end.

Definition mres_eqb (a b : mres) : bool :=
  match a, b with
  | MVal x, MVal y => qlist_eqb x y
  | MErr, MErr => true
  | _, _ => false
  end.

Fixpoint rows_eqb (a b : list (Q * Q)) : bool :=
  match a, b with
  | [], [] => true
  | (x1, x2) :: a', (y1, y2) :: b' => Qeq_bool x1 y1 && Qeq_bool x2 y2 && rows_eqb a' b'
  | _, _ => false
  end.

(* |float edge - exact edge| <= 2^-52 * exact edge : two correctly rounded operations (k/n, then * Lmax) *)
Fixpoint edges_close (fl ex : list Q) : bool :=
  match fl, ex with
  | [], [] => true
  | x :: a', y :: b' => Qle_bool (Qabs (x - y)) ((1 # 4503599627370496) * Qabs y) && edges_close a' b'
  | _, _ => false
  end.
