(* C07 -- theorems about the model PL.Laws.Binned (all over Q, closed under the global context). *)
From Coq Require Import QArith Qabs Qround List Bool Arith Lia Lqa ZArith.
From PL Require Import Laws.Binned.
Import ListNotations.
Open Scope Q_scope.

(* ------------------------------------------------------------------ basics *)

Lemma qltb_lt x y : qltb x y = true <-> x < y.
Proof.
  unfold qltb. rewrite negb_true_iff. split; intro H.
  - apply Qnot_le_lt. intro C. apply Qle_bool_iff in C. congruence.
  - destruct (Qle_bool y x) eqn:E; auto. apply Qle_bool_iff in E. exfalso. apply (Qlt_not_le _ _ H E).
Qed.

Lemma qltb_ge x y : qltb x y = false <-> y <= x.
Proof.
  unfold qltb. rewrite negb_false_iff. apply Qle_bool_iff.
Qed.

Lemma qsgn_pos x : 0 < x -> qsgn x = 1.
Proof. intro H. unfold qsgn. apply qltb_lt in H. now rewrite H. Qed.

Lemma qsgn_neg x : x < 0 -> qsgn x = -1.
Proof.
  intro H. unfold qsgn. assert (qltb 0 x = false) by (apply qltb_ge; lra).
  apply qltb_lt in H. now rewrite H0, H.
Qed.

Lemma qsgn_zero x : x == 0 -> qsgn x = 0.
Proof.
  intro H. unfold qsgn. assert (qltb 0 x = false) by (apply qltb_ge; lra).
  assert (qltb x 0 = false) by (apply qltb_ge; lra). now rewrite H0, H1.
Qed.

Lemma qsgn_abs x : qsgn x * Qabs x == x.
Proof.
  destruct (Qlt_le_dec 0 x).
  - rewrite qsgn_pos, Qabs_pos by lra. lra.
  - destruct (Qlt_le_dec x 0).
    + rewrite qsgn_neg, Qabs_neg by lra. lra.
    + rewrite qsgn_zero by lra. lra.
Qed.

(* ------------------------------------------------------------------ searchsorted *)

Lemma ss_le_length es a : (ss es a <= length es)%nat.
Proof. induction es; simpl; [lia|]. destruct (qltb a0 a); simpl; lia. Qed.

Lemma ss_prefix es a i : (i < ss es a)%nat -> nth i es 0 < a.
Proof.
  revert i. induction es; simpl; intros i H; [lia|].
  destruct (qltb a0 a) eqn:E; [|lia].
  destruct i; [now apply qltb_lt|]. apply IHes. lia.
Qed.

Lemma ss_stop es a : (ss es a < length es)%nat -> a <= nth (ss es a) es 0.
Proof.
  induction es; simpl; intros H; [lia|].
  destruct (qltb a0 a) eqn:E.
  - apply IHes. lia.
  - now apply qltb_ge.
Qed.

(* the prefix count is determined by "everything before is smaller, the entry at p is not" *)
Lemma ss_unique es a p :
  (p <= length es)%nat -> (forall i, (i < p)%nat -> nth i es 0 < a) ->
  ((p < length es)%nat -> a <= nth p es 0) -> ss es a = p.
Proof.
  revert p. induction es; simpl; intros p Hp Hlt Hge.
  - lia.
  - destruct (qltb a0 a) eqn:E.
    + destruct p.
      * apply qltb_lt in E. assert (a <= a0) by (apply Hge; lia). lra.
      * f_equal. apply IHes; [lia| |].
        -- intros i Hi. apply (Hlt (S i)). lia.
        -- intro H. apply Hge. lia.
    + destruct p; auto. apply qltb_ge in E. assert (a0 < a) by (apply (Hlt O); lia). lra.
Qed.

Definition ascending (es : list Q) : Prop :=
  forall i j, (i <= j < length es)%nat -> nth i es 0 <= nth j es 0.

(* numpy's contract for searchsorted(side='left') on an ascending array:
   es[i-1] < a <= es[i], i.e. everything before the result is < a, everything from it on is >= a *)
Theorem ss_is_searchsorted_left es a :
  ascending es ->
  (ss es a <= length es)%nat /\
  (forall i, (i < ss es a)%nat -> nth i es 0 < a) /\
  (forall j, (ss es a <= j < length es)%nat -> a <= nth j es 0).
Proof.
  intro Hs. split; [apply ss_le_length|]. split; [apply ss_prefix|].
  intros j Hj. apply Qle_trans with (nth (ss es a) es 0).
  - apply ss_stop. lia.
  - apply Hs. lia.
Qed.

(* ------------------------------------------------------------------ the grid *)

Lemma edges_length Lmax n m : length (edges Lmax n m) = m.
Proof. unfold edges. now rewrite map_length, seq_length. Qed.

Lemma edges_nth Lmax n m i : (i < m)%nat -> nth i (edges Lmax n m) 0 = edge Lmax n (S i).
Proof.
  intro H. unfold edges.
  rewrite nth_indep with (d' := edge Lmax n 0) by (now rewrite map_length, seq_length).
  rewrite (map_nth (edge Lmax n)). now rewrite seq_nth.
Qed.

Lemma table_length v Lmax n m : length (table v Lmax n m) = m.
Proof. unfold table. now rewrite map_length, edges_length. Qed.

Lemma table_fst v Lmax n m : map fst (table v Lmax n m) = edges Lmax n m.
Proof. unfold table. rewrite map_map. simpl. apply map_id. Qed.

Lemma table_nth v Lmax n m i :
  (i < m)%nat -> nth i (table v Lmax n m) (0, 0) = (edge Lmax n (S i), v (edge Lmax n (S i))).
Proof.
  intro H. unfold table.
  rewrite nth_indep with (d' := (fun e => (e, v e)) 0) by (now rewrite map_length, edges_length).
  rewrite (map_nth (fun e => (e, v e))). now rewrite edges_nth.
Qed.

(* class width *)
Definition width (Lmax : Q) (n : positive) : Q := Lmax / inject_Z (Zpos n).

Lemma npos (n : positive) : 0 < inject_Z (Zpos n).
Proof. unfold Qlt. simpl. lia. Qed.

Lemma width_pos Lmax n : 0 < Lmax -> 0 < width Lmax n.
Proof.
  intro H. unfold width. apply Qlt_shift_div_l; [apply npos | lra].
Qed.

Lemma edge_width Lmax n k : edge Lmax n k == inject_Z (Z.of_nat k) * width Lmax n.
Proof.
  unfold edge, width. pose proof (npos n). field. lra.
Qed.

Lemma edge_lt Lmax n j k : 0 < Lmax -> (j < k)%nat -> edge Lmax n j < edge Lmax n k.
Proof.
  intros HL H. rewrite !edge_width. pose proof (width_pos Lmax n HL).
  assert (inject_Z (Z.of_nat j) < inject_Z (Z.of_nat k)) by (rewrite <- Zlt_Qlt; lia).
  nra.
Qed.

Lemma edge_le Lmax n j k : 0 < Lmax -> (j <= k)%nat -> edge Lmax n j <= edge Lmax n k.
Proof.
  intros HL H. destruct (Nat.eq_dec j k) as [->|]; [lra|].
  apply Qlt_le_weak, edge_lt; auto. lia.
Qed.

Lemma edge_pos Lmax n k : 0 < Lmax -> (1 <= k)%nat -> 0 < edge Lmax n k.
Proof.
  intros HL H. rewrite edge_width. pose proof (width_pos Lmax n HL).
  assert (inject_Z 0 < inject_Z (Z.of_nat k)) by (rewrite <- Zlt_Qlt; lia).
  change (inject_Z 0) with 0 in H1. nra.
Qed.

(* the top edge of the primary table is the maximum load, of the secondary table twice the maximum load *)
Lemma edge_top_primary Lmax n : edge Lmax n (Pos.to_nat n) == Lmax.
Proof.
  unfold edge. rewrite positive_nat_Z. pose proof (npos n). field. lra.
Qed.

Lemma edge_top_secondary Lmax n : edge Lmax n (2 * Pos.to_nat n) == 2 * Lmax.
Proof.
  rewrite edge_width. unfold width.
  replace (Z.of_nat (2 * Pos.to_nat n)) with (2 * Zpos n)%Z by lia.
  rewrite inject_Z_mult. pose proof (npos n). change (inject_Z 2) with 2. field. lra.
Qed.

Lemma edges_ascending Lmax n m : 0 < Lmax -> ascending (edges Lmax n m).
Proof.
  intros HL i j H. rewrite edges_length in H. rewrite !edges_nth by lia. apply edge_le; auto. lia.
Qed.

(* ------------------------------------------------------------------ the class of a load *)

Definition xq (Lmax : Q) (n : positive) (a : Q) : Q := a * inject_Z (Zpos n) / Lmax.

Lemma xq_width Lmax n a : 0 < Lmax -> xq Lmax n a * width Lmax n == a.
Proof. intro H. unfold xq, width. pose proof (npos n). field. lra. Qed.

Lemma kcls_ge1 Lmax n a : (1 <= kcls Lmax n a)%nat.
Proof. unfold kcls. lia. Qed.

(* a <= edge (kcls a) *)
Lemma kcls_upper Lmax n a : 0 < Lmax -> a <= edge Lmax n (kcls Lmax n a).
Proof.
  intro HL. rewrite edge_width. unfold kcls. fold (xq Lmax n a).
  rewrite Z2Nat.id by lia.
  pose proof (Qle_ceiling (xq Lmax n a)) as Hc.
  assert (inject_Z (Qceiling (xq Lmax n a)) <= inject_Z (Z.max 1 (Qceiling (xq Lmax n a))))
    by (rewrite <- Zle_Qle; lia).
  pose proof (width_pos Lmax n HL). pose proof (xq_width Lmax n a HL). nra.
Qed.

(* every lower class edge is strictly below a *)
Lemma kcls_lower Lmax n a j : 0 < Lmax -> (1 <= j < kcls Lmax n a)%nat -> edge Lmax n j < a.
Proof.
  intros HL Hj. rewrite edge_width. unfold kcls in Hj. fold (xq Lmax n a) in Hj.
  pose proof (Qceiling_lt (xq Lmax n a)) as Hc.
  assert (inject_Z (Z.of_nat j) <= inject_Z (Qceiling (xq Lmax n a) - 1)) by (rewrite <- Zle_Qle; lia).
  pose proof (width_pos Lmax n HL). pose proof (xq_width Lmax n a HL). nra.
Qed.

(* in range: the class does not exceed the number of classes *)
Lemma kcls_in_range Lmax n m a :
  0 < Lmax -> (1 <= m)%nat -> a <= edge Lmax n m -> (kcls Lmax n a <= m)%nat.
Proof.
  intros HL Hm Ha. unfold kcls. fold (xq Lmax n a).
  assert (xq Lmax n a <= inject_Z (Z.of_nat m)).
  { rewrite edge_width in Ha. pose proof (width_pos Lmax n HL). pose proof (xq_width Lmax n a HL). nra. }
  apply Qceiling_resp_le in H. rewrite Qceiling_Z in H. lia.
Qed.

Lemma kcls_mono Lmax n a b : 0 < Lmax -> a <= b -> (kcls Lmax n a <= kcls Lmax n b)%nat.
Proof.
  intros HL H. unfold kcls. fold (xq Lmax n a) (xq Lmax n b).
  assert (xq Lmax n a <= xq Lmax n b).
  { pose proof (width_pos Lmax n HL). pose proof (xq_width Lmax n a HL). pose proof (xq_width Lmax n b HL).
    nra. }
  apply Qceiling_resp_le in H0. lia.
Qed.

Lemma kcls_edge Lmax n k a : 0 < Lmax -> (1 <= k)%nat -> a == edge Lmax n k -> kcls Lmax n a = k.
Proof.
  intros HL Hk Ha. unfold kcls.
  assert (a * inject_Z (Z.pos n) / Lmax == inject_Z (Z.of_nat k)) as ->.
  { rewrite Ha. unfold edge. pose proof (npos n). field. lra. }
  rewrite Qceiling_Z. lia.
Qed.

(* the class selected by the binary search *)
Lemma ss_edges Lmax n m a :
  0 < Lmax -> (1 <= m)%nat -> a <= edge Lmax n m ->
  ss (edges Lmax n m) a = (kcls Lmax n a - 1)%nat.
Proof.
  intros HL Hm Ha. pose proof (kcls_in_range Lmax n m a HL Hm Ha). pose proof (kcls_ge1 Lmax n a).
  apply ss_unique.
  - rewrite edges_length. lia.
  - intros i Hi. rewrite edges_nth by lia. apply kcls_lower; auto. lia.
  - intros _. rewrite edges_nth by lia. replace (S (kcls Lmax n a - 1)) with (kcls Lmax n a) by lia.
    now apply kcls_upper.
Qed.

Lemma ss_edges_above Lmax n m a :
  0 < Lmax -> edge Lmax n m < a -> ss (edges Lmax n m) a = m.
Proof.
  intros HL Ha. apply ss_unique.
  - rewrite edges_length. lia.
  - intros i Hi. rewrite edges_nth by lia. apply Qle_lt_trans with (edge Lmax n m); auto. apply edge_le; auto.
  - rewrite edges_length. lia.
Qed.

(* ------------------------------------------------------------------ the property *)

Section Law.
  Variable v : Q -> Q.
  Variable Lmax : Q.
  Variable n : positive.
  Variable m : nat.
  Hypothesis HL : 0 < Lmax.
  Hypothesis Hm : (1 <= m)%nat.

  (* the look-up returns the tabulated law at the upper edge of the load's class, with the sign of the load *)
  Theorem lookup_is_upper_edge L :
    Qabs L <= edge Lmax n m ->
    binned v Lmax n m L = Val (qsgn L * v (edge Lmax n (kcls Lmax n (Qabs L)))).
  Proof.
    intro Ha. unfold binned, lookup. rewrite table_fst, table_length.
    rewrite (ss_edges Lmax n m (Qabs L) HL Hm Ha).
    pose proof (kcls_in_range Lmax n m (Qabs L) HL Hm Ha). pose proof (kcls_ge1 Lmax n (Qabs L)).
    destruct (Nat.leb_spec m (kcls Lmax n (Qabs L) - 1)); [lia|].
    rewrite table_nth by lia. simpl.
    now replace (S (kcls Lmax n (Qabs L) - 1)) with (kcls Lmax n (Qabs L)) by lia.
  Qed.

  (* what "upper edge of the load's class" means: the selected edge is the least edge >= |L| *)
  Theorem selected_edge_is_least_upper L :
    Qabs L <= edge Lmax n m ->
    let k := kcls Lmax n (Qabs L) in
    (1 <= k <= m)%nat /\ Qabs L <= edge Lmax n k /\ forall j, (1 <= j < k)%nat -> edge Lmax n j < Qabs L.
  Proof.
    intro Ha. simpl. repeat split.
    - apply kcls_ge1.
    - now apply kcls_in_range.
    - now apply kcls_upper.
    - intros j Hj. now apply kcls_lower.
  Qed.

  (* a load exactly on a class edge belongs to the class below the edge (not the next one) *)
  Theorem edge_hits_own_class L k :
    (1 <= k <= m)%nat -> Qabs L == edge Lmax n k ->
    binned v Lmax n m L = Val (qsgn L * v (edge Lmax n k)).
  Proof.
    intros Hk He. rewrite lookup_is_upper_edge.
    - now rewrite (kcls_edge Lmax n k (Qabs L) HL) by (lia || auto).
    - rewrite He. apply edge_le; auto. lia.
  Qed.

  (* just above an edge (and up to the next one) the next class is used *)
  Theorem above_edge_hits_next_class L k :
    (1 <= k < m)%nat -> edge Lmax n k < Qabs L <= edge Lmax n (S k) ->
    binned v Lmax n m L = Val (qsgn L * v (edge Lmax n (S k))).
  Proof.
    intros Hk [H1 H2]. rewrite lookup_is_upper_edge.
    - f_equal. f_equal. f_equal. f_equal.
      assert (kcls Lmax n (Qabs L) <= S k)%nat.
      { rewrite <- (kcls_edge Lmax n (S k) (edge Lmax n (S k)) HL) by (lia || reflexivity).
        now apply kcls_mono. }
      destruct (Nat.eq_dec (kcls Lmax n (Qabs L)) (S k)); auto.
      pose proof (kcls_upper Lmax n (Qabs L) HL).
      assert (edge Lmax n (kcls Lmax n (Qabs L)) <= edge Lmax n k) by (apply edge_le; auto; lia).
      lra.
    - apply Qle_trans with (edge Lmax n (S k)); auto. apply edge_le; auto. lia.
  Qed.

  (* zero load gives zero (class 1, sign 0) *)
  Theorem zero_load_is_zero L :
    L == 0 -> exists q, binned v Lmax n m L = Val q /\ q == 0.
  Proof.
    intro H0. eexists. split.
    - apply lookup_is_upper_edge. rewrite H0. simpl. apply Qlt_le_weak, edge_pos; auto.
    - rewrite (qsgn_zero L H0). lra.
  Qed.

  (* the range guard: a value exactly for |L| <= top edge, an error (never a value) above *)
  Theorem out_of_range_errors L :
    edge Lmax n m < Qabs L -> binned v Lmax n m L = Err.
  Proof.
    intro Ha. unfold binned, lookup. rewrite table_fst, table_length.
    rewrite (ss_edges_above Lmax n m (Qabs L) HL Ha). now rewrite Nat.leb_refl.
  Qed.

  Theorem in_range_returns_value L :
    Qabs L <= edge Lmax n m -> exists q, binned v Lmax n m L = Val q.
  Proof. intro Ha. eexists. now apply lookup_is_upper_edge. Qed.

  Theorem value_iff_in_range L :
    (exists q, binned v Lmax n m L = Val q) <-> Qabs L <= edge Lmax n m.
  Proof.
    split.
    - intros [q Hq]. destruct (Qlt_le_dec (edge Lmax n m) (Qabs L)); auto.
      rewrite out_of_range_errors in Hq by auto. discriminate.
    - apply in_range_returns_value.
  Qed.

  (* the selected edge is less than one class width above the load *)
  Theorem within_one_class L :
    0 < Qabs L <= edge Lmax n m ->
    let e := edge Lmax n (kcls Lmax n (Qabs L)) in
    Qabs L <= e /\ e < Qabs L + width Lmax n.
  Proof.
    intros [Hp Ha]. simpl. split; [now apply kcls_upper|].
    rewrite edge_width. unfold kcls. fold (xq Lmax n (Qabs L)).
    pose proof (width_pos Lmax n HL) as Hw. pose proof (xq_width Lmax n (Qabs L) HL) as Hx.
    assert (0 < xq Lmax n (Qabs L)) by nra.
    assert (1 <= Qceiling (xq Lmax n (Qabs L)))%Z.
    { pose proof (Qle_ceiling (xq Lmax n (Qabs L))).
      assert (inject_Z 0 < inject_Z (Qceiling (xq Lmax n (Qabs L)))) by (change (inject_Z 0) with 0; lra).
      rewrite <- Zlt_Qlt in H1. lia. }
    rewrite Z2Nat.id by lia. rewrite Z.max_r by lia.
    pose proof (Qceiling_lt (xq Lmax n (Qabs L))) as Hc.
    unfold Zminus in Hc. rewrite inject_Z_plus in Hc. change (inject_Z (- (1))%Z) with (- (1)) in Hc.
    apply (Qmult_lt_r _ _ _ Hw) in Hc. lra.
  Qed.

  (* --- consequences for a non-negative, non-decreasing tabulated law --- *)
  Hypothesis v_nonneg : forall x, 0 <= x -> 0 <= v x.
  Hypothesis v_mono : forall x y, 0 <= x -> x <= y -> v x <= v y.

  (* the magnitude is never under-estimated w.r.t. the exact (odd) law  sgn L * v |L| *)
  Theorem never_underestimates L q :
    binned v Lmax n m L = Val q -> Qabs (qsgn L * v (Qabs L)) <= Qabs q.
  Proof.
    intro Hq. assert (Ha : Qabs L <= edge Lmax n m) by (apply value_iff_in_range; eauto).
    rewrite lookup_is_upper_edge in Hq by auto. injection Hq as <-.
    rewrite !Qabs_Qmult.
    pose proof (Qabs_nonneg L). pose proof (kcls_upper Lmax n (Qabs L) HL).
    pose proof (v_mono _ _ H H0). pose proof (v_nonneg _ H).
    rewrite (Qabs_pos (v (Qabs L))) by auto.
    rewrite (Qabs_pos (v (edge Lmax n (kcls Lmax n (Qabs L))))) by lra.
    pose proof (Qabs_nonneg (qsgn L)). nra.
  Qed.

  (* ... and over-estimated by less than one class:  |q| <= v (|L| + width) *)
  Theorem within_one_class_value L q :
    ~ L == 0 -> binned v Lmax n m L = Val q ->
    v (Qabs L) <= Qabs q /\ Qabs q <= v (Qabs L + width Lmax n).
  Proof.
    intros Hnz Hq. assert (Ha : Qabs L <= edge Lmax n m) by (apply value_iff_in_range; eauto).
    rewrite lookup_is_upper_edge in Hq by auto. injection Hq as <-.
    assert (Hp : 0 < Qabs L).
    { pose proof (Qabs_nonneg L). destruct (Qeq_dec (Qabs L) 0) as [E|E]; [|lra].
      exfalso. apply Hnz. revert E. apply Qabs_case; intros; lra. }
    destruct (within_one_class L (conj Hp Ha)) as [H1 H2].
    assert (Qabs (qsgn L) == 1) as Hs.
    { destruct (Qlt_le_dec 0 L).
      - now rewrite qsgn_pos.
      - rewrite qsgn_neg; [reflexivity|]. destruct (Qeq_dec L 0); [contradiction|lra]. }
    rewrite Qabs_Qmult, Hs, Qmult_1_l.
    assert (0 <= edge Lmax n (kcls Lmax n (Qabs L))) by lra.
    rewrite (Qabs_pos _ (v_nonneg _ H)).
    split; apply v_mono; lra.
  Qed.

  (* the binned law is monotone in the load *)
  Theorem monotone L1 L2 q1 q2 :
    L1 <= L2 -> binned v Lmax n m L1 = Val q1 -> binned v Lmax n m L2 = Val q2 -> q1 <= q2.
  Proof.
    intros Hle H1 H2.
    assert (Ha1 : Qabs L1 <= edge Lmax n m) by (apply value_iff_in_range; eauto).
    assert (Ha2 : Qabs L2 <= edge Lmax n m) by (apply value_iff_in_range; eauto).
    rewrite lookup_is_upper_edge in H1, H2 by auto. injection H1 as <-. injection H2 as <-.
    set (e1 := edge Lmax n (kcls Lmax n (Qabs L1))). set (e2 := edge Lmax n (kcls Lmax n (Qabs L2))).
    assert (P1 : 0 < e1) by (apply edge_pos; auto; apply kcls_ge1).
    assert (P2 : 0 < e2) by (apply edge_pos; auto; apply kcls_ge1).
    assert (V1 : 0 <= v e1) by (apply v_nonneg; lra).
    assert (V2 : 0 <= v e2) by (apply v_nonneg; lra).
    destruct (Qlt_le_dec 0 L1) as [p1|np1].
    - (* 0 < L1 <= L2 *)
      rewrite (qsgn_pos L1), (qsgn_pos L2) by lra.
      assert (v e1 <= v e2); [|lra].
      apply v_mono; [lra|]. apply edge_le; auto. apply kcls_mono; auto.
      rewrite !Qabs_pos by lra. auto.
    - destruct (Qlt_le_dec 0 L2) as [p2|np2].
      + (* L1 <= 0 < L2 *)
        rewrite (qsgn_pos L2) by auto.
        destruct (Qlt_le_dec L1 0); [rewrite qsgn_neg by auto | rewrite qsgn_zero by lra]; lra.
      + (* L1 <= L2 <= 0 *)
        destruct (Qlt_le_dec L2 0) as [n2|z2].
        * rewrite (qsgn_neg L1), (qsgn_neg L2) by lra.
          assert (v e2 <= v e1); [|lra].
          apply v_mono; [lra|]. apply edge_le; auto. apply kcls_mono; auto.
          rewrite !Qabs_neg by lra. lra.
        * rewrite (qsgn_zero L2) by lra.
          destruct (Qlt_le_dec L1 0); [rewrite qsgn_neg by auto | rewrite qsgn_zero by lra]; lra.
  Qed.
End Law.

(* the two tables of the implementation: n classes up to Lmax, 2 n classes up to 2 Lmax *)
Theorem primary_range v Lmax n L : 0 < Lmax ->
  (Qabs L <= Lmax -> exists q, binned v Lmax n (Pos.to_nat n) L = Val q) /\
  (Lmax < Qabs L -> binned v Lmax n (Pos.to_nat n) L = Err).
Proof.
  intro HL. assert (1 <= Pos.to_nat n)%nat by lia. split; intro H0.
  - apply in_range_returns_value; auto. now rewrite edge_top_primary.
  - apply out_of_range_errors; auto. now rewrite edge_top_primary.
Qed.

Theorem secondary_range v Lmax n L : 0 < Lmax ->
  (Qabs L <= 2 * Lmax -> exists q, binned v Lmax n (2 * Pos.to_nat n) L = Val q) /\
  (2 * Lmax < Qabs L -> binned v Lmax n (2 * Pos.to_nat n) L = Err).
Proof.
  intro HL. assert (1 <= 2 * Pos.to_nat n)%nat by lia. split; intro H0.
  - apply in_range_returns_value; auto. now rewrite edge_top_secondary.
  - apply out_of_range_errors; auto. now rewrite edge_top_secondary.
Qed.
