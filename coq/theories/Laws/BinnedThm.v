(* C07 -- theorems about the model PL.Laws.Binned (all over Q, closed under the global context). *)
From Coq Require Import QArith Qabs Qround List Bool Arith Lia Lqa ZArith.
From PL Require Import Laws.Binned.
Import ListNotations.
Open Scope Q_scope.

(* ------------------------------------------------------------------ basics *)

Lemma qltb_lt x y : qltb x y = true <-> x < y.
Proof.
  unfold qltb. rewrite negb_true_iff. split; intro H.
  - apply Qnot_le_lt. intro C. apply Qle_bool_iff in C. congruence.
  - destruct (Qle_bool y x) eqn:E; auto. apply Qle_bool_iff in E. exfalso. apply (Qlt_not_le _ _ H E).
Qed.

Lemma qltb_ge x y : qltb x y = false <-> y <= x.
Proof.
  unfold qltb. rewrite negb_false_iff. apply Qle_bool_iff.
Qed.

Lemma qsgn_pos x : 0 < x -> qsgn x = 1.
Proof. intro H. unfold qsgn. apply qltb_lt in H. now rewrite H. Qed.

Lemma qsgn_neg x : x < 0 -> qsgn x = -1.
Proof.
  intro H. unfold qsgn. assert (qltb 0 x = false) by (apply qltb_ge; lra).
  apply qltb_lt in H. now rewrite H0, H.
Qed.

Lemma qsgn_zero x : x == 0 -> qsgn x = 0.
Proof.
  intro H. unfold qsgn. assert (qltb 0 x = false) by (apply qltb_ge; lra).
  assert (qltb x 0 = false) by (apply qltb_ge; lra). now rewrite H0, H1.
Qed.

Lemma qsgn_abs x : qsgn x * Qabs x == x.
Proof.
  destruct (Qlt_le_dec 0 x).
  - rewrite qsgn_pos, Qabs_pos by lra. lra.
  - destruct (Qlt_le_dec x 0).
    + rewrite qsgn_neg, Qabs_neg by lra. lra.
    + rewrite qsgn_zero by lra. lra.
Qed.

(* ------------------------------------------------------------------ searchsorted *)

Lemma ss_le_length es a : (ss es a <= length es)%nat.
Proof. induction es; simpl; [lia|]. destruct (qltb a0 a); simpl; lia. Qed.

Lemma ss_prefix es a i : (i < ss es a)%nat -> nth i es 0 < a.
Proof.
  revert i. induction es; simpl; intros i H; [lia|].
  destruct (qltb a0 a) eqn:E; [|lia].
  destruct i; [now apply qltb_lt|]. apply IHes. lia.
Qed.

Lemma ss_stop es a : (ss es a < length es)%nat -> a <= nth (ss es a) es 0.
Proof.
  induction es; simpl; intros H; [lia|].
  destruct (qltb a0 a) eqn:E.
  - apply IHes. lia.
  - now apply qltb_ge.
Qed.

(* the prefix count is determined by "everything before is smaller, the entry at p is not" *)
Lemma ss_unique es a p :
  (p <= length es)%nat -> (forall i, (i < p)%nat -> nth i es 0 < a) ->
  ((p < length es)%nat -> a <= nth p es 0) -> ss es a = p.
Proof.
  revert p. induction es; simpl; intros p Hp Hlt Hge.
  - lia.
  - destruct (qltb a0 a) eqn:E.
    + destruct p.
      * apply qltb_lt in E. assert (a <= a0) by (apply Hge; lia). lra.
      * f_equal. apply IHes; [lia| |].
        -- intros i Hi. apply (Hlt (S i)). lia.
        -- intro H. apply Hge. lia.
    + destruct p; auto. apply qltb_ge in E. assert (a0 < a) by (apply (Hlt O); lia). lra.
Qed.

Definition ascending (es : list Q) : Prop :=
  forall i j, (i <= j < length es)%nat -> nth i es 0 <= nth j es 0.

(* numpy's contract for searchsorted(side='left') on an ascending array:
   es[i-1] < a <= es[i], i.e. everything before the result is < a, everything from it on is >= a *)
Theorem ss_is_searchsorted_left es a :
  ascending es ->
  (ss es a <= length es)%nat /\
  (forall i, (i < ss es a)%nat -> nth i es 0 < a) /\
  (forall j, (ss es a <= j < length es)%nat -> a <= nth j es 0).
Proof.
  intro Hs. split; [apply ss_le_length|]. split; [apply ss_prefix|].
  intros j Hj. apply Qle_trans with (nth (ss es a) es 0).
  - apply ss_stop. lia.
  - apply Hs. lia.
Qed.

(* ------------------------------------------------------------------ the grid *)

Lemma edges_length Lmax n m : length (edges Lmax n m) = m.
Proof. unfold edges. now rewrite map_length, seq_length. Qed.

Lemma edges_nth Lmax n m i : (i < m)%nat -> nth i (edges Lmax n m) 0 = edge Lmax n (S i).
Proof.
  intro H. unfold edges.
  rewrite nth_indep with (d' := edge Lmax n 0) by (now rewrite map_length, seq_length).
  rewrite (map_nth (edge Lmax n)). now rewrite seq_nth.
Qed.

Lemma table_length v Lmax n m : length (table v Lmax n m) = m.
Proof. unfold table. now rewrite map_length, edges_length. Qed.

Lemma table_fst v Lmax n m : map fst (table v Lmax n m) = edges Lmax n m.
Proof. unfold table. rewrite map_map. simpl. apply map_id. Qed.

Lemma table_nth v Lmax n m i :
  (i < m)%nat -> nth i (table v Lmax n m) (0, 0) = (edge Lmax n (S i), v (edge Lmax n (S i))).
Proof.
  intro H. unfold table.
  rewrite nth_indep with (d' := (fun e => (e, v e)) 0) by (now rewrite map_length, edges_length).
  rewrite (map_nth (fun e => (e, v e))). now rewrite edges_nth.
Qed.

(* class width *)
Definition width (Lmax : Q) (n : positive) : Q := Lmax / inject_Z (Zpos n).

Lemma npos (n : positive) : 0 < inject_Z (Zpos n).
Proof. unfold Qlt. simpl. lia. Qed.

Lemma width_pos Lmax n : 0 < Lmax -> 0 < width Lmax n.
Proof.
  intro H. unfold width. apply Qlt_shift_div_l; [apply npos | lra].
Qed.

Lemma edge_width Lmax n k : edge Lmax n k == inject_Z (Z.of_nat k) * width Lmax n.
Proof.
  unfold edge, width. pose proof (npos n). field. lra.
Qed.

Lemma edge_lt Lmax n j k : 0 < Lmax -> (j < k)%nat -> edge Lmax n j < edge Lmax n k.
Proof.
  intros HL H. rewrite !edge_width. pose proof (width_pos Lmax n HL).
  assert (inject_Z (Z.of_nat j) < inject_Z (Z.of_nat k)) by (rewrite <- Zlt_Qlt; lia).
  nra.
Qed.

Lemma edge_le Lmax n j k : 0 < Lmax -> (j <= k)%nat -> edge Lmax n j <= edge Lmax n k.
Proof.
  intros HL H. destruct (Nat.eq_dec j k) as [->|]; [lra|].
  apply Qlt_le_weak, edge_lt; auto. lia.
Qed.

Lemma edge_pos Lmax n k : 0 < Lmax -> (1 <= k)%nat -> 0 < edge Lmax n k.
Proof.
  intros HL H. rewrite edge_width. pose proof (width_pos Lmax n HL).
  assert (inject_Z 0 < inject_Z (Z.of_nat k)) by (rewrite <- Zlt_Qlt; lia).
  change (inject_Z 0) with 0 in H1. nra.
Qed.

(* the top edge of the primary table is the maximum load, of the secondary table twice the maximum load *)
Lemma edge_top_primary Lmax n : edge Lmax n (Pos.to_nat n) == Lmax.
Proof.
  unfold edge. rewrite positive_nat_Z. pose proof (npos n). field. lra.
Qed.

Lemma edge_top_secondary Lmax n : edge Lmax n (2 * Pos.to_nat n) == 2 * Lmax.
Proof.
  rewrite edge_width. unfold width.
  replace (Z.of_nat (2 * Pos.to_nat n)) with (2 * Zpos n)%Z by lia.
  rewrite inject_Z_mult. pose proof (npos n). change (inject_Z 2) with 2. field. lra.
Qed.

Lemma edges_ascending Lmax n m : 0 < Lmax -> ascending (edges Lmax n m).
Proof.
  intros HL i j H. rewrite edges_length in H. rewrite !edges_nth by lia. apply edge_le; auto. lia.
Qed.

(* ------------------------------------------------------------------ the class of a load *)

Definition xq (Lmax : Q) (n : positive) (a : Q) : Q := a * inject_Z (Zpos n) / Lmax.

Lemma xq_width Lmax n a : 0 < Lmax -> xq Lmax n a * width Lmax n == a.
Proof. intro H. unfold xq, width. pose proof (npos n). field. lra. Qed.

Lemma kcls_ge1 Lmax n a : (1 <= kcls Lmax n a)%nat.
Proof. unfold kcls. lia. Qed.

(* a <= edge (kcls a) *)
Lemma kcls_upper Lmax n a : 0 < Lmax -> a <= edge Lmax n (kcls Lmax n a).
Proof.
  intro HL. rewrite edge_width. unfold kcls. fold (xq Lmax n a).
  rewrite Z2Nat.id by lia.
  pose proof (Qle_ceiling (xq Lmax n a)) as Hc.
  assert (inject_Z (Qceiling (xq Lmax n a)) <= inject_Z (Z.max 1 (Qceiling (xq Lmax n a))))
    by (rewrite <- Zle_Qle; lia).
  pose proof (width_pos Lmax n HL). pose proof (xq_width Lmax n a HL). nra.
Qed.

(* every lower class edge is strictly below a *)
Lemma kcls_lower Lmax n a j : 0 < Lmax -> (1 <= j < kcls Lmax n a)%nat -> edge Lmax n j < a.
Proof.
  intros HL Hj. rewrite edge_width. unfold kcls in Hj. fold (xq Lmax n a) in Hj.
  pose proof (Qceiling_lt (xq Lmax n a)) as Hc.
  assert (inject_Z (Z.of_nat j) <= inject_Z (Qceiling (xq Lmax n a) - 1)) by (rewrite <- Zle_Qle; lia).
  pose proof (width_pos Lmax n HL). pose proof (xq_width Lmax n a HL). nra.
Qed.

(* in range: the class does not exceed the number of classes *)
Lemma kcls_in_range Lmax n m a :
  0 < Lmax -> (1 <= m)%nat -> a <= edge Lmax n m -> (kcls Lmax n a <= m)%nat.
Proof.
  intros HL Hm Ha. unfold kcls. fold (xq Lmax n a).
  assert (xq Lmax n a <= inject_Z (Z.of_nat m)).
  { rewrite edge_width in Ha. pose proof (width_pos Lmax n HL). pose proof (xq_width Lmax n a HL). nra. }
  apply Qceiling_resp_le in H. rewrite Qceiling_Z in H. lia.
Qed.

Lemma kcls_mono Lmax n a b : 0 < Lmax -> a <= b -> (kcls Lmax n a <= kcls Lmax n b)%nat.
Proof.
  intros HL H. unfold kcls. fold (xq Lmax n a) (xq Lmax n b).
  assert (xq Lmax n a <= xq Lmax n b).
  { pose proof (width_pos Lmax n HL). pose proof (xq_width Lmax n a HL). pose proof (xq_width Lmax n b HL).
    nra. }
  apply Qceiling_resp_le in H0. lia.
Qed.

Lemma kcls_edge Lmax n k a : 0 < Lmax -> (1 <= k)%nat -> a == edge Lmax n k -> kcls Lmax n a = k.
Proof.
  intros HL Hk Ha. unfold kcls.
  assert (a * inject_Z (Z.pos n) / Lmax == inject_Z (Z.of_nat k)) as ->.
  { rewrite Ha. unfold edge. pose proof (npos n). field. lra. }
  rewrite Qceiling_Z. lia.
Qed.

(* the class selected by the binary search *)
Lemma ss_edges Lmax n m a :
  0 < Lmax -> (1 <= m)%nat -> a <= edge Lmax n m ->
  ss (edges Lmax n m) a = (kcls Lmax n a - 1)%nat.
Proof.
  intros HL Hm Ha. pose proof (kcls_in_range Lmax n m a HL Hm Ha). pose proof (kcls_ge1 Lmax n a).
  apply ss_unique.
  - rewrite edges_length. lia.
  - intros i Hi. rewrite edges_nth by lia. apply kcls_lower; auto. lia.
  - intros _. rewrite edges_nth by lia. replace (S (kcls Lmax n a - 1)) with (kcls Lmax n a) by lia.
    now apply kcls_upper.
Qed.

Lemma ss_edges_above Lmax n m a :
  0 < Lmax -> edge Lmax n m < a -> ss (edges Lmax n m) a = m.
Proof.
  intros HL Ha. apply ss_unique.
  - rewrite edges_length. lia.
  - intros i Hi. rewrite edges_nth by lia. apply Qle_lt_trans with (edge Lmax n m); auto. apply edge_le; auto.
  - rewrite edges_length. lia.
Qed.

(* ------------------------------------------------------------------ the property *)

Section Law.
  Variable v : Q -> Q.
  Variable Lmax : Q.
  Variable n : positive.
  Variable m : nat.
  Hypothesis HL : 0 < Lmax.
  Hypothesis Hm : (1 <= m)%nat.

  (* the look-up returns the tabulated law at the upper edge of the load's class, with the sign of the load *)
  Theorem lookup_is_upper_edge L :
    Qabs L <= edge Lmax n m ->
    binned v Lmax n m L = Val (qsgn L * v (edge Lmax n (kcls Lmax n (Qabs L)))).
  Proof.
    intro Ha. unfold binned, lookup. rewrite table_fst, table_length.
    rewrite (ss_edges Lmax n m (Qabs L) HL Hm Ha).
    pose proof (kcls_in_range Lmax n m (Qabs L) HL Hm Ha). pose proof (kcls_ge1 Lmax n (Qabs L)).
    destruct (Nat.leb_spec m (kcls Lmax n (Qabs L) - 1)); [lia|].
    rewrite table_nth by lia. simpl.
    now replace (S (kcls Lmax n (Qabs L) - 1)) with (kcls Lmax n (Qabs L)) by lia.
  Qed.

  (* what "upper edge of the load's class" means: the selected edge is the least edge >= |L| *)
  Theorem selected_edge_is_least_upper L :
    Qabs L <= edge Lmax n m ->
    let k := kcls Lmax n (Qabs L) in
    (1 <= k <= m)%nat /\ Qabs L <= edge Lmax n k /\ forall j, (1 <= j < k)%nat -> edge Lmax n j < Qabs L.
  Proof.
    intro Ha. simpl. repeat split.
    - apply kcls_ge1.
    - now apply kcls_in_range.
    - now apply kcls_upper.
    - intros j Hj. now apply kcls_lower.
  Qed.

  (* a load exactly on a class edge belongs to the class below the edge (not the next one) *)
  Theorem edge_hits_own_class L k :
    (1 <= k <= m)%nat -> Qabs L == edge Lmax n k ->
    binned v Lmax n m L = Val (qsgn L * v (edge Lmax n k)).
  Proof.
    intros Hk He. rewrite lookup_is_upper_edge.
    - now rewrite (kcls_edge Lmax n k (Qabs L) HL) by (lia || auto).
    - rewrite He. apply edge_le; auto. lia.
  Qed.

  (* just above an edge (and up to the next one) the next class is used *)
  Theorem above_edge_hits_next_class L k :
    (1 <= k < m)%nat -> edge Lmax n k < Qabs L <= edge Lmax n (S k) ->
    binned v Lmax n m L = Val (qsgn L * v (edge Lmax n (S k))).
  Proof.
    intros Hk [H1 H2]. rewrite lookup_is_upper_edge.
    - f_equal. f_equal. f_equal. f_equal.
      assert (kcls Lmax n (Qabs L) <= S k)%nat.
      { rewrite <- (kcls_edge Lmax n (S k) (edge Lmax n (S k)) HL) by (lia || reflexivity).
        now apply kcls_mono. }
      destruct (Nat.eq_dec (kcls Lmax n (Qabs L)) (S k)); auto.
      pose proof (kcls_upper Lmax n (Qabs L) HL).
      assert (edge Lmax n (kcls Lmax n (Qabs L)) <= edge Lmax n k) by (apply edge_le; auto; lia).
      lra.
    - apply Qle_trans with (edge Lmax n (S k)); auto. apply edge_le; auto. lia.
  Qed.

  (* zero load gives zero (class 1, sign 0) *)
  Theorem zero_load_is_zero L :
    L == 0 -> exists q, binned v Lmax n m L = Val q /\ q == 0.
  Proof.
    intro H0. eexists. split.
    - apply lookup_is_upper_edge. rewrite H0. simpl. apply Qlt_le_weak, edge_pos; auto.
    - rewrite (qsgn_zero L H0). lra.
  Qed.

  (* the range guard: a value exactly for |L| <= top edge, an error (never a value) above *)
  Theorem out_of_range_errors L :
    edge Lmax n m < Qabs L -> binned v Lmax n m L = Err.
  Proof.
    intro Ha. unfold binned, lookup. rewrite table_fst, table_length.
    rewrite (ss_edges_above Lmax n m (Qabs L) HL Ha). now rewrite Nat.leb_refl.
  Qed.

  Theorem in_range_returns_value L :
    Qabs L <= edge Lmax n m -> exists q, binned v Lmax n m L = Val q.
  Proof. intro Ha. eexists. now apply lookup_is_upper_edge. Qed.

  Theorem value_iff_in_range L :
    (exists q, binned v Lmax n m L = Val q) <-> Qabs L <= edge Lmax n m.
  Proof.
    split.
    - intros [q Hq]. destruct (Qlt_le_dec (edge Lmax n m) (Qabs L)); auto.
      rewrite out_of_range_errors in Hq by auto. discriminate.
    - apply in_range_returns_value.
  Qed.

  (* the selected edge is less than one class width above the load *)
  Theorem within_one_class L :
    0 < Qabs L <= edge Lmax n m ->
    let e := edge Lmax n (kcls Lmax n (Qabs L)) in
    Qabs L <= e /\ e < Qabs L + width Lmax n.
  Proof.
    intros [Hp Ha]. simpl. split; [now apply kcls_upper|].
    rewrite edge_width. unfold kcls. fold (xq Lmax n (Qabs L)).
    pose proof (width_pos Lmax n HL) as Hw. pose proof (xq_width Lmax n (Qabs L) HL) as Hx.
    assert (0 < xq Lmax n (Qabs L)) by nra.
    assert (1 <= Qceiling (xq Lmax n (Qabs L)))%Z.
    { pose proof (Qle_ceiling (xq Lmax n (Qabs L))).
      assert (inject_Z 0 < inject_Z (Qceiling (xq Lmax n (Qabs L)))) by (change (inject_Z 0) with 0; lra).
      rewrite <- Zlt_Qlt in H1. lia. }
    rewrite Z2Nat.id by lia. rewrite Z.max_r by lia.
    pose proof (Qceiling_lt (xq Lmax n (Qabs L))) as Hc.
    unfold Zminus in Hc. rewrite inject_Z_plus in Hc. change (inject_Z (- (1))%Z) with (- (1)) in Hc.
    apply (Qmult_lt_r _ _ _ Hw) in Hc. lra.
  Qed.

  (* --- consequences for a non-negative, non-decreasing tabulated law --- *)
  Hypothesis v_nonneg : forall x, 0 <= x -> 0 <= v x.
  Hypothesis v_mono : forall x y, 0 <= x -> x <= y -> v x <= v y.

  (* the magnitude is never under-estimated w.r.t. the exact (odd) law  sgn L * v |L| *)
  Theorem never_underestimates L q :
    binned v Lmax n m L = Val q -> Qabs (qsgn L * v (Qabs L)) <= Qabs q.
  Proof.
    intro Hq. assert (Ha : Qabs L <= edge Lmax n m) by (apply value_iff_in_range; eauto).
    rewrite lookup_is_upper_edge in Hq by auto. injection Hq as <-.
    rewrite !Qabs_Qmult.
    pose proof (Qabs_nonneg L). pose proof (kcls_upper Lmax n (Qabs L) HL).
    pose proof (v_mono _ _ H H0). pose proof (v_nonneg _ H).
    rewrite (Qabs_pos (v (Qabs L))) by auto.
    rewrite (Qabs_pos (v (edge Lmax n (kcls Lmax n (Qabs L))))) by lra.
    pose proof (Qabs_nonneg (qsgn L)). nra.
  Qed.

  (* ... and over-estimated by less than one class:  |q| <= v (|L| + width) *)
  Theorem within_one_class_value L q :
    ~ L == 0 -> binned v Lmax n m L = Val q ->
    v (Qabs L) <= Qabs q /\ Qabs q <= v (Qabs L + width Lmax n).
  Proof.
    intros Hnz Hq. assert (Ha : Qabs L <= edge Lmax n m) by (apply value_iff_in_range; eauto).
    rewrite lookup_is_upper_edge in Hq by auto. injection Hq as <-.
    assert (Hp : 0 < Qabs L).
    { pose proof (Qabs_nonneg L). destruct (Qeq_dec (Qabs L) 0) as [E|E]; [|lra].
      exfalso. apply Hnz. revert E. apply Qabs_case; intros; lra. }
    destruct (within_one_class L (conj Hp Ha)) as [H1 H2].
    assert (Qabs (qsgn L) == 1) as Hs.
    { destruct (Qlt_le_dec 0 L).
      - now rewrite qsgn_pos.
      - rewrite qsgn_neg; [reflexivity|]. destruct (Qeq_dec L 0); [contradiction|lra]. }
    rewrite Qabs_Qmult, Hs, Qmult_1_l.
    assert (0 <= edge Lmax n (kcls Lmax n (Qabs L))) by lra.
    rewrite (Qabs_pos _ (v_nonneg _ H)).
    split; apply v_mono; lra.
  Qed.

  (* the binned law is monotone in the load *)
  Theorem monotone L1 L2 q1 q2 :
    L1 <= L2 -> binned v Lmax n m L1 = Val q1 -> binned v Lmax n m L2 = Val q2 -> q1 <= q2.
  Proof.
    intros Hle H1 H2.
    assert (Ha1 : Qabs L1 <= edge Lmax n m) by (apply value_iff_in_range; eauto).
    assert (Ha2 : Qabs L2 <= edge Lmax n m) by (apply value_iff_in_range; eauto).
    rewrite lookup_is_upper_edge in H1, H2 by auto. injection H1 as <-. injection H2 as <-.
    set (e1 := edge Lmax n (kcls Lmax n (Qabs L1))). set (e2 := edge Lmax n (kcls Lmax n (Qabs L2))).
    assert (P1 : 0 < e1) by (apply edge_pos; auto; apply kcls_ge1).
    assert (P2 : 0 < e2) by (apply edge_pos; auto; apply kcls_ge1).
    assert (V1 : 0 <= v e1) by (apply v_nonneg; lra).
    assert (V2 : 0 <= v e2) by (apply v_nonneg; lra).
    destruct (Qlt_le_dec 0 L1) as [p1|np1].
    - (* 0 < L1 <= L2 *)
      rewrite (qsgn_pos L1), (qsgn_pos L2) by lra.
      assert (v e1 <= v e2); [|lra].
      apply v_mono; [lra|]. apply edge_le; auto. apply kcls_mono; auto.
      rewrite !Qabs_pos by lra. auto.
    - destruct (Qlt_le_dec 0 L2) as [p2|np2].
      + (* L1 <= 0 < L2 *)
        rewrite (qsgn_pos L2) by auto.
        destruct (Qlt_le_dec L1 0); [rewrite qsgn_neg by auto | rewrite qsgn_zero by lra]; lra.
      + (* L1 <= L2 <= 0 *)
        destruct (Qlt_le_dec L2 0) as [n2|z2].
        * rewrite (qsgn_neg L1), (qsgn_neg L2) by lra.
          assert (v e2 <= v e1); [|lra].
          apply v_mono; [lra|]. apply edge_le; auto. apply kcls_mono; auto.
          rewrite !Qabs_neg by lra. lra.
        * rewrite (qsgn_zero L2) by lra.
          destruct (Qlt_le_dec L1 0); [rewrite qsgn_neg by auto | rewrite qsgn_zero by lra]; lra.
  Qed.
End Law.

(* the two tables of the implementation: n classes up to Lmax, 2 n classes up to 2 Lmax *)
Theorem primary_range v Lmax n L : 0 < Lmax ->
  (Qabs L <= Lmax -> exists q, binned v Lmax n (Pos.to_nat n) L = Val q) /\
  (Lmax < Qabs L -> binned v Lmax n (Pos.to_nat n) L = Err).
Proof.
  intro HL. assert (1 <= Pos.to_nat n)%nat by lia. split; intro H0.
  - apply in_range_returns_value; auto. now rewrite edge_top_primary.
  - apply out_of_range_errors; auto. now rewrite edge_top_primary.
Qed.

Theorem secondary_range v Lmax n L : 0 < Lmax ->
  (Qabs L <= 2 * Lmax -> exists q, binned v Lmax n (2 * Pos.to_nat n) L = Val q) /\
  (2 * Lmax < Qabs L -> binned v Lmax n (2 * Pos.to_nat n) L = Err).
Proof.
  intro HL. assert (1 <= 2 * Pos.to_nat n)%nat by lia. split; intro H0.
  - apply in_range_returns_value; auto. now rewrite edge_top_secondary.
  - apply out_of_range_errors; auto. now rewrite edge_top_secondary.
Qed.

(* ------------------------------------------------------------------ per-point tables *)

Lemma nth_skipn {A} (l : list A) k i d : nth i (skipn k l) d = nth (k + i) l d.
Proof.
  revert l. induction k; intros l; simpl; auto. destruct l; simpl; auto. now destruct i.
Qed.

Lemma skipn_flat_map {A} (g : nat -> list A) P :
  (forall k, length (g k) = P) ->
  forall c m s, (c <= m)%nat -> skipn (c * P) (flat_map g (seq s m)) = flat_map g (seq (s + c) (m - c)).
Proof.
  intros Hg. induction c; intros m s Hc.
  - simpl. now rewrite Nat.add_0_r, Nat.sub_0_r.
  - destruct m; [lia|]. simpl seq. simpl flat_map.
    replace (S c * P)%nat with (length (g s) + c * P)%nat by (rewrite Hg; lia).
    rewrite skipn_app.
    rewrite (skipn_all2 (g s)) by lia. simpl app.
    replace (length (g s) + c * P - length (g s))%nat with (c * P)%nat by lia.
    rewrite IHc by lia. replace (S s + c)%nat with (s + S c)%nat by lia. reflexivity.
Qed.

Section Proportional.
  Variable v : Q -> Q.
  Variable n : positive.
  Variable m : nat.
  Hypothesis Hm : (1 <= m)%nat.
  Variable c : Q.

  Lemma prop_range Lm : 0 < Lm ->
    (Qabs (c * Lm) <= edge Lm n m <-> Qabs c <= inject_Z (Z.of_nat m) / inject_Z (Zpos n)).
  Proof.
    intro H. rewrite Qabs_Qmult, (Qabs_pos Lm) by lra. unfold edge.
    set (r := inject_Z (Z.of_nat m) / inject_Z (Z.pos n)). split; intro; nra.
  Qed.

  Lemma prop_kcls Lm : 0 < Lm -> kcls Lm n (Qabs (c * Lm)) = kcls 1 n (Qabs c).
  Proof.
    intro H. unfold kcls. f_equal. f_equal. apply Qceiling_comp.
    rewrite Qabs_Qmult, (Qabs_pos Lm) by lra. field. lra.
  Qed.

  Lemma prop_singles Ls0 :
    Forall (fun Lm => 0 < Lm) Ls0 -> Qabs c <= inject_Z (Z.of_nat m) / inject_Z (Zpos n) ->
    Forall2 (fun Lm q => binned v Lm n m (c * Lm) = Val q) Ls0
      (map (fun p => qsgn (fst p) * v (edge (snd p) n (kcls 1 n (Qabs c)))) (combine (map (Qmult c) Ls0) Ls0)).
  Proof.
    intros Hpos Hin. induction Ls0 as [|Lm Lr IH]; simpl; constructor.
    - inversion Hpos; subst. rewrite lookup_is_upper_edge; auto.
      + now rewrite prop_kcls.
      + now apply prop_range.
    - apply IH. now inversion Hpos.
  Qed.
End Proportional.

Lemma hd_pos (l : list Q) : l <> [] -> Forall (fun x => 0 < x) l -> 0 < hd 0 l.
Proof. destruct l; [congruence|]. intros _ H. now inversion H. Qed.

Lemma hd_scaled c (l : list Q) : l <> [] -> hd 0 (map (Qmult c) l) = c * hd 0 l.
Proof. destruct l; [congruence|]. reflexivity. Qed.

Section Multi.
  Variable v : Q -> Q.
  Variable Lmaxs : list Q.
  Variable n : positive.
  Variable m : nat.

  Let P := length Lmaxs.
  Let row (k : nat) := map (fun Lm => let e := edge Lm n k in (e, v e)) Lmaxs.

  Lemma row_length k : length (row k) = P.
  Proof. unfold row. now rewrite map_length. Qed.

  Lemma mtable_rows : mtable v Lmaxs n m = flat_map row (seq 1 m).
  Proof. reflexivity. Qed.

  Lemma class_rows_mtable c : (c < m)%nat -> class_rows P (mtable v Lmaxs n m) c = row (S c).
  Proof.
    intro Hc. unfold class_rows. rewrite mtable_rows, (skipn_flat_map row P row_length) by lia.
    destruct (m - c)%nat eqn:E; [lia|]. simpl seq. simpl flat_map.
    rewrite firstn_app, row_length, Nat.sub_diag. simpl firstn at 2. rewrite app_nil_r.
    rewrite <- (row_length (1 + c)). now rewrite firstn_all.
  Qed.

  (* per-point tables for several points equal the tables each point gets alone:
     the row of class c+1 and point i of the flat table is row c of the single table of point i *)
  Theorem multi_table_is_single_tables c i :
    (c < m)%nat -> (i < P)%nat ->
    nth (c * P + i) (mtable v Lmaxs n m) (0, 0) = nth c (table v (nth i Lmaxs 0) n m) (0, 0).
  Proof.
    intros Hc Hi. rewrite table_nth by auto.
    rewrite <- nth_skipn.
    assert (nth i (skipn (c * P) (mtable v Lmaxs n m)) (0, 0) = nth i (class_rows P (mtable v Lmaxs n m) c) (0, 0)).
    { unfold class_rows. revert Hi. generalize (skipn (c * P) (mtable v Lmaxs n m)). generalize P.
      induction i; intros P0 l H; destruct P0; try lia; destruct l; simpl; auto. apply IHi. lia. }
    rewrite H, class_rows_mtable by auto. unfold row.
    rewrite nth_indep with (d' := (fun Lm => let e := edge Lm n (S c) in (e, v e)) 0) by (now rewrite map_length).
    now rewrite (map_nth (fun Lm => let e := edge Lm n (S c) in (e, v e))).
  Qed.

  Theorem mtable_length : length (mtable v Lmaxs n m) = (m * P)%nat.
  Proof.
    rewrite mtable_rows. generalize 1%nat. induction m; intro s; simpl; auto.
    now rewrite app_length, row_length, IHn0.
  Qed.

  Hypothesis Hne : Lmaxs <> [].
  Hypothesis Hpos : Forall (fun Lm => 0 < Lm) Lmaxs.
  Hypothesis Hm : (1 <= m)%nat.

  Lemma P_pos : (1 <= P)%nat.
  Proof. unfold P. destruct Lmaxs; [congruence | simpl; lia]. Qed.

  Lemma first_point_edges :
    map fst (first_point_rows P (mtable v Lmaxs n m) m) = edges (hd 0 Lmaxs) n m.
  Proof.
    unfold first_point_rows, edges. rewrite map_map, <- seq_shift, map_map.
    apply map_ext_in. intros c Hc. apply in_seq in Hc.
    pose proof P_pos.
    replace (c * P)%nat with (c * P + 0)%nat by lia.
    rewrite multi_table_is_single_tables by lia. rewrite table_nth by lia. simpl.
    now destruct Lmaxs.
  Qed.

  Lemma signed_row Ls k : length Ls = P ->
    signed Ls (row k) = map (fun p => qsgn (fst p) * v (edge (snd p) n k)) (combine Ls Lmaxs).
  Proof.
    unfold row, P. clear. revert Ls. induction Lmaxs; intros Ls H; destruct Ls; simpl in *; try lia; auto.
    f_equal. apply IHl. lia.
  Qed.

  Variable c : Q.

  (* loads proportional to the per-point maxima: the class found for point 0 is every point's own class,
     so the multi-point look-up equals the single-point look-ups; it raises iff every single one raises *)
  Theorem multi_equals_single :
    match mbinned v Lmaxs n m (map (Qmult c) Lmaxs) with
    | MVal qs => Forall2 (fun Lm q => binned v Lm n m (c * Lm) = Val q) Lmaxs qs
    | MErr => Forall (fun Lm => binned v Lm n m (c * Lm) = Err) Lmaxs
    end.
  Proof.
    unfold mbinned, mlookup_rows. fold P. rewrite first_point_edges.
    rewrite (hd_scaled c Lmaxs Hne). pose proof (hd_pos Lmaxs Hne Hpos) as H0.
    set (L0 := hd 0 Lmaxs) in *.
    destruct (Qlt_le_dec (inject_Z (Z.of_nat m) / inject_Z (Zpos n)) (Qabs c)) as [Hout|Hin].
    - (* out of range for every point *)
      assert (edge L0 n m < Qabs (c * L0)).
      { apply Qnot_le_lt. intro C. apply (prop_range n m c L0 H0) in C. lra. }
      rewrite (ss_edges_above L0 n m _ H0 H).
      destruct (Nat.ltb_spec m (m + 1)); [|lia].
      eapply Forall_impl; [|exact Hpos]. intros Lm HLm. apply out_of_range_errors; auto.
      apply Qnot_le_lt. intro C. apply (prop_range n m c Lm HLm) in C. lra.
    - assert (Qabs (c * L0) <= edge L0 n m) by (now apply prop_range).
      rewrite (ss_edges L0 n m _ H0 Hm H).
      pose proof (kcls_in_range L0 n m _ H0 Hm H). pose proof (kcls_ge1 L0 n (Qabs (c * L0))).
      destruct (Nat.ltb_spec m (kcls L0 n (Qabs (c * L0)) - 1 + 1)); [lia|].
      rewrite class_rows_mtable by lia.
      replace (S (kcls L0 n (Qabs (c * L0)) - 1)) with (kcls L0 n (Qabs (c * L0))) by lia.
      rewrite signed_row by (unfold P; now rewrite map_length).
      rewrite (prop_kcls n c L0 H0).
      now apply prop_singles.
  Qed.
End Multi.

(* ------------------------------------------------------------------ non-vacuity *)

Definition ex_law (x : Q) : Q := 3 * x.

(* Lmax = 16, 4 classes of width 4: inside a class, on an edge, negative, zero, top edge, above the maximum *)
Example ex_values :
  map (fun p => res_eqb (binned ex_law 16 4 4 (fst p)) (snd p))
      [(9 # 2, Val 24); (4, Val 12); (-4, Val (-12)); (-(9 # 2), Val (-24)); (0, Val 0); (16, Val 48);
       (-16, Val (-48)); (33 # 2, Err); (-(33 # 2), Err)]
  = [true; true; true; true; true; true; true; true; true].
Proof. vm_compute. reflexivity. Qed.

(* three points with maxima 16, 32, 8 and proportional loads (|load| = max/4 at every point, each with its own sign) *)
Example ex_multi :
  mres_eqb (mbinned ex_law [16; 32; 8] 4 4 [-4; 8; 2]) (MVal [-12; 24; 6]) = true /\
  mres_eqb (mbinned ex_law [16; 32; 8] 4 4 [17; 34; 17 # 2]) MErr = true.
Proof. vm_compute. split; reflexivity. Qed.

Example ex_law_hypotheses :
  (forall x, 0 <= x -> 0 <= ex_law x) /\ (forall x y, 0 <= x -> x <= y -> ex_law x <= ex_law y).
Proof. unfold ex_law. split; intros; lra. Qed.

(* ------------------------------------------------------------------ the restriction 0 < Lmax of every point is needed
   [multi_equals_single] is false of the faithful model when the FIRST point has maximum load 0 (an unloaded
   point; loads 0 * base are still "scaled versions of each other"): every edge of point 0 is 0, the search for
   |0| returns class 1, and every other point gets its class-1 value, whatever its load; loads above the other
   points' maxima are not rejected.  (Known finding C07/zero-first-point on the implementation.) *)
Theorem multi_equals_single_refuted_zero_first :
  exists (Lmaxs : list Q) (c : Q),
    Lmaxs <> [] /\ Forall (fun Lm => 0 <= Lm) Lmaxs /\
    ~ match mbinned ex_law Lmaxs 10 10 (map (Qmult c) Lmaxs) with
      | MVal qs => Forall2 (fun Lm q => exists q', binned ex_law Lm 10 10 (c * Lm) = Val q' /\ q' == q) Lmaxs qs
      | MErr => Forall (fun Lm => binned ex_law Lm 10 10 (c * Lm) = Err) Lmaxs
      end.
Proof.
  exists [0; 200], (11 # 20). split; [discriminate|]. split; [repeat constructor; lra|].
  assert (E : exists a b, mbinned ex_law [0; 200] 10 10 (map (Qmult (11 # 20)) [0; 200]) = MVal [a; b] /\ b == 60).
  { eexists. eexists. split; [vm_compute; reflexivity|]. reflexivity. }
  destruct E as (a & b & -> & Hb). intro H.
  inversion H as [|? ? ? ? _ H2]; subst. inversion H2 as [|? ? ? ? (q' & Hq & Hq') _]; subst.
  assert (E2 : exists r, binned ex_law 200 10 10 ((11 # 20) * 200) = Val r /\ r == 360).
  { eexists. split; [vm_compute; reflexivity|]. reflexivity. }
  destruct E2 as (r & Hr & Hr'). rewrite Hr in Hq. injection Hq as <-. rewrite Hr', Hb in Hq'. discriminate.
Qed.

(* ... and an out-of-range load of the other points is not rejected *)
Theorem multi_range_refuted_zero_first :
  mres_eqb (mbinned ex_law [0; 200] 10 10 [0; 600]) (MVal [0; 60]) = true /\ binned ex_law 200 10 10 600 = Err.
Proof. split; vm_compute; reflexivity. Qed.

(* ------------------------------------------------------------------ per-point signs
   generalisation of [multi_equals_single]: the loads need not be one common multiple of the maxima; it suffices
   that |L_i| / Lmax_i is the same ratio r at every point (points scaled by negative factors keep their own sign) *)
Section MultiAbs.
  Variable v : Q -> Q.
  Variable n : positive.
  Variable m : nat.
  Hypothesis Hm : (1 <= m)%nat.
  Variable r : Q.

  Lemma abs_range Lm L : 0 < Lm -> Qabs L == r * Lm ->
    (Qabs L <= edge Lm n m <-> r <= inject_Z (Z.of_nat m) / inject_Z (Zpos n)).
  Proof.
    intros H E. rewrite E. unfold edge.
    set (t := inject_Z (Z.of_nat m) / inject_Z (Z.pos n)). split; intro; nra.
  Qed.

  Lemma abs_kcls Lm L : 0 < Lm -> Qabs L == r * Lm -> kcls Lm n (Qabs L) = kcls 1 n r.
  Proof.
    intros H E. unfold kcls. f_equal. f_equal. apply Qceiling_comp. rewrite E. field. lra.
  Qed.

  Lemma abs_singles Lms Ls :
    Forall (fun Lm => 0 < Lm) Lms -> Forall2 (fun Lm L => Qabs L == r * Lm) Lms Ls ->
    r <= inject_Z (Z.of_nat m) / inject_Z (Zpos n) ->
    Forall2 (fun p q => binned v (fst p) n m (snd p) = Val q) (combine Lms Ls)
      (map (fun p => qsgn (fst p) * v (edge (snd p) n (kcls 1 n r))) (combine Ls Lms)).
  Proof.
    intros Hpos HF Hin. induction HF as [|Lm L Lms Ls E HF IH]; simpl; constructor.
    - simpl. inversion Hpos; subst. rewrite lookup_is_upper_edge; auto.
      + now rewrite (abs_kcls Lm L).
      + now apply abs_range.
    - apply IH. now inversion Hpos.
  Qed.

  Lemma abs_singles_err Lms Ls :
    Forall (fun Lm => 0 < Lm) Lms -> Forall2 (fun Lm L => Qabs L == r * Lm) Lms Ls ->
    inject_Z (Z.of_nat m) / inject_Z (Zpos n) < r ->
    Forall (fun p => binned v (fst p) n m (snd p) = Err) (combine Lms Ls).
  Proof.
    intros Hpos HF Hout. induction HF as [|Lm L Lms Ls E HF IH]; simpl; constructor.
    - simpl. inversion Hpos; subst. apply out_of_range_errors; auto.
      apply Qnot_le_lt. intro C. apply (abs_range Lm L) in C; auto. lra.
    - apply IH. now inversion Hpos.
  Qed.
End MultiAbs.

Theorem multi_equals_single_abs v Lmaxs n m r Ls :
  Lmaxs <> [] -> Forall (fun Lm => 0 < Lm) Lmaxs -> (1 <= m)%nat ->
  Forall2 (fun Lm L => Qabs L == r * Lm) Lmaxs Ls ->
  match mbinned v Lmaxs n m Ls with
  | MVal qs => Forall2 (fun p q => binned v (fst p) n m (snd p) = Val q) (combine Lmaxs Ls) qs
  | MErr => Forall (fun p => binned v (fst p) n m (snd p) = Err) (combine Lmaxs Ls)
  end.
Proof.
  intros Hne Hpos Hm HF.
  unfold mbinned, mlookup_rows. rewrite (first_point_edges v Lmaxs n m Hne Hpos Hm).
  pose proof (hd_pos Lmaxs Hne Hpos) as H0.
  assert (E0 : Qabs (hd 0 Ls) == r * hd 0 Lmaxs).
  { destruct HF; [congruence|]. assumption. }
  assert (Hlen : length Ls = length Lmaxs) by (clear - HF; induction HF; simpl; congruence).
  set (L0 := hd 0 Lmaxs) in *.
  destruct (Qlt_le_dec (inject_Z (Z.of_nat m) / inject_Z (Zpos n)) r) as [Hout|Hin].
  - assert (edge L0 n m < Qabs (hd 0 Ls)).
    { apply Qnot_le_lt. intro C. apply (abs_range n m r L0 _ H0 E0) in C. lra. }
    rewrite (ss_edges_above L0 n m _ H0 H).
    destruct (Nat.ltb_spec m (m + 1)); [|lia].
    now apply (abs_singles_err v n m r).
  - assert (Qabs (hd 0 Ls) <= edge L0 n m) by (now apply (abs_range n m r L0 _ H0 E0)).
    rewrite (ss_edges L0 n m _ H0 Hm H).
    pose proof (kcls_in_range L0 n m _ H0 Hm H). pose proof (kcls_ge1 L0 n (Qabs (hd 0 Ls))).
    destruct (Nat.ltb_spec m (kcls L0 n (Qabs (hd 0 Ls)) - 1 + 1)); [lia|].
    rewrite class_rows_mtable by lia.
    replace (S (kcls L0 n (Qabs (hd 0 Ls)) - 1)) with (kcls L0 n (Qabs (hd 0 Ls))) by lia.
    rewrite signed_row by auto.
    rewrite (abs_kcls n r L0 _ H0 E0).
    now apply (abs_singles v n m Hm r).
Qed.
