(* C13 -- signal broadcasting (pylife/core/broadcaster.py).

   Hand-written model, tied to the code by the correspondence check of harness/props/c13.py.

   An indexed pandas object is modelled as a list of level names and an association list
   key tuple -> payload.  A payload is abstract ([V]); the correspondence instantiates it with the
   number of the row in the original operand, so that the model says WHICH original row each result
   row carries.  [None] in a result stands for an all-NaN row.

   [bcast]       the specification-level join: outer alignment on the shared level names when there are
                 any ("have_commons", pandas [align]), cross product otherwise
                 ([cross_join_and_align_obj_and_parameter]); result level order = obj levels ++ new prm levels.
   [bcast_impl]  what Broadcaster._broadcast_frame_to_frame does around it: unnamed levels get fresh
                 names, every level value is replaced by its position in a per-level table shared by both
                 operands (_IndexLevelCache), the join runs on the codes, the result index is decoded
                 (restore_real_index), the operands get their saved index and their None names back.

   pandas' own behaviour is part of the model (it is what [align]/[join] were observed to do, validated by the
   correspondence check on every run), in particular what happens to rows without a partner:
     * they are kept, the partner being NaN, when their key is complete (the other operand adds no level);
     * they are silently dropped when their operand has a single level (Index-against-MultiIndex join);
     * otherwise pandas produces NaN *key components*, on which restore_real_index raises: [Raise]. *)
From Coq Require Import ZArith List Bool Lia.
Import ListNotations.
Open Scope Z_scope.

(* ------------------------------------------------------------------ names *)

(* internal level names: what the user wrote, or a fresh string standing in for None *)
Inductive name := User (n : nat) | Fresh (k : nat).

Definition name_eqb (a b : name) : bool :=
  match a, b with
  | User n, User m => Nat.eqb n m
  | Fresh n, Fresh m => Nat.eqb n m
  | _, _ => false
  end.

Lemma name_eqb_eq a b : name_eqb a b = true <-> a = b.
Proof.
  destruct a, b; cbn; try (split; [discriminate|congruence]);
    rewrite Nat.eqb_eq; split; congruence.
Qed.
Lemma name_eqb_refl a : name_eqb a a = true.
Proof. apply name_eqb_eq; reflexivity. Qed.
Lemma name_eqb_neq a b : name_eqb a b = false <-> a <> b.
Proof.
  split.
  - intros H E. apply name_eqb_eq in E. congruence.
  - intros H. destruct (name_eqb a b) eqn:E; [apply name_eqb_eq in E; contradiction|reflexivity].
Qed.

Definition mem (n : name) (l : list name) : bool := existsb (name_eqb n) l.

Lemma mem_In n l : mem n l = true <-> In n l.
Proof.
  unfold mem. rewrite existsb_exists. split.
  - intros [x [Hx E]]. apply name_eqb_eq in E. subst. exact Hx.
  - intros H. exists n. split; [exact H|apply name_eqb_refl].
Qed.
Lemma mem_nIn n l : mem n l = false <-> ~ In n l.
Proof.
  rewrite <- mem_In. destruct (mem n l); split; congruence.
Qed.

(* ------------------------------------------------------------------ keys *)

Definition key := list Z.

(* component of key [k] (over levels [l]) at level [n] *)
Fixpoint get (n : name) (l : list name) (k : key) : Z :=
  match l, k with
  | m :: l', x :: k' => if name_eqb n m then x else get n l' k'
  | _, _ => 0
  end.

(* the key [k] over levels [l], restricted / reordered to the levels [l'] *)
Definition proj (l : list name) (k : key) (l' : list name) : key := map (fun n => get n l k) l'.

Definition newlv (lo lp : list name) : list name := filter (fun n => negb (mem n lo)) lp.
Definition shared (lo lp : list name) : list name := filter (fun n => mem n lo) lp.
Definition onlyo (lo lp : list name) : list name := filter (fun n => negb (mem n lp)) lo.
(* total_columns = obj_index_names + [lv for lv in prm_index_names if lv not in obj_index_names] *)
Definition total (lo lp : list name) : list name := lo ++ newlv lo lp.
(* have_commons = len(total_columns) < len(prm_index_names) + len(obj_index_names) *)
Definition have_commons (lo lp : list name) : bool :=
  Nat.ltb (length (total lo lp)) (length lp + length lo).

(* the two keys coincide on every shared level *)
Definition agree (lo lp : list name) (ko kp : key) : bool :=
  forallb (fun n => get n lo ko =? get n lp kp) (shared lo lp).

Fixpoint key_eqb (a b : key) : bool :=
  match a, b with
  | [], [] => true
  | x :: a', y :: b' => (x =? y) && key_eqb a' b'
  | _, _ => false
  end.

Lemma key_eqb_eq a b : key_eqb a b = true <-> a = b.
Proof.
  revert b; induction a as [|x a IH]; intros [|y b]; cbn; try (split; [discriminate|congruence]).
  - split; reflexivity.
  - rewrite andb_true_iff, Z.eqb_eq, IH. split; [intros [-> ->]; reflexivity|intros E; inversion E; auto].
Qed.

(* pandas [unique]: first occurrences, in order *)
Fixpoint uniq (l : list Z) : list Z :=
  match l with
  | [] => []
  | x :: r => x :: filter (fun y => negb (y =? x)) (uniq r)
  end.

Fixpoint names_eqb (a b : list name) : bool :=
  match a, b with [], [] => true | x :: a', y :: b' => name_eqb x y && names_eqb a' b' | _, _ => false end.
Fixpoint keys_eqb (a b : list key) : bool :=
  match a, b with [], [] => true | x :: a', y :: b' => key_eqb x y && keys_eqb a' b' | _, _ => false end.

(* ------------------------------------------------------------------ frames and the join *)

Section Join.
Variable V : Type.

Record frame := Frame { lv : list name; rows : list (key * V) }.

Fixpoint lookup (k : key) (r : list (key * V)) : option V :=
  match r with
  | [] => None
  | (k', v) :: r' => if key_eqb k k' then Some v else lookup k r'
  end.

(* one aligned row: key over [total], what obj carries there, what prm carries there *)
Definition arow := (key * option V * option V)%type.
Definition akey (t : arow) : key := fst (fst t).
Definition aobj (t : arow) : option V := snd (fst t).
Definition aprm (t : arow) : option V := snd t.

(* [Unaligned]: the call returns, but the two results are the operands themselves, not aligned to a common index
   (only produced by [bcast_impl], see [coincide]) *)
Inductive outcome := Rows (r : list arow) | Raise | Unaligned.

Definition matches (lo lp : list name) (ko : key) (rp : list (key * V)) : list (key * V) :=
  filter (fun b => agree lo lp ko (fst b)) rp.

Definition matched (lo lp : list name) (ro rp : list (key * V)) : list arow :=
  flat_map (fun a => map (fun b => (fst a ++ proj lp (fst b) (newlv lo lp), Some (snd a), Some (snd b)))
                         (matches lo lp (fst a) rp)) ro.

Definition unmatched_o lo lp (ro rp : list (key * V)) : list (key * V) :=
  filter (fun a => negb (existsb (fun b => agree lo lp (fst a) (fst b)) rp)) ro.
Definition unmatched_p lo lp (ro rp : list (key * V)) : list (key * V) :=
  filter (fun b => negb (existsb (fun a => agree lo lp (fst a) (fst b)) ro)) rp.

Definition is_nil {A} (l : list A) : bool := match l with [] => true | _ => false end.

(* rows of obj without partner *)
Definition left_only lo lp (ro rp : list (key * V)) : option (list arow) :=
  let u := unmatched_o lo lp ro rp in
  if is_nil (newlv lo lp) then Some (map (fun a => (fst a, Some (snd a), None)) u)
  else if is_nil u then Some []
  else if Nat.eqb (length lo) 1 then Some []      (* Index against MultiIndex: dropped by pandas *)
  else None.                                      (* NaN key components: restore_real_index raises *)

(* rows of prm without partner *)
Definition right_only lo lp (ro rp : list (key * V)) : option (list arow) :=
  let u := unmatched_p lo lp ro rp in
  if is_nil (onlyo lo lp) then Some (map (fun b => (proj lp (fst b) (total lo lp), None, Some (snd b))) u)
  else if is_nil u then Some []
  else if Nat.eqb (length lp) 1 then Some []
  else None.

Definition bcast (o p : frame) : outcome :=
  let lo := lv o in let lp := lv p in
  if have_commons lo lp then
    match left_only lo lp (rows o) (rows p), right_only lo lp (rows o) (rows p) with
    | Some l, Some r => Rows (matched lo lp (rows o) (rows p) ++ l ++ r)
    | _, _ => Raise
    end
  else Rows (matched lo lp (rows o) (rows p)).

(* the two returned objects *)
Definition res_obj (r : list arow) : list (key * option V) := map (fun t => (akey t, aobj t)) r.
Definition res_prm (r : list arow) : list (key * option V) := map (fun t => (akey t, aprm t)) r.

(* DataFrame object against an array-like of the same length (_broadcast_frame): positional *)
Definition bcast_array (o : frame) (prm : list V) : option (list arow) :=
  if Nat.eqb (length prm) (length (rows o))
  then Some (map (fun ab => (fst (fst ab), Some (snd (fst ab)), Some (snd ab))) (combine (rows o) prm))
  else match prm with
       | [x] => Some (map (fun a => (fst a, Some (snd a), Some x)) (rows o))   (* np.broadcast_to of one value *)
       | _ => None
       end.

(* ------------------------------------------------------------------ what the implementation does around the join *)

(* user-visible frame: level names may be None *)
Record uframe := UFrame { ulv : list (option nat); urows : list (key * V) }.

(* _replace_none_index_names_with_unique_string *)
Fixpoint name_levels (start : nat) (l : list (option nat)) : list name * nat :=
  match l with
  | [] => ([], start)
  | Some n :: l' => let '(r, e) := name_levels start l' in (User n :: r, e)
  | None :: l' => let '(r, e) := name_levels (S start) l' in (Fresh start :: r, e)
  end.
(* _replace_unique_string_with_none_name *)
Definition unname (n : name) : option nat := match n with User u => Some u | Fresh _ => None end.

(* values of level [n] in a frame, in row order *)
Definition col (n : name) (l : list name) (r : list (key * V)) : list Z :=
  if mem n l then map (fun a => get n l (fst a)) r else [].

(* _IndexLevelCache.index_levels[name]: obj values, then operand values, duplicates removed *)
Definition table (lo lp : list name) (ro rp : list (key * V)) (n : name) : list Z :=
  uniq (col n lo ro ++ col n lp rp).

Fixpoint index_of (x : Z) (l : list Z) : nat :=
  match l with
  | [] => 0%nat
  | y :: l' => if x =? y then 0%nat else S (index_of x l')
  end.

(* get_indexer_for / positional look-up *)
Definition encode (tbl : name -> list Z) (n : name) (x : Z) : Z := Z.of_nat (index_of x (tbl n)).
Definition decode (tbl : name -> list Z) (n : name) (c : Z) : Z := nth (Z.to_nat c) (tbl n) 0.

(* apply a per-level function to a key *)
Fixpoint kmap (f : name -> Z -> Z) (l : list name) (k : key) : key :=
  match l, k with
  | n :: l', x :: k' => f n x :: kmap f l' k'
  | _, _ => []
  end.

Definition fmap (f : name -> Z -> Z) (x : frame) : frame :=
  Frame (lv x) (map (fun a => (kmap f (lv x) (fst a), snd a)) (rows x)).

Definition omap (f : key -> key) (r : outcome) : outcome :=
  match r with
  | Rows l => Rows (map (fun t => (f (akey t), aobj t, aprm t)) l)
  | Raise => Raise
  | Unaligned => Unaligned
  end.

(* the state the implementation mutates: both operands *)
Record state := State { st_obj : uframe; st_prm : uframe }.

Record run := Run {
  r_named : list name * list name;     (* level names of (obj, prm) while unnamed levels carry fresh names *)
  r_coded : frame * frame;             (* the operands while their index is replaced by codes *)
  r_result : outcome;                  (* decoded result, keys over total *)
  r_levels : list (option nat);        (* level names of both returned objects *)
  r_final : option state               (* the operands after a normal return; None: an exception propagated
                                          (there is no try/finally) and the operands are left as [r_coded] *)
}.

(* pandas [align] does nothing when [self.index.equals(other.index)], and [equals] ignores the level names: if the
   CODED indices of the two operands happen to be the same list of tuples although their level names differ, nothing is
   aligned.  With more than two levels the subsequent reorder_levels(total_columns) raises KeyError unless the level
   name sets are equal. *)
Definition coincide (co cp : frame) : bool :=
  have_commons (lv co) (lv cp) && Nat.eqb (length (lv co)) (length (lv cp)) && negb (names_eqb (lv co) (lv cp))
  && keys_eqb (map fst (rows co)) (map fst (rows cp)).

Definition unaligned (co cp : frame) : outcome :=
  let lo := lv co in let lp := lv cp in
  if Nat.leb (length lo) 2 then Unaligned            (* if obj.index.nlevels > 2: reorder_levels *)
  else if negb (is_nil (newlv lo lp)) then Raise
  else (* same level-name set, other order: both results are reordered to obj's level order, rows stay paired by position *)
    if keys_eqb (map fst (rows co)) (map (fun b => proj lp (fst b) lo) (rows cp))
    then Rows (map (fun ab => (fst (fst ab), Some (snd (fst ab)), Some (snd (snd ab)))) (combine (rows co) (rows cp)))
    else Unaligned.

(* level order of the returned objects: total_columns, except that with at most two levels nothing is reordered
   ("if obj.index.nlevels > 2") and pandas align leaves the order of the operand with more levels (obj on a tie) *)
Definition result_levels (lo lp : list name) : list name :=
  if have_commons lo lp && Nat.leb (length (total lo lp)) 2
  then (if Nat.leb (length lp) (length lo) then lo else lp)
  else total lo lp.

Definition bcast_impl (s : state) : run :=
  let o := st_obj s in let p := st_prm s in
  (* uuids = _replace_none_index_names_with_unique_string([parameter, self._obj]) *)
  let '(lp, e) := name_levels 0 (ulv p) in
  let '(lo, _) := name_levels e (ulv o) in
  (* index_level_cache = _IndexLevelCache(self._obj, parameter): save, build tables, recode *)
  let saved_o := urows o in let saved_p := urows p in
  let tbl := table lo lp saved_o saved_p in
  let co := fmap (encode tbl) (Frame lo saved_o) in
  let cp := fmap (encode tbl) (Frame lp saved_p) in
  (* align / cross join on the codes *)
  let r := if coincide co cp then unaligned co cp else bcast co cp in
  (* restore_real_index on both results *)
  let r' := omap (kmap (decode tbl) (total lo lp)) r in
  (* restore_original_indeces; _replace_unique_string_with_none_name *)
  let fo := UFrame (map unname lo) saved_o in
  let fp := UFrame (map unname lp) saved_p in
  Run (lo, lp) (co, cp) r' (map unname (result_levels lo lp))
      (match r with Raise => None | _ => Some (State fo fp) end).

End Join.

Arguments Frame {V}. Arguments lv {V}. Arguments rows {V}.
Arguments Rows {V}. Arguments Raise {V}. Arguments Unaligned {V}. Arguments coincide {V}. Arguments unaligned {V}.
Arguments UFrame {V}. Arguments ulv {V}. Arguments urows {V}.
Arguments State {V}. Arguments st_obj {V}. Arguments st_prm {V}.
Arguments lookup {V}. Arguments bcast {V}. Arguments bcast_impl {V}. Arguments bcast_array {V}.
Arguments akey {V}. Arguments aobj {V}. Arguments aprm {V}.
Arguments res_obj {V}. Arguments res_prm {V}.
Arguments matched {V}. Arguments matches {V}. Arguments unmatched_o {V}. Arguments unmatched_p {V}.
Arguments left_only {V}. Arguments right_only {V}.
Arguments fmap {V}. Arguments omap {V}. Arguments col {V}. Arguments table {V}.
Arguments r_named {V}. Arguments r_coded {V}. Arguments r_result {V}. Arguments r_levels {V}. Arguments r_final {V}.

(* ------------------------------------------------------------------ Broadcaster.broadcast: which path an object takes *)

Inductive okind := KSeries | KFrame.

(* `if self._obj.index.names == [None] and isinstance(self._obj, pd.Series)`: only a Series with exactly ONE index
   level, which is unnamed, is a set of parameters: its keys become columns, i.e. for the join it is a frame without
   levels holding one row (the whole Series).  Every other object -- a DataFrame, a Series with several levels even if
   all of them are unnamed, a Series whose level has a name however that name looks ('' and 0 are names, [Some _]) --
   is row-indexed and goes through [bcast_impl] as it is. *)
Definition is_paramset (k : okind) (l : list (option nat)) : bool :=
  match k, l with KSeries, [None] => true | _, _ => false end.

Definition as_joined {V} (k : okind) (whole : V) (o : uframe V) : uframe V :=
  if is_paramset k (ulv o) then UFrame [] [([], whole)] else o.

Definition broadcast_top {V} (k : okind) (whole : V) (s : state V) : run V :=
  bcast_impl (State (as_joined k whole (st_obj s)) (st_prm s)).

(* ------------------------------------------------------------------ executable comparison (correspondence) *)

Definition optZ_eqb (a b : option Z) : bool :=
  match a, b with Some x, Some y => x =? y | None, None => true | _, _ => false end.
Definition arow_eqb (a b : arow Z) : bool :=
  key_eqb (akey a) (akey b) && optZ_eqb (aobj a) (aobj b) && optZ_eqb (aprm a) (aprm b).
Definition count (a : arow Z) (l : list (arow Z)) : nat := length (filter (arow_eqb a) l).
(* equal as multisets of rows (the property does not fix the row order) *)
Definition rows_perm_eqb (a b : list (arow Z)) : bool :=
  Nat.eqb (length a) (length b) && forallb (fun t => Nat.eqb (count t a) (count t b)) a.
Definition outcome_eqb (a b : outcome Z) : bool :=
  match a, b with
  | Rows x, Rows y => rows_perm_eqb x y
  | Raise, Raise => true
  | Unaligned, Unaligned => true
  | _, _ => false
  end.

Definition oname_eqb (a b : option nat) : bool :=
  match a, b with Some x, Some y => Nat.eqb x y | None, None => true | _, _ => false end.
Fixpoint onames_eqb (a b : list (option nat)) : bool :=
  match a, b with [], [] => true | x :: a', y :: b' => oname_eqb x y && onames_eqb a' b' | _, _ => false end.
Definition number (ks : list key) : list (key * Z) := combine ks (map Z.of_nat (seq 0 (length ks))).

(* one correspondence case: level names (None = unnamed) and keys of both operands; the payload of a row is its
   position.  [exp_levels]/[exp] is what the implementation returned (keys over obj levels ++ new prm levels, each row
   tagged with the original row it carries or None for NaN; exp = None when the implementation raised).
   Checked: the implementation-level model agrees, the specification-level join agrees, the operands in the final
   state are the original ones. *)
Definition check_case (lo : list (option nat)) (ko : list key) (lp : list (option nat)) (kp : list key)
           (exp_levels : list (option nat)) (exp : outcome Z) : bool :=
  let s := State (UFrame lo (number ko)) (UFrame lp (number kp)) in
  let r := bcast_impl s in
  let '(nlo, nlp) := r_named r in
  outcome_eqb (r_result r) exp
  && (coincide (fst (r_coded r)) (snd (r_coded r)) || outcome_eqb (bcast (Frame nlo (number ko)) (Frame nlp (number kp))) exp)
  && (match exp with Rows _ => onames_eqb (r_levels r) exp_levels | _ => true end)
  && (match r_final r with
      | Some f => onames_eqb (ulv (st_obj f)) lo && keys_eqb (map fst (urows (st_obj f))) ko
                  && onames_eqb (ulv (st_prm f)) lp && keys_eqb (map fst (urows (st_prm f))) kp
      | None => match exp with Raise => true | _ => false end
      end).

(* the same with the dispatch of Broadcaster.broadcast in front: [k], [lo], [ko] describe the object as it is passed *)
Definition check_case_top (k : okind) (lo : list (option nat)) (ko : list key) (lp : list (option nat)) (kp : list key)
           (exp_levels : list (option nat)) (exp : outcome Z) : bool :=
  let o := as_joined k 0 (UFrame lo (number ko)) in
  check_case (ulv o) (map fst (urows o)) lp kp exp_levels exp.

Definition check_array (lo : list (option nat)) (ko : list key) (n : nat) (exp : option (list (arow Z))) : bool :=
  let '(nlo, _) := name_levels 0 lo in
  match bcast_array (Frame nlo (number ko)) (map Z.of_nat (seq 0 n)), exp with
  | Some a, Some b => rows_perm_eqb a b
  | None, None => true
  | _, _ => false
  end.
