(* C13 -- theorems about the implementation-level model [bcast_impl]: operands restored, when the join raises,
   witnesses of the registered defects. *)
From Coq Require Import ZArith List Bool Lia.
From PL Require Import Core.Broadcast Core.BroadcastThm.
Import ListNotations.
Open Scope Z_scope.

(* ------------------------------------------------------------------ the positional re-coding *)

Lemma uniq_In x l : In x (uniq l) <-> In x l.
Proof.
  induction l as [|y l IH]; cbn; [tauto|]. rewrite filter_In, IH, negb_true_iff, Z.eqb_neq.
  destruct (Z.eq_dec x y); [subst; tauto|]. split; [tauto|]. intros [H|H]; [congruence|tauto].
Qed.

Lemma uniq_NoDup l : NoDup (uniq l).
Proof.
  induction l as [|y l IH]; cbn; [constructor|]. constructor.
  - rewrite filter_In, Z.eqb_refl. cbn. intros [_ H]. discriminate.
  - apply NoDup_filter. exact IH.
Qed.

Lemma nth_index_of x l : In x l -> nth (index_of x l) l 0 = x.
Proof.
  induction l as [|y l IH]; cbn; [tauto|]. destruct (x =? y) eqn:E.
  - apply Z.eqb_eq in E. now subst.
  - apply Z.eqb_neq in E. intros [H|H]; [congruence|]. apply IH. exact H.
Qed.

(* restore_real_index undoes _make_new_index on every value of the level table ... *)
Theorem decode_encode tbl n x : In x (tbl n) -> decode tbl n (encode tbl n x) = x.
Proof. intros H. unfold decode, encode. rewrite Nat2Z.id. apply nth_index_of. exact H. Qed.

(* ... hence distinct values of a level get distinct codes *)
Theorem encode_inj tbl n x y : In x (tbl n) -> In y (tbl n) -> encode tbl n x = encode tbl n y -> x = y.
Proof. intros Hx Hy E. rewrite <- (decode_encode tbl n x Hx), <- (decode_encode tbl n y Hy), E. reflexivity. Qed.

Section Impl.
Variable V : Type.

(* the table of a level holds every value of that level in EITHER operand (one table for both: keys of the two
   operands that are equal get equal codes, keys that differ get different codes), without duplicates *)
Theorem table_complete lo lp (ro rp : list (key * V)) n :
  (forall a, In a ro -> In n lo -> In (get n lo (fst a)) (table lo lp ro rp n)) /\
  (forall b, In b rp -> In n lp -> In (get n lp (fst b)) (table lo lp ro rp n)) /\
  NoDup (table lo lp ro rp n).
Proof.
  unfold table. repeat split; try apply uniq_NoDup.
  - intros a Ha Hn. apply uniq_In, in_or_app. left. unfold col.
    replace (mem n lo) with true by (symmetry; apply mem_In; exact Hn).
    apply (in_map (fun a => get n lo (fst a))). exact Ha.
  - intros b Hb Hn. apply uniq_In, in_or_app. right. unfold col.
    replace (mem n lp) with true by (symmetry; apply mem_In; exact Hn).
    apply (in_map (fun a => get n lp (fst a))). exact Hb.
Qed.

Lemma name_levels_unname l : forall s, map unname (fst (name_levels s l)) = l.
Proof.
  induction l as [|[n|] l IH]; intros s; cbn; [reflexivity| |].
  - specialize (IH s). destruct (name_levels s l) as [r e]. cbn in *. now rewrite IH.
  - specialize (IH (S s)). destruct (name_levels (S s) l) as [r e]. cbn in *. now rewrite IH.
Qed.

Lemma omap_raise f (r : outcome V) : omap f r = Raise <-> r = Raise.
Proof. destruct r; cbn; split; congruence. Qed.

(* ---- on every normal return both operands are exactly what they were (keys, payloads, level names incl. None) *)
Theorem operands_restored (s : state V) :
  r_result (bcast_impl s) <> Raise -> r_final (bcast_impl s) = Some s.
Proof.
  destruct s as [[lo ro] [lp rp]]. unfold bcast_impl. cbn [st_obj st_prm ulv urows].
  pose proof (name_levels_unname lp 0) as Hp. destruct (name_levels 0 lp) as [nlp e]. cbn in Hp.
  pose proof (name_levels_unname lo e) as Ho. destruct (name_levels e lo) as [nlo e']. cbn in Ho.
  cbn [r_result r_final]. intros H. rewrite omap_raise in H. rewrite Ho, Hp.
  match goal with |- match ?r with _ => _ end = _ => destruct r end; try reflexivity. contradiction.
Qed.

(* ---- and there is no normal return exactly when the join on the codes raised *)
Theorem exception_iff (s : state V) :
  r_final (bcast_impl s) = None <-> r_result (bcast_impl s) = Raise.
Proof.
  destruct s as [[lo ro] [lp rp]]. unfold bcast_impl. cbn [st_obj st_prm ulv urows].
  destruct (name_levels 0 lp) as [nlp e]. destruct (name_levels e lo) as [nlo e'].
  cbn [r_result r_final]. rewrite omap_raise.
  match goal with |- match ?r with _ => _ end = _ <-> _ => destruct r end; split; congruence.
Qed.

(* ---- when does the join raise?  only with shared levels, when a row without partner would get an incomplete key
        and its operand has more than one level *)
Lemma left_only_none lo lp (ro rp : list (key * V)) :
  left_only lo lp ro rp = None <->
  newlv lo lp <> [] /\ unmatched_o lo lp ro rp <> [] /\ length lo <> 1%nat.
Proof.
  unfold left_only.
  destruct (newlv lo lp) as [|n1 l1]; cbn [is_nil]; [split; [discriminate|intros [H _]; congruence]|].
  destruct (unmatched_o lo lp ro rp) as [|u1 r1]; cbn [is_nil]; [split; [discriminate|intros [_ [H _]]; congruence]|].
  destruct (Nat.eqb (length lo) 1) eqn:E.
  - apply Nat.eqb_eq in E. split; [discriminate|intros [_ [_ H]]; congruence].
  - apply Nat.eqb_neq in E. split; [intros _; repeat split; congruence|reflexivity].
Qed.

Lemma right_only_none lo lp (ro rp : list (key * V)) :
  right_only lo lp ro rp = None <->
  onlyo lo lp <> [] /\ unmatched_p lo lp ro rp <> [] /\ length lp <> 1%nat.
Proof.
  unfold right_only.
  destruct (onlyo lo lp) as [|n1 l1]; cbn [is_nil]; [split; [discriminate|intros [H _]; congruence]|].
  destruct (unmatched_p lo lp ro rp) as [|u1 r1]; cbn [is_nil]; [split; [discriminate|intros [_ [H _]]; congruence]|].
  destruct (Nat.eqb (length lp) 1) eqn:E.
  - apply Nat.eqb_eq in E. split; [discriminate|intros [_ [_ H]]; congruence].
  - apply Nat.eqb_neq in E. split; [intros _; repeat split; congruence|reflexivity].
Qed.

Theorem bcast_raises_iff (o p : frame V) :
  bcast o p = Raise <->
  have_commons (lv o) (lv p) = true /\
  ((newlv (lv o) (lv p) <> [] /\ unmatched_o (lv o) (lv p) (rows o) (rows p) <> [] /\ length (lv o) <> 1%nat) \/
   (onlyo (lv o) (lv p) <> [] /\ unmatched_p (lv o) (lv p) (rows o) (rows p) <> [] /\ length (lv p) <> 1%nat)).
Proof.
  rewrite <- left_only_none, <- right_only_none. unfold bcast.
  destruct (have_commons (lv o) (lv p)); [|split; [discriminate|intros [H _]; discriminate]].
  destruct (left_only _ _ _ _), (right_only _ _ _ _); split; try discriminate; try tauto.
  intros [_ [H|H]]; discriminate.
Qed.

(* in particular the layouts of the quantifier other than 'contained' never raise:
   equal level-name sets, disjoint sets, and overlapping sets whose shared keys are present in both operands *)
Corollary equal_levels_defined (o p : frame V) :
  newlv (lv o) (lv p) = [] -> onlyo (lv o) (lv p) = [] -> bcast o p <> Raise.
Proof. intros H1 H2 H. apply bcast_raises_iff in H. destruct H as [_ [[H _]|[H _]]]; contradiction. Qed.
Corollary disjoint_levels_defined (o p : frame V) :
  have_commons (lv o) (lv p) = false -> bcast o p <> Raise.
Proof. intros H1 H. apply bcast_raises_iff in H. destruct H as [H _]. congruence. Qed.
Corollary all_matched_defined (o p : frame V) :
  unmatched_o (lv o) (lv p) (rows o) (rows p) = [] -> unmatched_p (lv o) (lv p) (rows o) (rows p) = [] -> bcast o p <> Raise.
Proof. intros H1 H2 H. apply bcast_raises_iff in H. destruct H as [_ [[_ [H _]]|[_ [H _]]]]; contradiction. Qed.
(* contained level names: fine as long as the contained operand has one level or no key without partner *)
Corollary contained_defined (o p : frame V) :
  newlv (lv o) (lv p) = [] ->
  (length (lv p) = 1%nat \/ unmatched_p (lv o) (lv p) (rows o) (rows p) = []) -> bcast o p <> Raise.
Proof.
  intros H1 H2 H. apply bcast_raises_iff in H. destruct H as [_ [[H _]|[_ [H3 H4]]]]; [contradiction|].
  destruct H2; contradiction.
Qed.

End Impl.

(* ------------------------------------------------------------------ witnesses (payload = row number) *)

Definition U (l : list (option nat)) (ks : list key) : uframe Z := UFrame l (number ks).

(* a normal case: per-(element, node) object, per-(node, scenario) parameter, every node present in both *)
Example broadcast_example :
  r_result (bcast_impl (State (U [Some 0%nat; Some 1%nat] [[1; 10]; [1; 20]; [2; 10]])
                              (U [Some 1%nat; Some 2%nat] [[10; 7]; [20; 7]; [10; 8]])))
  = Rows [([1; 10; 7], Some 0, Some 0); ([1; 10; 8], Some 0, Some 2); ([1; 20; 7], Some 1, Some 1);
          ([2; 10; 7], Some 2, Some 0); ([2; 10; 8], Some 2, Some 2)].
Proof. vm_compute. reflexivity. Qed.

(* known finding contained-extra-key: "broadcast is defined for contained level names" is false of the faithful model *)
Definition contained_witness : state Z :=
  State (U [Some 0%nat; Some 1%nat; Some 2%nat] [[1; 5; 10]; [2; 5; 20]]) (U [Some 1%nat; Some 2%nat] [[5; 10]; [5; 20]; [6; 30]]).
Theorem contained_defined_refuted :
  exists s : state Z, r_result (bcast_impl s) = Raise /\
    newlv (fst (r_named (bcast_impl s))) (snd (r_named (bcast_impl s))) = [].
Proof. exists contained_witness. vm_compute. split; reflexivity. Qed.

(* there is no try/finally: after the exception the operands keep the positional codes as index *)
Theorem operands_left_recoded_on_exception :
  exists s : state Z, r_result (bcast_impl s) = Raise /\ r_final (bcast_impl s) = None /\
    map fst (rows (fst (r_coded (bcast_impl s)))) <> map fst (urows (st_obj s)).
Proof. exists contained_witness. vm_compute. repeat split; discriminate. Qed.

(* known finding coincident-codes: the re-coding is NOT transparent when the coded indices coincide *)
Definition coincident_witness : state Z :=
  State (U [Some 0%nat; Some 1%nat] [[1; 5]; [2; 6]]) (U [Some 0%nat; Some 2%nat] [[1; 10]; [2; 20]]).
Theorem recode_transparent_refuted :
  exists s : state Z,
    let r := bcast_impl s in
    r_result r = Unaligned /\
    bcast (Frame (fst (r_named r)) (urows (st_obj s))) (Frame (snd (r_named r)) (urows (st_prm s)))
    = Rows [([1; 5; 10], Some 0, Some 0); ([2; 6; 20], Some 1, Some 1)].
Proof. exists coincident_witness. vm_compute. split; reflexivity. Qed.

(* ------------------------------------------------------------------ the dispatch of Broadcaster.broadcast *)

Theorem paramset_iff k l : is_paramset k l = true <-> k = KSeries /\ l = [None].
Proof.
  split.
  - destruct k; cbn; [|discriminate]. destruct l as [|[n|] [|x l]]; try discriminate. now intros _.
  - intros [-> ->]. reflexivity.
Qed.

(* a DataFrame, an object with a number of levels other than one, an object with a named level: joined as it is *)
Theorem row_indexed_joined_as_is (V : Type) k (w : V) (s : state V) :
  k = KFrame \/ length (ulv (st_obj s)) <> 1%nat \/ (exists n, In (Some n) (ulv (st_obj s))) ->
  as_joined k w (st_obj s) = st_obj s /\ broadcast_top k w s = bcast_impl s.
Proof.
  intros H.
  assert (E : is_paramset k (ulv (st_obj s)) = false).
  { destruct (is_paramset k (ulv (st_obj s))) eqn:E; [|reflexivity]. apply paramset_iff in E. destruct E as [-> E].
    rewrite E in H. destruct H as [H|[H|[n [H|[]]]]]; [discriminate|now elim H|discriminate]. }
  assert (A : as_joined k w (st_obj s) = st_obj s) by (unfold as_joined; now rewrite E).
  split; [exact A|]. unfold broadcast_top. rewrite A. now destruct s.
Qed.

Lemma name_levels_length l : forall s, length (fst (name_levels s l)) = length l.
Proof.
  induction l as [|[n|] l IH]; intros s; cbn; [reflexivity| |].
  - specialize (IH s). destruct (name_levels s l) as [r e]. cbn in *. now rewrite IH.
  - specialize (IH (S s)). destruct (name_levels (S s) l) as [r e]. cbn in *. now rewrite IH.
Qed.

Lemma result_levels_length lo lp : (length lo <= length (result_levels lo lp))%nat.
Proof.
  unfold result_levels.
  destruct (have_commons lo lp && Nat.leb (length (total lo lp)) 2).
  - destruct (Nat.leb (length lp) (length lo)) eqn:E; [lia|]. apply Nat.leb_gt in E. lia.
  - unfold total. rewrite app_length. lia.
Qed.

(* every index level of a row-indexed object is still there in the returned objects (they have at least as many levels) *)
Theorem object_levels_survive (V : Type) k (w : V) (s : state V) :
  is_paramset k (ulv (st_obj s)) = false ->
  (length (ulv (st_obj s)) <= length (r_levels (broadcast_top k w s)))%nat.
Proof.
  intros E. unfold broadcast_top, as_joined. rewrite E.
  destruct s as [[lo ro] [lp rp]]. unfold bcast_impl. cbn [st_obj st_prm ulv urows].
  destruct (name_levels 0 lp) as [nlp e] eqn:Ep.
  pose proof (name_levels_length lo e) as Ho. destruct (name_levels e lo) as [nlo e'] eqn:Eo. cbn in Ho.
  cbn [r_levels]. rewrite map_length. rewrite <- Ho. apply result_levels_length.
Qed.

Lemma total_nil l : total [] l = l.
Proof. unfold total, newlv. cbn. induction l as [|n l IH]; [reflexivity|]. cbn. now rewrite IH. Qed.

(* a parameter set adds no level: the returned objects are on the parameter's index levels *)
Theorem paramset_on_parameter_levels (V : Type) (w : V) (s : state V) :
  is_paramset KSeries (ulv (st_obj s)) = true ->
  r_levels (broadcast_top KSeries w s) = ulv (st_prm s).
Proof.
  intros E. unfold broadcast_top, as_joined. rewrite E.
  destruct s as [[lo ro] [lp rp]]. unfold bcast_impl. cbn [st_obj st_prm ulv urows].
  pose proof (name_levels_unname lp 0) as Hp. destruct (name_levels 0 lp) as [nlp e]. cbn in Hp.
  cbn [name_levels r_levels].
  pose proof (total_nil nlp) as T.
  assert (R : result_levels [] nlp = nlp).
  { unfold result_levels, have_commons. rewrite T. cbn [length]. rewrite Nat.add_0_r, Nat.ltb_irrefl. reflexivity. }
  rewrite R. exact Hp.
Qed.
