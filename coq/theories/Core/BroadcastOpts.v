(* C13 -- the options / input dimensions of Broadcaster.broadcast beyond level names and keys:

   * the KIND of index that holds a single level (pandas Index, one-level MultiIndex, RangeIndex = the default index);
     _IndexLevelCache._make_new_index re-codes every kind BY VALUE (get_indexer_for in the level table): a RangeIndex is
     nothing but the list of its values start, start+step, ...;  coding it by POSITION instead is right only when the
     level table lists exactly these values first, in this order -- which is not the case when the object lists the
     keys of a shared level in another order ([range_positional_refuted]);
   * the `droplevel` option: after the alignment the parameter is grouped by the result levels without the dropped ones
     (`prm.groupby(prm_columns).first()`): one row per KEY over the remaining levels -- rows are identified by their key,
     never by their values -- carrying the value the original parameter held for that key ([drop_prm_carries]). *)
From Coq Require Import ZArith List Bool Lia.
From PL Require Import Core.Broadcast Core.BroadcastThm Core.BroadcastImpl.
Import ListNotations.
Open Scope Z_scope.

(* ------------------------------------------------------------------ index kinds *)

Inductive ikind := IIndex | IMulti | IRange (start step : Z).

(* the values of RangeIndex(start, start + n*step, step) *)
Definition range_keys (start step : Z) (n : nat) : list key :=
  map (fun i => [start + step * Z.of_nat i]) (seq 0 n).

(* can an index of this kind hold these levels / keys? *)
Definition index_ok (k : ikind) (l : list (option nat)) (ks : list key) : bool :=
  match k with
  | IIndex => Nat.eqb (length l) 1
  | IMulti => negb (Nat.eqb (length l) 0)
  | IRange a s => Nat.eqb (length l) 1 && negb (s =? 0) && keys_eqb ks (range_keys a s (length ks))
  end.

Lemma range_keys_length a s n : length (range_keys a s n) = n.
Proof. unfold range_keys. now rewrite map_length, seq_length. Qed.

(* the re-coding looks VALUES up, whatever kind of index holds them: row i of a RangeIndex operand gets the position of
   the value start + step*i in the level table *)
Theorem range_coded_by_value (V : Type) tbl n a s (vals : list V) :
  map fst (rows (fmap (encode tbl) (Frame [n] (combine (range_keys a s (length vals)) vals))))
  = map (fun i => [encode tbl n (a + s * Z.of_nat i)]) (seq 0 (length vals)).
Proof.
  unfold fmap; cbn [rows lv]. rewrite map_map. cbn [fst].
  unfold range_keys. generalize 0%nat as st. induction vals as [|v vals IH]; intros st; cbn; [reflexivity|].
  f_equal. apply IH.
Qed.

(* coding by position (code of row i := i) agrees with it only if the table of that level lists the range's own values
   first and in the range's order *)
Theorem positional_code_only_if tbl n a s m :
  (forall i, (i < m)%nat -> In (a + s * Z.of_nat i) (tbl n)) ->
  (forall i, (i < m)%nat -> encode tbl n (a + s * Z.of_nat i) = Z.of_nat i) ->
  forall i, (i < m)%nat -> nth i (tbl n) 0 = a + s * Z.of_nat i.
Proof.
  intros Hin Hpos i Hi. pose proof (decode_encode tbl n (a + s * Z.of_nat i) (Hin i Hi)) as E.
  rewrite (Hpos i Hi) in E. unfold decode in E. rewrite Nat2Z.id in E. exact E.
Qed.

(* Woehler curves listed per element 2, 0, 3, 1 against loads on RangeIndex(4) with the same level name: the parameter's
   codes are NOT its positions (the object's keys come first in the table), and the model pairs the rows by key *)
Theorem range_positional_refuted :
  exists s : state Z,
    index_ok (IRange 0 1) (ulv (st_prm s)) (map fst (urows (st_prm s))) = true /\
    ulv (st_obj s) = ulv (st_prm s) /\
    map fst (rows (snd (r_coded (bcast_impl s)))) = [[1]; [3]; [0]; [2]] /\
    map fst (rows (snd (r_coded (bcast_impl s)))) <> map fst (urows (st_prm s)) /\
    r_result (bcast_impl s) = Rows [([2], Some 0, Some 2); ([0], Some 1, Some 0); ([3], Some 2, Some 3); ([1], Some 3, Some 1)].
Proof.
  exists (State (UFrame [Some 0%nat] (number [[2]; [0]; [3]; [1]])) (UFrame [Some 0%nat] (number (range_keys 0 1 4)))).
  repeat split; try (vm_compute; reflexivity). vm_compute. discriminate.
Qed.

(* ------------------------------------------------------------------ droplevel *)

Definition keepl (D l : list name) : list name := filter (fun n => negb (mem n D)) l.

(* first occurrences of keys, in order *)
Fixpoint kuniq (l : list key) : list key :=
  match l with
  | [] => []
  | x :: r => x :: filter (fun y => negb (key_eqb y x)) (kuniq r)
  end.

Lemma key_eqb_refl k : key_eqb k k = true.
Proof. apply key_eqb_eq. reflexivity. Qed.

Lemma kuniq_In x l : In x (kuniq l) <-> In x l.
Proof.
  induction l as [|y l IH]; cbn; [tauto|]. rewrite filter_In, IH, negb_true_iff.
  destruct (key_eqb x y) eqn:E.
  - apply key_eqb_eq in E. subst. split; [tauto|]. intros _. left. reflexivity.
  - split; [tauto|]. intros [H|H]; [subst; rewrite key_eqb_refl in E; discriminate|tauto].
Qed.

Lemma kuniq_NoDup l : NoDup (kuniq l).
Proof.
  induction l as [|y l IH]; cbn; [constructor|]. constructor.
  - rewrite filter_In, key_eqb_refl. cbn. intros [_ H]. discriminate.
  - apply NoDup_filter. exact IH.
Qed.

Section Drop.
Variable V : Type.

(* GroupBy.first(): the first non-NaN entry of the group *)
Fixpoint first_some (l : list (option V)) : option V :=
  match l with
  | [] => None
  | Some v :: _ => Some v
  | None :: r => first_some r
  end.

Definition group (tot kl : list name) (g : key) (R : list (arow V)) : list (arow V) :=
  filter (fun t => key_eqb (proj tot (akey t) kl) g) R.

(* prm.groupby(prm_columns).first() with prm_columns = total_columns without droplevel, on the aligned rows [R]
   (keys over [tot]): one row per key over the remaining levels *)
Definition drop_prm (D tot : list name) (R : list (arow V)) : list (key * option V) :=
  let kl := keepl D tot in
  map (fun g => (g, first_some (map aprm (group tot kl g R))))
      (kuniq (map (fun t => proj tot (akey t) kl) R)).

(* the returned parameter has exactly the keys of the aligned rows without the dropped components, each once:
   rows are told apart by their KEY (two rows holding equal values stay two rows) *)
Theorem drop_prm_keys D tot (R : list (arow V)) g :
  In g (map fst (drop_prm D tot R)) <-> exists t, In t R /\ proj tot (akey t) (keepl D tot) = g.
Proof.
  unfold drop_prm. rewrite map_map. cbn [fst]. rewrite map_id, kuniq_In, in_map_iff.
  split; intros [t [A B]]; exists t; tauto.
Qed.

Theorem drop_prm_one_row_per_key D tot (R : list (arow V)) : NoDup (map fst (drop_prm D tot R)).
Proof. unfold drop_prm. rewrite map_map. cbn [fst]. rewrite map_id. apply kuniq_NoDup. Qed.

Lemma first_some_const (l : list (option V)) c : l <> [] -> (forall x, In x l -> x = c) -> first_some l = c.
Proof.
  destruct l as [|x l]; [congruence|]. intros _ H. cbn.
  assert (E : x = c) by (apply H; left; reflexivity). subst x.
  destruct c as [v|]; [reflexivity|].
  induction l as [|y l IH]; [reflexivity|]. cbn.
  assert (E : y = None) by (apply H; right; left; reflexivity). subst y. apply IH.
  intros x Hx. apply H. destruct Hx as [Hx|Hx]; [left; exact Hx|right; right; exact Hx].
Qed.

Lemma proj_keep tot kl k lp :
  (forall n, In n lp -> In n kl) -> proj kl (proj tot k kl) lp = proj tot k lp.
Proof. intros H. unfold proj at 1 3. apply map_ext_in. intros n Hn. apply get_proj. apply H. exact Hn. Qed.

(* every row of the returned parameter carries exactly what the original parameter held for the row's key restricted to
   the parameter's own levels (NaN if it has no such key), provided only levels the parameter does not have are dropped *)
Theorem drop_prm_carries (o p : frame V) R D g v :
  wf V o -> wf V p -> bcast o p = Rows R ->
  (forall n, In n D -> ~ In n (lv p)) ->
  In (g, v) (drop_prm D (total (lv o) (lv p)) R) ->
  v = lookup (proj (keepl D (total (lv o) (lv p))) g (lv p)) (rows p).
Proof.
  intros Wo Wp HR HD Hin. unfold drop_prm in Hin. apply in_map_iff in Hin.
  destruct Hin as [g' [E Hg]]. inversion E; subst g' v; clear E.
  apply kuniq_In, in_map_iff in Hg. destruct Hg as [t0 [Et0 Ht0]].
  set (tot := total (lv o) (lv p)) in *. set (kl := keepl D tot) in *.
  assert (Hsub : forall n, In n (lv p) -> In n kl).
  { intros n Hn. unfold kl, keepl. apply filter_In. split.
    - unfold tot. apply in_total. destruct (in_dec (fun a b => match name_eqb a b as x return name_eqb a b = x -> {a = b} + {a <> b} with
                                            | true => fun H => left (proj1 (name_eqb_eq a b) H)
                                            | false => fun H => right (proj1 (name_eqb_neq a b) H) end eq_refl) n (lv o)); tauto.
    - apply negb_true_iff, mem_nIn. intros HnD. exact (HD n HnD Hn). }
  apply first_some_const.
  - intros Hnil. assert (Hm : In (aprm t0) (map aprm (group tot kl g R))).
    { apply in_map. unfold group. apply filter_In. split; [exact Ht0|]. apply key_eqb_eq. exact Et0. }
    rewrite Hnil in Hm. exact Hm.
  - intros x Hx. apply in_map_iff in Hx. destruct Hx as [t [<- Ht]]. unfold group in Ht.
    apply filter_In in Ht. destruct Ht as [Ht Hk]. apply key_eqb_eq in Hk.
    destruct (rows_carry_restricted_value V o p R Wo Wp HR t Ht) as [_ Hp].
    rewrite Hp. fold tot. rewrite <- Hk. rewrite (proj_keep tot kl (akey t) (lv p) Hsub). reflexivity.
Qed.

End Drop.

Arguments drop_prm {V}. Arguments first_some {V}. Arguments group {V}.

(* a parameter with ties: three rows, two of them holding equal values (payloads are abstract here: the model never
   looks at them); dropping the object's private level gives the parameter back with ALL its keys *)
Example drop_keeps_tied_rows :
  let o := Frame [User 0; User 1] [([1; 10], 100); ([1; 20], 101); ([2; 10], 102)] in
  let p := Frame [User 0; User 2] [([1; 7], 5); ([1; 8], 5); ([2; 7], 5)] in
  exists R, bcast o p = Rows R /\
    drop_prm [User 1] (total (lv o) (lv p)) R = [([1; 7], Some 5); ([1; 8], Some 5); ([2; 7], Some 5)].
Proof. eexists. split; vm_compute; reflexivity. Qed.

(* ------------------------------------------------------------------ executable comparison with the options *)

Definition prow_eqb (a b : key * option Z) : bool := key_eqb (fst a) (fst b) && optZ_eqb (snd a) (snd b).
Definition pcount (a : key * option Z) (l : list (key * option Z)) : nat := length (filter (prow_eqb a) l).
Definition prows_perm_eqb (a b : list (key * option Z)) : bool :=
  Nat.eqb (length a) (length b) && forallb (fun t => Nat.eqb (pcount t a) (pcount t b)) a.

(* what the implementation-level model returns as the parameter under droplevel [D] (user level names) *)
Definition drop_impl (D : list nat) (r : run Z) : option (list (key * option Z) * list (option nat)) :=
  let '(lo, lp) := r_named r in
  let kl := keepl (map User D) (total lo lp) in
  match r_result r with
  | Rows R => Some (drop_prm (map User D) (total lo lp) R, map unname kl)
  | _ => None
  end.

(* one correspondence case with all options: object kind (dispatch), index kinds of both operands, droplevel.
   [exp_levels]/[exp]: the returned object (and, without droplevel, the returned parameter: same index);
   [pexp_levels]/[pexp]: the returned parameter under droplevel. *)
Definition check_case_opts (k : okind) (iko ikp : ikind)
           (lo : list (option nat)) (ko : list key) (lp : list (option nat)) (kp : list key) (D : list nat)
           (exp_levels : list (option nat)) (exp : outcome Z)
           (pexp_levels : list (option nat)) (pexp : list (key * option Z)) : bool :=
  index_ok iko lo ko && index_ok ikp lp kp
  && check_case_top k lo ko lp kp exp_levels exp
  && match D, exp with
     | _ :: _, Rows _ =>
         let o := as_joined k 0 (UFrame lo (number ko)) in
         match drop_impl D (bcast_impl (State o (UFrame lp (number kp)))) with
         | Some (rows, lv) => prows_perm_eqb rows pexp && onames_eqb lv pexp_levels
         | None => false
         end
     | _, _ => true
     end.
