(* C13 -- the positional re-coding around the join is transparent: joining the coded operands and decoding the result
   index is the same as joining the operands themselves (unless the coded indices coincide, see [coincide]). *)
From Coq Require Import ZArith List Bool Lia.
From PL Require Import Core.Broadcast Core.BroadcastThm Core.BroadcastImpl.
Import ListNotations.
Open Scope Z_scope.

(* ------------------------------------------------------------------ kmap *)

Lemma get_kmap f n l k : In n l -> length k = length l -> get n l (kmap f l k) = f n (get n l k).
Proof.
  revert k; induction l as [|a l IH]; intros [|x k] Hin Hlen; cbn in *; try contradiction; try discriminate.
  destruct (name_eqb n a) eqn:E.
  - apply name_eqb_eq in E. subst. reflexivity.
  - apply IH; [|lia]. destruct Hin as [->|H]; [rewrite name_eqb_refl in E; discriminate|exact H].
Qed.

Lemma kmap_map f (g : name -> Z) l : kmap f l (map g l) = map (fun n => f n (g n)) l.
Proof. induction l as [|a l IH]; cbn; [reflexivity|]. now rewrite IH. Qed.

Lemma proj_kmap f l k l' :
  (forall n, In n l' -> In n l) -> length k = length l -> proj l (kmap f l k) l' = kmap f l' (proj l k l').
Proof.
  intros Hs Hl. unfold proj. rewrite kmap_map. apply map_ext_in. intros n Hn. apply get_kmap; auto.
Qed.

Lemma kmap_app f l1 l2 k1 k2 :
  length k1 = length l1 -> kmap f (l1 ++ l2) (k1 ++ k2) = kmap f l1 k1 ++ kmap f l2 k2.
Proof.
  revert k1; induction l1 as [|a l1 IH]; intros [|x k1] H; cbn in *; try discriminate; [reflexivity|].
  f_equal. apply IH. lia.
Qed.

Lemma kmap_kmap f g l k : kmap g l (kmap f l k) = kmap (fun n x => g n (f n x)) l k.
Proof. revert k; induction l as [|a l IH]; intros [|x k]; cbn; try reflexivity. f_equal. apply IH. Qed.

Lemma kmap_id f l k :
  NoDup l -> length k = length l -> (forall n, In n l -> f n (get n l k) = get n l k) -> kmap f l k = k.
Proof.
  revert k; induction l as [|a l IH]; intros [|x k] Hnd Hlen H; cbn in *; try discriminate; [reflexivity|].
  inversion Hnd as [|? ? Hna Hnd']; subst. f_equal.
  - specialize (H a (or_introl eq_refl)). rewrite name_eqb_refl in H. exact H.
  - apply IH; [assumption|lia|]. intros n Hn. specialize (H n (or_intror Hn)).
    destruct (name_eqb n a) eqn:E; [apply name_eqb_eq in E; subst; contradiction|exact H].
Qed.

(* ------------------------------------------------------------------ list helpers *)

Lemma forallb_ext_in {A} (f g : A -> bool) l : (forall x, In x l -> f x = g x) -> forallb f l = forallb g l.
Proof.
  induction l as [|a l IH]; intros H; cbn; [reflexivity|]. rewrite (H a (or_introl eq_refl)), IH; [reflexivity|].
  intros x Hx. apply H. now right.
Qed.

Lemma filter_map_ext_in {A B} (f : B -> bool) (h : A -> bool) (g : A -> B) l :
  (forall x, In x l -> f (g x) = h x) -> filter f (map g l) = map g (filter h l).
Proof.
  induction l as [|a l IH]; intros H; cbn; [reflexivity|]. rewrite (H a (or_introl eq_refl)).
  rewrite IH by (intros x Hx; apply H; now right). destruct (h a); reflexivity.
Qed.

Lemma existsb_map_ext_in {A B} (f : B -> bool) (h : A -> bool) (g : A -> B) l :
  (forall x, In x l -> f (g x) = h x) -> existsb f (map g l) = existsb h l.
Proof.
  induction l as [|a l IH]; intros H; cbn; [reflexivity|]. rewrite (H a (or_introl eq_refl)).
  rewrite IH by (intros x Hx; apply H; now right). reflexivity.
Qed.

Lemma flat_map_map_ext_in {A B C D} (F : B -> list C) (G : A -> list D) (g : A -> B) (m : D -> C) l :
  (forall a, In a l -> F (g a) = map m (G a)) -> flat_map F (map g l) = map m (flat_map G l).
Proof.
  induction l as [|a l IH]; intros H; cbn; [reflexivity|]. rewrite map_app, (H a (or_introl eq_refl)).
  rewrite IH by (intros x Hx; apply H; now right). reflexivity.
Qed.

Lemma is_nil_map {A B} (g : A -> B) l : is_nil (map g l) = is_nil l.
Proof. destruct l; reflexivity. Qed.

Lemma onlyo_nil_total lo lp : onlyo lo lp = [] -> forall n, In n (total lo lp) -> In n lp.
Proof.
  intros H n Hn. apply in_total in Hn. destruct Hn as [Hn|[Hn _]]; [|exact Hn].
  destruct (mem n lp) eqn:E; [apply mem_In; exact E|].
  assert (In n (onlyo lo lp)) by (unfold onlyo; apply filter_In; rewrite E; tauto). rewrite H in *. contradiction.
Qed.

(* ------------------------------------------------------------------ the join commutes with an injective per-level recoding *)

Section Recode.
Variable V : Type.
Variables (o p : frame V) (phi psi : name -> Z -> Z) (T : name -> list Z).
Hypothesis Ho : wf V o.
Hypothesis Hp : wf V p.
Hypothesis HTo : forall a n, In a (rows o) -> In n (lv o) -> In (get n (lv o) (fst a)) (T n).
Hypothesis HTp : forall b n, In b (rows p) -> In n (lv p) -> In (get n (lv p) (fst b)) (T n).
Hypothesis Hinj : forall n x y, In x (T n) -> In y (T n) -> phi n x = phi n y -> x = y.
Hypothesis Hinv : forall n x, In x (T n) -> psi n (phi n x) = x.

Let lo := lv o.
Let lp := lv p.
Let ro := rows o.
Let rp := rows p.
Let tot := total lo lp.
Let go (a : key * V) : key * V := (kmap phi lo (fst a), snd a).
Let gp (b : key * V) : key * V := (kmap phi lp (fst b), snd b).
Let tm (t : arow V) : arow V := (kmap phi tot (akey t), aobj t, aprm t).

Lemma len_o a : In a ro -> length (fst a) = length lo.
Proof. destruct Ho as [_ [H _]]. apply H. Qed.
Lemma len_p b : In b rp -> length (fst b) = length lp.
Proof. destruct Hp as [_ [H _]]. apply H. Qed.

Lemma agree_kmap a b : In a ro -> In b rp -> agree lo lp (fst (go a)) (fst (gp b)) = agree lo lp (fst a) (fst b).
Proof.
  intros Ha Hb. unfold agree. apply forallb_ext_in. intros n Hn. apply in_shared in Hn. destruct Hn as [Hnp Hno].
  cbn. rewrite get_kmap by (auto using len_o). rewrite get_kmap by (auto using len_p).
  pose proof (HTo a n Ha Hno) as Hx. pose proof (HTp b n Hb Hnp) as Hy. fold lo in Hx. fold lp in Hy.
  destruct (Z.eqb_spec (get n lo (fst a)) (get n lp (fst b))) as [E|E].
  - rewrite E. apply Z.eqb_refl.
  - apply Z.eqb_neq. intros E'. apply E. apply (Hinj n); assumption.
Qed.

Lemma matched_kmap : matched lo lp (map go ro) (map gp rp) = map tm (matched lo lp ro rp).
Proof.
  unfold matched. apply flat_map_map_ext_in. intros a Ha. unfold matches.
  rewrite (filter_map_ext_in _ (fun b => agree lo lp (fst a) (fst b))) by (intros b Hb; apply agree_kmap; assumption).
  rewrite !map_map. apply map_ext_in. intros b Hb. apply filter_In in Hb. destruct Hb as [Hb _].
  unfold tm, akey, aobj, aprm. cbn. f_equal. f_equal.
  unfold tot, total. rewrite kmap_app by (apply len_o; exact Ha). f_equal.
  apply proj_kmap; [|apply len_p; exact Hb]. intros n Hn. apply in_newlv in Hn. tauto.
Qed.

Lemma unmatched_o_kmap : unmatched_o lo lp (map go ro) (map gp rp) = map go (unmatched_o lo lp ro rp).
Proof.
  unfold unmatched_o. apply filter_map_ext_in. intros a Ha. f_equal.
  apply existsb_map_ext_in. intros b Hb. apply agree_kmap; assumption.
Qed.

Lemma unmatched_p_kmap : unmatched_p lo lp (map go ro) (map gp rp) = map gp (unmatched_p lo lp ro rp).
Proof.
  unfold unmatched_p. apply filter_map_ext_in. intros b Hb. f_equal.
  apply existsb_map_ext_in. intros a Ha. apply agree_kmap; assumption.
Qed.

Lemma left_only_kmap : left_only lo lp (map go ro) (map gp rp) = option_map (map tm) (left_only lo lp ro rp).
Proof.
  unfold left_only. rewrite unmatched_o_kmap, is_nil_map.
  destruct (newlv lo lp) as [|n1 l1] eqn:En; cbn [is_nil].
  - cbn. f_equal. rewrite !map_map. apply map_ext. intros a. unfold tm, akey, aobj, aprm, go. cbn.
    unfold tot, total. rewrite En, app_nil_r. reflexivity.
  - destruct (is_nil _); [reflexivity|]. destruct (Nat.eqb _ _); reflexivity.
Qed.

Lemma right_only_kmap : right_only lo lp (map go ro) (map gp rp) = option_map (map tm) (right_only lo lp ro rp).
Proof.
  unfold right_only. rewrite unmatched_p_kmap, is_nil_map.
  destruct (onlyo lo lp) as [|n1 l1] eqn:En; cbn [is_nil].
  - cbn. f_equal. rewrite !map_map. apply map_ext_in. intros b Hb. unfold tm, akey, aobj, aprm, gp. cbn.
    f_equal. f_equal. apply proj_kmap.
    + apply onlyo_nil_total. exact En.
    + apply len_p. unfold unmatched_p in Hb. apply filter_In in Hb. tauto.
  - destruct (is_nil _); [reflexivity|]. destruct (Nat.eqb _ _); reflexivity.
Qed.

Lemma bcast_kmap : bcast (fmap phi o) (fmap phi p) = omap (kmap phi tot) (bcast o p).
Proof.
  unfold bcast, fmap. cbn [lv rows]. fold lo lp ro rp go gp.
  change (map (fun a : key * V => (kmap phi lo (fst a), snd a)) ro) with (map go ro).
  change (map (fun a : key * V => (kmap phi lp (fst a), snd a)) rp) with (map gp rp).
  rewrite matched_kmap, left_only_kmap, right_only_kmap.
  destruct (have_commons lo lp).
  - destruct (left_only lo lp ro rp), (right_only lo lp ro rp); cbn; try reflexivity.
    rewrite !map_app. reflexivity.
  - reflexivity.
Qed.

(* shape of the result rows, and: every component of a result key is a value of its level's table *)
Lemma result_key_in_table R t :
  bcast o p = Rows R -> In t R ->
  length (akey t) = length tot /\ forall n, In n tot -> In (get n tot (akey t)) (T n).
Proof.
  intros Hb Ht.
  assert (Hm : forall t, In t (matched lo lp ro rp) ->
               length (akey t) = length tot /\ forall n, In n tot -> In (get n tot (akey t)) (T n)).
  { clear t Ht. intros t Ht. apply in_matched in Ht. destruct Ht as [a [b [Ha [Hbb [Hag ->]]]]]. unfold akey; cbn. split.
    - unfold tot, total. rewrite !app_length, proj_length. rewrite (len_o a Ha). reflexivity.
    - intros n Hn. unfold tot, total. destruct (mem n lo) eqn:E.
      + apply mem_In in E. rewrite get_app_l by (try assumption; symmetry; apply len_o; exact Ha). apply HTo; assumption.
      + apply mem_nIn in E. rewrite get_app_r by (try assumption; symmetry; apply len_o; exact Ha).
        apply in_total in Hn. destruct Hn as [Hn|[Hn _]]; [contradiction|].
        rewrite get_proj by (apply in_newlv; tauto). apply HTp; assumption. }
  unfold bcast in Hb. fold lo lp ro rp in Hb. destruct (have_commons lo lp).
  - destruct (left_only lo lp ro rp) as [l|] eqn:El; [|discriminate].
    destruct (right_only lo lp ro rp) as [r|] eqn:Er; [|discriminate].
    injection Hb as <-. rewrite !in_app_iff in Ht. destruct Ht as [Ht|[Ht|Ht]]; [apply Hm; exact Ht| |].
    + unfold left_only in El. destruct (newlv lo lp) as [|n1 l1] eqn:En; cbn [is_nil] in El.
      * injection El as <-. apply in_map_iff in Ht. destruct Ht as [a [<- Ha]]. unfold akey; cbn.
        apply in_unmatched_o in Ha. destruct Ha as [Ha _].
        unfold tot, total. rewrite En, app_nil_r. split; [apply len_o; exact Ha|].
        intros n Hn. apply HTo; assumption.
      * destruct (is_nil (unmatched_o lo lp ro rp)); [injection El as <-; destruct Ht|].
        destruct (Nat.eqb (length lo) 1); [injection El as <-; destruct Ht|discriminate].
    + unfold right_only in Er. destruct (onlyo lo lp) as [|n1 l1] eqn:En; cbn [is_nil] in Er.
      * injection Er as <-. apply in_map_iff in Ht. destruct Ht as [b [<- Hbb]]. unfold akey; cbn.
        apply in_unmatched_p in Hbb. destruct Hbb as [Hbb _]. split; [apply proj_length|].
        intros n Hn. rewrite get_proj by exact Hn. apply HTp; [exact Hbb|].
        apply (onlyo_nil_total lo lp En). exact Hn.
      * destruct (is_nil (unmatched_p lo lp ro rp)); [injection Er as <-; destruct Ht|].
        destruct (Nat.eqb (length lp) 1); [injection Er as <-; destruct Ht|discriminate].
  - injection Hb as <-. apply Hm. exact Ht.
Qed.

(* join the coded operands, decode the result index = join the operands *)
Theorem join_recode_transparent :
  omap (kmap psi tot) (bcast (fmap phi o) (fmap phi p)) = bcast o p.
Proof.
  rewrite bcast_kmap. destruct (bcast o p) as [R| |] eqn:Hb; cbn; try reflexivity. f_equal.
  rewrite map_map. rewrite <- (map_id R) at 2. apply map_ext_in. intros t Ht.
  destruct (result_key_in_table R t Hb Ht) as [Hlen Hin].
  unfold akey, aobj, aprm; cbn. fold (akey t).
  rewrite kmap_kmap. rewrite kmap_id.
  - destruct t as [[k a] b]. reflexivity.
  - destruct Ho as [Hno _]. destruct Hp as [Hnp _]. apply NoDup_total; assumption.
  - exact Hlen.
  - intros n Hn. apply Hinv. apply Hin. exact Hn.
Qed.

End Recode.

(* ---- the implementation-level model returns the specification-level join of the operands (named levels, real keys),
        for every layout, unless the coded indices coincide *)
Theorem recode_transparent (V : Type) (s : state V) :
  let r := bcast_impl s in
  let o := Frame (fst (r_named r)) (urows (st_obj s)) in
  let p := Frame (snd (r_named r)) (urows (st_prm s)) in
  wf V o -> wf V p ->
  coincide (fst (r_coded r)) (snd (r_coded r)) = false ->
  r_result r = bcast o p.
Proof.
  destruct s as [[ulo ro] [ulp rp]]. unfold bcast_impl. cbn [st_obj st_prm ulv urows].
  destruct (name_levels 0 ulp) as [lp e]. destruct (name_levels e ulo) as [lo e'].
  cbn [r_named r_coded r_result fst snd]. intros Ho Hp Hc. rewrite Hc.
  apply (join_recode_transparent V (Frame lo ro) (Frame lp rp) _ _ (table lo lp ro rp)); try assumption.
  - intros a n Ha Hn. apply (proj1 (table_complete V lo lp ro rp n)); assumption.
  - intros b n Hb Hn. apply (proj1 (proj2 (table_complete V lo lp ro rp n))); assumption.
  - intros n x y. apply encode_inj.
  - intros n x. apply decode_encode.
Qed.

(* ---- hence the property holds of what the implementation-level model returns *)
Corollary impl_rows_carry_restricted_value (V : Type) (s : state V) R :
  let r := bcast_impl s in
  let o := Frame (fst (r_named r)) (urows (st_obj s)) in
  let p := Frame (snd (r_named r)) (urows (st_prm s)) in
  wf V o -> wf V p ->
  coincide (fst (r_coded r)) (snd (r_coded r)) = false ->
  r_result r = Rows R ->
  forall t, In t R -> carries V o p t.
Proof.
  intros r o p Ho Hp Hc HR t Ht.
  pose proof (recode_transparent V s Ho Hp Hc) as E. fold r o p in E. rewrite E in HR.
  apply (rows_carry_restricted_value V o p R Ho Hp HR t Ht).
Qed.
