(* C13 -- theorems about the broadcasting model (PL.Core.Broadcast). *)
From Coq Require Import ZArith List Bool Lia.
From PL Require Import Core.Broadcast.
Import ListNotations.
Open Scope Z_scope.

Section Thm.
Variable V : Type.

(* ---- the two returned objects have the same index *)
Lemma same_index (r : list (arow V)) : map fst (res_obj r) = map fst (res_prm r).
Proof. unfold res_obj, res_prm. rewrite !map_map. reflexivity. Qed.

End Thm.
