(* C13 -- theorems about the broadcasting model (PL.Core.Broadcast): the join. *)
From Coq Require Import ZArith List Bool Lia.
From PL Require Import Core.Broadcast.
Import ListNotations.
Open Scope Z_scope.

(* ------------------------------------------------------------------ get / proj *)

Lemma get_app_l n l1 l2 k1 k2 :
  In n l1 -> length l1 = length k1 -> get n (l1 ++ l2) (k1 ++ k2) = get n l1 k1.
Proof.
  revert k1; induction l1 as [|a l1 IH]; intros [|x k1] Hin Hlen; cbn in *; try contradiction; try discriminate.
  destruct (name_eqb n a) eqn:E; [reflexivity|].
  apply IH; [|lia]. destruct Hin as [->|H]; [rewrite name_eqb_refl in E; discriminate|exact H].
Qed.

Lemma get_app_r n l1 l2 k1 k2 :
  ~ In n l1 -> length l1 = length k1 -> get n (l1 ++ l2) (k1 ++ k2) = get n l2 k2.
Proof.
  revert k1; induction l1 as [|a l1 IH]; intros [|x k1] Hin Hlen; cbn in *; try discriminate; [reflexivity|].
  destruct (name_eqb n a) eqn:E.
  - apply name_eqb_eq in E. subst. exfalso. apply Hin. now left.
  - apply IH; [|lia]. intros H. apply Hin. now right.
Qed.

Lemma proj_length l k l' : length (proj l k l') = length l'.
Proof. unfold proj. apply map_length. Qed.

Lemma proj_self l k : NoDup l -> length k = length l -> proj l k l = k.
Proof.
  revert k; induction l as [|a l IH]; intros [|x k] Hnd Hlen; cbn in *; try discriminate; [reflexivity|].
  rewrite name_eqb_refl. f_equal.
  inversion Hnd as [|? ? Hna Hnd']; subst.
  transitivity (proj l k l); [|apply IH; [exact Hnd'|lia]]. unfold proj. apply map_ext_in.
  intros n Hn. cbn. destruct (name_eqb n a) eqn:E; [|reflexivity].
  apply name_eqb_eq in E. subst. contradiction.
Qed.

Lemma get_proj n l k l' : In n l' -> get n l' (proj l k l') = get n l k.
Proof.
  induction l' as [|a l' IH]; intros Hin; cbn in *; [contradiction|].
  destruct (name_eqb n a) eqn:E.
  - apply name_eqb_eq in E. subst. reflexivity.
  - apply IH. destruct Hin as [->|H]; [rewrite name_eqb_refl in E; discriminate|exact H].
Qed.

Lemma in_newlv n lo lp : In n (newlv lo lp) <-> In n lp /\ ~ In n lo.
Proof. unfold newlv. rewrite filter_In, negb_true_iff, mem_nIn. tauto. Qed.
Lemma in_shared n lo lp : In n (shared lo lp) <-> In n lp /\ In n lo.
Proof. unfold shared. rewrite filter_In, mem_In. tauto. Qed.
Lemma in_total n lo lp : In n (total lo lp) <-> In n lo \/ (In n lp /\ ~ In n lo).
Proof. unfold total. rewrite in_app_iff, in_newlv. tauto. Qed.

Lemma NoDup_filter {A} (f : A -> bool) l : NoDup l -> NoDup (filter f l).
Proof.
  induction 1 as [|a l Hna Hnd IH]; cbn; [constructor|].
  destruct (f a); [constructor; [rewrite filter_In; tauto|exact IH]|exact IH].
Qed.

Lemma NoDup_app_intro {A} (l1 l2 : list A) :
  NoDup l1 -> NoDup l2 -> (forall x, In x l1 -> ~ In x l2) -> NoDup (l1 ++ l2).
Proof.
  induction 1 as [|a l1 Hna Hnd IH]; intros H2 Hdis; cbn; [exact H2|].
  constructor.
  - rewrite in_app_iff. intros [H|H]; [contradiction|]. apply (Hdis a); [now left|exact H].
  - apply IH; [exact H2|]. intros x Hx. apply Hdis. now right.
Qed.

Lemma NoDup_total lo lp : NoDup lo -> NoDup lp -> NoDup (total lo lp).
Proof.
  intros Ho Hp. apply NoDup_app_intro; [exact Ho|apply NoDup_filter; exact Hp|].
  intros x Hx H. apply in_newlv in H. tauto.
Qed.

Lemma agree_spec lo lp ko kp :
  agree lo lp ko kp = true <-> (forall n, In n lo -> In n lp -> get n lo ko = get n lp kp).
Proof.
  unfold agree. rewrite forallb_forall. split.
  - intros H n Ho Hp. apply Z.eqb_eq. apply H. apply in_shared. tauto.
  - intros H n Hn. apply in_shared in Hn. apply Z.eqb_eq. apply H; tauto.
Qed.

(* ------------------------------------------------------------------ the join *)

Section Thm.
Variable V : Type.

Definition wf (f : frame V) : Prop :=
  NoDup (lv f) /\ (forall r, In r (rows f) -> length (fst r) = length (lv f)) /\ NoDup (map fst (rows f)).

Lemma lookup_in k v (r : list (key * V)) : NoDup (map fst r) -> In (k, v) r -> lookup k r = Some v.
Proof.
  induction r as [|[k' v'] r IH]; intros Hnd Hin; cbn in *; [contradiction|].
  inversion Hnd as [|? ? Hna Hnd']; subst.
  destruct Hin as [E|Hin].
  - inversion E; subst. replace (key_eqb k k) with true by (symmetry; apply key_eqb_eq; reflexivity). reflexivity.
  - destruct (key_eqb k k') eqn:E.
    + apply key_eqb_eq in E. subst. exfalso. apply Hna. apply (in_map fst) in Hin. exact Hin.
    + apply IH; assumption.
Qed.

Lemma lookup_none k (r : list (key * V)) : (forall v, ~ In (k, v) r) -> lookup k r = None.
Proof.
  induction r as [|[k' v'] r IH]; intros H; cbn; [reflexivity|].
  destruct (key_eqb k k') eqn:E.
  - apply key_eqb_eq in E. subst. exfalso. apply (H v'). now left.
  - apply IH. intros v Hv. apply (H v). now right.
Qed.

Lemma lookup_some k v (r : list (key * V)) : lookup k r = Some v -> In (k, v) r.
Proof.
  induction r as [|[k' v'] r IH]; cbn; [discriminate|].
  destruct (key_eqb k k') eqn:E.
  - apply key_eqb_eq in E. subst. intros H. inversion H; subst. now left.
  - intros H. right. apply IH. exact H.
Qed.

(* the key of a matched pair, restricted to either operand's levels, is that operand's key *)
Lemma matched_key_obj lo lp ka kb :
  NoDup lo -> length ka = length lo ->
  proj (total lo lp) (ka ++ proj lp kb (newlv lo lp)) lo = ka.
Proof.
  intros Hnd Hlen. rewrite <- (proj_self lo ka Hnd Hlen) at 2.
  unfold proj at 1 3. apply map_ext_in. intros n Hn. unfold total. apply get_app_l; [exact Hn|lia].
Qed.

Lemma matched_key_prm lo lp ka kb :
  NoDup lp -> length ka = length lo -> length kb = length lp -> agree lo lp ka kb = true ->
  proj (total lo lp) (ka ++ proj lp kb (newlv lo lp)) lp = kb.
Proof.
  intros Hnd Hla Hlb Hag. rewrite <- (proj_self lp kb Hnd Hlb) at 2.
  unfold proj at 1 3. apply map_ext_in. intros n Hn. unfold total.
  destruct (mem n lo) eqn:E.
  - apply mem_In in E. rewrite get_app_l by (auto; lia). apply (proj1 (agree_spec lo lp ka kb) Hag); assumption.
  - apply mem_nIn in E. rewrite get_app_r by (auto; lia). apply get_proj. apply in_newlv. tauto.
Qed.

Lemma right_key_prm lo lp kb :
  NoDup lp -> length kb = length lp -> proj (total lo lp) (proj lp kb (total lo lp)) lp = kb.
Proof.
  intros Hnp Hl. transitivity (proj lp kb lp); [|apply proj_self; assumption].
  unfold proj at 1 3. apply map_ext_in.
  intros n Hn. apply get_proj. apply in_total.
  destruct (mem n lo) eqn:E; [apply mem_In in E; now left|apply mem_nIn in E; right; tauto].
Qed.

Lemma in_matched lo lp (ro rp : list (key * V)) t :
  In t (matched lo lp ro rp) <->
  exists a b, In a ro /\ In b rp /\ agree lo lp (fst a) (fst b) = true /\ t = ((fst a ++ proj lp (fst b) (newlv lo lp), Some (snd a), Some (snd b)) : arow V).
Proof.
  unfold matched, matches. rewrite in_flat_map. split.
  - intros [a [Ha Ht]]. apply in_map_iff in Ht. destruct Ht as [b [Ht Hb]]. apply filter_In in Hb.
    exists a, b. intuition.
  - intros [a [b [Ha [Hb [Hag Ht]]]]]. exists a. split; [exact Ha|]. apply in_map_iff. exists b.
    split; [symmetry; exact Ht|]. apply filter_In. tauto.
Qed.

Lemma in_unmatched_o lo lp (ro rp : list (key * V)) a :
  In a (unmatched_o lo lp ro rp) <-> In a ro /\ forall b, In b rp -> agree lo lp (fst a) (fst b) = false.
Proof.
  unfold unmatched_o. rewrite filter_In, negb_true_iff. split; intros [Ha H]; split; try exact Ha.
  - intros b Hb. destruct (agree lo lp (fst a) (fst b)) eqn:E; [|reflexivity].
    assert (existsb (fun b => agree lo lp (fst a) (fst b)) rp = true) by (apply existsb_exists; eauto). congruence.
  - destruct (existsb _ rp) eqn:E; [|reflexivity]. apply existsb_exists in E. destruct E as [b [Hb E]].
    rewrite (H b Hb) in E. discriminate.
Qed.

Lemma in_unmatched_p lo lp (ro rp : list (key * V)) b :
  In b (unmatched_p lo lp ro rp) <-> In b rp /\ forall a, In a ro -> agree lo lp (fst a) (fst b) = false.
Proof.
  unfold unmatched_p. rewrite filter_In, negb_true_iff. split; intros [Hb H]; split; try exact Hb.
  - intros a Ha. destruct (agree lo lp (fst a) (fst b)) eqn:E; [|reflexivity].
    assert (existsb (fun a => agree lo lp (fst a) (fst b)) ro = true) by (apply existsb_exists; eauto). congruence.
  - destruct (existsb _ ro) eqn:E; [|reflexivity]. apply existsb_exists in E. destruct E as [a [Ha E]].
    rewrite (H a Ha) in E. discriminate.
Qed.

Definition carries (o p : frame V) (t : arow V) : Prop :=
  aobj t = lookup (proj (total (lv o) (lv p)) (akey t) (lv o)) (rows o) /\
  aprm t = lookup (proj (total (lv o) (lv p)) (akey t) (lv p)) (rows p).

Lemma carries_matched o p t : wf o -> wf p -> In t (matched (lv o) (lv p) (rows o) (rows p)) -> carries o p t.
Proof.
  intros [Hno [Hlo Hko]] [Hnp [Hlp Hkp]] Ht. apply in_matched in Ht.
  destruct Ht as [[ka va] [[kb vb] [Ha [Hb [Hag ->]]]]]. cbn in *.
  unfold carries, akey, aobj, aprm; cbn.
  rewrite (matched_key_obj (lv o) (lv p) ka kb Hno (Hlo _ Ha)).
  rewrite (matched_key_prm (lv o) (lv p) ka kb Hnp (Hlo _ Ha) (Hlp _ Hb) Hag).
  split; symmetry; apply lookup_in; assumption.
Qed.

Lemma carries_left o p a :
  wf o -> wf p -> newlv (lv o) (lv p) = [] -> In a (unmatched_o (lv o) (lv p) (rows o) (rows p)) ->
  carries o p (fst a, Some (snd a), None).
Proof.
  intros [Hno [Hlo Hko]] [Hnp [Hlp Hkp]] Hnew Ha. apply in_unmatched_o in Ha. destruct Ha as [Ha Hun].
  destruct a as [ka va]. cbn in *. unfold carries, akey, aobj, aprm, total; cbn. rewrite Hnew, app_nil_r.
  rewrite (proj_self (lv o) ka Hno (Hlo _ Ha)). split.
  - symmetry. apply lookup_in; assumption.
  - symmetry. apply lookup_none. intros v Hv. specialize (Hun _ Hv). cbn in Hun.
    assert (agree (lv o) (lv p) ka (proj (lv o) ka (lv p)) = true); [|congruence].
    apply agree_spec. intros n Hn1 Hn2. symmetry. apply get_proj. exact Hn2.
Qed.

Lemma carries_right o p b :
  wf o -> wf p -> In b (unmatched_p (lv o) (lv p) (rows o) (rows p)) ->
  carries o p (proj (lv p) (fst b) (total (lv o) (lv p)), None, Some (snd b)).
Proof.
  intros [Hno [Hlo Hko]] [Hnp [Hlp Hkp]] Hb. apply in_unmatched_p in Hb. destruct Hb as [Hb Hun].
  destruct b as [kb vb]. cbn in *. unfold carries, akey, aobj, aprm; cbn. split.
  - symmetry. apply lookup_none. intros v Hv. specialize (Hun _ Hv). cbn in Hun.
    match type of Hv with In (?k, _) _ => assert (agree (lv o) (lv p) k kb = true); [|congruence] end.
    apply agree_spec. intros n Hn1 Hn2. rewrite get_proj by exact Hn1.
    apply get_proj. apply in_total. now left.
  - symmetry. apply lookup_in; [exact Hkp|].
    rewrite (right_key_prm (lv o) (lv p) kb Hnp (Hlp _ Hb)). exact Hb.
Qed.

(* ---- every row of both results carries exactly what the original held for the row key restricted to the
        original's levels, or NaN (None) when the original has no such key *)
Theorem rows_carry_restricted_value o p R :
  wf o -> wf p -> bcast o p = Rows R -> forall t, In t R -> carries o p t.
Proof.
  intros Ho Hp Hb t Ht. unfold bcast in Hb.
  destruct (have_commons (lv o) (lv p)).
  - destruct (left_only (lv o) (lv p) (rows o) (rows p)) as [l|] eqn:El; [|discriminate].
    destruct (right_only (lv o) (lv p) (rows o) (rows p)) as [r|] eqn:Er; [|discriminate].
    inversion Hb; subst R. clear Hb. rewrite !in_app_iff in Ht. destruct Ht as [Ht|[Ht|Ht]].
    + apply carries_matched; assumption.
    + unfold left_only in El. destruct (is_nil (newlv (lv o) (lv p))) eqn:En.
      * inversion El; subst l. apply in_map_iff in Ht. destruct Ht as [a [<- Ha]].
        apply carries_left; try assumption. destruct (newlv (lv o) (lv p)); [reflexivity|discriminate].
      * destruct (is_nil (unmatched_o (lv o) (lv p) (rows o) (rows p))); [injection El as <-; destruct Ht|].
        destruct (Nat.eqb (length (lv o)) 1); [injection El as <-; destruct Ht|discriminate].
    + unfold right_only in Er. destruct (is_nil (onlyo (lv o) (lv p))) eqn:En.
      * inversion Er; subst r. apply in_map_iff in Ht. destruct Ht as [b [<- Hb]].
        apply carries_right; assumption.
      * destruct (is_nil (unmatched_p (lv o) (lv p) (rows o) (rows p))); [injection Er as <-; destruct Ht|].
        destruct (Nat.eqb (length (lv p)) 1); [injection Er as <-; destruct Ht|discriminate].
  - inversion Hb; subst R. apply carries_matched; assumption.
Qed.

(* ---- nothing is lost: every pair of rows that agree on the shared levels is in the result ... *)
Theorem covers_matched o p R a b :
  bcast o p = Rows R -> In a (rows o) -> In b (rows p) -> agree (lv o) (lv p) (fst a) (fst b) = true ->
  In ((fst a ++ proj (lv p) (fst b) (newlv (lv o) (lv p)), Some (snd a), Some (snd b)) : arow V) R.
Proof.
  intros Hb Ha Hbb Hag.
  assert (Hm : In ((fst a ++ proj (lv p) (fst b) (newlv (lv o) (lv p)), Some (snd a), Some (snd b)) : arow V)
                  (matched (lv o) (lv p) (rows o) (rows p))) by (apply in_matched; exists a, b; tauto).
  unfold bcast in Hb. destruct (have_commons (lv o) (lv p)).
  - destruct (left_only _ _ _ _); [|discriminate]. destruct (right_only _ _ _ _); [|discriminate].
    injection Hb as <-. apply in_or_app. now left.
  - injection Hb as <-. exact Hm.
Qed.

(* ... and a row without partner is kept (with NaN for the other operand) whenever its key is complete *)
Theorem covers_unmatched_obj o p R a :
  bcast o p = Rows R -> have_commons (lv o) (lv p) = true -> newlv (lv o) (lv p) = [] ->
  In a (unmatched_o (lv o) (lv p) (rows o) (rows p)) -> In ((fst a, Some (snd a), None) : arow V) R.
Proof.
  intros Hb Hc Hn Ha. unfold bcast in Hb. rewrite Hc in Hb. unfold left_only in Hb. rewrite Hn in Hb. cbn in Hb.
  destruct (right_only _ _ _ _); [|discriminate]. injection Hb as <-.
  apply in_or_app. right. apply in_or_app. left. apply in_map_iff. exists a. tauto.
Qed.

Theorem covers_unmatched_prm o p R b :
  bcast o p = Rows R -> have_commons (lv o) (lv p) = true -> onlyo (lv o) (lv p) = [] ->
  In b (unmatched_p (lv o) (lv p) (rows o) (rows p)) ->
  In ((proj (lv p) (fst b) (total (lv o) (lv p)), None, Some (snd b)) : arow V) R.
Proof.
  intros Hb Hc Hn Hbb. unfold bcast in Hb. rewrite Hc in Hb. unfold right_only in Hb. rewrite Hn in Hb. cbn in Hb.
  destruct (left_only _ _ _ _); [|discriminate]. injection Hb as <-.
  apply in_or_app. right. apply in_or_app. right. apply in_map_iff. exists b. tauto.
Qed.

(* every object row that has a partner, or whose key is complete, is found in the result under its own key *)
Theorem no_object_row_lost o p R a :
  wf o -> wf p -> bcast o p = Rows R -> In a (rows o) ->
  (exists b, In b (rows p) /\ agree (lv o) (lv p) (fst a) (fst b) = true)
  \/ (have_commons (lv o) (lv p) = true /\ newlv (lv o) (lv p) = []) ->
  exists t, In t R /\ proj (total (lv o) (lv p)) (akey t) (lv o) = fst a /\ aobj t = Some (snd a).
Proof.
  intros Ho Hp Hb Ha H.
  assert (Hm : forall b, In b (rows p) -> agree (lv o) (lv p) (fst a) (fst b) = true ->
          exists t, In t R /\ proj (total (lv o) (lv p)) (akey t) (lv o) = fst a /\ aobj t = Some (snd a)).
  { intros b Hbb Hag. eexists. split; [apply (covers_matched o p R a b Hb Ha Hbb Hag)|]. split; [|reflexivity].
    unfold akey; cbn. destruct Ho as [Hno [Hlo _]]. apply matched_key_obj; [exact Hno|apply Hlo; exact Ha]. }
  destruct H as [[b [Hbb Hag]]|[Hc Hn]]; [eauto|].
  destruct (existsb (fun b => agree (lv o) (lv p) (fst a) (fst b)) (rows p)) eqn:E.
  - apply existsb_exists in E. destruct E as [b [Hbb Hag]]. eauto.
  - exists ((fst a, Some (snd a), None) : arow V). split; [|split; [|reflexivity]].
    + apply (covers_unmatched_obj o p R a Hb Hc Hn). unfold unmatched_o. apply filter_In. rewrite E. tauto.
    + unfold akey, total; cbn. rewrite Hn, app_nil_r. destruct Ho as [Hno [Hlo _]]. apply proj_self; [exact Hno|apply Hlo; exact Ha].
Qed.

Theorem no_parameter_row_lost o p R b :
  wf o -> wf p -> bcast o p = Rows R -> In b (rows p) ->
  (exists a, In a (rows o) /\ agree (lv o) (lv p) (fst a) (fst b) = true)
  \/ (have_commons (lv o) (lv p) = true /\ onlyo (lv o) (lv p) = []) ->
  exists t, In t R /\ proj (total (lv o) (lv p)) (akey t) (lv p) = fst b /\ aprm t = Some (snd b).
Proof.
  intros Ho Hp Hb Hbb H.
  assert (Hm : forall a, In a (rows o) -> agree (lv o) (lv p) (fst a) (fst b) = true ->
          exists t, In t R /\ proj (total (lv o) (lv p)) (akey t) (lv p) = fst b /\ aprm t = Some (snd b)).
  { intros a Ha Hag. eexists. split; [apply (covers_matched o p R a b Hb Ha Hbb Hag)|]. split; [|reflexivity].
    unfold akey; cbn. destruct Ho as [_ [Hlo _]]. destruct Hp as [Hnp [Hlp _]].
    apply matched_key_prm; [exact Hnp|apply Hlo; exact Ha|apply Hlp; exact Hbb|exact Hag]. }
  destruct H as [[a [Ha Hag]]|[Hc Hn]]; [eauto|].
  destruct (existsb (fun a => agree (lv o) (lv p) (fst a) (fst b)) (rows o)) eqn:E.
  - apply existsb_exists in E. destruct E as [a [Ha Hag]]. eauto.
  - assert (Hu : In b (unmatched_p (lv o) (lv p) (rows o) (rows p))) by (unfold unmatched_p; apply filter_In; rewrite E; tauto).
    eexists. split; [apply (covers_unmatched_prm o p R b Hb Hc Hn Hu)|]. split; [|reflexivity].
    unfold akey; cbn. destruct Hp as [Hnp [Hlp _]]. apply right_key_prm; [exact Hnp|apply Hlp; exact Hbb].
Qed.

(* ---- the two returned objects have the same index *)
Lemma same_index (r : list (arow V)) : map fst (res_obj r) = map fst (res_prm r).
Proof. unfold res_obj, res_prm. rewrite !map_map. reflexivity. Qed.

End Thm.
