(* Recorder layer of the HCM model, generalised in HOW the minimum / maximum of two values is selected
   (added for C05 after the findings `first-node min/max` on the unchanged tree):

   - the code as it is compares the FIRST assessment point and takes the whole vector from the winner
     (`a if a.values[0] < b.values[0] else b`): selectors [sel_min vltb] / [sel_max vltb] of HCM.Model;
   - the repaired code (fixes/C05-hcm-minmax-per-node.patch, fixes/C05-hysteresis-minmax-per-node.patch) takes the
     minimum / maximum of every assessment point separately (np.minimum / np.maximum).

   [records_g] takes the four selectors as parameters: (cmin, cmax) for the two corner points of a closed hysteresis
   (_handle_case_c_ii), (lmin, lmax) for the running strain extremes (_hcm_update_min_max_strain_values).
   [records_g_first_node]: with the first-node selectors it IS HCM.Model.records (so every theorem about [records]
   is a theorem about this instance).  [records_g_hom]: a map h of the value type that commutes with the selectors
   at every pair the recorder actually selects from ([sel_ok]) maps the rows to the rows. *)
From Coq Require Import ZArith List Bool Lia.
From PL Require Import Rainflow.Model HCM.Model HCM.Load HCM.Sim HCM.RecThm.
Import ListNotations.
Open Scope Z_scope.

Section RecG.
Variable V : Type.
Variables vneg vabs : V -> V.
Variables cmin cmax : V -> V -> V.      (* closed hysteresis: arguments (p0.x, p1.x) *)
Variables lmin lmax : V -> V -> V.      (* running extremes: arguments (old extreme, strain of the current point) *)

Definition rec_closed_g (p0 p1 : point V) (run : nat) (emin emax : V) : hrec V :=
  {| r_lmin := if pL p0 <? pL p1 then pL p0 else pL p1; r_lmax := if pL p1 <? pL p0 then pL p0 else pL p1;
     r_smin := cmin (pS p0) (pS p1); r_smax := cmax (pS p0) (pS p1);
     r_emin := cmin (pE p0) (pE p1); r_emax := cmax (pE p0) (pE p1);
     r_eminLF := emin; r_emaxLF := emax; r_closed := true; r_zero := false; r_run := run |}.

Definition lf_update_g (emin emax : V) (cur : point V) (up : bool) : V * V :=
  if up then (emin, lmax emax (pE cur)) else (lmin emin (pE cur), emax).

Fixpoint records_g (emin emax : V) (evs : list (event V)) : list (hrec V) :=
  match evs with
  | [] => []
  | Half prev run :: r => rec_half V vneg vabs prev run emin emax :: records_g emin emax r
  | Closed p0 p1 run :: r => rec_closed_g p0 p1 run emin emax :: records_g emin emax r
  | Visit cur prev _ :: r => let '(a, b) := lf_update_g emin emax cur (prev <? pL cur) in records_g a b r
  end.
End RecG.

(* the code as it is = the first-node selectors *)
Lemma records_g_first_node V vneg vabs vltb : forall evs emin emax,
  records_g V vneg vabs (sel_min V vltb) (sel_max V vltb) (sel_min V vltb) (sel_max V vltb) emin emax evs
  = records V vneg vabs vltb emin emax evs.
Proof.
  induction evs as [|e evs IH]; intros emin emax; [reflexivity|].
  destruct e as [prev run|p0 p1 run|cur prev run]; cbn [records records_g].
  - rewrite IH. reflexivity.
  - rewrite IH. reflexivity.
  - unfold lf_update_g, lf_update, sel_min, sel_max. destruct (prev <? pL cur); apply IH.
Qed.

Section RecGHom.
Variables V W : Type.
Variables vneg vabs : V -> V.
Variables cmin cmax lmin lmax : V -> V -> V.
Variables wneg wabs : W -> W.
Variables cmin' cmax' lmin' lmax' : W -> W -> W.
Variable h : V -> W.
Variable phi : Z -> Z.
Variable c : Z.
Hypothesis Hc : 0 < c.
Hypothesis Hphi : forall x, phi x = c * x.
Hypothesis Hneg : forall a, h (vneg a) = wneg (h a).
Hypothesis Habs : forall a, h (vabs a) = wabs (h a).

Definition commutes (f : V -> V -> V) (f' : W -> W -> W) (a b : V) : Prop := h (f a b) = f' (h a) (h b).

(* h commutes with every selection made while the rows of [evs] are produced (only the selections really made:
   an increasing load touches the maximum only, a non-increasing one the minimum only) *)
Fixpoint sel_ok (emin emax : V) (evs : list (event V)) : Prop :=
  match evs with
  | [] => True
  | Half _ _ :: r => sel_ok emin emax r
  | Closed p0 p1 _ :: r =>
      commutes cmin cmin' (pS p0) (pS p1) /\ commutes cmax cmax' (pS p0) (pS p1) /\
      commutes cmin cmin' (pE p0) (pE p1) /\ commutes cmax cmax' (pE p0) (pE p1) /\ sel_ok emin emax r
  | Visit cur prev _ :: r =>
      (if prev <? pL cur then commutes lmax lmax' emax (pE cur) else commutes lmin lmin' emin (pE cur)) /\
      sel_ok (fst (lf_update_g V lmin lmax emin emax cur (prev <? pL cur)))
             (snd (lf_update_g V lmin lmax emin emax cur (prev <? pL cur))) r
  end.

Theorem records_g_hom : forall evs emin emax, sel_ok emin emax evs ->
  records_g W wneg wabs cmin' cmax' lmin' lmax' (h emin) (h emax) (map (mev V W h phi) evs)
  = map (mrec V W h phi) (records_g V vneg vabs cmin cmax lmin lmax emin emax evs).
Proof.
  induction evs as [|e evs IH]; intros emin emax Hok; [reflexivity|].
  destruct e as [prev run|p0 p1 run|cur prev run]; cbn [map mev records_g sel_ok] in *.
  - f_equal; [|apply IH; exact Hok].
    unfold rec_half, mrec, mp. cbn. rewrite !Hneg, !Habs, (phi_abs phi c Hc Hphi), (phi_opp phi c Hphi). reflexivity.
  - destruct Hok as (A1 & A2 & A3 & A4 & Hok). f_equal; [|apply IH; exact Hok].
    unfold commutes in *. unfold rec_closed_g, mrec, mp. cbn. rewrite !(phi_ltb phi c Hc Hphi), <- A1, <- A2, <- A3, <- A4.
    destruct (pL p0 <? pL p1); destruct (pL p1 <? pL p0); reflexivity.
  - destruct Hok as (A & Hok). cbn [pL mp pE]. rewrite (phi_ltb phi c Hc Hphi).
    unfold lf_update_g in *. cbn [pE mp]. unfold commutes in A.
    destruct (prev <? pL cur); cbn [fst snd] in Hok.
    + rewrite <- A. apply IH; exact Hok.
    + rewrite <- A. apply IH; exact Hok.
Qed.

(* selectors that commute with h for ALL arguments: no hypothesis on the events is left *)
Lemma sel_ok_total :
  (forall a b, commutes cmin cmin' a b) -> (forall a b, commutes cmax cmax' a b) ->
  (forall a b, commutes lmin lmin' a b) -> (forall a b, commutes lmax lmax' a b) ->
  forall evs emin emax, sel_ok emin emax evs.
Proof.
  intros H1 H2 H3 H4. induction evs as [|e evs IH]; intros emin emax; [exact I|].
  destruct e as [prev run|p0 p1 run|cur prev run]; cbn [sel_ok]; auto 6.
  split; [destruct (prev <? pL cur); auto|apply IH].
Qed.
End RecGHom.
