(* Gallina model of pyLife's FKM-nonlinear HCM detector (stress/rainflow/fkm_nonlinear.py: process_hcm_first,
   process_hcm_second, process, _adjust_samples_and_flush_for_hcm_first_run, _perform_hcm_algorithm,
   _hcm_process_sample, _handle_case_*, _proceed_on_primary/secondary_branch, _hcm_update_min_max_strain_values)
   and of FKMNonlinearRecorder (recorders.py), generic in the value type V of stresses/strains and in the
   notch approximation law.  Loads are integers (DESIGN.md section 4; the code's 1e-12 tolerances are irrelevant on
   a grid coarser than 2e-12).  Turning points come from Rainflow.Model.new_turns (tied to the code by C01).

   Two layers:
   1. [trace]: the control flow (cases a)i, a)ii, b, c)i, c)ii A/B, Memory 1-3) and the stress/strain point of
      every processed load.  It uses only the law and [vadd]; it emits events in the order the code produces them.
   2. [records]: the recorder rows: min/max selection by comparison of the first assessment point ([vltb]),
      Memory-3 mirrored rows ([vabs], [vneg]), running strain extremes epsilon_min_LF / epsilon_max_LF.
   No proofs here: the model must stay runnable (correspondence check) even when a proof breaks. *)
From Coq Require Import ZArith List Bool Lia.
From PL Require Import Rainflow.Model.
Import ListNotations.
Open Scope Z_scope.

Section HCM.
Variable V : Type.
Variable vadd : V -> V -> V.
Variables vneg vabs : V -> V.
Variable vltb : V -> V -> bool.        (* a.values[0] < b.values[0] *)
Variable vzero : V.
(* notch approximation law: stress(load), strain(stress, load), stress_secondary_branch(delta_load),
   strain_secondary_branch(delta_stress, delta_load); the load argument is the load of the first assessment point *)
Variable sig : Z -> V.
Variable eps : V -> Z -> V.
Variable dsig : Z -> V.
Variable deps : V -> Z -> V.

Record point := { pL : Z; pS : V; pE : V }.

(* _proceed_on_primary_branch *)
Definition primary (L : Z) : point := let s := sig L in {| pL := L; pS := s; pE := eps s L |}.
(* _proceed_on_secondary_branch *)
Definition secondary (prev : point) (L : Z) : point :=
  let dL := L - pL prev in let ds := dsig dL in let de := deps ds dL in
  {| pL := L; pS := vadd (pS prev) ds; pE := vadd (pE prev) de |}.

Inductive event :=
| Half (prev : point) (run : nat)             (* case a)i: Memory 3, half-counted hysteresis [-|prev|, |prev|] *)
| Closed (p0 p1 : point) (run : nat)          (* case c)ii: full hysteresis between residuals[-2] and residuals[-1] *)
| Visit (cur : point) (prev : Z) (run : nat). (* the processed load with its stress/strain, and previous_load *)

(* _hcm_process_sample: the `while True` loop for one load L.  residuals are kept top-first.
   Returns (events, current point, residuals, iz, ir); None = the code would raise IndexError
   (never happens: LoadThm.hcm_total).  Structural in the residual list: every `continue` pops two entries. *)
Fixpoint step (res : list point) (iz ir : nat) (lmax L : Z) (run : nat) {struct res}
  : option (list event * point * list point * nat * nat) :=
  if (iz =? ir)%nat then
    match res with
    | prev :: _ =>
        if lmax <? Z.abs L                                       (* case a)i, Memory 3 *)
        then Some ([Half prev run], primary L, res, iz, S ir)
        else Some ([], secondary prev L, res, iz, ir)            (* case a)ii *)
    | [] => None
    end
  else if (iz <? ir)%nat then Some ([], primary L, res, iz, ir)  (* case b, Memory 1 *)
  else
    match res with
    | p1 :: p0 :: rest =>
        if Z.abs (L - pL p1) <? Z.abs (pL p1 - pL p0)
        then Some ([], secondary p1 L, res, iz, ir)              (* case c)i *)
        else                                                     (* case c)ii: hysteresis p0-p1 closes *)
          if (Z.abs (pL p0) <? lmax) && (Z.abs (pL p1) <? lmax)
          then match step rest (iz - 2) ir lmax L run with       (* c)ii B, Memory 2: continue *)
               | Some (evs, cur, res', iz', ir') => Some (Closed p0 p1 run :: evs, cur, res', iz', ir')
               | None => None
               end
          else Some ([Closed p0 p1 run], primary L, rest, (iz - 2)%nat, ir)   (* c)ii A, Memory 1 *)
    | _ => None
    end.

(* HCM memory: residuals (top first), iz, ir, load_max_seen *)
Definition core := (list point * nat * nat * Z)%type.
Definition core0 : core := ([], 0%nat, 1%nat, 0).

(* one iteration of the loop of _perform_hcm_algorithm *)
Definition sample (c : core) (prev : Z) (run : nat) (L : Z) : option (core * list event) :=
  let '(res, iz, ir, lmax) := c in
  match step res iz ir lmax L run with
  | Some (evs, cur, res', iz', ir') =>
      Some ((cur :: res', S iz', ir', if lmax <? Z.abs L then Z.abs L else lmax),
            evs ++ [Visit cur prev run])
  | None => None
  end.

Fixpoint feed (c : core) (prev : Z) (run : nat) (ls : list Z) : option (core * list event) :=
  match ls with
  | [] => Some (c, [])
  | L :: r =>
      match sample c prev run L with
      | Some (c', e) =>
          match feed c' L run r with
          | Some (c'', e') => Some (c'', e ++ e')
          | None => None
          end
      | None => None
      end
  end.

(* detector state: HCM memory + AbstractDetector's sample tail / head index + run index *)
Record dstate := { d_core : core; d_tail : list Z; d_head : nat; d_run : nat }.
Definition dinit := {| d_core := core0; d_tail := []; d_head := 0%nat; d_run := 0%nat |}.

(* process(samples, flush): previous_load restarts at 0 in every call *)
Definition hpass (d : dstate) (samples : list Z) (flush : bool) : option (dstate * list event) :=
  let run := S (d_run d) in
  let '(t, tl, hd) := new_turns (d_tail d) (d_head d) samples flush in
  match feed (d_core d) 0 run (map snd t) with
  | Some (c, e) => Some ({| d_core := c; d_tail := tl; d_head := hd; d_run := run |}, e)
  | None => None
  end.

(* _adjust_samples_and_flush_for_hcm_first_run: flush iff the last index of [0]+s is a turn of ([0]+s)+([0]+s) *)
Definition is_turn_index (l : list Z) (i : nat) : bool := existsb (fun iv => (fst iv =? i)%nat) (find_turns l).
Definition flush_first (s : list Z) : bool := is_turn_index ((0 :: s) ++ (0 :: s)) (length s).

(* process_hcm_first followed by n calls of process_hcm_second with the same samples *)
Fixpoint more_passes (n : nat) (d : dstate) (s : list Z) : option (dstate * list event) :=
  match n with
  | O => Some (d, [])
  | S k => match hpass d s true with
           | Some (d', e) => match more_passes k d' s with
                             | Some (d'', e') => Some (d'', e ++ e')
                             | None => None end
           | None => None end
  end.
Definition hcm_passes (n : nat) (s : list Z) : option (dstate * list event) :=
  match hpass dinit (0 :: s) (flush_first s) with
  | Some (d, e) => match more_passes n d s with
                   | Some (d', e') => Some (d', e ++ e')
                   | None => None end
  | None => None
  end.
Definition trace (s : list Z) : list event := match hcm_passes 1 s with Some (_, e) => e | None => [] end.

(* ---------- layer 2: recorder rows ---------- *)
Record hrec := { r_lmin : Z; r_lmax : Z; r_smin : V; r_smax : V; r_emin : V; r_emax : V;
                 r_eminLF : V; r_emaxLF : V; r_closed : bool; r_zero : bool; r_run : nat }.

Definition sel_min (a b : V) : V := if vltb a b then a else b.   (* p0.x if p0.x[0] < p1.x[0] else p1.x *)
Definition sel_max (a b : V) : V := if vltb b a then a else b.   (* p0.x if p0.x[0] > p1.x[0] else p1.x *)

Definition rec_closed (p0 p1 : point) (run : nat) (emin emax : V) : hrec :=
  {| r_lmin := if pL p0 <? pL p1 then pL p0 else pL p1; r_lmax := if pL p1 <? pL p0 then pL p0 else pL p1;
     r_smin := sel_min (pS p0) (pS p1); r_smax := sel_max (pS p0) (pS p1);
     r_emin := sel_min (pE p0) (pE p1); r_emax := sel_max (pE p0) (pE p1);
     r_eminLF := emin; r_emaxLF := emax; r_closed := true; r_zero := false; r_run := run |}.
Definition rec_half (prev : point) (run : nat) (emin emax : V) : hrec :=
  {| r_lmin := - Z.abs (pL prev); r_lmax := Z.abs (pL prev);
     r_smin := vneg (vabs (pS prev)); r_smax := vabs (pS prev);
     r_emin := vneg (vabs (pE prev)); r_emax := vabs (pE prev);
     r_eminLF := emin; r_emaxLF := emax; r_closed := false; r_zero := true; r_run := run |}.

(* _hcm_update_min_max_strain_values: increasing load updates the maximum, otherwise the minimum *)
Definition lf_update (emin emax : V) (cur : point) (up : bool) : V * V :=
  if up then (emin, if vltb (pE cur) emax then emax else pE cur)
  else (if vltb emin (pE cur) then emin else pE cur, emax).

Fixpoint records (emin emax : V) (evs : list event) : list hrec :=
  match evs with
  | [] => []
  | Half prev run :: r => rec_half prev run emin emax :: records emin emax r
  | Closed p0 p1 run :: r => rec_closed p0 p1 run emin emax :: records emin emax r
  | Visit cur prev _ :: r => let '(a, b) := lf_update emin emax cur (prev <? pL cur) in records a b r
  end.

(* detector.strain_values and the number of them that belong to the first run *)
Fixpoint visits (evs : list event) : list (point * nat) :=
  match evs with
  | [] => []
  | Visit cur _ run :: r => (cur, run) :: visits r
  | _ :: r => visits r
  end.
Definition strain_values (evs : list event) : list V := map (fun cr => pE (fst cr)) (visits evs).
Definition n_first_run (evs : list event) : nat := length (filter (fun cr => (snd cr =? 1)%nat) (visits evs)).

Definition collective (s : list Z) : list hrec := records vzero vzero (trace s).

End HCM.

Arguments pL {V}. Arguments pS {V}. Arguments pE {V}.
Arguments Half {V}. Arguments Closed {V}. Arguments Visit {V}.
Arguments r_lmin {V}. Arguments r_lmax {V}. Arguments r_smin {V}. Arguments r_smax {V}. Arguments r_emin {V}.
Arguments r_emax {V}. Arguments r_eminLF {V}. Arguments r_emaxLF {V}. Arguments r_closed {V}. Arguments r_zero {V}.
Arguments r_run {V}.
Arguments d_core {V}. Arguments d_tail {V}. Arguments d_head {V}. Arguments d_run {V}.
