(* Load-only projection of the HCM model (C04): the instance V := unit of HCM.Model, the load columns of the
   recorder rows, and the junction class predicates z, p of DESIGN.md 6/C04. *)
From Coq Require Import ZArith List Bool Lia.
From PL Require Import Rainflow.Model HCM.Model.
Import ListNotations.
Open Scope Z_scope.

(* (loads_min, loads_max, is_closed_hysteresis, run_index) of the recorded hystereses, from the events *)
Fixpoint lrecs {V} (evs : list (event V)) : list (Z * Z * bool * nat) :=
  match evs with
  | [] => []
  | Half prev run :: r => (- Z.abs (pL prev), Z.abs (pL prev), false, run) :: lrecs r
  | Closed p0 p1 run :: r =>
      (if pL p0 <? pL p1 then pL p0 else pL p1, if pL p1 <? pL p0 then pL p0 else pL p1, true, run) :: lrecs r
  | Visit _ _ _ :: r => lrecs r
  end.

Definition uadd (_ _ : unit) := tt.
Definition usig (_ : Z) := tt.
Definition ueps (_ : unit) (_ : Z) := tt.

Definition lpasses (n : nat) (s : list Z) := hcm_passes unit uadd usig ueps usig ueps n s.
Definition ltrace (s : list Z) : list (event unit) := trace unit uadd usig ueps usig ueps s.
Definition load_records (s : list Z) : list (Z * Z * bool * nat) := lrecs (ltrace s).

(* observable of n further passes: records + residual loads (oldest first) + (iz, ir, load_max_seen) *)
Definition load_obs (n : nat) (s : list Z) : option (list (Z * Z * bool * nat) * list Z) :=
  match lpasses n s with
  | Some (d, e) => let '(res, _, _, _) := d_core d in Some (lrecs e, rev (map pL res))
  | None => None
  end.

(* junction classes: z = the code's criterion, p = the periodic truth *)
Definition z_class (s : list Z) : bool := is_turn_index ((0 :: s) ++ (0 :: s)) (length s).
Definition p_class (s : list Z) : bool := is_turn_index ((0 :: s) ++ s) (length s).
Definition in_class (s : list Z) : bool := z_class s && p_class s.

Definition pass_recs (k : nat) (rs : list (Z * Z * bool * nat)) := filter (fun r => (snd r =? k)%nat) rs.
Definition rng (r : Z * Z * bool * nat) : Z * Z := (fst (fst (fst r)), snd (fst (fst r))).
Definition closed_of (r : Z * Z * bool * nat) : bool := snd (fst r).
