(* The load history fed to the detector in several calls of process(chunk, flush) (AbstractDetector's chunk interface),
   instead of process_hcm_first / process_hcm_second on the whole sequence.  Added for C05: a turning point at the end of a
   chunk is recognised only when the next chunk arrives; in a multi-point run its loads of all assessment points have to be
   carried over from the previous call (FKMNonlinearDetector._last_sample).

   [ctrace] = fold of HCM.Model.hpass over the chunks (the run index grows with every call, previous_load restarts at 0 in
   every call, the sample tail / head index are those of Rainflow.Model.new_turns).  [ctrace_sim]: the simulation theorem
   of HCM.Sim holds chunk-wise, hence (FullThm) every point of a chunked multi-point run gets the rows of its own chunked
   single-point run. *)
From Coq Require Import ZArith QArith List Bool Lia.
From PL Require Import Rainflow.Model HCM.Model HCM.Load HCM.Sim HCM.RecThm HCM.Select HCM.Full.
Import ListNotations.
Open Scope Z_scope.

Section Chunks.
Variable V : Type.
Variable vadd : V -> V -> V.
Variable sig : Z -> V.
Variable eps : V -> Z -> V.
Variable dsig : Z -> V.
Variable deps : V -> Z -> V.

Fixpoint chunk_passes (d : dstate V) (cs : list (list Z * bool)) : option (dstate V * list (event V)) :=
  match cs with
  | [] => Some (d, [])
  | (s, fl) :: r =>
      match hpass V vadd sig eps dsig deps d s fl with
      | Some (d', e) => match chunk_passes d' r with
                        | Some (d'', e') => Some (d'', e ++ e')
                        | None => None end
      | None => None end
  end.
Definition ctrace (cs : list (list Z * bool)) : list (event V) :=
  match chunk_passes (dinit V) cs with Some (_, e) => e | None => [] end.
End Chunks.

Definition map_chunks (phi : Z -> Z) (cs : list (list Z * bool)) : list (list Z * bool) :=
  map (fun sf => (map phi (fst sf), snd sf)) cs.

Section ChunkSim.
Variables V W : Type.
Variable vadd : V -> V -> V.
Variable wadd : W -> W -> W.
Variable sig : Z -> V.
Variable eps : V -> Z -> V.
Variable dsig : Z -> V.
Variable deps : V -> Z -> V.
Variable sig' : Z -> W.
Variable eps' : W -> Z -> W.
Variable dsig' : Z -> W.
Variable deps' : W -> Z -> W.
Variable h : V -> W.
Variable phi : Z -> Z.
Variable c : Z.
Hypothesis Hc : c <> 0.
Hypothesis Hphi : forall x, phi x = c * x.
Hypothesis Hadd : forall a b, h (vadd a b) = wadd (h a) (h b).
Hypothesis Hsig : forall L, h (sig L) = sig' (phi L).
Hypothesis Heps : forall s L, h (eps s L) = eps' (h s) (phi L).
Hypothesis Hdsig : forall d, h (dsig d) = dsig' (phi d).
Hypothesis Hdeps : forall ds d, h (deps ds d) = deps' (h ds) (phi d).

Lemma chunk_passes_sim : forall cs d,
  chunk_passes W wadd sig' eps' dsig' deps' (mds V W h phi c d) (map_chunks phi cs)
  = mpass V W h phi c (chunk_passes V vadd sig eps dsig deps d cs).
Proof.
  induction cs as [|[s fl] cs IH]; intros d; [reflexivity|].
  cbn [map_chunks map chunk_passes fst snd].
  rewrite (hpass_sim V W vadd wadd sig eps dsig deps sig' eps' dsig' deps' h phi c Hc Hphi Hadd Hsig Heps Hdsig Hdeps).
  destruct (hpass V vadd sig eps dsig deps d s fl) as [[d1 e1]|]; [|reflexivity]. cbn [mpass].
  fold (map_chunks phi cs). rewrite IH.
  destruct (chunk_passes V vadd sig eps dsig deps d1 cs) as [[d2 e2]|]; [|reflexivity].
  cbn. rewrite map_app. reflexivity.
Qed.

Theorem ctrace_sim cs :
  ctrace W wadd sig' eps' dsig' deps' (map_chunks phi cs) = map (mev V W h phi) (ctrace V vadd sig eps dsig deps cs).
Proof.
  unfold ctrace. rewrite <- (dinit_sim V W h phi c). rewrite chunk_passes_sim.
  destruct (chunk_passes V vadd sig eps dsig deps (dinit V) cs) as [[d e]|]; reflexivity.
Qed.
End ChunkSim.

(* instances: injected integer law, one point / several points *)
Definition zctrace (cs : list (list Z * bool)) : list (event Z) := ctrace Z Z.add isig ieps idsig ideps cs.
Definition zcobs (cs : list (list Z * bool)) :=
  let e := zctrace cs in (map (fun r => (r, derived r)) (zrecords e), strain_values Z e, n_first_run Z e).
Definition mctrace (c0 : Z) (ratios : list Z) (cs : list (list Z * bool)) : list (event (list Z)) :=
  ctrace (list Z) (vadd ratios) (msig c0 ratios) (meps c0 ratios) (mdsig c0 ratios) (mdeps c0 ratios) cs.
Definition mcobs (pwc pwl : bool) (c0 : Z) (ratios : list Z) (cs : list (list Z * bool)) :=
  mobs_of c0 ratios pwc pwl (mctrace c0 ratios cs).
