(* Concrete instances of HCM.Model used by the correspondence check of C05:
   - single assessment point, integer-valued odd law (the law object the harness injects into the real detector),
   - several assessment points with proportional loads (values = one integer per point, decisions from point 0),
   - rational values with the law given as look-up tables (outputs of a real notch approximation law).
   Derived recorder columns S_a, S_m, epsilon_a, epsilon_m, R. *)
From Coq Require Import ZArith QArith Qabs List Bool Lia.
From PL Require Import Rainflow.Model HCM.Model HCM.Load HCM.Select.
Import ListNotations.
Open Scope Z_scope.

(* ---------- the injected law (harness/hcm.py: sig, eps, dsig, deps) ---------- *)
Definition isig (L : Z) : Z := 3 * L + Z.sgn L * L * L.
Definition ieps (s L : Z) : Z := 2 * s + Z.sgn s * (Z.abs s / 3) + 7 * L.
Definition idsig (d : Z) : Z := 5 * d + Z.sgn d * d * d.
Definition ideps (ds d : Z) : Z := 3 * ds + Z.sgn ds * (Z.abs ds / 4) + 11 * d.

Definition ztrace (s : list Z) : list (event Z) := trace Z Z.add isig ieps idsig ideps s.
Definition zrecords (evs : list (event Z)) : list (hrec Z) := records Z Z.opp Z.abs Z.ltb 0 0 evs.

(* derived columns (recorders.py S_a, S_m, epsilon_a, epsilon_m, R); R = None where S_max = 0 (numpy: inf / nan) *)
Definition half (a : Z) : Q := a # 2.
Definition derived (r : hrec Z) : Q * Q * Q * Q * option Q :=
  (half (r_smax r - r_smin r),
   if r_zero r then 0%Q else half (r_smin r + r_smax r),
   half (r_emax r - r_emin r),
   if r_zero r then 0%Q else half (r_emin r + r_emax r),
   if r_zero r then Some (-1 # 1)%Q
   else if r_smax r =? 0 then None else Some (Qmake (r_smin r * Z.sgn (r_smax r)) (Z.to_pos (Z.abs (r_smax r))))).

(* observation of the single-point run: rows (11 stored columns + derived), strain_values, number of first-run strains *)
Definition zobs (s : list Z) :=
  let e := ztrace s in
  (map (fun r => (r, derived r)) (zrecords e), strain_values Z e, n_first_run Z e).

(* ---------- several assessment points: point j carries (cs_j / c0) times the load of point 0 ----------
   values = one integer per point (a list of length [length cs]); every operation is defined index-wise so that
   the projection to point j commutes with it for ALL arguments (FullThm.multipoint_is_pointwise) *)
Definition vec (n : nat) (f : nat -> Z) : list Z := map f (seq 0 n).
Definition at_ (j : nat) (v : list Z) : Z := nth j v 0.
Section Multi.
Variable c0 : Z.
Variable cs : list Z.
Let n := length cs.
Definition nodeL (L : Z) (j : nat) := L / c0 * at_ j cs.
Definition vadd (a b : list Z) := vec n (fun j => at_ j a + at_ j b).
Definition vneg (a : list Z) := vec n (fun j => - at_ j a).
Definition vabs (a : list Z) := vec n (fun j => Z.abs (at_ j a)).
Definition vltb (a b : list Z) := at_ 0 a <? at_ 0 b.
Definition msig (L : Z) : list Z := vec n (fun j => isig (nodeL L j)).
Definition meps (sv : list Z) (L : Z) : list Z := vec n (fun j => ieps (at_ j sv) (nodeL L j)).
Definition mdsig (d : Z) : list Z := vec n (fun j => idsig (nodeL d j)).
Definition mdeps (dv : list Z) (d : Z) : list Z := vec n (fun j => ideps (at_ j dv) (nodeL d j)).
Definition mtrace (s : list Z) := trace (list Z) vadd msig meps mdsig mdeps s.
Definition mzero := vec n (fun _ => 0).
Definition mrecords (evs : list (event (list Z))) := records (list Z) vneg vabs vltb mzero mzero evs.
(* rows of assessment point j *)
Definition proj_rec (j : nat) (r : hrec (list Z)) : hrec Z :=
  {| r_lmin := nodeL (r_lmin r) j; r_lmax := nodeL (r_lmax r) j;
     r_smin := at_ j (r_smin r); r_smax := at_ j (r_smax r); r_emin := at_ j (r_emin r); r_emax := at_ j (r_emax r);
     r_eminLF := at_ j (r_eminLF r); r_emaxLF := at_ j (r_emaxLF r);
     r_closed := r_closed r; r_zero := r_zero r; r_run := r_run r |}.
Definition mobs (s : list Z) :=
  let e := mtrace s in
  (map (fun j => map (fun r => let r' := proj_rec j r in (r', derived r')) (mrecords e)) (seq 0 n),
   map (at_ 0) (strain_values (list Z) e), n_first_run (list Z) e).
(* variants of the recorder (HCM.Select): [pwc] = the corner points of a closed hysteresis are ordered for every assessment
   point separately (repair of finding C05-hysteresis-minmax-first-node), [pwl] = the running strain extremes are updated for
   every point separately (repair of C05-hcm-minmax-strain-first-node).  false/false = the code as it is = [mrecords]
   (FullThm.mrecords_v_ff); the harness decides per run which variant the tree implements by replaying the findings' witnesses. *)
Definition pwmin (a b : list Z) := vec n (fun j => Z.min (at_ j a) (at_ j b)).
Definition pwmax (a b : list Z) := vec n (fun j => Z.max (at_ j a) (at_ j b)).
Definition msel_min (pw : bool) : list Z -> list Z -> list Z := if pw then pwmin else sel_min (list Z) vltb.
Definition msel_max (pw : bool) : list Z -> list Z -> list Z := if pw then pwmax else sel_max (list Z) vltb.
Definition mrecords_v (pwc pwl : bool) (evs : list (event (list Z))) :=
  records_g (list Z) vneg vabs (msel_min pwc) (msel_max pwc) (msel_min pwl) (msel_max pwl) mzero mzero evs.
Definition mobs_of (pwc pwl : bool) (e : list (event (list Z))) :=
  (map (fun j => map (fun r => let r' := proj_rec j r in (r', derived r')) (mrecords_v pwc pwl e)) (seq 0 n),
   map (at_ 0) (strain_values (list Z) e), n_first_run (list Z) e).
Definition mobs_v (pwc pwl : bool) (s : list Z) := mobs_of pwc pwl (mtrace s).
End Multi.

(* ---------- rational values, law given by tables (outputs of a real law, recorded by the harness) ---------- *)
Fixpoint lookup (t : list (Z * Q)) (k : Z) : Q :=
  match t with [] => 0%Q | (k', v) :: r => if k =? k' then v else lookup r k end.
Section Table.
Variables tsig teps tdsig tdeps : list (Z * Q).
Definition qtrace (s : list Z) : list (event Q) :=
  trace Q Qplus (lookup tsig) (fun _ L => lookup teps L) (lookup tdsig) (fun _ d => lookup tdeps d) s.
Definition qltb (a b : Q) : bool := negb (Qle_bool b a).
Definition qrecords (evs : list (event Q)) : list (hrec Q) := records Q Qopp Qabs qltb 0%Q 0%Q evs.
Definition qobs (s : list Z) := let e := qtrace s in (qrecords e, strain_values Q e, n_first_run Q e).
End Table.
