(* Recorder layer of the HCM model under maps of the value type / of the load axis:
   - [records_hom]: a map h commuting with negation/abs and a positive scaling of the loads maps the rows to the rows,
     provided h preserves the outcome of every comparison the recorder actually makes ([cmp_agree]);
   - [records_mirror]: negation of loads and values mirrors every row (min/max swapped), the running strain extremes
     included as long as no processed load equals its previous_load; without that proviso all columns but *_LF. *)
From Coq Require Import ZArith List Bool Lia.
From PL Require Import Rainflow.Model HCM.Model HCM.Load HCM.Sim.
Import ListNotations.
Open Scope Z_scope.

Section RecHom.
Variables V W : Type.
Variables vneg vabs : V -> V.
Variable vltb : V -> V -> bool.
Variables wneg wabs : W -> W.
Variable wltb : W -> W -> bool.
Variable h : V -> W.
Variable phi : Z -> Z.
Variable c : Z.
Hypothesis Hc : 0 < c.
Hypothesis Hphi : forall x, phi x = c * x.
Hypothesis Hneg : forall a, h (vneg a) = wneg (h a).
Hypothesis Habs : forall a, h (vabs a) = wabs (h a).

Definition agree (a b : V) : Prop := vltb a b = wltb (h a) (h b).

(* h preserves every comparison made while the rows of [evs] are produced *)
Fixpoint cmp_agree (emin emax : V) (evs : list (event V)) : Prop :=
  match evs with
  | [] => True
  | Half _ _ :: r => cmp_agree emin emax r
  | Closed p0 p1 _ :: r =>
      agree (pS p0) (pS p1) /\ agree (pS p1) (pS p0) /\ agree (pE p0) (pE p1) /\ agree (pE p1) (pE p0) /\ cmp_agree emin emax r
  | Visit cur prev _ :: r =>
      agree (pE cur) emax /\ agree emin (pE cur) /\
      cmp_agree (fst (lf_update V vltb emin emax cur (prev <? pL cur))) (snd (lf_update V vltb emin emax cur (prev <? pL cur))) r
  end.

Definition mrec (r : hrec V) : hrec W :=
  {| r_lmin := phi (r_lmin r); r_lmax := phi (r_lmax r); r_smin := h (r_smin r); r_smax := h (r_smax r);
     r_emin := h (r_emin r); r_emax := h (r_emax r); r_eminLF := h (r_eminLF r); r_emaxLF := h (r_emaxLF r);
     r_closed := r_closed r; r_zero := r_zero r; r_run := r_run r |}.

Lemma sel_min_hom a b : agree a b -> sel_min W wltb (h a) (h b) = h (sel_min V vltb a b).
Proof. unfold agree, sel_min. intros <-. destruct (vltb a b); reflexivity. Qed.
Lemma sel_max_hom a b : agree b a -> sel_max W wltb (h a) (h b) = h (sel_max V vltb a b).
Proof. unfold agree, sel_max. intros <-. destruct (vltb b a); reflexivity. Qed.

Lemma phi_ltb a b : (phi a <? phi b) = (a <? b).
Proof. rewrite !Hphi. destruct (Z.ltb_spec a b); destruct (Z.ltb_spec (c * a) (c * b)); auto; nia. Qed.
Lemma phi_abs a : Z.abs (phi a) = phi (Z.abs a).
Proof. rewrite !Hphi. rewrite Z.abs_mul. rewrite (Z.abs_eq c); lia. Qed.
Lemma phi_opp a : - phi a = phi (- a).
Proof. rewrite !Hphi. ring. Qed.

Theorem records_hom : forall evs emin emax, cmp_agree emin emax evs ->
  records W wneg wabs wltb (h emin) (h emax) (map (mev V W h phi) evs) = map mrec (records V vneg vabs vltb emin emax evs).
Proof.
  induction evs as [|e evs IH]; intros emin emax Hag; [reflexivity|].
  destruct e as [prev run|p0 p1 run|cur prev run]; cbn [map mev records cmp_agree] in *.
  - f_equal; [|apply IH; exact Hag].
    unfold rec_half, mrec, mp. cbn. rewrite !Hneg, !Habs, phi_abs, phi_opp. reflexivity.
  - destruct Hag as (A1 & A2 & A3 & A4 & Hag). f_equal; [|apply IH; exact Hag].
    unfold rec_closed, mrec, mp. cbn. rewrite !phi_ltb, !sel_min_hom, !sel_max_hom by assumption.
    destruct (pL p0 <? pL p1); destruct (pL p1 <? pL p0); reflexivity.
  - destruct Hag as (A1 & A2 & Hag). cbn [pL mp pE]. rewrite phi_ltb.
    unfold lf_update in *. cbn [pE mp]. unfold agree in A1, A2.
    destruct (prev <? pL cur); cbn [fst snd] in Hag.
    + rewrite <- A1. rewrite <- IH by exact Hag. destruct (vltb (pE cur) emax); reflexivity.
    + rewrite <- A2. rewrite <- IH by exact Hag. destruct (vltb emin (pE cur)); reflexivity.
Qed.

(* the load columns do not depend on the value type at all *)
Lemma lrecs_mev (evs : list (event V)) :
  lrecs (map (mev V W h phi) evs) = map (fun r => (phi (fst (fst (fst r))), phi (snd (fst (fst r))), snd (fst r), snd r)) (lrecs evs).
Proof.
  induction evs as [|e evs IH]; [reflexivity|].
  destruct e as [prev run|p0 p1 run|cur prev run]; cbn [map mev lrecs]; rewrite ?IH; cbn [pL mp fst snd]; auto.
  - rewrite phi_abs, phi_opp. reflexivity.
  - rewrite !phi_ltb. destruct (pL p0 <? pL p1); destruct (pL p1 <? pL p0); reflexivity.
Qed.
End RecHom.

(* rows -> load columns *)
Definition lrow {V} (r : hrec V) : Z * Z * bool * nat := (r_lmin r, r_lmax r, r_closed r, r_run r).
Lemma lrow_records V vneg vabs vltb : forall evs emin emax, map lrow (records V vneg vabs vltb emin emax evs) = lrecs evs.
Proof.
  induction evs as [|e evs IH]; intros; [reflexivity|].
  destruct e as [prev run|p0 p1 run|cur prev run]; cbn [records lrecs map].
  - rewrite IH. reflexivity.
  - rewrite IH. reflexivity.
  - destruct (lf_update V vltb emin emax cur (prev <? pL cur)). apply IH.
Qed.

Section Mirror.
Variable V : Type.
Variables vneg vabs : V -> V.
Variable vltb : V -> V -> bool.
Hypothesis Hinv : forall a, vneg (vneg a) = a.
Hypothesis Habs : forall a, vabs (vneg a) = vabs a.
Hypothesis Hlt : forall a b, vltb (vneg a) (vneg b) = vltb b a.

Definition mirror_rec (r : hrec V) : hrec V :=
  {| r_lmin := - r_lmax r; r_lmax := - r_lmin r; r_smin := vneg (r_smax r); r_smax := vneg (r_smin r);
     r_emin := vneg (r_emax r); r_emax := vneg (r_emin r); r_eminLF := vneg (r_emaxLF r); r_emaxLF := vneg (r_eminLF r);
     r_closed := r_closed r; r_zero := r_zero r; r_run := r_run r |}.
Definition no_flat (evs : list (event V)) : Prop :=
  Forall (fun e => match e with Visit cur prev _ => prev <> pL cur | _ => True end) evs.
Definition mirror_ev := mev V V vneg Z.opp.

Lemma sel_min_neg a b : sel_min V vltb (vneg a) (vneg b) = vneg (sel_max V vltb a b).
Proof. unfold sel_min, sel_max. rewrite Hlt. destruct (vltb b a); reflexivity. Qed.
Lemma sel_max_neg a b : sel_max V vltb (vneg a) (vneg b) = vneg (sel_min V vltb a b).
Proof. unfold sel_min, sel_max. rewrite Hlt. destruct (vltb a b); reflexivity. Qed.

Lemma rec_half_mirror p run emin emax :
  rec_half V vneg vabs (mp V V vneg Z.opp p) run (vneg emax) (vneg emin) = mirror_rec (rec_half V vneg vabs p run emin emax).
Proof. unfold rec_half, mirror_rec, mp. cbn. rewrite !Habs, !Hinv, Z.abs_opp, Z.opp_involutive. reflexivity. Qed.
Lemma rec_closed_mirror p0 p1 run emin emax :
  rec_closed V vltb (mp V V vneg Z.opp p0) (mp V V vneg Z.opp p1) run (vneg emax) (vneg emin) = mirror_rec (rec_closed V vltb p0 p1 run emin emax).
Proof.
  unfold rec_closed, mirror_rec, mp. cbn. rewrite !sel_min_neg, !sel_max_neg.
  replace (- pL p0 <? - pL p1) with (pL p1 <? pL p0) by (destruct (Z.ltb_spec (pL p1) (pL p0)); destruct (Z.ltb_spec (- pL p0) (- pL p1)); auto; lia).
  replace (- pL p1 <? - pL p0) with (pL p0 <? pL p1) by (destruct (Z.ltb_spec (pL p0) (pL p1)); destruct (Z.ltb_spec (- pL p1) (- pL p0)); auto; lia).
  destruct (pL p0 <? pL p1); destruct (pL p1 <? pL p0); reflexivity.
Qed.

(* all columns, running strain extremes included, when no processed load equals its previous_load *)
Theorem records_mirror : forall evs emin emax, no_flat evs ->
  records V vneg vabs vltb (vneg emax) (vneg emin) (map mirror_ev evs) = map mirror_rec (records V vneg vabs vltb emin emax evs).
Proof.
  induction evs as [|e evs IH]; intros emin emax Hnf; [reflexivity|]. inversion Hnf as [|? ? He Hr]; subst.
  destruct e as [prev run|p0 p1 run|cur prev run]; cbn [map mirror_ev mev records].
  - rewrite rec_half_mirror. f_equal. apply IH; exact Hr.
  - rewrite rec_closed_mirror. f_equal. apply IH; exact Hr.
  - cbn [pL mp pE]. unfold lf_update. cbn [pE mp].
    destruct (Z.ltb_spec prev (pL cur)); destruct (Z.ltb_spec (- prev) (- pL cur)); try lia.
    + (* up in the original, down in the mirror image *)
      rewrite Hlt. destruct (vltb (pE cur) emax); apply IH; exact Hr.
    + rewrite Hlt. destruct (vltb emin (pE cur)); apply IH; exact Hr.
Qed.

(* all columns except the running strain extremes: unconditionally *)
Definition strip (z : V) (r : hrec V) : hrec V :=
  {| r_lmin := r_lmin r; r_lmax := r_lmax r; r_smin := r_smin r; r_smax := r_smax r; r_emin := r_emin r; r_emax := r_emax r;
     r_eminLF := z; r_emaxLF := z; r_closed := r_closed r; r_zero := r_zero r; r_run := r_run r |}.
Theorem records_mirror_noLF z : forall evs a b a' b',
  map (strip z) (records V vneg vabs vltb a' b' (map mirror_ev evs)) = map (fun r => strip z (mirror_rec r)) (records V vneg vabs vltb a b evs).
Proof.
  induction evs as [|e evs IH]; intros a b a' b'; [reflexivity|].
  destruct e as [prev run|p0 p1 run|cur prev run]; cbn [map mirror_ev mev records].
  - f_equal; [|apply IH]. unfold strip, rec_half, mirror_rec, mp. cbn. rewrite !Habs, !Hinv, Z.abs_opp, Z.opp_involutive. reflexivity.
  - f_equal; [|apply IH]. rewrite <- (Hinv a'), <- (Hinv b'). rewrite rec_closed_mirror. reflexivity.
  - destruct (lf_update V vltb a' b' (mp V V vneg Z.opp cur) (- prev <? pL (mp V V vneg Z.opp cur))).
    destruct (lf_update V vltb a b cur (prev <? pL cur)). apply IH.
Qed.
End Mirror.
