(* Simulation theorem for the HCM trace layer: the control flow of the model depends on the loads only through
   comparisons that are invariant under L |-> c * L (c <> 0), and on the values not at all.  Hence a map h of the
   value type that commutes with the law and with addition, together with a non-zero scaling of the loads, maps the
   trace to the trace.  Instances: projection to the load-only model (c = 1, h = const tt), projection of a
   multi-point run to one assessment point (c = 1, h = nth j), mirror symmetry (c = -1, h = negation, odd law),
   positive scaling of the load axis. *)
From Coq Require Import ZArith List Bool Lia.
From PL Require Import Rainflow.Model HCM.Model.
Import ListNotations.
Open Scope Z_scope.

Section Sim.
Variables V W : Type.
Variable vadd : V -> V -> V.
Variable wadd : W -> W -> W.
Variable sig : Z -> V.
Variable eps : V -> Z -> V.
Variable dsig : Z -> V.
Variable deps : V -> Z -> V.
Variable sig' : Z -> W.
Variable eps' : W -> Z -> W.
Variable dsig' : Z -> W.
Variable deps' : W -> Z -> W.
Variable h : V -> W.
Variable phi : Z -> Z.
Variable c : Z.
Hypothesis Hc : c <> 0.
Hypothesis Hphi : forall x, phi x = c * x.
Hypothesis Hadd : forall a b, h (vadd a b) = wadd (h a) (h b).
Hypothesis Hsig : forall L, h (sig L) = sig' (phi L).
Hypothesis Heps : forall s L, h (eps s L) = eps' (h s) (phi L).
Hypothesis Hdsig : forall d, h (dsig d) = dsig' (phi d).
Hypothesis Hdeps : forall ds d, h (deps ds d) = deps' (h ds) (phi d).

Definition mp (p : point V) : point W := {| pL := phi (pL p); pS := h (pS p); pE := h (pE p) |}.
Definition mev (e : event V) : event W :=
  match e with
  | Half p r => Half (mp p) r
  | Closed p0 p1 r => Closed (mp p0) (mp p1) r
  | Visit cur prev r => Visit (mp cur) (phi prev) r
  end.
Definition mcore (k : core V) : core W := let '(res, iz, ir, lmax) := k in (map mp res, iz, ir, Z.abs c * lmax).

Notation stepV := (step V vadd sig eps dsig deps).
Notation stepW := (step W wadd sig' eps' dsig' deps').

Lemma phi_sub a b : phi a - phi b = phi (a - b).
Proof. rewrite !Hphi. ring. Qed.
Lemma abs_phi a : Z.abs (phi a) = Z.abs c * Z.abs a.
Proof. rewrite Hphi. apply Z.abs_mul. Qed.
Lemma scaled_ltb a b : (Z.abs c * a <? Z.abs c * b) = (a <? b).
Proof.
  assert (0 < Z.abs c) by lia.
  destruct (Z.ltb_spec a b); destruct (Z.ltb_spec (Z.abs c * a) (Z.abs c * b)); auto; nia.
Qed.
Lemma phi_ltb_pos a b : 0 < c -> (phi a <? phi b) = (a <? b).
Proof. intros. rewrite !Hphi. destruct (Z.ltb_spec a b); destruct (Z.ltb_spec (c * a) (c * b)); auto; nia. Qed.
Lemma phi_ltb_neg a b : c < 0 -> (phi a <? phi b) = (b <? a).
Proof. intros. rewrite !Hphi. destruct (Z.ltb_spec b a); destruct (Z.ltb_spec (c * a) (c * b)); auto; nia. Qed.
Lemma phi_eqb a b : (phi a =? phi b) = (a =? b).
Proof. rewrite !Hphi. destruct (Z.eqb_spec a b); destruct (Z.eqb_spec (c * a) (c * b)); auto; nia. Qed.

Lemma primary_sim L : mp (primary V sig eps L) = primary W sig' eps' (phi L).
Proof. unfold mp, primary. cbn. rewrite Heps, Hsig. reflexivity. Qed.
Lemma secondary_sim p L : mp (secondary V vadd dsig deps p L) = secondary W wadd dsig' deps' (mp p) (phi L).
Proof. unfold mp, secondary. cbn. rewrite !Hadd, Hdeps, Hdsig, phi_sub. reflexivity. Qed.

Definition mstep (r : option (list (event V) * point V * list (point V) * nat * nat)) :=
  match r with
  | Some (evs, cur, res', iz', ir') => Some (map mev evs, mp cur, map mp res', iz', ir')
  | None => None
  end.

Lemma step_sim : forall n res iz ir lmax L run, (length res <= n)%nat ->
  stepW (map mp res) iz ir (Z.abs c * lmax) (phi L) run = mstep (stepV res iz ir lmax L run).
Proof.
  induction n; intros res iz ir lmax L run Hn.
  - destruct res; [|cbn in Hn; lia]. cbn [Model.step map]. destruct (iz =? ir)%nat; [reflexivity|].
    destruct (iz <? ir)%nat; [|reflexivity]. cbn [mstep map]. rewrite primary_sim. reflexivity.
  - destruct res as [|p1 res].
    + apply IHn. cbn. lia.
    + cbn [Model.step map]. destruct (iz =? ir)%nat.
      * rewrite abs_phi, scaled_ltb. destruct (lmax <? Z.abs L); cbn; rewrite ?primary_sim, ?secondary_sim; reflexivity.
      * destruct (iz <? ir)%nat; [cbn; rewrite primary_sim; reflexivity|].
        destruct res as [|p0 rest]; [reflexivity|]. cbn [map].
        change (pL (mp p1)) with (phi (pL p1)). change (pL (mp p0)) with (phi (pL p0)).
        rewrite !phi_sub, !abs_phi, !scaled_ltb.
        destruct (Z.abs (L - pL p1) <? Z.abs (pL p1 - pL p0)); [cbn; rewrite secondary_sim; reflexivity|].
        destruct ((Z.abs (pL p0) <? lmax) && (Z.abs (pL p1) <? lmax)).
        -- rewrite IHn by (cbn in Hn; lia).
           destruct (stepV rest (iz - 2)%nat ir lmax L run) as [[[[[evs cur] res'] iz'] ir']|]; reflexivity.
        -- cbn. rewrite primary_sim. reflexivity.
Qed.

Notation sampleV := (sample V vadd sig eps dsig deps).
Notation sampleW := (sample W wadd sig' eps' dsig' deps').
Notation feedV := (feed V vadd sig eps dsig deps).
Notation feedW := (feed W wadd sig' eps' dsig' deps').

Definition mres (r : option (core V * list (event V))) : option (core W * list (event W)) :=
  match r with Some (k, e) => Some (mcore k, map mev e) | None => None end.

Lemma sample_sim k prev run L : sampleW (mcore k) (phi prev) run (phi L) = mres (sampleV k prev run L).
Proof.
  destruct k as [[[res iz] ir] lmax]. unfold Model.sample, mcore.
  rewrite (step_sim (length res)) by lia.
  destruct (stepV res iz ir lmax L run) as [[[[[evs cur] res'] iz'] ir']|]; [|reflexivity].
  cbn. rewrite abs_phi, scaled_ltb, map_app. cbn.
  destruct (lmax <? Z.abs L); reflexivity.
Qed.

Lemma feed_sim : forall ls k prev run, feedW (mcore k) (phi prev) run (map phi ls) = mres (feedV k prev run ls).
Proof.
  induction ls as [|L r IH]; intros k prev run.
  - reflexivity.
  - cbn [Model.feed map]. rewrite sample_sim. destruct (sampleV k prev run L) as [[k1 e1]|]; [|reflexivity].
    cbn [mres]. rewrite IH. destruct (feedV k1 L run r) as [[k2 e2]|]; [|reflexivity].
    cbn. rewrite map_app. reflexivity.
Qed.

(* ---------- turning points under L |-> c * L ---------- *)
Definition mi (iv : nat * Z) : nat * Z := (fst iv, phi (snd iv)).

Lemma sgn_phi a b : Z.sgn (phi a - phi b) = Z.sgn c * Z.sgn (a - b).
Proof. rewrite phi_sub, Hphi. apply Z.sgn_mul. Qed.

Lemma scan_sim : forall s p d ci i, scan (phi p) (Z.sgn c * d) ci i (map phi s) = map mi (scan p d ci i s).
Proof.
  induction s as [|x r IH]; intros p d ci i; [reflexivity|].
  cbn [scan map]. rewrite phi_eqb. destruct (x =? p); [apply IH|].
  rewrite sgn_phi, IH.
  assert (E1 : (Z.sgn c * d =? 0) = (d =? 0)).
  { destruct (Z.eqb_spec d 0); destruct (Z.eqb_spec (Z.sgn c * d) 0); auto; nia. }
  assert (E2 : (Z.sgn c * Z.sgn (x - p) =? Z.sgn c * d) = (Z.sgn (x - p) =? d)).
  { destruct (Z.eqb_spec (Z.sgn (x - p)) d); destruct (Z.eqb_spec (Z.sgn c * Z.sgn (x - p)) (Z.sgn c * d)); auto; nia. }
  rewrite E1, E2. destruct (negb (d =? 0) && negb (Z.sgn (x - p) =? d)); reflexivity.
Qed.

Lemma find_turns_sim s : find_turns (map phi s) = map mi (find_turns s).
Proof.
  destruct s as [|x r]; [reflexivity|]. cbn [find_turns map].
  replace 0 with (Z.sgn c * 0) at 1 by ring. apply scan_sim.
Qed.

Lemma lastn1_map {A B} (f : A -> B) l : lastn1 (map f l) = map f (lastn1 l).
Proof. unfold lastn1. rewrite <- map_rev. destruct (rev l); reflexivity. Qed.

Lemma new_turns_sim tl hd ch fl :
  new_turns (map phi tl) hd (map phi ch) fl =
  let '(t, tl', hd') := new_turns tl hd ch fl in (map mi t, map phi tl', hd').
Proof.
  unfold new_turns. rewrite <- map_app, find_turns_sim, !map_length.
  set (T := find_turns (tl ++ ch)).
  assert (E : match rev (map mi T) with [] => 0%nat | (i, _) :: _ => i end = match rev T with [] => 0%nat | (i, _) :: _ => i end).
  { rewrite <- map_rev. destruct (rev T) as [|[i v] q]; reflexivity. }
  rewrite E. set (sti := match rev T with [] => 0%nat | (i, _) :: _ => i end).
  rewrite skipn_map, lastn1_map. unfold mi.
  destruct fl; rewrite ?map_app, !map_map; cbn [fst snd]; reflexivity.
Qed.

Lemma is_turn_index_sim l i : is_turn_index (map phi l) i = is_turn_index l i.
Proof.
  unfold is_turn_index. rewrite find_turns_sim. induction (find_turns l) as [|iv r IH]; [reflexivity|].
  cbn. rewrite IH. reflexivity.
Qed.
Lemma phi0 : phi 0 = 0.
Proof. rewrite Hphi. ring. Qed.
Lemma flush_first_sim s : flush_first (map phi s) = flush_first s.
Proof.
  unfold flush_first. rewrite map_length. rewrite <- (is_turn_index_sim ((0 :: s) ++ 0 :: s)).
  rewrite map_app. cbn [map]. rewrite phi0. reflexivity.
Qed.

(* ---------- passes ---------- *)
Definition mds (d : dstate V) : dstate W :=
  {| d_core := mcore (d_core d); d_tail := map phi (d_tail d); d_head := d_head d; d_run := d_run d |}.
Definition mpass (r : option (dstate V * list (event V))) : option (dstate W * list (event W)) :=
  match r with Some (d, e) => Some (mds d, map mev e) | None => None end.

Notation hpassV := (hpass V vadd sig eps dsig deps).
Notation hpassW := (hpass W wadd sig' eps' dsig' deps').

Lemma hpass_sim d samples fl : hpassW (mds d) (map phi samples) fl = mpass (hpassV d samples fl).
Proof.
  unfold Model.hpass. cbn [d_tail d_head d_run d_core mds]. rewrite new_turns_sim.
  destruct (new_turns (d_tail d) (d_head d) samples fl) as [[t tl] hd].
  replace (map snd (map mi t)) with (map phi (map snd t)) by (rewrite !map_map; reflexivity).
  rewrite <- phi0 at 1. rewrite feed_sim.
  destruct (feedV (d_core d) 0 (S (d_run d)) (map snd t)) as [[k e]|]; reflexivity.
Qed.

Lemma more_passes_sim : forall n d s,
  more_passes W wadd sig' eps' dsig' deps' n (mds d) (map phi s) = mpass (more_passes V vadd sig eps dsig deps n d s).
Proof.
  induction n; intros d s; [reflexivity|]. cbn [Model.more_passes]. rewrite hpass_sim.
  destruct (hpassV d s true) as [[d1 e1]|]; [|reflexivity]. cbn [mpass]. rewrite IHn.
  destruct (more_passes V vadd sig eps dsig deps n d1 s) as [[d2 e2]|]; [|reflexivity].
  cbn. rewrite map_app. reflexivity.
Qed.

Lemma dinit_sim : mds (dinit V) = dinit W.
Proof. unfold mds, dinit. cbn. rewrite Z.mul_0_r. reflexivity. Qed.

Theorem hcm_passes_sim n s :
  hcm_passes W wadd sig' eps' dsig' deps' n (map phi s) = mpass (hcm_passes V vadd sig eps dsig deps n s).
Proof.
  unfold Model.hcm_passes. rewrite flush_first_sim, <- dinit_sim.
  replace (0 :: map phi s) with (map phi (0 :: s)) by (cbn; rewrite phi0; reflexivity).
  rewrite hpass_sim. destruct (hpassV (dinit V) (0 :: s) (flush_first s)) as [[d1 e1]|]; [|reflexivity].
  cbn [mpass]. rewrite more_passes_sim.
  destruct (more_passes V vadd sig eps dsig deps n d1 s) as [[d2 e2]|]; [|reflexivity].
  cbn. rewrite map_app. reflexivity.
Qed.

Theorem trace_sim s : trace W wadd sig' eps' dsig' deps' (map phi s) = map mev (trace V vadd sig eps dsig deps s).
Proof.
  unfold trace. rewrite hcm_passes_sim.
  destruct (hcm_passes V vadd sig eps dsig deps 1 s) as [[d e]|]; reflexivity.
Qed.

End Sim.
