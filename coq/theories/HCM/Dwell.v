(* C04 (round 2): samples that repeat their predecessor do not change what the HCM model records.

   [squeeze_insensitive]: two sample sequences with the same samples up to repetition (same [dedup]) for which
   process_hcm_first takes the same flush decision produce the same events / records / HCM memory in every pass (generic in the
   value type and the law).  The only place where the NUMBER of repetitions is looked at is that flush decision (an index test).
   [dwell_insensitive]: in particular the length of a trailing plateau of at least two samples is irrelevant (the flush decision is
   `no` for every such length: the last sample is not the first sample of its plateau).

   Proof idea: find_turns is re-expressed without indices ([scanS] emits, instead of the index of a turn, the suffix of the
   input that starts there; [scan_scanS]); the values of the turns and the squeezed new sample tail are then functions of the
   squeezed input ([scanS_sq]), and squeezing commutes with concatenation of tail and chunk ([SQ_app_congr]). *)
From Coq Require Import ZArith List Bool Lia.
From PL Require Import Rainflow.Model HCM.Model HCM.Load HCM.Periodic.
Import ListNotations.
Open Scope Z_scope.

(* ---------- squeezing: drop every sample that equals its predecessor ---------- *)
Fixpoint sq (p : Z) (s : list Z) : list Z :=
  match s with [] => [] | x :: r => if x =? p then sq p r else x :: sq x r end.
Definition SQ (l : list Z) : list Z := match l with [] => [] | x :: r => x :: sq x r end.

Lemma dedup_cons2 x y r : dedup (x :: y :: r) = if x =? y then dedup (y :: r) else x :: dedup (y :: r).
Proof. reflexivity. Qed.
Lemma SQ_dedup l : SQ l = dedup l.
Proof.
  destruct l as [|x r]; [reflexivity|]. revert x. induction r as [|y r IH]; intros x; [reflexivity|].
  rewrite dedup_cons2, <- IH. cbn [SQ sq]. rewrite (Z.eqb_sym y x).
  destruct (Z.eqb_spec x y) as [->|Hn]; reflexivity.
Qed.

Lemma sq_idem s : forall p, sq p (sq p s) = sq p s.
Proof.
  induction s as [|a s IH]; intros p; cbn; auto.
  destruct (Z.eqb_spec a p) as [->|Hn]; [apply IH|]. cbn.
  destruct (Z.eqb_spec a p); [contradiction|]. now rewrite IH.
Qed.
Lemma SQ_idem l : SQ (SQ l) = SQ l.
Proof. destruct l; cbn; auto. now rewrite sq_idem. Qed.

Lemma last_cons_default (a : list Z) : forall x d, last (x :: a) d = last a x.
Proof. induction a as [|y a IH]; intros x d; [reflexivity|]. change (last (y :: a) d = last (y :: a) x). now rewrite !IH. Qed.

Lemma last_sq r : forall x, last (sq x r) x = last r x.
Proof.
  induction r as [|y r IH]; intros x; [reflexivity|]. cbn [sq].
  destruct (Z.eqb_spec y x) as [->|Hn].
  - rewrite IH. now rewrite last_cons_default.
  - rewrite !last_cons_default. apply IH.
Qed.

Lemma sq_app a : forall p b, sq p (a ++ b) = sq p a ++ sq (last a p) b.
Proof.
  induction a as [|x a IH]; intros p b; [reflexivity|]. cbn [app sq]. rewrite last_cons_default.
  destruct (Z.eqb_spec x p) as [->|Hn].
  - apply IH.
  - cbn. now rewrite IH.
Qed.

Definition sq_of (q : Z) (sb : list Z) : list Z :=
  match sb with [] => [] | y :: t => if y =? q then t else y :: t end.
Lemma sq_of_SQ q b : sq q b = sq_of q (SQ b).
Proof. destruct b as [|y r]; [reflexivity|]. cbn. destruct (Z.eqb_spec y q) as [->|]; reflexivity. Qed.

Lemma SQ_app a b : a <> [] -> SQ (a ++ b) = SQ a ++ sq_of (last (SQ a) 0) (SQ b).
Proof.
  destruct a as [|x r]; [congruence|]. intros _. cbn [app SQ]. rewrite sq_app, (sq_of_SQ (last r x) b).
  rewrite (last_cons_default (sq x r)), last_sq. reflexivity.
Qed.

Lemma SQ_nil l : SQ l = [] -> l = [].
Proof. destruct l; cbn; congruence. Qed.

Lemma SQ_app_congr a a' b b' : SQ a = SQ a' -> SQ b = SQ b' -> SQ (a ++ b) = SQ (a' ++ b').
Proof.
  intros Ha Hb. destruct a as [|x r].
  - symmetry in Ha. apply SQ_nil in Ha. subst. exact Hb.
  - destruct a' as [|x' r']; [discriminate|].
    rewrite !SQ_app by discriminate. now rewrite Ha, Hb.
Qed.

(* ---------- lastn1 ---------- *)
Lemma lastn1_cons (x y : Z) r : lastn1 (x :: y :: r) = lastn1 (y :: r).
Proof. unfold lastn1. cbn. destruct (rev r); reflexivity. Qed.
Lemma lastn1_last (l : list Z) : lastn1 l = match l with [] => [] | x :: r => [last r x] end.
Proof.
  induction l as [|x r IH]; [reflexivity|]. destruct r as [|y r]; [reflexivity|].
  rewrite lastn1_cons, IH. now rewrite last_cons_default.
Qed.
Lemma lastn1_SQ l : lastn1 (SQ l) = lastn1 l.
Proof. rewrite !lastn1_last. destruct l as [|x r]; [reflexivity|]. cbn [SQ]. now rewrite last_sq. Qed.

(* ---------- find_turns without indices ---------- *)
Fixpoint scanS (p d : Z) (cs : list Z) (s : list Z) : list (list Z * Z) :=
  match s with
  | [] => []
  | x :: r =>
      if x =? p then scanS p d cs r
      else let e := Z.sgn (x - p) in
           let rest := scanS x e (x :: r) r in
           if (negb (d =? 0)) && negb (e =? d) then (cs, p) :: rest else rest
  end.
Definition ftS (l : list Z) : list (list Z * Z) := match l with [] => [] | x :: r => scanS x 0 (x :: r) r end.

Lemma skipn_len_app (pre s : list Z) : skipn (length pre) (pre ++ s) = s.
Proof. induction pre; cbn; auto. Qed.

Lemma scan_scanS s : forall pre p d c i, length pre = i ->
  map (fun kv => (skipn (fst kv) (pre ++ s), snd kv)) (scan p d c i s) = scanS p d (skipn c (pre ++ s)) s.
Proof.
  induction s as [|x r IH]; intros pre p d c i Hl; [reflexivity|]. cbn [scan scanS].
  assert (Hre : pre ++ x :: r = (pre ++ [x]) ++ r) by (rewrite <- app_assoc; reflexivity).
  assert (Hl' : length (pre ++ [x]) = S i) by (rewrite app_length; cbn; lia).
  destruct (x =? p).
  - rewrite Hre. apply IH. exact Hl'.
  - assert (Hrest : map (fun kv => (skipn (fst kv) (pre ++ x :: r), snd kv)) (scan x (Z.sgn (x - p)) i (S i) r)
                    = scanS x (Z.sgn (x - p)) (x :: r) r).
    { rewrite Hre, (IH (pre ++ [x]) x (Z.sgn (x - p)) i (S i) Hl'). f_equal.
      rewrite <- Hre, <- Hl. apply skipn_len_app. }
    cbv zeta. destruct (negb (d =? 0) && negb (Z.sgn (x - p) =? d)); cbn [map fst snd]; now rewrite Hrest.
Qed.

Lemma find_turns_ftS l : map (fun kv => (skipn (fst kv) l, snd kv)) (find_turns l) = ftS l.
Proof. destruct l as [|x r]; [reflexivity|]. apply (scan_scanS r [x] x 0 0%nat 1%nat eq_refl). Qed.

Definition tail_of (l : list Z) : list Z :=
  skipn (match rev (find_turns l) with [] => 0%nat | (i, _) :: _ => i end) l.

Lemma vals_ftS l : map snd (find_turns l) = map snd (ftS l).
Proof. rewrite <- find_turns_ftS, map_map. reflexivity. Qed.
Lemma tail_of_ftS l : tail_of l = match rev (ftS l) with [] => l | (cs, _) :: _ => cs end.
Proof.
  unfold tail_of. rewrite <- find_turns_ftS, <- map_rev.
  destruct (rev (find_turns l)) as [|[i v] t]; reflexivity.
Qed.

(* ---------- the index-free scan depends only on the squeezed input ---------- *)
Definition SQf (cv : list Z * Z) : list Z * Z := (SQ (fst cv), snd cv).

Lemma scanS_sq s : forall p d cs, map SQf (scanS p d cs s) = map SQf (scanS p d (SQ cs) (sq p s)).
Proof.
  induction s as [|a s IH]; intros p d cs; [reflexivity|]. cbn [scanS sq].
  destruct (Z.eqb_spec a p) as [->|Hn]; [apply IH|].
  cbn [scanS]. destruct (Z.eqb_spec a p); [contradiction|]. cbv zeta.
  assert (Hrest : map SQf (scanS a (Z.sgn (a - p)) (a :: s) s) = map SQf (scanS a (Z.sgn (a - p)) (a :: sq a s) (sq a s))).
  { rewrite IH. reflexivity. }
  destruct (negb (d =? 0) && negb (Z.sgn (a - p) =? d)); cbn [map]; rewrite Hrest; [|reflexivity].
  f_equal. unfold SQf. cbn [fst snd]. now rewrite SQ_idem.
Qed.

Lemma ftS_sq l : map SQf (ftS l) = map SQf (ftS (SQ l)).
Proof. destruct l as [|x r]; [reflexivity|]. cbn [ftS SQ]. rewrite scanS_sq. reflexivity. Qed.

Lemma vals_SQf l : map snd (map SQf l) = map snd l.
Proof. rewrite map_map. reflexivity. Qed.

Lemma turns_sq l l' : SQ l = SQ l' ->
  map snd (find_turns l) = map snd (find_turns l') /\ SQ (tail_of l) = SQ (tail_of l').
Proof.
  intros H.
  assert (HS : map SQf (ftS l) = map SQf (ftS l')) by (rewrite ftS_sq, H, <- ftS_sq; reflexivity).
  split.
  - rewrite !vals_ftS, <- (vals_SQf (ftS l)), HS, vals_SQf. reflexivity.
  - assert (Ht : forall m, SQ (tail_of m) = match rev (map SQf (ftS m)) with [] => SQ m | (cs, _) :: _ => cs end).
    { intros m. rewrite tail_of_ftS, <- map_rev. destruct (rev (ftS m)) as [|[cs v] t]; reflexivity. }
    rewrite !Ht, HS, H. reflexivity.
Qed.

(* ---------- new_turns: what the HCM loop uses (values of the turns, new tail) ---------- *)
Lemma new_turns_vals tl hd chunk flush :
  let '(t, tl2, _) := new_turns tl hd chunk flush in
  map snd t = map snd (find_turns (tl ++ chunk)) ++ (if flush then lastn1 (tail_of (tl ++ chunk)) else [])
  /\ tl2 = if flush then lastn1 (tail_of (tl ++ chunk)) else tail_of (tl ++ chunk).
Proof.
  unfold new_turns. fold (tail_of (tl ++ chunk)). destruct flush; cbn [fst snd].
  - rewrite map_app, !map_map. cbn [snd]. rewrite map_id. split; reflexivity.
  - rewrite map_map. cbn [snd]. rewrite app_nil_r. split; reflexivity.
Qed.

Lemma new_turns_sq tl tl' hd hd' chunk chunk' flush :
  SQ tl = SQ tl' -> SQ chunk = SQ chunk' ->
  let '(t, tl2, _) := new_turns tl hd chunk flush in
  let '(t', tl2', _) := new_turns tl' hd' chunk' flush in
  map snd t = map snd t' /\ SQ tl2 = SQ tl2'.
Proof.
  intros Ht Hc. pose proof (new_turns_vals tl hd chunk flush) as H1. pose proof (new_turns_vals tl' hd' chunk' flush) as H2.
  destruct (new_turns tl hd chunk flush) as [[t tl2] h2]. destruct (new_turns tl' hd' chunk' flush) as [[t' tl2'] h2'].
  destruct H1 as [-> ->], H2 as [-> ->].
  destruct (turns_sq _ _ (SQ_app_congr _ _ _ _ Ht Hc)) as [Hv Hq].
  assert (Hl : lastn1 (tail_of (tl ++ chunk)) = lastn1 (tail_of (tl' ++ chunk'))).
  { rewrite <- (lastn1_SQ (tail_of (tl ++ chunk))), Hq, lastn1_SQ. reflexivity. }
  destruct flush; rewrite Hv, ?Hl; split; auto.
Qed.

(* ---------- the HCM passes ---------- *)
Section Passes.
Variable V : Type.
Variable vadd : V -> V -> V.
Variable sig : Z -> V.
Variable eps : V -> Z -> V.
Variable dsig : Z -> V.
Variable deps : V -> Z -> V.

Let hp := hpass V vadd sig eps dsig deps.
Let mp := more_passes V vadd sig eps dsig deps.

Definition Rd (d d' : dstate V) : Prop :=
  d_core d = d_core d' /\ d_run d = d_run d' /\ SQ (d_tail d) = SQ (d_tail d').
Definition Ro (o o' : option (dstate V * list (event V))) : Prop :=
  match o, o' with
  | Some (d, e), Some (d', e') => e = e' /\ Rd d d'
  | None, None => True
  | _, _ => False
  end.

Lemma hpass_sq d d' s s' f : Rd d d' -> SQ s = SQ s' -> Ro (hp d s f) (hp d' s' f).
Proof.
  intros (Hc & Hr & Ht) Hs. unfold hp, hpass.
  pose proof (new_turns_sq (d_tail d) (d_tail d') (d_head d) (d_head d') s s' f Ht Hs) as H.
  destruct (new_turns (d_tail d) (d_head d) s f) as [[t tl2] h2].
  destruct (new_turns (d_tail d') (d_head d') s' f) as [[t' tl2'] h2'].
  destruct H as [Hv Hq]. rewrite Hv, Hc, Hr.
  destruct (feed V vadd sig eps dsig deps (d_core d') 0 (S (d_run d')) (map snd t')) as [[c e]|]; unfold Ro; [|exact I].
  split; [reflexivity|]. repeat split; cbn; auto.
Qed.

Lemma more_passes_sq n : forall d d' s s', Rd d d' -> SQ s = SQ s' -> Ro (mp n d s) (mp n d' s').
Proof.
  induction n as [|n IH]; intros d d' s s' Hd Hs; unfold mp; cbn [more_passes].
  - unfold Ro. split; auto.
  - pose proof (hpass_sq d d' s s' true Hd Hs) as H. unfold hp in H.
    destruct (hpass V vadd sig eps dsig deps d s true) as [[d1 e1]|], (hpass V vadd sig eps dsig deps d' s' true) as [[d1' e1']|];
      unfold Ro in H; try contradiction; [|exact I].
    destruct H as [-> Hd1]. pose proof (IH d1 d1' s s' Hd1 Hs) as H. unfold mp in H.
    destruct (more_passes V vadd sig eps dsig deps n d1 s) as [[d2 e2]|], (more_passes V vadd sig eps dsig deps n d1' s') as [[d2' e2']|];
      unfold Ro in H |- *; try contradiction; [|exact I].
    destruct H as [-> Hd2]. split; auto.
Qed.

Lemma hcm_passes_sq n s s' : SQ s = SQ s' -> flush_first s = flush_first s' ->
  Ro (hcm_passes V vadd sig eps dsig deps n s) (hcm_passes V vadd sig eps dsig deps n s').
Proof.
  intros Hs Hf. unfold hcm_passes. rewrite Hf.
  assert (H0 : SQ (0 :: s) = SQ (0 :: s')) by (apply (SQ_app_congr [0] [0] s s' eq_refl Hs)).
  assert (Hd : Rd (dinit V) (dinit V)) by (repeat split).
  pose proof (hpass_sq (dinit V) (dinit V) (0 :: s) (0 :: s') (flush_first s') Hd H0) as H. unfold hp in H.
  destruct (hpass V vadd sig eps dsig deps (dinit V) (0 :: s) (flush_first s')) as [[d1 e1]|],
           (hpass V vadd sig eps dsig deps (dinit V) (0 :: s') (flush_first s')) as [[d1' e1']|];
    unfold Ro in H; try contradiction; [|exact I].
  destruct H as [-> Hd1]. pose proof (more_passes_sq n d1 d1' s s' Hd1 Hs) as H. unfold mp in H.
  destruct (more_passes V vadd sig eps dsig deps n d1 s) as [[d2 e2]|], (more_passes V vadd sig eps dsig deps n d1' s') as [[d2' e2']|];
    unfold Ro in H |- *; try contradiction; [|exact I].
  destruct H as [-> Hd2]. split; auto.
Qed.
End Passes.

(* ---------- the flush decision of the first pass for a sequence that ends in a plateau ---------- *)
Lemma scan_idx s : forall pre p d c i k v, length pre = i -> (1 <= i)%nat -> nth (i - 1) pre 0 = p ->
  In (k, v) (scan p d c i s) -> k = c \/ ((i <= k)%nat /\ nth k (pre ++ s) 0 <> nth (k - 1) (pre ++ s) 0).
Proof.
  induction s as [|x r IH]; intros pre p d c i k v Hl Hi Hp Hin; [contradiction|]. cbn [scan] in Hin.
  assert (Hre : pre ++ x :: r = (pre ++ [x]) ++ r) by (rewrite <- app_assoc; reflexivity).
  assert (Hl' : length (pre ++ [x]) = S i) by (rewrite app_length; cbn; lia).
  assert (Hx : nth (S i - 1) (pre ++ [x]) 0 = x).
  { replace (S i - 1)%nat with (length pre) by lia. apply nth_middle. }
  destruct (Z.eqb_spec x p) as [->|Hn].
  - destruct (IH (pre ++ [p]) p d c (S i) k v Hl' ltac:(lia) Hx Hin) as [?|[? ?]]; [left; auto|right].
    rewrite Hre. split; [lia|auto].
  - assert (Hrest : In (k, v) (scan x (Z.sgn (x - p)) i (S i) r) -> k = c \/ ((i <= k)%nat /\ nth k (pre ++ x :: r) 0 <> nth (k - 1) (pre ++ x :: r) 0)).
    { intros H. right. destruct (IH (pre ++ [x]) x (Z.sgn (x - p)) i (S i) k v Hl' ltac:(lia) Hx H) as [->|[? ?]].
      - split; [lia|]. rewrite <- Hl at 1. rewrite nth_middle. rewrite app_nth1 by lia. rewrite Hp. exact Hn.
      - rewrite Hre. split; [lia|auto]. }
    cbv zeta in Hin. destruct (negb (d =? 0) && negb (Z.sgn (x - p) =? d)); [|auto].
    destruct Hin as [Heq|Hin]; [left; congruence|auto].
Qed.

Lemma find_turns_idx l k v : In (k, v) (find_turns l) -> k = 0%nat \/ ((1 <= k)%nat /\ nth k l 0 <> nth (k - 1) l 0).
Proof. destruct l as [|x r]; [contradiction|]. apply (scan_idx r [x] x 0 0%nat 1%nat k v eq_refl (le_n 1) eq_refl). Qed.

Lemma not_turn_index l i : (1 <= i)%nat -> nth i l 0 = nth (i - 1) l 0 -> is_turn_index l i = false.
Proof.
  intros Hi He. unfold is_turn_index. destruct (existsb _ _) eqn:E; [|reflexivity].
  apply existsb_exists in E. destruct E as ([k v] & Hin & Hk). cbn in Hk. apply Nat.eqb_eq in Hk. subst k.
  destruct (find_turns_idx l i v Hin) as [->|[_ Hne]]; [lia|contradiction].
Qed.

Lemma nth_two (pre : list Z) x rest :
  nth (length pre + 1) (pre ++ x :: x :: rest) 0 = x /\ nth (length pre) (pre ++ x :: x :: rest) 0 = x.
Proof.
  split; [|apply nth_middle].
  replace (pre ++ x :: x :: rest) with ((pre ++ [x]) ++ x :: rest) by (rewrite <- app_assoc; reflexivity).
  replace (length pre + 1)%nat with (length (pre ++ [x])) by (rewrite app_length; reflexivity).
  apply nth_middle.
Qed.

Lemma flush_first_plateau b x : flush_first (b ++ [x; x]) = false.
Proof.
  unfold flush_first.
  assert (Hl : (0 :: b ++ [x; x]) ++ (0 :: b ++ [x; x]) = (0 :: b) ++ x :: x :: (0 :: b ++ [x; x]))
    by (cbn; rewrite <- app_assoc; reflexivity).
  assert (Hn : length (b ++ [x; x]) = (length (0%Z :: b) + 1)%nat) by (rewrite app_length; cbn; lia).
  rewrite Hl, Hn. destruct (nth_two (0 :: b) x (0 :: b ++ [x; x])) as [H1 H2].
  apply not_turn_index; [lia|]. rewrite H1, Nat.add_sub, H2. reflexivity.
Qed.

Lemma repeat_snoc (x : Z) k : repeat x k ++ [x] = x :: repeat x k.
Proof. induction k; cbn; [reflexivity|]. now rewrite IHk. Qed.
Lemma sq_repeat x k : sq x (repeat x k) = [].
Proof. induction k; cbn; auto. now rewrite Z.eqb_refl. Qed.

(* ---------- the theorems ---------- *)
Theorem squeeze_insensitive n s s' :
  dedup s = dedup s' -> flush_first s = flush_first s' -> load_obs n s = load_obs n s'.
Proof.
  intros Hs Hf. rewrite <- !SQ_dedup in Hs. unfold load_obs, lpasses.
  pose proof (hcm_passes_sq unit uadd usig ueps usig ueps n s s' Hs Hf) as H.
  destruct (hcm_passes unit uadd usig ueps usig ueps n s) as [[d e]|], (hcm_passes unit uadd usig ueps usig ueps n s') as [[d' e']|];
    cbn in H; try contradiction; [|reflexivity].
  destruct H as [-> (Hc & _)]. now rewrite Hc.
Qed.
Example squeeze_insensitive_hyp_sat :
  dedup [1; -2; -2] = dedup [1; -2; -2; -2; -2] /\ flush_first [1; -2; -2] = flush_first [1; -2; -2; -2; -2] /\ [1; -2; -2] <> [1; -2; -2; -2; -2].
Proof. repeat split; discriminate. Qed.

Theorem dwell_insensitive n a x k : load_obs n (a ++ x :: x :: repeat x k) = load_obs n (a ++ [x; x]).
Proof.
  apply squeeze_insensitive.
  - rewrite <- !SQ_dedup. apply SQ_app_congr; [reflexivity|]. cbn. now rewrite !Z.eqb_refl, sq_repeat.
  - replace (a ++ x :: x :: repeat x k) with ((a ++ repeat x k) ++ [x; x]).
    + now rewrite !flush_first_plateau.
    + rewrite <- app_assoc. f_equal. change [x; x] with ([x] ++ [x]). rewrite app_assoc, repeat_snoc. cbn [app]. rewrite repeat_snoc. reflexivity.
Qed.

(* a dwell that is a reversal of the repeated sequence: pass 1 defers it, pass 2 counts the hysteresis it closes *)
Example dwell_example :
  load_obs 1 ([-2] ++ 0 :: 0 :: repeat 0 6) = Some ([(-2, 0, true, 2%nat)], [-2; 0])
  /\ steady_cycles ([-2] ++ 0 :: 0 :: repeat 0 6) = Some [(-2, 0)].
Proof. split; vm_compute; reflexivity. Qed.
