(* C05: structural theorems about the full HCM model (stress/strain bookkeeping), all for every load sequence:
   load columns = the C04 load model; mirror symmetry for an odd law; a multi-point run gives every point the rows of
   its single-point run; derived recorder columns; and what is NOT true of the running strain extremes. *)
From Coq Require Import ZArith QArith List Bool Lia.
From PL Require Import Rainflow.Model HCM.Model HCM.Load HCM.Sim HCM.RecThm HCM.Select HCM.Full HCM.Chunks.
Import ListNotations.
Open Scope Z_scope.

(* ---------- the load columns, flags and pass numbers of the full model are those of the load-only model ---------- *)
Section LoadCols.
Variable V : Type.
Variable vadd : V -> V -> V.
Variables vneg vabs : V -> V.
Variable vltb : V -> V -> bool.
Variable sig : Z -> V.
Variable eps : V -> Z -> V.
Variable dsig : Z -> V.
Variable deps : V -> Z -> V.

Lemma ltrace_is_projection s :
  ltrace s = map (mev V unit (fun _ => tt) (fun x => x)) (trace V vadd sig eps dsig deps s).
Proof.
  unfold ltrace. rewrite <- (map_id s) at 1.
  apply (trace_sim V unit vadd uadd sig eps dsig deps usig ueps usig ueps (fun _ => tt) (fun x => x) 1); auto; try lia.
Qed.

Theorem full_load_columns s emin emax :
  map lrow (records V vneg vabs vltb emin emax (trace V vadd sig eps dsig deps s)) = load_records s.
Proof.
  rewrite lrow_records. unfold load_records. rewrite ltrace_is_projection.
  rewrite (lrecs_mev V unit (fun _ => tt) (fun x => x) 1) by lia.
  rewrite <- (map_id (lrecs (trace V vadd sig eps dsig deps s))) at 1. apply map_ext.
  intros [[[a b] c] d]. reflexivity.
Qed.
End LoadCols.

(* ---------- mirror symmetry (odd law) ---------- *)
Section MirrorLaw.
Variable V : Type.
Variable vadd : V -> V -> V.
Variables vneg vabs : V -> V.
Variable vltb : V -> V -> bool.
Variable vzero : V.
Variable sig : Z -> V.
Variable eps : V -> Z -> V.
Variable dsig : Z -> V.
Variable deps : V -> Z -> V.
Hypothesis Hinv : forall a, vneg (vneg a) = a.
Hypothesis Habs : forall a, vabs (vneg a) = vabs a.
Hypothesis Hlt : forall a b, vltb (vneg a) (vneg b) = vltb b a.
Hypothesis Hzero : vneg vzero = vzero.
Hypothesis Hadd : forall a b, vneg (vadd a b) = vadd (vneg a) (vneg b).
(* the law is odd *)
Hypothesis Hsig : forall L, vneg (sig L) = sig (- L).
Hypothesis Heps : forall s L, vneg (eps s L) = eps (vneg s) (- L).
Hypothesis Hdsig : forall d, vneg (dsig d) = dsig (- d).
Hypothesis Hdeps : forall ds d, vneg (deps ds d) = deps (vneg ds) (- d).

Notation tr := (trace V vadd sig eps dsig deps).
Notation coll := (collective V vadd vneg vabs vltb vzero sig eps dsig deps).

Theorem mirror_trace s : tr (map Z.opp s) = map (mirror_ev V vneg) (tr s).
Proof. apply (trace_sim V V vadd vadd sig eps dsig deps sig eps dsig deps vneg Z.opp (-1)); auto; try lia. Qed.

(* every column of every row, running strain extremes included, if no processed load equals its previous_load *)
Theorem mirror s : no_flat V (tr s) -> coll (map Z.opp s) = map (mirror_rec V vneg) (coll s).
Proof.
  intros Hnf. unfold collective. rewrite mirror_trace. rewrite <- Hzero at 1 2.
  apply records_mirror; auto.
Qed.
(* every column except epsilon_min_LF / epsilon_max_LF: unconditionally *)
Theorem mirror_noLF s z : map (strip V z) (coll (map Z.opp s)) = map (fun r => strip V z (mirror_rec V vneg r)) (coll s).
Proof. unfold collective. rewrite mirror_trace. apply records_mirror_noLF; auto. Qed.

Lemma visits_mev (evs : list (event V)) :
  visits V (map (mirror_ev V vneg) evs) = map (fun cr => (mp V V vneg Z.opp (fst cr), snd cr)) (visits V evs).
Proof. induction evs as [|[| |] evs IH]; cbn; rewrite ?IH; reflexivity. Qed.
Theorem mirror_strain_values s :
  strain_values V (tr (map Z.opp s)) = map vneg (strain_values V (tr s)) /\ n_first_run V (tr (map Z.opp s)) = n_first_run V (tr s).
Proof.
  rewrite mirror_trace. unfold strain_values, n_first_run. rewrite visits_mev. split.
  - rewrite !map_map. reflexivity.
  - induction (visits V (tr s)) as [|[p r] l IH]; cbn; [reflexivity|]. destruct (r =? 1)%nat; cbn; rewrite IH; reflexivity.
Qed.
End MirrorLaw.

(* the integer instance satisfies the hypotheses: the injected law is odd *)
Lemma isig_odd L : - isig L = isig (- L).
Proof. unfold isig. rewrite Z.sgn_opp. ring. Qed.
Lemma ieps_odd s L : - ieps s L = ieps (- s) (- L).
Proof. unfold ieps. rewrite Z.sgn_opp, Z.abs_opp. ring. Qed.
Lemma idsig_odd d : - idsig d = idsig (- d).
Proof. unfold idsig. rewrite Z.sgn_opp. ring. Qed.
Lemma ideps_odd ds d : - ideps ds d = ideps (- ds) (- d).
Proof. unfold ideps. rewrite Z.sgn_opp, Z.abs_opp. ring. Qed.
Lemma Zltb_opp a b : (- a <? - b) = (b <? a).
Proof. destruct (Z.ltb_spec (- a) (- b)); destruct (Z.ltb_spec b a); auto; lia. Qed.

Theorem mirror_int_law s : no_flat Z (ztrace s) ->
  zrecords (ztrace (map Z.opp s)) = map (mirror_rec Z Z.opp) (zrecords (ztrace s)).
Proof.
  apply (mirror Z Z.add Z.opp Z.abs Z.ltb 0 isig ieps idsig ideps); intros;
    auto using Z.opp_involutive, Z.abs_opp, Zltb_opp, Z.opp_add_distr, isig_odd, ieps_odd, idsig_odd, ideps_odd.
Qed.
Example mirror_hyp_sat : no_flat Z (ztrace [1; -3; 2; -1]) /\ zrecords (ztrace [1; -3; 2; -1]) <> [].
Proof. split; [vm_compute; repeat constructor; discriminate|vm_compute; discriminate]. Qed.

(* the proviso is needed: previous_load restarts at 0 in every pass; when the first load processed in pass 2 is 0
   it is treated as "not increasing" in the sequence and in its mirror image alike *)
Theorem mirror_lf_refuted : exists s, zrecords (ztrace (map Z.opp s)) <> map (mirror_rec Z Z.opp) (zrecords (ztrace s)).
Proof. exists [0; -2]. vm_compute. discriminate. Qed.

(* ---------- several assessment points ---------- *)
Lemma at_vec n f j : (j < n)%nat -> at_ j (vec n f) = f j.
Proof.
  intros H. unfold at_, vec. rewrite (nth_indep _ 0 (f 0%nat)) by (rewrite map_length, seq_length; exact H).
  rewrite map_nth, seq_nth by exact H. reflexivity.
Qed.

Section MultiThm.
Variable cs : list Z.
Variable j : nat.
Hypothesis Hj : (j < length cs)%nat.
Hypothesis Hpos : 0 < at_ j cs.
Let phi (x : Z) := at_ j cs * x.

Lemma nodeL1 L : nodeL 1 cs L j = phi L.
Proof. unfold nodeL, phi. rewrite Z.div_1_r. ring. Qed.

Theorem multipoint_trace s : ztrace (map phi s) = map (mev (list Z) Z (at_ j) phi) (mtrace 1 cs s).
Proof.
  unfold ztrace, mtrace.
  apply (trace_sim (list Z) Z (vadd cs) Z.add (msig 1 cs) (meps 1 cs) (mdsig 1 cs) (mdeps 1 cs) isig ieps idsig ideps (at_ j) phi (at_ j cs));
    intros; try lia; try reflexivity.
  - unfold vadd. rewrite at_vec by exact Hj. reflexivity.
  - unfold msig. rewrite at_vec by exact Hj. rewrite nodeL1. reflexivity.
  - unfold meps. rewrite at_vec by exact Hj. rewrite nodeL1. reflexivity.
  - unfold mdsig. rewrite at_vec by exact Hj. rewrite nodeL1. reflexivity.
  - unfold mdeps. rewrite at_vec by exact Hj. rewrite nodeL1. reflexivity.
Qed.

(* every assessment point gets exactly the rows it gets when processed alone (loads scaled by its positive ratio),
   provided the point orders the stresses/strains that the recorder compares like point 0 does *)
Theorem multipoint_is_pointwise s :
  cmp_agree (list Z) Z vltb Z.ltb (at_ j) (mzero cs) (mzero cs) (mtrace 1 cs s) ->
  map (proj_rec 1 cs j) (mrecords cs (mtrace 1 cs s)) = zrecords (ztrace (map phi s)).
Proof.
  intros Hag. rewrite multipoint_trace. unfold zrecords, mrecords.
  assert (Hz : at_ j (mzero cs) = 0) by (unfold mzero; rewrite at_vec by exact Hj; reflexivity).
  rewrite <- Hz.
  rewrite (records_hom (list Z) Z (vneg cs) (vabs cs) vltb Z.opp Z.abs Z.ltb (at_ j) phi (at_ j cs)); auto.
  - apply map_ext. intros r. unfold proj_rec, mrec. rewrite !nodeL1. reflexivity.
  - intros a. unfold vneg. rewrite at_vec by exact Hj. reflexivity.
  - intros a. unfold vabs. rewrite at_vec by exact Hj. reflexivity.
Qed.

(* ----- recorder variants (HCM.Select / Full.mrecords_v): which comparisons are still taken from point 0 ----- *)
Let ag (a b : list Z) : Prop := agree (list Z) Z vltb Z.ltb (at_ j) a b.
(* point j orders like point 0 every pair that the variant (pwc, pwl) still compares at point 0 only *)
Fixpoint cmp_agree_v (pwc pwl : bool) (emin emax : list Z) (evs : list (event (list Z))) : Prop :=
  match evs with
  | [] => True
  | Half _ _ :: r => cmp_agree_v pwc pwl emin emax r
  | Closed p0 p1 _ :: r =>
      (pwc = false -> ag (pS p0) (pS p1) /\ ag (pS p1) (pS p0) /\ ag (pE p0) (pE p1) /\ ag (pE p1) (pE p0)) /\
      cmp_agree_v pwc pwl emin emax r
  | Visit cur prev _ :: r =>
      (pwl = false -> if prev <? pL cur then ag (pE cur) emax else ag emin (pE cur)) /\
      cmp_agree_v pwc pwl
        (fst (lf_update_g (list Z) (msel_min cs pwl) (msel_max cs pwl) emin emax cur (prev <? pL cur)))
        (snd (lf_update_g (list Z) (msel_min cs pwl) (msel_max cs pwl) emin emax cur (prev <? pL cur))) r
  end.

Lemma zsel_min a b : sel_min Z Z.ltb a b = Z.min a b.
Proof. unfold sel_min. destruct (Z.ltb_spec a b); [rewrite Z.min_l|rewrite Z.min_r]; lia. Qed.
Lemma zsel_max a b : sel_max Z Z.ltb a b = Z.max a b.
Proof. unfold sel_max. destruct (Z.ltb_spec b a); [rewrite Z.max_l|rewrite Z.max_r]; lia. Qed.

Lemma msel_min_commutes pw a b : (pw = false -> ag a b) ->
  commutes (list Z) Z (at_ j) (msel_min cs pw) (sel_min Z Z.ltb) a b.
Proof.
  unfold commutes. destruct pw; cbn [msel_min]; intros H.
  - unfold pwmin. rewrite at_vec by exact Hj. rewrite zsel_min. reflexivity.
  - specialize (H eq_refl). unfold ag, agree in H. unfold sel_min. rewrite <- H. destruct (vltb a b); reflexivity.
Qed.
Lemma msel_max_commutes pw a b : (pw = false -> ag b a) ->
  commutes (list Z) Z (at_ j) (msel_max cs pw) (sel_max Z Z.ltb) a b.
Proof.
  unfold commutes. destruct pw; cbn [msel_max]; intros H.
  - unfold pwmax. rewrite at_vec by exact Hj. rewrite zsel_max. reflexivity.
  - specialize (H eq_refl). unfold ag, agree in H. unfold sel_max. rewrite <- H. destruct (vltb b a); reflexivity.
Qed.

Lemma cmp_agree_v_sel_ok pwc pwl : forall evs emin emax, cmp_agree_v pwc pwl emin emax evs ->
  sel_ok (list Z) Z (msel_min cs pwc) (msel_max cs pwc) (msel_min cs pwl) (msel_max cs pwl)
         (sel_min Z Z.ltb) (sel_max Z Z.ltb) (sel_min Z Z.ltb) (sel_max Z Z.ltb) (at_ j) emin emax evs.
Proof.
  induction evs as [|e evs IH]; intros emin emax H; [exact I|].
  destruct e as [prev run|p0 p1 run|cur prev run]; cbn [sel_ok cmp_agree_v] in *.
  - apply IH; exact H.
  - destruct H as (Hc & H). repeat split; try (apply IH; exact H).
    + apply msel_min_commutes. intros E. apply Hc; exact E.
    + apply msel_max_commutes. intros E. apply Hc; exact E.
    + apply msel_min_commutes. intros E. apply Hc; exact E.
    + apply msel_max_commutes. intros E. apply Hc; exact E.
  - destruct H as (Hl & H). split; [|apply IH; exact H].
    destruct (prev <? pL cur).
    + apply msel_max_commutes. exact Hl.
    + apply msel_min_commutes. exact Hl.
Qed.

(* the rows of point j, for ANY event list (whole-sequence runs and chunked runs alike) *)
Lemma mrecords_v_proj pwc pwl evs : cmp_agree_v pwc pwl (mzero cs) (mzero cs) evs ->
  map (proj_rec 1 cs j) (mrecords_v cs pwc pwl evs) = zrecords (map (mev (list Z) Z (at_ j) phi) evs).
Proof.
  intros Hag. unfold zrecords, mrecords_v. rewrite <- records_g_first_node.
  assert (Hz : at_ j (mzero cs) = 0) by (unfold mzero; rewrite at_vec by exact Hj; reflexivity).
  rewrite <- Hz.
  rewrite (records_g_hom (list Z) Z (vneg cs) (vabs cs) (msel_min cs pwc) (msel_max cs pwc) (msel_min cs pwl) (msel_max cs pwl)
             Z.opp Z.abs (sel_min Z Z.ltb) (sel_max Z Z.ltb) (sel_min Z Z.ltb) (sel_max Z Z.ltb) (at_ j) phi (at_ j cs)); auto.
  - apply map_ext. intros r. unfold proj_rec, mrec. rewrite !nodeL1. reflexivity.
  - intros a. unfold vneg. rewrite at_vec by exact Hj. reflexivity.
  - intros a. unfold vabs. rewrite at_vec by exact Hj. reflexivity.
  - apply cmp_agree_v_sel_ok. exact Hag.
Qed.
Lemma cmp_agree_v_tt : forall evs emin emax, cmp_agree_v true true emin emax evs.
Proof.
  induction evs as [|e evs IH]; intros emin emax; [exact I|].
  destruct e as [prev run|p0 p1 run|cur prev run]; cbn [cmp_agree_v]; auto.
  - split; [discriminate|apply IH].
  - split; [discriminate|apply IH].
Qed.

(* every variant: point j gets the rows of its single-point run if it orders like point 0 what is still compared at point 0 *)
Theorem multipoint_is_pointwise_v pwc pwl s :
  cmp_agree_v pwc pwl (mzero cs) (mzero cs) (mtrace 1 cs s) ->
  map (proj_rec 1 cs j) (mrecords_v cs pwc pwl (mtrace 1 cs s)) = zrecords (ztrace (map phi s)).
Proof. intros H. rewrite multipoint_trace. apply mrecords_v_proj. exact H. Qed.
(* the repaired recorder (both selections per point): no hypothesis left -- the property's second sentence at full strength *)
Theorem multipoint_is_pointwise_repaired s :
  map (proj_rec 1 cs j) (mrecords_v cs true true (mtrace 1 cs s)) = zrecords (ztrace (map phi s)).
Proof. apply multipoint_is_pointwise_v. apply cmp_agree_v_tt. Qed.

(* the same when the history is fed in chunks: process(chunk_1, flush_1) ... process(chunk_k, flush_k) *)
Theorem chunked_multipoint_trace cs' :
  zctrace (map_chunks phi cs') = map (mev (list Z) Z (at_ j) phi) (mctrace 1 cs cs').
Proof.
  unfold zctrace, mctrace.
  apply (ctrace_sim (list Z) Z (vadd cs) Z.add (msig 1 cs) (meps 1 cs) (mdsig 1 cs) (mdeps 1 cs) isig ieps idsig ideps (at_ j) phi (at_ j cs));
    intros; try lia; try reflexivity.
  - unfold vadd. rewrite at_vec by exact Hj. reflexivity.
  - unfold msig. rewrite at_vec by exact Hj. rewrite nodeL1. reflexivity.
  - unfold meps. rewrite at_vec by exact Hj. rewrite nodeL1. reflexivity.
  - unfold mdsig. rewrite at_vec by exact Hj. rewrite nodeL1. reflexivity.
  - unfold mdeps. rewrite at_vec by exact Hj. rewrite nodeL1. reflexivity.
Qed.
Theorem chunked_multipoint_is_pointwise_v pwc pwl cs' :
  cmp_agree_v pwc pwl (mzero cs) (mzero cs) (mctrace 1 cs cs') ->
  map (proj_rec 1 cs j) (mrecords_v cs pwc pwl (mctrace 1 cs cs')) = zrecords (zctrace (map_chunks phi cs')).
Proof. intros H. rewrite chunked_multipoint_trace. apply mrecords_v_proj. exact H. Qed.
Theorem chunked_multipoint_is_pointwise_repaired cs' :
  map (proj_rec 1 cs j) (mrecords_v cs true true (mctrace 1 cs cs')) = zrecords (zctrace (map_chunks phi cs')).
Proof. apply chunked_multipoint_is_pointwise_v. apply cmp_agree_v_tt. Qed.
End MultiThm.

(* the variant false/false is the model of the code as it is *)
Lemma mrecords_v_ff cs evs : mrecords_v cs false false evs = mrecords cs evs.
Proof. unfold mrecords_v, mrecords. cbn [msel_min msel_max]. apply records_g_first_node. Qed.

(* the code as it is (all selections from point 0) does NOT give every point the rows of its single-point run: the order
   hypothesis of [multipoint_is_pointwise] is needed (injected law, ratios 1 : 3: point 0 has a positive strain at load -1,
   point 1 a negative one; the running maximum of point 1 follows point 0's decision) *)
Theorem multipoint_first_node_refuted : exists cs j s, (j < length cs)%nat /\ 0 < at_ j cs /\
  map (proj_rec 1 cs j) (mrecords cs (mtrace 1 cs s)) <> zrecords (ztrace (map (fun x => at_ j cs * x) s)).
Proof. exists [1; 3], 1%nat, [-1; -3; -3]. split; [cbn; lia|]. split; [reflexivity|]. vm_compute. discriminate. Qed.

(* the hypothesis of the variants theorem is satisfiable in every variant (and non-trivially so: rows are produced) *)
Example variants_hyp_sat : forall pwc pwl,
  cmp_agree_v [1; 3] 1 pwc pwl (mzero [1; 3]) (mzero [1; 3]) (mtrace 1 [1; 3] [1; -3; 2; -1]) /\
  mrecords_v [1; 3] pwc pwl (mtrace 1 [1; 3] [1; -3; 2; -1]) <> [].
Proof. intros [|] [|]; (split; [vm_compute; repeat split; intros; try discriminate; reflexivity|vm_compute; discriminate]). Qed.
Example chunked_hyp_sat :
  cmp_agree_v [1; 3] 1 false false (mzero [1; 3]) (mzero [1; 3]) (mctrace 1 [1; 3] [([0; 1; -3; 2], false); ([-1; 3; -4; 1], true)]) /\
  mrecords_v [1; 3] false false (mctrace 1 [1; 3] [([0; 1; -3; 2], false); ([-1; 3; -4; 1], true)]) <> [].
Proof. split; [vm_compute; repeat split; intros; reflexivity|vm_compute; discriminate]. Qed.

Example multipoint_hyp_sat :
  cmp_agree (list Z) Z vltb Z.ltb (at_ 1) (mzero [1; 3]) (mzero [1; 3]) (mtrace 1 [1; 3] [1; -3; 2; -1]) /\
  mrecords [1; 3] (mtrace 1 [1; 3] [1; -3; 2; -1]) <> [].
Proof. split; [vm_compute; repeat split|vm_compute; discriminate]. Qed.

(* ---------- derived recorder columns ---------- *)
Lemma records_flags V vneg vabs vltb : forall evs emin emax r,
  In r (records V vneg vabs vltb emin emax evs) ->
  r_zero r = negb (r_closed r) /\
  (r_closed r = false -> r_lmin r = - r_lmax r /\ r_smin r = vneg (r_smax r) /\ r_emin r = vneg (r_emax r)).
Proof.
  induction evs as [|e evs IH]; intros emin emax r H; [contradiction|].
  destruct e as [prev run|p0 p1 run|cur prev run]; cbn [records] in H.
  - destruct H as [<-|H]; [|eapply IH; eauto]. cbn. auto.
  - destruct H as [<-|H]; [|eapply IH; eauto]. cbn. split; [reflexivity|discriminate].
  - destruct (lf_update V vltb emin emax cur (prev <? pL cur)). eapply IH; eauto.
Qed.

Open Scope Q_scope.
Theorem derived_columns evs r : In r (zrecords evs) ->
  let '(sa, sm, ea, em, R) := derived r in
  sa == (inject_Z (r_smax r) - inject_Z (r_smin r)) / 2 /\
  ea == (inject_Z (r_emax r) - inject_Z (r_emin r)) / 2 /\
  (r_closed r = true -> sm == (inject_Z (r_smin r) + inject_Z (r_smax r)) / 2 /\ em == (inject_Z (r_emin r) + inject_Z (r_emax r)) / 2 /\
                         (r_smax r <> 0%Z -> exists q, R = Some q /\ q == inject_Z (r_smin r) / inject_Z (r_smax r))) /\
  (r_closed r = false -> sm == 0 /\ em == 0 /\ R = Some (-1 # 1) /\ r_smin r = (- r_smax r)%Z /\ r_emin r = (- r_emax r)%Z /\ r_lmin r = (- r_lmax r)%Z).
Proof.
  intros H. apply records_flags in H. destruct H as [Hz Hh]. unfold derived, half. rewrite Hz.
  repeat split.
  - unfold Qeq, Qminus, Qdiv, Qmult, Qplus, Qinv, Qopp, inject_Z. cbn. lia.
  - unfold Qeq, Qminus, Qdiv, Qmult, Qplus, Qinv, Qopp, inject_Z. cbn. lia.
  - rewrite H. cbn. unfold Qeq, Qminus, Qdiv, Qmult, Qplus, Qinv, Qopp, inject_Z. cbn. lia.
  - rewrite H. cbn. unfold Qeq, Qminus, Qdiv, Qmult, Qplus, Qinv, Qopp, inject_Z. cbn. lia.
  - rewrite H. cbn. intros Hne. destruct (Z.eqb_spec (r_smax r) 0); [contradiction|]. eexists. split; [reflexivity|].
    unfold Qeq, Qdiv, Qmult, Qinv, inject_Z. cbn.
    destruct (r_smax r) as [|p|p] eqn:E; [contradiction| |]; cbn; lia.
  - rewrite H. reflexivity.
  - rewrite H. reflexivity.
  - rewrite H. reflexivity.
  - apply Hh; exact H.
  - apply Hh; exact H.
  - apply Hh; exact H.
Qed.
Close Scope Q_scope.

(* the injected law is strictly monotone *)
Lemma isig_mono a b : a < b -> isig a < isig b.
Proof. unfold isig. intros. destruct (Z.sgn_spec a) as [[? ->]|[[? ->]|[? ->]]]; destruct (Z.sgn_spec b) as [[? ->]|[[? ->]|[? ->]]]; nia. Qed.
Lemma idsig_mono a b : a < b -> idsig a < idsig b.
Proof. unfold idsig. intros. destruct (Z.sgn_spec a) as [[? ->]|[[? ->]|[? ->]]]; destruct (Z.sgn_spec b) as [[? ->]|[[? ->]|[? ->]]]; nia. Qed.
Lemma sdiv_mono k a b : 0 < k -> a <= b -> Z.sgn a * (Z.abs a / k) <= Z.sgn b * (Z.abs b / k).
Proof.
  intros Hk H.
  assert (Ha : 0 <= Z.abs a / k) by (apply Z.div_pos; lia).
  assert (Hb : 0 <= Z.abs b / k) by (apply Z.div_pos; lia).
  assert (Hm1 : Z.abs a <= Z.abs b -> Z.abs a / k <= Z.abs b / k) by (intros; apply Z.div_le_mono; lia).
  assert (Hm2 : Z.abs b <= Z.abs a -> Z.abs b / k <= Z.abs a / k) by (intros; apply Z.div_le_mono; lia).
  destruct (Z.sgn_spec a) as [[? ->]|[[? ->]|[? ->]]]; destruct (Z.sgn_spec b) as [[? ->]|[[? ->]|[? ->]]]; try lia.
Qed.
Lemma ieps_mono s s' L L' : s <= s' -> L < L' -> ieps s L < ieps s' L'.
Proof. unfold ieps. intros. pose proof (sdiv_mono 3 s s' ltac:(lia) H). lia. Qed.
Lemma ideps_mono s s' L L' : s <= s' -> L < L' -> ideps s L < ideps s' L'.
Proof. unfold ideps. intros. pose proof (sdiv_mono 4 s s' ltac:(lia) H). lia. Qed.

(* ---------- running strain extremes: what does not hold ---------- *)
(* epsilon_min_LF <= epsilon_min and epsilon_max <= epsilon_max_LF is false for a closed row already for a strictly
   monotone law (the injected one): the code updates only one of the two extremes per load and restarts
   previous_load at 0 in every pass; and it is false of every Memory-3 row, whose mirrored minimum is never visited *)
Theorem lf_extremes_bracket_refuted :
  exists s r, In r (zrecords (ztrace s)) /\ r_closed r = true /\ ~ (r_eminLF r <= r_emin r /\ r_emax r <= r_emaxLF r).
Proof.
  exists [0; -2]. eexists. split; [vm_compute; left; reflexivity|]. cbn. split; [reflexivity|]. lia.
Qed.
Theorem lf_extremes_bracket_memory3_refuted :
  exists s r, In r (zrecords (ztrace s)) /\ r_closed r = false /\ ~ (r_eminLF r <= r_emin r).
Proof.
  exists [1; -2]. eexists. split; [vm_compute; left; reflexivity|]. cbn. split; [reflexivity|]. lia.
Qed.
