(* C04: theorems about the load-only HCM model (HCM.Load) against the periodic specification (HCM.Periodic). *)
From Coq Require Import ZArith List Bool Lia.
From PL Require Import Rainflow.Model Rainflow.Eqb HCM.Model HCM.Load HCM.Periodic HCM.Inv.
Import ListNotations.
Open Scope Z_scope.

(* ---------- Memory 3 rows are symmetric about zero (full) ---------- *)
Lemma lrecs_app {V} (a b : list (event V)) : lrecs (a ++ b) = lrecs a ++ lrecs b.
Proof. induction a as [|[| |] a IH]; cbn; rewrite ?IH; reflexivity. Qed.

Theorem memory3_symmetric_ev {V} (evs : list (event V)) r :
  In r (lrecs evs) -> closed_of r = false -> fst (rng r) = - snd (rng r) /\ 0 <= snd (rng r).
Proof.
  induction evs as [|[prev run|p0 p1 run|cur prev run] evs IH]; cbn; intros H Hc; auto; try contradiction.
  - destruct H as [<-|H]; auto. cbn. lia.
  - destruct H as [<-|H]; auto. cbn in Hc. discriminate.
Qed.
Theorem memory3_symmetric s r : In r (load_records s) -> closed_of r = false -> fst (rng r) = - snd (rng r) /\ 0 <= snd (rng r).
Proof. apply memory3_symmetric_ev. Qed.

(* ---------- pass 2 records only full hystereses when the largest |load| was decided in pass 1 (full) ---------- *)
Definition lmax_first (s : list Z) : Z :=
  match hpass unit uadd usig ueps usig ueps (dinit unit) (0 :: s) (flush_first s) with
  | Some (d, _) => core_lmax unit (d_core d) | None => 0 end.

Lemma lrecs_run {V} (evs : list (event V)) k : Forall (fun e => ev_run V e = k) evs -> Forall (fun r => snd r = k) (lrecs evs).
Proof.
  induction evs as [|e evs IH]; cbn; intros H.
  - constructor.
  - inversion H; subst. destruct e; cbn; auto.
Qed.
Lemma lrecs_closed {V} (evs : list (event V)) : Forall (fun e => is_half V e = false) evs -> Forall (fun r => closed_of r = true) (lrecs evs).
Proof.
  induction evs as [|e evs IH]; cbn; intros H.
  - constructor.
  - inversion H; subst. destruct e; cbn in *; auto; try discriminate.
Qed.
Lemma pass_recs_other k j rs : Forall (fun r => snd r = j) rs -> j <> k -> pass_recs k rs = [].
Proof.
  induction rs as [|r rs IH]; cbn; intros H Hn; auto. inversion H; subst.
  destruct (Nat.eqb_spec (snd r) k); [congruence|]. apply IH; auto.
Qed.
Lemma pass_recs_same k rs : Forall (fun r => snd r = k) rs -> pass_recs k rs = rs.
Proof.
  induction rs as [|r rs IH]; cbn; intros H; auto. inversion H; subst.
  rewrite Nat.eqb_refl. f_equal. apply IH; auto.
Qed.
Lemma pass_recs_app k a b : pass_recs k (a ++ b) = pass_recs k a ++ pass_recs k b.
Proof. apply filter_app. Qed.

Theorem pass2_all_closed s :
  Forall (fun x => Z.abs x <= lmax_first s) s -> Forall (fun r => closed_of r = true) (pass_recs 2 (load_records s)).
Proof.
  unfold lmax_first, load_records, ltrace, trace, hcm_passes.
  destruct (hpass_inv unit uadd usig ueps usig ueps (dinit unit) (0 :: s) (flush_first s) (dinit_ok unit)) as (d1 & e1 & Hp & Hd1 & _).
  rewrite Hp. cbn [more_passes].
  destruct (hpass_inv unit uadd usig ueps usig ueps d1 s true Hd1) as (d2 & e2 & Hp2 & _).
  rewrite Hp2. intros Hs.
  destruct (pass2_no_half unit uadd usig ueps usig ueps s _ _ _ _ _ Hp Hp2 Hs) as (H1 & H2 & H3).
  rewrite app_nil_r, lrecs_app, pass_recs_app.
  rewrite (pass_recs_other 2 1 (lrecs e1)); [|apply lrecs_run; exact H1|lia].
  rewrite (pass_recs_same 2 (lrecs e2)); [|apply lrecs_run; exact H2].
  cbn. apply lrecs_closed. exact H3.
Qed.
Example pass2_all_closed_hyp_sat : Forall (fun x => Z.abs x <= lmax_first [1; -3; 2; -1]) [1; -3; 2; -1] /\
  pass_recs 2 (load_records [1; -3; 2; -1]) <> [].
Proof. split; [vm_compute; repeat constructor; discriminate|vm_compute; discriminate]. Qed.

(* without the hypothesis the statement is false: trailing plateau at the extreme *)
Theorem pass2_all_closed_refuted : exists s, ~ Forall (fun r => closed_of r = true) (pass_recs 2 (load_records s)).
Proof. exists [-1; 2; 2]. vm_compute. intros H. inversion H; subst. discriminate. Qed.

(* the model never reaches the IndexError branch *)
Theorem hcm_never_stuck n s : exists d e, lpasses n s = Some (d, e).
Proof. apply hcm_total. Qed.

(* ---------- pass 2 = steady-state cycles ---------- *)
Definition pass2_pairs (s : list Z) : list (Z * Z) := sort_pairs (map rng (pass_recs 2 (load_records s))).
Definition pass2_ok (s : list Z) : bool :=
  match steady_cycles s with
  | Some c => leqb pairZeq (pass2_pairs s) (sort_pairs c) && forallb closed_of (pass_recs 2 (load_records s))
  | None => false
  end.
Fixpoint two_distinct (s : list Z) : bool :=
  match s with x :: ((y :: _) as r) => negb (x =? y) || two_distinct r | _ => false end.

(* the unrestricted statement (the property as written) and the restricted one *)
Definition pass2_is_steady_state_statement : Prop := forall s, two_distinct s = true -> pass2_ok s = true.
Definition pass2_is_steady_state_restricted_statement : Prop :=
  forall s, two_distinct s = true -> in_class s = true -> pass2_ok s = true.

Theorem pass2_is_steady_state_refuted : ~ pass2_is_steady_state_statement.
Proof. intros H. specialize (H [-2; 0; -1] eq_refl). vm_compute in H. discriminate. Qed.
(* the three witnesses of the known finding, one per defective junction class *)
Theorem pass2_witnesses :
  (z_class [-2; 0; -1] = true /\ p_class [-2; 0; -1] = false /\ pass2_pairs [-2; 0; -1] = [(-2, -2); (-1, 0)] /\ steady_cycles [-2; 0; -1] = Some [(-2, 0)]) /\
  (z_class [-1; 2; 2] = false /\ p_class [-1; 2; 2] = false /\ pass_recs 2 (load_records [-1; 2; 2]) = [(-1, 1, false, 2%nat); (-1, 2, true, 2%nat)] /\ steady_cycles [-1; 2; 2] = Some [(-1, 2)]) /\
  (z_class [-16; -6; -10; -15; -1] = false /\ p_class [-16; -6; -10; -15; -1] = true /\
   pass2_pairs [-16; -6; -10; -15; -1] = [(-16, -1); (-15, -6); (-15, -6)] /\
   option_map sort_pairs (steady_cycles [-16; -6; -10; -15; -1]) = Some [(-16, -1); (-15, -6)]).
Proof. vm_compute. repeat split. Qed.

Definition seqs_upto (alph : list Z) (maxlen : nat) : list (list Z) := flat_map (sigs alph) (seq 0 (S maxlen)).
Lemma in_seqs_upto alph maxlen s : (length s <= maxlen)%nat -> Forall (fun x => In x alph) s -> In s (seqs_upto alph maxlen).
Proof.
  intros Hl Hf. unfold seqs_upto. apply in_flat_map. exists (length s). split.
  - apply in_seq. lia.
  - apply in_sigs; [reflexivity|exact Hf].
Qed.

Definition restricted_ok (s : list Z) : bool := negb (two_distinct s && in_class s) || pass2_ok s.
Definition A3 : list Z := [-3; -2; -1; 0; 1; 2; 3].
Lemma sweep_restricted_5 : forallb restricted_ok (seqs_upto A3 5) = true.
Proof. vm_compute. reflexivity. Qed.
Lemma sweep_restricted_6 : forallb restricted_ok (sigs A3 6) = true.
Proof. vm_compute. reflexivity. Qed.

Lemma in_A3 x : -3 <= x <= 3 -> In x A3.
Proof. intros H. unfold A3. assert (x = -3 \/ x = -2 \/ x = -1 \/ x = 0 \/ x = 1 \/ x = 2 \/ x = 3) as [-> | [-> | [-> | [-> | [-> | [-> | ->]]]]]] by lia; cbn; auto 10. Qed.

Lemma bounded_of_sweeps (ok : list Z -> bool) :
  forallb ok (seqs_upto A3 5) = true -> forallb ok (sigs A3 6) = true ->
  forall s, (length s <= 6)%nat -> Forall (fun x => -3 <= x <= 3) s -> ok s = true.
Proof.
  intros H5 H6 s Hl Hf. rewrite forallb_forall in H5, H6.
  assert (Hal : Forall (fun x => In x A3) s) by (eapply Forall_impl; [|exact Hf]; intros; apply in_A3; auto).
  destruct (Nat.eq_dec (length s) 6) as [E|E].
  - apply H6. apply in_sigs; auto.
  - apply H5. apply in_seqs_upto; auto. lia.
Qed.

(* bounded: every sequence over {-3..3} of length <= 6 in the junction class z and p *)
Theorem pass2_is_steady_state_restricted_bounded s :
  (length s <= 6)%nat -> Forall (fun x => -3 <= x <= 3) s ->
  two_distinct s = true -> in_class s = true -> pass2_ok s = true.
Proof.
  intros Hl Hf H2 Hc. pose proof (bounded_of_sweeps restricted_ok sweep_restricted_5 sweep_restricted_6 s Hl Hf) as H.
  unfold restricted_ok in H. rewrite H2, Hc in H. exact H.
Qed.
Example restricted_hyp_sat : two_distinct [1; -3; 2; -1] = true /\ in_class [1; -3; 2; -1] = true /\
  pass2_pairs [1; -3; 2; -1] = [(-3, 2); (-1, 1)].
Proof. vm_compute. auto. Qed.

(* samples that are not reversals of the repeated sequence do not change what pass 2 counts (corollary, same bound) *)
Theorem refine_insensitive_hcm_bounded s s' :
  (length s <= 6)%nat -> Forall (fun x => -3 <= x <= 3) s -> two_distinct s = true -> in_class s = true ->
  (length s' <= 6)%nat -> Forall (fun x => -3 <= x <= 3) s' -> two_distinct s' = true -> in_class s' = true ->
  periodic_reversals s = periodic_reversals s' ->
  pass2_pairs s = pass2_pairs s' /\
  Forall (fun r => closed_of r = true) (pass_recs 2 (load_records s) ++ pass_recs 2 (load_records s')).
Proof.
  intros L1 F1 T1 C1 L2 F2 T2 C2 Hp.
  pose proof (pass2_is_steady_state_restricted_bounded s L1 F1 T1 C1) as H1.
  pose proof (pass2_is_steady_state_restricted_bounded s' L2 F2 T2 C2) as H2.
  unfold pass2_ok in H1, H2. unfold steady_cycles in H1, H2. rewrite <- Hp in H2.
  destruct (match periodic_reversals s with [] => Some [] | x :: r' => _ end) as [c|]; [|discriminate].
  apply andb_prop in H1, H2. destruct H1 as [H1 A1], H2 as [H2 A2].
  apply (leqb_eq pairZeq pairZeq_eq) in H1, H2. split; [congruence|].
  apply Forall_app. rewrite forallb_forall in A1, A2. split; apply Forall_forall; auto.
Qed.

(* ---------- a third pass records what the second recorded and ends in the same residual ---------- *)
Definition strip_run (r : Z * Z * bool * nat) := fst r.
Definition lrec_eqb_norun (x y : Z * Z * bool) : bool :=
  (fst (fst x) =? fst (fst y)) && (snd (fst x) =? snd (fst y)) && Bool.eqb (snd x) (snd y).
Definition stationary_ok (s : list Z) : bool :=
  match load_obs 1 s, load_obs 2 s with
  | Some (r2, q2), Some (r3, q3) =>
      leqb lrec_eqb_norun (map strip_run (pass_recs 2 r2)) (map strip_run (pass_recs 3 r3)) && leqb Z.eqb q2 q3
  | _, _ => false
  end.

Definition stationary_restricted_ok (s : list Z) : bool := negb (two_distinct s && in_class s) || stationary_ok s.
Lemma sweep_stationary_5 : forallb stationary_restricted_ok (seqs_upto A3 5) = true.
Proof. vm_compute. reflexivity. Qed.
Lemma sweep_stationary_6 : forallb stationary_restricted_ok (sigs A3 6) = true.
Proof. vm_compute. reflexivity. Qed.
Definition pass_stationary_statement : Prop := forall s, two_distinct s = true -> in_class s = true -> stationary_ok s = true.
Theorem pass_stationary_bounded s :
  (length s <= 6)%nat -> Forall (fun x => -3 <= x <= 3) s ->
  two_distinct s = true -> in_class s = true -> stationary_ok s = true.
Proof.
  intros Hl Hf H2 Hc. pose proof (bounded_of_sweeps stationary_restricted_ok sweep_stationary_5 sweep_stationary_6 s Hl Hf) as H.
  unfold stationary_restricted_ok in H. rewrite H2, Hc in H. exact H.
Qed.
