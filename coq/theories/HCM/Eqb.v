(* Boolean comparisons of observations (model vs what the implementation returned) for the correspondence checks. *)
From Coq Require Import ZArith QArith Qabs List Bool Lia.
From PL Require Import Rainflow.Model Rainflow.Eqb HCM.Model HCM.Load HCM.Periodic HCM.Full.
Import ListNotations.
Open Scope Z_scope.

Fixpoint leqb2 {A B} (e : A -> B -> bool) (a : list A) (b : list B) : bool :=
  match a, b with [], [] => true | x :: a', y :: b' => e x y && leqb2 e a' b' | _, _ => false end.
Definition lrec_eqb (x y : Z * Z * bool * nat) : bool :=
  let '(a, b, c, r) := x in let '(a', b', c', r') := y in (a =? a') && (b =? b') && Bool.eqb c c' && (r =? r')%nat.
Definition zlist_eqb := leqb Z.eqb.
Definition pairs_eqb := leqb pairZeq.

(* C04 correspondence: records of both passes + residual loads after the second pass *)
Definition load_obs_eqb (m : option (list (Z * Z * bool * nat) * list Z)) (recs : list (Z * Z * bool * nat)) (res : list Z) : bool :=
  match m with Some (r, q) => leqb lrec_eqb r recs && zlist_eqb q res | None => false end.
Definition load_recs_eqb (m : option (list (Z * Z * bool * nat) * list Z)) (recs : list (Z * Z * bool * nat)) : bool :=
  match m with Some (r, _) => leqb lrec_eqb r recs | None => false end.
Definition opt_pairs_eqb (m : option (list (Z * Z))) (l : list (Z * Z)) : bool :=
  match m with Some r => pairs_eqb r l | None => false end.

(* C05 correspondence, integer law: every column exactly *)
Definition qnear (tol a b : Q) : bool := Qle_bool (Qabs (a - b)) (tol * (1 + Qabs b)).
(* R = S_min / S_max is a rounded float quotient on the implementation side: compared to 1e-12 relative *)
Definition optq_eqb (a b : option Q) : bool :=
  match a, b with Some x, Some y => qnear (1 # 1000000000000) x y | None, None => true | _, _ => false end.
Definition zrow := (Z * Z * Z * Z * Z * Z * Z * Z * bool * bool * nat * (Q * Q * Q * Q * option Q))%type.
Definition row_eqb (m : hrec Z * (Q * Q * Q * Q * option Q)) (i : zrow) : bool :=
  let '(r, (sa, sm, ea, em, rr)) := m in
  let '(lmin, lmax, smin, smax, emin, emax, eminlf, emaxlf, cl, ze, run, (sa', sm', ea', em', rr')) := i in
  (r_lmin r =? lmin) && (r_lmax r =? lmax) && (r_smin r =? smin) && (r_smax r =? smax) &&
  (r_emin r =? emin) && (r_emax r =? emax) && (r_eminLF r =? eminlf) && (r_emaxLF r =? emaxlf) &&
  Bool.eqb (r_closed r) cl && Bool.eqb (r_zero r) ze && (r_run r =? run)%nat &&
  Qeq_bool sa sa' && Qeq_bool sm sm' && Qeq_bool ea ea' && Qeq_bool em em' && optq_eqb rr rr'.
Definition zobs_eqb (m : list (hrec Z * (Q * Q * Q * Q * option Q)) * list Z * nat) (rows : list zrow) (strains : list Z) (nfirst : nat) : bool :=
  let '(r, sv, nf) := m in leqb2 row_eqb r rows && zlist_eqb sv strains && (nf =? nfirst)%nat.
Definition mobs_eqb (m : list (list (hrec Z * (Q * Q * Q * Q * option Q))) * list Z * nat) (rows : list (list zrow)) (strains : list Z) (nfirst : nat) : bool :=
  let '(r, sv, nf) := m in leqb2 (leqb2 row_eqb) r rows && zlist_eqb sv strains && (nf =? nfirst)%nat.

(* C05 correspondence, tabulated real law: values within a relative tolerance *)
Definition qrow := (Z * Z * Q * Q * Q * Q * Q * Q * bool * bool * nat)%type.
Definition qrow_eqb (tol : Q) (r : hrec Q) (i : qrow) : bool :=
  let '(lmin, lmax, smin, smax, emin, emax, eminlf, emaxlf, cl, ze, run) := i in
  (r_lmin r =? lmin) && (r_lmax r =? lmax) && qnear tol (r_smin r) smin && qnear tol (r_smax r) smax &&
  qnear tol (r_emin r) emin && qnear tol (r_emax r) emax && qnear tol (r_eminLF r) eminlf && qnear tol (r_emaxLF r) emaxlf &&
  Bool.eqb (r_closed r) cl && Bool.eqb (r_zero r) ze && (r_run r =? run)%nat.
Definition qobs_eqb (tol : Q) (m : list (hrec Q) * list Q * nat) (rows : list qrow) (strains : list Q) (nfirst : nat) : bool :=
  let '(r, sv, nf) := m in leqb2 (qrow_eqb tol) r rows && leqb (qnear tol) sv strains && (nf =? nfirst)%nat.
