(* Specification side of C04: reversals of the endlessly repeated sequence and its closed (steady-state) cycles =
   four-point rainflow of one period rotated to its first largest |load| and closed with that value. *)
From Coq Require Import ZArith List Bool Lia.
Import ListNotations.
Open Scope Z_scope.

Fixpoint dedup (s : list Z) : list Z :=
  match s with
  | [] => []
  | x :: r => match r with
              | [] => [x]
              | y :: _ => if x =? y then dedup r else x :: dedup r
              end
  end.

(* drop trailing samples equal to the first one (cyclic duplicate), keeping at least one sample *)
Fixpoint strip_rev (h : Z) (r : list Z) : list Z :=   (* r = reversed list *)
  match r with
  | x :: ((_ :: _) as r') => if x =? h then strip_rev h r' else r
  | _ => r
  end.
Definition cyc_dedup (s : list Z) : list Z :=
  let t := dedup s in match t with [] => [] | h :: _ => rev (strip_rev h (rev t)) end.

Fixpoint rev_windows (l : list Z) : list Z :=   (* l = prev :: x :: next :: ... ; keeps x where the sign changes *)
  match l with
  | a :: ((b :: c :: _) as r) => if (b - a) * (c - b) <? 0 then b :: rev_windows r else rev_windows r
  | _ => []
  end.
Definition periodic_reversals (s : list Z) : list Z :=
  let t := cyc_dedup s in
  match t with
  | h :: _ :: _ => rev_windows (last t 0 :: t ++ [h])
  | _ => []
  end.

Definition closable (a b c d : Z) : bool := (Z.abs (b - c) <=? Z.abs (a - b)) && (Z.abs (b - c) <=? Z.abs (c - d)).
(* stack top-first *)
Fixpoint fp_close (fuel : nat) (stk : list Z) (d : Z) (out : list (Z * Z)) : list Z * list (Z * Z) :=
  match fuel with
  | O => (stk, out)
  | S f => match stk with
           | c :: b :: a :: rest =>
               if closable a b c d then fp_close f (a :: rest) d (out ++ [(Z.min b c, Z.max b c)]) else (stk, out)
           | _ => (stk, out)
           end
  end.
Definition fp_push (st : list Z * list (Z * Z)) (d : Z) : list Z * list (Z * Z) :=
  let '(stk, out) := fp_close (length (fst st)) (fst st) d (snd st) in (d :: stk, out).
Definition fp_spec (turns : list Z) : list Z * list (Z * Z) := fold_left fp_push turns ([], []).

Fixpoint argmax_abs (l : list Z) (i : nat) (bv : Z) (bi : nat) : nat :=
  match l with [] => bi | x :: r => if bv <? Z.abs x then argmax_abs r (S i) (Z.abs x) i else argmax_abs r (S i) bv bi end.

(* None: the rotated period does not reduce to [max] or [max; x; max] (does not happen: Periodic theorems, bounded) *)
Definition steady_cycles (s : list Z) : option (list (Z * Z)) :=
  let r := periodic_reversals s in
  match r with
  | [] => Some []
  | x :: r' =>
      let m := argmax_abs r' 1%nat (Z.abs x) 0%nat in
      let rr := skipn m r ++ firstn m r ++ [nth m r 0] in
      let '(stk, out) := fp_spec rr in
      match stk with
      | [_] => Some out
      | [_; b; a] => Some (out ++ [(Z.min a b, Z.max a b)])
      | _ => None
      end
  end.

(* sorting of (min, max) pairs, lexicographic *)
Definition pair_leb (x y : Z * Z) : bool := (fst x <? fst y) || ((fst x =? fst y) && (snd x <=? snd y)).
Fixpoint insert (x : Z * Z) (l : list (Z * Z)) : list (Z * Z) :=
  match l with [] => [x] | y :: r => if pair_leb x y then x :: l else y :: insert x r end.
Definition sort_pairs (l : list (Z * Z)) : list (Z * Z) := fold_right insert [] l.
