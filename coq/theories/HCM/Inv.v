(* Invariants of the HCM model that hold for every value type and law: iz = number of residuals (the model never
   hits the IndexError branch), ir >= 1, load_max_seen >= 0 and monotone, every event carries the run index of its
   pass, Memory 3 fires only for a load beyond load_max_seen. *)
From Coq Require Import ZArith List Bool Lia.
From PL Require Import Rainflow.Model HCM.Model.
Import ListNotations.
Open Scope Z_scope.

Section Inv.
Variable V : Type.
Variable vadd : V -> V -> V.
Variable sig : Z -> V.
Variable eps : V -> Z -> V.
Variable dsig : Z -> V.
Variable deps : V -> Z -> V.

Notation step := (step V vadd sig eps dsig deps).
Notation sample := (sample V vadd sig eps dsig deps).
Notation feed := (feed V vadd sig eps dsig deps).
Notation hpass := (hpass V vadd sig eps dsig deps).
Notation more_passes := (more_passes V vadd sig eps dsig deps).
Notation hcm_passes := (hcm_passes V vadd sig eps dsig deps).

Definition ev_run (e : event V) : nat := match e with Half _ r => r | Closed _ _ r => r | Visit _ _ r => r end.
Definition is_half (e : event V) : bool := match e with Half _ _ => true | _ => false end.

Lemma step_inv : forall n res iz ir lmax L run, (length res <= n)%nat -> iz = length res -> (1 <= ir)%nat ->
  exists evs cur res' iz' ir', step res iz ir lmax L run = Some (evs, cur, res', iz', ir') /\
    iz' = length res' /\ (1 <= ir')%nat /\ Forall (fun e => ev_run e = run) evs /\
    (Z.abs L <= lmax -> Forall (fun e => is_half e = false) evs).
Proof.
  induction n; intros res iz ir lmax L run Hn Hiz Hir.
  - destruct res; [|cbn in Hn; lia]. cbn in Hiz. subst iz. cbn.
    destruct ir; [lia|]. cbn.
    do 5 eexists. split; [reflexivity|]. repeat split; auto.
  - destruct res as [|p1 res].
    + apply IHn; auto. cbn. lia.
    + cbn [Model.step]. destruct (iz =? ir)%nat eqn:E1.
      * destruct (lmax <? Z.abs L) eqn:E2.
        -- do 5 eexists. split; [reflexivity|]. repeat split; auto. intros. lia.
        -- do 5 eexists. split; [reflexivity|]. repeat split; auto.
      * destruct (iz <? ir)%nat eqn:E3.
        -- do 5 eexists. split; [reflexivity|]. repeat split; auto.
        -- apply Nat.eqb_neq in E1. apply Nat.ltb_ge in E3. cbn in Hiz.
           destruct res as [|p0 rest]; [cbn in Hiz; lia|].
           destruct (Z.abs (L - pL p1) <? Z.abs (pL p1 - pL p0)) eqn:E4.
           ++ do 5 eexists. split; [reflexivity|]. repeat split; auto.
           ++ destruct ((Z.abs (pL p0) <? lmax) && (Z.abs (pL p1) <? lmax)) eqn:E5.
              ** destruct (IHn rest (iz - 2)%nat ir lmax L run) as (evs & cur & res' & iz' & ir' & Hs & H1 & H2 & H3 & H4).
                 { cbn in Hn. lia. } { cbn in Hiz. lia. } { exact Hir. }
                 rewrite Hs. do 5 eexists. split; [reflexivity|]. repeat split; auto.
                 all: intros; constructor; auto.
              ** do 5 eexists. split; [reflexivity|]. repeat split; auto. cbn in Hiz. lia.
Qed.

(* invariant of the HCM memory *)
Definition core_ok (c : core V) : Prop :=
  let '(res, iz, ir, lmax) := c in iz = length res /\ (1 <= ir)%nat /\ 0 <= lmax.
Definition core_lmax (c : core V) : Z := snd c.

Lemma sample_inv c prev run L : core_ok c ->
  exists c' e, sample c prev run L = Some (c', e) /\ core_ok c' /\ Forall (fun x => ev_run x = run) e /\
    core_lmax c <= core_lmax c' /\ Z.abs L <= core_lmax c' /\
    (Z.abs L <= core_lmax c -> core_lmax c' = core_lmax c /\ Forall (fun x => is_half x = false) e).
Proof.
  destruct c as [[[res iz] ir] lmax]. intros (Hiz & Hir & Hl). unfold Model.sample.
  destruct (step_inv (length res) res iz ir lmax L run) as (evs & cur & res' & iz' & ir' & Hs & H1 & H2 & H3 & H4); auto.
  rewrite Hs. do 2 eexists. split; [reflexivity|]. unfold core_ok, core_lmax. cbn [snd].
  repeat split.
  - cbn. lia.
  - exact H2.
  - destruct (lmax <? Z.abs L); lia.
  - apply Forall_app. split; auto.
  - destruct (lmax <? Z.abs L) eqn:E; lia.
  - destruct (lmax <? Z.abs L) eqn:E; lia.
  - destruct (lmax <? Z.abs L) eqn:E; lia.
  - apply Forall_app. split; auto.
Qed.

Lemma feed_inv : forall ls c prev run, core_ok c ->
  exists c' e, feed c prev run ls = Some (c', e) /\ core_ok c' /\ Forall (fun x => ev_run x = run) e /\
    core_lmax c <= core_lmax c' /\ Forall (fun L => Z.abs L <= core_lmax c') ls /\
    (Forall (fun L => Z.abs L <= core_lmax c) ls -> core_lmax c' = core_lmax c /\ Forall (fun x => is_half x = false) e).
Proof.
  induction ls as [|L r IH]; intros c prev run Hc.
  - cbn. do 2 eexists. split; [reflexivity|]. repeat split; auto. lia.
  - cbn [Model.feed]. destruct (sample_inv c prev run L Hc) as (c1 & e1 & Hs & Hc1 & Hr1 & Hm1 & HL1 & Hn1). rewrite Hs.
    destruct (IH c1 L run Hc1) as (c2 & e2 & Hf & Hc2 & Hr2 & Hm2 & HL2 & Hn2). rewrite Hf.
    do 2 eexists. split; [reflexivity|]. repeat split; auto.
    + apply Forall_app. split; auto.
    + lia.
    + constructor; auto. lia.
    + inversion H; subst. destruct (Hn1 H2) as [Heq _]. destruct Hn2 as [Heq2 _]; [|lia].
      eapply Forall_impl; [|exact H3]. cbn. intros. lia.
    + inversion H; subst. destruct (Hn1 H2) as [Heq Hh]. apply Forall_app. split; auto.
      apply Hn2. eapply Forall_impl; [|exact H3]. cbn. intros. lia.
Qed.

Definition dstate_ok (d : dstate V) : Prop := core_ok (d_core d).

Lemma hpass_inv d samples flush : dstate_ok d ->
  exists d' e, hpass d samples flush = Some (d', e) /\ dstate_ok d' /\ d_run d' = S (d_run d) /\
    Forall (fun x => ev_run x = S (d_run d)) e /\ core_lmax (d_core d) <= core_lmax (d_core d').
Proof.
  intros Hd. unfold Model.hpass. destruct (new_turns (d_tail d) (d_head d) samples flush) as [[t tl] hd].
  destruct (feed_inv (map snd t) (d_core d) 0 (S (d_run d)) Hd) as (c' & e & Hf & Hc & Hr & Hm & _). rewrite Hf.
  do 2 eexists. split; [reflexivity|]. repeat split; auto.
Qed.

Lemma dinit_ok : dstate_ok (dinit V).
Proof. cbn. repeat split; lia. Qed.

Lemma more_passes_total : forall n d s, dstate_ok d -> exists d' e, more_passes n d s = Some (d', e).
Proof.
  induction n; intros d s Hd; cbn [Model.more_passes].
  - eauto.
  - destruct (hpass_inv d s true Hd) as (d1 & e1 & Hp & Hd1 & _). rewrite Hp.
    destruct (IHn d1 s Hd1) as (d2 & e2 & Hm). rewrite Hm. eauto.
Qed.

(* the model never reaches the IndexError branch: iz always equals the number of open residuals *)
Theorem hcm_total n s : exists d e, hcm_passes n s = Some (d, e).
Proof.
  unfold Model.hcm_passes. destruct (hpass_inv (dinit V) (0 :: s) (flush_first s) dinit_ok) as (d1 & e1 & Hp & Hd1 & _).
  rewrite Hp. destruct (more_passes_total n d1 s Hd1) as (d2 & e2 & Hm). rewrite Hm. eauto.
Qed.

(* ---------- turning-point values are sample values ---------- *)
Lemma scan_values : forall s p d c i iv, In iv (scan p d c i s) -> snd iv = p \/ In (snd iv) s.
Proof.
  induction s as [|x r IH]; intros p d c i iv H; cbn in H; [contradiction|].
  destruct (x =? p) eqn:E.
  - destruct (IH _ _ _ _ _ H); auto. right. right. exact H0.
  - destruct (negb (d =? 0) && negb (Z.sgn (x - p) =? d)).
    + destruct H as [<-|H]; [left; reflexivity|]. destruct (IH _ _ _ _ _ H) as [->|]; right; [left|right]; auto.
    + destruct (IH _ _ _ _ _ H) as [->|]; right; [left|right]; auto.
Qed.
Lemma find_turns_values l iv : In iv (find_turns l) -> In (snd iv) l.
Proof.
  destruct l as [|x r]; cbn; [auto|]. intros H. destruct (scan_values _ _ _ _ _ _ H); auto.
Qed.
Lemma In_skipn {A} (x : A) n l : In x (skipn n l) -> In x l.
Proof. intros H. rewrite <- (firstn_skipn n l). apply in_or_app. right. exact H. Qed.
Lemma In_lastn1 {A} (x : A) l : In x (lastn1 l) -> In x l.
Proof.
  unfold lastn1. destruct (rev l) eqn:E; cbn; [contradiction|]. intros [<-|[]].
  apply in_rev. rewrite E. left. reflexivity.
Qed.
Lemma new_turns_values tl hd ch fl t tl' hd' : new_turns tl hd ch fl = (t, tl', hd') ->
  (forall iv, In iv t -> In (snd iv) (tl ++ ch)) /\ (forall x, In x tl' -> In x (tl ++ ch)).
Proof.
  unfold new_turns. set (swt := tl ++ ch). set (T := find_turns swt).
  set (sti := match rev T with [] => 0%nat | (i, _) :: _ => i end).
  assert (HT : forall iv, In iv (map (fun iv => ((fst iv + hd - length tl)%nat, snd iv)) T) -> In (snd iv) swt).
  { intros iv H. apply in_map_iff in H. destruct H as (jv & <- & Hj). cbn. apply find_turns_values. exact Hj. }
  destruct fl; intros H; inversion H; subst; clear H; split.
  - intros iv Hi. apply in_app_or in Hi. destruct Hi as [Hi|Hi]; [auto|].
    apply in_map_iff in Hi. destruct Hi as (v & <- & Hv). cbn. apply In_lastn1 in Hv. eapply In_skipn; eauto.
  - intros x Hx. apply In_lastn1 in Hx. eapply In_skipn; eauto.
  - auto.
  - intros x Hx. eapply In_skipn; eauto.
Qed.

(* If no sample exceeds load_max_seen after the first pass, the second pass records no Memory-3 (half) hysteresis *)
Lemma pass2_no_half s fl d1 e1 d2 e2 :
  hpass (dinit V) (0 :: s) fl = Some (d1, e1) -> hpass d1 s true = Some (d2, e2) ->
  Forall (fun x => Z.abs x <= core_lmax (d_core d1)) s ->
  Forall (fun x => ev_run x = 1%nat) e1 /\ Forall (fun x => ev_run x = 2%nat) e2 /\ Forall (fun x => is_half x = false) e2.
Proof.
  intros H1 H2 Hs.
  assert (Hd1 : dstate_ok d1 /\ d_run d1 = 1%nat /\ Forall (fun x => ev_run x = 1%nat) e1 /\
                forall x, In x (d_tail d1) -> In x (0 :: s)).
  { destruct (hpass_inv (dinit V) (0 :: s) fl dinit_ok) as (d' & e' & Hp & Hok & Hr & He & _).
    rewrite H1 in Hp. inversion Hp; subst d' e'. repeat split; auto.
    unfold Model.hpass in H1. destruct (new_turns (d_tail (dinit V)) (d_head (dinit V)) (0 :: s) fl) as [[t tl] hd] eqn:En.
    destruct (feed (d_core (dinit V)) 0 (S (d_run (dinit V))) (map snd t)) as [[c e]|]; [|discriminate].
    inversion H1; subst. cbn. apply new_turns_values in En. destruct En as [_ Ht]. exact Ht. }
  destruct Hd1 as (Hok & Hr1 & He1 & Htl). split; [exact He1|].
  unfold Model.hpass in H2. destruct (new_turns (d_tail d1) (d_head d1) s true) as [[t tl] hd] eqn:En.
  destruct (feed_inv (map snd t) (d_core d1) 0 (S (d_run d1)) Hok) as (c' & e & Hf & Hc & Hr & Hm & _ & Hn).
  rewrite Hf in H2. inversion H2; subst. rewrite Hr1 in Hr. split; [exact Hr|].
  apply Hn. apply Forall_forall. intros L HL. apply in_map_iff in HL. destruct HL as (iv & <- & Hiv).
  apply new_turns_values in En. destruct En as [Ht _]. specialize (Ht _ Hiv). apply in_app_or in Ht.
  rewrite Forall_forall in Hs. destruct Ht as [Ht|Ht]; [|auto].
  apply Htl in Ht. destruct Ht as [<-|Ht]; [|auto].
  unfold dstate_ok in Hok. destruct (d_core d1) as [[[r0 i0] j0] l0]. unfold core_ok, core_lmax in *. cbn [snd]. lia.
Qed.

End Inv.
