(* The detector compares loads with an absolute tolerance (`x > y + 1e-12`, `x < y - 1e-12`; five sites of fkm_nonlinear.py).
   Loads that lie within a small error of a grid c * level (levels integer, grid width c far above the tolerance, errors below it)
   are therefore compared exactly like their levels: this is what lets the integer load model (HCM/Load.v) speak about float inputs
   whose extreme values / extents tie only up to rounding (harness/hcm.py: perturb, nt_budget; harness/props/c04.py stage D4).
   The quantities compared by the code are loads, absolute loads and absolute load differences (extents): level_abs / level_extent
   give their distance from the grid. *)
From Coq Require Import Reals ZArith Lra Lia.
Open Scope R_scope.

Lemma rabs_le_inv x e : Rabs x <= e -> - e <= x <= e.
Proof. unfold Rabs; destruct (Rcase_abs x); lra. Qed.

Section Tolerant.
  Variables c tol ea eb : R.
  Hypothesis Htol : ea + eb < tol.
  Hypothesis Hgap : tol + ea + eb < c.

  Lemma tolerant_gt_is_level_gt a b za zb :
    Rabs (a - c * IZR za) <= ea -> Rabs (b - c * IZR zb) <= eb ->
    (a > b + tol <-> (za > zb)%Z).
  Proof.
    intros Ha Hb.
    assert (Ea : 0 <= ea) by (eapply Rle_trans; [apply Rabs_pos | exact Ha]).
    assert (Eb : 0 <= eb) by (eapply Rle_trans; [apply Rabs_pos | exact Hb]).
    assert (Hc : 0 < c) by lra.
    apply rabs_le_inv in Ha. apply rabs_le_inv in Hb.
    split.
    - intros Hgt. destruct (Z_lt_le_dec zb za) as [H | H]; [lia |].
      exfalso. apply IZR_le in H.
      assert (c * IZR za <= c * IZR zb) by (apply Rmult_le_compat_l; lra).
      lra.
    - intros Hz. assert (H : (zb + 1 <= za)%Z) by lia.
      apply IZR_le in H. rewrite plus_IZR in H.
      assert (c * (IZR zb + 1) <= c * IZR za) by (apply Rmult_le_compat_l; lra).
      lra.
  Qed.
End Tolerant.

Lemma tolerant_lt_is_level_lt c tol ea eb a b za zb :
  ea + eb < tol -> tol + ea + eb < c ->
  Rabs (a - c * IZR za) <= ea -> Rabs (b - c * IZR zb) <= eb ->
  (a < b - tol <-> (za < zb)%Z).
Proof.
  intros H1 H2 Ha Hb.
  assert (H1' : eb + ea < tol) by lra.
  assert (H2' : tol + eb + ea < c) by lra.
  pose proof (tolerant_gt_is_level_gt c tol eb ea H1' H2' b a zb za Hb Ha) as H.
  split; intros K.
  - assert (b > a + tol) by lra. apply H in H0. lia.
  - assert ((zb > za)%Z) by lia. apply H in H0. lra.
Qed.

(* |load| is as close to c * |level| as the load is to c * level *)
Lemma level_abs c e x z : 0 < c -> Rabs (x - c * IZR z) <= e -> Rabs (Rabs x - c * IZR (Z.abs z)) <= e.
Proof.
  intros Hc H.
  replace (c * IZR (Z.abs z)) with (Rabs (c * IZR z)).
  - eapply Rle_trans; [apply Rabs_triang_inv2 | exact H].
  - rewrite Rabs_mult, abs_IZR, (Rabs_pos_eq c); lra.
Qed.

(* a load extent |x - y| is within e1 + e2 of c * |level extent| *)
Lemma level_extent c e1 e2 x y zx zy :
  0 < c -> Rabs (x - c * IZR zx) <= e1 -> Rabs (y - c * IZR zy) <= e2 ->
  Rabs (Rabs (x - y) - c * IZR (Z.abs (zx - zy))) <= e1 + e2.
Proof.
  intros Hc Hx Hy. apply level_abs; [exact Hc |].
  rewrite minus_IZR.
  replace (x - y - c * (IZR zx - IZR zy)) with ((x - c * IZR zx) - (y - c * IZR zy)) by ring.
  eapply Rle_trans; [apply Rabs_triang |]. rewrite Rabs_Ropp. lra.
Qed.

(* the hypotheses are satisfiable with the code's tolerance 1e-12, the harness' error budget (4 d + rounding <= 9e-13 for a comparison
   of two extents) and its smallest scale 1e-3 *)
Example tolerant_hyp_sat :
  let tol := / 1000000000000 in let e := 45 / 100000000000000 in let c := / 1000 in
  e + e < tol /\ tol + e + e < c.
Proof. simpl. split; lra. Qed.
