(* C14 -- utils/histogram.py: rebin_histogram on a MultiIndex histogram.  The code re-bins one interval level after the other
   (group by the remaining levels, _do_rebin_histogram per group) and takes the target binning of a level from the target
   level OF THE SAME NAME.  Model: a class is a [key] (one interval per interval level, in the histogram's level order), the
   target is one binning per level (associated by name by the harness), the result is the closed form of the level-wise
   redistribution: value * product over the levels of the overlap share.  Extra non-interval levels only group: the model is
   applied per value of such a level. *)
From Coq Require Import QArith Qabs Qminmax List Bool Lqa Lia.
From PL Require Import Stress.Collective Stress.Histogram Stress.Rebin.
Import ListNotations.
Open Scope Q_scope.

Definition histn := list (key * Q).

(* share of the source class [s] that one call of aggregate_hist puts into the target class [t] (0 when they do not overlap) *)
Definition ov1 (t s : ivl) : Q := if overlaps s t then interval_overlap t s else 0.

Fixpoint weight (t k : key) : Q :=
  match t, k with
  | a :: t', b :: k' => ov1 a b * weight t' k'
  | _, _ => 1
  end.

Definition aggregate_nd (h : histn) (t : key) : Q := Qsum (map (fun kv => snd kv * weight t (fst kv)) h).

(* MultiIndex.from_product of the per-level binnings *)
Fixpoint product (bs : list (list ivl)) : list key :=
  match bs with
  | [] => [[]]
  | b :: r => flat_map (fun a => map (cons a) (product r)) b
  end.

Definition rebin_nd (h : histn) (bs : list (list ivl)) : histn := map (fun t => (t, aggregate_nd h t)) (product bs).

(* one level is the one-dimensional model *)
Lemma aggregate_nd_one_level (h : hist) (t : ivl) :
  aggregate_nd (map (fun s => ([fst s], snd s)) h) [t] == aggregate 0 h t.
Proof.
  rewrite aggregate_filter. unfold aggregate_nd. rewrite map_map. cbn [fst snd weight].
  induction h as [|s h IH]; [reflexivity|].
  cbn [map filter Qsum fold_right]. change (fold_right Qplus 0) with Qsum. rewrite IH. unfold ov1.
  destruct (overlaps (fst s) t); cbn [map Qsum fold_right]; change (fold_right Qplus 0) with Qsum; ring.
Qed.

Lemma Qsum_flat_map {A B} (f : B -> Q) (g : A -> list B) l :
  Qsum (map f (flat_map g l)) == Qsum (map (fun a => Qsum (map f (g a))) l).
Proof.
  induction l as [|a l IH]; [reflexivity|].
  cbn [flat_map map Qsum fold_right]. change (fold_right Qplus 0) with Qsum.
  rewrite map_app, Qsum_app, IH. reflexivity.
Qed.

(* a source class inside a chain of target classes is handed out completely *)
Lemma ov1_over_chain edges (s : ivl) :
  sortedb edges = true -> (2 <= length edges)%nat -> 0 < ilen s -> within edges s ->
  Qsum (map (fun t => ov1 t s) (from_breaks edges)) == 1.
Proof.
  intros Hs Hl Hp Hw.
  rewrite (Qsum_map_ext _ (fun t => share t (s, 1))).
  - apply (shares_over_chain edges (s, 1)); assumption.
  - intros t Ht. unfold ov1, share. cbn [fst snd].
    pose proof (from_breaks_le edges Hs) as Hle. rewrite Forall_forall in Hle.
    rewrite (overlap_share s t Hp (Hle t Ht)). ring.
Qed.

(* per level: sorted edges with at least one class, the class of that level has positive length and lies inside *)
Definition level_ok (edges : list Q) (s : ivl) : Prop :=
  sortedb edges = true /\ (2 <= length edges)%nat /\ 0 < ilen s /\ within edges s.

Lemma weight_over_product (E : list (list Q)) (k : key) :
  Forall2 level_ok E k ->
  Qsum (map (fun t => weight t k) (product (map from_breaks E))) == 1.
Proof.
  induction 1 as [|edges s E k [Hs [Hl [Hp Hw]]] _ IH]; [cbn; ring|].
  cbn [map product]. rewrite Qsum_flat_map.
  rewrite (Qsum_map_ext _ (fun a => ov1 a s)).
  - apply ov1_over_chain; assumption.
  - intros a _. rewrite map_map. cbn [weight].
    rewrite Qsum_map_scal. rewrite IH. ring.
Qed.

(* re-binning every level to a gap-free binning that covers it conserves the total, for any number of levels, any
   (also incomplete, unordered, overlapping) list of source classes *)
Theorem rebin_nd_conserves_total (h : histn) (E : list (list Q)) :
  Forall (fun kv => Forall2 level_ok E (fst kv)) h ->
  Qsum (map snd (rebin_nd h (map from_breaks E))) == Qsum (map snd h).
Proof.
  intro Hh. unfold rebin_nd. rewrite map_map. cbn [snd]. unfold aggregate_nd.
  rewrite (Qsum_swap (fun t kv => snd kv * weight t (fst kv))).
  apply Qsum_map_ext. intros kv Hin. rewrite Forall_forall in Hh.
  rewrite Qsum_map_scal. rewrite (weight_over_product E (fst kv) (Hh kv Hin)). ring.
Qed.

(* the result does not depend on the order in which the levels are processed / listed: permuting the levels of source
   and target alike permutes the keys; stated for the swap of two levels *)
Lemma weight_swap a b t c d k : weight (a :: b :: t) (c :: d :: k) == weight (b :: a :: t) (d :: c :: k).
Proof. cbn [weight]. ring. Qed.

Definition swap2 (k : key) : key := match k with a :: b :: r => b :: a :: r | _ => k end.

Theorem rebin_nd_level_order (h : histn) (t : key) :
  (2 <= length t)%nat -> Forall (fun kv => (2 <= length (fst kv))%nat) h ->
  aggregate_nd (map (fun kv => (swap2 (fst kv), snd kv)) h) (swap2 t) == aggregate_nd h t.
Proof.
  intros Ht Hh. unfold aggregate_nd. rewrite map_map. cbn [fst snd].
  apply Qsum_map_ext. intros [k v] Hin. rewrite Forall_forall in Hh. specialize (Hh _ Hin). cbn [fst snd] in *.
  destruct t as [|a [|b t]]; cbn [length] in Ht; try lia.
  destruct k as [|c [|d k]]; cbn [length] in Hh; try lia.
  cbn [swap2]. rewrite weight_swap. reflexivity.
Qed.

(* non-vacuity: a range/mean histogram, different binnings per level, one of them a single class *)
Example rebin_nd_example :
  let h := [([(0, 2); (-4, 0)], 1); ([(0, 2); (0, 4)], 2); ([(2, 4); (-4, 0)], 3); ([(4, 8); (0, 4)], 6)] in
  let E := [[0; 1; 8]; [-4; -1; 1; 4]] in
  Forall (fun kv => Forall2 level_ok E (fst kv)) h /\
  Qsum (map snd (rebin_nd h (map from_breaks E))) == 12 /\
  aggregate_nd h [(0, 1); (-4, -1)] == 3 # 8.
Proof.
  cbv zeta. split; [|split; vm_compute; reflexivity].
  repeat constructor; unfold ilen, hd_edge, last_edge; cbn [fst snd hd last]; lra.
Qed.
