(* C14 -- boolean comparison functions the correspondence harness (harness/props/c14.py) evaluates by vm_compute:
   each takes a model input and what the implementation returned for it. No theorems here. *)
From Coq Require Import QArith Qabs Qminmax List Bool.
From PL Require Import Stress.Collective Stress.Histogram Stress.Rebin Stress.RebinND.
Import ListNotations.
Open Scope Q_scope.

(* floats that went through a division are compared with a relative tolerance of 1e-9 *)
Definition Qclose (a b : Q) : bool := Qle_bool (Qabs (a - b)) ((1 # 1000000000) * (1 + Qabs a)).
Definition oQclose (a b : option Q) : bool :=
  match a, b with Some x, Some y => Qclose x y | None, None => true | _, _ => false end.

Fixpoint list_eqb {A} (e : A -> A -> bool) (a b : list A) : bool :=
  match a, b with
  | [], [] => true
  | x :: a', y :: b' => e x y && list_eqb e a' b'
  | _, _ => false
  end.

(* one loop of a collective: amplitude, meanstress, upper, lower (exact), R (close; None = infinite), cycles *)
Definition check_loop (c : loop) (a m u l : Q) (r : option Q) (n : Q) : bool :=
  Qeq_bool (amplitude c) a && Qeq_bool (meanstress c) m && Qeq_bool (upper c) u && Qeq_bool (lower c) l &&
  oQclose (Rvalue c) r && Qeq_bool (cycles c) n.

(* the frame after _validate / scale / shift: from, to, cycles column *)
Definition check_frame (c : loop) (fr to : Q) (cyc : option Q) : bool :=
  Qeq_bool (lfrom c) fr && Qeq_bool (lto c) to &&
  match lcyc c, cyc with Some x, Some y => Qeq_bool x y | None, None => true | _, _ => false end.

Definition check_class (loc : location) (k : hclass) (a m u l : Q) (r : option Q) : bool :=
  Qeq_bool (h_amplitude loc k) a && Qeq_bool (h_meanstress loc k) m && Qeq_bool (h_upper loc k) u &&
  Qeq_bool (h_lower loc k) l && oQclose (h_R loc k) r.

Definition hclass_eqb (a b : hclass) : bool :=
  match a, b with
  | FromTo f1 t1, FromTo f2 t2 => ivl_eqb f1 f2 && ivl_eqb t1 t2
  | RangeMean r1 (Some m1), RangeMean r2 (Some m2) => ivl_eqb r1 r2 && ivl_eqb m1 m2
  | RangeMean r1 None, RangeMean r2 None => ivl_eqb r1 r2
  | _, _ => false
  end.

(* histograms: the edges the implementation reports and its class counts *)
Definition check_hist1 (edges : list Q) (pts : list (Q * Q)) (counts : list Q) : bool :=
  sortedb edges && list_eqb Qeq_bool (hist1 edges pts) counts.
Definition check_hist2 (xe ye : list Q) (pts : list (Q * Q * Q)) (counts : list (list Q)) : bool :=
  sortedb xe && sortedb ye && list_eqb (list_eqb Qeq_bool) (hist2 xe ye pts) counts.
(* bins = n: the edges numpy chose *)
Definition check_auto_edges (lo hi : Q) (n : nat) (edges : list Q) : bool := list_eqb Qclose (auto_edges lo hi n) edges.

(* rebin_histogram: Some classes-with-values, or None when the binning was refused *)
Definition check_rebin (h : hist) (b : list ivl) (out : option (list Q)) : bool :=
  match rebin_checked 0 h b, out with
  | Some r, Some vs => list_eqb Qclose (map snd r) vs
  | None, None => true
  | _, _ => false
  end.
Definition check_rebin_int (h : hist) (n : nat) (cls : list ivl) (vs : list Q) : bool :=
  let b := binning_of_n_bins h n in
  list_eqb (fun x y => Qclose (fst x) (fst y) && Qclose (snd x) (snd y)) b cls &&
  list_eqb Qclose (map snd (rebin 0 h cls)) vs.
Definition check_binning (b : list ivl) (accepted : bool) : bool := Bool.eqb (binning_ok b) accepted.

Definition check_combine (hs : list (list (key * Q))) (out : list (key * Q)) : bool :=
  let m := combine_sum hs in
  (length m =? length out)%nat && forallb (fun kv => Qclose (lookup (fst kv) m) (snd kv)) out.

(* rebin_histogram on a MultiIndex histogram (per value of an extra non-interval level): every class the implementation returns,
   keyed by the intervals of the levels in the source's level order (looked up BY NAME by the harness), holds the model's content *)
Definition check_rebin_nd (h out : histn) : bool :=
  forallb (fun kv => Qclose (aggregate_nd h (fst kv)) (snd kv)) out.
