(* Tactics for the per-run C17 certificates.
   The hand-written eigenvalue model is evaluated on numpy's (literal, rational) eigenvalue triple through the proved
   characterisations (tresca_sorted, amax3_sorted, amin3_sorted, abs_max_spec, sign_amp_spec, sign_trace_spec): ascending
   order of the literal triple is itself proved by lra inside the certificate, so a triple that is not ascending fails.
   Remaining decisions (sign, zero fix-up, >= 0 test) are on rational constants and resolved by lra -- including exact
   zeros, which interval arithmetic cannot decide. *)
From Coq Require Import Reals Lra.
From PL Require Import Common.RPrelude Common.Cert Stress.C17.
From PLgen Require Import GenEquistress.
Open Scope R_scope.

Lemma sgnR_zero x : x = 0 -> sgnR x = 0.
Proof. intros ->. apply sgnR_0. Qed.
Lemma if_Req_true (a b : R) (T : Type) (x y : T) : a = b -> (if Req_EM_T a b then x else y) = x.
Proof. intros H. destruct (Req_EM_T a b); [reflexivity|contradiction]. Qed.
Lemma if_Req_false' (a b : R) (T : Type) (x y : T) : a <> b -> (if Req_EM_T a b then x else y) = y.
Proof. intros H. destruct (Req_EM_T a b); [contradiction|reflexivity]. Qed.

Ltac c17_dec :=
  repeat match goal with
  | |- context [sgnR ?x] => first [rewrite (sgnR_pos x) by lra | rewrite (sgnR_neg x) by lra | rewrite (sgnR_zero x) by lra]
  | |- context [if Req_EM_T ?a ?b then ?x else ?y] =>
      first [rewrite (if_Req_false' a b _ x y) by lra | rewrite (if_Req_true a b _ x y) by lra]
  | |- context [if Rle_dec ?a ?b then ?x else ?y] =>
      first [rewrite (if_Rle_true a b _ x y) by lra | rewrite (if_Rle_false a b _ x y) by lra]
  end.

Ltac c17_prep :=
  unfold signed_tresca_trace_m, signed_tresca_amp_m, signed_mises_amp_m, max_principal_m, min_principal_m;
  rewrite ?abs_max_spec, ?sign_amp_spec, ?sign_trace_spec;
  repeat match goal with
  | |- context [tresca_m (?a, ?b, ?c)] => rewrite (tresca_sorted a b c) by (split; lra)
  | |- context [amax3 (?a, ?b, ?c)] => rewrite (amax3_sorted a b c) by lra
  | |- context [amin3 (?a, ?b, ?c)] => rewrite (amin3_sorted a b c) by lra
  end;
  unfold mises_t, I1, I2, I3, eqs_signed_mises_trace, eqa_signed_mises_trace, eqs__sign_trace, eqa__sign_trace, eqs_mises, eqa_mises;
  cbv beta iota zeta delta [s11 s22 s33 s12 s13 s23];
  c17_dec.
