(* Tactics for the per-run C17 certificates: every decision of the hand-written eigenvalue model
   (Rmax / Rmin / Rabs / sgnR / sign fix-up / >= 0 test) is taken on rational constants, so it is resolved by lra --
   including exact ties and exact zeros, which interval arithmetic cannot decide. *)
From Coq Require Import Reals Lra.
From PL Require Import Common.RPrelude Common.Cert.
Open Scope R_scope.

Lemma sgnR_zero x : x = 0 -> sgnR x = 0.
Proof. intros ->. apply sgnR_0. Qed.
Lemma if_Req_true (a b : R) (T : Type) (x y : T) : a = b -> (if Req_EM_T a b then x else y) = x.
Proof. intros H. destruct (Req_EM_T a b); [reflexivity|contradiction]. Qed.
Lemma if_Req_false' (a b : R) (T : Type) (x y : T) : a <> b -> (if Req_EM_T a b then x else y) = y.
Proof. intros H. destruct (Req_EM_T a b); [contradiction|reflexivity]. Qed.

Ltac c17_step :=
  match goal with
  | |- context [Rmax ?a ?b] => first [rewrite (Rmax_left a b) by lra | rewrite (Rmax_right a b) by lra]
  | |- context [Rmin ?a ?b] => first [rewrite (Rmin_left a b) by lra | rewrite (Rmin_right a b) by lra]
  | |- context [sgnR ?x] => first [rewrite (sgnR_pos x) by lra | rewrite (sgnR_neg x) by lra | rewrite (sgnR_zero x) by lra]
  | |- context [if Req_EM_T ?a ?b then ?x else ?y] =>
      first [rewrite (if_Req_true a b _ x y) by lra | rewrite (if_Req_false' a b _ x y) by lra]
  | |- context [if Rle_dec ?a ?b then ?x else ?y] =>
      first [rewrite (if_Rle_true a b _ x y) by lra | rewrite (if_Rle_false a b _ x y) by lra]
  | |- context [Rabs ?a] => first [rewrite (Rabs_pos_eq a) by lra | rewrite (Rabs_left1 a) by lra]
  end.

Ltac c17_prep := cbv zeta; repeat c17_step.
