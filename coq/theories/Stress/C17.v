(* C17 -- equivalent stresses: rotation invariance, positive homogeneity, definitions over the principal
   stresses, Mises <= Tresca <= 2/sqrt 3 Mises, sign conventions.

   GENERATED (py2coq, every run) from src/pylife/stress/equistress.py:
     eqs_/eqa_ mises, _sign_trace, signed_mises_trace   (eqs_ = scalar input, eqa_ = array / column input).
   HAND-WRITTEN here, mirroring the source line by line over the eigenvalue triple `w` that
   np.linalg.eigvalsh returns: tresca, max/min/abs_max principal, _sign_abs_max_principal and the signed
   variants built on them.  They are tied to the implementation by per-run certificates (model applied to
   numpy's eigenvalues = what the function returned) -- see harness/props/c17.py.

   np.linalg.eigvalsh never enters as an axiom.  Its contract is the predicate [is_eig a w]:
   w is sorted ascending and its elementary symmetric functions are the invariants I1, I2, I3 of a
   (= w are the roots, with multiplicity, of the characteristic polynomial).  Theorems are stated for every
   triple satisfying the contract; section [Contract] restates them for a function eig with the contract. *)
From Coq Require Import Reals Lra Psatz.
From PL Require Import Common.RPrelude.
From PLgen Require Import GenEquistress.
Open Scope R_scope.

(* ------------------------------------------------------------------ 3x3 matrices, explicit components *)
Record M3 := mkM { m11 : R; m12 : R; m13 : R; m21 : R; m22 : R; m23 : R; m31 : R; m32 : R; m33 : R }.

Definition mmul (a b : M3) : M3 :=
  mkM (m11 a * m11 b + m12 a * m21 b + m13 a * m31 b) (m11 a * m12 b + m12 a * m22 b + m13 a * m32 b) (m11 a * m13 b + m12 a * m23 b + m13 a * m33 b)
      (m21 a * m11 b + m22 a * m21 b + m23 a * m31 b) (m21 a * m12 b + m22 a * m22 b + m23 a * m32 b) (m21 a * m13 b + m22 a * m23 b + m23 a * m33 b)
      (m31 a * m11 b + m32 a * m21 b + m33 a * m31 b) (m31 a * m12 b + m32 a * m22 b + m33 a * m32 b) (m31 a * m13 b + m32 a * m23 b + m33 a * m33 b).
Definition mT (a : M3) : M3 := mkM (m11 a) (m21 a) (m31 a) (m12 a) (m22 a) (m32 a) (m13 a) (m23 a) (m33 a).
Definition mI : M3 := mkM 1 0 0 0 1 0 0 0 1.
Definition mtr (a : M3) : R := m11 a + m22 a + m33 a.
Definition mdet (a : M3) : R :=
  m11 a * (m22 a * m33 a - m23 a * m32 a) - m12 a * (m21 a * m33 a - m23 a * m31 a) + m13 a * (m21 a * m32 a - m22 a * m31 a).
Definition mscale (c : R) (a : M3) : M3 :=
  mkM (c * m11 a) (c * m12 a) (c * m13 a) (c * m21 a) (c * m22 a) (c * m23 a) (c * m31 a) (c * m32 a) (c * m33 a).

Ltac m3 := repeat match goal with x : M3 |- _ => destruct x end; cbv beta iota delta [mmul mT mI mtr mdet mscale m11 m12 m13 m21 m22 m23 m31 m32 m33].

Lemma mmul_assoc a b c : mmul (mmul a b) c = mmul a (mmul b c).
Proof. m3. f_equal; ring. Qed.
Lemma mmul_I_r a : mmul a mI = a.
Proof. m3. f_equal; ring. Qed.
Lemma mtr_mmul_comm a b : mtr (mmul a b) = mtr (mmul b a).
Proof. m3. ring. Qed.
Lemma mdet_mmul a b : mdet (mmul a b) = mdet a * mdet b.
Proof. m3. ring. Qed.
Lemma mdet_I : mdet mI = 1.
Proof. unfold mdet, mI. cbn. ring. Qed.

(* Q^T Q = 1 (rotations and reflections) *)
Definition orthogonal (q : M3) : Prop := mmul (mT q) q = mI.

(* conjugation B = Q A Q^T *)
Definition conjug (q a : M3) : M3 := mmul (mmul q a) (mT q).

Lemma mmul_I_l a : mmul mI a = a.
Proof. m3. f_equal; ring. Qed.
Lemma orth_cancel q x : orthogonal q -> mmul (mT q) (mmul q x) = x.
Proof. intros H. rewrite <- mmul_assoc, H. apply mmul_I_l. Qed.
Lemma conj_sq q a : orthogonal q -> mmul (conjug q a) (conjug q a) = conjug q (mmul a a).
Proof. intros H. unfold conjug. rewrite !mmul_assoc. rewrite (orth_cancel q _ H). reflexivity. Qed.
Lemma mtr_conj q a : orthogonal q -> mtr (conjug q a) = mtr a.
Proof.
  intros H. unfold conjug. rewrite mtr_mmul_comm, <- mmul_assoc, H. f_equal. m3. f_equal; ring.
Qed.
Lemma mdet_conj q a : orthogonal q -> mdet (conjug q a) = mdet a.
Proof.
  intros H. unfold conjug. rewrite !mdet_mmul.
  replace (mdet q * mdet a * mdet (mT q)) with (mdet a * (mdet (mT q) * mdet q)) by ring.
  rewrite <- mdet_mmul, H, mdet_I. ring.
Qed.

(* ------------------------------------------------------------------ symmetric stress tensors (Voigt) *)
Record Tens := mkT { s11 : R; s22 : R; s33 : R; s12 : R; s13 : R; s23 : R }.

Definition sym (a : Tens) : M3 := mkM (s11 a) (s12 a) (s13 a) (s12 a) (s22 a) (s23 a) (s13 a) (s23 a) (s33 a).
Definition voigt (b : M3) : Tens := mkT (m11 b) (m22 b) (m33 b) (m12 b) (m13 b) (m23 b).

(* the tensor expressed in the coordinate system rotated by q:  Q S Q^T *)
Definition rotate (q : M3) (a : Tens) : Tens := voigt (conjug q (sym a)).
Definition tscale (c : R) (a : Tens) : Tens := mkT (c * s11 a) (c * s22 a) (c * s33 a) (c * s12 a) (c * s13 a) (c * s23 a).

Ltac t6 := repeat match goal with x : Tens |- _ => destruct x end;
  cbv beta iota delta [rotate tscale conjug sym voigt s11 s22 s33 s12 s13 s23 mmul mT mI mtr mdet mscale m11 m12 m13 m21 m22 m23 m31 m32 m33].

Lemma sym_rotate q a : sym (rotate q a) = conjug q (sym a).
Proof. unfold rotate, conjug. t6. f_equal; ring. Qed.

(* invariants: coefficients of the characteristic polynomial x^3 - I1 x^2 + I2 x - I3 *)
Definition I1 (a : Tens) : R := s11 a + s22 a + s33 a.
Definition I2 (a : Tens) : R := s11 a * s22 a + s11 a * s33 a + s22 a * s33 a - s12 a ^ 2 - s13 a ^ 2 - s23 a ^ 2.
Definition I3 (a : Tens) : R :=
  s11 a * s22 a * s33 a + 2 * s12 a * s13 a * s23 a - s11 a * s23 a ^ 2 - s22 a * s13 a ^ 2 - s33 a * s12 a ^ 2.

Lemma I1_mtr a : I1 a = mtr (sym a).
Proof. unfold I1. t6. ring. Qed.
Lemma I2_mtr a : I2 a = (mtr (sym a) ^ 2 - mtr (mmul (sym a) (sym a))) / 2.
Proof. unfold I2. t6. field. Qed.
Lemma I3_mdet a : I3 a = mdet (sym a).
Proof. unfold I3. t6. ring. Qed.

Theorem I1_I2_I3_rotation_invariant q a : orthogonal q ->
  I1 (rotate q a) = I1 a /\ I2 (rotate q a) = I2 a /\ I3 (rotate q a) = I3 a.
Proof.
  intros H. rewrite !I1_mtr, !I2_mtr, !I3_mdet, !sym_rotate.
  rewrite (conj_sq q (sym a) H), !(mtr_conj q _ H), (mdet_conj q _ H). auto.
Qed.

Lemma I_tscale c a : I1 (tscale c a) = c * I1 a /\ I2 (tscale c a) = c ^ 2 * I2 a /\ I3 (tscale c a) = c ^ 3 * I3 a.
Proof. unfold I1, I2, I3. t6. repeat split; ring. Qed.

(* ------------------------------------------------------------------ von Mises (generated) *)
Definition mises_t (a : Tens) : R := eqs_mises (s11 a) (s22 a) (s33 a) (s12 a) (s13 a) (s23 a).
Definition sign_trace_t (a : Tens) : R := eqs__sign_trace (s11 a) (s22 a) (s33 a).
Definition signed_mises_trace_t (a : Tens) : R := eqs_signed_mises_trace (s11 a) (s22 a) (s33 a) (s12 a) (s13 a) (s23 a).

Lemma sgnR_fix0 x : (if Req_EM_T (sgnR x) 0 then 1 else sgnR x) = if Rle_dec 0 x then 1 else -1.
Proof.
  destruct (Rtotal_order x 0) as [H|[H|H]].
  - rewrite sgnR_neg by assumption. destruct (Req_EM_T (-1) 0); [lra|]. destruct (Rle_dec 0 x); [lra|reflexivity].
  - subst. rewrite sgnR_0. destruct (Req_EM_T 0 0); [|lra]. destruct (Rle_dec 0 0); [reflexivity|lra].
  - rewrite sgnR_pos by assumption. destruct (Req_EM_T 1 0); [lra|]. destruct (Rle_dec 0 x); [reflexivity|lra].
Qed.

(* scalar-input and column-input code paths compute the same element-wise function *)
Lemma scalar_and_array_paths_agree x11 x22 x33 x12 x13 x23 :
  eqa_mises x11 x22 x33 x12 x13 x23 = eqs_mises x11 x22 x33 x12 x13 x23 /\
  eqa__sign_trace x11 x22 x33 = eqs__sign_trace x11 x22 x33 /\
  eqa_signed_mises_trace x11 x22 x33 x12 x13 x23 = eqs_signed_mises_trace x11 x22 x33 x12 x13 x23.
Proof.
  assert (Hm : eqa_mises x11 x22 x33 x12 x13 x23 = eqs_mises x11 x22 x33 x12 x13 x23).
  { unfold eqa_mises, eqs_mises. cbv zeta. first [reflexivity | f_equal; first [ring | field]]. }
  assert (Hs : eqa__sign_trace x11 x22 x33 = eqs__sign_trace x11 x22 x33).
  { unfold eqa__sign_trace, eqs__sign_trace. cbv zeta.
    first [reflexivity | rewrite !sgnR_fix0; first [reflexivity | match goal with |- context [Rle_dec 0 ?x] => replace x with (x11 + x22 + x33) by ring end; reflexivity]]. }
  split; [exact Hm|]. split; [exact Hs|].
  unfold eqa_signed_mises_trace, eqs_signed_mises_trace. cbv zeta. rewrite Hm, Hs. first [reflexivity | ring].
Qed.

Lemma rad_nonneg x11 x22 x33 x12 x13 x23 :
  0 <= (x11 + x22 + x33) ^ 2 - 3 * (x11 * x22 + x11 * x33 + x22 * x33 - x12 ^ 2 - x13 ^ 2 - x23 ^ 2).
Proof.
  replace ((x11 + x22 + x33) ^ 2 - 3 * (x11 * x22 + x11 * x33 + x22 * x33 - x12 ^ 2 - x13 ^ 2 - x23 ^ 2))
    with (((x11 - x22) ^ 2 + (x22 - x33) ^ 2 + (x33 - x11) ^ 2) / 2 + 3 * (x12 ^ 2 + x13 ^ 2 + x23 ^ 2)) by field.
  pose proof (pow2_ge_0 (x11 - x22)). pose proof (pow2_ge_0 (x22 - x33)). pose proof (pow2_ge_0 (x33 - x11)).
  pose proof (pow2_ge_0 x12). pose proof (pow2_ge_0 x13). pose proof (pow2_ge_0 x23). lra.
Qed.
Lemma radicand_nonneg a : 0 <= I1 a ^ 2 - 3 * I2 a.
Proof. unfold I1, I2. apply rad_nonneg. Qed.

Lemma mises_t_sqrt a : mises_t a = sqrt (I1 a ^ 2 - 3 * I2 a).
Proof. unfold mises_t, eqs_mises, I1, I2. cbv zeta. f_equal. first [ring | field]. Qed.

Theorem mises_sq_is_invariants a :
  0 <= mises_t a /\ mises_t a ^ 2 = I1 a ^ 2 - 3 * I2 a /\
  mises_t a = sqrt (((s11 a - s22 a) ^ 2 + (s22 a - s33 a) ^ 2 + (s33 a - s11 a) ^ 2) / 2 + 3 * (s12 a ^ 2 + s13 a ^ 2 + s23 a ^ 2)).
Proof.
  rewrite mises_t_sqrt. split; [apply sqrt_pos|]. split.
  - rewrite <- Rsqr_pow2. apply Rsqr_sqrt, radicand_nonneg.
  - f_equal. unfold I1, I2. field.
Qed.

Theorem mises_rotation_invariant q a : orthogonal q -> mises_t (rotate q a) = mises_t a.
Proof.
  intros H. rewrite !mises_t_sqrt. destruct (I1_I2_I3_rotation_invariant q a H) as (-> & -> & _). reflexivity.
Qed.

Theorem mises_positively_homogeneous c a : 0 <= c -> mises_t (tscale c a) = c * mises_t a.
Proof.
  intros Hc. rewrite !mises_t_sqrt. destruct (I_tscale c a) as (-> & -> & _).
  replace ((c * I1 a) ^ 2 - 3 * (c ^ 2 * I2 a)) with (Rsqr c * (I1 a ^ 2 - 3 * I2 a)) by (unfold Rsqr; ring).
  rewrite sqrt_mult_alt by apply Rle_0_sqr. rewrite sqrt_Rsqr by assumption. reflexivity.
Qed.

(* ------------------------------------------------------------------ the sign of the trace (generated) *)
Lemma sign_trace_spec a : sign_trace_t a = if Rle_dec 0 (I1 a) then 1 else -1.
Proof.
  unfold sign_trace_t, eqs__sign_trace, I1. cbv zeta.
  match goal with |- context [sgnR ?x] => replace x with (s11 a + s22 a + s33 a) by ring end.
  apply sgnR_fix0.
Qed.

Lemma signed_mises_trace_t_eq a : signed_mises_trace_t a = sign_trace_t a * mises_t a.
Proof. unfold signed_mises_trace_t, eqs_signed_mises_trace, sign_trace_t, mises_t. cbv zeta. first [reflexivity | ring]. Qed.

(* ------------------------------------------------------------------ eigenvalue triples *)
Definition E3 := (R * R * R)%type.
Definition sorted3 (w : E3) : Prop := let '(w0, w1, w2) := w in w0 <= w1 /\ w1 <= w2.
Definition roots_of (a : Tens) (w : E3) : Prop :=
  let '(w0, w1, w2) := w in w0 + w1 + w2 = I1 a /\ w0 * w1 + w0 * w2 + w1 * w2 = I2 a /\ w0 * w1 * w2 = I3 a.
(* the contract of np.linalg.eigvalsh on the assembled tensor *)
Definition is_eig (a : Tens) (w : E3) : Prop := sorted3 w /\ roots_of a w.
Definition escale (c : R) (w : E3) : E3 := let '(w0, w1, w2) := w in (c * w0, c * w1, c * w2).

(* two ascending triples with equal elementary symmetric functions are equal *)
Lemma sorted_roots_unique e0 e1 e2 f0 f1 f2 :
  e0 <= e1 -> e1 <= e2 -> f0 <= f1 -> f1 <= f2 ->
  e0 + e1 + e2 = f0 + f1 + f2 -> e0 * e1 + e0 * e2 + e1 * e2 = f0 * f1 + f0 * f2 + f1 * f2 -> e0 * e1 * e2 = f0 * f1 * f2 ->
  (e0, e1, e2) = (f0, f1, f2).
Proof.
  intros He01 He12 Hf01 Hf12 H1 H2 H3.
  assert (P : forall x, (x - e0) * (x - e1) * (x - e2) = (x - f0) * (x - f1) * (x - f2)).
  { intros x.
    replace ((x - e0) * (x - e1) * (x - e2)) with (x ^ 3 - (e0 + e1 + e2) * x ^ 2 + (e0 * e1 + e0 * e2 + e1 * e2) * x - e0 * e1 * e2) by ring.
    rewrite H1, H2, H3. ring. }
  assert (mem : forall x a b c, (x - a) * (x - b) * (x - c) = 0 -> x = a \/ x = b \/ x = c).
  { intros x a b c H. apply Rmult_integral in H. destruct H as [H|H]; [apply Rmult_integral in H; destruct H|]; lra. }
  assert (F0 : f0 = e0 \/ f0 = e1 \/ f0 = e2) by (apply mem; rewrite P; ring).
  assert (F2 : f2 = e0 \/ f2 = e1 \/ f2 = e2) by (apply mem; rewrite P; ring).
  assert (E0 : e0 = f0 \/ e0 = f1 \/ e0 = f2) by (apply mem; rewrite <- P; ring).
  assert (E2 : e2 = f0 \/ e2 = f1 \/ e2 = f2) by (apply mem; rewrite <- P; ring).
  assert (A : e0 = f0) by lra.
  assert (B : e2 = f2) by lra.
  assert (C : e1 = f1) by lra.
  subst. reflexivity.
Qed.

Lemma is_eig_unique a w w' : is_eig a w -> is_eig a w' -> w' = w.
Proof.
  destruct w as [[e0 e1] e2], w' as [[f0 f1] f2]. intros [[? ?] (? & ? & ?)] [[? ?] (? & ? & ?)].
  apply sorted_roots_unique; try assumption; congruence.
Qed.

Theorem eigenvalues_rotation_invariant q a w w' :
  orthogonal q -> is_eig a w -> is_eig (rotate q a) w' -> w' = w.
Proof.
  intros H Hw Hw'. apply (is_eig_unique a); [assumption|].
  destruct w' as [[f0 f1] f2]. destruct Hw' as [Hs Hr]. split; [exact Hs|].
  unfold roots_of in *. destruct (I1_I2_I3_rotation_invariant q a H) as (<- & <- & <-). exact Hr.
Qed.

Theorem eigenvalues_positively_homogeneous c a w w' :
  0 <= c -> is_eig a w -> is_eig (tscale c a) w' -> w' = escale c w.
Proof.
  intros Hc Hw Hw'. apply (is_eig_unique (tscale c a)); [|assumption].
  destruct w as [[e0 e1] e2]. destruct Hw as [[Ha Hb] (H1 & H2 & H3)]. unfold escale. split.
  - split; apply Rmult_le_compat_l; assumption.
  - unfold roots_of. destruct (I_tscale c a) as (-> & -> & ->). rewrite <- H1, <- H2, <- H3. repeat split; ring.
Qed.

(* ------------------------------------------------------------------ hand model of the eigenvalue-based functions
   (equistress.py, each definition next to the source lines it mirrors) *)
Definition amax3 (w : E3) : R := let '(a, b, c) := w in Rmax (Rmax a b) c.     (* np.amax(w, axis=0) *)
Definition amin3 (w : E3) : R := let '(a, b, c) := w in Rmin (Rmin a b) c.     (* np.amin(w, axis=0) *)

(* w_diff[0] = fabs(w[0]-w[1]); w_diff[1] = fabs(w[0]-w[2]); w_diff[2] = fabs(w[1]-w[2]); amax(w_diff) *)
Definition tresca_m (w : E3) : R := let '(w0, w1, w2) := w in amax3 (Rabs (w0 - w1), Rabs (w0 - w2), Rabs (w1 - w2)).
Definition max_principal_m (w : E3) : R := amax3 w.
Definition min_principal_m (w : E3) : R := amin3 w.
(* sgn = sign(w_max + w_min); zero_sign_bool = (sgn == 0) as int; sgn + zero_sign_bool *)
Definition sign_amp_m (w : E3) : R :=
  let sgn := sgnR (amax3 w + amin3 w) in sgn + (if Req_EM_T sgn 0 then 1 else 0).
(* positive_sign_bool = sign >= 0;  w_max * positive_sign_bool + w_min * invert(positive_sign_bool) *)
Definition abs_max_principal_m (w : E3) : R :=
  let b := if Rle_dec 0 (sign_amp_m w) then 1 else 0 in amax3 w * b + amin3 w * (1 - b).
Definition signed_tresca_trace_m (a : Tens) (w : E3) : R := sign_trace_t a * tresca_m w.
Definition signed_tresca_amp_m (w : E3) : R := sign_amp_m w * tresca_m w.
Definition signed_mises_amp_m (a : Tens) (w : E3) : R := sign_amp_m w * mises_t a.

(* case analysis on every Rabs / Rmax / Rmin decision, innermost first *)
Ltac case_dec :=
  repeat match goal with |- context [Rcase_abs ?x] => destruct (Rcase_abs x) end;
  repeat match goal with
  | |- context [Rle_dec ?x ?y] =>
      lazymatch x with context [Rle_dec _ _] => fail | _ =>
      lazymatch y with context [Rle_dec _ _] => fail | _ => destruct (Rle_dec x y) end end
  end.

Lemma amax3_sorted w0 w1 w2 : w0 <= w1 -> w1 <= w2 -> amax3 (w0, w1, w2) = w2.
Proof. intros. unfold amax3. rewrite (Rmax_right w0 w1) by assumption. apply Rmax_right; assumption. Qed.
Lemma amin3_sorted w0 w1 w2 : w0 <= w1 -> w1 <= w2 -> amin3 (w0, w1, w2) = w0.
Proof. intros. unfold amin3. rewrite (Rmin_left w0 w1) by assumption. apply Rmin_left; lra. Qed.

(* amax3 / amin3 are the largest / smallest component whatever the order *)
Lemma amax3_is_max w : let '(a, b, c) := w in a <= amax3 w /\ b <= amax3 w /\ c <= amax3 w /\ (amax3 w = a \/ amax3 w = b \/ amax3 w = c).
Proof.
  destruct w as [[a b] c]. unfold amax3, Rmax. destruct (Rle_dec a b), (Rle_dec b c), (Rle_dec a c); repeat split; try lra; auto.
Qed.
Lemma amin3_is_min w : let '(a, b, c) := w in amin3 w <= a /\ amin3 w <= b /\ amin3 w <= c /\ (amin3 w = a \/ amin3 w = b \/ amin3 w = c).
Proof.
  destruct w as [[a b] c]. unfold amin3, Rmin. destruct (Rle_dec a b), (Rle_dec b c), (Rle_dec a c); repeat split; try lra; auto.
Qed.

Theorem tresca_is_max_minus_min w : tresca_m w = amax3 w - amin3 w.
Proof.
  destruct w as [[a b] c]. unfold tresca_m, amax3, amin3, Rmax, Rmin, Rabs.
  case_dec; lra.
Qed.

Theorem tresca_sorted w0 w1 w2 : sorted3 (w0, w1, w2) -> tresca_m (w0, w1, w2) = w2 - w0.
Proof. intros [H1 H2]. rewrite tresca_is_max_minus_min, amax3_sorted, amin3_sorted by assumption. reflexivity. Qed.

Lemma principal_extremes w0 w1 w2 : sorted3 (w0, w1, w2) ->
  max_principal_m (w0, w1, w2) = w2 /\ min_principal_m (w0, w1, w2) = w0 /\ tresca_m (w0, w1, w2) = w2 - w0.
Proof.
  intros H. split; [apply amax3_sorted; apply H|]. split; [apply amin3_sorted; apply H|]. exact (tresca_sorted w0 w1 w2 H).
Qed.
Lemma amax3_amin3_are_extremes w :
  (let '(a, b, c) := w in a <= amax3 w /\ b <= amax3 w /\ c <= amax3 w /\ (amax3 w = a \/ amax3 w = b \/ amax3 w = c)) /\
  (let '(a, b, c) := w in amin3 w <= a /\ amin3 w <= b /\ amin3 w <= c /\ (amin3 w = a \/ amin3 w = b \/ amin3 w = c)).
Proof. split; [apply amax3_is_max|apply amin3_is_min]. Qed.

Lemma tresca_nonneg w : 0 <= tresca_m w.
Proof.
  rewrite tresca_is_max_minus_min. pose proof (amax3_is_max w) as H. pose proof (amin3_is_min w) as G.
  destruct w as [[a b] c]. lra.
Qed.

Theorem mises_from_principal_differences a w : roots_of a w ->
  let '(w0, w1, w2) := w in mises_t a = sqrt (((w0 - w1) ^ 2 + (w1 - w2) ^ 2 + (w2 - w0) ^ 2) / 2).
Proof.
  destruct w as [[w0 w1] w2]. intros (H1 & H2 & _). rewrite mises_t_sqrt, <- H1, <- H2. f_equal. field.
Qed.

Theorem mises_le_tresca_le_2_over_sqrt3_mises a w : is_eig a w ->
  mises_t a <= tresca_m w /\ tresca_m w <= 2 / sqrt 3 * mises_t a.
Proof.
  destruct w as [[w0 w1] w2]. intros [Hs Hr]. pose proof Hs as [Ha Hb].
  pose proof (mises_from_principal_differences a (w0, w1, w2) Hr) as Hm. cbv beta iota in Hm.
  rewrite (tresca_sorted _ _ _ Hs), Hm.
  set (r := ((w0 - w1) ^ 2 + (w1 - w2) ^ 2 + (w2 - w0) ^ 2) / 2).
  assert (Hr0 : 0 <= r).
  { unfold r. pose proof (pow2_ge_0 (w0 - w1)). pose proof (pow2_ge_0 (w1 - w2)). pose proof (pow2_ge_0 (w2 - w0)). lra. }
  assert (Hd : 0 <= w2 - w0) by lra.
  assert (H3 : 0 < sqrt 3) by (apply sqrt_lt_R0; lra).
  split.
  - (* r <= (w2-w0)^2 *)
    rewrite <- (sqrt_Rsqr (w2 - w0) Hd). apply sqrt_le_1_alt.
    assert (E : Rsqr (w2 - w0) - r = (w1 - w0) * (w2 - w1)) by (unfold r, Rsqr; field).
    assert (0 <= (w1 - w0) * (w2 - w1)) by (apply Rmult_le_pos; lra). lra.
  - (* (w2-w0)^2 <= 4/3 r *)
    replace (2 / sqrt 3 * sqrt r) with (sqrt (4 / 3 * r)).
    + rewrite <- (sqrt_Rsqr (w2 - w0) Hd). apply sqrt_le_1_alt.
      assert (E : 4 / 3 * r - Rsqr (w2 - w0) = ((w1 - w0) - (w2 - w1)) ^ 2 / 3) by (unfold r, Rsqr; field).
      pose proof (pow2_ge_0 ((w1 - w0) - (w2 - w1))). lra.
    + rewrite sqrt_mult_alt by lra. f_equal.
      replace (4 / 3) with (Rsqr (2 / sqrt 3)).
      * apply sqrt_Rsqr. apply Rlt_le, Rdiv_lt_0_compat; lra.
      * unfold Rsqr. replace (2 / sqrt 3 * (2 / sqrt 3)) with (4 / (sqrt 3 * sqrt 3)) by (field; lra).
        rewrite sqrt_sqrt by lra. reflexivity.
Qed.

(* both bounds are attained: uniaxial tension (Mises = Tresca), pure shear (Tresca = 2/sqrt3 Mises) *)
Example mises_eq_tresca_uniaxial : is_eig (mkT 1 0 0 0 0 0) (0, 0, 1) /\ mises_t (mkT 1 0 0 0 0 0) = tresca_m (0, 0, 1).
Proof.
  split.
  - unfold is_eig, sorted3, roots_of, I1, I2, I3. cbn. repeat split; lra.
  - rewrite tresca_sorted by (cbn; lra). rewrite mises_t_sqrt.
    replace (I1 (mkT 1 0 0 0 0 0) ^ 2 - 3 * I2 (mkT 1 0 0 0 0 0)) with 1 by (unfold I1, I2; cbn; ring).
    rewrite sqrt_1. ring.
Qed.
Example tresca_eq_bound_pure_shear :
  is_eig (mkT 0 0 0 1 0 0) (-1, 0, 1) /\ tresca_m (-1, 0, 1) = 2 / sqrt 3 * mises_t (mkT 0 0 0 1 0 0).
Proof.
  split.
  - unfold is_eig, sorted3, roots_of, I1, I2, I3. cbn. repeat split; lra.
  - rewrite tresca_sorted by (cbn; lra). rewrite mises_t_sqrt.
    replace (I1 (mkT 0 0 0 1 0 0) ^ 2 - 3 * I2 (mkT 0 0 0 1 0 0)) with 3 by (unfold I1, I2; cbn; ring).
    assert (0 < sqrt 3) by (apply sqrt_lt_R0; lra). field. lra.
Qed.

Lemma mises_tresca_bounds_attained :
  (is_eig (mkT 1 0 0 0 0 0) (0, 0, 1) /\ mises_t (mkT 1 0 0 0 0 0) = tresca_m (0, 0, 1)) /\
  (is_eig (mkT 0 0 0 1 0 0) (-1, 0, 1) /\ tresca_m (-1, 0, 1) = 2 / sqrt 3 * mises_t (mkT 0 0 0 1 0 0)).
Proof. split; [apply mises_eq_tresca_uniaxial|apply tresca_eq_bound_pure_shear]. Qed.

(* ------------------------------------------------------------------ signs *)
Lemma sign_amp_spec w : sign_amp_m w = if Rle_dec 0 (amax3 w + amin3 w) then 1 else -1.
Proof.
  unfold sign_amp_m. cbv zeta. set (x := amax3 w + amin3 w).
  destruct (Rtotal_order x 0) as [H|[H|H]].
  - rewrite sgnR_neg by assumption. destruct (Req_EM_T (-1) 0); [lra|]. destruct (Rle_dec 0 x); lra.
  - rewrite H, sgnR_0. destruct (Req_EM_T 0 0); [|lra]. destruct (Rle_dec 0 0); lra.
  - rewrite sgnR_pos by assumption. destruct (Req_EM_T 1 0); [lra|]. destruct (Rle_dec 0 x); lra.
Qed.

Lemma abs_max_spec w : abs_max_principal_m w = if Rle_dec 0 (amax3 w + amin3 w) then amax3 w else amin3 w.
Proof.
  unfold abs_max_principal_m. cbv zeta. rewrite sign_amp_spec.
  destruct (Rle_dec 0 (amax3 w + amin3 w)).
  - destruct (Rle_dec 0 1); [ring|lra].
  - destruct (Rle_dec 0 (-1)); [lra|ring].
Qed.

(* absolute maximum principal stress = the eigenvalue of largest magnitude, with its sign;
   if a positive and a negative eigenvalue tie in magnitude the positive one is returned *)
Theorem abs_max_principal_is_largest_magnitude w0 w1 w2 : sorted3 (w0, w1, w2) ->
  let r := abs_max_principal_m (w0, w1, w2) in
  (r = w0 \/ r = w2) /\ Rabs r = Rmax (Rmax (Rabs w0) (Rabs w1)) (Rabs w2) /\ (Rabs w0 = Rabs w2 -> r = w2) /\
  sign_amp_m (w0, w1, w2) = (if Rle_dec 0 r then 1 else -1).
Proof.
  intros [Ha Hb]. cbv zeta. rewrite abs_max_spec, sign_amp_spec, amax3_sorted, amin3_sorted by assumption.
  unfold Rmax, Rabs.
  case_dec;
    repeat split; try lra; try (left; lra); try (right; lra); intros; try lra.
Qed.

(* signed variants: magnitude of the unsigned quantity, sign +1 when the indicator is >= 0 (in particular 0), -1 when < 0 *)
Definition pm (ind x : R) : R := if Rle_dec 0 ind then x else - x.

Lemma pm_abs ind x : 0 <= x -> Rabs (pm ind x) = x.
Proof. intros H. unfold pm. destruct (Rle_dec 0 ind); [apply Rabs_pos_eq; assumption|]. rewrite Rabs_Ropp. apply Rabs_pos_eq; assumption. Qed.

Lemma mul_pm ind x : (if Rle_dec 0 ind then 1 else -1) * x = pm ind x.
Proof. unfold pm. destruct (Rle_dec 0 ind); ring. Qed.

Theorem signed_magnitude_and_sign a w :
  (* indicator = trace *)
  signed_mises_trace_t a = pm (I1 a) (mises_t a) /\ Rabs (signed_mises_trace_t a) = mises_t a /\
  signed_tresca_trace_m a w = pm (I1 a) (tresca_m w) /\ Rabs (signed_tresca_trace_m a w) = tresca_m w /\
  (* indicator = largest + smallest principal stress (sign of the absolute maximum principal stress) *)
  signed_mises_amp_m a w = pm (amax3 w + amin3 w) (mises_t a) /\ Rabs (signed_mises_amp_m a w) = mises_t a /\
  signed_tresca_amp_m w = pm (amax3 w + amin3 w) (tresca_m w) /\ Rabs (signed_tresca_amp_m w) = tresca_m w.
Proof.
  pose proof (proj1 (mises_sq_is_invariants a)) as Hm. pose proof (tresca_nonneg w) as Ht.
  assert (E1 : signed_mises_trace_t a = pm (I1 a) (mises_t a)) by (rewrite signed_mises_trace_t_eq, sign_trace_spec; apply mul_pm).
  assert (E2 : signed_tresca_trace_m a w = pm (I1 a) (tresca_m w)) by (unfold signed_tresca_trace_m; rewrite sign_trace_spec; apply mul_pm).
  assert (E3' : signed_mises_amp_m a w = pm (amax3 w + amin3 w) (mises_t a)) by (unfold signed_mises_amp_m; rewrite sign_amp_spec; apply mul_pm).
  assert (E4 : signed_tresca_amp_m w = pm (amax3 w + amin3 w) (tresca_m w)) by (unfold signed_tresca_amp_m; rewrite sign_amp_spec; apply mul_pm).
  rewrite E1, E2, E3', E4. repeat split; try reflexivity; apply pm_abs; assumption.
Qed.

(* pm is "+x for an indicator >= 0 (zero included), -x below" *)
Lemma pm_is_documented_sign ind x : (0 <= ind -> pm ind x = x) /\ (ind < 0 -> pm ind x = - x).
Proof. unfold pm. destruct (Rle_dec 0 ind); split; intros; try reflexivity; lra. Qed.
Lemma sign_functions_are_plus_minus_one a w :
  sign_trace_t a = (if Rle_dec 0 (I1 a) then 1 else -1) /\ sign_amp_m w = (if Rle_dec 0 (amax3 w + amin3 w) then 1 else -1).
Proof. split; [apply sign_trace_spec|apply sign_amp_spec]. Qed.

(* the array/column code path of the generated functions satisfies the same sign law *)
Theorem signed_mises_trace_array_path x11 x22 x33 x12 x13 x23 :
  eqa_signed_mises_trace x11 x22 x33 x12 x13 x23 = pm (x11 + x22 + x33) (eqa_mises x11 x22 x33 x12 x13 x23) /\
  eqa__sign_trace x11 x22 x33 = (if Rle_dec 0 (x11 + x22 + x33) then 1 else -1).
Proof.
  destruct (scalar_and_array_paths_agree x11 x22 x33 x12 x13 x23) as (Hm & Hs & Hsm).
  rewrite Hsm, Hm, Hs. pose proof (signed_magnitude_and_sign (mkT x11 x22 x33 x12 x13 x23) (0, 0, 0)) as (H & _).
  split; [exact H|]. exact (sign_trace_spec (mkT x11 x22 x33 x12 x13 x23)).
Qed.

(* ------------------------------------------------------------------ rotation invariance of everything *)
Lemma sign_trace_rotation_invariant q a : orthogonal q -> sign_trace_t (rotate q a) = sign_trace_t a.
Proof. intros H. rewrite !sign_trace_spec. destruct (I1_I2_I3_rotation_invariant q a H) as (-> & _). reflexivity. Qed.

Theorem equivalent_stresses_rotation_invariant q a w w' :
  orthogonal q -> is_eig a w -> is_eig (rotate q a) w' ->
  mises_t (rotate q a) = mises_t a /\ signed_mises_trace_t (rotate q a) = signed_mises_trace_t a /\
  signed_mises_amp_m (rotate q a) w' = signed_mises_amp_m a w /\
  tresca_m w' = tresca_m w /\ signed_tresca_trace_m (rotate q a) w' = signed_tresca_trace_m a w /\
  signed_tresca_amp_m w' = signed_tresca_amp_m w /\
  max_principal_m w' = max_principal_m w /\ min_principal_m w' = min_principal_m w /\
  abs_max_principal_m w' = abs_max_principal_m w.
Proof.
  intros H Hw Hw'. rewrite (eigenvalues_rotation_invariant q a w w' H Hw Hw').
  unfold signed_mises_amp_m, signed_tresca_trace_m. rewrite !signed_mises_trace_t_eq.
  rewrite (mises_rotation_invariant q a H), (sign_trace_rotation_invariant q a H). repeat split; reflexivity.
Qed.

(* ------------------------------------------------------------------ positive homogeneity *)
Lemma sign_ind_scale c x : 0 < c -> (if Rle_dec 0 (c * x) then 1 else -1) = (if Rle_dec 0 x then 1 else -1).
Proof. intros Hc. destruct (Rle_dec 0 (c * x)), (Rle_dec 0 x); try reflexivity; exfalso; nra. Qed.

Lemma amax3_escale c w : 0 <= c -> amax3 (escale c w) = c * amax3 w.
Proof. intros Hc. destruct w as [[a b] d]. unfold escale, amax3. rewrite !RmaxRmult by assumption. reflexivity. Qed.
Lemma Rmin_scale c a b : 0 <= c -> Rmin (c * a) (c * b) = c * Rmin a b.
Proof.
  intros Hc. unfold Rmin. destruct (Rle_dec a b) as [H|H], (Rle_dec (c * a) (c * b)) as [G|G]; try reflexivity.
  - exfalso. apply G. apply Rmult_le_compat_l; assumption.
  - apply Rle_antisym; [assumption|]. apply Rmult_le_compat_l; lra.
Qed.
Lemma amin3_escale c w : 0 <= c -> amin3 (escale c w) = c * amin3 w.
Proof. intros Hc. destruct w as [[a b] d]. unfold escale, amin3. rewrite !Rmin_scale by assumption. reflexivity. Qed.

Lemma sign_trace_scale c a : 0 < c -> sign_trace_t (tscale c a) = sign_trace_t a.
Proof. intros Hc. rewrite !sign_trace_spec. destruct (I_tscale c a) as (-> & _). apply sign_ind_scale; assumption. Qed.
Lemma sign_amp_escale c w : 0 < c -> sign_amp_m (escale c w) = sign_amp_m w.
Proof.
  intros Hc. rewrite !sign_amp_spec, amax3_escale, amin3_escale by lra.
  replace (c * amax3 w + c * amin3 w) with (c * (amax3 w + amin3 w)) by ring. apply sign_ind_scale; assumption.
Qed.
Lemma tresca_escale c w : 0 <= c -> tresca_m (escale c w) = c * tresca_m w.
Proof. intros Hc. rewrite !tresca_is_max_minus_min, amax3_escale, amin3_escale by assumption. ring. Qed.
Lemma abs_max_escale c w : 0 < c -> abs_max_principal_m (escale c w) = c * abs_max_principal_m w.
Proof.
  intros Hc. rewrite !abs_max_spec, amax3_escale, amin3_escale by lra.
  replace (c * amax3 w + c * amin3 w) with (c * (amax3 w + amin3 w)) by ring.
  destruct (Rle_dec 0 (c * (amax3 w + amin3 w))), (Rle_dec 0 (amax3 w + amin3 w)); try reflexivity; exfalso; nra.
Qed.

Theorem positively_homogeneous c a w w' :
  0 < c -> is_eig a w -> is_eig (tscale c a) w' ->
  mises_t (tscale c a) = c * mises_t a /\ signed_mises_trace_t (tscale c a) = c * signed_mises_trace_t a /\
  signed_mises_amp_m (tscale c a) w' = c * signed_mises_amp_m a w /\
  tresca_m w' = c * tresca_m w /\ signed_tresca_trace_m (tscale c a) w' = c * signed_tresca_trace_m a w /\
  signed_tresca_amp_m w' = c * signed_tresca_amp_m w /\
  max_principal_m w' = c * max_principal_m w /\ min_principal_m w' = c * min_principal_m w /\
  abs_max_principal_m w' = c * abs_max_principal_m w.
Proof.
  intros Hc Hw Hw'. assert (Hc0 : 0 <= c) by lra.
  rewrite (eigenvalues_positively_homogeneous c a w w' Hc0 Hw Hw').
  unfold signed_mises_amp_m, signed_tresca_trace_m, signed_tresca_amp_m, max_principal_m, min_principal_m.
  rewrite !signed_mises_trace_t_eq.
  rewrite (mises_positively_homogeneous c a Hc0), (sign_trace_scale c a Hc), (sign_amp_escale c w Hc),
    (tresca_escale c w Hc0), (amax3_escale c w Hc0), (amin3_escale c w Hc0), (abs_max_escale c w Hc).
  repeat split; ring.
Qed.

(* ------------------------------------------------------------------ the hypotheses are satisfiable *)
(* a non-diagonal tensor with its eigenvalues, and a proper rotation (about e3 by the 3-4-5 angle) *)
Definition ex_a : Tens := mkT 2 2 0 1 0 0.
Definition ex_q : M3 := mkM (3/5) (-4/5) 0 (4/5) (3/5) 0 0 0 1.
Example ex_is_eig : is_eig ex_a (0, 1, 3).
Proof. unfold is_eig, sorted3, roots_of, I1, I2, I3, ex_a. cbn. repeat split; lra. Qed.
Example ex_orthogonal : orthogonal ex_q /\ mdet ex_q = 1.
Proof. unfold orthogonal, ex_q, mmul, mT, mI, mdet. cbn. split; [f_equal|]; lra. Qed.
Example ex_rotated_is_eig : rotate ex_q ex_a = mkT (26/25) (74/25) 0 (-7/25) 0 0 /\ is_eig (rotate ex_q ex_a) (0, 1, 3).
Proof.
  assert (E : rotate ex_q ex_a = mkT (26/25) (74/25) 0 (-7/25) 0 0) by (unfold rotate, conjug, sym, voigt, mmul, mT, ex_q, ex_a; cbn; f_equal; lra).
  split; [exact E|]. rewrite E. unfold is_eig, sorted3, roots_of, I1, I2, I3. cbn. repeat split; lra.
Qed.
(* degenerate cases of the quantifier: zero tensor, hydrostatic, pure shear (zero indicator, sign +1) *)
Example ex_zero : is_eig (mkT 0 0 0 0 0 0) (0, 0, 0) /\ sign_trace_t (mkT 0 0 0 0 0 0) = 1 /\ sign_amp_m (0, 0, 0) = 1.
Proof.
  split; [unfold is_eig, sorted3, roots_of, I1, I2, I3; cbn; repeat split; lra|].
  rewrite sign_trace_spec, sign_amp_spec, amax3_sorted, amin3_sorted by lra. unfold I1. cbn.
  destruct (Rle_dec 0 (0 + 0 + 0)), (Rle_dec 0 (0 + 0)); split; lra.
Qed.
Example ex_pure_shear : is_eig (mkT 0 0 0 1 0 0) (-1, 0, 1) /\ signed_tresca_amp_m (-1, 0, 1) = 2 /\ abs_max_principal_m (-1, 0, 1) = 1.
Proof.
  split; [unfold is_eig, sorted3, roots_of, I1, I2, I3; cbn; repeat split; lra|].
  unfold signed_tresca_amp_m. rewrite sign_amp_spec, abs_max_spec, tresca_sorted by (cbn; lra).
  rewrite amax3_sorted, amin3_sorted by lra.
  destruct (Rle_dec 0 (1 + -1)); split; lra.
Qed.

Lemma hypotheses_satisfiable :
  is_eig ex_a (0, 1, 3) /\ (orthogonal ex_q /\ mdet ex_q = 1) /\
  (rotate ex_q ex_a = mkT (26/25) (74/25) 0 (-7/25) 0 0 /\ is_eig (rotate ex_q ex_a) (0, 1, 3)) /\
  (is_eig (mkT 0 0 0 0 0 0) (0, 0, 0) /\ sign_trace_t (mkT 0 0 0 0 0 0) = 1 /\ sign_amp_m (0, 0, 0) = 1) /\
  (is_eig (mkT 0 0 0 1 0 0) (-1, 0, 1) /\ signed_tresca_amp_m (-1, 0, 1) = 2 /\ abs_max_principal_m (-1, 0, 1) = 1).
Proof. repeat split; first [apply ex_is_eig | apply ex_orthogonal | apply ex_rotated_is_eig | apply ex_zero | apply ex_pure_shear]. Qed.

(* ------------------------------------------------------------------ the same statements for an eigen-solver function *)
Section Contract.
Variable eig : Tens -> E3.                                  (* np.linalg.eigvalsh on the assembled tensor *)
Hypothesis eig_contract : forall a, is_eig a (eig a).       (* ascending, roots of the characteristic polynomial *)

Definition tresca_f a := tresca_m (eig a).
Definition max_principal_f a := max_principal_m (eig a).
Definition min_principal_f a := min_principal_m (eig a).
Definition abs_max_principal_f a := abs_max_principal_m (eig a).
Definition signed_tresca_trace_f a := signed_tresca_trace_m a (eig a).
Definition signed_tresca_amp_f a := signed_tresca_amp_m (eig a).
Definition signed_mises_amp_f a := signed_mises_amp_m a (eig a).

Theorem contract_rotation_invariant q a : orthogonal q ->
  eig (rotate q a) = eig a /\ tresca_f (rotate q a) = tresca_f a /\
  max_principal_f (rotate q a) = max_principal_f a /\ min_principal_f (rotate q a) = min_principal_f a /\
  abs_max_principal_f (rotate q a) = abs_max_principal_f a /\
  signed_tresca_trace_f (rotate q a) = signed_tresca_trace_f a /\ signed_tresca_amp_f (rotate q a) = signed_tresca_amp_f a /\
  signed_mises_amp_f (rotate q a) = signed_mises_amp_f a.
Proof.
  intros H. pose proof (equivalent_stresses_rotation_invariant q a _ _ H (eig_contract a) (eig_contract (rotate q a))) as P.
  split; [exact (eigenvalues_rotation_invariant q a _ _ H (eig_contract a) (eig_contract (rotate q a)))|].
  unfold tresca_f, max_principal_f, min_principal_f, abs_max_principal_f, signed_tresca_trace_f, signed_tresca_amp_f, signed_mises_amp_f.
  tauto.
Qed.

Theorem contract_positively_homogeneous c a : 0 < c ->
  eig (tscale c a) = escale c (eig a) /\ tresca_f (tscale c a) = c * tresca_f a /\
  max_principal_f (tscale c a) = c * max_principal_f a /\ min_principal_f (tscale c a) = c * min_principal_f a /\
  abs_max_principal_f (tscale c a) = c * abs_max_principal_f a /\
  signed_tresca_trace_f (tscale c a) = c * signed_tresca_trace_f a /\ signed_tresca_amp_f (tscale c a) = c * signed_tresca_amp_f a /\
  signed_mises_amp_f (tscale c a) = c * signed_mises_amp_f a.
Proof.
  intros H. pose proof (positively_homogeneous c a _ _ H (eig_contract a) (eig_contract (tscale c a))) as P.
  split; [apply (eigenvalues_positively_homogeneous c a); [lra|apply eig_contract|apply eig_contract]|].
  unfold tresca_f, max_principal_f, min_principal_f, abs_max_principal_f, signed_tresca_trace_f, signed_tresca_amp_f, signed_mises_amp_f.
  tauto.
Qed.

Theorem contract_principal_definitions a :
  let '(w0, w1, w2) := eig a in
  min_principal_f a = w0 /\ max_principal_f a = w2 /\ tresca_f a = w2 - w0 /\
  mises_t a = sqrt (((w0 - w1) ^ 2 + (w1 - w2) ^ 2 + (w2 - w0) ^ 2) / 2) /\
  mises_t a <= tresca_f a <= 2 / sqrt 3 * mises_t a.
Proof.
  unfold min_principal_f, max_principal_f, tresca_f, min_principal_m, max_principal_m.
  pose proof (eig_contract a) as H. pose proof (mises_le_tresca_le_2_over_sqrt3_mises a _ H) as B.
  pose proof (mises_from_principal_differences a _ (proj2 H)) as M.
  destruct (eig a) as [[w0 w1] w2]. destruct H as [[Ha Hb] Hr].
  rewrite amin3_sorted, amax3_sorted by assumption. rewrite (tresca_sorted w0 w1 w2) in * by (split; assumption).
  repeat split; try reflexivity; try exact M; apply B.
Qed.
End Contract.
