(* C14 -- load collectives: derived quantities, from/to <-> range/mean, scale / shift.
   Hand-written model over Q of
     load_collective.py  LoadCollective.{_validate, amplitude, meanstress, upper, lower, R, cycles, scale, shift}
     load_histogram.py   LoadHistogram.{amplitude, meanstress, upper, lower, R, scale, shift}, _FromToMatrix, _RangeMeanMatrix
     abstract_load_collective.py  upper / lower
   Tied to the code by the correspondence check of harness/props/c14.py (vm_compute of these definitions). *)
From Coq Require Import QArith Qabs Qminmax List Bool Lqa Lia.
Import ListNotations.
Open Scope Q_scope.

(* ---------------------------------------------------------------- helpers *)
Definition Qltb (x y : Q) : bool := negb (Qle_bool y x).

Lemma Qltb_lt x y : Qltb x y = true <-> x < y.
Proof.
  unfold Qltb. rewrite negb_true_iff. split; intro H.
  - apply Qnot_le_lt. intro L. apply Qle_bool_iff in L. congruence.
  - destruct (Qle_bool y x) eqn:E; [|reflexivity]. apply Qle_bool_iff in E. lra.
Qed.

Lemma Qltb_ge x y : Qltb x y = false <-> y <= x.
Proof.
  unfold Qltb. rewrite negb_false_iff. apply Qle_bool_iff.
Qed.

Ltac qminmax :=
  repeat match goal with
         | |- context [Qmax ?a ?b] => let H := fresh in let m := fresh "m" in
             pose proof (Q.max_spec a b) as H; set (m := Qmax a b) in *; clearbody m
         | |- context [Qmin ?a ?b] => let H := fresh in let m := fresh "m" in
             pose proof (Q.min_spec a b) as H; set (m := Qmin a b) in *; clearbody m
         | H0 : context [Qmax ?a ?b] |- _ => let H := fresh in let m := fresh "m" in
             pose proof (Q.max_spec a b) as H; set (m := Qmax a b) in *; clearbody m
         | H0 : context [Qmin ?a ?b] |- _ => let H := fresh in let m := fresh "m" in
             pose proof (Q.min_spec a b) as H; set (m := Qmin a b) in *; clearbody m
         end.

Ltac qdiv2 := unfold Qdiv in *; change (/ 2) with (1 # 2) in *.

Ltac qabs :=
  repeat match goal with
         | |- context [Qabs ?a] => let H := fresh in let m := fresh "m" in
             assert (H : (0 <= a /\ Qabs a == a) \/ (a <= 0 /\ Qabs a == - a))
               by (destruct (Qlt_le_dec a 0); [right; split; [lra | apply Qabs_neg; lra] | left; split; [lra | apply Qabs_pos; lra]]);
             set (m := Qabs a) in *; clearbody m
         end.

(* ---------------------------------------------------------------- one hysteresis loop of a collective *)
Record loop := mkloop { lfrom : Q; lto : Q; lcyc : option Q }.

(* LoadCollective.cycles: the column if present, else 1.0 for every member *)
Definition cycles (c : loop) : Q := match lcyc c with Some n => n | None => 1 end.

Definition amplitude (c : loop) : Q := Qabs (lfrom c - lto c) / 2.      (* np.abs(fr-to) / 2. *)
Definition meanstress (c : loop) : Q := (lfrom c + lto c) / 2.          (* (fr+to)/2. *)
Definition upper (c : loop) : Q := Qmax (lfrom c) (lto c).              (* [['from','to']].max(axis=1) *)
Definition lower (c : loop) : Q := Qmin (lfrom c) (lto c).

(* lower / upper with pandas' fillna(0.0): 0/0 = NaN -> 0;  x/0 (x <> 0) is +-inf: modelled as None *)
Definition ratio (lo up : Q) : option Q :=
  if Qeq_bool up 0 then (if Qeq_bool lo 0 then Some 0 else None) else Some (lo / up).
Definition Rvalue (c : loop) : option Q := ratio (lower c) (upper c).

(* LoadCollective._validate for 'range'/'mean' frames *)
Definition of_range_mean (rng mean : Q) (cyc : option Q) : loop :=
  mkloop (mean - rng / 2) (mean + rng / 2) cyc.

Definition scale (f : Q) (c : loop) : loop := mkloop (lfrom c * f) (lto c * f) (lcyc c).
Definition shift (d : Q) (c : loop) : loop := mkloop (lfrom c + d) (lto c + d) (lcyc c).

(* ---------------------------------------------------------------- theorems: collective *)
Lemma ratio_spec lo up :
  match ratio lo up with
  | Some r => (~ up == 0 -> r * up == lo) /\ (up == 0 -> lo == 0 /\ r == 0)
  | None => up == 0 /\ ~ lo == 0
  end.
Proof.
  unfold ratio. destruct (Qeq_bool up 0) eqn:Eu.
  - apply Qeq_bool_iff in Eu. destruct (Qeq_bool lo 0) eqn:El.
    + apply Qeq_bool_iff in El. split; [intro H; contradiction|]. intros _. split; [exact El|reflexivity].
    + split; [exact Eu|]. intro H. apply Qeq_bool_iff in H. congruence.
  - assert (Hu : ~ up == 0) by (intro H; apply Qeq_bool_iff in H; congruence).
    split; [|intro H; contradiction]. intros _. field. exact Hu.
Qed.

Theorem accessor_consistency c :
  upper c - lower c == 2 * amplitude c /\
  (upper c + lower c) / 2 == meanstress c /\
  lower c <= upper c /\ 0 <= amplitude c /\
  upper c == meanstress c + amplitude c /\ lower c == meanstress c - amplitude c /\
  match Rvalue c with
  | Some r => (~ upper c == 0 -> r * upper c == lower c) /\ (upper c == 0 -> lower c == 0 /\ r == 0)
  | None => upper c == 0 /\ ~ lower c == 0
  end.
Proof.
  do 6 (split; [unfold upper, lower, amplitude, meanstress; qdiv2; qabs; qminmax; lra|]).
  apply ratio_spec.
Qed.

(* from/to -> range/mean -> from/to gives the same loop up to orientation; range/mean -> from/to -> range/mean is the identity *)
Theorem from_to_equiv_range_mean c :
  let c' := of_range_mean (2 * amplitude c) (meanstress c) (lcyc c) in
  amplitude c' == amplitude c /\ meanstress c' == meanstress c /\
  upper c' == upper c /\ lower c' == lower c /\ cycles c' = cycles c /\
  lfrom c' == lower c /\ lto c' == upper c.
Proof.
  cbv zeta. unfold of_range_mean, upper, lower, amplitude, meanstress, cycles; cbn [lfrom lto lcyc]; qdiv2.
  split; [qabs; qminmax; lra|]. split; [qabs; qminmax; lra|]. split; [qabs; qminmax; lra|].
  split; [qabs; qminmax; lra|]. split; [reflexivity|]. split; qabs; qminmax; lra.
Qed.

Theorem range_mean_roundtrip rng mean cyc :
  let c := of_range_mean rng mean cyc in
  2 * amplitude c == Qabs rng /\ meanstress c == mean /\ cycles c = match cyc with Some n => n | None => 1 end /\
  (0 <= rng -> lfrom c == lower c /\ lto c == upper c).
Proof.
  cbv zeta. unfold of_range_mean, upper, lower, amplitude, meanstress, cycles; cbn [lfrom lto lcyc]; qdiv2.
  split; [qabs; lra|]. split; [lra|]. split; [reflexivity|]. intro Hr. split; qminmax; lra.
Qed.

Lemma Qabs_mult_l f x : Qabs (x * f) == Qabs f * Qabs x.
Proof. rewrite Qabs_Qmult. ring. Qed.

Theorem scale_keeps_cycles f c :
  cycles (scale f c) = cycles c /\ lcyc (scale f c) = lcyc c /\
  amplitude (scale f c) == Qabs f * amplitude c /\
  meanstress (scale f c) == f * meanstress c /\
  (0 <= f -> upper (scale f c) == f * upper c /\ lower (scale f c) == f * lower c) /\
  (f <= 0 -> upper (scale f c) == f * lower c /\ lower (scale f c) == f * upper c).
Proof.
  unfold scale, cycles, amplitude, meanstress; cbn [lfrom lto lcyc].
  split; [reflexivity|]. split; [reflexivity|]. split.
  { setoid_replace (lfrom c * f - lto c * f) with ((lfrom c - lto c) * f) by ring.
    rewrite Qabs_mult_l. field. }
  split; [field|].
  unfold upper, lower; cbn [lfrom lto lcyc].
  split; intro Hf.
  - destruct (Qlt_le_dec (lfrom c) (lto c)) as [L|L].
    + assert (lfrom c * f <= lto c * f) by (apply Qmult_le_compat_r; lra).
      split; qminmax; nra.
    + assert (lto c * f <= lfrom c * f) by (apply Qmult_le_compat_r; lra).
      split; qminmax; nra.
  - destruct (Qlt_le_dec (lfrom c) (lto c)) as [L|L].
    + assert (lto c * f <= lfrom c * f) by nra.
      split; qminmax; nra.
    + assert (lfrom c * f <= lto c * f) by nra.
      split; qminmax; nra.
Qed.

Theorem shift_keeps_cycles d c :
  cycles (shift d c) = cycles c /\ lcyc (shift d c) = lcyc c /\
  amplitude (shift d c) == amplitude c /\
  meanstress (shift d c) == meanstress c + d /\
  upper (shift d c) == upper c + d /\ lower (shift d c) == lower c + d.
Proof.
  unfold shift, cycles, amplitude, meanstress, upper, lower; cbn [lfrom lto lcyc].
  split; [reflexivity|]. split; [reflexivity|]. split.
  { setoid_replace (lfrom c + d - (lto c + d)) with (lfrom c - lto c) by ring. reflexivity. }
  split; [field|]. split; qminmax; lra.
Qed.

(* whole collectives (lists of loops): the cycle column is untouched *)
Theorem scale_shift_keep_cycles (f d : Q) (l : list loop) :
  map cycles (map (scale f) l) = map cycles l /\ map cycles (map (shift d) l) = map cycles l /\
  length (map (scale f) l) = length l /\ length (map (shift d) l) = length l.
Proof.
  repeat split; rewrite ?map_map, ?map_length; try reflexivity.
Qed.

(* ---------------------------------------------------------------- load histograms (classes instead of loops) *)
Definition ivl := (Q * Q)%type.      (* (left, right] *)
Inductive location := LMid | LLeft | LRight.
Definition at_loc (loc : location) (i : ivl) : Q :=
  match loc with LMid => (fst i + snd i) / 2 | LLeft => fst i | LRight => snd i end.

(* a class of a from/to matrix or of a range/mean matrix (mean level optional) *)
Inductive hclass :=
| FromTo (fr to : ivl)
| RangeMean (rng : ivl) (mean : option ivl).

Definition h_amplitude loc (k : hclass) : Q :=
  match k with
  | FromTo fr to => Qabs (at_loc loc fr - at_loc loc to) / 2
  | RangeMean r _ => at_loc loc r / 2
  end.
Definition h_meanstress loc (k : hclass) : Q :=
  match k with
  | FromTo fr to => (at_loc loc fr + at_loc loc to) / 2
  | RangeMean _ (Some m) => at_loc loc m
  | RangeMean _ None => 0
  end.
Definition h_upper loc k := h_meanstress loc k + h_amplitude loc k.
Definition h_lower loc k := h_meanstress loc k - h_amplitude loc k.
Definition h_R loc k := ratio (h_lower loc k) (h_upper loc k).

Definition ivl_map (g : Q -> Q) (i : ivl) : ivl := (g (fst i), g (snd i)).
(* LoadHistogram._shift_or_scale: scale transforms every class level, shift skips the 'range' level *)
Definition h_scale (f : Q) (k : hclass) : hclass :=
  match k with
  | FromTo fr to => FromTo (ivl_map (fun x => x * f) fr) (ivl_map (fun x => x * f) to)
  | RangeMean r m => RangeMean (ivl_map (fun x => x * f) r) (option_map (ivl_map (fun x => x * f)) m)
  end.
Definition h_shift (d : Q) (k : hclass) : hclass :=
  match k with
  | FromTo fr to => FromTo (ivl_map (fun x => x + d) fr) (ivl_map (fun x => x + d) to)
  | RangeMean r m => RangeMean r (option_map (ivl_map (fun x => x + d)) m)
  end.

Theorem histogram_accessor_consistency loc k :
  h_upper loc k - h_lower loc k == 2 * h_amplitude loc k /\
  (h_upper loc k + h_lower loc k) / 2 == h_meanstress loc k /\
  match h_R loc k with
  | Some r => (~ h_upper loc k == 0 -> r * h_upper loc k == h_lower loc k) /\ (h_upper loc k == 0 -> h_lower loc k == 0 /\ r == 0)
  | None => h_upper loc k == 0 /\ ~ h_lower loc k == 0
  end.
Proof.
  split; [unfold h_upper, h_lower; qdiv2; lra|]. split; [unfold h_upper, h_lower; qdiv2; lra|]. apply ratio_spec.
Qed.

Lemma at_loc_scale loc f i : at_loc loc (ivl_map (fun x => x * f) i) == f * at_loc loc i.
Proof. destruct loc; unfold at_loc, ivl_map; cbn [fst snd]; field. Qed.
Lemma at_loc_shift loc d i : at_loc loc (ivl_map (fun x => x + d) i) == at_loc loc i + d.
Proof. destruct loc; unfold at_loc, ivl_map; cbn [fst snd]; field. Qed.

Theorem histogram_scale loc f k : 0 <= f ->
  h_amplitude loc (h_scale f k) == f * h_amplitude loc k /\ h_meanstress loc (h_scale f k) == f * h_meanstress loc k.
Proof.
  intro Hf. destruct k as [fr to|r [m|]]; cbn [h_amplitude h_meanstress h_scale option_map]; rewrite ?at_loc_scale.
  - split; [|field].
    setoid_replace (f * at_loc loc fr - f * at_loc loc to) with ((at_loc loc fr - at_loc loc to) * f) by ring.
    rewrite Qabs_mult_l. rewrite (Qabs_pos f Hf). field.
  - split; [field|reflexivity].
  - split; [field|ring].
Qed.

(* a shift moves the mean and leaves the amplitude alone -- for the range/mean matrix this is why 'range' is skipped *)
Theorem histogram_shift loc d k :
  h_amplitude loc (h_shift d k) == h_amplitude loc k /\
  h_meanstress loc (h_shift d k) == h_meanstress loc k + match k with RangeMean _ None => 0 | _ => d end.
Proof.
  destruct k as [fr to|r [m|]]; cbn [h_amplitude h_meanstress h_shift option_map]; rewrite ?at_loc_shift.
  - split; [|field].
    setoid_replace (at_loc loc fr + d - (at_loc loc to + d)) with (at_loc loc fr - at_loc loc to) by ring. reflexivity.
  - split; [reflexivity|reflexivity].
  - split; [reflexivity|ring].
Qed.

(* non-vacuity *)
Example collective_example :
  let c := mkloop 3 (-1) (Some 5) in
  (amplitude c == 2 /\ meanstress c == 1 /\ upper c == 3 /\ lower c == -1 /\ cycles c == 5) /\
  Rvalue c = Some ((-1) / 3) /\ Rvalue (mkloop 0 0 None) = Some 0 /\ Rvalue (mkloop (-1) 0 None) = None.
Proof. vm_compute. repeat split; intro; discriminate. Qed.
