(* C14 -- utils/histogram.py: rebin_histogram / _do_rebin_histogram (overlap-proportional redistribution),
   _fail_if_binning_invalid, combine_histogram (method 'sum').  Model over Q, intervals are right-closed (l, r]
   (pandas' default for interval_range / from_breaks). *)
From Coq Require Import QArith Qabs Qminmax List Bool Lqa Lia.
From PL Require Import Stress.Collective Stress.Histogram.
Import ListNotations.
Open Scope Q_scope.

Definition hist := list (ivl * Q).

Definition ilen (i : ivl) : Q := snd i - fst i.

(* pandas Interval.overlaps for two right-closed intervals: touching end points do not overlap *)
Definition overlaps (a b : ivl) : bool := Qltb (fst a) (snd b) && Qltb (fst b) (snd a).

(* interval_overlap(reference_interval, test_interval) *)
Definition interval_overlap (ref test : ivl) : Q :=
  (Qmin (snd ref) (snd test) - Qmax (fst ref) (fst test)) / ilen test.

(* aggregate_hist(interval): [d] is default_value *)
Definition aggregate (d : Q) (h : hist) (t : ivl) : Q :=
  match filter (fun s => overlaps (fst s) t) h with
  | [] => d
  | occ => Qsum (map (fun s => snd s * interval_overlap t (fst s)) occ)
  end.

(* _do_rebin_histogram after validation: an empty histogram gives zeros (also with nan_default) *)
Definition rebin (d : Q) (h : hist) (b : list ivl) : hist :=
  match h with
  | [] => map (fun t => (t, 0)) b
  | _ => map (fun t => (t, aggregate d h t)) b
  end.

(* pd.IntervalIndex.from_breaks / interval_range *)
Fixpoint from_breaks (edges : list Q) : list ivl :=
  match edges with
  | a :: ((b :: _) as r) => (a, b) :: from_breaks r
  | _ => []
  end.

(* binning given as an int: interval_range(min left, max right, n) *)
Definition Qmin_list (d : Q) (l : list Q) : Q := match l with [] => d | a :: r => fold_left Qmin r a end.
Definition Qmax_list (d : Q) (l : list Q) : Q := match l with [] => d | a :: r => fold_left Qmax r a end.
Definition binning_of_n_bins (h : hist) (n : nat) : list ivl :=
  match h with
  | [] => []
  | _ => from_breaks (linspace (Qmin_list 0 (map (fun s => fst (fst s)) h)) (Qmax_list 0 (map (fun s => snd (fst s)) h)) n)
  end.

(* ---------------------------------------------------------------- _fail_if_binning_invalid *)
Fixpoint adjacent_all {A} (R : A -> A -> bool) (l : list A) : bool :=
  match l with
  | a :: ((b :: _) as r) => R a b && adjacent_all R r
  | _ => true
  end.

(* IntervalIndex.is_monotonic_decreasing: non-increasing in the lexicographic order of (left, right) *)
Definition lex_ge (a b : ivl) : bool := Qltb (fst b) (fst a) || (Qeq_bool (fst a) (fst b) && Qle_bool (snd b) (snd a)).
Definition mono_decreasing (b : list ivl) : bool := adjacent_all lex_ge b.
(* IntervalIndex.is_non_overlapping_monotonic (closed <> 'both') *)
Definition non_overlapping_monotonic (b : list ivl) : bool :=
  adjacent_all (fun a c => Qle_bool (snd a) (fst c)) b || adjacent_all (fun a c => Qle_bool (snd c) (fst a)) b.
Definition has_gaps (b : list ivl) : bool := negb (adjacent_all (fun a c => Qeq_bool (snd a) (fst c)) b).

(* what the code does today: a single interval is "monotonic decreasing", hence refused *)
Definition binning_ok_current (b : list ivl) : bool :=
  negb (negb (is_nil b) && (negb (non_overlapping_monotonic b) || mono_decreasing b)) && negb (has_gaps b).
(* what the property demands ('a single bin' is a bin specification): direction only matters from two classes on *)
Definition binning_ok (b : list ivl) : bool :=
  negb (negb (is_nil b) && (negb (non_overlapping_monotonic b) || (mono_decreasing b && (2 <=? length b)%nat)))
  && negb (has_gaps b).

Definition rebin_checked_current d h b := if binning_ok_current b then Some (rebin d h b) else None.
Definition rebin_checked d h b := if binning_ok b then Some (rebin d h b) else None.

(* ---------------------------------------------------------------- strict sortedness of break points *)
Fixpoint ssortedb (edges : list Q) : bool :=
  match edges with
  | a :: ((b :: _) as r) => Qltb a b && ssortedb r
  | _ => true
  end.

Lemma ssortedb_cons a b t : ssortedb (a :: b :: t) = true -> a < b /\ ssortedb (b :: t) = true.
Proof. simpl. intro H. apply andb_true_iff in H. destruct H as [H1 H2]. apply Qltb_lt in H1. split; assumption. Qed.

Lemma ssortedb_sortedb edges : ssortedb edges = true -> sortedb edges = true.
Proof.
  induction edges as [|a [|b t] IH]; intro H; try reflexivity.
  apply ssortedb_cons in H. destruct H as [Hab Hs].
  change (sortedb (a :: b :: t)) with (Qle_bool a b && sortedb (b :: t)).
  rewrite (IH Hs), andb_true_r. apply Qle_bool_iff. lra.
Qed.

Lemma from_breaks_cons a b t : from_breaks (a :: b :: t) = (a, b) :: from_breaks (b :: t).
Proof. reflexivity. Qed.

Lemma from_breaks_le edges : sortedb edges = true -> Forall (fun b => fst b <= snd b) (from_breaks edges).
Proof.
  induction edges as [|a [|b t] IH]; intro H; try constructor.
  - apply sortedb_cons in H. simpl. tauto.
  - apply IH. apply sortedb_cons in H. tauto.
Qed.

Lemma from_breaks_pos edges : ssortedb edges = true -> Forall (fun b => 0 < ilen b) (from_breaks edges).
Proof.
  induction edges as [|a [|b t] IH]; intro H; try constructor.
  - apply ssortedb_cons in H. unfold ilen. simpl. lra.
  - apply IH. apply ssortedb_cons in H. tauto.
Qed.

(* ---------------------------------------------------------------- clipped overlap and its telescoping *)
Definition clip (a b : ivl) : Q := Qmax 0 (Qmin (snd a) (snd b) - Qmax (fst a) (fst b)).

Lemma clip_split l m r u : l <= m -> m <= r -> clip (l, m) u + clip (m, r) u == clip (l, r) u.
Proof.
  intros H1 H2. unfold clip. cbn [fst snd].
  qminmax.
  repeat match goal with H : _ \/ _ |- _ => destruct H as [[? ?]|[? ?]] end; lra.
Qed.

Lemma clip_degenerate a u : clip (a, a) u == 0.
Proof. unfold clip. cbn [fst snd]. qminmax. repeat match goal with H : _ \/ _ |- _ => destruct H as [[? ?]|[? ?]] end; lra. Qed.

Lemma clip_chain a t u : sortedb (a :: t) = true ->
  Qsum (map (fun b => clip b u) (from_breaks (a :: t))) == clip (a, last (a :: t) 0) u.
Proof.
  revert a. induction t as [|b t IH]; intros a Hs.
  - cbn [from_breaks map Qsum fold_right last]. rewrite clip_degenerate. reflexivity.
  - pose proof (sortedb_cons _ _ _ Hs) as [Hab Hs'].
    rewrite from_breaks_cons. cbn [map Qsum fold_right]. change (fold_right Qplus 0) with Qsum.
    rewrite (IH b Hs'). change (last (a :: b :: t) 0) with (last (b :: t) 0).
    apply clip_split; [assumption|]. apply sortedb_hd_le_last. assumption.
Qed.

Lemma clip_inside s u : fst u <= fst s -> snd s <= snd u -> fst s <= snd s -> clip u s == ilen s.
Proof.
  intros. unfold clip, ilen. qminmax. repeat match goal with H : _ \/ _ |- _ => destruct H as [[? ?]|[? ?]] end; lra.
Qed.

Lemma clip_comm a b : clip a b == clip b a.
Proof. unfold clip. qminmax. repeat match goal with H : _ \/ _ |- _ => destruct H as [[? ?]|[? ?]] end; lra. Qed.

(* ---------------------------------------------------------------- aggregate = sum of clipped shares *)
Lemma overlap_share s t : 0 < ilen s -> fst t <= snd t ->
  (if overlaps s t then interval_overlap t s else 0) == clip t s / ilen s.
Proof.
  intros Hs Ht. unfold interval_overlap, overlaps, clip, ilen in *.
  destruct (Qltb (fst s) (snd t)) eqn:E1; destruct (Qltb (fst t) (snd s)) eqn:E2; cbn [andb];
    rewrite ?Qltb_lt, ?Qltb_ge in *.
  - assert (H : Qmax 0 (Qmin (snd t) (snd s) - Qmax (fst t) (fst s)) == Qmin (snd t) (snd s) - Qmax (fst t) (fst s)).
    { qminmax. repeat match goal with H : _ \/ _ |- _ => destruct H as [[? ?]|[? ?]] end; lra. }
    rewrite H. reflexivity.
  - assert (H : Qmax 0 (Qmin (snd t) (snd s) - Qmax (fst t) (fst s)) == 0).
    { qminmax. repeat match goal with H : _ \/ _ |- _ => destruct H as [[? ?]|[? ?]] end; lra. }
    rewrite H. field. lra.
  - assert (H : Qmax 0 (Qmin (snd t) (snd s) - Qmax (fst t) (fst s)) == 0).
    { qminmax. repeat match goal with H : _ \/ _ |- _ => destruct H as [[? ?]|[? ?]] end; lra. }
    rewrite H. field. lra.
  - assert (H : Qmax 0 (Qmin (snd t) (snd s) - Qmax (fst t) (fst s)) == 0).
    { qminmax. repeat match goal with H : _ \/ _ |- _ => destruct H as [[? ?]|[? ?]] end; lra. }
    rewrite H. field. lra.
Qed.

Definition share (t : ivl) (s : ivl * Q) : Q := snd s * (clip t (fst s) / ilen (fst s)).

Lemma aggregate_filter h t :
  aggregate 0 h t == Qsum (map (fun s => snd s * interval_overlap t (fst s)) (filter (fun s => overlaps (fst s) t) h)).
Proof. unfold aggregate. destruct (filter _ h); reflexivity. Qed.

Lemma aggregate_clip h t :
  Forall (fun s => 0 < ilen (fst s)) h -> fst t <= snd t ->
  aggregate 0 h t == Qsum (map (share t) h).
Proof.
  intros Hh Ht. rewrite aggregate_filter.
  induction h as [|s h IH]; [reflexivity|].
  inversion Hh as [|? ? Hs Hh']; subst. specialize (IH Hh').
  pose proof (overlap_share (fst s) t Hs Ht) as Ho.
  cbn [filter map Qsum fold_right]. change (fold_right Qplus 0) with Qsum. unfold share at 1.
  destruct (overlaps (fst s) t).
  - cbn [map Qsum fold_right]. change (fold_right Qplus 0) with Qsum. rewrite IH, Ho. reflexivity.
  - rewrite IH, <- Ho. ring.
Qed.

(* ---------------------------------------------------------------- conservation of the total *)
Definition within (edges : list Q) (s : ivl) : Prop := hd_edge edges <= fst s /\ snd s <= last_edge edges.

Lemma Qsum_zeros {A} (l : list A) : Qsum (map (fun _ => 0) l) == 0.
Proof. apply Qsum_map_zero. reflexivity. Qed.

Lemma shares_over_chain edges (s : ivl * Q) :
  sortedb edges = true -> (2 <= length edges)%nat -> 0 < ilen (fst s) -> within edges (fst s) ->
  Qsum (map (fun t => share t s) (from_breaks edges)) == snd s.
Proof.
  intros Hs Hl Hp [Hlo Hhi]. unfold share.
  rewrite (Qsum_map_ext _ (fun t => (snd s / ilen (fst s)) * clip t (fst s))).
  2:{ intros t _. field. lra. }
  rewrite Qsum_map_scal.
  destruct edges as [|a t]; [simpl in Hl; lia|].
  rewrite clip_chain by assumption.
  unfold hd_edge, last_edge in *. cbn [hd] in Hlo.
  rewrite clip_inside; cbn [fst snd]; try assumption; [field; lra|unfold ilen in Hp; lra].
Qed.

Theorem rebin_conserves_total (h : hist) (edges : list Q) :
  Forall (fun s => 0 < ilen (fst s)) h ->
  sortedb edges = true -> (2 <= length edges)%nat ->
  Forall (fun s => within edges (fst s)) h ->
  Qsum (map snd (rebin 0 h (from_breaks edges))) == Qsum (map snd h).
Proof.
  intros Hp Hs Hl Hw.
  destruct h as [|s0 h0]; [cbn [rebin]; rewrite map_map; cbn [snd]; apply Qsum_zeros|].
  set (h := s0 :: h0) in *. unfold rebin. fold h. change (match h with [] => _ | _ => ?x end) with x.
  rewrite map_map. cbn [snd].
  rewrite (Qsum_map_ext _ (fun t => Qsum (map (share t) h))).
  2:{ intros t Ht. apply aggregate_clip; [assumption|].
      pose proof (from_breaks_le edges Hs) as Hle. rewrite Forall_forall in Hle. apply Hle. assumption. }
  rewrite (Qsum_swap (fun t s => share t s)).
  apply Qsum_map_ext. intros s Hin.
  rewrite Forall_forall in Hp, Hw.
  apply shares_over_chain; auto.
Qed.

(* ---------------------------------------------------------------- same binning = identity *)
Fixpoint incr (l : list ivl) : Prop :=
  match l with
  | [] => True
  | a :: r => fst a < snd a /\ Forall (fun b => snd a <= fst b) r /\ incr r
  end.

Lemma incr_pos l : incr l -> Forall (fun a => fst a < snd a) l.
Proof. induction l as [|a l IH]; intro H; constructor; simpl in H; tauto. Qed.

Lemma incr_split l1 a l2 : incr (l1 ++ a :: l2) ->
  Forall (fun b => snd b <= fst a) l1 /\ Forall (fun b => snd a <= fst b) l2.
Proof.
  induction l1 as [|x l1 IH]; simpl; intro H.
  - split; [constructor|tauto].
  - destruct H as [Hx [Hf Hi]]. destruct (IH Hi) as [H1 H2]. split; [|assumption].
    constructor; [|assumption]. rewrite Forall_forall in Hf. apply Hf. apply in_or_app. right. left. reflexivity.
Qed.

Lemma clip_disjoint_l t s : snd s <= fst t -> clip t s == 0.
Proof. intro H. unfold clip. qminmax. repeat match goal with H : _ \/ _ |- _ => destruct H as [[? ?]|[? ?]] end; lra. Qed.
Lemma clip_disjoint_r t s : snd t <= fst s -> clip t s == 0.
Proof. intro H. unfold clip. qminmax. repeat match goal with H : _ \/ _ |- _ => destruct H as [[? ?]|[? ?]] end; lra. Qed.

Lemma Forall2_map_same {A B} (P : B -> A -> Prop) (g : A -> B) l : (forall x, In x l -> P (g x) x) -> Forall2 P (map g l) l.
Proof.
  induction l; intro H; constructor; [apply H; left; reflexivity|]. apply IHl. intros; apply H; right; assumption.
Qed.

Theorem rebin_same_binning_identity (h : hist) :
  incr (map fst h) ->
  Forall2 (fun x y => fst x = fst y /\ snd x == snd y) (rebin 0 h (map fst h)) h.
Proof.
  intro Hi. destruct h as [|s0 h0]; [constructor|].
  set (h := s0 :: h0) in *. unfold rebin. fold h. change (match h with [] => _ | _ => ?x end) with x.
  rewrite map_map. apply Forall2_map_same. intros s Hin. cbn [fst snd]. split; [reflexivity|].
  pose proof (incr_pos _ Hi) as Hpos. rewrite Forall_map in Hpos.
  rewrite aggregate_clip.
  2:{ eapply Forall_impl; [|exact Hpos]. intros a Ha. unfold ilen. cbn beta in Ha. lra. }
  2:{ rewrite Forall_forall in Hpos. specialize (Hpos s Hin). cbn beta in Hpos. lra. }
  destruct (in_split _ _ Hin) as [h1 [h2 E]]. rewrite E in Hi |- *.
  rewrite map_app in Hi. cbn [map] in Hi. apply incr_split in Hi. destruct Hi as [H1 H2].
  rewrite map_app, Qsum_app. cbn [map Qsum fold_right]. change (fold_right Qplus 0) with Qsum.
  rewrite (Qsum_map_zero (share (fst s)) h1), (Qsum_map_zero (share (fst s)) h2).
  - unfold share. rewrite clip_inside; try lra.
    + field. rewrite Forall_forall in Hpos. specialize (Hpos s Hin). cbn beta in Hpos. unfold ilen. lra.
    + rewrite Forall_forall in Hpos. specialize (Hpos s Hin). cbn beta in Hpos. lra.
  - intros x Hx. unfold share. rewrite clip_disjoint_r; [field|].
    + assert (Hx' : In x h) by (rewrite E; apply in_or_app; right; right; assumption).
      rewrite Forall_forall in Hpos. specialize (Hpos x Hx'). cbn beta in Hpos. unfold ilen. lra.
    + rewrite Forall_map, Forall_forall in H2. apply H2. assumption.
  - intros x Hx. unfold share. rewrite clip_disjoint_l; [field|].
    + assert (Hx' : In x h) by (rewrite E; apply in_or_app; left; assumption).
      rewrite Forall_forall in Hpos. specialize (Hpos x Hx'). cbn beta in Hpos. unfold ilen. lra.
    + rewrite Forall_map, Forall_forall in H1. apply H1. assumption.
Qed.

(* a chain of strictly increasing break points is such an increasing binning *)
Lemma from_breaks_fst_ge a t : sortedb (a :: t) = true -> Forall (fun b => a <= fst b) (from_breaks (a :: t)).
Proof.
  revert a. induction t as [|b t IH]; intros a Hs; [constructor|].
  pose proof (sortedb_cons _ _ _ Hs) as [Hab Hs'].
  rewrite from_breaks_cons. constructor; [cbn [fst]; lra|].
  eapply Forall_impl; [|apply (IH b Hs')]. intros x Hx. cbn beta in *. lra.
Qed.

Lemma incr_from_breaks edges : ssortedb edges = true -> incr (from_breaks edges).
Proof.
  induction edges as [|a [|b t] IH]; intro H; try exact I.
  pose proof (ssortedb_cons _ _ _ H) as [Hab Hs].
  rewrite from_breaks_cons. cbn [incr fst snd]. split; [assumption|]. split; [|apply IH; assumption].
  apply from_breaks_fst_ge. apply ssortedb_sortedb. assumption.
Qed.

(* ---------------------------------------------------------------- composition through a refinement *)
(* every class of the intermediate binning lies inside the source class or beside it *)
Definition aligned (E : list Q) (s : ivl) : Prop :=
  Forall (fun b => (fst s <= fst b /\ snd b <= snd s) \/ snd b <= fst s \/ snd s <= fst b) (from_breaks E).

Definition cap (t s : ivl) : ivl := (Qmax (fst t) (fst s), Qmin (snd t) (snd s)).

Lemma clip_cap b t s : clip b (cap t s) == Qmax 0 (Qmin (snd b) (Qmin (snd t) (snd s)) - Qmax (fst b) (Qmax (fst t) (fst s))).
Proof. reflexivity. Qed.

Lemma refine_term b t s :
  0 < ilen b -> (fst s <= fst b /\ snd b <= snd s) \/ snd b <= fst s \/ snd s <= fst b ->
  clip b s * (clip t b / ilen b) == clip b (cap t s).
Proof.
  intros Hb Hal. unfold ilen in Hb.
  destruct Hal as [[H1 H2]|Hd].
  - rewrite (clip_comm b s), (clip_inside b s) by lra.
    assert (E : clip b (cap t s) == clip t b).
    { unfold clip, cap. cbn [fst snd]. qminmax.
      repeat match goal with H : _ \/ _ |- _ => destruct H as [[? ?]|[? ?]] end; lra. }
    rewrite E. field. unfold ilen. lra.
  - assert (E1 : clip b s == 0) by (destruct Hd; [apply clip_disjoint_r|apply clip_disjoint_l]; assumption).
    assert (E2 : clip b (cap t s) == 0).
    { unfold clip, cap. cbn [fst snd]. qminmax.
      destruct Hd; repeat match goal with H : _ \/ _ |- _ => destruct H as [[? ?]|[? ?]] end; lra. }
    rewrite E1, E2. field. unfold ilen. lra.
Qed.

Lemma clip_cap_within a L t s : a <= fst s -> snd s <= L -> clip (a, L) (cap t s) == clip t s.
Proof.
  intros. unfold clip, cap. cbn [fst snd]. qminmax.
  repeat match goal with H : _ \/ _ |- _ => destruct H as [[? ?]|[? ?]] end; lra.
Qed.

Theorem rebin_composes_through_refinement (h : hist) (E1 : list Q) (t : ivl) :
  ssortedb E1 = true -> (2 <= length E1)%nat ->
  Forall (fun s => 0 < ilen (fst s) /\ within E1 (fst s) /\ aligned E1 (fst s)) h ->
  fst t <= snd t ->
  aggregate 0 (rebin 0 h (from_breaks E1)) t == aggregate 0 h t.
Proof.
  intros Hss Hl Hh Ht.
  pose proof (ssortedb_sortedb _ Hss) as Hs.
  pose proof (from_breaks_pos _ Hss) as Hpos.
  pose proof (from_breaks_le _ Hs) as Hle.
  assert (Hhp : Forall (fun s => 0 < ilen (fst s)) h) by (eapply Forall_impl; [|exact Hh]; cbn beta; tauto).
  destruct h as [|s0 h0].
  - cbn [rebin]. rewrite aggregate_clip; [|rewrite Forall_map; exact Hpos|assumption].
    rewrite map_map. unfold share. cbn [fst snd].
    rewrite Qsum_map_zero; [reflexivity|]. intros x Hx. rewrite Forall_forall in Hpos. specialize (Hpos x Hx).
    field. lra.
  - set (h := s0 :: h0) in *. unfold rebin. fold h. change (match h with [] => _ | _ => ?x end) with x.
    rewrite aggregate_clip; [|rewrite Forall_map; exact Hpos|assumption].
    rewrite (aggregate_clip h t) by assumption.
    rewrite map_map. unfold share at 1. cbn [fst snd].
    (* sum over b of (sum over s of share b s) * clip t b / |b| *)
    rewrite (Qsum_map_ext _ (fun b => Qsum (map (fun s => (snd s / ilen (fst s)) * (clip b (fst s) * (clip t b / ilen b))) h))).
    2:{ intros b Hb. rewrite aggregate_clip; [|assumption|rewrite Forall_forall in Hle; apply Hle; assumption].
        rewrite Qmult_comm, <- Qsum_map_scal. apply Qsum_map_ext. intros s Hin. unfold share.
        rewrite Forall_forall in Hhp, Hpos. specialize (Hhp s Hin). specialize (Hpos b Hb). field. lra. }
    rewrite (Qsum_swap (fun b s => (snd s / ilen (fst s)) * (clip b (fst s) * (clip t b / ilen b)))).
    apply Qsum_map_ext. intros s Hin.
    rewrite Forall_forall in Hh. destruct (Hh s Hin) as [Hsp [[Hlo Hhi] Hal]].
    rewrite Qsum_map_scal.
    rewrite (Qsum_map_ext _ (fun b => clip b (cap t (fst s)))).
    2:{ intros b Hb. apply refine_term.
        - rewrite Forall_forall in Hpos. apply Hpos. assumption.
        - unfold aligned in Hal. rewrite Forall_forall in Hal. apply Hal. assumption. }
    destruct E1 as [|a r]; [simpl in Hl; lia|].
    rewrite clip_chain by assumption.
    unfold hd_edge, last_edge in *. cbn [hd] in Hlo.
    rewrite clip_cap_within by assumption.
    unfold share. field. lra.
Qed.

(* decidable form of the side conditions, for examples and for the harness *)
Definition alignedb (E : list Q) (s : ivl) : bool :=
  forallb (fun b => (Qle_bool (fst s) (fst b) && Qle_bool (snd b) (snd s)) || Qle_bool (snd b) (fst s) || Qle_bool (snd s) (fst b))
          (from_breaks E).
Definition withinb (E : list Q) (s : ivl) : bool := Qle_bool (hd_edge E) (fst s) && Qle_bool (snd s) (last_edge E).
Definition refinesb (E : list Q) (h : hist) : bool :=
  forallb (fun s => Qltb (fst (fst s)) (snd (fst s)) && withinb E (fst s) && alignedb E (fst s)) h.

Lemma refinesb_spec E h : refinesb E h = true ->
  Forall (fun s => 0 < ilen (fst s) /\ within E (fst s) /\ aligned E (fst s)) h.
Proof.
  unfold refinesb. rewrite forallb_forall, Forall_forall. intros H s Hin. specialize (H s Hin).
  apply andb_true_iff in H. destruct H as [H H3]. apply andb_true_iff in H. destruct H as [H1 H2].
  apply Qltb_lt in H1. cbn beta. split; [unfold ilen, ivl in *; lra|]. split.
  - unfold withinb in H2. apply andb_true_iff in H2. destruct H2 as [A B]. apply Qle_bool_iff in A, B. split; assumption.
  - unfold alignedb in H3. rewrite forallb_forall in H3. unfold aligned. rewrite Forall_forall. intros b Hb.
    specialize (H3 b Hb). apply orb_true_iff in H3. destruct H3 as [H3|H3].
    + apply orb_true_iff in H3. destruct H3 as [H3|H3].
      * apply andb_true_iff in H3. destruct H3 as [A B]. apply Qle_bool_iff in A, B. left. split; assumption.
      * apply Qle_bool_iff in H3. right. left. assumption.
    + apply Qle_bool_iff in H3. right. right. assumption.
Qed.

Definition ivl_eqb (a b : ivl) : bool := Qeq_bool (fst a) (fst b) && Qeq_bool (snd a) (snd b).
Definition hist_eqb (a b : hist) : bool :=
  (length a =? length b)%nat &&
  forallb (fun p : (ivl * Q) * (ivl * Q) => ivl_eqb (fst (fst p)) (fst (snd p)) && Qeq_bool (snd (fst p)) (snd (snd p)))
          (combine a b).

(* "composes" is false in general: rebinning through a coarser / shifted binning smears the contents.
   Source (0,1] (1,2] (2,3] (3,4] with 1 2 4 8, to (0,1.5] (1.5,4] directly: 2, 13;
   through (0,0.3] (0.3,3.9] (3.9,4] first: 74/15, 151/15 *)
Theorem rebin_composes_general_refuted :
  exists (h : hist) (E1 E2 : list Q),
    ssortedb E1 = true /\ ssortedb E2 = true /\ binning_ok (from_breaks E1) = true /\ binning_ok (from_breaks E2) = true /\
    Forall (fun s => 0 < ilen (fst s) /\ within E1 (fst s) /\ within E2 (fst s)) h /\
    hist_eqb (rebin 0 (rebin 0 h (from_breaks E1)) (from_breaks E2)) (rebin 0 h (from_breaks E2)) = false.
Proof.
  exists [((0, 1), 1); ((1, 2), 2); ((2, 3), 4); ((3, 4), 8)], [0; 3 # 10; 39 # 10; 4], [0; 3 # 2; 4].
  split; [reflexivity|]. split; [reflexivity|]. split; [reflexivity|]. split; [reflexivity|]. split.
  - repeat constructor; unfold ilen, hd_edge, last_edge; cbn [fst snd hd last]; lra.
  - vm_compute. reflexivity.
Qed.

Example refinement_example :
  let h := [((0, 1), 1); ((1, 2), 2); ((2, 3), 4); ((3, 4), 8)] in
  let E1 := [0; 1 # 2; 1; 2; 11 # 4; 3; 4; 5] in
  refinesb E1 h = true /\ ssortedb E1 = true /\
  hist_eqb (rebin 0 (rebin 0 h (from_breaks E1)) (from_breaks [0; 3 # 2; 4])) (rebin 0 h (from_breaks [0; 3 # 2; 4])) = true.
Proof. vm_compute. repeat split; reflexivity. Qed.

(* ---------------------------------------------------------------- the binning validation *)
Lemma adjacent_from_breaks (R : ivl -> ivl -> bool) edges :
  (forall a b c, R (a, b) (b, c) = true) -> adjacent_all R (from_breaks edges) = true.
Proof.
  intro HR. induction edges as [|a [|b [|c t]] IH]; try reflexivity.
  rewrite from_breaks_cons. rewrite from_breaks_cons in IH |- *.
  cbn [adjacent_all]. rewrite HR. exact IH.
Qed.

Theorem gapfree_increasing_binning_accepted edges :
  ssortedb edges = true -> (2 <= length edges)%nat -> binning_ok (from_breaks edges) = true.
Proof.
  intros Hs Hl. unfold binning_ok, has_gaps, non_overlapping_monotonic.
  rewrite (adjacent_from_breaks (fun a c => Qeq_bool (snd a) (fst c))) by (intros; cbn [fst snd]; apply Qeq_bool_iff; reflexivity).
  rewrite (adjacent_from_breaks (fun a c => Qle_bool (snd a) (fst c))) by (intros; cbn [fst snd]; apply Qle_bool_iff; lra).
  cbn [orb negb andb]. rewrite andb_true_r. rewrite negb_true_iff, andb_false_iff. right.
  destruct edges as [|a [|b [|c t]]]; try (simpl in Hl; lia).
  - reflexivity.
  - apply andb_false_iff. left.
    pose proof (ssortedb_cons _ _ _ Hs) as [Hab Hs'].
    rewrite !from_breaks_cons. unfold mono_decreasing. cbn [adjacent_all]. apply andb_false_iff. left.
    unfold lex_ge. cbn [fst snd]. apply orb_false_iff. split.
    + apply Qltb_ge. lra.
    + apply andb_false_iff. left. destruct (Qeq_bool a b) eqn:E; [|reflexivity]. apply Qeq_bool_iff in E. lra.
Qed.

(* the code as it stands agrees with that from two classes on ... *)
Theorem binning_validation_agrees b : length b <> 1%nat -> binning_ok_current b = binning_ok b.
Proof.
  intro H. unfold binning_ok_current, binning_ok.
  destruct b as [|x [|y t]]; [reflexivity|simpl in H; congruence|].
  replace (2 <=? length (x :: y :: t))%nat with true by reflexivity. rewrite andb_true_r. reflexivity.
Qed.

(* ... and refuses every single-class binning, although it is gap-free, increasing and may cover the histogram *)
Theorem single_class_binning_accepted_refuted :
  exists (h : hist) (edges : list Q),
    ssortedb edges = true /\ (2 <= length edges)%nat /\ Forall (fun s => 0 < ilen (fst s) /\ within edges (fst s)) h /\
    rebin_checked_current 0 h (from_breaks edges) = None /\
    exists r, rebin_checked 0 h (from_breaks edges) = Some r /\ Qsum (map snd r) == Qsum (map snd h).
Proof.
  exists [((0, 1), 10); ((1, 2), 20); ((2, 3), 30); ((3, 4), 40)], [0; 4].
  split; [reflexivity|]. split; [simpl; lia|]. split.
  - repeat constructor; unfold ilen, hd_edge, last_edge; cbn [fst snd hd last]; lra.
  - split; [reflexivity|]. eexists. split; [reflexivity|]. vm_compute. reflexivity.
Qed.

Theorem single_class_always_refused_today (i : ivl) : binning_ok_current [i] = false.
Proof. unfold binning_ok_current, mono_decreasing. cbn [adjacent_all is_nil negb andb orb]. rewrite orb_true_r. reflexivity. Qed.

(* the checked re-binning (validation + redistribution) conserves the total for every gap-free increasing covering binning *)
Theorem rebin_checked_conserves_total (h : hist) (edges : list Q) :
  Forall (fun s => 0 < ilen (fst s)) h ->
  ssortedb edges = true -> (2 <= length edges)%nat ->
  Forall (fun s => within edges (fst s)) h ->
  exists r, rebin_checked 0 h (from_breaks edges) = Some r /\ Qsum (map snd r) == Qsum (map snd h).
Proof.
  intros Hp Hs Hl Hw. unfold rebin_checked. rewrite gapfree_increasing_binning_accepted by assumption.
  eexists. split; [reflexivity|]. apply rebin_conserves_total; try assumption. apply ssortedb_sortedb. assumption.
Qed.

(* restricted to what the code accepts today: at least two classes *)
Theorem rebin_checked_current_conserves_total (h : hist) (edges : list Q) :
  Forall (fun s => 0 < ilen (fst s)) h ->
  ssortedb edges = true -> (3 <= length edges)%nat ->
  Forall (fun s => within edges (fst s)) h ->
  exists r, rebin_checked_current 0 h (from_breaks edges) = Some r /\ Qsum (map snd r) == Qsum (map snd h).
Proof.
  intros Hp Hs Hl Hw. unfold rebin_checked_current. rewrite binning_validation_agrees.
  - apply rebin_checked_conserves_total; try assumption. lia.
  - destruct edges as [|a [|b [|c t]]]; simpl in Hl; try lia. rewrite !from_breaks_cons. simpl. lia.
Qed.

(* ---------------------------------------------------------------- combine_histogram(method='sum') *)
Definition key := list ivl.        (* one interval per histogram dimension *)
Fixpoint key_eqb (a b : key) : bool :=
  match a, b with
  | [], [] => true
  | x :: a', y :: b' => ivl_eqb x y && key_eqb a' b'
  | _, _ => false
  end.

Fixpoint add_to (k : key) (v : Q) (acc : list (key * Q)) : list (key * Q) :=
  match acc with
  | [] => [(k, v)]
  | (k', v') :: r => if key_eqb k k' then (k', v' + v) :: r else (k', v') :: add_to k v r
  end.

Definition combine_sum (hs : list (list (key * Q))) : list (key * Q) :=
  fold_left (fun acc kv => add_to (fst kv) (snd kv) acc) (concat hs) [].

Definition lookup (k : key) (l : list (key * Q)) : Q :=
  Qsum (map (fun kv => if key_eqb k (fst kv) then snd kv else 0) l).

Lemma add_to_sum k v acc : Qsum (map snd (add_to k v acc)) == Qsum (map snd acc) + v.
Proof.
  induction acc as [|[k' v'] r IH]; [simpl; ring|].
  cbn [add_to]. destruct (key_eqb k k'); cbn [map Qsum fold_right snd]; change (fold_right Qplus 0) with Qsum.
  - ring.
  - rewrite IH. ring.
Qed.

Lemma fold_add_sum l acc :
  Qsum (map snd (fold_left (fun acc kv => add_to (fst kv) (snd kv) acc) l acc)) == Qsum (map snd acc) + Qsum (map snd l).
Proof.
  revert acc. induction l as [|kv l IH]; intro acc; [simpl; ring|].
  cbn [fold_left map Qsum fold_right]. change (fold_right Qplus 0) with Qsum.
  rewrite IH, add_to_sum. ring.
Qed.

Theorem combine_conserves_total (hs : list (list (key * Q))) :
  Qsum (map snd (combine_sum hs)) == Qsum (map (fun h => Qsum (map snd h)) hs).
Proof.
  unfold combine_sum. rewrite fold_add_sum. cbn [map Qsum fold_right].
  induction hs as [|h hs IH]; [reflexivity|].
  cbn [concat map Qsum fold_right]. change (fold_right Qplus 0) with Qsum.
  rewrite map_app, Qsum_app. rewrite <- IH. ring.
Qed.

Example combine_example :
  combine_sum [[([(0, 1)], 5); ([(1, 2)], 10)]; [([(1, 2)], 12); ([(2, 3)], 3); ([(3, 4)], 20)]]
  = [([(0, 1)], 5); ([(1, 2)], 10 + 12); ([(2, 3)], 3); ([(3, 4)], 20)].
Proof. reflexivity. Qed.

(* non-vacuity of the hypotheses of the conservation / identity theorems: an irregular covering binning, the own binning *)
Example conservation_example :
  let h := [((0, 1), 10); ((1, 2), 20); ((2, 3), 30); ((3, 4), 40)] in
  let edges := [-1; 3 # 10; 39 # 10; 4; 6] in
  (Forall (fun s => 0 < ilen (fst s)) h /\ ssortedb edges = true /\ Forall (fun s => within edges (fst s)) h) /\
  Qsum (map snd (rebin 0 h (from_breaks edges))) == 100 /\
  incr (map fst h) /\ hist_eqb (rebin 0 h (map fst h)) h = true.
Proof.
  cbv zeta. split; [|split; [vm_compute; reflexivity|split; [|vm_compute; reflexivity]]].
  - split; [|split; [reflexivity|]]; repeat constructor; unfold ilen, hd_edge, last_edge; cbn [fst snd hd last]; lra.
  - cbn [map fst incr]. repeat split; try (cbn [fst snd]; lra); repeat constructor; cbn [fst snd]; lra.
Qed.
