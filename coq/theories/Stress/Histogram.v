(* C14 -- histogramming a collective: numpy.histogram / histogram2d bin assignment
   (half-open classes [e_i, e_i+1), the last class closed), as used by
     load_collective.py  LoadCollective.range_histogram / histogram
     recorders.py        LoopValueRecorder.histogram
   Model over Q; counts are weighted sums (weight = the cycles of the loop, 1 when no cycle column). *)
From Coq Require Import QArith Qabs Qminmax List Bool Lqa Lia Sorted.
From PL Require Import Stress.Collective.
Import ListNotations.
Open Scope Q_scope.

Definition Qsum (l : list Q) : Q := fold_right Qplus 0 l.

Lemma Qsum_app a b : Qsum (a ++ b) == Qsum a + Qsum b.
Proof. induction a; simpl; [ring|]. rewrite IHa. ring. Qed.

Lemma Qsum_map_plus {A} (f g : A -> Q) l : Qsum (map (fun x => f x + g x) l) == Qsum (map f l) + Qsum (map g l).
Proof. induction l; simpl; [ring|]. rewrite IHl. ring. Qed.

Lemma Qsum_map_ext {A} (f g : A -> Q) l : (forall x, In x l -> f x == g x) -> Qsum (map f l) == Qsum (map g l).
Proof.
  induction l; intro H; simpl; [reflexivity|].
  rewrite (H a (or_introl eq_refl)), IHl; [reflexivity|]. intros; apply H; right; assumption.
Qed.

Lemma Qsum_map_scal {A} (k : Q) (f : A -> Q) l : Qsum (map (fun x => k * f x) l) == k * Qsum (map f l).
Proof. induction l; simpl; [ring|]. rewrite IHl. ring. Qed.

Lemma Qsum_map_zero {A} (f : A -> Q) l : (forall x, In x l -> f x == 0) -> Qsum (map f l) == 0.
Proof.
  induction l; intro H; simpl; [reflexivity|].
  rewrite (H a (or_introl eq_refl)), IHl; [ring|]. intros; apply H; right; assumption.
Qed.

(* sum over a list of sums = sum of the sums taken the other way round *)
Lemma Qsum_swap {A B} (f : A -> B -> Q) (la : list A) (lb : list B) :
  Qsum (map (fun a => Qsum (map (fun b => f a b) lb)) la) == Qsum (map (fun b => Qsum (map (fun a => f a b) la)) lb).
Proof.
  induction la; simpl.
  - symmetry. apply Qsum_map_zero. reflexivity.
  - rewrite IHla. rewrite <- Qsum_map_plus. reflexivity.
Qed.

(* ---------------------------------------------------------------- classes from edges *)
(* x lies in the class [lo, hi) -- [lo, hi] if it is the last class *)
Definition in_bin (lo hi : Q) (last : bool) (x : Q) : bool :=
  Qle_bool lo x && (if last then Qle_bool x hi else Qltb x hi).

Definition is_nil {A} (l : list A) : bool := match l with [] => true | _ => false end.

Fixpoint bins_of (edges : list Q) : list (Q * Q * bool) :=
  match edges with
  | a :: ((b :: t) as r) => (a, b, is_nil t) :: bins_of r
  | _ => []
  end.

Definition in_class (k : Q * Q * bool) (x : Q) : bool := let '(lo, hi, last) := k in in_bin lo hi last x.

(* weighted one-dimensional histogram: points are (value, weight) *)
Definition class_count (k : Q * Q * bool) (pts : list (Q * Q)) : Q :=
  Qsum (map (fun p => if in_class k (fst p) then snd p else 0) pts).
Definition hist1 (edges : list Q) (pts : list (Q * Q)) : list Q :=
  map (fun k => class_count k pts) (bins_of edges).

(* two-dimensional: points are (x, y, weight); result row-major like cycles.ravel() *)
Definition class_count2 (kx ky : Q * Q * bool) (pts : list (Q * Q * Q)) : Q :=
  Qsum (map (fun p => if in_class kx (fst (fst p)) && in_class ky (snd (fst p)) then snd p else 0) pts).
Definition hist2 (xedges yedges : list Q) (pts : list (Q * Q * Q)) : list (list Q) :=
  map (fun kx => map (fun ky => class_count2 kx ky pts) (bins_of yedges)) (bins_of xedges).

(* numpy refuses edges that are not monotonically non-decreasing *)
Fixpoint sortedb (edges : list Q) : bool :=
  match edges with
  | a :: ((b :: _) as r) => Qle_bool a b && sortedb r
  | _ => true
  end.

(* the sequence of bin edges pandas/numpy build from an IntervalIndex:  np.append(bins.left[0], bins.right) *)
Definition edges_of_intervals (ivs : list ivl) : list Q :=
  match ivs with [] => [] | i :: _ => fst i :: map snd ivs end.

(* equal-width classes for bins=n:  linspace(lo, hi, n+1), with the degenerate range widened by 1/2 to both sides *)
Definition linspace (lo hi : Q) (n : nat) : list Q :=
  map (fun i => lo + (inject_Z (Z.of_nat i) / inject_Z (Z.of_nat n)) * (hi - lo)) (seq 0 (S n)).
Definition auto_edges (lo hi : Q) (n : nat) : list Q :=
  if Qeq_bool lo hi then linspace (lo - (1#2)) (hi + (1#2)) n else linspace lo hi n.

(* ---------------------------------------------------------------- every value of the covered range lies in exactly one class *)
Definition hd_edge (edges : list Q) : Q := hd 0 edges.
Definition last_edge (edges : list Q) : Q := last edges 0.

Definition covered (edges : list Q) (x : Q) : bool := Qle_bool (hd_edge edges) x && Qle_bool x (last_edge edges).

Definition nclasses (edges : list Q) (x : Q) : nat := length (filter (fun k => in_class k x) (bins_of edges)).

Lemma sortedb_cons a b t : sortedb (a :: b :: t) = true -> a <= b /\ sortedb (b :: t) = true.
Proof. simpl. intro H. apply andb_true_iff in H. destruct H as [H1 H2]. apply Qle_bool_iff in H1. split; assumption. Qed.

Lemma sortedb_hd_le_last a t : sortedb (a :: t) = true -> a <= last (a :: t) 0.
Proof.
  revert a. induction t as [|b t IH]; intros a H.
  - simpl. lra.
  - apply sortedb_cons in H. destruct H as [Hab Hs]. specialize (IH b Hs).
    change (last (a :: b :: t) 0) with (last (b :: t) 0). lra.
Qed.

Lemma in_bin_true lo hi last x : in_bin lo hi last x = true <-> lo <= x /\ (if last then x <= hi else x < hi).
Proof.
  unfold in_bin. rewrite andb_true_iff, Qle_bool_iff. destruct last; [rewrite Qle_bool_iff|rewrite Qltb_lt]; tauto.
Qed.

Lemma in_bin_false_below lo hi last x : x < lo -> in_bin lo hi last x = false.
Proof.
  intro H. destruct (in_bin lo hi last x) eqn:E; [|reflexivity]. apply in_bin_true in E. lra.
Qed.

Lemma nclasses_cons a b t x :
  nclasses (a :: b :: t) x = ((if in_bin a b (is_nil t) x then 1 else 0) + nclasses (b :: t) x)%nat.
Proof. unfold nclasses. cbn [bins_of filter in_class]. destruct (in_bin a b (is_nil t) x); reflexivity. Qed.

Lemma nclasses_below a t x : sortedb (a :: t) = true -> x < a -> nclasses (a :: t) x = 0%nat.
Proof.
  revert a. induction t as [|b t IH]; intros a Hs Hx; [reflexivity|].
  apply sortedb_cons in Hs. destruct Hs as [Hab Hs].
  rewrite nclasses_cons, in_bin_false_below by assumption.
  apply IH; [assumption|lra].
Qed.

Theorem each_value_in_exactly_one_class edges x :
  sortedb edges = true -> (2 <= length edges)%nat ->
  nclasses edges x = if covered edges x then 1%nat else 0%nat.
Proof.
  destruct edges as [|a t]; [simpl; lia|]. revert a.
  induction t as [|b t IH]; intros a Hs Hl; [simpl in Hl; lia|].
  pose proof (sortedb_cons _ _ _ Hs) as [Hab Hs'].
  rewrite nclasses_cons.
  unfold covered, hd_edge, last_edge in *. cbn [hd] in *. change (last (a :: b :: t) 0) with (last (b :: t) 0).
  destruct t as [|c t].
  - (* single class [a, b] closed *)
    cbn [is_nil last]. unfold in_bin, nclasses. cbn [bins_of filter length].
    destruct (Qle_bool a x && Qle_bool x b); reflexivity.
  - cbn [is_nil]. specialize (IH b Hs' ltac:(simpl; lia)).
    pose proof (sortedb_hd_le_last _ _ Hs') as Hlast.
    set (L := last (b :: c :: t) 0) in *.
    destruct (in_bin a b false x) eqn:E1.
    + apply in_bin_true in E1. destruct E1 as [Hax Hxb].
      rewrite nclasses_below by assumption.
      assert (Ha : Qle_bool a x = true) by (apply Qle_bool_iff; assumption).
      assert (Hb : Qle_bool x L = true) by (apply Qle_bool_iff; lra).
      rewrite Ha, Hb. reflexivity.
    + rewrite IH. destruct (Qle_bool b x) eqn:Hbx.
      * apply Qle_bool_iff in Hbx. assert (Ha : Qle_bool a x = true) by (apply Qle_bool_iff; lra).
        rewrite Ha. reflexivity.
      * cbn [andb]. destruct (Qle_bool a x) eqn:Hax; [|reflexivity]. cbn [andb].
        exfalso. apply Qle_bool_iff in Hax.
        assert (x < b). { apply Qnot_le_lt. intro. assert (Qle_bool b x = true) by (apply Qle_bool_iff; assumption). congruence. }
        assert (in_bin a b false x = true) by (apply in_bin_true; split; assumption). congruence.
Qed.

(* ---------------------------------------------------------------- class counts sum to the (weighted) number of cycles in the covered range *)
Lemma sum_over_classes {A} (key : A -> Q) (w : A -> Q) (ks : list (Q * Q * bool)) (pts : list A) :
  Qsum (map (fun k => Qsum (map (fun p => if in_class k (key p) then w p else 0) pts)) ks)
  == Qsum (map (fun p => inject_Z (Z.of_nat (length (filter (fun k => in_class k (key p)) ks))) * w p) pts).
Proof.
  rewrite Qsum_swap. apply Qsum_map_ext. intros p _.
  induction ks as [|k ks IH]; [simpl; ring|].
  cbn [map Qsum fold_right filter]. change (fold_right Qplus 0) with Qsum. rewrite IH.
  destruct (in_class k (key p)); [|ring].
  cbn [length]. rewrite Nat2Z.inj_succ, <- Z.add_1_r, inject_Z_plus. ring.
Qed.

Theorem histogram_each_cycle_once edges (pts : list (Q * Q)) :
  sortedb edges = true -> (2 <= length edges)%nat ->
  Qsum (hist1 edges pts) == Qsum (map (fun p => if covered edges (fst p) then snd p else 0) pts).
Proof.
  intros Hs Hl. unfold hist1, class_count.
  rewrite (sum_over_classes fst snd). apply Qsum_map_ext. intros p _.
  fold (nclasses edges (fst p)). rewrite each_value_in_exactly_one_class by assumption.
  destruct (covered edges (fst p)); simpl; ring.
Qed.

(* unweighted corollary: with weight 1 for every loop the total is the NUMBER of loops in the covered range *)
Lemma Qsum_indicator {A} (p : A -> bool) l : Qsum (map (fun x => if p x then 1 else 0) l) == inject_Z (Z.of_nat (length (filter p l))).
Proof.
  induction l as [|a l IH]; [reflexivity|]. cbn [map Qsum fold_right filter]. change (fold_right Qplus 0) with Qsum.
  rewrite IH. destruct (p a); [|ring]. cbn [length]. rewrite Nat2Z.inj_succ, <- Z.add_1_r, inject_Z_plus. ring.
Qed.

Theorem histogram_counts_loops edges (xs : list Q) :
  sortedb edges = true -> (2 <= length edges)%nat ->
  Qsum (hist1 edges (map (fun x => (x, 1)) xs)) == inject_Z (Z.of_nat (length (filter (covered edges) xs))).
Proof.
  intros Hs Hl. rewrite histogram_each_cycle_once by assumption. rewrite map_map. cbn [fst snd].
  apply Qsum_indicator.
Qed.

(* ---------------------------------------------------------------- the range histogram is the marginal of the range/mean histogram *)
Theorem range_histogram_is_marginal redges medges (pts : list (Q * Q * Q)) :
  sortedb medges = true -> (2 <= length medges)%nat ->
  Forall (fun p => covered medges (snd (fst p)) = true) pts ->
  Forall2 Qeq (map Qsum (hist2 redges medges pts)) (hist1 redges (map (fun p => (fst (fst p), snd p)) pts)).
Proof.
  intros Hs Hl Hcov.
  unfold hist2, hist1. rewrite !map_map.
  induction (bins_of redges) as [|kx ks IH]; [constructor|].
  cbn [map]. constructor; [|exact IH].
  unfold class_count2, class_count. rewrite map_map. cbn [fst snd].
  rewrite (Qsum_map_ext
             (fun ky => Qsum (map (fun p : Q * Q * Q => if in_class kx (fst (fst p)) && in_class ky (snd (fst p)) then snd p else 0) pts))
             (fun ky => Qsum (map (fun p : Q * Q * Q => if in_class ky (snd (fst p)) then (if in_class kx (fst (fst p)) then snd p else 0) else 0) pts))).
  2:{ intros ky _. apply Qsum_map_ext. intros p _. destruct (in_class kx (fst (fst p))), (in_class ky (snd (fst p))); reflexivity. }
  rewrite (sum_over_classes (fun p : Q * Q * Q => snd (fst p)) (fun p => if in_class kx (fst (fst p)) then snd p else 0)).
  apply Qsum_map_ext. intros p Hp.
  fold (nclasses medges (snd (fst p))). rewrite each_value_in_exactly_one_class by assumption.
  rewrite Forall_forall in Hcov. rewrite (Hcov p Hp). simpl. ring.
Qed.

(* a loop whose mean is outside the covered mean range is lost from the range/mean histogram: the hypothesis is needed *)
Example marginal_needs_covered_means :
  map Qsum (hist2 [0; 2] [0; 1] [(1, 5, 1)]) = [0] /\ hist1 [0; 2] [(1, 1)] = [1].
Proof. vm_compute. split; reflexivity. Qed.

(* edges on class borders: the left border belongs to the class, the right one to the next, the last right border is kept *)
Example edge_cases :
  hist1 [0; 1; 2; 4] [(0, 1); (1, 1); (2, 1); (4, 1); (4 + (1#8), 1); (- (1#8), 1)] = [1; 1; 2].
Proof. vm_compute. reflexivity. Qed.
