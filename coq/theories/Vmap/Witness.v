(* C20 -- witnesses: refutations of the unrestricted round trip on the model of the code as it is,
   and examples showing that the hypotheses of the theorems are satisfiable.  Floats are integers here. *)
From Coq Require Import ZArith List Bool Lia String.
From PL Require Import Vmap.Model Vmap.Lists Vmap.Thm.
Import ListNotations.
Open Scope Z_scope.
Open Scope string_scope.

Definition nn (_ : Z) : bool := false.

Ltac all_rows := let r := fresh in let H := fresh in
  intros r H; cbn in H; repeat (destruct H as [<-|H]; [split; reflexivity|]); contradiction.
Ltac consistent_rows := let r := fresh in let r' := fresh in let H := fresh in let H' := fresh in let E := fresh in
  intros r r' H H' E; cbn in H, H';
  repeat (destruct H as [<-|H]); try contradiction;
  repeat (destruct H' as [<-|H']); try contradiction; try reflexivity; cbn in E; try discriminate.

Definition R (e n : Z) (p : list Z) : row Z := mkrow e n p.
Definition expected (rows : list (row Z)) : list (irow Z) :=
  map (fun r => mkirow (re Z r) (rn Z r) [Some (rp Z r)]) (sorted_rows Z rows).

(* two triangles, rows of the two elements interleaved; coordinates / one element-nodal value per row *)
Definition tri_xy : list (row Z) :=
  [R 1 1 [0;0;0]; R 2 2 [1;0;0]; R 1 2 [1;0;0]; R 2 3 [0;1;0]; R 1 3 [0;1;0]; R 2 4 [1;1;0]].
Definition tri_val : list (row Z) :=
  [R 1 1 [101]; R 2 2 [202]; R 1 2 [102]; R 2 3 [203]; R 1 3 [103]; R 2 4 [204]].

Theorem roundtrip_interleaved_rows_refuted :
  exists rows vrows : list (row Z),
    map (rkey Z) vrows = map (rkey Z) rows /\ ids32 Z vrows /\ nodup_pairs Z vrows /\ ~ grouped Z vrows /\
    exists d f1 f2 s fr,
      add_geometry Z nn Z.eqb cfg_asis 2 (empty_file Z) "g" rows None = (d, f1, OK tt) /\
      add_variable Z nn cfg_asis f1 "s" "g" "v" loc_elnodal 1 vrows true None = (f2, OK tt) /\
      irun Z cfg_asis f2 (istate0 Z) [MakeMesh "g" None; JoinVariable "v" (Some "s") 1; ToFrame] None = OK (s, Some fr) /\
      fr <> expected vrows.
Proof.
  exists tri_xy, tri_val. split; [reflexivity|]. split; [all_rows|]. split; [apply nodupP_NoDup; reflexivity|].
  split; [unfold grouped; vm_compute; discriminate|].
  do 5 eexists. split; [vm_compute; reflexivity|]. split; [vm_compute; reflexivity|].
  split; [vm_compute; reflexivity|]. vm_compute. discriminate.
Qed.

(* the same frame under the repaired layout comes back as expected (instance of roundtrip_variable) *)
Example roundtrip_interleaved_rows_repaired :
  exists d f1 f2 s,
    add_geometry Z nn Z.eqb cfg_fixed 2 (empty_file Z) "g" tri_xy None = (d, f1, OK tt) /\
    add_variable Z nn cfg_fixed f1 "s" "g" "v" loc_elnodal 1 tri_val true None = (f2, OK tt) /\
    irun Z cfg_fixed f2 (istate0 Z) [MakeMesh "g" None; JoinVariable "v" (Some "s") 1; ToFrame] None
      = OK (s, Some (expected tri_val)).
Proof. do 4 eexists. split; [vm_compute; reflexivity|]. split; vm_compute; reflexivity. Qed.

(* a node id beyond int32: clamped in the file, so the mesh comes back with another node id (any variant) *)
Definition big_tet : list (row Z) := [R 1 3000000000 [0;0;0]; R 1 2 [1;0;0]; R 1 3 [0;1;0]; R 1 4 [0;0;1]].
Theorem roundtrip_large_id_refuted :
  forall c, exists rows : list (row Z),
    consistent Z rows /\ nodup_pairs Z rows /\ coords_ok Z c rows /\ ~ ids32 Z rows /\
    exists d f1 s fr,
      add_geometry Z nn Z.eqb c 2 (empty_file Z) "g" rows None = (d, f1, OK tt) /\
      irun Z c f1 (istate0 Z) [MakeMesh "g" None; JoinCoordinates; ToFrame] None = OK (s, Some fr) /\
      fr <> expected rows.
Proof.
  intro c. exists big_tet. split; [consistent_rows|]. split; [apply nodupP_NoDup; reflexivity|].
  split; [right; intros r H; cbn in H; repeat (destruct H as [<-|H]; [reflexivity|]); contradiction|].
  split; [intro H; destruct (H (R 1 3000000000 [0;0;0]) (or_introl eq_refl)) as [_ H']; vm_compute in H'; discriminate|].
  destruct c as [a b c0 d e]. do 4 eexists.
  split; [destruct a, b, c0, d, e; vm_compute; reflexivity|].
  split; [destruct a, b, c0, d, e; vm_compute; reflexivity|].
  vm_compute. discriminate.
Qed.

(* mixed element types (a tet4 and a tet10 sharing a face): rejected by the code as it is, exported after the repair *)
Definition tet4_tet10 : list (row Z) :=
  [R 1 1 [0;0;0]; R 1 2 [1;0;0]; R 1 3 [0;1;0]; R 1 4 [0;0;1];
   R 2 2 [1;0;0]; R 2 3 [0;1;0]; R 2 4 [0;0;1]; R 2 5 [1;1;1]; R 2 6 [2;0;0]; R 2 7 [0;2;0]; R 2 8 [0;0;2];
   R 2 9 [2;2;0]; R 2 10 [0;2;2]; R 2 11 [2;0;2]].
Theorem mixed_element_types_refuted :
  exists rows : list (row Z),
    ids32 Z rows /\ consistent Z rows /\ nodup_pairs Z rows /\ grouped Z rows /\
    (exists d f1, add_geometry Z nn Z.eqb cfg_asis 2 (empty_file Z) "g" rows None = (d, f1, Err EExport)) /\
    (exists d f1 s, add_geometry Z nn Z.eqb cfg_fixed 2 (empty_file Z) "g" rows None = (d, f1, OK tt) /\
        irun Z cfg_fixed f1 (istate0 Z) [MakeMesh "g" None; JoinCoordinates; ToFrame] None = OK (s, Some (expected rows))).
Proof.
  exists tet4_tet10. split; [all_rows|]. split; [consistent_rows|]. split; [apply nodupP_NoDup; reflexivity|].
  split; [vm_compute; reflexivity|]. split.
  - do 2 eexists. vm_compute. reflexivity.
  - do 3 eexists. split; vm_compute; reflexivity.
Qed.

(* exporter state leaks: after a 3D geometry a flat triangle geometry is refused *)
Definition tet : list (row Z) := [R 1 1 [0;0;0]; R 1 2 [1;0;0]; R 1 3 [0;1;0]; R 1 4 [0;0;1]].
Definition tris : list (row Z) := [R 1 1 [0;0;0]; R 1 2 [1;0;0]; R 1 3 [0;1;0]; R 2 2 [1;0;0]; R 2 3 [0;1;0]; R 2 4 [1;1;0]].
Theorem dimension_leak_refuted :
  exists d1 f1, add_geometry Z nn Z.eqb cfg_asis 2 (empty_file Z) "a" tet None = (d1, f1, OK tt) /\
    (exists d2, add_geometry Z nn Z.eqb cfg_asis d1 f1 "b" tris None = (d2, f1, Err EExport)) /\
    (exists d2 f2, add_geometry Z nn Z.eqb cfg_asis 2 (empty_file Z) "b" tris None = (d2, f2, OK tt)) /\
    (exists d2 f2, add_geometry Z nn Z.eqb cfg_fixed d1 f1 "b" tris None = (d2, f2, OK tt)).
Proof.
  do 2 eexists. split; [vm_compute; reflexivity|]. split; [eexists; vm_compute; reflexivity|].
  split; do 2 eexists; vm_compute; reflexivity.
Qed.

(* a 2D frame without z column: exported, but the importer as it is cannot read the coordinates *)
Definition tris_xy : list (row Z) := [R 1 1 [0;0]; R 1 2 [1;0]; R 1 3 [0;1]; R 2 2 [1;0]; R 2 3 [0;1]; R 2 4 [1;1]].
Theorem frame_without_z_refuted :
  exists d f1, add_geometry Z nn Z.eqb cfg_asis 2 (empty_file Z) "g" tris_xy None = (d, f1, OK tt) /\
    irun Z cfg_asis f1 (istate0 Z) [MakeMesh "g" None; JoinCoordinates; ToFrame] None = Err EValue /\
    exists s, irun Z cfg_fixed f1 (istate0 Z) [MakeMesh "g" None; JoinCoordinates; ToFrame] None = OK (s, Some (expected tris_xy)).
Proof.
  do 2 eexists. split; [vm_compute; reflexivity|]. split; [vm_compute; reflexivity|]. eexists. vm_compute. reflexivity.
Qed.

(* sets written by the exporter are unreadable for the importer as it is *)
Theorem stored_set_unreadable_refuted :
  exists d f1 f2, add_geometry Z nn Z.eqb cfg_asis 2 (empty_file Z) "g" tet None = (d, f1, OK tt) /\
    add_set Z f1 "g" 0 [2; 3] tet "A" None = (f2, OK tt) /\
    irun Z cfg_asis f2 (istate0 Z) [MakeMesh "g" None; FilterNodeSet "A"; ToFrame] None = Err EAttr.
Proof. do 3 eexists. split; [vm_compute; reflexivity|]. split; vm_compute; reflexivity. Qed.

(* honest limit of the roll-back: the state group created before the try block stays after a failed add_variable *)
Example failed_add_variable_leaves_state_group :
  exists d f1 f2, add_geometry Z nn Z.eqb cfg_asis 2 (empty_file Z) "g" tet None = (d, f1, OK tt) /\
    add_variable Z nn cfg_asis f1 "s" "g" "v" loc_node 1 tet true (Some 3%nat) = (f2, Err EExport) /\
    f_vars Z f2 = [] /\ f_states Z f1 = [] /\ f_states Z f2 = ["s"].
Proof. do 3 eexists. split; [vm_compute; reflexivity|]. split; [vm_compute; reflexivity|]. repeat split. Qed.

(* the hypotheses of the round-trip theorems are satisfiable for the code as it is *)
Definition tet_val : list (row Z) := [R 1 1 [11]; R 1 2 [12]; R 1 3 [13]; R 1 4 [14]].
Example roundtrip_hypotheses_satisfiable :
  ids32 Z tet /\ consistent Z tet /\ nodup_pairs Z tet /\ coords_ok Z cfg_asis tet /\ grouped Z tet_val /\
  exists d f1 f2,
    add_geometry Z nn Z.eqb cfg_asis 2 (empty_file Z) "g" tet None = (d, f1, OK tt) /\
    add_variable Z nn cfg_asis f1 "s" "g" "v" loc_elnodal 1 tet_val true None = (f2, OK tt).
Proof.
  split; [all_rows|]. split; [consistent_rows|]. split; [apply nodupP_NoDup; reflexivity|].
  split; [right; intros r H; cbn in H; repeat (destruct H as [<-|H]; [reflexivity|]); contradiction|].
  split; [vm_compute; reflexivity|]. do 3 eexists. split; vm_compute; reflexivity.
Qed.
